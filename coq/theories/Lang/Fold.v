(* Fold.v — executable model of MPCL constant folding (property C12).

   Go sources mirrored, function by function:
     compiler/mpa/mpint.go        mpa.Int: fields bits / i64 / values, small path
                                  (int64 arithmetic + setSmall mask) and big path
                                  (builds a circuit with the circuits package and
                                  evaluates it with Circuit.Compute)
     compiler/ssa/generator.go    Generator.Constant (case *mpa.Int): MinBits,
                                  32/64/n sizing, Type.Bits widening, SetTypeSize
     compiler/ast/eval.go         BasicLit.Eval, Call.Eval (integer cast),
                                  Unary.Eval, Binary.Eval / evalConst
     compiler/ast/ssagen.go       Binary.resultType, Binary.SSA (instruction
                                  selection when an operand is not constant),
                                  Unary.SSA, Return.SSA (CanAssign + mov)
     compiler/ssa/value.go        TypeCompatible, Value.Bit / isSet
     compiler/ssa/program.go      DefineConstants (a constant's wires)
     compiler/ssa/circuitgen.go + compiler/circuits/*.go
                                  what each instruction's circuit computes; this is
                                  NOT a gate-level model: [instr_sem] is the exact
                                  arithmetic function of the builders (adder,
                                  subtractor, Karatsuba multiplier, long divider,
                                  signed divider wrapper, comparators, bitwise,
                                  wire-moving shifts) including their zero-padding
                                  of operands of different widths.  It is tied to
                                  the real compiled circuits by the correspondence
                                  check (run-time variants of every expression).
   The big path of mpa.Int uses the same builders on x.bits / y.bits wide inputs;
   it is modelled by the same arithmetic functions ([bigAddSub], [idiv_q] ...).

   One mpa.Int is modelled as (bits, val): val is z.values when non-nil, else
   z.i64.  small() = values.Int64() or i64 = [wrap_s64 val]; big() = val.
   No proofs here. *)
From Coq Require Import ZArith List Bool.
Import ListNotations.
Open Scope Z_scope.

(* ---------- results ---------- *)
Inductive res (A : Type) : Type :=
| Ok (a : A)
| Err (code : Z)      (* compile error, class [code] *)
| Panic (code : Z).   (* the compiler panics, class [code] *)
Arguments Ok {A} a.
Arguments Err {A} code.
Arguments Panic {A} code.

Definition bind {A B} (r : res A) (f : A -> res B) : res B :=
  match r with Ok a => f a | Err c => Err c | Panic c => Panic c end.
Notation "'do' x <- r ; k" := (bind r (fun x => k)) (at level 200, x ident, r at level 100, k at level 200).

(* error / panic classes (the harness maps the compiler's messages to these) *)
Definition E_RETURN   := 1.  (* "invalid value T for return value T'"           Return.SSA *)
Definition E_TYPES    := 2.  (* "invalid types: T op T'"                        Binary.resultType *)
Definition E_OPERATOR := 3.  (* "invalid r-value" / "operator not defined on"   Binary.evalConst *)
Definition E_CAST     := 5.  (* "casting T not supported"                       Call.Eval *)
Definition E_UNARY    := 6.  (* "invalid unary expression" / "not supported" / "operator ! not defined" *)
Definition E_SHIFTIDX := 7.  (* "unsupported index type" (run-time shift count) circuitgen *)
Definition E_NEGSHIFT := 8.  (* "negative shift count"                          circuitgen *)
Definition P_SETSMALL := 1.  (* panic "Int.setSmall: bits=N > 64"               mpint.go setSmall *)
Definition P_OUTPUT   := 2.  (* panic "Output already assigned"                 circuits.Compiler.Compile via mpa bin *)
Definition P_NEWZERO  := 3.  (* panic "mpa.New: bits are zero" *)

(* ---------- int64 / uint64 conversions ---------- *)
Definition u64 (x : Z) : Z := x mod 2^64.                       (* uint64(x) *)
Definition wrap_s64 (x : Z) : Z := (x + 2^63) mod 2^64 - 2^63.  (* int64 wrap-around *)

(* ---------- mpa.Int ---------- *)
Record mint := mkM { mbits : Z; mval : Z }.

Definition isSmall (z : mint) : bool := mbits z <=? 64.
Definition small (z : mint) : Z := wrap_s64 (mval z).
Definition big (z : mint) : Z := mval z.
(* func (z *Int) ubig(): the non-negative number the bits of z spell — a small Int
   with values == nil and i64 < 0 (a folded 64-bit result with bit 63 set) reads as
   uint64(i64); everything else as big().  (Repair of finding F6m.) *)
Definition ubig (z : mint) : Z :=
  if isSmall z && (mval z <? 0) then (mval z) mod 2^64 else mval z.

(* func (z *Int) setSmall(x int64): mask >>= 64 - bits; i64 = int64(uint64(x) & mask) *)
Definition setSmall (bits x : Z) : res mint :=
  if 64 <? bits then Panic P_SETSMALL
  else Ok (mkM bits (wrap_s64 ((u64 x) mod 2^bits))).

(* func (z *Int) setBig(x) — literals (x >= 0): IsInt64 -> bits 64 + setSmall;
   else bits = BitLen (+1 when the top bit is set, always for x > 0) *)
Definition bitlen_abs (x : Z) : Z := if x =? 0 then 0 else Z.log2 (Z.abs x) + 1.
Definition setBig (x : Z) : res mint :=
  if (- 2^63 <=? x) && (x <? 2^63) then setSmall 64 x
  else Ok (mkM (bitlen_abs x + (if 0 <? x then 1 else 0)) x).

(* func (z *Int) BitLen() *)
Definition BitLen (z : mint) : Z :=
  if isSmall z then Z.max 1 (Z.log2 (u64 (small z)) + 1)
  else bitlen_abs (big z).

(* func (z *Int) Bit(i) *)
Definition Bit (z : mint) (i : Z) : bool :=
  if isSmall z then Z.testbit (small z) i else Z.testbit (big z) i.

(* func (z *Int) Int64() *)
Definition Int64 (z : mint) : Z :=
  if isSmall z then
    let v := small z in
    let signBit := 2 ^ (mbits z - 1) in
    if (mbits z =? 64) || (Z.land v signBit =? 0) then v
    else wrap_s64 (- (2 * signBit - v))
  else wrap_s64 (big z).

(* func (z *Int) signed(signBit) *)
Definition signed (z : mint) (signBit : Z) : Z :=
  let b := big z in
  let sign := if 0 <=? signBit then (if Z.testbit b signBit then -1 else 1) else 0 in
  let rsign := Z.sgn b in
  if negb (sign =? 0) && negb (sign =? rsign) then - b else b.

(* func (z *Int) Cmp(x) : -1 / 0 / 1 *)
Definition cmpZ (a b : Z) : Z := if a <? b then -1 else if b <? a then 1 else 0.
Definition Cmp (z x : mint) : Z :=
  if isSmall z && isSmall x then cmpZ (Int64 z) (Int64 x)
  else cmpZ (signed z (mbits z - 1)) (signed x (mbits x - 1)).

(* ----- what the circuits built by the circuits package compute ----- *)
(* two's complement reading of an n-bit vector *)
Definition sgn_at (n v : Z) : Z := if v <? 2^(n-1) then v else v - 2^n.

(* circ_divider.go NewUDividerLong: quotient bits are NOT borrow; y = 0 never
   borrows: all-ones quotient, remainder = dividend *)
Definition udiv_q (n x y : Z) : Z := if y =? 0 then 2^n - 1 else x / y.
Definition udiv_r (n x y : Z) : Z := if y =? 0 then x else x mod y.
(* circ_divider.go NewIDivider on n-bit zero-padded operands: |a|, |b| by
   conditional negation, unsigned division, quotient negated when signs differ;
   the remainder is that of |a| / |b| (never negated) *)
Definition absn (n v : Z) : Z := if v <? 2^(n-1) then v else (2^n - v) mod 2^n.
Definition idiv_q (n wo x y : Z) : Z :=
  let q0 := (udiv_q n (absn n x) (absn n y)) mod 2^wo in
  if xorb (negb (x <? 2^(n-1))) (negb (y <? 2^(n-1))) then (- q0) mod 2^wo else q0.
Definition idiv_r (n wo x y : Z) : Z := (udiv_r n (absn n x) (absn n y)) mod 2^wo.

(* mpa.Int.bin with NewAdder / NewSubtractor: inputs x.bits / y.bits wide, output
   w = max(x.bits, y.bits, z.bits) wide.  Both builders end with
   "for i := len(x)+1; i < len(z); i++ { z[i] = cc.ZeroWire() }" which overwrites
   elements of the compiler's OutputWires slice with the (gate-driven) zero wire;
   Compiler.Compile then panics "Output already assigned". *)
Definition inval (m : mint) : Z := (big m) mod 2^(mbits m).   (* Compute reads bits 0..bits-1 *)
Definition bigAddSub (sub : bool) (z x y : mint) : res mint :=
  let n := Z.max (mbits x) (mbits y) in
  let w := Z.max n (mbits z) in
  if n + 1 <? w then Panic P_OUTPUT
  else Ok (mkM w ((if sub then inval x - inval y else inval x + inval y) mod 2^w)).
(* Karatsuba multiplier, output w wide: the product modulo 2^w *)
Definition bigMul (z x y : mint) : res mint :=
  let w := Z.max (Z.max (mbits x) (mbits y)) (mbits z) in
  Ok (mkM w ((inval x * inval y) mod 2^w)).

(* ----- the operations used by the constant folder; z is the receiver ----- *)
Definition mAdd (z x y : mint) : res mint :=
  if isSmall z then setSmall (Z.max (mbits x) (mbits y)) (wrap_s64 (small x + small y))
  else bigAddSub false z x y.
Definition mSub (z x y : mint) : res mint :=
  if isSmall z then setSmall (mbits z) (wrap_s64 (small x - small y))
  else bigAddSub true z x y.
Definition mMul (z x y : mint) : res mint :=
  if isSmall z then setSmall (mbits z) (wrap_s64 (small x * small y))
  else bigMul z x y.
Definition mAnd (z x y : mint) : res mint :=
  if isSmall z then setSmall (mbits z) (Z.land (small x) (small y))
  else Ok (mkM (mbits z) (Z.land (ubig x) (ubig y))).
Definition mOr (z x y : mint) : res mint :=
  if isSmall z then setSmall (mbits z) (Z.lor (small x) (small y))
  else Ok (mkM (mbits z) (Z.lor (ubig x) (ubig y))).
Definition mXor (z x y : mint) : res mint :=
  if isSmall z then setSmall (mbits z) (Z.lxor (small x) (small y))
  else Ok (mkM (mbits z) (Z.lxor (ubig x) (ubig y))).
Definition mAndNot (z x y : mint) : res mint :=
  if isSmall z then setSmall (mbits z) (Z.ldiff (small x) (small y))
  else Ok (mkM (mbits z) (Z.ldiff (ubig x) (ubig y))).
(* Go int64 "/" truncates toward zero (Z.quot); MinInt64 / -1 wraps *)
Definition mDiv (z x y : mint) : res mint :=
  if isSmall z then
    if small y =? 0 then setSmall (mbits z) (-1)
    else setSmall (mbits z) (wrap_s64 (Z.quot (small x) (small y)))
  else let n := Z.max (mbits x) (mbits y) in
       Ok (mkM n (idiv_q n n (inval x mod 2^n) (inval y mod 2^n))).
Definition mMod (z x y : mint) : res mint :=
  if isSmall z then
    if small y =? 0 then setSmall (mbits z) (small x)
    else setSmall (mbits z) (Z.rem (small x) (small y))
  else let n := Z.max (mbits x) (mbits y) in
       Ok (mkM n (idiv_r n n (inval x mod 2^n) (inval y mod 2^n))).
(* n is a Go uint: shifts by >= 64 give 0 (<<) resp. 0 / -1 (>> on int64) *)
(* big path of Lsh: "z.values.Lsh(..); for i := z.values.BitLen()-1; i >= z.bits; i-- {
   z.values.SetBit(z.values, i, 0) }": bits w .. BitLen-1 of the two's complement are
   cleared (BitLen = that of the absolute value, taken once).  For v >= 0 this is
   v mod 2^w (FoldClassProof.lsh_clear_nonneg); the operand is read with ubig(), so v
   is non-negative for every operand Generator.Constant can leave behind. *)
Definition lsh_clear (w v : Z) : Z :=
  let bl := bitlen_abs v in
  if bl <=? w then v else v - (v mod 2^bl - v mod 2^w).
Definition mLsh (z x : mint) (n : Z) : res mint :=
  if isSmall z then setSmall (mbits z) (if 64 <=? n then 0 else wrap_s64 (small x * 2^n))
  else Ok (mkM (mbits z) (lsh_clear (mbits z) (ubig x * 2^n))).
Definition mRsh (z x : mint) (n : Z) : res mint :=
  if isSmall z then setSmall (mbits z) (Z.shiftr (small x) n)
  else Ok (mkM (mbits x) (Z.shiftr (ubig x) n)).

(* ---------- types.Info (Type, Bits, MinBits) and constant values ---------- *)
Inductive kind := KInt | KUint | KBool.
Definition kind_eqb (a b : kind) : bool :=
  match a, b with KInt, KInt | KUint, KUint | KBool, KBool => true | _, _ => false end.
Definition intlike (k : kind) : bool := match k with KBool => false | _ => true end.
Record tinfo := mkT { tk : kind; tbits : Z; tmin : Z }.
Definition tBool := mkT KBool 1 1.

Inductive cval :=
| CI (t : tinfo) (m : mint)     (* ssa.Value{Const, Type t, ConstValue *mpa.Int} *)
| CB (b : bool).                (* ssa.Value{Const, Type Bool, ConstValue bool}  *)

(* ssa/generator.go Generator.Constant, case *mpa.Int *)
Definition constant (m : mint) (ti : tinfo) : cval :=
  let minBits := BitLen m in
  let bits := if 64 <? minBits then minBits else if 32 <? minBits then 64 else 32 in
  CI (mkT (tk ti) (Z.max (tbits ti) bits) minBits) (mkM bits (mval m)).
Definition tUndefInt := mkT KInt 0 0.     (* types.Undefined, becomes TInt *)

(* BasicLit.Eval of an integer literal (lexer: mpa.Parse -> setBig) *)
Definition literal (v : Z) : res cval := do m <- setBig v; Ok (constant m tUndefInt).

(* Call.Eval: cast of a constant to a concrete intN / uintN *)
Definition cast (k : kind) (n : Z) (c : cval) : res cval :=
  match c with
  | CI t m => Ok (CI (mkT k n (if n <? tmin t then n else tmin t)) m)
  | CB _ => Err E_CAST
  end.

(* Unary.Eval *)
Definition unaryMinus (c : cval) : res cval :=
  match c with
  | CI t m => let r := mkM (tbits t) 0 in       (* mpa.NewInt(0, expr.Type.Bits) *)
              do d <- mSub r r m; Ok (constant d t)
  | CB _ => Err E_UNARY
  end.
Definition unaryNot (c : cval) : res cval :=
  match c with CB b => Ok (CB (negb b)) | CI _ _ => Err E_UNARY end.

Inductive binop :=
| OAdd | OSub | OMul | ODiv | OMod | OBand | OBor | OBxor | OBclr | OLsh | ORsh
| OLt | OLe | OGt | OGe | OEq | ONeq | OLand | OLor.

Definition is_cmp (op : binop) : bool :=
  match op with OLt | OLe | OGt | OGe | OEq | ONeq => true | _ => false end.
Definition is_shift (op : binop) : bool := match op with OLsh | ORsh => true | _ => false end.
Definition is_logic (op : binop) : bool := match op with OLand | OLor => true | _ => false end.

Definition ctype (c : cval) : tinfo := match c with CI t _ => t | CB _ => tBool end.

(* mpa.New(bits) *)
Definition mNew (bits : Z) : res mint := if bits =? 0 then Panic P_NEWZERO else Ok (mkM bits 0).

(* Binary.resultType for two constants (Value.TypeCompatible, both Const) *)
Definition resultTypeCC (op : binop) (l r : cval) : res tinfo :=
  if is_cmp op || is_logic op then Ok tBool
  else if is_shift op then
    if intlike (tk (ctype l)) && intlike (tk (ctype r)) then Ok (ctype l) else Err E_TYPES
  else if kind_eqb (tk (ctype l)) (tk (ctype r)) then Ok (ctype l) else Err E_TYPES.

(* Binary.evalConst *)
Definition evalConst (op : binop) (l r : cval) : res cval :=
  do rt <- resultTypeCC op l r;
  match l, r with
  | CB a, CB b =>
      match op with
      | OEq => Ok (CB (Bool.eqb a b))
      | ONeq => Ok (CB (negb (Bool.eqb a b)))
      | OLand => Ok (CB (a && b))
      | OLor => Ok (CB (a || b))
      | _ => Err E_OPERATOR
      end
  | CI _ x, CI _ y =>
      let arith (f : mint -> mint -> mint -> res mint) :=
        do z <- mNew (tbits rt); do v <- f z x y; Ok (constant v rt) in
      let shift (f : mint -> mint -> Z -> res mint) :=
        do z <- mNew (tbits rt); do v <- f z x (u64 (Int64 y)); Ok (constant v rt) in
      match op with
      | OMul => arith mMul | ODiv => arith mDiv | OMod => arith mMod
      | OLsh => shift mLsh | ORsh => shift mRsh
      | OBand => arith mAnd | OBclr => arith mAndNot | OBor => arith mOr | OBxor => arith mXor
      | OAdd => arith mAdd | OSub => arith mSub
      | OEq => Ok (CB (Cmp x y =? 0)) | ONeq => Ok (CB (negb (Cmp x y =? 0)))
      | OLt => Ok (CB (Cmp x y =? -1)) | OLe => Ok (CB (negb (Cmp x y =? 1)))
      | OGt => Ok (CB (Cmp x y =? 1)) | OGe => Ok (CB (negb (Cmp x y =? -1)))
      | OLand | OLor => Err E_OPERATOR
      end
  | _, _ => Err E_OPERATOR
  end.

(* ---------- what the rest of the program sees of a constant ----------
   ssa/program.go DefineConstants: Type.Bits wires, wire i = Value.Bit(i);
   ssa/value.go isSet for *mpa.Int: false at and above BitLen, else Int.Bit. *)
(* Wire i (i < Type.Bits) is 1 iff i < BitLen and bit i of small() / big() is set;
   the number these wires spell is that value modulo 2^min(Type.Bits, BitLen)
   (Z's mod and testbit are two's complement for negative values, like int64 >>
   and big.Int.Bit). *)
Definition const_wires (c : cval) : Z :=
  match c with
  | CI t m => (if isSmall m then small m else big m) mod 2^(Z.min (tbits t) (BitLen m))
  | CB b => if b then 1 else 0
  end.
(* (kind, width, wire bits as an unsigned number): the strict observable *)
Definition seen (c : cval) : kind * Z * Z := (tk (ctype c), tbits (ctype c), const_wires c).
(* the number the program reads from those wires *)
Definition num (s : kind * Z * Z) : Z :=
  match s with (KInt, w, v) => sgn_at w v | (_, _, v) => v end.

(* ---------- run-time values and instruction semantics ---------- *)
Inductive value :=
| VC (c : cval)
| VD (k : kind) (w : Z) (v : Z).     (* w wires holding v, 0 <= v < 2^w *)

Definition vkind (v : value) : kind := match v with VC c => tk (ctype c) | VD k _ _ => k end.
Definition vbits (v : value) : Z := match v with VC c => tbits (ctype c) | VD _ w _ => w end.
Definition vwires (v : value) : Z := match v with VC c => const_wires c | VD _ _ x => x end.

(* circuitgen.go per instruction, on operands of widths wx, wy (zero-padded to
   n = max by every builder), output wo wires.  k = type the instruction was
   selected for (left operand's type). *)
Definition instr_sem (op : binop) (k : kind) (wx x wy y wo : Z) : Z :=
  let n := Z.max wx wy in
  let sg v := match k with KInt => sgn_at n v | _ => v end in
  let b2z (b : bool) := if b then 1 else 0 in
  match op with
  | OAdd => (x + y) mod 2^wo
  | OSub => (x - y) mod 2^(Z.min wo (n + 1))
  | OMul => (x * y) mod 2^wo
  | ODiv => match k with KInt => idiv_q n wo x y | _ => (udiv_q n x y) mod 2^wo end
  | OMod => match k with KInt => idiv_r n wo x y | _ => (udiv_r n x y) mod 2^wo end
  | OBand => (Z.land x y) mod 2^wo
  | OBor => (Z.lor x y) mod 2^wo
  | OBxor => (Z.lxor x y) mod 2^wo
  | OBclr => (Z.ldiff x y) mod 2^wo
  | OLsh => (x * 2^y) mod 2^wo                               (* y = constant count *)
  | ORsh => (Z.shiftr (match k with KInt => sgn_at wx x | _ => x end) y) mod 2^wo
  | OLt => b2z (sg x <? sg y) | OLe => b2z (sg x <=? sg y)
  | OGt => b2z (sg y <? sg x) | OGe => b2z (sg y <=? sg x)
  | OEq => b2z (x =? y) | ONeq => b2z (negb (x =? y))
  | OLand => b2z (negb (x =? 0) && negb (y =? 0))
  | OLor => b2z (negb (x =? 0) || negb (y =? 0))
  end.

(* types.Info.CanAssignConst / Equal as used by TypeCompatible with one constant *)
Definition canAssignConst (ik : kind) (ibits : Z) (o : tinfo) : bool :=
  match ik with
  | KBool => kind_eqb (tk o) KBool && (tmin o <=? ibits)
  | _ => intlike (tk o) && (tmin o <=? ibits)
  end.
Definition tequal (k1 : kind) (b1 : Z) (k2 : kind) (b2 : Z) : bool := kind_eqb k1 k2 && (b1 =? b2).

(* Binary.resultType, at least one operand not constant: (kind, bits) of the result *)
Definition resultTypeDyn (op : binop) (l r : value) : res (kind * Z) :=
  if is_cmp op || is_logic op then Ok (KBool, 1)
  else if is_shift op then
    if intlike (vkind l) && intlike (vkind r) then Ok (vkind l, vbits l) else Err E_TYPES
  else
    match l, r with
    | VC lc, VD rk rw _ =>
        if canAssignConst rk rw (ctype lc) then Ok (rk, rw)
        else if tequal (vkind l) (vbits l) rk rw then Ok (vkind l, vbits l) else Err E_TYPES
    | VD lk lw _, VC rc =>
        if canAssignConst lk lw (ctype rc) then Ok (lk, lw)
        else if tequal lk lw (vkind r) (vbits r) then Ok (lk, lw) else Err E_TYPES
    | _, _ =>
        if tequal (vkind l) (vbits l) (vkind r) (vbits r) then Ok (vkind l, vbits l) else Err E_TYPES
    end.

(* Binary.SSA.  [wf] gives the wires a constant operand arrives on (its own wires
   [const_wires] in a program with one constant; the shared wires of the constant
   table, [lookup_wires] below, in general). *)
Definition vwiresW (wf : cval -> Z) (v : value) : Z := match v with VC c => wf c | VD _ _ x => x end.
Definition evalBinaryW (wf : cval -> Z) (op : binop) (l r : value) : res value :=
  match l, r with
  | VC lc, VC rc => do c <- evalConst op lc rc; Ok (VC c)
  | _, _ =>
      do rt <- resultTypeDyn op l r;
      let '(rk, rw) := rt in
      let k := vkind l in
      (* New{Add,Sub,Mult,Div,Mod,Lt,..}Instr(l.Type, ..) reject non-numeric types *)
      if (match op with
          | OAdd | OSub | OMul | ODiv | OMod | OLt | OLe | OGt | OGe => negb (intlike k)
          | _ => false end) then Err E_OPERATOR
      else if is_shift op then
        match r with
        | VC (CI _ m) =>
            let count := Int64 m in       (* Value.ConstInt: types.Size(val.Int64()) *)
            if count <? 0 then Err E_NEGSHIFT
            else Ok (VD rk rw (instr_sem op k (vbits l) (vwiresW wf l) 0 count rw))
        | _ => Err E_SHIFTIDX
        end
      else Ok (VD rk rw (instr_sem op k (vbits l) (vwiresW wf l) (vbits r) (vwiresW wf r) rw))
  end.

Definition evalBinary : binop -> value -> value -> res value := evalBinaryW const_wires.

(* Unary.SSA: "sub $0 x" with $0 = gen.Constant(int64(0)) : 32 wires *)
Definition evalNeg (v : value) : res value :=
  match v with
  | VC c => do c' <- unaryMinus c; Ok (VC c')
  | VD k w x => if intlike k then Ok (VD k w (instr_sem OSub k 32 0 w x w)) else Err E_UNARY
  end.
Definition evalNot (v : value) : res value :=
  match v with
  | VC c => do c' <- unaryNot c; Ok (VC c')
  | VD KBool w x => Ok (VD KBool w (1 - x))
  | VD _ _ _ => Err E_UNARY
  end.
(* Call.SSA -> Call.cast for a run-time value (ssagen.go): "smov" when source and
   target are both TInt and the target is wider (circuitgen.go Mov/Smov: the
   missing high wires are the source's top wire), else "mov" (the low n wires,
   missing high wires are the zero wire). *)
Definition evalCast (k : kind) (n : Z) (v : value) : res value :=
  match v with
  | VC c => do c' <- cast k n c; Ok (VC c')
  | VD k0 w x =>
      if intlike k0 && intlike k then
        Ok (VD k n (if kind_eqb k0 KInt && kind_eqb k KInt && (w <? n)
                    then (sgn_at w x) mod 2^n else x mod 2^n))
      else Err E_CAST
  end.

(* ---------- expressions of the generated programs ---------- *)
Inductive expr :=
| ELit (v : Z)
| ENeg (e : expr)
| ECast (k : kind) (n : Z) (e : expr)
| EBin (op : binop) (l r : expr)
| EBool (b : bool)
| ENot (e : expr)
| EIn (k : kind) (n : Z) (v : Z).      (* run-time input of type k/n holding v *)

Fixpoint eval (e : expr) : res value :=
  match e with
  | ELit v => do c <- literal v; Ok (VC c)
  | ENeg a => do x <- eval a; evalNeg x
  | ECast k n a => do x <- eval a; evalCast k n x
  | EBin op a b => do x <- eval a; do y <- eval b; evalBinary op x y
  | EBool b => Ok (VC (CB b))
  | ENot a => do x <- eval a; evalNot x
  | EIn k n v => Ok (VD k n (v mod 2^n))
  end.

(* Return.SSA: ssa.CanAssign(return type, value), then "mov value ret":
   the low rn wires, zero-extended.  Result = the output as Compute prints it. *)
Definition evalReturnW (wf : cval -> Z) (rk : kind) (rn : Z) (v : value) : res Z :=
  match v with
  | VC c => if canAssignConst rk rn (ctype c) then Ok ((wf c) mod 2^rn) else Err E_RETURN
  | VD k w x => if tequal rk rn k w then Ok (x mod 2^rn) else Err E_RETURN
  end.
Definition evalReturn : kind -> Z -> value -> res Z := evalReturnW const_wires.

Definition run_program (rk : kind) (rn : Z) (e : expr) : res Z :=
  do v <- eval e; evalReturn rk rn v.

(* ---------- the two sides of property C12 for one operator ---------- *)
(* a typed constant operand as MPCL writes it: T(a), a >= 0 a literal *)
Definition operand (k : kind) (n a : Z) : res cval := do c <- literal a; cast k n c.
(* a negative intN constant: -T(a) *)
Definition neg_operand (n a : Z) : res cval := do c <- operand KInt n a; unaryMinus c.

(* circuit_sem op k n a b: what the compiled circuit computes for "x op y" when
   a and b arrive as run-time inputs of type k/n (wire vectors a, b < 2^n):
   (result kind, result width, result wires).  For shifts b is the constant
   shift count (the compiler only supports constant counts). *)
Definition circuit_sem (op : binop) (k : kind) (n a b : Z) : kind * Z * Z :=
  if is_cmp op || is_logic op then (KBool, 1, instr_sem op k n a n b 1)
  else if is_shift op then (k, n, instr_sem op k n a 0 b n)
  else (k, n, instr_sem op k n a n b n).
Definition circuit_neg (k : kind) (n a : Z) : kind * Z * Z := (k, n, instr_sem OSub k 32 0 n a n).

(* fold op l r: the folder's answer as the rest of the program sees it *)
Definition fold (op : binop) (l r : cval) : res (kind * Z * Z) :=
  do c <- evalConst op l r; Ok (seen c).
Definition is_panic {A} (r : res A) : bool := match r with Panic _ => true | _ => false end.

(* ---------- the class of inputs on which folding is proved right ----------
   [fold_ok_class op k n a b]: operator, operand kind/width and the two operand
   VALUES (a, b signed integers; for shifts b is the literal count), operands
   written T(a) for a >= 0 and -T(|a|) for a < 0.  This one predicate is the
   hypothesis of the positive theorems (FoldProof.fold_ok_class_sound) and is
   evaluated by run_c12 for every harness case; the harness computes the same
   predicate in Go, the correspondence check compares the two on every case,
   and any oracle failure inside the class is reported under a distinct key. *)
Definition reprb (k : kind) (n a : Z) : bool :=
  match k with
  | KUint => (0 <=? a) && (a <? 2 ^ n)
  | KInt => (- 2 ^ (n - 1) <=? a) && (a <? 2 ^ (n - 1))
  | KBool => (a =? 0) || (a =? 1)
  end.
(* container width Generator.Constant gives a value of bit length mb *)
Definition contb (mb : Z) : Z := if 64 <? mb then mb else if 32 <? mb then 64 else 32.
(* bit length / container of the literal a >= 0 *)
Definition blen (a : Z) : Z := if a <? 2 ^ 64 then Z.max 1 (Z.log2 a + 1) else bitlen_abs a.
Definition cont (a : Z) : Z := contb (blen a).
(* negative intN constants are two's complement at the declared width only for
   N = 32, N = 64 and N > 64 *)
Definition canon (n a : Z) : bool := (0 <=? a) || (n =? 32) || (n =? 64) || (64 <? n).
Definition contv (n a : Z) : Z := if a <? 0 then n else cont a.
(* Int64() of the container reads the value exactly *)
Definition cmp_exact (n a : Z) : bool :=
  ((a <? 0) && (n <=? 64)) || ((0 <=? a) && (a <? 2 ^ 31)) || ((2 ^ 32 <=? a) && (a <? 2 ^ 63)).
Definition count_ok (b : Z) : bool := (0 <=? b) && (b <? 2 ^ 31).

Definition fold_ok_class (op : binop) (k : kind) (n a b : Z) : bool :=
  match k with
  | KBool =>
      match op with
      | OEq | ONeq | OLand | OLor => (n =? 1) && reprb KBool 1 a && reprb KBool 1 b
      | _ => false
      end
  | _ =>
      (0 <? n) && reprb k n a && canon n a &&
      (if is_shift op then count_ok b else reprb k n b && canon n b) &&
      (if n <=? 64 then
         match op with
         | OSub | OMul | OBand | OBor | OBxor | OBclr | OLsh => true
         | OAdd =>
             let M := Z.max (contv n a) (contv n b) in
             (M =? n) || ((0 <=? a) && (0 <=? b) && (a <? 2 ^ 63) && (b <? 2 ^ 63) &&
                          (a + b <? 2 ^ (Z.min M n)))
         | ODiv | OMod => (0 <=? a) && (0 <=? b) && (a <? 2 ^ 63) && (b <? 2 ^ 63)
         | ORsh => (0 <=? a) && (a <? 2 ^ 63)
         | OLt | OLe | OGt | OGe | OEq | ONeq => cmp_exact n a && cmp_exact n b
         | OLand | OLor => false
         end
       else
         match op with
         | OBand | OBor | OBxor | OBclr | OMul | OLsh => true
         | OAdd | OSub => n - 1 <=? Z.max (contv n a) (contv n b)
         | ORsh => 0 <=? a
         | OLt | OLe | OGt | OGe | OEq | ONeq => cmp_exact n a && cmp_exact n b
         | ODiv | OMod | OLand | OLor => false
         end)
  end.
(* ... and the folded constant has exactly the declared width, so that every
   consumer (not only "returned as is") sees what the circuit would give *)
Definition fold_exact_class (op : binop) (k : kind) (n a b : Z) : bool :=
  fold_ok_class op k n a b && (is_cmp op || is_logic op || (n =? 32) || (64 <=? n)).
(* unary minus of T(a) / -T(|a|) *)
Definition neg_ok_class (k : kind) (n a : Z) : bool :=
  intlike k && (0 <? n) && reprb k n a && canon n a.
Definition neg_exact_class (k : kind) (n a : Z) : bool :=
  neg_ok_class k n a && ((n =? 32) || (64 <=? n)).

(* ---------- the constant table: several constants in one program ----------
   ssa/generator.go Constant: v.Name = "$" + val.String();  mpint.go String():
   values.String() if values != nil else FormatInt(i64, 10) — the decimal of the
   stored value [mval].  gen.constants (AddConstant) and the wire allocator
   (Value.Equal / HashCode: Const, Name, Scope, Version) are keyed by that name
   only: the first constant registered under a name provides the wires
   (program.go DefineConstants: its Type.Bits wires, wire i = Bit(i)); a consumer
   whose constant has another Type.Bits gets them truncated, or extended with the
   top wire when ITS type is TInt, with zero otherwise (circuitgen.go
   Program.Circuit, "Const values are cast to different value sizes"). *)
Definition cname (c : cval) : option Z := match c with CI _ m => Some (mval m) | CB _ => None end.

Fixpoint tlookup (nm : Z) (tbl : list (Z * cval)) : option cval :=
  match tbl with
  | [] => None
  | (n', c) :: rest => if n' =? nm then Some c else tlookup nm rest
  end.
(* Generator.AddConstant: only the first constant of a name is kept *)
Definition intern (tbl : list (Z * cval)) (c : cval) : list (Z * cval) :=
  match cname c with
  | Some nm => match tlookup nm tbl with Some _ => tbl | None => tbl ++ [(nm, c)] end
  | None => tbl
  end.
(* wires of the first-registered constant e, as the consumer of a constant of
   kind k2 / width w2 receives them *)
Definition extend_wires (e : cval) (k2 : kind) (w2 : Z) : Z :=
  let w1 := tbits (ctype e) in
  let w := const_wires e in
  if w1 =? w2 then w
  else if w2 <? w1 then w mod 2^w2
  else if kind_eqb k2 KInt && (0 <? w1) && Z.testbit w (w1 - 1) then w + (2^w2 - 2^w1)
  else w.
Definition lookup_wires (tbl : list (Z * cval)) (c : cval) : Z :=
  match c with
  | CB b => if b then 1 else 0
  | CI t m =>
      match tlookup (mval m) tbl with
      | Some e => extend_wires e (tk t) (tbits t)
      | None => const_wires c
      end
  end.

(* the multi-constant programs of the harness:
     x_i := E_i  (i = 0..m-1) ; return C_0, .., C_{m-1}
   consumer C_i: 0 = x_i, 1 = p_i + x_i, 2 = p_i < x_i, 3 = x_i >> 1 (p_i a
   run-time input of x_i's declared type k_i / n_i holding pv_i). *)
Record mitem := mkItem { ik : kind; inn : Z; iex : expr; icons : Z; ipv : Z }.

Fixpoint res_map {A B} (f : A -> res B) (l : list A) : res (list B) :=
  match l with
  | [] => Ok []
  | x :: xs => do y <- f x; do ys <- res_map f xs; Ok (y :: ys)
  end.

Definition intern_val (tbl : list (Z * cval)) (v : value) : list (Z * cval) :=
  match v with VC c => intern tbl c | VD _ _ _ => tbl end.
Definition vname (v : value) : list Z :=
  match v with VC c => match cname c with Some n => [n] | None => [] end | VD _ _ _ => [] end.

(* what the consumer registers / emits before circuit generation: x >> 1 with a
   constant x is folded again (a new constant) *)
Definition consumer_prep (it : mitem) (v : value) : res value :=
  if icons it =? 3 then do one <- literal 1; evalBinary ORsh v (VC one) else Ok v.

Definition consumer_out (wf : cval -> Z) (it : mitem) (v : value) : res Z :=
  let p := VD (ik it) (inn it) ((ipv it) mod 2^(inn it)) in
  if icons it =? 1 then do r <- evalBinaryW wf OAdd p v; evalReturnW wf (ik it) (inn it) r
  else if icons it =? 2 then do r <- evalBinaryW wf OLt p v; evalReturnW wf KBool 1 r
  else match vkind v with
       | KBool => evalReturnW wf KBool 1 v          (* a comparison's result is returned as bool *)
       | _ => evalReturnW wf (ik it) (inn it) v
       end.

(* (names of the integer constants read by the SSA instructions, in listing
   order; the program's outputs) *)
Definition run_multi (items : list mitem) : res (list Z * list Z) :=
  do vals <- res_map (fun it => eval (iex it)) items;
  do preps <- res_map (fun iv => consumer_prep (fst iv) (snd iv)) (combine items vals);
  let tbl := fold_left intern_val preps (fold_left intern_val vals []) in
  let wf := lookup_wires tbl in
  do outs <- res_map (fun iv => consumer_out wf (fst iv) (snd iv)) (combine items preps);
  let names :=
    concat (map vname vals) ++
    concat (map (fun iv => if (icons (fst iv) =? 1) || (icons (fst iv) =? 2) then vname (snd iv) else []) (combine items preps)) ++
    concat (map (fun iv => if (icons (fst iv) =? 0) || (icons (fst iv) =? 3) then vname (snd iv) else []) (combine items preps)) in
  Ok (names, outs).

(* ---------- the same source expression folded at several types ----------
   helper with unsized parameters, instantiated once per call:
     func op(v, a, b uint) uint { return C(v, a op b) }
     main: return op(v_0, T_0(A), T_0(B)), op(v_1, T_1(A), T_1(B)), ...
   Per call, in listing order: the parameter bindings "mov $A a", "mov $B b"
   register the (cast) operand constants, then the fold of "a op b" at THIS call's
   type is registered / consumed.  [pre]: constants registered before the first
   call (A := .., B := .. in main).  Binary.Eval is a pure function of the
   operator and the two TYPED operands (ssa.Value: type and mpa.Int), so every
   call is folded on its own. *)
Record citem := mkCall { ck : kind; cn : Z; cargs : list expr; cex : expr; ccons : Z; cpv : Z }.
Definition item_of_call (c : citem) : mitem := mkItem (ck c) (cn c) (cex c) (ccons c) (cpv c).

Fixpoint reg_calls (calls : list citem) (tbl : list (Z * cval)) (names : list Z)
  : res (list (Z * cval) * list Z * list value) :=
  match calls with
  | [] => Ok (tbl, names, [])
  | c :: rest =>
      do avals <- res_map eval (cargs c);
      do v <- eval (cex c);
      do p <- consumer_prep (item_of_call c) v;
      let tbl' := intern_val (fold_left intern_val avals tbl) p in
      let names' := names ++ concat (map vname avals) ++ vname p in
      do r <- reg_calls rest tbl' names';
      let '(t, n, ps) := r in Ok (t, n, p :: ps)
  end.

Definition run_calls (pre : list expr) (calls : list citem) : res (list Z * list Z) :=
  do pvals <- res_map eval pre;
  do r <- reg_calls calls (fold_left intern_val pvals []) (concat (map vname pvals));
  let '(tbl, names, preps) := r in
  do outs <- res_map (fun cp => consumer_out (lookup_wires tbl) (item_of_call (fst cp)) (snd cp))
                     (combine calls preps);
  Ok (names, outs).
