(* Hashtab.v — executable model of the value table of WireAllocator
   (compiler/ssa/wire_allocator.go): hash buckets with chained allocByValue
   headers.
     hashCode        -> [hash] (a parameter: any function)
     lookup          -> [chain_lookup] / [t_lookup]: first match in the bucket's
                        chain; a hit at chain position 3 or deeper is moved to
                        the front of the chain ("MRU in the hash bucket")
     alloc + linking -> [t_insert]: new header at the head of the chain
     remove          -> [remove_first] / [t_remove]: unlink the first match
   and the operations the allocator's API performs on it (Allocated,
   AssignedIDs/AssignedWires/Wires = lookup, insert when absent; GCWires =
   remove), next to the same operations on a plain finite map — the
   representation Lang/Gc.v uses for [whash].  No proofs here. *)
From Coq Require Import NArith List Bool Arith.
From Mpc Require Import Lang.Gc.
Import ListNotations.

Section HT.
  Variable V : Type.
  Variable hash : N -> nat.          (* walloc.hashCode: arbitrary *)

  Definition chain := list (N * V).
  Definition table := list (nat * chain).   (* bucket index -> chain (absent = empty) *)

  Definition bucket (t : table) (b : nat) : chain :=
    match lookup_nat b t with Some c => c | None => [] end.
  Definition set_bucket (t : table) (b : nat) (c : chain) : table := set_nat b c t.

  (* 1-based position of the first entry with key k, and its value *)
  Fixpoint find_pos (k : N) (c : chain) (count : nat) : option (nat * V) :=
    match c with
    | [] => None
    | (k', v) :: t => if N.eqb k k' then Some (S count, v) else find_pos k t (S count)
    end.

  Fixpoint remove_first (k : N) (c : chain) : chain :=
    match c with
    | [] => []
    | (k', v) :: t => if N.eqb k k' then t else (k', v) :: remove_first k t
    end.

  (* WireAllocator.lookup on one chain: the value and the chain afterwards *)
  Definition chain_lookup (k : N) (c : chain) : option (V * chain) :=
    match find_pos k c 0 with
    | None => None
    | Some (count, v) => Some (v, if 2 <? count then (k, v) :: remove_first k c else c)
    end.

  Definition t_lookup (k : N) (t : table) : option V * table :=
    match chain_lookup k (bucket t (hash k)) with
    | None => (None, t)
    | Some (v, c') => (Some v, set_bucket t (hash k) c')
    end.

  (* alloc.next = walloc.hash[hash]; walloc.hash[hash] = alloc *)
  Definition t_insert (k : N) (v : V) (t : table) : table :=
    set_bucket t (hash k) ((k, v) :: bucket t (hash k)).

  (* WireAllocator.remove *)
  Definition t_remove (k : N) (t : table) : option V * table :=
    match find_pos k (bucket t (hash k)) 0 with
    | None => (None, t)
    | Some (_, v) => (Some v, set_bucket t (hash k) (remove_first k (bucket t (hash k))))
    end.

  (* the entry is a pointer: fields of a found header are assigned in place *)
  Fixpoint chain_update (k : N) (v : V) (c : chain) : chain :=
    match c with
    | [] => []
    | (k', v') :: t => if N.eqb k k' then (k, v) :: t else (k', v') :: chain_update k v t
    end.

  (* ---- what the allocator's API does with the table *)
  Inductive hop :=
  | HLookup (k : N)             (* Allocated *)
  | HAlloc (k : N) (v : V)      (* AssignedIDs / AssignedWires / Wires: lookup, insert when absent *)
  | HSet (k : N) (v : V)        (* lookup, then assign fields of the header found *)
  | HGc (k : N).                (* GCWires: remove *)

  Definition chain_step (o : hop) (t : table) : option V * table :=
    match o with
    | HLookup k => t_lookup k t
    | HAlloc k v =>
        match t_lookup k t with
        | (Some v0, t') => (Some v0, t')
        | (None, t') => (Some v, t_insert k v t')
        end
    | HSet k v =>
        match t_lookup k t with
        | (Some _, t') => (Some v, set_bucket t' (hash k) (chain_update k v (bucket t' (hash k))))
        | (None, t') => (None, t')
        end
    | HGc k => t_remove k t
    end.

  (* the same on a finite map (association list, as Gc.whash) *)
  Definition map_step (o : hop) (m : list (N * V)) : option V * list (N * V) :=
    match o with
    | HLookup k => (lookup k m, m)
    | HAlloc k v =>
        match lookup k m with
        | Some v0 => (Some v0, m)
        | None => (Some v, (k, v) :: m)
        end
    | HSet k v =>
        match lookup k m with
        | Some _ => (Some v, set_key k v m)
        | None => (None, m)
        end
    | HGc k => (lookup k m, remove_key k m)
    end.

  Fixpoint chain_run (ops : list hop) (t : table) : list (option V) * table :=
    match ops with
    | [] => ([], t)
    | o :: rest =>
        let '(r, t1) := chain_step o t in
        let '(rs, t2) := chain_run rest t1 in
        (r :: rs, t2)
    end.

  Fixpoint map_run (ops : list hop) (m : list (N * V)) : list (option V) * list (N * V) :=
    match ops with
    | [] => ([], m)
    | o :: rest =>
        let '(r, m1) := map_step o m in
        let '(rs, m2) := map_run rest m1 in
        (r :: rs, m2)
    end.
End HT.

Arguments HLookup {V}.
Arguments HAlloc {V}.
Arguments HSet {V}.
Arguments HGc {V}.
