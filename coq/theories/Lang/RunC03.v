(* RunC03.v — executable entry point of the C03 models for the correspondence
   check.

   input  = (mode payload ((input values...) ...))
     mode 0  source level: payload = Mini program term, the model runs
             [exec_mini]; observed = outputs of the Go-compiled circuit
     mode 1  SSA translation validation: payload = the compiler's SSA listing
             in the syntax of Lang/Ssa.v, the model runs [eval_ssa];
             observed = outputs of the Go-compiled circuit
     mode 2  reference cross-check: like mode 0, observed = outputs predicted
             by the harness's own interpreter (emitted for programs the oracle
             reports, so that the expected values of a finding are confirmed
             by [exec_mini])
     mode 3  lowering: payload = Mini program term, the model runs
             [eval_ssa (lower p)]; observed as in mode 0
     mode 4-7  circuit generation: payload = the SSA listing as in mode 1, the
             model runs [circuit_of_ssa_gen] (4/5 Yao, 6/7 GMW target; 5/7 with
             the full gate list): see Lang/RunC03cg.v for the observable
   output = ((output values...) ...), one list per input vector (modes 0-3).

   Term syntax (atoms are integers):
     type  (0) bool | (1 w) intw | (2 w) uintw | (3 n t) [n]t | (4 t...) struct
     expr  (0 x) | (1 t n) | (2 op t a b) | (3 t a) neg | (4 a) not
           | (5 t a k) shl | (6 t a k) shr | (7 from to a) cast
           | (8 off w a) slice | (9 n et a i) index
     stmt  (0 x t e) decl | (1 x t e) assign | (2 x tw off w e) store
           | (3 c (s...) (s...)) if | (4 i it lo cnt (s...)) for
           | (5 (e...)) return | (6 ((x t)...) f (e...)) call
     func  (((x t)...) (t...) (s...))
     prog  (func...)                      definition order, main last
     ssa   ((w...) (instr...) (opnd...))
     instr (opcode aux out_signed out_bits (opnd...))   aux: index = element width,
                                                        builtin = 1 for circuits.Hamming
           circ: (opcode 0 0 out_bits (opnd...) (in_bits...) (nwires ninputs noutputs) ((op in0 in1 out)...))
                 = instr.Circ as it stands in memory (the listing prints only {G,W}); out_bits =
                 the total width of instr.Ret; the line "circ a.. r0 .. rm" is followed by one
                 `slice` instruction per r_j (see Lang/Ssa.v, Ocirc)
     opnd  (0 i signed bits) | (1 cw cv signed bits)                         *)
From Coq Require Import ZArith NArith List Bool.
From Mpc Require Import Gen.Consts Base.Sx Lang.Mini Lang.Ssa Lang.Lower Lang.RunC03cg.
Import ListNotations.

Fixpoint dec_ty (s : sx) : ty :=
  match s with
  | SL (SZ tag :: args) =>
      match Z.to_nat tag, args with
      | 1%nat, [w] => TInt (getnat w)
      | 2%nat, [w] => TUint (getnat w)
      | 3%nat, [n; t] => TArr (getnat n) (dec_ty t)
      | 4%nat, fs => TStruct ((fix go (l : list sx) : list ty :=
                                 match l with [] => [] | x :: r => dec_ty x :: go r end) fs)
      | _, _ => TBool
      end
  | _ => TBool
  end.

Definition dec_binop (z : Z) : binop :=
  match Z.to_nat z with
  | 0 => Add | 1 => Sub | 2 => Mul | 3 => Div | 4 => Mod
  | 5 => BAnd | 6 => BOr | 7 => BXor | 8 => BAndNot
  | 9 => Lt | 10 => Le | 11 => Gt | 12 => Ge | 13 => Eq | 14 => Ne
  | 15 => LAnd | _ => LOr
  end%nat.

Fixpoint dec_expr (s : sx) : expr :=
  match s with
  | SL (SZ tag :: args) =>
      match Z.to_nat tag, args with
      | 0%nat, [x] => EVar (getnat x)
      | 1%nat, [t; n] => ELit (dec_ty t) (getN n)
      | 2%nat, [op; t; a; b] => EBin (dec_binop (getZ op)) (dec_ty t) (dec_expr a) (dec_expr b)
      | 3%nat, [t; a] => ENeg (dec_ty t) (dec_expr a)
      | 4%nat, [a] => ENot (dec_expr a)
      | 5%nat, [t; a; k] => EShl (dec_ty t) (dec_expr a) (getnat k)
      | 6%nat, [t; a; k] => EShr (dec_ty t) (dec_expr a) (getnat k)
      | 7%nat, [f; t; a] => ECast (dec_ty f) (dec_ty t) (dec_expr a)
      | 8%nat, [off; w; a] => ESlice (getnat off) (getnat w) (dec_expr a)
      | 9%nat, [n; et; a; i] => EIndex (getnat n) (dec_ty et) (dec_expr a) (dec_expr i)
      | _, _ => ELit TBool 0
      end
  | _ => ELit TBool 0
  end.

Definition dec_exprs (s : sx) : list expr := map dec_expr (getL s).
Definition dec_binder (s : sx) : nat * ty := (getnat (nthx 0 s), dec_ty (nthx 1 s)).

Fixpoint dec_stmt (s : sx) : stmt :=
  match s with
  | SL (SZ tag :: args) =>
      match Z.to_nat tag, args with
      | 0%nat, [x; t; e] => SDecl (getnat x) (dec_ty t) (dec_expr e)
      | 1%nat, [x; t; e] => SAssign (getnat x) (dec_ty t) (dec_expr e)
      | 2%nat, [x; tw; off; w; e] =>
          SStore (getnat x) (getnat tw) (getnat off) (getnat w) (dec_expr e)
      | 3%nat, [c; SL a; SL b] =>
          SIf (dec_expr c)
              ((fix go (l : list sx) : stmt :=
                  match l with [] => SSkip | x :: r => SSeq (dec_stmt x) (go r) end) a)
              ((fix go (l : list sx) : stmt :=
                  match l with [] => SSkip | x :: r => SSeq (dec_stmt x) (go r) end) b)
      | 4%nat, [i; it; lo; cnt; SL body] =>
          SFor (getnat i) (dec_ty it) (getnat lo) (getnat cnt)
               ((fix go (l : list sx) : stmt :=
                   match l with [] => SSkip | x :: r => SSeq (dec_stmt x) (go r) end) body)
      | 5%nat, [es] => SReturn (dec_exprs es)
      | 6%nat, [xs; f; es] => SCall (map dec_binder (getL xs)) (getnat f) (dec_exprs es)
      | _, _ => SSkip
      end
  | _ => SSkip
  end.

Fixpoint dec_block (l : list sx) : stmt :=
  match l with [] => SSkip | x :: r => SSeq (dec_stmt x) (dec_block r) end.

Definition dec_func (s : sx) : func :=
  mkFunc (map dec_binder (getL (nthx 0 s))) (map dec_ty (getL (nthx 1 s)))
         (dec_block (getL (nthx 2 s))).

Definition dec_prog (s : sx) : prog := map dec_func (getL s).

(* ---- SSA listing ---- *)
(* opcode numbers = ssa.Operand values, regenerated from instructions.go *)
Definition opcode_table : list (Z * opcode) :=
  [(compiler_ssa_Iadd, Oiadd);
   (compiler_ssa_Uadd, Ouadd);
   (compiler_ssa_Isub, Oisub);
   (compiler_ssa_Usub, Ousub);
   (compiler_ssa_Imult, Oimult);
   (compiler_ssa_Umult, Oumult);
   (compiler_ssa_Idiv, Oidiv);
   (compiler_ssa_Udiv, Oudiv);
   (compiler_ssa_Imod, Oimod);
   (compiler_ssa_Umod, Oumod);
   (compiler_ssa_Band, Oband);
   (compiler_ssa_Bor, Obor);
   (compiler_ssa_Bxor, Obxor);
   (compiler_ssa_Bclr, Obclr);
   (compiler_ssa_Ilt, Oilt);
   (compiler_ssa_Ult, Oult);
   (compiler_ssa_Ile, Oile);
   (compiler_ssa_Ule, Oule);
   (compiler_ssa_Igt, Oigt);
   (compiler_ssa_Ugt, Ougt);
   (compiler_ssa_Ige, Oige);
   (compiler_ssa_Uge, Ouge);
   (compiler_ssa_Eq, Oeq);
   (compiler_ssa_Neq, Oneq);
   (compiler_ssa_And, Oand);
   (compiler_ssa_Or, Oor);
   (compiler_ssa_Not, Onot);
   (compiler_ssa_Mov, Omov);
   (compiler_ssa_Smov, Osmov);
   (compiler_ssa_Lshift, Olshift);
   (compiler_ssa_Rshift, Orshift);
   (compiler_ssa_Srshift, Osrshift);
   (compiler_ssa_Slice, Oslice);
   (compiler_ssa_Amov, Oamov);
   (compiler_ssa_Index, Oindex);
   (compiler_ssa_Phi, Ophi);
   (compiler_ssa_Concat, Oconcat);
   (compiler_ssa_Bts, Obts);
   (compiler_ssa_Btc, Obtc);
   (compiler_ssa_Builtin, Ohamming)].

Fixpoint assocZ (z : Z) (l : list (Z * opcode)) : opcode :=
  match l with
  | [] => Ounsupported
  | (k, o) :: r => if Z.eqb z k then o else assocZ z r
  end.

Definition dec_opcode (z : Z) : opcode := assocZ z opcode_table.

Definition dec_opnd (s : sx) : opnd :=
  if Z.eqb (getZ (nthx 0 s)) 0
  then OVar (getnat (nthx 1 s)) (mkSty (getB (nthx 2 s)) (getnat (nthx 3 s)))
  else OConst (getnat (nthx 1 s)) (getN (nthx 2 s))
              (mkSty (getB (nthx 3 s)) (getnat (nthx 4 s))).

(* instr.Circ: circuit.Operation enum values from the regenerated Gen/Consts.v *)
Definition cop_of_Z (z : Z) : Mpc.Circuit.Circuit.op :=
  if Z.eqb z circuit_XOR then Mpc.Circuit.Circuit.XOR
  else if Z.eqb z circuit_XNOR then Mpc.Circuit.Circuit.XNOR
  else if Z.eqb z circuit_AND then Mpc.Circuit.Circuit.AND
  else if Z.eqb z circuit_OR then Mpc.Circuit.Circuit.OR else Mpc.Circuit.Circuit.INV.

Definition dec_cgate (s : sx) : Mpc.Circuit.Circuit.gate :=
  Mpc.Circuit.Circuit.mkGate (getnat (nthx 1 s)) (getnat (nthx 2 s)) (getnat (nthx 3 s))
                             (cop_of_Z (getZ (nthx 0 s))).

Definition dec_circuit (dims gs : sx) : Mpc.Circuit.Circuit.circuit :=
  Mpc.Circuit.Circuit.mkCircuit (getnat (nthx 0 dims)) (getnat (nthx 1 dims)) (getnat (nthx 2 dims))
                                (map dec_cgate (getL gs)).

(* aux: index = element width; builtin = which builtin (1 = circuits.Hamming, the
   only one ast/builtin.go emits; anything else has no model) *)
Definition dec_instr (s : sx) : instr :=
  let opz := getZ (nthx 0 s) in
  let aux := getnat (nthx 1 s) in
  let op := if Z.eqb opz compiler_ssa_Circ
            then Ocirc (getLnat (nthx 5 s)) (dec_circuit (nthx 6 s) (nthx 7 s))
            else dec_opcode opz in
  let op := match op with Ohamming => if Nat.eqb aux 1 then Ohamming else Ounsupported | _ => op end in
  mkInstr op (map dec_opnd (getL (nthx 4 s)))
          (mkSty (getB (nthx 2 s)) (getnat (nthx 3 s))) aux.

Definition dec_sprog (s : sx) : sprog :=
  mkSprog (getLnat (nthx 0 s)) (map dec_instr (getL (nthx 1 s)))
          (map dec_opnd (getL (nthx 2 s))).

Definition run_c03 (inp : sx) : sx :=
  let mode := getZ (nthx 0 inp) in
  let payload := nthx 1 inp in
  let vectors := map getLN (getL (nthx 2 inp)) in
  if Z.eqb mode 4 then run_c03cg false false (dec_sprog payload) vectors
  else if Z.eqb mode 5 then run_c03cg false true (dec_sprog payload) vectors
  else if Z.eqb mode 6 then run_c03cg true false (dec_sprog payload) vectors
  else if Z.eqb mode 7 then run_c03cg true true (dec_sprog payload) vectors
  else if Z.eqb mode 1 then
    let p := dec_sprog payload in
    SL (map (fun v => ofLN (eval_ssa p v)) vectors)
  else if Z.eqb mode 3 then
    let p := lower (dec_prog payload) in
    SL (map (fun v => ofLN (eval_ssa p v)) vectors)
  else
    let p := dec_prog payload in
    SL (map (fun v => ofLN (exec_mini p v)) vectors).
