(* CircEmbedProof.v — the gates Lang/CircEmbed.v emits for an embedded native
   circuit compute Circuit.eval_plain of that circuit on the flattened, zero
   padded argument wires, for EVERY sub-circuit meeting [circ_ok], every number
   of arguments and every width; and they keep the enclosing gate list single
   assignment and defined before use.

   Semantic part (okm): induction over the sub-circuit's gate list with the
   invariant "in every valuation consistent with the gates emitted so far, the
   compiler wire standing for every ASSIGNED sub-circuit wire k carries the
   value wire k has in Circuit.Compute after the same prefix" ([agree]).
   Structural part (oks): assigned sub-circuit wires map to defined compiler
   wires, unassigned ones to pairwise distinct pending wires. *)
From Coq Require Import NArith List Bool Arith Lia.
From Mpc Require Import Builders.Emit Builders.EmitProof Builders.StructProof Lang.CircEmbed.
From Mpc Require Circuit.Circuit.
Import ListNotations.
Open Scope N_scope.

(* ------------------------------------------------------------ list helpers *)
Lemma sel_suffix {A} (o : list A) d : forall pre,
  map (fun w => nth w (pre ++ o) d) (seq (length pre) (length o)) = o.
Proof.
  induction o as [|x o IH]; intros pre; [reflexivity|].
  cbn [length seq map]. rewrite nth_middle. f_equal.
  specialize (IH (pre ++ [x])). rewrite app_length in IH. cbn [length] in IH.
  rewrite Nat.add_1_r in IH. rewrite <- app_assoc in IH. cbn [app] in IH. exact IH.
Qed.

Lemma NoDup_app_disj {A} (a b : list A) :
  NoDup a -> NoDup b -> (forall x, In x a -> ~ In x b) -> NoDup (a ++ b).
Proof.
  induction a as [|x a IH]; intros Na Nb D; [exact Nb|].
  inversion Na; subst. cbn [app]. constructor.
  - intros Hin. apply in_app_or in Hin. destruct Hin as [H|H]; [contradiction|].
    apply (D x); [left; reflexivity|exact H].
  - apply IH; auto. intros y Hy. apply D. right. exact Hy.
Qed.

Lemma init_asg_true c k : nth k (Circuit.init_asg c) false = true -> (k < Circuit.ninputs c)%nat.
Proof.
  unfold Circuit.init_asg. intros H.
  destruct (Nat.lt_ge_cases k (Circuit.ninputs c)) as [L|L]; [exact L|].
  rewrite app_nth2 in H by (rewrite repeat_length; lia).
  rewrite nth_repeat in H. discriminate H.
Qed.

Lemma init_asg_lt c k : (k < Circuit.ninputs c)%nat -> nth k (Circuit.init_asg c) false = true.
Proof.
  unfold Circuit.init_asg. intros H. rewrite app_nth1 by (rewrite repeat_length; exact H).
  rewrite (nth_indep _ false true) by (rewrite repeat_length; exact H). apply nth_repeat.
Qed.

Lemma init_asg_length c : (Circuit.ninputs c <= Circuit.nwires c)%nat -> length (Circuit.init_asg c) = Circuit.nwires c.
Proof. intros H. unfold Circuit.init_asg. rewrite app_length, !repeat_length. lia. Qed.

Lemma nth_upd_true (asg : list bool) o k :
  nth k (Circuit.upd asg o true) false = true -> k = o \/ nth k asg false = true.
Proof.
  intros H. destruct (Nat.eq_dec o k) as [E|E]; [left; auto|right].
  rewrite Circuit.nth_upd_neq in H by exact E. exact H.
Qed.

Lemma nth_upd_false (asg : list bool) o k : (o < length asg)%nat ->
  nth k (Circuit.upd asg o true) false = false -> k <> o /\ nth k asg false = false.
Proof.
  intros L H. destruct (Nat.eq_dec o k) as [E|E].
  - subst k. rewrite Circuit.nth_upd_eq in H by exact L. discriminate H.
  - rewrite Circuit.nth_upd_neq in H by exact E. split; [congruence|exact H].
Qed.

Lemma gate_ok_parts n ni asg g : Circuit.gate_ok n ni asg g = true ->
  (Circuit.gin0 g < n)%nat /\ (Circuit.gout g < n)%nat /\ (ni <= Circuit.gout g)%nat /\
  nth (Circuit.gin0 g) asg false = true /\
  (Circuit.gop g <> Circuit.INV -> (Circuit.gin1 g < n)%nat /\ nth (Circuit.gin1 g) asg false = true).
Proof.
  unfold Circuit.gate_ok. intros H.
  apply andb_true_iff in H. destruct H as [H G5].
  apply andb_true_iff in H. destruct H as [H G4].
  apply andb_true_iff in H. destruct H as [H G3].
  apply andb_true_iff in H. destruct H as [G1 G2].
  apply Nat.ltb_lt in G1, G2. apply Nat.leb_le in G3.
  repeat split; auto; destruct (Circuit.gop g); try congruence;
    apply andb_true_iff in G5; destruct G5 as [A B]; try apply Nat.ltb_lt in A; auto.
Qed.

(* ------------------------------------------------------------ semantics *)
Definition agree (e : env) (cw : list wire) (asg wsb : list bool) : Prop :=
  forall k, nth k asg false = true -> e (nth k cw 0) = nth k wsb false.

Lemma okm_embed_gate t cw g :
  okm t (embed_gate cw g)
      (fun _ e => e (nth (Circuit.gout g) cw 0) =
                  Circuit.gate_fn (Circuit.gop g) (e (nth (Circuit.gin0 g) cw 0)) (e (nth (Circuit.gin1 g) cw 0))).
Proof.
  unfold embed_gate. destruct (Circuit.gop g); cbn [Circuit.gate_fn].
  - eapply okm_weaken; [apply okm_emit|]. cbv beta. intros _ e H. exact H.
  - eapply okm_weaken; [apply okm_emit|]. cbv beta. intros _ e H. exact H.
  - eapply okm_weaken; [apply okm_emit|]. cbv beta. intros _ e H. exact H.
  - apply okm_cc_or.
  - apply okm_cc_inv.
Qed.

Lemma agree_step e cw n ni asg wsb g :
  length asg = n -> length wsb = n -> Circuit.gate_ok n ni asg g = true ->
  agree e cw asg wsb ->
  e (nth (Circuit.gout g) cw 0) = Circuit.gate_fn (Circuit.gop g) (e (nth (Circuit.gin0 g) cw 0)) (e (nth (Circuit.gin1 g) cw 0)) ->
  agree e cw (Circuit.upd asg (Circuit.gout g) true) (Circuit.eval_gate wsb g).
Proof.
  intros La Lw GO A H k Hk.
  destruct (gate_ok_parts _ _ _ _ GO) as (G1 & G2 & G3 & G4 & G5).
  unfold Circuit.eval_gate. destruct (Nat.eq_dec (Circuit.gout g) k) as [E|E].
  - subst k. rewrite Circuit.nth_upd_eq by lia. rewrite H, (A _ G4).
    destruct (Circuit.gop g) eqn:EO; cbn [Circuit.gate_fn]; try reflexivity;
      (destruct G5 as [_ G6]; [congruence|]; rewrite (A _ G6); reflexivity).
  - rewrite Circuit.nth_upd_neq in Hk by exact E. rewrite Circuit.nth_upd_neq by exact E. apply A, Hk.
Qed.

Lemma okm_embed_gates t cw n ni : forall gs asg,
  length asg = n -> Circuit.wf_gates n ni asg gs = true ->
  okm t (embed_gates cw gs)
      (fun _ e => forall wsb, length wsb = n -> agree e cw asg wsb ->
                  agree e cw (Circuit.final_asg asg gs) (fold_left Circuit.eval_gate gs wsb)).
Proof.
  induction gs as [|g r IH]; intros asg La WF; cbn [embed_gates].
  - apply okm_ret. intros e wsb _ A. exact A.
  - cbn [Circuit.wf_gates] in WF. apply andb_true_iff in WF. destruct WF as [GO WF].
    eapply okm_bind; [apply okm_embed_gate|]. intros u. cbv beta.
    eapply okm_weaken;
      [apply (IH (Circuit.upd asg (Circuit.gout g) true)); [rewrite Circuit.upd_length; exact La | exact WF]|].
    cbv beta. intros _ e H HG wsb Lw A. unfold Circuit.final_asg. cbn [fold_left].
    apply (H (Circuit.eval_gate wsb g)).
    + unfold Circuit.eval_gate. rewrite Circuit.upd_length. exact Lw.
    + eapply agree_step; eauto.
Qed.

Lemma agree_init e c cin rest : length cin = Circuit.ninputs c ->
  agree e (cin ++ rest) (Circuit.init_asg c) (Circuit.init_wires c (map e cin)).
Proof.
  intros L k Hk. apply init_asg_true in Hk. unfold Circuit.init_wires.
  rewrite app_nth1 by lia.
  rewrite firstn_all2 by (rewrite map_length; lia).
  rewrite app_nth1 by (rewrite map_length; lia).
  rewrite (nth_indep _ false (e 0)) by (rewrite map_length; lia).
  rewrite map_nth. reflexivity.
Qed.

(* the bits on the sub-circuit's input wires: per argument its wires, then zeros *)
Fixpoint flat_bits (e : env) (ws : list (list wire)) (ins : list nat) : list bool :=
  match ws with
  | [] => []
  | w :: wr => (map e w ++ repeat false (hd 0%nat ins - length w)) ++ flat_bits e wr (tl ins)
  end.

Lemma pad_bits e p x n : pad_shape p x n -> pad_zero e p x ->
  map e p = map e x ++ repeat false (n - length x).
Proof.
  intros (zw & ->) Z. rewrite map_app. f_equal. unfold pad_zero in Z.
  rewrite skipn_app, Nat.sub_diag, skipn_all in Z. cbn [app skipn] in Z.
  induction (n - length x)%nat as [|k IH]; [reflexivity|].
  cbn [repeat map]. rewrite (Z zw) by (left; reflexivity). f_equal.
  apply IH. intros w Hin. apply Z. right. exact Hin.
Qed.

Lemma okp_flatten t : forall ws ins,
  Forall2 (fun w n => (length w <= n)%nat) ws ins ->
  okp t (flatten_args ws ins) (fun cin => length cin = tot ins)
      (fun cin e => map e cin = flat_bits e ws ins).
Proof.
  induction ws as [|w wr IH]; intros ins F; inversion F; subst; cbn [flatten_args flat_bits].
  - apply okp_ret; [reflexivity|]. reflexivity.
  - cbn [hd tl]. eapply okp_bind; [apply okp_pad|]. intros p Sh. cbv beta.
    eapply okp_bind; [apply IH; eassumption|]. intros r Lr. cbv beta.
    apply okp_ret.
    + rewrite app_length, (pad_shape_len _ _ _ Sh), Lr. cbn [tot fold_right]. fold (tot l'). lia.
    + intros e Hr Hp. rewrite map_app, Hr. f_equal. apply pad_bits; assumption.
Qed.

Lemma wf_parts c : circ_ok c = true ->
  (Circuit.ninputs c + Circuit.noutputs c <= Circuit.nwires c)%nat /\
  Circuit.wf_gates (Circuit.nwires c) (Circuit.ninputs c) (Circuit.init_asg c) (Circuit.gates c) = true /\
  sa_gates (Circuit.init_asg c) (Circuit.gates c) = true /\
  (forall w, In w (Circuit.output_wires c) ->
             nth w (Circuit.final_asg (Circuit.init_asg c) (Circuit.gates c)) false = true).
Proof.
  unfold circ_ok, Circuit.wf. intros H.
  apply andb_true_iff in H. destruct H as [H L].
  apply andb_true_iff in H. destruct H as [H S].
  apply andb_true_iff in H. destruct H as [H O].
  apply andb_true_iff in H. destruct H as [_ G].
  apply Nat.leb_le in L. rewrite forallb_forall in O. auto.
Qed.

Theorem okp_embed_circ t ins ob c ws :
  circ_ok c = true -> Forall2 (fun w n => (length w <= n)%nat) ws ins ->
  tot ins = Circuit.ninputs c -> ob = Circuit.noutputs c ->
  okp t (embed_circ ins ob c ws) (fun o => length o = ob)
      (fun o e => map e o = Circuit.eval_plain c (flat_bits e ws ins)).
Proof.
  intros OK F TI TO. destruct (wf_parts c OK) as (LN & WG & _ & OA).
  unfold embed_circ.
  eapply okp_bind; [apply okp_flatten; exact F|]. intros cin Lc. cbv beta.
  eapply okp_bind; [apply okp_fresh_n|]. intros o Lo. cbv beta.
  eapply okp_bind; [apply okp_fresh_n|]. intros ints Li. cbv beta.
  cbv beta in Lc, Lo, Li.
  assert (IL : length (Circuit.init_asg c) = Circuit.nwires c) by (apply init_asg_length; lia).
  eapply okp_bind.
  - apply okp_of_okm.
    apply (okm_embed_gates t (cin ++ ints ++ o) (Circuit.nwires c) (Circuit.ninputs c) (Circuit.gates c) (Circuit.init_asg c) IL WG).
  - intros u _. cbv beta. apply okp_ret; [exact Lo|].
    intros e HG _ _ HC. cbv beta in Lc, Lo, Li.
    assert (Lcin : length cin = Circuit.ninputs c) by congruence.
    specialize (HG (Circuit.init_wires c (map e cin))).
    assert (LW : length (Circuit.init_wires c (map e cin)) = Circuit.nwires c).
    { unfold Circuit.init_wires. rewrite app_length, firstn_length, map_length, repeat_length. lia. }
    specialize (HG LW (agree_init e c cin (ints ++ o) Lcin)).
    rewrite <- HC. unfold Circuit.eval_plain, Circuit.eval_plain_wires.
    assert (SO : o = map (fun w => nth w (cin ++ ints ++ o) 0) (Circuit.output_wires c)).
    { unfold Circuit.output_wires. rewrite app_assoc.
      replace (Circuit.nwires c - Circuit.noutputs c)%nat with (length (cin ++ ints)) by (rewrite app_length; lia).
      replace (Circuit.noutputs c) with (length o) by lia.
      symmetry. apply sel_suffix. }
    rewrite SO at 1. rewrite map_map. apply map_ext_in. intros w Hw. apply HG, OA, Hw.
Qed.

(* ------------------------------------------------------------ structure *)
Section S.
Variable ninp : N.
Notation defd := (defd ninp). Notation pend := (pend ninp). Notation wfst := (wfst ninp).
Notation step := (StructProof.step ninp). Notation oks := (@oks ninp _).

(* s' comes after s: same target, defined wires stay defined (= CircGenProof.adv) *)
Definition after (s s' : st) : Prop := gmw s' = gmw s /\ forall w, defd s w -> defd s' w.

Lemma after_refl s : after s s. Proof. split; auto. Qed.
Lemma after_trans a b c : after a b -> after b c -> after a c.
Proof. intros [G1 D1] [G2 D2]. split; [congruence|auto]. Qed.
Lemma step_after s s' wr : step s s' wr -> after s s'.
Proof. intros S. split; [eapply step_gmw; eauto | intros w; eapply step_defd; eauto]. Qed.

Lemma embed_gate_s cw g s : wfst s ->
  defd s (nth (Circuit.gin0 g) cw 0) ->
  (Circuit.gop g <> Circuit.INV -> defd s (nth (Circuit.gin1 g) cw 0)) ->
  pend s (nth (Circuit.gout g) cw 0) ->
  oks (embed_gate cw g) s
      (fun _ s' => step s s' [nth (Circuit.gout g) cw 0] /\ defd s' (nth (Circuit.gout g) cw 0)).
Proof.
  intros W Da Db Po. unfold embed_gate. destruct (Circuit.gop g).
  - eapply oks_conseq; [apply emit_s; auto; apply Db; discriminate|]. cbv beta. intros _ s' _ (S & D & _). auto.
  - eapply oks_conseq; [apply emit_s; auto; apply Db; discriminate|]. cbv beta. intros _ s' _ (S & D & _). auto.
  - eapply oks_conseq; [apply emit_s; auto; apply Db; discriminate|]. cbv beta. intros _ s' _ (S & D & _). auto.
  - apply cc_or_s; auto. apply Db. discriminate.
  - apply cc_inv_s; auto.
Qed.

Lemma embed_gates_s cw n ni : forall gs asg s, wfst s ->
  length asg = n -> Circuit.wf_gates n ni asg gs = true -> sa_gates asg gs = true ->
  (forall k k', (k < n)%nat -> (k' < n)%nat -> nth k asg false = false -> nth k' asg false = false ->
                nth k cw 0 = nth k' cw 0 -> k = k') ->
  (forall k, (k < n)%nat -> nth k asg false = true -> defd s (nth k cw 0)) ->
  (forall k, (k < n)%nat -> nth k asg false = false -> pend s (nth k cw 0)) ->
  oks (embed_gates cw gs) s
      (fun _ s' => after s s' /\
                   forall k, (k < n)%nat -> nth k (Circuit.final_asg asg gs) false = true -> defd s' (nth k cw 0)).
Proof.
  induction gs as [|g r IH]; intros asg s W La WF SA INJ HD HP; cbn [embed_gates].
  - apply oks_ret; auto. split; [apply after_refl|exact HD].
  - cbn [Circuit.wf_gates] in WF. apply andb_true_iff in WF. destruct WF as [GO WF].
    cbn [sa_gates] in SA. apply andb_true_iff in SA. destruct SA as [SG SA].
    apply negb_true_iff in SG.
    destruct (gate_ok_parts _ _ _ _ GO) as (G1 & G2 & G3 & G4 & G5).
    eapply oks_bind.
    + apply embed_gate_s; [exact W | apply HD; assumption | | apply HP; assumption].
      intros NI. destruct (G5 NI) as [G6 G7]. apply HD; assumption.
    + intros u s1 W1 (S1 & D1). cbv beta.
      eapply oks_conseq.
      * apply (IH (Circuit.upd asg (Circuit.gout g) true) s1 W1); [rewrite Circuit.upd_length; exact La | exact WF | exact SA | | |].
        -- intros k k' Hk Hk' A A'.
           apply nth_upd_false in A; [|lia]. apply nth_upd_false in A'; [|lia].
           destruct A as [_ A]. destruct A' as [_ A']. apply INJ; assumption.
        -- intros k Hk A. apply nth_upd_true in A. destruct A as [->|A]; [exact D1|].
           eapply step_defd; [exact S1|]. apply HD; assumption.
        -- intros k Hk A. apply nth_upd_false in A; [|lia]. destruct A as [NE A].
           eapply step_pend; [exact S1 | apply HP; assumption |].
           cbn. intros [E|[]]. apply NE. apply INJ; auto.
      * cbv beta. intros _ s2 W2 (A2 & F2). split; [|exact F2].
        eapply after_trans; [eapply step_after; exact S1|exact A2].
Qed.

Lemma flatten_s : forall ws ins s, wfst s ->
  Forall2 (fun w n => Forall (defd s) w /\ (length w <= n)%nat) ws ins ->
  oks (flatten_args ws ins) s
      (fun cin s' => step s s' [] /\ Forall (defd s') cin /\ length cin = tot ins).
Proof.
  induction ws as [|w wr IH]; intros ins s W F; inversion F; subst; cbn [flatten_args].
  - apply oks_ret; auto. split; [apply step_refl|]. split; [constructor|reflexivity].
  - cbn [hd tl]. match goal with H : _ /\ _ |- _ => destruct H as [Fw Lw] end.
    eapply oks_bind; [apply pad_s; eauto|]. intros p s1 W1 (S1 & Fp & Lp). cbv beta.
    eapply oks_bind.
    + apply IH; [exact W1|].
      match goal with H : Forall2 _ wr _ |- _ => clear - H S1; induction H as [|a b la lb [Fa La] _ IHF]; constructor; auto end.
      split; [eapply Forall_defd_step; eauto|exact La].
    + intros r s2 W2 (S2 & Fr & Lr). cbv beta. apply oks_ret; auto. split; [|split].
      * apply (step_trans ninp s s1 s2 [] [] S1 S2).
      * apply Forall_app. split; [eapply Forall_defd_step; eauto|exact Fr].
      * rewrite app_length, Lp, Lr. cbn [tot fold_right]. fold (tot l'). lia.
Qed.

Theorem embed_circ_s ins ob c ws s : wfst s -> circ_ok c = true ->
  Forall2 (fun w n => Forall (defd s) w /\ (length w <= n)%nat) ws ins ->
  tot ins = Circuit.ninputs c -> ob = Circuit.noutputs c ->
  oks (embed_circ ins ob c ws) s (fun o s' => after s s' /\ Forall (defd s') o).
Proof.
  intros W OK F TI TO. destruct (wf_parts c OK) as (LN & WG & SA & OA).
  unfold embed_circ.
  eapply oks_bind; [apply flatten_s; eauto|]. intros cin s1 W1 (S1 & Fc & Lc). cbv beta.
  sbind fresh_n_s. intros o s2 W2 (S2 & NDo & Lo & Po). cbv beta.
  sbind fresh_n_s. intros ints s3 W3 (S3 & NDi & Li & Pi). cbv beta.
  assert (IL : length (Circuit.init_asg c) = Circuit.nwires c) by (apply init_asg_length; lia).
  assert (Lcin : length cin = Circuit.ninputs c) by congruence.
  assert (ND : NoDup (ints ++ o)).
  { apply NoDup_app_disj; auto. intros x Hi Ho. destruct (Pi _ Hi) as [_ Ge].
    destruct (Po _ Ho) as [Px _]. pose proof (pend_next _ _ _ Px). lia. }
  assert (PP : forall w, In w (ints ++ o) -> pend s3 w).
  { intros w Hin. apply in_app_or in Hin. destruct Hin as [H|H]; [apply Pi, H|].
    eapply step_pend; [exact S3|apply Po, H|intros []]. }
  assert (LT : length (ints ++ o) = (Circuit.nwires c - Circuit.ninputs c)%nat) by (rewrite app_length; lia).
  eapply oks_bind.
  - apply (embed_gates_s (cin ++ ints ++ o) (Circuit.nwires c) (Circuit.ninputs c) (Circuit.gates c) (Circuit.init_asg c) s3 W3 IL WG SA).
    + intros k k' Hk Hk' A A' E.
      assert (K : (Circuit.ninputs c <= k)%nat).
      { destruct (Nat.lt_ge_cases k (Circuit.ninputs c)) as [L|L]; [|exact L]. rewrite init_asg_lt in A by exact L. discriminate A. }
      assert (K' : (Circuit.ninputs c <= k')%nat).
      { destruct (Nat.lt_ge_cases k' (Circuit.ninputs c)) as [L|L]; [|exact L]. rewrite init_asg_lt in A' by exact L. discriminate A'. }
      rewrite (app_nth2 cin _ 0 (n:=k)), (app_nth2 cin _ 0 (n:=k')) in E by lia. rewrite Lcin in E.
      rewrite NoDup_nth in ND. specialize (ND (k - Circuit.ninputs c)%nat (k' - Circuit.ninputs c)%nat).
      assert ((k - Circuit.ninputs c)%nat = (k' - Circuit.ninputs c)%nat) by (apply ND; [lia|lia|exact E]). lia.
    + intros k Hk A. apply init_asg_true in A. rewrite app_nth1 by lia.
      assert (In (nth k cin 0) cin) by (apply nth_In; lia).
      rewrite Forall_forall in Fc.
      eapply step_defd; [exact S3|]. eapply step_defd; [exact S2|]. apply Fc. assumption.
    + intros k Hk A.
      assert (K : (Circuit.ninputs c <= k)%nat).
      { destruct (Nat.lt_ge_cases k (Circuit.ninputs c)) as [L|L]; [|exact L]. rewrite init_asg_lt in A by exact L. discriminate A. }
      rewrite app_nth2 by lia. apply PP. apply nth_In. lia.
  - intros u s4 W4 (A4 & D4). cbv beta. apply oks_ret; auto. split.
    + eapply after_trans; [eapply step_after; exact S1|].
      eapply after_trans; [eapply step_after; exact S2|].
      eapply after_trans; [eapply step_after; exact S3|exact A4].
    + assert (SO : o = map (fun w => nth w (cin ++ ints ++ o) 0) (Circuit.output_wires c)).
      { unfold Circuit.output_wires. rewrite app_assoc.
        replace (Circuit.nwires c - Circuit.noutputs c)%nat with (length (cin ++ ints)) by (rewrite app_length; lia).
        replace (Circuit.noutputs c) with (length o) by lia.
        symmetry. apply sel_suffix. }
      rewrite SO. apply Forall_forall. intros x Hin. apply in_map_iff in Hin.
      destruct Hin as (w & <- & Hw). apply D4; [|apply OA, Hw].
      unfold Circuit.output_wires in Hw. apply in_seq in Hw. lia.
Qed.
End S.
