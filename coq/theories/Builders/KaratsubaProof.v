(* KaratsubaProof.v — NewKaratsubaMultiplier (Yao target) computes
   (a * b) mod 2^(result width) for every operand width and every result width
   (no upper bound), when the recursion limit is at least 3. *)
From Coq Require Import NArith List Bool Arith Lia.
From Mpc Require Import Builders.Emit Builders.EmitProof Builders.Adder Builders.AdderProof
  Builders.Sub Builders.SubProof Builders.Mult Builders.MultProof Gen.Thresholds.
Import ListNotations.
Open Scope N_scope.

(* ---------- sanity check of the model on concrete instances ---------- *)
(* operands of width n on wires 0..n-1 and n..2n-1, result width l on wires 2n.. *)
Definition ka_run (limit n l : nat) (a b : N) : N * N :=
  let x := map N.of_nat (seq 0 n) in
  let y := map N.of_nat (seq n n) in
  let z := map N.of_nat (seq (2 * n) l) in
  let '(z', s) := karatsuba (S n) limit x y z (st0 (N.of_nat (2 * n + l)) false) in
  let e0 := fun w => if N.ltb w (N.of_nat n) then N.testbit a w
                     else N.testbit b (w - N.of_nat n) in
  let e := eval_rev (gates s) e0 in
  (valN e z', (a * b) mod 2 ^ N.of_nat l).

Definition ka_check (limit n l : nat) : bool :=
  forallb (fun a => forallb (fun b => let '(u, v) := ka_run limit n l (N.of_nat a) (N.of_nat b) in N.eqb u v)
                            (seq 0 (2 ^ n))) (seq 0 (2 ^ n)).

Example ka_check_4 : forallb (ka_check 3 4) [1; 5; 8]%nat = true.
Proof. vm_compute. reflexivity. Qed.
(* two levels of recursion; the first subtraction is wider than its operands + 1 *)
Example ka_spot_8 :
  forallb (fun p => let '(u, v) := ka_run 3 8 16 (fst p) (snd p) in N.eqb u v)
          [(255, 255); (170, 85); (129, 254); (0, 77); (200, 3)] = true.
Proof. vm_compute. reflexivity. Qed.
Example ka_spot_9 :
  forallb (fun p => let '(u, v) := ka_run 4 9 13 (fst p) (snd p) in N.eqb u v)
          [(511, 511); (341, 170); (257, 510)] = true.
Proof. vm_compute. reflexivity. Qed.

(* result wider than twice the operand width (5x5 -> 14 bits, limit 3; 4x4 -> 11 bits) *)
Example ka_spot_wide :
  (forallb (fun p => let '(u, v) := ka_run 3 5 14 (fst p) (snd p) in N.eqb u v)
           [(31, 31); (21, 10); (17, 30); (0, 13); (25, 3); (31, 1); (16, 16)]
   && ka_check 3 4 11)%bool = true.
Proof. vm_compute. reflexivity. Qed.

(* ---------- pure length facts ---------- *)
Definition lenp (m : M (list wire)) (n : nat) : Prop := forall s, length (fst (m s)) = n.

Lemma lenp_ret l n : length l = n -> lenp (ret l) n.
Proof. intros H s. exact H. Qed.

Lemma lenp_bind {A} (m : M A) f n : (forall a, lenp (f a) n) -> lenp (bind m f) n.
Proof. intros H s. unfold bind. destruct (m s) as [a s1]. apply H. Qed.

Lemma okp_len t (m : M (list wire)) n P :
  okm t m P -> lenp m n -> okp t m (fun a => length a = n) P.
Proof.
  intros H L s W G. destruct (H s W G) as (a & s' & E & W' & X & HP).
  exists a, s'. split; [exact E | split; [exact W' | split; [exact X | split; [|exact HP]]]].
  specialize (L s). rewrite E in L. exact L.
Qed.

Lemma lenp_zero_tail z k : lenp (zero_tail z k) (length z).
Proof.
  unfold zero_tail. destruct (Nat.ltb k (length z)) eqn:E.
  - apply Nat.ltb_lt in E. apply lenp_bind. intros zw. apply lenp_ret.
    rewrite app_length, firstn_length, repeat_length. lia.
  - apply lenp_ret. reflexivity.
Qed.

Lemma lenp_ripple_adder x y z : lenp (ripple_adder x y z) (length z).
Proof.
  unfold ripple_adder. apply lenp_bind. intros [x' y']. cbv zeta.
  apply lenp_bind. intros _. apply lenp_zero_tail.
Qed.

Lemma lenp_new_adder_yao x y z :
  forall s, gmw s = false -> length (fst (new_adder x y z s)) = length z.
Proof.
  intros s G. unfold new_adder, bind, target_gmw. rewrite G. apply lenp_ripple_adder.
Qed.

Lemma set_nth_length {A} (v : A) : forall l i, length (set_nth l i v) = length l.
Proof. induction l as [|a l IH]; intros [|i]; cbn; auto. Qed.

Lemma lenp_array_multiplier x y z : lenp (array_multiplier x y z) (length z).
Proof.
  unfold array_multiplier. apply lenp_bind. intros [x' y']. cbv zeta.
  destruct (Nat.eqb _ 1).
  - apply lenp_bind. intros _. apply lenp_zero_tail.
  - do 4 (apply lenp_bind; intros ?). apply lenp_zero_tail.
Qed.

Lemma okp_new_adder_yao x y z :
  (1 <= length z)%nat -> (1 <= Nat.max (length x) (length y))%nat ->
  okp false (new_adder x y z)
      (fun z' => length z' = length z)
      (fun z' e => valN e z' = (valN e x + valN e y) mod 2 ^ N.of_nat (length z)).
Proof.
  intros Hz Hm s W G. unfold new_adder, bind, target_gmw. rewrite G.
  refine (okp_len false (ripple_adder x y z) (length z) _ _ (lenp_ripple_adder x y z) s W G).
  eapply okm_weaken; [apply okm_ripple_adder; assumption|]. cbv beta. intros a e [_ H]. exact H.
Qed.

Lemma okp_array_multiplier_gen t x y z :
  (1 <= Nat.max (length x) (length y))%nat -> (1 <= length z)%nat ->
  okp t (array_multiplier x y z)
      (fun z' => length z' = length z)
      (fun z' e => valN e z' = (valN e x * valN e y) mod 2 ^ N.of_nat (length z)).
Proof.
  intros H1 H2. apply okp_len; [|apply lenp_array_multiplier].
  eapply okm_weaken; [apply okm_array_multiplier_gen; assumption|]. cbv beta. intros a e [_ H]. exact H.
Qed.

(* ---------- the ripple subtractor for results wider than max(len x, len y) + 1:
   exact when it does not borrow ---------- *)
Theorem okp_ripple_subtractor_noborrow t x y z :
  (0 < Nat.max (length x) (length y))%nat ->
  (Nat.max (length x) (length y) + 1 < length z)%nat ->
  okp t (ripple_subtractor x y z)
      (fun z' => length z' = length z)
      (fun z' e => valN e y <= valN e x -> valN e z' = valN e x - valN e y).
Proof.
  intros Hm Hw. unfold ripple_subtractor.
  eapply okp_bind; [apply okp_zero_pad|]. intros [x' y'] [Sx Sy]. cbn [fst snd] in *.
  pose proof (pad_shape_len _ _ _ Sx) as Lx. pose proof (pad_shape_len _ _ _ Sy) as Ly.
  cbv zeta.
  remember (firstn (length z) x') as x2 eqn:Ex2.
  remember (firstn (length z) y') as y2 eqn:Ey2.
  assert (Lx2 : length x2 = Nat.max (length x) (length y)).
  { subst x2. rewrite firstn_length. lia. }
  assert (Ly2 : length y2 = length x2).
  { subst y2. rewrite firstn_length. lia. }
  remember (length x2) as n eqn:En.
  eapply okp_bind; [apply okp_of_okm, okm_zero | intros cin _; cbv beta].
  set (last := if Nat.ltb n (length z) then Some (nth n z 0) else None).
  eapply okp_bind.
  { apply okp_of_okm. apply (okm_sub_loop t x2 y2 z cin last); try lia.
    intros ->. cbn in En. lia. }
  intros u _. cbv beta.
  eapply okp_weaken; [apply okp_zero_tail | intros z' H; eapply zero_tail_len; exact H | ].
  cbv beta. intros z' e H Hzero Hcore Hcin [Zx Zy] Hle.
  destruct H as (zw & ->).
  assert (Vx : valN e x2 = valN e x).
  { rewrite Ex2, firstn_all2 by lia. eapply pad_val; eauto. }
  assert (Vy : valN e y2 = valN e y).
  { rewrite Ey2, firstn_all2 by lia. eapply pad_val; eauto. }
  cbv zeta in Hcore. rewrite <- En in Hcore. destruct Hcore as (k & Hl & Hcore).
  rewrite Hcin in Hcore. cbn [N.b2n] in Hcore. rewrite N.add_0_r in Hcore.
  assert (EL : Nat.ltb n (length z) = true) by (apply Nat.ltb_lt; lia).
  subst last. rewrite EL in Hl. apply Nat.ltb_lt in EL.
  assert (Hz0 : valN e (repeat zw (length z - (n + 1))) = 0).
  { apply valN_all_zero. intros w Hin. apply Hzero; [|lia].
    rewrite skipn_app, firstn_length.
    replace (n + 1 - Nat.min (n + 1) (length z))%nat with 0%nat by lia.
    rewrite skipn_all2 by (rewrite firstn_length; lia). cbn. exact Hin. }
  rewrite valN_app, Hz0, N.mul_0_r, N.add_0_r.
  replace (n + 1)%nat with (S n) by lia.
  rewrite (firstn_S_nth_sub (0%N : wire)) by exact EL.
  rewrite valN_app, firstn_length, valN_cons, valN_nil.
  replace (Nat.min n (length z)) with n by lia.
  rewrite (Hl _ eq_refl).
  assert (Bz : valN e (firstn n z) < 2 ^ N.of_nat n).
  { eapply N.lt_le_trans; [apply valN_lt|]. apply N.pow_le_mono_r. lia.
    rewrite firstn_length. lia. }
  rewrite Vx, Vy in Hcore.
  destruct k; cbn [N.b2n] in *; lia.
Qed.

(* NewSubtractor under the Yao target, every result width: the modular difference,
   provided the result is at most one bit wider than the operands or x >= y *)
Theorem okp_new_subtractor_yao_any x y z :
  (0 < length z)%nat -> (0 < Nat.max (length x) (length y))%nat ->
  okp false (new_subtractor x y z)
      (fun z' => length z' = length z)
      (fun z' e =>
         (length z <= Nat.max (length x) (length y) + 1)%nat \/ valN e y <= valN e x ->
         valN e z' = (valN e x + 2 ^ N.of_nat (length z)
                      - valN e y mod 2 ^ N.of_nat (length z)) mod 2 ^ N.of_nat (length z)).
Proof.
  intros Hz Hm.
  destruct (le_lt_dec (length z) (Nat.max (length x) (length y) + 1)) as [Hw|Hw].
  - eapply okp_weaken; [apply okp_new_subtractor_yao; assumption | auto | ].
    cbv beta. intros a e _ H _. exact H.
  - intros s W G. unfold new_subtractor, bind, target_gmw. rewrite G.
    refine (okp_weaken false _ _ _ _ _ (okp_ripple_subtractor_noborrow false x y z Hm Hw) _ _ s W G).
    + auto.
    + cbv beta. intros a e _ H [Hc|Hc]; [lia|]. rewrite (H Hc).
      assert (Bx : valN e x < 2 ^ N.of_nat (length z)).
      { eapply N.lt_le_trans; [apply valN_lt|]. apply N.pow_le_mono_r; lia. }
      assert (By : valN e y < 2 ^ N.of_nat (length z)).
      { eapply N.lt_le_trans; [apply valN_lt|]. apply N.pow_le_mono_r; lia. }
      rewrite (N.mod_small (valN e y)) by lia.
      apply N.mod_unique with (q := 1); lia.
Qed.

(* ---------- Compiler.ShiftLeft ---------- *)
Lemma shl_len (z : wire) (w : list wire) size count :
  (count <= size)%nat ->
  length (firstn size (repeat z count ++ firstn (size - count) w ++
                       repeat z (size - count - length (firstn (size - count) w)))) = size.
Proof.
  intros Hc. rewrite firstn_length, !app_length, !repeat_length, !firstn_length. lia.
Qed.

Lemma shl_val e (z : wire) (w : list wire) size count :
  (count <= size)%nat ->
  ((0 < count)%nat \/ (count + length w < size)%nat -> e z = false) ->
  valN e (firstn size (repeat z count ++ firstn (size - count) w ++
                       repeat z (size - count - length (firstn (size - count) w))))
  = (valN e w * 2 ^ N.of_nat count) mod 2 ^ N.of_nat size.
Proof.
  intros Hc Hz.
  rewrite firstn_all2 by (rewrite !app_length, !repeat_length, !firstn_length; lia).
  rewrite !valN_app, !repeat_length.
  assert (A1 : valN e (repeat z count) = 0).
  { destruct count; [reflexivity|]. apply valN_repeat0, Hz. lia. }
  assert (A2 : valN e (repeat z (size - count - length (firstn (size - count) w))) = 0).
  { destruct (size - count - length (firstn (size - count) w))%nat eqn:EK; [reflexivity|].
    apply valN_repeat0, Hz. rewrite firstn_length in EK. lia. }
  rewrite A1, A2, valN_firstn.
  replace (2 ^ N.of_nat size) with (2 ^ N.of_nat count * 2 ^ N.of_nat (size - count))
    by (rewrite <- N.pow_add_r; f_equal; lia).
  rewrite (N.mul_comm (valN e w)), N.mul_mod_distr_l by (apply N.pow_nonzero; discriminate).
  lia.
Qed.

Theorem okp_shift_left t w size count :
  (count <= size)%nat ->
  okp t (shift_left w size count)
      (fun r => length r = size)
      (fun r e => valN e r = (valN e w * 2 ^ N.of_nat count) mod 2 ^ N.of_nat size).
Proof.
  intros Hc. unfold shift_left. cbv zeta.
  destruct (Nat.ltb 0 count || Nat.ltb (count + length w) size) eqn:E.
  - eapply okp_bind; [apply okp_of_okm, okm_zero | intros z _; cbv beta].
    apply okp_ret; [apply shl_len; exact Hc|].
    intros e Hz. apply shl_val; auto.
  - apply orb_false_iff in E. destruct E as [E1 E2].
    apply Nat.ltb_ge in E1, E2.
    apply okp_ret; [apply shl_len; exact Hc|].
    intros e. apply shl_val; [exact Hc|]. intros [H|H]; lia.
Qed.

(* ---------- arithmetic modulo R ---------- *)
Lemma eqm_add R a a' b b' : R <> 0 ->
  a mod R = a' mod R -> b mod R = b' mod R -> (a + b) mod R = (a' + b') mod R.
Proof. intros HR H1 H2. rewrite (N.add_mod a b), (N.add_mod a' b'), H1, H2 by exact HR. reflexivity. Qed.

Lemma eqm_mul R a a' b : R <> 0 ->
  a mod R = a' mod R -> (a * b) mod R = (a' * b) mod R.
Proof. intros HR H1. rewrite (N.mul_mod a b), (N.mul_mod a' b), H1 by exact HR. reflexivity. Qed.

Lemma mod_add_cancel R a b c : R <> 0 ->
  (a + c) mod R = (b + c) mod R -> a mod R = b mod R.
Proof.
  intros HR H.
  assert (K : forall u, (u + c + (R - c mod R)) mod R = u mod R).
  { intros u. pose proof (N.div_mod' c R) as D. pose proof (N.mod_lt c R HR) as L.
    replace (u + c + (R - c mod R)) with (u + (1 + c / R) * R) by lia.
    apply N.mod_add; exact HR. }
  rewrite <- (K a), <- (K b).
  rewrite <- (N.add_mod_idemp_l (a + c)), H, N.add_mod_idemp_l by exact HR. reflexivity.
Qed.

(* what the subtractor specification says, additively *)
Lemma sub_spec_add R x y s : R <> 0 ->
  s = (x + R - y mod R) mod R -> (s + y) mod R = x mod R.
Proof.
  intros HR ->. rewrite N.add_mod_idemp_l by exact HR.
  pose proof (N.div_mod' y R) as D. pose proof (N.mod_lt y R HR) as L.
  replace (x + R - y mod R + y) with (x + (1 + y / R) * R) by lia.
  apply N.mod_add; exact HR.
Qed.

(* the Karatsuba recombination, modulo R *)
Lemma ks_algebra R T Al Ah Bl Bh z0 z1 z2 sub1 sub2 :
  R <> 0 ->
  z0 mod R = (Al * Bl) mod R ->
  z1 mod R = ((Al + Ah) * (Bl + Bh)) mod R ->
  z2 mod R = (Ah * Bh) mod R ->
  sub1 = (z1 + R - z2 mod R) mod R ->
  sub2 = (sub1 + R - z0 mod R) mod R ->
  (((z2 * (T * T)) mod R + (sub2 * T) mod R) mod R + z0) mod R
  = ((Al + T * Ah) * (Bl + T * Bh)) mod R.
Proof.
  intros HR H0 H1 H2 S1 S2.
  apply sub_spec_add in S1; [|exact HR]. apply sub_spec_add in S2; [|exact HR].
  set (X := Al * Bh + Ah * Bl).
  assert (HX : sub2 mod R = X mod R).
  { apply mod_add_cancel with (c := z0 + z2); [exact HR|].
    transitivity (z1 mod R).
    - replace (sub2 + (z0 + z2)) with ((sub2 + z0) + z2) by lia.
      rewrite <- N.add_mod_idemp_l, S2, N.add_mod_idemp_l by exact HR. exact S1.
    - rewrite H1. replace ((Al + Ah) * (Bl + Bh)) with (X + (Al * Bl + Ah * Bh)) by (unfold X; ring).
      apply eqm_add; [exact HR | reflexivity |]. apply eqm_add; auto. }
  rewrite <- (N.add_mod (z2 * (T * T)) (sub2 * T)) by exact HR.
  rewrite N.add_mod_idemp_l by exact HR.
  replace ((Al + T * Ah) * (Bl + T * Bh)) with (Ah * Bh * (T * T) + X * T + Al * Bl) by (unfold X; ring).
  apply eqm_add; [exact HR | | exact H0].
  apply eqm_add; [exact HR | |]; apply eqm_mul; assumption.
Qed.

(* ---------- truncated products ---------- *)
Lemma ks_trunc P m lr :
  P < 2 ^ N.of_nat m ->
  (P mod 2 ^ N.of_nat (Nat.min m lr)) mod 2 ^ N.of_nat lr = P mod 2 ^ N.of_nat lr.
Proof.
  intros HP. destruct (le_lt_dec m lr) as [H|H].
  - replace (Nat.min m lr) with m by lia. rewrite (N.mod_small P (2 ^ N.of_nat m)) by exact HP. reflexivity.
  - replace (Nat.min m lr) with lr by lia. apply N.mod_mod. apply N.pow_nonzero. discriminate.
Qed.

Lemma ks_prod_lt e (x y : list wire) m :
  (length x <= m)%nat -> (length y <= m)%nat ->
  valN e x * valN e y < 2 ^ N.of_nat (m * 2).
Proof.
  intros Hx Hy.
  replace (N.of_nat (m * 2)) with (N.of_nat m + N.of_nat m) by lia.
  rewrite N.pow_add_r.
  assert (Bx : valN e x < 2 ^ N.of_nat m).
  { eapply N.lt_le_trans; [apply valN_lt|]. apply N.pow_le_mono_r; lia. }
  assert (By : valN e y < 2 ^ N.of_nat m).
  { eapply N.lt_le_trans; [apply valN_lt|]. apply N.pow_le_mono_r; lia. }
  apply N.mul_lt_mono; assumption.
Qed.

Lemma ks_sum_lt e (x y : list wire) m :
  (length x <= m)%nat -> (length y <= m)%nat ->
  valN e x + valN e y < 2 ^ N.of_nat (m + 1).
Proof.
  intros Hx Hy.
  replace (m + 1)%nat with (S m) by lia. rewrite pow2_S.
  assert (Bx : valN e x < 2 ^ N.of_nat m).
  { eapply N.lt_le_trans; [apply valN_lt|]. apply N.pow_le_mono_r; lia. }
  assert (By : valN e y < 2 ^ N.of_nat m).
  { eapply N.lt_le_trans; [apply valN_lt|]. apply N.pow_le_mono_r; lia. }
  lia.
Qed.

(* lia on the length side conditions only (the valuation facts are dropped first) *)
Ltac elia := repeat match goal with H : context [valN] |- _ => clear H end; unfold wire in *; lia.
Ltac slia := unfold wire in *; lia.

(* ---------- NewKaratsubaMultiplier ---------- *)
Theorem okp_karatsuba : forall fuel limit a b r,
  (3 <= limit)%nat ->
  (S (Nat.max (length a) (length b)) <= fuel)%nat ->
  (1 <= Nat.max (length a) (length b))%nat ->
  (1 <= length r)%nat ->
  okp false (karatsuba fuel limit a b r)
      (fun r' => length r' = length r)
      (fun r' e => valN e r' = (valN e a * valN e b) mod 2 ^ N.of_nat (length r)).
Proof.
  induction fuel as [|f IH]; intros limit a b r HL HF HM HR1; [lia|].
  cbn [karatsuba].
  eapply okp_bind; [apply okp_zero_pad|]. intros [a' b'] [Sa Sb]. cbn [fst snd] in *.
  pose proof (pad_shape_len _ _ _ Sa) as La. pose proof (pad_shape_len _ _ _ Sb) as Lb.
  cbv zeta.
  remember (firstn (length r) a') as a2 eqn:Ea2.
  remember (firstn (length r) b') as b2 eqn:Eb2.
  assert (La2 : length a2 = Nat.min (length r) (Nat.max (length a) (length b))).
  { subst a2. rewrite firstn_length. lia. }
  assert (Lb2 : length b2 = length a2).
  { subst b2. rewrite firstn_length. lia. }
  assert (Va2 : forall e, pad_zero e a' a -> valN e a2 = valN e a mod 2 ^ N.of_nat (length r)).
  { intros e Z. rewrite Ea2, valN_firstn. f_equal. eapply pad_val; eauto. }
  assert (Vb2 : forall e, pad_zero e b' b -> valN e b2 = valN e b mod 2 ^ N.of_nat (length r)).
  { intros e Z. rewrite Eb2, valN_firstn. f_equal. eapply pad_val; eauto. }
  assert (HRnz : 2 ^ N.of_nat (length r) <> 0) by (apply N.pow_nonzero; discriminate).
  clear Ea2 Eb2 Sa Sb La Lb.
  destruct (Nat.leb (length a2) limit) eqn:EL.
  - (* at most [limit] bits: array multiplier *)
    eapply okp_weaken; [apply okp_array_multiplier_gen; unfold wire in *; lia | auto | ].
    cbv beta. intros r' e _ Hv [Za Zb].
    rewrite Hv, (Va2 e Za), (Vb2 e Zb), <- N.mul_mod by exact HRnz. reflexivity.
  - apply Nat.leb_gt in EL.
    remember (length a2) as n eqn:En.
    assert (Hmid : (2 * (n / 2) <= n /\ n <= 2 * (n / 2) + 1)%nat).
    { pose proof (Nat.div_mod n 2). pose proof (Nat.mod_upper_bound n 2). lia. }
    remember (n / 2)%nat as mid eqn:Emid. clear Emid.
    remember (firstn mid a2) as aLow eqn:EaL. remember (skipn mid a2) as aHigh eqn:EaH.
    remember (firstn mid b2) as bLow eqn:EbL. remember (skipn mid b2) as bHigh eqn:EbH.
    assert (LaL : length aLow = mid) by (subst aLow; rewrite firstn_length; lia).
    assert (LbL : length bLow = mid) by (subst bLow; rewrite firstn_length; lia).
    assert (LaH : length aHigh = (n - mid)%nat) by (subst aHigh; rewrite skipn_length; lia).
    assert (LbH : length bHigh = (n - mid)%nat) by (subst bHigh; rewrite skipn_length; lia).
    assert (Sa2 : forall e, valN e a2 = valN e aLow + 2 ^ N.of_nat mid * valN e aHigh).
    { intros e. rewrite <- (firstn_skipn mid a2), valN_app, <- EaL, <- EaH, LaL. reflexivity. }
    assert (Sb2 : forall e, valN e b2 = valN e bLow + 2 ^ N.of_nat mid * valN e bHigh).
    { intros e. rewrite <- (firstn_skipn mid b2), valN_app, <- EbL, <- EbH, LbL. reflexivity. }
    clear EaL EaH EbL EbH.
    remember (n - mid)%nat as h eqn:Eh.
    assert (Hh : (n = mid + h)%nat /\ (mid <= h <= mid + 1)%nat) by lia.
    assert (Hmax : Nat.max mid h = h) by lia.
    assert (Hnr : (n <= length r)%nat) by lia.
    assert (Hnf : (n <= f)%nat) by lia.
    clear Eh Hmid La2 HF HM En Lb2.
    rewrite ?LaL, ?LbL, ?LaH, ?LbH. rewrite ?Nat.max_id, ?Hmax, ?Nat.max_id.
    (* z0 = aLow * bLow *)
    eapply okp_bind; [apply okp_fresh_n|]. intros z0w Lz0w. cbv beta.
    eapply okp_bind; [apply (IH limit aLow bLow z0w); slia|]. intros z0 Lz0. cbv beta.
    (* aSum, bSum *)
    eapply okp_bind; [apply okp_fresh_n|]. intros aSw LaSw. cbv beta.
    eapply okp_bind; [apply (okp_new_adder_yao aLow aHigh aSw); slia|]. intros aS LaS. cbv beta.
    eapply okp_bind; [apply okp_fresh_n|]. intros bSw LbSw. cbv beta.
    eapply okp_bind; [apply (okp_new_adder_yao bLow bHigh bSw); slia|]. intros bS LbS. cbv beta.
    (* z1 = aSum * bSum *)
    eapply okp_bind; [apply okp_fresh_n|]. intros z1w Lz1w. cbv beta.
    eapply okp_bind; [apply (IH limit aS bS z1w); slia|]. intros z1 Lz1. cbv beta.
    (* z2 = aHigh * bHigh *)
    eapply okp_bind; [apply okp_fresh_n|]. intros z2w Lz2w. cbv beta.
    eapply okp_bind; [apply (IH limit aHigh bHigh z2w); slia|]. intros z2 Lz2. cbv beta.
    clear IH.
    (* sub1 = z1 - z2, sub2 = sub1 - z0 *)
    eapply okp_bind; [apply okp_fresh_n|]. intros s1w Ls1w. cbv beta.
    eapply okp_bind; [apply (okp_new_subtractor_yao_any z1 z2 s1w); slia|]. intros s1 Ls1. cbv beta.
    eapply okp_bind; [apply okp_fresh_n|]. intros s2w Ls2w. cbv beta.
    eapply okp_bind; [apply (okp_new_subtractor_yao_any s1 z0 s2w); slia|]. intros s2 Ls2. cbv beta.
    (* shifts and final additions *)
    eapply okp_bind; [apply okp_shift_left; slia|]. intros sh1 Lsh1. cbv beta.
    eapply okp_bind; [apply okp_shift_left; slia|]. intros sh2 Lsh2. cbv beta.
    eapply okp_bind; [apply okp_fresh_n|]. intros a1w La1w. cbv beta.
    eapply okp_bind; [apply (okp_new_adder_yao sh1 sh2 a1w); slia|]. intros a1 La1. cbv beta.
    eapply okp_weaken; [apply (okp_new_adder_yao a1 z0 r); slia | auto | ].
    cbv beta. intros r' e _ Hfin Ha1 _ Hsh2 Hsh1 Hs2 _ Hs1 _ Hz2 _ Hz1 _ HbS _ HaS _ Hz0 _ [Za Zb].
    cbv beta in *.
    rewrite La1w in Ha1. rewrite Ls1w in Hs1. rewrite Ls2w in Hs2.
    (* the operand sums are exact *)
    assert (EaS : valN e aS = valN e aLow + valN e aHigh).
    { rewrite HaS, LaSw. apply N.mod_small. apply ks_sum_lt; elia. }
    assert (EbS : valN e bS = valN e bLow + valN e bHigh).
    { rewrite HbS, LbSw. apply N.mod_small. apply ks_sum_lt; elia. }
    (* the three products modulo 2^len(r) *)
    assert (M0 : valN e z0 mod 2 ^ N.of_nat (length r)
                 = (valN e aLow * valN e bLow) mod 2 ^ N.of_nat (length r)).
    { rewrite Hz0, Lz0w. apply ks_trunc. apply ks_prod_lt; elia. }
    assert (M2 : valN e z2 mod 2 ^ N.of_nat (length r)
                 = (valN e aHigh * valN e bHigh) mod 2 ^ N.of_nat (length r)).
    { rewrite Hz2, Lz2w. apply ks_trunc. apply ks_prod_lt; elia. }
    assert (M1 : valN e z1 mod 2 ^ N.of_nat (length r)
                 = ((valN e aLow + valN e aHigh) * (valN e bLow + valN e bHigh))
                   mod 2 ^ N.of_nat (length r)).
    { rewrite Hz1, Lz1w, <- EaS, <- EbS. apply ks_trunc. apply ks_prod_lt; elia. }
    (* the subtractions *)
    assert (C2 : valN e s2 = (valN e s1 + 2 ^ N.of_nat (length r)
                              - valN e z0 mod 2 ^ N.of_nat (length r)) mod 2 ^ N.of_nat (length r)).
    { apply Hs2. left. elia. }
    assert (C1 : valN e s1 = (valN e z1 + 2 ^ N.of_nat (length r)
                              - valN e z2 mod 2 ^ N.of_nat (length r)) mod 2 ^ N.of_nat (length r)).
    { apply Hs1.
      destruct (le_lt_dec (length r) (Nat.max (length z1) (length z2) + 1)) as [Hc|Hc];
        [left; exact Hc | right].
      (* z1 and z2 are narrower than r, hence exact, and z2 <= z1 *)
      rewrite Hz1, Hz2, Lz1w, Lz2w.
      replace (Nat.min (h * 2) (length r)) with (h * 2)%nat by (elia).
      replace (Nat.min ((h + 1) * 2) (length r)) with ((h + 1) * 2)%nat by (elia).
      rewrite (N.mod_small (valN e aHigh * valN e bHigh)) by (apply ks_prod_lt; elia).
      rewrite (N.mod_small (valN e aS * valN e bS)) by (apply ks_prod_lt; elia).
      rewrite EaS, EbS. apply N.mul_le_mono; apply N.le_add_l. }
    rewrite Hfin, Ha1, Hsh1, Hsh2.
    replace (2 ^ N.of_nat (mid * 2)) with (2 ^ N.of_nat mid * 2 ^ N.of_nat mid)
      by (rewrite <- N.pow_add_r; f_equal; elia).
    rewrite (N.mul_mod (valN e a) (valN e b)) by exact HRnz.
    rewrite <- (Va2 e Za), <- (Vb2 e Zb), Sa2, Sb2.
    apply ks_algebra with (z1 := valN e z1) (sub1 := valN e s1); assumption.
Qed.

(* the same as a plain [okm] specification *)
Theorem okm_karatsuba : forall fuel limit a b r,
  (3 <= limit)%nat ->
  (S (Nat.max (length a) (length b)) <= fuel)%nat ->
  (1 <= Nat.max (length a) (length b))%nat ->
  (1 <= length r)%nat ->
  okm false (karatsuba fuel limit a b r)
      (fun r' e => length r' = length r /\
                   valN e r' = (valN e a * valN e b) mod 2 ^ N.of_nat (length r)).
Proof. intros. apply okm_of_okp, okp_karatsuba; assumption. Qed.

(* NewMultiplier under the Yao target: the Karatsuba multiplier with the threshold
   from the table (default 21) or the caller's threshold when that is >= 8 *)
Corollary okp_new_multiplier_yao tbl thr x y z :
  (forall k v, lookup_threshold tbl k = Some v -> (3 <= v)%nat) ->
  (1 <= Nat.max (length x) (length y))%nat ->
  (1 <= length z)%nat ->
  okp false (new_multiplier tbl thr x y z)
      (fun z' => length z' = length z)
      (fun z' e => valN e z' = (valN e x * valN e y) mod 2 ^ N.of_nat (length z)).
Proof.
  intros Htbl Hm Hz1 s W G.
  unfold new_multiplier, bind, target_gmw. rewrite G.
  apply okp_karatsuba; try assumption; [|lia].
  destruct (Nat.ltb thr 8) eqn:E.
  - destruct (lookup_threshold tbl (length x)) as [v|] eqn:EL; [eapply Htbl; exact EL | lia].
  - apply Nat.ltb_ge in E. lia.
Qed.

Corollary okm_new_multiplier_yao tbl thr x y z :
  (forall k v, lookup_threshold tbl k = Some v -> (3 <= v)%nat) ->
  (1 <= Nat.max (length x) (length y))%nat ->
  (1 <= length z)%nat ->
  okm false (new_multiplier tbl thr x y z)
      (fun z' e => length z' = length z /\
                   valN e z' = (valN e x * valN e y) mod 2 ^ N.of_nat (length z)).
Proof. intros. apply okm_of_okp, okp_new_multiplier_yao; assumption. Qed.

(* ---------- the generated threshold table (circ_multiplier_params.go) ---------- *)
Lemma lookup_threshold_ge tbl c :
  forallb (fun p => Nat.leb c (snd p)) tbl = true ->
  forall k v, lookup_threshold tbl k = Some v -> (c <= v)%nat.
Proof.
  intros H k v. unfold lookup_threshold.
  destruct (find (fun p => Nat.eqb (fst p) k) tbl) as [p|] eqn:E; [|discriminate].
  intros Hv. inversion Hv; subst v. apply find_some in E. destruct E as [Hin _].
  rewrite forallb_forall in H. apply Nat.leb_le. apply (H p Hin).
Qed.

Lemma thresholds_ge_3 :
  forall k v, lookup_threshold Mpc.Gen.Thresholds.multiplierArrayTresholds k = Some v -> (3 <= v)%nat.
Proof. apply lookup_threshold_ge. vm_compute. reflexivity. Qed.

(* NewMultiplier(c, arrayTreshold, x, y, z) with the shipped table, Yao target *)
Corollary okm_new_multiplier_yao_shipped thr x y z :
  (1 <= Nat.max (length x) (length y))%nat ->
  (1 <= length z)%nat ->
  okm false (new_multiplier Mpc.Gen.Thresholds.multiplierArrayTresholds thr x y z)
      (fun z' e => length z' = length z /\
                   valN e z' = (valN e x * valN e y) mod 2 ^ N.of_nat (length z)).
Proof. intros. apply okm_new_multiplier_yao; try assumption. apply thresholds_ge_3. Qed.
