(* StructAdder.v — structural lemmas (single assignment, defined before use) for
   NewHalfAdder, NewFullAdder, NewMUX and the ripple-carry NewAdder, for every
   width, and the resulting theorem about the EVALUATED adder circuit.
   Worked example of the proof style for StructProof.v. *)
From Coq Require Import NArith List Bool Arith Lia.
From Mpc Require Import Builders.Emit Builders.EmitProof Builders.StructProof
  Builders.Adder Builders.Mux Builders.AdderProof Builders.MuxProof.
Import ListNotations.
Open Scope N_scope.

Section A.
Variable ninp : N.
Notation defd := (defd ninp). Notation pend := (pend ninp). Notation wfst := (wfst ninp).
Notation step := (step ninp). Notation oks := (@oks ninp _).

Lemma half_adder_s s a b so c :
  wfst s -> defd s a -> defd s b -> pend s so ->
  (forall cw, c = Some cw -> pend s cw /\ cw <> so) ->
  oks (half_adder a b so c) s
      (fun _ s' => step s s' (so :: optl c) /\ defd s' so /\ forall cw, c = Some cw -> defd s' cw).
Proof.
  intros W Da Db Ps Hc. unfold half_adder.
  sbind emit_s. intros _ s1 W1 (S1 & D1 & _). cbv beta.
  destruct c as [cw|].
  - destruct (Hc cw eq_refl) as (Pc & Nc).
    eapply oks_conseq; [apply emit_s; [auto|sd|sd|sp]|].
    cbv beta. intros _ s2 W2 (S2 & D2 & _). split; [|split; [sd|]].
    + eapply step_weaken; [eapply step_trans; eauto|]. cbn. apply incl_refl.
    + intros ? [= <-]. auto.
  - apply oks_ret; auto. split; [|split; auto; intros; discriminate].
    eapply step_weaken; [eauto|]. cbn. apply incl_refl.
Qed.

Lemma full_adder_s s a b cin so c :
  wfst s -> defd s a -> defd s b -> defd s cin -> pend s so ->
  (forall cw, c = Some cw -> pend s cw /\ cw <> so) ->
  oks (full_adder a b cin so c) s
      (fun _ s' => step s s' (so :: optl c) /\ defd s' so /\ forall cw, c = Some cw -> defd s' cw).
Proof.
  intros W Da Db Dc Ps Hc. unfold full_adder.
  pose proof (pend_next _ _ _ Ps) as Ls.
  sbind fresh_s. intros w1 s1 W1 (E1 & P1 & S1 & N1). cbv beta.
  sbind fresh_s. intros w2 s2 W2 (E2 & P2 & S2 & N2). cbv beta.
  sbind fresh_s. intros w3 s3 W3 (E3 & P3 & S3 & N3). cbv beta.
  eapply oks_bind; [apply emit_s; [auto|sd|sd|sp]|]. intros _ s4 W4 (S4 & D4 & N4). cbv beta.
  eapply oks_bind; [apply emit_s; [auto|sd|sd|sp]|]. intros _ s5 W5 (S5 & D5 & N5). cbv beta.
  destruct c as [cw|].
  - destruct (Hc cw eq_refl) as (Pc & Nc). pose proof (pend_next _ _ _ Pc) as Lc.
    eapply oks_bind; [apply emit_s; [auto|sd|sd|sp]|]. intros _ s6 W6 (S6 & D6 & N6). cbv beta.
    eapply oks_bind; [apply emit_s; [auto|sd|sd|sp]|]. intros _ s7 W7 (S7 & D7 & N7). cbv beta.
    eapply oks_conseq; [apply emit_s; [auto|sd|sd|sp]|].
    cbv beta. intros _ s8 W8 (S8 & D8 & N8). split; [|split; [sd|]].
    + split; [sgn|]. split; [intros w D; sd|].
      intros w P N. pose proof (pend_next _ _ _ P) as Lw.
      assert (w <> so /\ w <> cw) as (? & ?) by (split; intro; apply N; cbn; auto).
      sp.
    + intros ? [= <-]. auto.
  - apply oks_ret; auto. split; [|split; [sd|intros; discriminate]].
    split; [sgn|]. split; [intros w D; sd|].
    intros w P N. pose proof (pend_next _ _ _ P) as Lw.
    assert (w <> so) by (intro; apply N; cbn; auto).
    sp.
Qed.

Lemma mux_loop_s c : forall t f out s,
  wfst s -> defd s c -> Forall (defd s) t -> Forall (defd s) f ->
  Forall (pend s) out -> NoDup out ->
  oks (mux_loop c t f out) s
      (fun _ s' => step s s' out /\
                   Forall (defd s') (firstn (Nat.min (length t) (length f)) out)).
Proof.
  induction t as [|ti t IH]; intros f out s W Dc Ft Ff Po ND.
  - cbn. apply oks_ret; auto. split; [eapply step_weaken; [apply step_refl|apply incl_nil_any]|constructor].
  - destruct f as [|fi f]; [cbn; apply oks_ret; auto; split; [eapply step_weaken; [apply step_refl|apply incl_nil_any]|constructor]|].
    destruct out as [|oi out]; [cbn; apply oks_ret; auto; split; [apply step_refl|try rewrite firstn_nil; cbn; constructor]|].
    cbn [mux_loop]. inversion Ft; subst. inversion Ff; subst. inversion Po; subst. inversion ND; subst.
    pose proof (pend_next _ _ _ H5) as Lo.
    sbind fresh_s. intros w1 s1 W1 (E1 & P1 & S1 & N1). cbv beta.
    sbind fresh_s. intros w2 s2 W2 (E2 & P2 & S2 & N2). cbv beta.
    eapply oks_bind; [apply emit_s; [auto|sd|sd|sp]|]. intros _ s3 W3 (S3 & D3 & N3). cbv beta.
    eapply oks_bind; [apply emit_s; [auto|sd|sd|sp]|]. intros _ s4 W4 (S4 & D4 & N4). cbv beta.
    eapply oks_bind; [apply emit_s; [auto|sd|sd|sp]|]. intros _ s5 W5 (S5 & D5 & N5). cbv beta.
    assert (Po5 : Forall (pend s5) out).
    { apply Forall_forall. intros w Hin. rewrite Forall_forall in H6. specialize (H6 _ Hin).
      pose proof (pend_next _ _ _ H6) as Lw. assert (w <> oi) by (intro; subst; auto). sp. }
    eapply oks_conseq; [apply IH; auto; try (eapply Forall_impl; [|eassumption]; intros; sd); sd|].
    cbv beta. intros _ s6 W6 (S6 & F6). split.
    + split; [sgn|]. split; [intros w D; sd|].
      intros w P N. pose proof (pend_next _ _ _ P) as Lw.
      assert (w <> oi /\ ~ In w out) as (? & ?) by (split; intro; apply N; cbn; auto).
      sp.
    + cbn [length Nat.min firstn]. constructor; [sd|exact F6].
Qed.

End A.

Section B.
Variable ninp : N.
Notation defd := (defd ninp). Notation pend := (pend ninp). Notation wfst := (wfst ninp).
Notation step := (step ninp). Notation oks := (@oks ninp _).

(* NewMUX: operands defined, destinations pending and distinct, out as wide as the wider operand *)
Lemma new_mux_s s c t f out :
  wfst s -> defd s c -> Forall (defd s) t -> Forall (defd s) f ->
  Forall (pend s) out -> NoDup out -> length out = Nat.max (length t) (length f) ->
  oks (new_mux [c] t f out) s (fun _ s' => step s s' out /\ Forall (defd s') out).
Proof.
  intros W Dc Ft Ff Po ND Lo. unfold new_mux.
  sbind zero_pad_s. intros [t' f'] s1 W1 (S1 & Ft' & Ff' & Lt & Lf). cbn [fst snd] in *. cbv beta.
  replace (Nat.eqb (length [c]) 1) with true by reflexivity.
  replace (Nat.eqb (length t') (length out)) with true by (symmetry; apply Nat.eqb_eq; lia).
  cbn [andb nth].
  assert (Po1 : Forall (pend s1) out).
  { apply Forall_forall. intros w Hin. rewrite Forall_forall in Po. specialize (Po _ Hin). sp. }
  eapply oks_conseq; [apply mux_loop_s; auto; sd|].
  cbv beta. intros _ s2 W2 (S2 & F2). split.
  - eapply step_weaken; [eapply step_trans; eauto|]. cbn. apply incl_refl.
  - rewrite firstn_all2 in F2 by lia. exact F2.
Qed.

End B.

(* ---------- the evaluated MUX circuit (end-to-end example) ----------
   Harness layout: cond = wire 0, t = wires 1..tw, f = the next fw wires, the
   destination wires follow the inputs.  For every target, all widths and every
   initial assignment e0: the emitted gate list is single-assignment and
   defined-before-use, and evaluating it gate by gate yields out = cond ? t : f. *)
Theorem new_mux_eval (tg : bool) (tw fw : nat) (e0 : env) :
  let c := 0 in
  let t := wrange 1 tw in
  let f := wrange (1 + N.of_nat tw) fw in
  let ninp := 1 + N.of_nat tw + N.of_nat fw in
  let ow := Nat.max tw fw in
  let out := wrange ninp ow in
  exists s', new_mux [c] t f out (st0 (ninp + N.of_nat ow) tg) = (tt, s') /\
    wfc_b ninp (gates s') = true /\ dbu ninp (gates s') /\
    valN (eval_rev (gates s') e0) out = if e0 c then valN e0 t else valN e0 f.
Proof.
  cbv zeta.
  set (t := wrange 1 tw). set (f := wrange (1 + N.of_nat tw) fw).
  set (ninp := 1 + N.of_nat tw + N.of_nat fw). set (ow := Nat.max tw fw).
  set (out := wrange ninp ow).
  assert (It : forall w, In w t -> w < ninp) by (intros w H; apply wrange_In in H; lia).
  assert (If : forall w, In w f -> w < ninp) by (intros w H; apply wrange_In in H; lia).
  assert (Lo : length out = Nat.max (length t) (length f))
    by (unfold out, t, f; rewrite !wrange_length; reflexivity).
  pose proof (okm_new_mux tg 0 t f out Lo) as Sem.
  assert (Str : @oks ninp unit (new_mux [0] t f out) (st0 (ninp + N.of_nat ow) tg)
                  (fun _ s' => step ninp (st0 (ninp + N.of_nat ow) tg) s' out /\ Forall (defd ninp s') out)).
  { apply new_mux_s; auto.
    - apply wfst_st0; lia.
    - left. lia.
    - apply Forall_defd_inputs; auto.
    - apply Forall_defd_inputs; auto.
    - apply Forall_pend_st0. intros w H. apply wrange_In in H. lia.
    - apply wrange_NoDup. }
  destruct (run_st0 ninp _ tg _ _ _ Sem Str e0) as ([] & s' & E & C & D & _ & P & I).
  exists s'. split; [exact E|]. split; [exact C|]. split; [exact D|].
  rewrite P, (I 0) by lia.
  rewrite (valN_inputs _ e0 ninp t I It), (valN_inputs _ e0 ninp f I If). reflexivity.
Qed.
