(* StructWallace.v — structural lemmas (single assignment, defined before use) for
   NewWallaceMultiplier (and the GMW-target NewMultiplier), for every width and
   target, and the theorem about the EVALUATED multiplier circuit.
   Invariant of the column helpers: every wire in every column is defined. *)
From Coq Require Import NArith List Bool Arith Lia.
From Mpc Require Import Builders.Emit Builders.EmitProof Builders.StructProof
  Builders.Adder Builders.Sub Builders.Mult Builders.KsProof Builders.WallaceProof
  Builders.StructAdder Builders.StructKs.
Import ListNotations.
Open Scope N_scope.

Lemma add_col_length cols k w : length (add_col cols k w) = length cols.
Proof.
  revert k. induction cols as [|c r IH]; intros k; [reflexivity|].
  destruct k; cbn; [reflexivity|]. rewrite IH. reflexivity.
Qed.

Lemma add_col_Forall (P : wire -> Prop) cols k w :
  Forall (Forall P) cols -> P w -> Forall (Forall P) (add_col cols k w).
Proof.
  revert k. induction cols as [|c r IH]; intros k F Pw; [constructor|].
  inversion F; subst. destruct k; cbn.
  - constructor; auto. apply Forall_app. split; auto.
  - constructor; auto.
Qed.

Lemma FF_step ninp s s' wr cols :
  step ninp s s' wr -> Forall (Forall (defd ninp s)) cols -> Forall (Forall (defd ninp s')) cols.
Proof.
  intros S F. eapply Forall_impl; [|exact F]. intros c Fc. eapply Forall_defd_step; eauto.
Qed.

(* transport the column invariant to a later state *)
Ltac sFF :=
  match goal with
  | H : Forall (Forall (StructProof.defd ?n ?s0)) ?l |- Forall (Forall (StructProof.defd ?n ?s)) ?l =>
      first [ exact H
            | eapply Forall_impl; [|exact H]; intros ? ?; sF ]
  end.

Section W.
Variable ninp : N.
Notation defd := (defd ninp). Notation pend := (pend ninp). Notation wfst := (wfst ninp).
Notation step := (step ninp). Notation oks := (@oks ninp _).

Lemma wal_pp_row_s ai : forall bs k cols s, wfst s -> defd s ai -> Forall (defd s) bs ->
  Forall (Forall (defd s)) cols ->
  oks (wal_pp_row ai bs k cols) s
      (fun cols' s' => step s s' [] /\ Forall (Forall (defd s')) cols' /\ length cols' = length cols).
Proof.
  induction bs as [|bj bs IH]; intros k cols s W Da Fb Fc.
  - cbn. apply oks_ret; auto. split; [apply step_refl|]. auto.
  - cbn [wal_pp_row]. inversion Fb; subst.
    sbind fresh_s. intros w s1 W1 (E1 & P1 & S1 & N1). cbv beta.
    eapply oks_bind; [apply emit_s; [auto|sd|sd|sp]|]. intros u2 s2 W2 (S2 & D2 & N2). cbv beta.
    eapply oks_conseq; [apply IH; [auto|sd|sF|]|].
    + apply add_col_Forall; [|exact D2]. sFF.
    + cbv beta. intros cols' s3 W3 (S3 & F3 & L3). rewrite add_col_length in L3.
      split; [|auto].
      split; [sgn|]. split; [intros v D; sd|].
      intros v P N. pose proof (pend_next _ _ _ P) as Lv. unfold wire in *. sp.
Qed.

Lemma wal_pp_s : forall a_ b i cols s, wfst s -> Forall (defd s) a_ -> Forall (defd s) b ->
  Forall (Forall (defd s)) cols ->
  oks (wal_pp a_ b i cols) s
      (fun cols' s' => step s s' [] /\ Forall (Forall (defd s')) cols' /\ length cols' = length cols).
Proof.
  induction a_ as [|ai a_ IH]; intros b i cols s W Fa Fb Fc.
  - cbn. apply oks_ret; auto. split; [apply step_refl|]. auto.
  - cbn [wal_pp]. inversion Fa; subst.
    eapply oks_bind; [apply wal_pp_row_s; auto|]. intros c1 s1 W1 (S1 & F1 & L1). cbv beta.
    eapply oks_conseq; [apply IH; [auto|sF|sF|auto]|].
    cbv beta. intros c2 s2 W2 (S2 & F2 & L2). split; [|split; [auto|congruence]].
    eapply step_weaken; [eapply step_trans; eauto|]. apply incl_refl.
Qed.

Lemma wal_col_s : forall fuel col s, wfst s -> Forall (defd s) col ->
  oks (wal_col fuel col) s
      (fun p s' => step s s' [] /\ Forall (defd s') (fst p) /\ Forall (defd s') (snd p)).
Proof.
  induction fuel as [|f IH]; intros col s W F.
  - cbn. apply oks_ret; auto. cbn. split; [apply step_refl|]. auto.
  - cbn [wal_col].
    destruct col as [|u [|v [|w rest]]].
    + apply oks_ret; auto. cbn. split; [apply step_refl|]. auto.
    + apply oks_ret; auto. cbn. split; [apply step_refl|]. auto.
    + inversion F as [|? ? Du F']; subst. inversion F' as [|? ? Dv _]; subst.
      sbind fresh_s. intros so s1 W1 (E1 & P1 & S1 & N1). cbv beta.
      sbind fresh_s. intros c s2 W2 (E2 & P2 & S2 & N2). cbv beta.
      eapply oks_bind; [apply half_adder_s; [auto|sd|sd|sp|]|].
      { intros cw [= <-]. split; [auto|]. unfold wire in *. lia. }
      intros u3 s3 W3 (S3 & D3 & D3'). cbv beta. specialize (D3' _ eq_refl).
      apply oks_ret; auto. cbn [fst snd optl] in *. split; [|split; constructor; auto].
      split; [sgn|]. split; [intros x D; sd|].
      intros x P N. pose proof (pend_next _ _ _ P) as Lx. unfold wire in *. sp.
    + inversion F as [|? ? Du F']; subst. inversion F' as [|? ? Dv F'']; subst.
      inversion F'' as [|? ? Dw Fr]; subst.
      sbind fresh_s. intros so s1 W1 (E1 & P1 & S1 & N1). cbv beta.
      sbind fresh_s. intros c s2 W2 (E2 & P2 & S2 & N2). cbv beta.
      eapply oks_bind; [apply full_adder_s; [auto|sd|sd|sd|sp|]|].
      { intros cw [= <-]. split; [auto|]. unfold wire in *. lia. }
      intros u3 s3 W3 (S3 & D3 & D3'). cbv beta. specialize (D3' _ eq_refl).
      eapply oks_bind; [apply IH; [auto|sF]|].
      intros [ss cs] s4 W4 (S4 & Fs & Fcs). cbn [fst snd] in *. cbv beta.
      apply oks_ret; auto. cbn [fst snd optl] in *.
      split; [|split; constructor; auto; sd].
      split; [sgn|]. split; [intros x D; sd|].
      intros x P N. pose proof (pend_next _ _ _ P) as Lx. unfold wire in *. sp.
Qed.

Lemma wal_round_s : forall cols cin s, wfst s -> Forall (Forall (defd s)) cols -> Forall (defd s) cin ->
  oks (wal_round cols cin) s
      (fun cols' s' => step s s' [] /\ Forall (Forall (defd s')) cols' /\ length cols' = length cols).
Proof.
  induction cols as [|col rest IH]; intros cin s W Fc Fi.
  - cbn. apply oks_ret; auto. split; [apply step_refl|]. auto.
  - cbn [wal_round]. inversion Fc; subst.
    eapply oks_bind; [apply wal_col_s; auto|].
    intros [ss cs] s1 W1 (S1 & Fs & Fcs). cbn [fst snd] in *. cbv beta.
    eapply oks_bind; [apply IH; [auto|sFF|auto]|].
    intros rest' s2 W2 (S2 & Fr & Lr). cbv beta.
    apply oks_ret; auto. split; [|split; [|cbn; congruence]].
    + eapply step_weaken; [eapply step_trans; eauto|]. apply incl_refl.
    + constructor; [|auto]. apply Forall_app. split; sF.
Qed.

Lemma wal_reduce_s : forall fuel cols s, wfst s -> Forall (Forall (defd s)) cols ->
  oks (wal_reduce fuel cols) s
      (fun cols' s' => step s s' [] /\ Forall (Forall (defd s')) cols' /\ length cols' = length cols).
Proof.
  induction fuel as [|f IH]; intros cols s W Fc.
  - cbn. apply oks_ret; auto. split; [apply step_refl|]. auto.
  - cbn [wal_reduce]. destruct (Nat.ltb 2 (max_height cols)).
    + eapply oks_bind; [apply wal_round_s; auto|]. intros c1 s1 W1 (S1 & F1 & L1). cbv beta.
      eapply oks_conseq; [apply IH; auto|].
      cbv beta. intros c2 s2 W2 (S2 & F2 & L2). split; [|split; [auto|congruence]].
      eapply step_weaken; [eapply step_trans; eauto|]. apply incl_refl.
    + apply oks_ret; auto. split; [apply step_refl|]. auto.
Qed.

Lemma wal_rows_s : forall cols s, wfst s -> Forall (Forall (defd s)) cols ->
  oks (wal_rows cols) s
      (fun p s' => step s s' [] /\ Forall (defd s') (fst p) /\ Forall (defd s') (snd p) /\
                   length (fst p) = length cols /\ length (snd p) = length cols).
Proof.
  induction cols as [|col rest IH]; intros s W Fc.
  - cbn. apply oks_ret; auto. cbn. split; [apply step_refl|]. auto.
  - cbn [wal_rows]. inversion Fc as [|? ? Fcol Frest]; subst.
    eapply (oks_bind _ _ _ _ (fun r1 s1 => step s s1 [] /\ defd s1 r1)).
    { destruct col as [|w ?]; [apply zero_s; auto|].
      apply oks_ret; auto. split; [apply step_refl|]. inversion Fcol; auto. }
    intros r1 s1 W1 (S1 & D1). cbv beta.
    eapply (oks_bind _ _ _ _ (fun r2 s2 => step s1 s2 [] /\ defd s2 r2)).
    { destruct col as [|w [|w' ?]]; try (apply zero_s; auto).
      apply oks_ret; auto. split; [apply step_refl|].
      inversion Fcol as [|? ? _ Fc']; subst. inversion Fc'; subst. sd. }
    intros r2 s2 W2 (S2 & D2). cbv beta.
    eapply oks_bind; [apply IH; [auto|sFF]|].
    intros [a b] s3 W3 (S3 & Fa & Fb & La & Lb). cbn [fst snd] in *. cbv beta.
    apply oks_ret; auto. cbn [fst snd length].
    split; [|split; [constructor; [sd|auto]|split; [constructor; [sd|auto]|lia]]].
    eapply step_weaken; [eapply step_trans; [eapply step_trans|]; eauto|]. apply incl_refl.
Qed.

Lemma FF_repeat_nil s k : Forall (Forall (defd s)) (repeat [] k).
Proof. apply Forall_forall. intros c H. apply repeat_spec in H. subst. constructor. Qed.

(* NewWallaceMultiplier: only r is written (by the final Kogge-Stone adder) *)
Lemma wallace_multiplier_s s a b r :
  wfst s -> Forall (defd s) a -> Forall (defd s) b -> Forall (pend s) r -> NoDup r ->
  (1 <= length r)%nat ->
  oks (wallace_multiplier a b r) s
      (fun r' s' => step s s' r /\ Forall (defd s') r' /\ length r' = length r).
Proof.
  intros W Fa Fb Pr ND Hr. unfold wallace_multiplier. cbv zeta.
  sbind pad_s. intros a1 s1 W1 (S1 & Fa1 & La1). cbv beta.
  eapply oks_bind; [apply pad_s; [auto|sF]|]. intros b1 s2 W2 (S2 & Fb1 & Lb1). cbv beta.
  eapply oks_bind; [apply wal_pp_s; [auto|apply Forall_firstn_; sF|apply Forall_firstn_; sF|apply FF_repeat_nil]|].
  intros c3 s3 W3 (S3 & F3 & L3). cbv beta.
  eapply oks_bind; [apply wal_reduce_s; auto|]. intros c4 s4 W4 (S4 & F4 & L4). cbv beta.
  eapply oks_bind; [apply wal_rows_s; [auto|apply Forall_firstn_; exact F4]|].
  intros [row1 row2] s5 W5 (S5 & F51 & F52 & L51 & L52). cbn [fst snd] in *. cbv beta.
  rewrite repeat_length in L3.
  assert (Lr : length row1 = length r /\ length row2 = length r).
  { rewrite L51, L52, firstn_length. lia. }
  assert (Pr5 : Forall (pend s5) r).
  { do 5 (eapply Forall_pend_step0; [eassumption|]). exact Pr. }
  eapply oks_conseq; [apply ks_adder_s; auto; lia|].
  cbv beta. intros r' s6 W6 (S6 & F6 & L6). split; [|auto].
  eapply step_weaken;
    [eapply step_trans; [eapply step_trans; [eapply step_trans; [eapply step_trans; [eapply step_trans|]|]|]|]; eauto|].
  cbn. apply incl_refl.
Qed.

Lemma new_multiplier_gmw_s tbl thr s x y z :
  gmw s = true ->
  wfst s -> Forall (defd s) x -> Forall (defd s) y -> Forall (pend s) z -> NoDup z ->
  (1 <= length z)%nat ->
  oks (new_multiplier tbl thr x y z) s
      (fun z' s' => step s s' z /\ Forall (defd s') z' /\ length z' = length z).
Proof.
  intros G W Fx Fy Pz ND Hz.
  pose proof (wallace_multiplier_s s x y z W Fx Fy Pz ND Hz) as H.
  unfold StructProof.oks in *. unfold new_multiplier, bind, target_gmw. rewrite G. exact H.
Qed.

End W.

(* ---------- the evaluated Wallace multiplier ----------
   Harness layout: x = wires 0..xw-1, y = the next yw wires, the zw destination
   wires follow the inputs.  For every target, all widths (at least one input
   wire, at least one result wire) and every initial assignment e0: the emitted
   gate list is single-assignment and defined-before-use, and evaluating it
   gate by gate yields (x * y) mod 2^zw. *)
Theorem wallace_multiplier_eval (tg : bool) (xw yw zw : nat) (e0 : env) :
  (1 <= zw)%nat -> (1 <= xw + yw)%nat ->
  let x := wrange 0 xw in
  let y := wrange (N.of_nat xw) yw in
  let ninp := N.of_nat xw + N.of_nat yw in
  let z := wrange ninp zw in
  exists z' s', wallace_multiplier x y z (st0 (ninp + N.of_nat zw) tg) = (z', s') /\
    wfc_b ninp (gates s') = true /\ dbu ninp (gates s') /\
    length z' = zw /\
    valN (eval_rev (gates s') e0) z' = (valN e0 x * valN e0 y) mod 2 ^ N.of_nat zw.
Proof.
  intros Hz Hm. cbv zeta.
  set (x := wrange 0 xw). set (y := wrange (N.of_nat xw) yw).
  set (ninp := N.of_nat xw + N.of_nat yw). set (z := wrange ninp zw).
  assert (Ix : forall w, In w x -> w < ninp) by (intros w H; apply wrange_In in H; lia).
  assert (Iy : forall w, In w y -> w < ninp) by (intros w H; apply wrange_In in H; lia).
  assert (Lz : length z = zw) by (unfold z; apply wrange_length).
  assert (Hz' : (1 <= length z)%nat) by lia.
  pose proof (okm_wallace_multiplier tg x y z Hz') as Sem.
  assert (Str : @oks ninp _ (wallace_multiplier x y z) (st0 (ninp + N.of_nat zw) tg)
                  (fun z' s' => step ninp (st0 (ninp + N.of_nat zw) tg) s' z /\
                                Forall (defd ninp s') z' /\ length z' = length z)).
  { apply wallace_multiplier_s; auto.
    - apply wfst_st0; lia.
    - apply Forall_defd_inputs; auto.
    - apply Forall_defd_inputs; auto.
    - apply Forall_pend_st0. intros w H. apply wrange_In in H. lia.
    - apply wrange_NoDup. }
  destruct (run_st0 ninp _ tg _ _ _ Sem Str e0) as (z' & s' & E & C & D & _ & (L & P) & I).
  exists z', s'. split; [exact E|]. split; [exact C|]. split; [exact D|]. split; [lia|].
  rewrite P, Lz, (valN_inputs _ e0 ninp x I Ix), (valN_inputs _ e0 ninp y I Iy). reflexivity.
Qed.

(* the GMW-target NewMultiplier runs the Wallace multiplier *)
Corollary new_multiplier_gmw_eval tbl thr (xw yw zw : nat) (e0 : env) :
  (1 <= zw)%nat -> (1 <= xw + yw)%nat ->
  let x := wrange 0 xw in
  let y := wrange (N.of_nat xw) yw in
  let ninp := N.of_nat xw + N.of_nat yw in
  let z := wrange ninp zw in
  exists z' s', new_multiplier tbl thr x y z (st0 (ninp + N.of_nat zw) true) = (z', s') /\
    wfc_b ninp (gates s') = true /\ dbu ninp (gates s') /\
    length z' = zw /\
    valN (eval_rev (gates s') e0) z' = (valN e0 x * valN e0 y) mod 2 ^ N.of_nat zw.
Proof. exact (wallace_multiplier_eval true xw yw zw e0). Qed.
