(* MultProof.v — NewArrayMultiplier computes (x * y) mod 2^(result width) for every
   operand width and every result width (wires beyond twice the operand width
   are zero wires). *)
From Coq Require Import NArith List Bool Arith Lia.
From Mpc Require Import Builders.Emit Builders.EmitProof Builders.Adder Builders.AdderProof Builders.Mult.
Import ListNotations.
Open Scope N_scope.

(* ---------- sanity check of the model on concrete instances ---------- *)
Definition am_bits (k : nat) (v : N) : list bool :=
  map (fun i => N.testbit v (N.of_nat i)) (seq 0 k).

(* operands of width n on wires 0..n-1 and n..2n-1, result width l on wires 2n.. *)
Definition am_run (n l : nat) (a b : N) : N * N :=
  let x := map N.of_nat (seq 0 n) in
  let y := map N.of_nat (seq n n) in
  let z := map N.of_nat (seq (2 * n) l) in
  let '(z', s) := array_multiplier x y z (st0 (N.of_nat (2 * n + l)) false) in
  let e0 := fun w => if N.ltb w (N.of_nat n) then N.testbit a w
                     else N.testbit b (w - N.of_nat n) in
  let e := eval_rev (gates s) e0 in
  (valN e z', (a * b) mod 2 ^ N.of_nat l).

Definition am_check (n l : nat) : bool :=
  forallb (fun a => forallb (fun b => let '(u, v) := am_run n l (N.of_nat a) (N.of_nat b) in N.eqb u v)
                            (seq 0 (2 ^ n))) (seq 0 (2 ^ n)).

Example am_check_3 : forallb (am_check 3) [1; 2; 3; 4; 5; 6]%nat = true.
Proof. vm_compute. reflexivity. Qed.
Example am_check_1 : forallb (am_check 1) [1; 2]%nat = true.
Proof. vm_compute. reflexivity. Qed.
Example am_check_2 : forallb (am_check 2) [1; 2; 3; 4]%nat = true.
Proof. vm_compute. reflexivity. Qed.
Example am_check_4 : forallb (am_check 4) [1; 3; 4; 5; 7; 8]%nat = true.
Proof. vm_compute. reflexivity. Qed.
(* result wider than twice the operand width: the tail is zero wires *)
Example am_check_wide : (am_check 1 3 && am_check 1 5 && am_check 2 5 && am_check 2 7
                         && am_check 3 7 && am_check 3 9)%bool = true.
Proof. vm_compute. reflexivity. Qed.

(* ---------- adders, arithmetic form ---------- *)
Lemma am_half_adder t a b s c :
  okm t (half_adder a b s (Some c))
      (fun _ e => N.b2n (e s) + 2 * N.b2n (e c) = N.b2n (e a) + N.b2n (e b)).
Proof.
  eapply okm_weaken; [apply okm_half_adder|]. cbn. intros _ e [H1 H2].
  rewrite H1, (H2 c eq_refl). apply ha_arith.
Qed.

Lemma am_full_adder t a b cin s c :
  okm t (full_adder a b cin s (Some c))
      (fun _ e => N.b2n (e s) + 2 * N.b2n (e c) = N.b2n (e a) + N.b2n (e b) + N.b2n (e cin)).
Proof.
  eapply okm_weaken; [apply okm_full_adder|]. cbn. intros _ e [H1 H2].
  rewrite H1, (H2 c eq_refl). apply fa_arith.
Qed.

(* ---------- one row of partial products: x * y_j ---------- *)
Lemma okp_am_ands t yj : forall xs,
  okp t (am_ands xs yj) (fun r => length r = length xs)
      (fun r e => valN e r = valN e xs * N.b2n (e yj)).
Proof.
  induction xs as [|xn xs IH]; cbn [am_ands].
  - apply okp_ret; auto.
  - eapply okp_bind; [apply okp_of_okm, okm_fresh|]. intros w _. cbv beta.
    eapply okp_bind; [apply okp_of_okm, okm_emit|]. intros [] _. cbv beta.
    eapply okp_bind; [apply IH|]. intros r Hr. cbv beta.
    apply okp_ret; [cbn; congruence|].
    intros e H1 H2 _. rewrite !valN_cons, H1, H2. cbn [gsem].
    destruct (e xn), (e yj); cbn [andb N.b2n]; lia.
Qed.

Lemma okp_am_row0 t y0 : forall xs,
  okp t (am_row0 xs y0) (fun r => length r = length xs)
      (fun r e => valN e r = valN e xs * N.b2n (e y0)).
Proof.
  induction xs as [|xn xs IH]; cbn [am_row0].
  - apply okp_ret; auto.
  - eapply okp_bind; [apply okp_of_okm, okm_fresh|]. intros w _. cbv beta.
    eapply okp_bind; [apply okp_of_okm, okm_emit|]. intros [] _. cbv beta.
    eapply okp_bind; [apply IH|]. intros r Hr. cbv beta.
    apply okp_ret; [cbn; congruence|].
    intros e H1 H2 _. rewrite !valN_cons, H1, H2. cbn [gsem].
    destruct (e xn), (e y0); cbn [andb N.b2n]; lia.
Qed.

(* ---------- ripple of full/half adders: ands + sums + carry ---------- *)
Lemma okp_am_sums t : forall ands sums c,
  (length sums <= length ands)%nat ->
  okp t (am_sums ands sums c) (fun p => length (fst p) = length ands)
      (fun p e => valN e (fst p) + 2 ^ N.of_nat (length ands) * N.b2n (e (snd p))
                  = valN e ands + valN e sums + N.b2n (e c)).
Proof.
  induction ands as [|a ands IH]; intros sums c Hl; cbn [am_sums].
  - destruct sums; [|cbn in Hl; lia]. apply okp_ret; auto.
    intros e. cbn [fst snd length]. rewrite !valN_nil. cbn. destruct (e c); reflexivity.
  - eapply okp_bind; [apply okp_of_okm, okm_fresh|]. intros cout _. cbv beta.
    eapply okp_bind; [apply okp_of_okm, okm_fresh|]. intros s _. cbv beta.
    destruct sums as [|si sums].
    + eapply okp_bind; [apply okp_of_okm, am_half_adder|]. intros [] _. cbv beta.
      eapply okp_bind; [apply (IH [] cout); cbn; lia|]. intros [ns c'] Hr. cbn [fst snd] in *.
      apply okp_ret; [cbn; congruence|].
      intros e H1 H2 _ _. cbn [fst snd length tl] in *.
      rewrite !valN_cons, pow2_S. rewrite !valN_nil in *. lia.
    + eapply okp_bind; [apply okp_of_okm, am_full_adder|]. intros [] _. cbv beta.
      eapply okp_bind; [apply (IH sums cout); cbn in *; lia|]. intros [ns c'] Hr. cbn [fst snd] in *.
      apply okp_ret; [cbn; congruence|].
      intros e H1 H2 _ _. cbn [fst snd length tl] in *.
      rewrite !valN_cons, pow2_S. lia.
Qed.

(* ---------- one intermediate layer: z_j + 2 * sums' = x * y_j + sums ---------- *)
Lemma okp_am_layer t x yj zj sums :
  (1 <= length sums)%nat -> (length sums <= length x)%nat ->
  okp t (am_layer x yj zj sums) (fun r => length r = length x)
      (fun r e => N.b2n (e zj) + 2 * valN e r = valN e x * N.b2n (e yj) + valN e sums).
Proof.
  intros H1 H2. unfold am_layer.
  eapply okp_bind; [apply okp_am_ands|]. intros ands Ha. cbv beta.
  destruct ands as [|a0 ands]; [cbn in Ha; lia|].
  destruct sums as [|s0 sums]; [cbn in H1; lia|]. cbn [nth tl].
  eapply okp_bind; [apply okp_of_okm, okm_fresh|]. intros cout _. cbv beta.
  eapply okp_bind; [apply okp_of_okm, am_half_adder|]. intros [] _. cbv beta.
  eapply okp_bind; [apply (okp_am_sums t ands sums cout); cbn in *; lia|].
  intros [ns c] Hr. cbn [fst snd] in *.
  apply okp_ret; [rewrite app_length; cbn in *; lia|].
  intros e E1 E2 _ E3. rewrite valN_app, !valN_cons, valN_nil, Hr.
  rewrite <- E3. rewrite !valN_cons in *. lia.
Qed.

(* ---------- layers 1 .. j-1 ---------- *)
Lemma okp_am_layers t x : forall ys zs sums,
  (1 <= length sums)%nat -> (length sums <= length x)%nat -> (length ys <= length zs)%nat ->
  okp t (am_layers x ys zs sums) (fun r => (1 <= length r)%nat /\ (length r <= length x)%nat)
      (fun r e => valN e (firstn (length ys) zs) + 2 ^ N.of_nat (length ys) * valN e r
                  = valN e x * valN e ys + valN e sums).
Proof.
  induction ys as [|yj ys IH]; intros zs sums H1 H2 H3; cbn [am_layers].
  - apply okp_ret; [lia|]. intros e. cbn [length firstn]. rewrite !valN_nil. cbn [N.of_nat].
    rewrite N.pow_0_r. lia.
  - destruct zs as [|zj zs]; [cbn in H3; lia|]. cbn [nth tl].
    eapply okp_bind; [apply okp_am_layer; assumption|]. intros sums' Hs. cbv beta.
    eapply okp_weaken; [apply (IH zs sums'); cbn in *; lia| auto |].
    intros r e _ E1 E2. cbn [length firstn]. cbv beta in E1. rewrite !valN_cons, pow2_S. lia.
Qed.

(* ---------- final layer (writes into z, drops what does not fit) ---------- *)
Lemma am_b2n_and a b : N.b2n (a && b) = N.b2n a * N.b2n b.
Proof. destruct a, b; reflexivity. Qed.

Lemma am_final_adder t a sums c zi cout :
  okm t (match sums with
         | [] => half_adder a c zi (Some cout)
         | si :: _ => full_adder a si c zi (Some cout)
         end)
      (fun _ e => N.b2n (e zi) + 2 * N.b2n (e cout) + 2 * valN e (tl sums)
                  = N.b2n (e a) + valN e sums + N.b2n (e c)).
Proof.
  destruct sums as [|si sums].
  - eapply okm_weaken; [apply am_half_adder|]. cbn [tl]. intros _ e H. rewrite !valN_nil. lia.
  - eapply okm_weaken; [apply am_full_adder|]. cbn [tl]. intros _ e H. rewrite valN_cons. lia.
Qed.


Lemma am_ret_tt t : okm t (ret tt) (fun _ _ => True).
Proof. apply okm_ret. auto. Qed.

Lemma am_ret_eq t {A} (a : A) : okm t (ret a) (fun b _ => b = a).
Proof. apply okm_ret. auto. Qed.

Lemma am_tl_nil {A} (l : list A) : (length l <= 1)%nat -> tl l = [].
Proof. destruct l as [|a [|b l]]; cbn; auto; lia. Qed.

Lemma am_pow2_1 : 2 ^ N.of_nat 1 = 2. Proof. reflexivity. Qed.
Lemma am_pow2_2 : 2 ^ N.of_nat 2 = 4. Proof. reflexivity. Qed.

Lemma okm_am_final_rest t yj : forall xs sums zs c,
  xs <> [] -> (length sums <= length xs)%nat ->
  okm t (am_final false xs yj sums zs c)
      (fun _ e => valN e (firstn (length xs + 1) zs)
                  = (valN e xs * N.b2n (e yj) + valN e sums + N.b2n (e c))
                    mod 2 ^ N.of_nat (length (firstn (length xs + 1) zs))).
Proof.
  induction xs as [|xn xs IH]; intros sums zs c Hne Hs; [congruence|].
  cbn [am_final]. mstep okm_fresh. mstep okm_emit.
  destruct xs as [|x2 xs].
  - (* last position *)
    clear IH. pose proof (am_tl_nil sums Hs) as Ht.
    change (length [xn] + 1)%nat with 2%nat.
    destruct zs as [|zi [|zn zs]]; cbn [tl firstn].
    + mstep okm_fresh. mstep am_ret_tt.
      apply okm_ret. intros e _ _ _. cbn [length N.of_nat]. rewrite N.pow_0_r, N.mod_1_r. reflexivity.
    + mstep okm_fresh. mstep am_final_adder. apply okm_ret.
      intros e H1 _ H2 _. rewrite Ht in H1. cbn [gsem] in H2. rewrite H2, am_b2n_and in H1.
      cbn [length]. rewrite am_pow2_1. rewrite !valN_cons, !valN_nil in *. rewrite ?N.mul_0_r, ?N.add_0_r in *. rewrite <- H1.
      destruct (e zi), (e a1); reflexivity.
    + mstep am_ret_eq. mstep am_final_adder. apply okm_ret.
      intros e H1 -> H2 _. rewrite Ht in H1. cbn [gsem] in H2. rewrite H2, am_b2n_and in H1.
      cbn [length]. rewrite am_pow2_2. rewrite !valN_cons, !valN_nil in *. rewrite ?N.mul_0_r, ?N.add_0_r in *. rewrite <- H1.
      destruct (e zi), (e zn); reflexivity.
  - mstep okm_fresh.
    change (length (xn :: x2 :: xs) + 1)%nat with (S (length (x2 :: xs) + 1)).
    destruct zs as [|zi zs]; cbn [tl firstn].
    + mstep am_ret_tt. eapply okm_weaken; [apply (IH (tl sums) [] a1); [congruence | destruct sums; cbn in *; lia] |].
      intros u e _ _ _ _ _. cbn [length N.of_nat]. rewrite N.pow_0_r, N.mod_1_r. reflexivity.
    + mstep am_final_adder.
      eapply okm_weaken; [apply (IH (tl sums) zs a1); [congruence | destruct sums; cbn in *; lia] |].
      intros u e H1 H2 _ H3 _. cbv beta in H1. cbn [gsem] in H3. rewrite H3, am_b2n_and in H2.
      rewrite (valN_cons e zi), H1. cbn [length]. rewrite pow2_S.
      rewrite <- mod2p by (auto using b2n_le1, pow2_pos). f_equal.
      rewrite (valN_cons e xn). lia.
Qed.

Lemma okm_am_final_top t yj x0 x1 xs sums zs :
  (1 <= length sums)%nat -> (length sums <= length (x0 :: x1 :: xs))%nat ->
  (1 <= length zs)%nat ->
  okm t (am_final true (x0 :: x1 :: xs) yj sums zs 0)
      (fun _ e => valN e (firstn (length (x0 :: x1 :: xs) + 1) zs)
                  = (valN e (x0 :: x1 :: xs) * N.b2n (e yj) + valN e sums)
                    mod 2 ^ N.of_nat (length (firstn (length (x0 :: x1 :: xs) + 1) zs))).
Proof.
  intros Hs1 Hs2 Hz1.
  destruct zs as [|zi zs]; [cbn in Hz1; lia|]. destruct sums as [|s0 sums]; [cbn in Hs1; lia|].
  change (length (x0 :: x1 :: xs) + 1)%nat with (S (length (x1 :: xs) + 1)).
  cbn [am_final nth tl firstn]. mstep okm_fresh. mstep okm_emit. mstep okm_fresh. mstep am_half_adder.
  eapply okm_weaken; [apply (okm_am_final_rest t yj (x1 :: xs) sums zs a1); [congruence | cbn in *; lia] |].
  intros u e H1 H2 _ H3 _. cbv beta in H1. cbn [gsem] in H3. rewrite H3, am_b2n_and in H2.
  rewrite (valN_cons e zi), H1. cbn [length]. rewrite pow2_S.
  rewrite <- mod2p by (auto using b2n_le1, pow2_pos). f_equal.
  rewrite (valN_cons e x0), (valN_cons e s0). lia.
Qed.

Lemma am_valN_last e : forall j l, length l = S j ->
  valN e l = valN e (firstn j l) + 2 ^ N.of_nat j * N.b2n (e (nth j l 0)).
Proof.
  induction j; intros l Hl.
  - destruct l as [|a [|b l]]; try discriminate. cbn [firstn nth]. rewrite valN_cons, !valN_nil. cbn [N.of_nat]. rewrite N.pow_0_r. lia.
  - destruct l as [|a l]; [discriminate|]. cbn [firstn nth]. rewrite !valN_cons, (IHj l) by (cbn in Hl; lia).
    rewrite pow2_S. lia.
Qed.

Lemma am_mod_split p a v m : p < a -> 0 < m -> (p + a * v) mod (a * m) = p + a * (v mod m).
Proof.
  intros Hp Hm. symmetry. apply N.mod_unique with (q := v / m).
  - pose proof (N.mod_lt v m). nia.
  - pose proof (N.div_mod' v m). nia.
Qed.

Lemma am_firstn_add {A} : forall a b (l : list A),
  firstn (a + b) l = firstn a l ++ firstn b (skipn a l).
Proof.
  induction a; intros b l; [reflexivity|].
  destruct l; cbn [Nat.add firstn skipn app].
  - rewrite firstn_nil. reflexivity.
  - f_equal. apply IHa.
Qed.

(* a value below 2^a is not changed by truncating to min a b bits before b bits *)
Lemma am_mod_min P a b : P < 2 ^ N.of_nat a ->
  P mod 2 ^ N.of_nat (Nat.min a b) = P mod 2 ^ N.of_nat b.
Proof.
  intros HP. destruct (le_lt_dec a b) as [H|H].
  - replace (Nat.min a b) with a by lia. rewrite !N.mod_small; auto.
    eapply N.lt_le_trans; [exact HP|]. apply N.pow_le_mono_r; lia.
  - replace (Nat.min a b) with b by lia. reflexivity.
Qed.

(* the zero-filled tail: the result has the value of the first k wires *)
Lemma okm_zero_tail_val t z k :
  okm t (zero_tail z k)
      (fun z' e => length z' = length z /\ valN e z' = valN e (firstn k z)).
Proof.
  eapply okm_weaken; [apply okm_of_okp, okp_zero_tail|].
  cbv beta. intros z' e [H Hz]. split; [eapply zero_tail_len; exact H|].
  destruct H as (zw & ->).
  destruct (le_lt_dec k (length z)) as [Hk|Hk].
  - rewrite valN_app, (valN_all_zero e (repeat zw _)); [lia|].
    intros w Hin. apply Hz; [|exact Hk].
    rewrite skipn_app, firstn_length.
    replace (k - Nat.min k (length z))%nat with 0%nat by lia.
    rewrite skipn_all2 by (rewrite firstn_length; lia). cbn. exact Hin.
  - replace (length z - k)%nat with 0%nat by lia. cbn [repeat]. rewrite app_nil_r. reflexivity.
Qed.

(* the part after ZeroPad and truncation of the operands to len(z) *)
Lemma okm_am_core t xt yt z :
  length yt = length xt -> (1 <= length xt)%nat -> (length xt <= length z)%nat ->
  okm t (if Nat.eqb (length xt) 1 then
           emit AND (nth 0 xt 0) (nth 0 yt 0) (nth 0 z 0);;
           zero_tail z 1
         else
           emit AND (nth 0 xt 0) (nth 0 yt 0) (nth 0 z 0);;
           sums <- am_row0 (tl xt) (nth 0 yt 0);;
           let j := (length yt - 1)%nat in
           sums <- am_layers xt (firstn (j - 1) (tl yt)) (tl z) sums;;
           am_final true xt (nth j yt 0) sums (skipn j z) 0;;
           zero_tail z (j + length xt + 1))
      (fun z' e => length z' = length z /\
                   valN e z' = (valN e xt * valN e yt) mod 2 ^ N.of_nat (length z)).
Proof.
  intros Hy Hx1 Hxz.
  destruct (Nat.eqb (length xt) 1) eqn:E1.
  - apply Nat.eqb_eq in E1.
    destruct xt as [|x0 [|x1 xr]]; try discriminate.
    destruct yt as [|y0 [|y1 yr]]; try discriminate.
    destruct z as [|z0 z]; [cbn in Hxz; lia|]. cbn [nth].
    mstep okm_emit. cbn [gsem].
    eapply okm_weaken; [apply okm_zero_tail_val|].
    cbv beta. intros z' e [Hl Hv] H0. split; [exact Hl|].
    rewrite Hv. cbn [firstn]. rewrite !valN_cons, !valN_nil, H0.
    cbn [length]. rewrite pow2_S. pose proof (pow2_pos (length z)).
    rewrite N.mod_small; destruct (e x0), (e y0); cbn [andb N.b2n]; lia.
  - apply Nat.eqb_neq in E1.
    destruct xt as [|x0 [|x1 xr]]; [cbn in Hx1; lia | cbn in E1; lia |].
    destruct yt as [|y0 ytl]; [discriminate|].
    destruct z as [|z0 ztl]; [cbn in Hxz; lia|].
    cbn [nth tl]. cbv zeta.
    replace (length (y0 :: ytl) - 1)%nat with (S (length xr)). 2:{ cbn in *. lia. }
    replace (S (length xr) - 1)%nat with (length xr) by lia.
    replace (S (length xr) + length (x0 :: x1 :: xr) + 1)%nat
      with (S (length xr + (length (x0 :: x1 :: xr) + 1))) by (cbn [length]; lia).
    cbn [skipn nth].
    assert (Lytl : length ytl = S (length xr)) by (cbn in *; lia).
    assert (Lztl : (S (length xr) <= length ztl)%nat) by (cbn in *; lia).
    mstep okm_emit. cbn [gsem].
    pstep okp_am_row0. cbv beta in H.
    pstep okp_am_layers; [cbn in *; lia | cbn in *; lia | rewrite firstn_length; unfold wire in *; lia |]. cbv beta in H0.
    mstep okm_am_final_top; [unfold wire in *; lia | unfold wire in *; cbn in *; lia | rewrite skipn_length; unfold wire in *; lia |].
    eapply okm_weaken; [apply okm_zero_tail_val|].
    cbv beta. intros z' e [Hl Hv] F Ls R0 Z0. split; [exact Hl|].
    rewrite Hv. cbn [firstn]. rewrite am_firstn_add.
    unfold wire in *. set (j := length xr) in *.
    set (ZF := firstn (length (x0 :: x1 :: xr) + 1) (skipn j ztl)) in *.
    rewrite firstn_length_le in Ls by lia.
    assert (Lm : length ZF = Nat.min (j + 3) (length ztl - j)).
    { unfold ZF. rewrite firstn_length, skipn_length. cbn [length]. fold j. lia. }
    set (m := length ZF) in *.
    pose proof (valN_lt e (firstn j ztl)) as Hlt. rewrite firstn_length_le in Hlt by lia.
    rewrite (valN_cons e y0), (am_valN_last e j ytl Lytl).
    rewrite (valN_cons e z0), valN_app, firstn_length_le by lia.
    unfold wire in *. rewrite F. rewrite Z0, am_b2n_and.
    rewrite <- (am_mod_min _ (S (j + (j + 3))) (length (z0 :: ztl))).
    2:{ pose proof (valN_lt e (x0 :: x1 :: xr)) as Bx. pose proof (valN_lt e ytl) as By.
        pose proof (am_valN_last e j ytl Lytl) as Ey.
        unfold wire in *. rewrite Lytl in By. rewrite <- Ey.
        replace (length (x0 :: x1 :: xr)) with (S (S j)) in Bx by reflexivity.
        replace (S (j + (j + 3))) with (S (S j) + S (S j))%nat by lia.
        rewrite Nat2N.inj_add, N.pow_add_r.
        apply N.mul_lt_mono; [exact Bx|]. rewrite pow2_S. pose proof (b2n_le1 (e y0)). lia. }
    replace (Nat.min (S (j + (j + 3))) (length (z0 :: ztl))) with (S (j + m)) by (cbn [length]; lia).
    rewrite pow2_S, Nat2N.inj_add, N.pow_add_r.
    rewrite (valN_cons e x0) in *.
    set (W := valN e (x1 :: xr)) in *. set (A := 2 ^ N.of_nat j) in *.
    set (V := (N.b2n (e x0) + 2 * W) * N.b2n (e (nth j ytl 0)) + valN e a1) in *.
    replace (2 * (A * 2 ^ N.of_nat m)) with ((2 * A) * 2 ^ N.of_nat m) by ring.
    replace ((N.b2n (e x0) + 2 * W) * (N.b2n (e y0) + 2 * (valN e (firstn j ytl) + A * N.b2n (e (nth j ytl 0)))))
      with ((N.b2n (e x0) * N.b2n (e y0) + 2 * valN e (firstn j ztl)) + (2 * A) * V) by (unfold V; lia).
    rewrite am_mod_split; [ring | | apply pow2_pos].
    pose proof (b2n_le1 (e x0 && e y0)). rewrite am_b2n_and in *. lia.
Qed.

(* ---------- NewArrayMultiplier ---------- *)
Theorem okm_array_multiplier_gen t x y z :
  (1 <= Nat.max (length x) (length y))%nat -> (1 <= length z)%nat ->
  okm t (array_multiplier x y z)
      (fun z' e => length z' = length z /\
                   valN e z' = (valN e x * valN e y) mod 2 ^ N.of_nat (length z)).
Proof.
  intros Hn Hz1. unfold array_multiplier.
  pstep okp_zero_pad. destruct a as [x' y']. cbn [fst snd] in *. destruct H as [Sx Sy].
  pose proof (pad_shape_len _ _ _ Sx) as Lx. pose proof (pad_shape_len _ _ _ Sy) as Ly.
  cbv zeta.
  eapply okm_weaken.
  - apply (okm_am_core t (firstn (length z) x') (firstn (length z) y') z).
    + rewrite !firstn_length. unfold wire in *. lia.
    + rewrite firstn_length. unfold wire in *. lia.
    + rewrite firstn_length. unfold wire in *. lia.
  - cbv beta. intros z' e [Hl Hv] [Zx Zy]. split; [exact Hl|].
    rewrite Hv, !valN_firstn, (pad_val e x' x _ Sx Zx), (pad_val e y' y _ Sy Zy).
    rewrite <- N.mul_mod by (apply N.pow_nonzero; discriminate). reflexivity.
Qed.

Theorem okm_array_multiplier t x y z :
  length x = length y -> (1 <= length x)%nat -> (1 <= length z)%nat ->
  okm t (array_multiplier x y z)
      (fun z' e => length z' = length z /\
                   valN e z' = (valN e x * valN e y) mod 2 ^ N.of_nat (length z)).
Proof.
  intros Hxy Hx Hz1. apply okm_array_multiplier_gen; rewrite <- ?Hxy, ?Nat.max_id; assumption.
Qed.

(* special cases, as corollaries *)
Corollary okm_array_multiplier_full t x y z :
  length x = length y -> (1 <= length x)%nat -> (2 * length x <= length z)%nat ->
  okm t (array_multiplier x y z)
      (fun z' e => length z' = length z /\ valN e z' = valN e x * valN e y).
Proof.
  intros Hxy Hx Hz. eapply okm_weaken; [apply okm_array_multiplier; try assumption; lia|].
  cbv beta. intros z' e [Hl Hv]. split; [exact Hl|]. rewrite Hv. apply N.mod_small.
  pose proof (valN_lt e x) as Bx. pose proof (valN_lt e y) as By. rewrite <- Hxy in By.
  eapply N.lt_le_trans; [apply N.mul_lt_mono; eassumption|].
  rewrite <- N.pow_add_r. apply N.pow_le_mono_r; lia.
Qed.

Corollary okm_array_multiplier_1bit t x0 y0 z :
  (1 <= length z)%nat ->
  okm t (array_multiplier [x0] [y0] z)
      (fun z' e => length z' = length z /\ valN e z' = N.b2n (e x0 && e y0)).
Proof.
  intros H1. eapply okm_weaken; [apply (okm_array_multiplier t [x0] [y0] z); cbn; auto; lia|].
  cbv beta. intros z' e [Hl Hv]. split; [exact Hl|]. rewrite Hv, !valN_cons, !valN_nil.
  destruct z as [|z0 z]; [cbn in H1; lia|]. cbn [length]. rewrite pow2_S.
  pose proof (pow2_pos (length z)).
  rewrite N.mod_small; destruct (e x0), (e y0); cbn [andb N.b2n]; lia.
Qed.
