(* DivProof.v — NewUDividerLong (restoring long division, Yao target) computes
   q = a / b and r = a mod b for every width. *)
From Coq Require Import NArith List Bool Arith Lia.
From Mpc Require Import Builders.Emit Builders.EmitProof Builders.Sub Builders.Mux Builders.Div
     Builders.SubProof Builders.MuxProof.
Import ListNotations.
Open Scope N_scope.

(* ---------- list / bit-vector helpers ---------- *)
Lemma removelast_len {A} (l : list A) : length (removelast l) = (length l - 1)%nat.
Proof.
  rewrite removelast_firstn_len, firstn_length. lia.
Qed.

Lemma valN_removelast e r : valN e (removelast r) = valN e r mod 2 ^ N.of_nat (length r - 1).
Proof.
  rewrite removelast_firstn_len, valN_firstn.
  replace (Nat.pred (length r)) with (length r - 1)%nat by lia. reflexivity.
Qed.

Lemma firstn_S_split {A} : forall m (l : list A),
  firstn (S m) l = firstn m l ++ firstn 1 (skipn m l).
Proof.
  induction m; intros [|a l]; try reflexivity.
  change (firstn (S (S m)) (a :: l)) with (a :: firstn (S m) l).
  rewrite IHm. reflexivity.
Qed.

(* ---------- arithmetic of one restoring-division step ---------- *)
(* the (n+1)-bit difference R1 - B: its top bit is the borrow (R1 < B) *)
Lemma div_borrow_arith R1 B Dn (t : bool) P :
  R1 < P -> B < P -> Dn < P ->
  Dn + P * (N.b2n t + 2 * 0) = (R1 + 2 * P - B mod (2 * P)) mod (2 * P) ->
  (t = true /\ R1 < B) \/ (t = false /\ R1 = B + Dn).
Proof.
  intros HR HB HD E. rewrite (N.mod_small B) in E by lia.
  destruct (N.lt_ge_cases R1 B) as [L|L].
  - rewrite N.mod_small in E by lia. destruct t; cbn [N.b2n] in E; [left; split; auto | lia].
  - assert (M : (R1 + 2 * P - B) mod (2 * P) = R1 - B).
    { symmetry. apply N.mod_unique with (q := 1); lia. }
    rewrite M in E. destruct t; cbn [N.b2n] in E; [lia | right; split; auto; lia].
Qed.

Lemma div_step_final R1 B NR qb L M :
  B <> 0 -> R1 = qb * B + NR ->
  (NR * M + L) / B + M * qb = (R1 * M + L) / B /\
  (NR * M + L) mod B = (R1 * M + L) mod B.
Proof.
  intros HB E.
  pose proof (N.div_mod' (NR * M + L) B) as DM.
  pose proof (N.mod_lt (NR * M + L) B HB) as LT.
  set (x := (NR * M + L) / B) in *. set (y := (NR * M + L) mod B) in *.
  assert (EQ : R1 * M + L = B * (x + M * qb) + y).
  { subst R1. replace ((qb * B + NR) * M + L) with (qb * B * M + (NR * M + L)) by ring.
    rewrite DM. ring. }
  split.
  - apply N.div_unique with (r := y); auto.
  - apply N.mod_unique with (q := x + M * qb); auto.
Qed.

(* ---------- the pieces of one loop iteration ---------- *)
(* quotient bit: q[i] = MUX(borrow, 0, 1) *)
Lemma okm_qbit tw i q : (i < length q)%nat ->
  okm false (if Nat.ltb i (length q)
             then bind zero_wire (fun z => bind one_wire (fun o =>
                    new_mux [tw] [z] [o] (firstn 1 (skipn i q))))
             else ret tt)
      (fun _ e => valN e (firstn 1 (skipn i q)) = if e tw then 0 else 1).
Proof.
  intros Hi. replace (Nat.ltb i (length q)) with true by (symmetry; apply Nat.ltb_lt; lia).
  mstep okm_zero. mstep okm_one.
  eapply okm_weaken.
  { apply okm_new_mux. rewrite firstn_length, skipn_length. cbn [length]. lia. }
  cbn beta. intros _ e H H1 H0. rewrite H, !valN_cons, valN_nil, H1, H0.
  destruct (e tw); reflexivity.
Qed.

(* destination of the new remainder: rret in the last iteration (i = 0), fresh wires otherwise *)
Lemma okp_next_r i (rret r1 : list wire) : length rret = length r1 ->
  okp false (if Nat.eqb i 0
             then let k := Nat.min (length rret) (length r1) in
                  bind (fresh_n (length r1 - k)) (fun fr => ret (firstn k rret ++ fr))
             else fresh_n (length r1))
      (fun nr => length nr = length r1 /\ (i = 0%nat -> nr = rret))
      (fun _ _ => True).
Proof.
  intros Hl. destruct (Nat.eqb i 0) eqn:E.
  - cbv zeta. rewrite Hl, Nat.min_id, Nat.sub_diag. cbn [fresh_n].
    rewrite <- Hl, firstn_all. unfold bind, ret. rewrite app_nil_r.
    apply okp_ret; auto.
  - apply Nat.eqb_neq in E.
    eapply okp_weaken; [apply okp_fresh_n | |]; cbv beta; auto.
    intros a H. split; auto. intros; lia.
Qed.

Definition final_r (ra r rret : list wire) : list wire :=
  match ra with [] => r | _ :: _ => rret end.

(* Invariant of the loop of NewUDividerLong.  [ra] = the bits of a not yet
   consumed (most significant first), [r] = the current partial remainder, an
   n-bit vector whose value is below b and below 2^k where k bits have been
   consumed (so "r << 1" — dropping r's top wire — loses nothing while bits
   remain).  The loop finishes the division of  r * 2^|ra| + ra  by b. *)
Lemma okm_udiv_long_loop n : forall ra k i b q rret r,
  (k + length ra = n)%nat -> i = (length ra - 1)%nat ->
  length b = n -> length q = n -> length rret = n -> length r = n ->
  okm false (udiv_long_loop ra i b q rret r)
      (fun _ e =>
         valN e b <> 0 -> valN e r < valN e b -> valN e r < 2 ^ N.of_nat k ->
         let A := valN e r * 2 ^ N.of_nat (length ra) + valN e (rev ra) in
         valN e (firstn (length ra) q) = A / valN e b /\
         valN e (final_r ra r rret) = A mod valN e b).
Proof.
  induction ra as [|ai ra IH]; intros k i b q rret r Hk Hi Lb Lq Lrr Lr.
  - cbn [udiv_long_loop]. apply okm_ret. intros e Hb Hr _. cbn [length rev final_r firstn].
    rewrite valN_nil. change (2 ^ N.of_nat 0) with 1. rewrite N.mul_1_r, N.add_0_r.
    rewrite N.div_small, N.mod_small by assumption. auto.
  - cbn [udiv_long_loop]. cbv zeta.
    remember (ai :: removelast r) as r1 eqn:Er1. cbn [length] in *.
    assert (Lr1 : length r1 = n).
    { subst r1. cbn [length]. rewrite removelast_len. lia. }
    eapply okm_bind_p; [apply okp_fresh_n | intros d0 Ld0; cbv beta in Ld0 |- *].
    eapply okm_bind_p; [apply okp_new_subtractor_yao; lia | intros diff Ld; cbv beta in Ld |- *].
    assert (Hne : diff <> []) by (intros ->; cbn in Ld; lia).
    destruct (exists_last Hne) as (dl & tw & ->). clear Hne.
    rewrite app_length in Ld. cbn [length] in Ld.
    assert (Ldl : length dl = n) by lia.
    replace (length (dl ++ [tw]) - 1)%nat with (length dl) by (rewrite app_length; cbn; lia).
    rewrite skipn_app, skipn_all, Nat.sub_diag. cbn [skipn app].
    rewrite firstn_app, firstn_all, Nat.sub_diag. cbn [firstn]. rewrite app_nil_r.
    eapply okm_bind; [apply okm_qbit; lia | intros u1; cbv beta].
    eapply okm_bind_p; [apply okp_next_r; lia | intros nr [Lnr Hnr]; cbv beta].
    eapply okm_bind; [apply okm_new_mux; lia | intros u2; cbv beta].
    eapply okm_weaken.
    { apply (IH (S k) (i - 1)%nat b q rret nr); lia. }
    cbv beta. intros _ e HI Hmux _ Hq Hsub _ Hb Hr Hkk. cbv zeta.
    (* values *)
    set (B := valN e b) in *. set (R := valN e r) in *.
    assert (Hpk : 2 ^ N.of_nat (S k) <= 2 ^ N.of_nat n) by (apply N.pow_le_mono_r; lia).
    rewrite pow2_S in Hpk.
    assert (HR1 : valN e r1 = N.b2n (e ai) + 2 * R).
    { subst r1. rewrite valN_cons, valN_removelast, Lr. f_equal. f_equal.
      apply N.mod_small. fold R.
      eapply N.lt_le_trans; [exact Hkk|]. apply N.pow_le_mono_r; lia. }
    pose proof (b2n_le1 (e ai)) as Hai.
    assert (HB : B < 2 ^ N.of_nat n) by (unfold B; rewrite <- Lb; apply valN_lt).
    assert (HDn : valN e dl < 2 ^ N.of_nat n) by (rewrite <- Ldl; apply valN_lt).
    rewrite valN_app, valN_cons, valN_nil, Ldl in Hsub.
    rewrite Ld0, Lr1 in Hsub. replace (n + 1)%nat with (S n) in Hsub by lia.
    rewrite pow2_S in Hsub.
    apply div_borrow_arith in Hsub; try lia.
    set (M := 2 ^ N.of_nat (length ra)) in *.
    assert (Hfin : final_r ra nr rret = rret).
    { destruct ra; cbn [final_r]; auto; apply Hnr; cbn in Hi; lia. }
    rewrite Hfin in HI. cbn [final_r].
    assert (Hrev : valN e r1 * M + valN e (rev ra)
                   = R * 2 ^ N.of_nat (S (length ra)) + valN e (rev (ai :: ra))).
    { cbn [rev]. rewrite valN_app, valN_cons, valN_nil, rev_length, pow2_S, HR1.
      fold M. ring. }
    rewrite <- Hrev.
    change (valN e (firstn (S (length ra)) q) = (valN e r1 * M + valN e (rev ra)) / B /\
            valN e rret = (valN e r1 * M + valN e (rev ra)) mod B).
    rewrite firstn_S_split, valN_app, firstn_length.
    replace (Nat.min (length ra) (length q)) with (length ra) by lia.
    replace i with (length ra) in Hq by lia. rewrite Hq. fold M.
    destruct Hsub as [[Ht Hlt] | [Ht Heq]]; rewrite Ht in *.
    + (* borrow: quotient bit 0, remainder unchanged *)
      assert (HNR : valN e nr = valN e r1) by exact Hmux.
      destruct HI as [HQ HRm]; try (rewrite ?HNR, ?pow2_S; lia).
      rewrite HQ, HRm, HNR. split; [lia | reflexivity].
    + (* no borrow: quotient bit 1, remainder r1 - b *)
      assert (HNR : valN e nr = valN e dl) by exact Hmux.
      destruct HI as [HQ HRm]; try (rewrite ?HNR, ?pow2_S; lia).
      rewrite HQ, HRm, HNR.
      apply div_step_final; auto. lia.
Qed.

(* NewUDividerLong (Yao target), equal operand widths n >= 1, quotient and
   remainder n wires each: for a non-zero divisor, q = a / b and r = a mod b. *)
Theorem okm_udivider_long a b q rret :
  (1 <= length a)%nat -> length b = length a -> length q = length a -> length rret = length a ->
  okm false (udivider_long a b q rret)
      (fun _ e => valN e b <> 0 ->
                  valN e q = valN e a / valN e b /\
                  valN e rret = valN e a mod valN e b).
Proof.
  intros Ha Lb Lq Lrr. unfold udivider_long.
  eapply okm_bind_p with (R := fun p => p = (a, b)) (P := fun _ _ => True).
  { unfold zero_pad. rewrite Lb, Nat.eqb_refl. apply okp_ret; auto. }
  intros p ->. cbv beta iota.
  eapply okm_bind_p with (R := fun r : list wire => length r = length a)
                         (P := fun r e => valN e r = 0).
  { replace (Nat.eqb (length a) 0) with false by (symmetry; apply Nat.eqb_neq; lia).
    eapply okp_bind; [apply okp_of_okm, okm_zero|]. intros z _. cbv beta.
    apply okp_ret; [apply repeat_length|]. intros e Hz. apply valN_repeat0. exact Hz. }
  intros r0 Lr0. cbv beta.
  eapply okm_weaken.
  { apply (okm_udiv_long_loop (length a) (rev a) 0%nat (length a - 1)%nat b q rret r0);
      rewrite ?rev_length; lia. }
  cbv beta. intros _ e HI Hr0 _ Hb. cbv zeta in HI.
  rewrite rev_length, rev_involutive, Hr0, N.mul_0_l, N.add_0_l in HI.
  rewrite <- Lq, firstn_all in HI.
  assert (Hfin : final_r (rev a) r0 rret = rret).
  { destruct (rev a) eqn:E; [|reflexivity].
    apply (f_equal (@length wire)) in E. rewrite rev_length in E. cbn in E. lia. }
  rewrite Hfin in HI. apply HI; [exact Hb | lia | cbn; lia].
Qed.

(* NewUDivider under the Yao target dispatches to NewUDividerLong *)
Corollary okm_new_udivider_yao a b q rret :
  (1 <= length a)%nat -> length b = length a -> length q = length a -> length rret = length a ->
  okm false (new_udivider a b q rret)
      (fun _ e => valN e b <> 0 ->
                  valN e q = valN e a / valN e b /\
                  valN e rret = valN e a mod valN e b).
Proof.
  intros Ha Lb Lq Lrr s W G.
  unfold new_udivider, bind, target_gmw. rewrite G.
  apply (okm_udivider_long a b q rret Ha Lb Lq Lrr s W G).
Qed.

(* A concrete run (n = 3, a = wires 0..2, b = wires 3..5, q = 6..8, r = 9..11):
   the emitted gate list is single-assignment and its evaluation gives
   7 / 5 = 1 rem 2 (a divisor with its top bit set) and 6 / 3 = 2 rem 0. *)
Example udiv_long_run :
  let '(_, s') := udivider_long [0; 1; 2] [3; 4; 5] [6; 7; 8] [9; 10; 11] (st0 12 false) in
  let e1 := eval_rev (gates s') (fun w => match w with 0 | 1 | 2 | 3 | 5 => true | _ => false end) in
  let e2 := eval_rev (gates s') (fun w => match w with 1 | 2 | 3 | 4 => true | _ => false end) in
  wfc_b 6 (gates s') = true /\
  (valN e1 [0; 1; 2], valN e1 [3; 4; 5], valN e1 [6; 7; 8], valN e1 [9; 10; 11]) = (7, 5, 1, 2) /\
  (valN e2 [0; 1; 2], valN e2 [3; 4; 5], valN e2 [6; 7; 8], valN e2 [9; 10; 11]) = (6, 3, 2, 0).
Proof. vm_compute. repeat split. Qed.

(* ---------- NewIDivider (signed, two's complement operands) ---------- *)
(* two's complement negation on n bits *)
Definition negN (n : nat) (v : N) : N := (2 ^ N.of_nat n - v) mod 2 ^ N.of_nat n.

Lemma negN_nonzero n v : v <> 0 -> v < 2 ^ N.of_nat n -> negN n v <> 0.
Proof. intros H0 H1. unfold negN. rewrite N.mod_small by lia. lia. Qed.

Lemma skipn_last {A} (d : A) (l : list A) :
  (1 <= length l)%nat -> skipn (length l - 1) l = [last l d].
Proof.
  intros H. assert (Hne : l <> []) by (intros ->; cbn in H; lia).
  destruct (exists_last Hne) as (l' & x & ->).
  rewrite last_last, app_length. cbn [length].
  replace (length l' + 1 - 1)%nat with (length l') by lia.
  rewrite skipn_app, skipn_all, Nat.sub_diag. reflexivity.
Qed.

(* 0 - x on len(x) wires is the two's complement negation *)
Lemma zero_sub_val e z0 (x d : list wire) (v : N) :
  e z0 = false -> length d = length x ->
  v = (valN e [z0] + 2 ^ N.of_nat (length d) - valN e x mod 2 ^ N.of_nat (length d))
      mod 2 ^ N.of_nat (length d) ->
  v = negN (length x) (valN e x).
Proof.
  intros Hz Ld ->. rewrite Ld, valN_cons, valN_nil, Hz. cbn [N.b2n].
  rewrite (N.mod_small (valN e x)) by apply valN_lt. unfold negN. f_equal.
Qed.

Local Ltac mst L x := eapply okm_bind; [apply L; try (cbn [length]; lia) | intros x; cbv beta].
Local Ltac pst L x h :=
  eapply okm_bind_p; [apply L; try (cbn [length]; lia) | intros x h; cbv beta in h |- *].

(* NewIDivider, Yao target, equal operand widths n >= 1 and n-wire quotient and
   remainder.  sa, sb = the operands' sign bits (top wires).  The builder
   divides the magnitudes A = |a|, B = |b| (n-bit two's complement negation of
   negative operands), negates the quotient iff the signs differ, and returns
   the remainder  A mod B  WITHOUT a sign. *)
Theorem okm_new_idivider a b q r :
  (1 <= length a)%nat -> length b = length a -> length q = length a -> length r = length a ->
  okm false (new_idivider a b q r)
      (fun _ e =>
         valN e b <> 0 ->
         let n := length a in
         let sa := e (last a 0) in
         let sb := e (last b 0) in
         let A := if sa then negN n (valN e a) else valN e a in
         let B := if sb then negN n (valN e b) else valN e b in
         valN e r = A mod B /\
         valN e q = if xorb sa sb then negN n (A / B) else A / B).
Proof.
  intros Ha Lb Lq Lr. unfold new_idivider.
  eapply okm_bind_p with (R := fun p => p = (a, b)) (P := fun _ _ => True).
  { unfold zero_pad. rewrite Lb, Nat.eqb_refl. apply okp_ret; auto. }
  intros p ->. cbv beta iota.
  mst okm_zero z0. cbv zeta.
  rewrite (skipn_last (0 : wire) a), (skipn_last (0 : wire) b) by lia.
  set (aw := last a (0 : wire)). set (bw := last b (0 : wire)).
  mst okm_fresh neg1. mst okm_cc_inv u1.
  pst okp_fresh_n a10 La10. pst okp_new_subtractor_yao a1 La1.
  mst okm_fresh neg2. mst okm_new_mux_bits u2.
  pst okp_fresh_n a2 La2. mst okm_new_mux u3.
  mst okm_fresh neg3. mst okm_cc_inv u4.
  pst okp_fresh_n b10 Lb10. pst okp_new_subtractor_yao b1 Lb1.
  mst okm_fresh neg4. mst okm_new_mux_bits u5.
  pst okp_fresh_n b2 Lb2. mst okm_new_mux u6.
  replace (Nat.eqb (length q) 0) with false by (symmetry; apply Nat.eqb_neq; lia).
  pst okp_fresh_n q0 Lq0. mst okm_new_udivider_yao u7.
  pst okp_fresh_n q10 Lq10. pst okp_new_subtractor_yao q1 Lq1.
  eapply okm_weaken; [apply okm_new_mux; lia|].
  cbv beta.
  intros _ e Hq Hq1 _ Hdiv _ Hb2 _ Hneg4 _ Hb1 _ Hneg3 _ Ha2 _ Hneg2 _ Ha1 _ Hneg1 _ Hz0 _ Hb.
  cbv zeta. fold aw bw.
  apply (zero_sub_val e z0 a a10) in Ha1; auto.
  apply (zero_sub_val e z0 b b10) in Hb1; auto; try lia.
  apply (zero_sub_val e z0 q0 q10) in Hq1; auto; try lia.
  rewrite Lb in Hb1. rewrite Lq0, Lq in Hq1.
  cbn [map] in Hneg2, Hneg4. rewrite Hz0 in Hneg1. cbn in Hneg1.
  assert (E2 : e neg2 = e aw).
  { destruct (e aw); inversion Hneg2; congruence. }
  assert (E4 : e neg4 = xorb (e aw) (e bw)).
  { rewrite Hneg3, E2 in Hneg4. destruct (e bw); inversion Hneg4 as [HH]; rewrite HH;
      destruct (e aw); reflexivity. }
  rewrite Ha1 in Ha2. rewrite Hb1 in Hb2. rewrite Hq1, E4 in Hq.
  rewrite <- Ha2, <- Hb2.
  assert (HB : valN e b2 <> 0).
  { rewrite Hb2. destruct (e bw); auto. apply negN_nonzero; auto.
    rewrite <- Lb. apply valN_lt. }
  destruct (Hdiv HB) as [HQ HR]. rewrite <- HQ. split; [exact HR | exact Hq].
Qed.
