(* StructArith.v — structural lemmas (single assignment, defined before use) for
   the ripple-carry NewAdder and the ripple-borrow NewSubtractor (Yao target),
   for every width, and the theorems about the EVALUATED circuits. *)
From Coq Require Import NArith List Bool Arith Lia.
From Mpc Require Import Builders.Emit Builders.EmitProof Builders.StructProof Builders.StructAdder
  Builders.Adder Builders.Sub Builders.AdderProof Builders.SubProof.
Import ListNotations.
Open Scope N_scope.

(* ---------- list helpers ---------- *)
Lemma firstn_Forall' {A} (P : A -> Prop) k : forall l, Forall P l -> Forall P (firstn k l).
Proof.
  induction k; intros [|a l] F; cbn; auto. inversion F; subst. constructor; auto.
Qed.

Lemma firstn_In' {A} k : forall (l : list A) a, In a (firstn k l) -> In a l.
Proof.
  induction k; intros [|b l] a; cbn; try tauto. intros [H|H]; eauto.
Qed.

Lemma firstn_NoDup' {A} k : forall (l : list A), NoDup l -> NoDup (firstn k l).
Proof.
  induction k; intros [|a l] H; cbn; try constructor.
  - inversion H; subst. intro I. apply firstn_In' in I. auto.
  - inversion H; subst. auto.
Qed.

Lemma skipn_In' {A} k : forall (l : list A) a, In a (skipn k l) -> In a l.
Proof.
  induction k; intros [|b l] a; cbn; try tauto. eauto.
Qed.

(* the destinations of the ripple loops: z[0..n-1] and, if it exists, z[n] *)
Lemma firstn_last_eq (z : list wire) : forall n,
  firstn n z ++ optl (if Nat.ltb n (length z) then Some (nth n z 0) else None) = firstn (n + 1) z.
Proof.
  induction z as [|a z IH]; intros n.
  - destruct n; reflexivity.
  - destruct n as [|n].
    + reflexivity.
    + cbn [firstn length nth Nat.add app].
      change (Nat.ltb (S n) (S (length z))) with (Nat.ltb n (length z)).
      rewrite IH. reflexivity.
Qed.

Section A.
Variable ninp : N.
Notation defd := (defd ninp). Notation pend := (pend ninp). Notation wfst := (wfst ninp).
Notation step := (step ninp). Notation oks := (@oks ninp _).

Lemma Forall_pend_step s s' wr l :
  step s s' wr -> Forall (pend s) l -> (forall w, In w l -> ~ In w wr) -> Forall (pend s') l.
Proof.
  intros S F H. apply Forall_forall. intros w Hin. rewrite Forall_forall in F.
  eapply step_pend; eauto.
Qed.

Lemma Forall_defd_repeat s w k : defd s w -> Forall (defd s) (repeat w k).
Proof. intros D. apply Forall_forall. intros x Hin. apply repeat_spec in Hin. subst. auto. Qed.

(* ---------- the carry chain ---------- *)
Lemma adder_loop_s : forall xs x ys zs cin last s,
  wfst s -> Forall (defd s) (x :: xs) -> Forall (defd s) ys -> defd s cin ->
  length ys = length (x :: xs) -> (length (x :: xs) <= length zs)%nat ->
  Forall (pend s) (firstn (length (x :: xs)) zs ++ optl last) ->
  NoDup (firstn (length (x :: xs)) zs ++ optl last) ->
  oks (adder_loop (x :: xs) ys zs cin last) s
      (fun _ s' => step s s' (firstn (length (x :: xs)) zs ++ optl last) /\
                   Forall (defd s') (firstn (length (x :: xs)) zs ++ optl last)).
Proof.
  induction xs as [|x2 xs IH]; intros x ys zs cin last s W Fx Fy Dc Ly Lz Po ND;
    (destruct ys as [|y ys]; [discriminate|]); (destruct zs as [|z zs]; [cbn in Lz; lia|]).
  - cbn [adder_loop length firstn app] in *.
    inversion Fx; subst. inversion Fy; subst. inversion Po; subst. inversion ND; subst.
    eapply oks_conseq; [apply full_adder_s; auto|].
    + intros cw ->. cbn in *. inversion H6; subst. split; auto; try (intro; subst; apply H7; cbn; auto).
    + cbv beta. intros _ s1 W1 (S1 & D1 & D2). split; auto. constructor; auto.
      destruct last as [cw|]; cbn; auto.
  - remember (x2 :: xs) as xs' eqn:Exs.
    assert (E : adder_loop (x :: xs') (y :: ys) (z :: zs) cin last =
                bind fresh (fun cout => bind (full_adder x y cin z (Some cout))
                                             (fun _ => adder_loop xs' ys zs cout last))).
    { subst xs'. reflexivity. }
    rewrite E. clear E.
    cbn [length firstn app] in Po, ND, Ly, Lz |- *.
    set (D := firstn (length xs') zs ++ optl last) in *.
    apply Forall_cons_iff in Fx as (Dx & Fx'). apply Forall_cons_iff in Fy as (Dy & Fy').
    apply Forall_cons_iff in Po as (Pz & PD). apply NoDup_cons_iff in ND as (NzD & NDD).
    pose proof (pend_next _ _ _ Pz) as Lo.
    sbind fresh_s. intros cout s1 W1 (E1 & P1 & S1 & N1). cbv beta.
    eapply oks_bind; [apply full_adder_s; [auto|sd|sd|sd|sp|]|].
    { intros cw [= <-]. split; [auto|lia]. }
    intros _ s2 W2 (S2 & D2 & D3). cbv beta. specialize (D3 _ eq_refl).
    assert (Po2 : Forall (pend s2) D).
    { apply Forall_forall. intros w Hin. rewrite Forall_forall in PD. specialize (PD _ Hin).
      pose proof (pend_next _ _ _ PD) as Lw. assert (w <> z) by (intro; subst; auto). sp. }
    subst xs'.
    eapply oks_conseq; [apply IH; auto; try (cbn in Ly, Lz |- *; lia);
                        try (eapply Forall_impl; [|eassumption]; intros; sd)|].
    cbv beta. intros _ s3 W3 (S3 & F3). fold D in S3, F3. split.
    + split; [sgn|]. split; [intros w Dw; sd|].
      intros w P N. pose proof (pend_next _ _ _ P) as Lw.
      assert (w <> z /\ ~ In w D) as (? & ?) by (split; intro; apply N; cbn; auto).
      sp.
    + constructor; [sd|exact F3].
Qed.

(* bit 0 (half adder) followed by the carry chain *)
Lemma ripple_core_s s x0 xs y0 ys z0 zs last :
  wfst s -> Forall (defd s) (x0 :: xs) -> Forall (defd s) (y0 :: ys) ->
  length ys = length xs -> (length xs <= length zs)%nat ->
  Forall (pend s) (firstn (S (length xs)) (z0 :: zs) ++ optl last) ->
  NoDup (firstn (S (length xs)) (z0 :: zs) ++ optl last) ->
  oks (match xs with
       | [] => half_adder x0 y0 z0 last
       | _ :: _ => bind fresh (fun cin => bind (half_adder x0 y0 z0 (Some cin))
                                            (fun _ => adder_loop xs ys zs cin last))
       end) s
      (fun _ s' => step s s' (firstn (S (length xs)) (z0 :: zs) ++ optl last) /\
                   Forall (defd s') (firstn (S (length xs)) (z0 :: zs) ++ optl last)).
Proof.
  intros W Fx Fy Ly Lz Po ND.
  cbn [firstn app] in Po, ND |- *.
  apply Forall_cons_iff in Fx as (Dx & Fx'). apply Forall_cons_iff in Fy as (Dy & Fy').
  apply Forall_cons_iff in Po as (Pz & PD). apply NoDup_cons_iff in ND as (NzD & NDD).
  pose proof (pend_next _ _ _ Pz) as Lo.
  destruct xs as [|x1 xs'].
  - cbn [length firstn app] in *.
    eapply oks_conseq; [apply half_adder_s; auto|].
    + intros cw ->. cbn in *. apply Forall_cons_iff in PD as (Pc & _). split; auto;
      try (intro; subst; apply NzD; auto).
    + cbv beta. intros _ s1 W1 (S1 & D1 & D2). split; auto. constructor; auto.
      destruct last as [cw|]; cbn; auto.
  - remember (x1 :: xs') as xs eqn:Exs.
    set (D := firstn (length xs) zs ++ optl last) in *.
    sbind fresh_s. intros cin s1 W1 (E1 & P1 & S1 & N1). cbv beta.
    eapply oks_bind; [apply half_adder_s; [auto|sd|sd|sp|]|].
    { intros cw [= <-]. split; [auto|lia]. }
    intros _ s2 W2 (S2 & D2 & D3). cbv beta. specialize (D3 _ eq_refl).
    assert (Po2 : Forall (pend s2) D).
    { apply Forall_forall. intros w Hin. rewrite Forall_forall in PD. specialize (PD _ Hin).
      pose proof (pend_next _ _ _ PD) as Lw. assert (w <> z0) by (intro; subst; auto). sp. }
    subst xs.
    eapply oks_conseq; [apply adder_loop_s; auto; try (cbn in Ly, Lz |- *; lia);
                        try (eapply Forall_impl; [|eassumption]; intros; sd)|].
    cbv beta. intros _ s3 W3 (S3 & F3). fold D in S3, F3. split.
    + split; [sgn|]. split; [intros w Dw; sd|].
      intros w P N. pose proof (pend_next _ _ _ P) as Lw.
      assert (w <> z0 /\ ~ In w D) as (? & ?) by (split; intro; apply N; cbn; auto).
      sp.
    + constructor; [sd|exact F3].
Qed.

(* NewAdder, ripple-carry branch: destinations z (pending, distinct), every width *)
Lemma ripple_adder_s s x y z :
  wfst s -> Forall (defd s) x -> Forall (defd s) y -> Forall (pend s) z -> NoDup z ->
  (1 <= length z)%nat -> (1 <= Nat.max (length x) (length y))%nat ->
  oks (ripple_adder x y z) s
      (fun z' s' => step s s' z /\ Forall (defd s') z' /\ length z' = length z).
Proof.
  intros W Fx Fy Pz ND Hz Hm. unfold ripple_adder.
  sbind zero_pad_s. intros [x' y'] s1 W1 (S1 & Fx' & Fy' & Lx & Ly). cbn [fst snd] in *.
  cbv beta iota zeta.
  remember (firstn (length z) x') as x2 eqn:Ex2.
  remember (firstn (length z) y') as y2 eqn:Ey2.
  assert (Lx2 : length x2 = Nat.min (length z) (Nat.max (length x) (length y)))
    by (subst x2; rewrite firstn_length; lia).
  assert (Ly2 : length y2 = Nat.min (length z) (Nat.max (length x) (length y)))
    by (subst y2; rewrite firstn_length; lia).
  assert (Fx2 : Forall (defd s1) x2) by (subst x2; apply firstn_Forall'; auto).
  assert (Fy2 : Forall (defd s1) y2) by (subst y2; apply firstn_Forall'; auto).
  clear Ex2 Ey2.
  destruct x2 as [|x0 xs]; [cbn in Lx2; lia|]. destruct y2 as [|y0 ys]; [cbn in Ly2; lia|].
  destruct z as [|z0 zs]; [cbn in Hz; lia|].
  pose proof (firstn_last_eq (z0 :: zs) (length (x0 :: xs))) as EL.
  remember (if Nat.ltb (length (x0 :: xs)) (length (z0 :: zs))
            then Some (nth (length (x0 :: xs)) (z0 :: zs) 0) else None) as last eqn:El.
  clear El.
  assert (Pz1 : Forall (pend s1) (z0 :: zs)).
  { eapply Forall_pend_step; eauto. }
  eapply oks_bind; [apply (ripple_core_s s1 x0 xs y0 ys z0 zs last); auto|].
  - cbn [length] in Lx2, Ly2. lia.
  - cbn [length] in Lx2. lia.
  - change (S (length xs)) with (length (x0 :: xs)). rewrite EL. apply firstn_Forall'; auto.
  - change (S (length xs)) with (length (x0 :: xs)). rewrite EL. apply firstn_NoDup'; auto.
  - cbv beta. intros _ s2 W2 (S2 & F2).
    change (S (length xs)) with (length (x0 :: xs)) in S2, F2. rewrite EL in S2, F2.
    eapply oks_conseq; [apply zero_tail_s; auto|].
    cbv beta. intros z' s3 W3 (S3 & Lz' & Ef & Fs). split; [|split; auto].
    + eapply step_weaken; [eapply step_trans; [exact S1|eapply step_trans; [exact S2|exact S3]]|].
      cbn [app]. rewrite app_nil_r. intros w Hin. eapply firstn_In'; eauto.
    + rewrite <- (firstn_skipn (length (x0 :: xs) + 1) z'). apply Forall_app. split; auto.
      rewrite Ef. eapply Forall_defd_step; eauto.
Qed.

Lemma new_adder_yao_s s x y z :
  gmw s = false ->
  wfst s -> Forall (defd s) x -> Forall (defd s) y -> Forall (pend s) z -> NoDup z ->
  (1 <= length z)%nat -> (1 <= Nat.max (length x) (length y))%nat ->
  oks (new_adder x y z) s
      (fun z' s' => step s s' z /\ Forall (defd s') z' /\ length z' = length z).
Proof.
  intros G W Fx Fy Pz ND Hz Hm.
  destruct (ripple_adder_s s x y z W Fx Fy Pz ND Hz Hm) as (a & s' & E & W' & Q).
  exists a, s'. split; [|auto]. unfold new_adder, bind, target_gmw. rewrite G. exact E.
Qed.

(* ---------- subtractor ---------- *)
Lemma full_subtractor_s s x y cin d c :
  wfst s -> defd s x -> defd s y -> defd s cin -> pend s d ->
  (forall cw, c = Some cw -> pend s cw /\ cw <> d) ->
  oks (full_subtractor x y cin d c) s
      (fun _ s' => step s s' (d :: optl c) /\ defd s' d /\ forall cw, c = Some cw -> defd s' cw).
Proof.
  intros W Dx Dy Dc Pd Hc. unfold full_subtractor.
  pose proof (pend_next _ _ _ Pd) as Ld.
  sbind fresh_s. intros w1 s1 W1 (E1 & P1 & S1 & N1). cbv beta.
  eapply oks_bind; [apply emit_s; [auto|sd|sd|sp]|]. intros _ s2 W2 (S2 & D2 & N2). cbv beta.
  eapply oks_bind; [apply emit_s; [auto|sd|sd|sp]|]. intros _ s3 W3 (S3 & D3 & N3). cbv beta.
  destruct c as [cw|].
  - destruct (Hc cw eq_refl) as (Pc & Nc). pose proof (pend_next _ _ _ Pc) as Lc.
    sbind fresh_s. intros w2 s4 W4 (E4 & P4 & S4 & N4). cbv beta.
    eapply oks_bind; [apply emit_s; [auto|sd|sd|sp]|]. intros _ s5 W5 (S5 & D5 & N5). cbv beta.
    sbind fresh_s. intros w3 s6 W6 (E6 & P6 & S6 & N6). cbv beta.
    eapply oks_bind; [apply emit_s; [auto|sd|sd|sp]|]. intros _ s7 W7 (S7 & D7 & N7). cbv beta.
    assert (B : next s < w2 /\ next s < w3).
    { pose proof (step_next _ _ _ _ S1). pose proof (step_next _ _ _ _ S2).
      pose proof (step_next _ _ _ _ S3). pose proof (step_next _ _ _ _ S4).
      pose proof (step_next _ _ _ _ S5). unfold wire in *. lia. }
    destruct B as (B2 & B3).
    eapply oks_conseq; [apply emit_s; [auto|sd|sd|sp]|].
    cbv beta. intros _ s8 W8 (S8 & D8 & N8). split; [|split; [sd|]].
    + split; [sgn|]. split; [intros w D; sd|].
      intros w P N. pose proof (pend_next _ _ _ P) as Lw.
      assert (w <> d /\ w <> cw) as (? & ?) by (split; intro; apply N; cbn; auto).
      sp.
    + intros ? [= <-]. auto.
  - apply oks_ret; auto. split; [|split; [sd|intros; discriminate]].
    split; [sgn|]. split; [intros w D; sd|].
    intros w P N. pose proof (pend_next _ _ _ P) as Lw.
    assert (w <> d) by (intro; apply N; cbn; auto).
    sp.
Qed.

(* the borrow chain; note the operand order full_subtractor y x *)
Lemma sub_loop_s : forall xs x ys zs cin last s,
  wfst s -> Forall (defd s) (x :: xs) -> Forall (defd s) ys -> defd s cin ->
  length ys = length (x :: xs) -> (length (x :: xs) <= length zs)%nat ->
  Forall (pend s) (firstn (length (x :: xs)) zs ++ optl last) ->
  NoDup (firstn (length (x :: xs)) zs ++ optl last) ->
  oks (sub_loop (x :: xs) ys zs cin last) s
      (fun _ s' => step s s' (firstn (length (x :: xs)) zs ++ optl last) /\
                   Forall (defd s') (firstn (length (x :: xs)) zs ++ optl last)).
Proof.
  induction xs as [|x2 xs IH]; intros x ys zs cin last s W Fx Fy Dc Ly Lz Po ND;
    (destruct ys as [|y ys]; [discriminate|]); (destruct zs as [|z zs]; [cbn in Lz; lia|]).
  - cbn [sub_loop length firstn app] in *.
    apply Forall_cons_iff in Fx as (Dx & Fx'). apply Forall_cons_iff in Fy as (Dy & Fy').
    apply Forall_cons_iff in Po as (Pz & PD). apply NoDup_cons_iff in ND as (NzD & NDD).
    eapply oks_conseq; [apply full_subtractor_s; auto|].
    + intros cw ->. cbn in *. apply Forall_cons_iff in PD as (Pc & _). split; auto;
      try (intro; subst; apply NzD; auto).
    + cbv beta. intros _ s1 W1 (S1 & D1 & D2). split; auto. constructor; auto.
      destruct last as [cw|]; cbn; auto.
  - remember (x2 :: xs) as xs' eqn:Exs.
    assert (E : sub_loop (x :: xs') (y :: ys) (z :: zs) cin last =
                bind fresh (fun cout => bind (full_subtractor y x cin z (Some cout))
                                             (fun _ => sub_loop xs' ys zs cout last))).
    { subst xs'. reflexivity. }
    rewrite E. clear E.
    cbn [length firstn app] in Po, ND, Ly, Lz |- *.
    set (D := firstn (length xs') zs ++ optl last) in *.
    apply Forall_cons_iff in Fx as (Dx & Fx'). apply Forall_cons_iff in Fy as (Dy & Fy').
    apply Forall_cons_iff in Po as (Pz & PD). apply NoDup_cons_iff in ND as (NzD & NDD).
    pose proof (pend_next _ _ _ Pz) as Lo.
    sbind fresh_s. intros cout s1 W1 (E1 & P1 & S1 & N1). cbv beta.
    eapply oks_bind; [apply full_subtractor_s; [auto|sd|sd|sd|sp|]|].
    { intros cw [= <-]. split; [auto|lia]. }
    intros _ s2 W2 (S2 & D2 & D3). cbv beta. specialize (D3 _ eq_refl).
    assert (Po2 : Forall (pend s2) D).
    { apply Forall_forall. intros w Hin. rewrite Forall_forall in PD. specialize (PD _ Hin).
      pose proof (pend_next _ _ _ PD) as Lw. assert (w <> z) by (intro; subst; auto). sp. }
    subst xs'.
    eapply oks_conseq; [apply IH; auto; try (cbn in Ly, Lz |- *; lia);
                        try (eapply Forall_impl; [|eassumption]; intros; sd)|].
    cbv beta. intros _ s3 W3 (S3 & F3). fold D in S3, F3. split.
    + split; [sgn|]. split; [intros w Dw; sd|].
      intros w P N. pose proof (pend_next _ _ _ P) as Lw.
      assert (w <> z /\ ~ In w D) as (? & ?) by (split; intro; apply N; cbn; auto).
      sp.
    + constructor; [sd|exact F3].
Qed.

(* NewSubtractor, ripple-borrow branch *)
Lemma ripple_subtractor_s s x y z :
  wfst s -> Forall (defd s) x -> Forall (defd s) y -> Forall (pend s) z -> NoDup z ->
  (1 <= length z)%nat -> (1 <= Nat.max (length x) (length y))%nat ->
  oks (ripple_subtractor x y z) s
      (fun z' s' => step s s' z /\ Forall (defd s') z' /\ length z' = length z).
Proof.
  intros W Fx Fy Pz ND Hz Hm. unfold ripple_subtractor.
  sbind zero_pad_s. intros [x' y'] s1 W1 (S1 & Fx' & Fy' & Lx & Ly). cbn [fst snd] in *.
  cbv beta iota zeta.
  remember (firstn (length z) x') as x2 eqn:Ex2.
  remember (firstn (length z) y') as y2 eqn:Ey2.
  assert (Lx2 : length x2 = Nat.min (length z) (Nat.max (length x) (length y)))
    by (subst x2; rewrite firstn_length; lia).
  assert (Ly2 : length y2 = Nat.min (length z) (Nat.max (length x) (length y)))
    by (subst y2; rewrite firstn_length; lia).
  assert (Fx2 : Forall (defd s1) x2) by (subst x2; apply firstn_Forall'; auto).
  assert (Fy2 : Forall (defd s1) y2) by (subst y2; apply firstn_Forall'; auto).
  clear Ex2 Ey2.
  destruct x2 as [|x0 xs]; [cbn in Lx2; lia|].
  pose proof (firstn_last_eq z (length (x0 :: xs))) as EL.
  remember (if Nat.ltb (length (x0 :: xs)) (length z)
            then Some (nth (length (x0 :: xs)) z 0) else None) as last eqn:El.
  clear El.
  sbind zero_s. intros cin s2 W2 (S2 & Dc). cbv beta.
  assert (Pz2 : Forall (pend s2) z).
  { eapply Forall_pend_step; [exact S2| |auto]. eapply Forall_pend_step; eauto. }
  eapply oks_bind; [apply (sub_loop_s xs x0 y2 z cin last s2); auto|].
  - eapply Forall_defd_step; eauto.
  - eapply Forall_defd_step; eauto.
  - lia.
  - lia.
  - rewrite EL. apply firstn_Forall'; auto.
  - rewrite EL. apply firstn_NoDup'; auto.
  - cbv beta. intros _ s3 W3 (S3 & F3). rewrite EL in S3, F3.
    eapply oks_conseq; [apply zero_tail_s; auto|].
    cbv beta. intros z' s4 W4 (S4 & Lz' & Ef & Fs). split; [|split; auto].
    + eapply step_weaken;
        [eapply step_trans; [exact S1|eapply step_trans; [exact S2|eapply step_trans; [exact S3|exact S4]]]|].
      cbn [app]. rewrite app_nil_r. intros w Hin. eapply firstn_In'; eauto.
    + rewrite <- (firstn_skipn (length (x0 :: xs) + 1) z'). apply Forall_app. split; auto.
      rewrite Ef. eapply Forall_defd_step; eauto.
Qed.

Lemma new_subtractor_yao_s s x y z :
  gmw s = false ->
  wfst s -> Forall (defd s) x -> Forall (defd s) y -> Forall (pend s) z -> NoDup z ->
  (1 <= length z)%nat -> (1 <= Nat.max (length x) (length y))%nat ->
  oks (new_subtractor x y z) s
      (fun z' s' => step s s' z /\ Forall (defd s') z' /\ length z' = length z).
Proof.
  intros G W Fx Fy Pz ND Hz Hm.
  destruct (ripple_subtractor_s s x y z W Fx Fy Pz ND Hz Hm) as (a & s' & E & W' & Q).
  exists a, s'. split; [|auto]. unfold new_subtractor, bind, target_gmw. rewrite G. exact E.
Qed.

End A.

(* ---------- the evaluated adder / subtractor circuits ----------
   Harness layout: x = wires 0..xw-1, y = the next yw wires, the zw destination
   wires follow the inputs.  For all widths and every initial assignment e0 the
   emitted gate list is single-assignment and defined-before-use and evaluating
   it gate by gate yields the sum / difference modulo 2^zw. *)
Section Layout.
Variables (xw yw zw : nat).
Let x := wrange 0 xw.
Let y := wrange (N.of_nat xw) yw.
Let ninp := N.of_nat xw + N.of_nat yw.
Let z := wrange ninp zw.

Lemma layout_facts :
  (1 <= Nat.max xw yw)%nat ->
  (forall w, In w x -> w < ninp) /\ (forall w, In w y -> w < ninp) /\
  length x = xw /\ length y = yw /\ length z = zw /\ 0 < ninp /\
  (forall tg, Forall (pend ninp (st0 (ninp + N.of_nat zw) tg)) z) /\ NoDup z /\
  (forall tg, wfst ninp (st0 (ninp + N.of_nat zw) tg)).
Proof.
  intros Hm. unfold x, y, z, ninp.
  split; [intros w H; apply wrange_In in H; lia|].
  split; [intros w H; apply wrange_In in H; lia|].
  rewrite !wrange_length.
  split; [reflexivity|]. split; [reflexivity|]. split; [reflexivity|]. split; [lia|].
  split; [|split; [apply wrange_NoDup|intros tg; apply wfst_st0; lia]].
  intros tg. apply Forall_pend_st0. intros w H. apply wrange_In in H. lia.
Qed.
End Layout.

Theorem ripple_adder_eval (tg : bool) (xw yw zw : nat) (e0 : env) :
  (1 <= Nat.max xw yw)%nat -> (1 <= zw)%nat ->
  let x := wrange 0 xw in
  let y := wrange (N.of_nat xw) yw in
  let ninp := N.of_nat xw + N.of_nat yw in
  let z := wrange ninp zw in
  exists z' s', ripple_adder x y z (st0 (ninp + N.of_nat zw) tg) = (z', s') /\
    wfc_b ninp (gates s') = true /\ dbu ninp (gates s') /\ length z' = zw /\
    valN (eval_rev (gates s') e0) z' = (valN e0 x + valN e0 y) mod 2 ^ N.of_nat zw.
Proof.
  intros Hm Hz. cbv zeta.
  destruct (layout_facts xw yw zw Hm) as (Ix & Iy & Lx & Ly & Lz & Hn & Pz & ND & W0).
  set (x := wrange 0 xw) in *. set (y := wrange (N.of_nat xw) yw) in *.
  set (ninp := N.of_nat xw + N.of_nat yw) in *. set (z := wrange ninp zw) in *.
  assert (Hz' : (1 <= length z)%nat) by lia.
  assert (Hm' : (1 <= Nat.max (length x) (length y))%nat) by lia.
  pose proof (okm_ripple_adder tg x y z Hz' Hm') as Sem.
  pose proof (ripple_adder_s ninp (st0 (ninp + N.of_nat zw) tg) x y z (W0 tg)
                (Forall_defd_inputs _ _ _ Ix) (Forall_defd_inputs _ _ _ Iy) (Pz tg) ND Hz' Hm') as Str.
  destruct (run_st0 ninp _ tg _ _ _ Sem Str e0) as (z' & s' & E & C & D & _ & (Lz' & P) & I).
  exists z', s'. split; [exact E|]. split; [exact C|]. split; [exact D|]. split; [lia|].
  rewrite P, Lz.
  rewrite (valN_inputs _ e0 ninp x I Ix), (valN_inputs _ e0 ninp y I Iy). reflexivity.
Qed.

Theorem new_adder_yao_eval (xw yw zw : nat) (e0 : env) :
  (1 <= Nat.max xw yw)%nat -> (1 <= zw)%nat ->
  let x := wrange 0 xw in
  let y := wrange (N.of_nat xw) yw in
  let ninp := N.of_nat xw + N.of_nat yw in
  let z := wrange ninp zw in
  exists z' s', new_adder x y z (st0 (ninp + N.of_nat zw) false) = (z', s') /\
    wfc_b ninp (gates s') = true /\ dbu ninp (gates s') /\ length z' = zw /\
    valN (eval_rev (gates s') e0) z' = (valN e0 x + valN e0 y) mod 2 ^ N.of_nat zw.
Proof.
  intros Hm Hz. exact (ripple_adder_eval false xw yw zw e0 Hm Hz).
Qed.

Theorem ripple_subtractor_eval (tg : bool) (xw yw zw : nat) (e0 : env) :
  (1 <= Nat.max xw yw)%nat -> (1 <= zw)%nat -> (zw <= Nat.max xw yw + 1)%nat ->
  let x := wrange 0 xw in
  let y := wrange (N.of_nat xw) yw in
  let ninp := N.of_nat xw + N.of_nat yw in
  let z := wrange ninp zw in
  exists z' s', ripple_subtractor x y z (st0 (ninp + N.of_nat zw) tg) = (z', s') /\
    wfc_b ninp (gates s') = true /\ dbu ninp (gates s') /\ length z' = zw /\
    valN (eval_rev (gates s') e0) z' =
      (valN e0 x + 2 ^ N.of_nat zw - valN e0 y mod 2 ^ N.of_nat zw) mod 2 ^ N.of_nat zw.
Proof.
  intros Hm Hz Hw. cbv zeta.
  destruct (layout_facts xw yw zw Hm) as (Ix & Iy & Lx & Ly & Lz & Hn & Pz & ND & W0).
  set (x := wrange 0 xw) in *. set (y := wrange (N.of_nat xw) yw) in *.
  set (ninp := N.of_nat xw + N.of_nat yw) in *. set (z := wrange ninp zw) in *.
  assert (Hz' : (1 <= length z)%nat) by lia.
  assert (Hm' : (1 <= Nat.max (length x) (length y))%nat) by lia.
  assert (Hw' : (length z <= Nat.max (length x) (length y) + 1)%nat) by lia.
  pose proof (okm_ripple_subtractor tg x y z Hz' Hm' Hw') as Sem.
  pose proof (ripple_subtractor_s ninp (st0 (ninp + N.of_nat zw) tg) x y z (W0 tg)
                (Forall_defd_inputs _ _ _ Ix) (Forall_defd_inputs _ _ _ Iy) (Pz tg) ND Hz' Hm') as Str.
  destruct (run_st0 ninp _ tg _ _ _ Sem Str e0) as (z' & s' & E & C & D & _ & (Lz' & P) & I).
  exists z', s'. split; [exact E|]. split; [exact C|]. split; [exact D|]. split; [lia|].
  rewrite P, Lz.
  rewrite (valN_inputs _ e0 ninp x I Ix), (valN_inputs _ e0 ninp y I Iy). reflexivity.
Qed.

Theorem new_subtractor_yao_eval (xw yw zw : nat) (e0 : env) :
  (1 <= Nat.max xw yw)%nat -> (1 <= zw)%nat -> (zw <= Nat.max xw yw + 1)%nat ->
  let x := wrange 0 xw in
  let y := wrange (N.of_nat xw) yw in
  let ninp := N.of_nat xw + N.of_nat yw in
  let z := wrange ninp zw in
  exists z' s', new_subtractor x y z (st0 (ninp + N.of_nat zw) false) = (z', s') /\
    wfc_b ninp (gates s') = true /\ dbu ninp (gates s') /\ length z' = zw /\
    valN (eval_rev (gates s') e0) z' =
      (valN e0 x + 2 ^ N.of_nat zw - valN e0 y mod 2 ^ N.of_nat zw) mod 2 ^ N.of_nat zw.
Proof.
  intros Hm Hz Hw. exact (ripple_subtractor_eval false xw yw zw e0 Hm Hz Hw).
Qed.
