(* KsProof.v — NewKoggeStoneAdder / NewKoggeStoneSubtractor (GMW target): the
   parallel-prefix circuits compute (x + y) mod 2^(result width) resp.
   (x + not y + 1) mod 2^(result width) for every operand and result width. *)
From Coq Require Import NArith List Bool Arith Lia.
From Mpc Require Import Builders.Emit Builders.EmitProof Builders.Adder Builders.Sub.
Import ListNotations.
Open Scope N_scope.

(* ====================================================================== *)
(* (a) pure boolean-list mirrors of the builders                          *)
(* ====================================================================== *)

Fixpoint preB (x y : list bool) : list bool * list bool :=
  match x, y with
  | a :: x', b :: y' =>
      let r := preB x' y' in (xorb a b :: fst r, (a && b) :: snd r)
  | _, _ => ([], [])
  end.

Fixpoint cellsB (pi gi pj gj : list bool) : list bool * list bool :=
  match pi, gi, pj, gj with
  | p :: pi', g :: gi', pl :: pj', gl :: gj' =>
      let r := cellsB pi' gi' pj' gj' in
      ((p && pl) :: fst r, xorb g (p && gl) :: snd r)
  | _, _, _, _ => ([], [])
  end.

Definition stageB (shift : nat) (p g : list bool) : list bool * list bool :=
  let r := cellsB (skipn shift p) (skipn shift g) p g in
  (firstn shift p ++ fst r, firstn shift g ++ snd r).

Fixpoint stagesB (k shift : nat) (p g : list bool) : list bool * list bool :=
  match k with
  | O => (p, g)
  | S k' => let r := stageB shift p g in stagesB k' (2 * shift) (fst r) (snd r)
  end.

Fixpoint postB (x y g : list bool) : list bool :=
  match x, y, g with
  | a :: x', b :: y', c :: g' => xorb (xorb a b) c :: postB x' y' g'
  | _, _, _ => []
  end.

Lemma okm_ks_pre t : forall x y,
  okm t (ks_pre x y)
      (fun r e => map e (fst r) = fst (preB (map e x) (map e y)) /\
                  map e (snd r) = snd (preB (map e x) (map e y))).
Proof.
  induction x as [|xi x IH]; intros y.
  - cbn. apply okm_ret. auto.
  - destruct y as [|yi y]; [cbn; apply okm_ret; auto|].
    cbn [ks_pre]. mstep okm_fresh. mstep okm_fresh. mstep okm_emit. mstep okm_emit.
    eapply okm_bind; [apply IH|]. intros [ps gs]. apply okm_ret.
    cbn. intros e [H1 H2] E2 E1 _ _. rewrite H1, H2, E1, E2. auto.
Qed.

Lemma okm_ks_cells t : forall pi gi pj gj,
  okm t (ks_cells pi gi pj gj)
      (fun r e =>
         map e (fst r) = fst (cellsB (map e pi) (map e gi) (map e pj) (map e gj)) /\
         map e (snd r) = snd (cellsB (map e pi) (map e gi) (map e pj) (map e gj))).
Proof.
  induction pi as [|p pi IH]; intros gi pj gj.
  - cbn. apply okm_ret. auto.
  - destruct gi as [|g gi]; [cbn; apply okm_ret; auto|].
    destruct pj as [|pl pj]; [cbn; apply okm_ret; auto|].
    destruct gj as [|gl gj]; [cbn; apply okm_ret; auto|].
    cbn [ks_cells]. mstep okm_fresh. mstep okm_fresh. mstep okm_fresh.
    mstep okm_emit. mstep okm_emit. mstep okm_emit.
    eapply okm_bind; [apply IH|]. intros [ps gs]. apply okm_ret.
    cbn. intros e [H1 H2] E3 E2 E1 _ _ _. rewrite H1, H2, E3, E2, E1. auto.
Qed.

Lemma okm_ks_stage t shift p g :
  okm t (ks_stage shift p g)
      (fun r e => map e (fst r) = fst (stageB shift (map e p) (map e g)) /\
                  map e (snd r) = snd (stageB shift (map e p) (map e g))).
Proof.
  unfold ks_stage. eapply okm_bind; [apply okm_ks_cells|]. intros [ps gs]. apply okm_ret.
  cbn. intros e [H1 H2]. unfold stageB. cbn [fst snd].
  rewrite !map_app, H1, H2, <- !firstn_map, <- !skipn_map. auto.
Qed.

Lemma okm_ks_stages t : forall k shift p g,
  okm t (ks_stages k shift p g)
      (fun r e => map e (fst r) = fst (stagesB k shift (map e p) (map e g)) /\
                  map e (snd r) = snd (stagesB k shift (map e p) (map e g))).
Proof.
  induction k as [|k IH]; intros shift p g.
  - cbn. apply okm_ret. auto.
  - cbn [ks_stages]. eapply okm_bind; [apply okm_ks_stage|]. intros [p' g'].
    eapply okm_weaken; [apply IH|]. cbn. intros r e [H1 H2] [E1 E2].
    rewrite H1, H2, E1, E2. auto.
Qed.

Lemma okm_ks_post t : forall x y g z,
  length y = length x -> (length x <= length g)%nat -> (length x <= length z)%nat ->
  okm t (ks_post x y g z)
      (fun _ e => map e (firstn (length x) z) = postB (map e x) (map e y) (map e g)).
Proof.
  induction x as [|xi x IH]; intros y g z Hy Hg Hz.
  - cbn. apply okm_ret. auto.
  - destruct y as [|yi y]; [discriminate|].
    destruct g as [|gi g]; [cbn in Hg; lia|].
    destruct z as [|zi z]; [cbn in Hz; lia|].
    cbn [ks_post]. mstep okm_fresh. mstep okm_emit. mstep okm_emit.
    eapply okm_weaken; [apply IH; cbn in *; lia|].
    cbn. intros _ e H E2 E1 _. rewrite H, E2, E1. auto.
Qed.

(* ====================================================================== *)
(* (b) pure correctness on boolean lists                                  *)
(* ====================================================================== *)

Notation nb i l := (nth i l false).

Lemma nth_skipn_ks {A} (d0 : A) : forall d l i, nth i (skipn d l) d0 = nth (d + i) l d0.
Proof.
  induction d; intros l i; [reflexivity|].
  destruct l; cbn [skipn].
  - destruct i; reflexivity.
  - cbn. apply IHd.
Qed.

Lemma nth_firstn_ks {A} (d0 : A) : forall d l i, (i < d)%nat -> nth i (firstn d l) d0 = nth i l d0.
Proof.
  induction d; intros l i H; [lia|].
  destruct l; cbn [firstn]; [reflexivity|].
  destruct i; cbn; [reflexivity|]. apply IHd; lia.
Qed.

Lemma preB_spec : forall x y, length y = length x ->
  length (fst (preB x y)) = length x /\ length (snd (preB x y)) = length x /\
  forall i, nb i (fst (preB x y)) = xorb (nb i x) (nb i y) /\
            nb i (snd (preB x y)) = nb i x && nb i y.
Proof.
  induction x as [|a x IH]; intros y Hy.
  - destruct y; [|discriminate]. cbn. repeat split; destruct i; reflexivity.
  - destruct y as [|b y]; [discriminate|].
    cbn [preB fst snd length]. destruct (IH y) as (L1 & L2 & N); [cbn in *; lia|].
    repeat split; [cbn; lia.. | |]; destruct i; cbn [nth]; try reflexivity; apply N.
Qed.

Lemma cellsB_spec : forall pi gi pj gj,
  length gi = length pi -> length gj = length pj -> (length pi <= length pj)%nat ->
  length (fst (cellsB pi gi pj gj)) = length pi /\
  length (snd (cellsB pi gi pj gj)) = length pi /\
  forall i, nb i (fst (cellsB pi gi pj gj)) = nb i pi && nb i pj /\
            nb i (snd (cellsB pi gi pj gj)) = xorb (nb i gi) (nb i pi && nb i gj).
Proof.
  induction pi as [|p pi IH]; intros gi pj gj Hg Hj Hl.
  - destruct gi; [|discriminate]. cbn. repeat split; destruct i; reflexivity.
  - destruct gi as [|g gi]; [discriminate|].
    destruct pj as [|pl pj]; [cbn in Hl; lia|].
    destruct gj as [|gl gj]; [discriminate|].
    cbn [cellsB fst snd length]. destruct (IH gi pj gj) as (L1 & L2 & N); [cbn in *; lia..|].
    repeat split; [cbn; lia.. | |]; destruct i; cbn [nth]; try reflexivity; apply N.
Qed.

(* positions below the shift are kept, position i >= shift is combined with position i - shift *)
Lemma stageB_spec d p g :
  length g = length p ->
  length (fst (stageB d p g)) = length p /\
  length (snd (stageB d p g)) = length p /\
  forall i, (i < length p)%nat ->
    nb i (fst (stageB d p g)) = (if (i <? d)%nat then nb i p else nb i p && nb (i - d) p) /\
    nb i (snd (stageB d p g)) =
      (if (i <? d)%nat then nb i g else xorb (nb i g) (nb i p && nb (i - d) g)).
Proof.
  intros Hg. unfold stageB. cbn [fst snd].
  destruct (cellsB_spec (skipn d p) (skipn d g) p g) as (L1 & L2 & N).
  { rewrite !skipn_length. lia. } { auto. } { rewrite skipn_length. lia. }
  rewrite !app_length, L1, L2, !firstn_length, skipn_length.
  split; [lia|]. split; [lia|]. intros i Hi.
  destruct (Nat.ltb_spec i d).
  - rewrite !app_nth1 by (rewrite firstn_length; lia). rewrite !nth_firstn_ks by lia. auto.
  - rewrite !app_nth2 by (rewrite firstn_length; lia). rewrite !firstn_length.
    replace (Nat.min d (length p)) with d by lia. replace (Nat.min d (length g)) with d by lia.
    destruct (N (i - d)%nat) as [N1 N2]. rewrite N1, N2, !nth_skipn_ks.
    replace (d + (i - d))%nat with i by lia. auto.
Qed.

Lemma postB_spec : forall x y g, length y = length x -> (length x <= length g)%nat ->
  length (postB x y g) = length x /\
  forall i, (i < length x)%nat -> nb i (postB x y g) = xorb (xorb (nb i x) (nb i y)) (nb i g).
Proof.
  induction x as [|a x IH]; intros y g Hy Hg.
  - cbn. split; [reflexivity|]. intros; lia.
  - destruct y as [|b y]; [discriminate|]. destruct g as [|c g]; [cbn in Hg; lia|].
    cbn [postB length]. destruct (IH y g) as (L & N); [cbn in *; lia..|].
    split; [lia|]. intros [|i] Hi; cbn [nth]; [reflexivity|]. apply N. lia.
Qed.

(* ---------- the prefix operator on (generate, propagate) pairs ---------- *)
(* high part on the left; XOR instead of OR (see [grp_excl] / [gpop_or] below) *)
Definition gpop (a b : bool * bool) : bool * bool :=
  (xorb (fst a) (snd a && fst b), snd a && snd b).

Lemma gpop_assoc a b c : gpop a (gpop b c) = gpop (gpop a b) c.
Proof. destruct a as [[] []], b as [[] []], c as [[] []]; reflexivity. Qed.
Lemma gpop_id_r a : gpop a (false, true) = a.
Proof. destruct a as [[] []]; reflexivity. Qed.
Lemma gpop_id_l a : gpop (false, true) a = a.
Proof. destruct a as [[] []]; reflexivity. Qed.

(* the textbook operator with OR *)
Definition gpop_or (a b : bool * bool) : bool * bool :=
  (fst a || (snd a && fst b), snd a && snd b).
(* exclusivity: a pair never has generate = propagate = true *)
Definition excl (a : bool * bool) : Prop := fst a && snd a = false.
Lemma gpop_excl a b : excl a -> excl b -> excl (gpop a b).
Proof. unfold excl. destruct a as [[] []], b as [[] []]; cbn; auto. Qed.
Lemma gpop_or_eq a b : excl a -> gpop a b = gpop_or a b.
Proof. unfold excl. destruct a as [[] []], b as [[] []]; cbn; auto; discriminate. Qed.

Section Prefix.
  Variables gf pf : nat -> bool.

  (* group signal of the bit positions lo .. lo+len-1 *)
  Fixpoint grp (lo len : nat) : bool * bool :=
    match len with
    | O => (false, true)
    | S k => gpop (gf (lo + k)%nat, pf (lo + k)%nat) (grp lo k)
    end.

  Lemma grp_app lo a b : grp lo (a + b) = gpop (grp (lo + a) b) (grp lo a).
  Proof.
    induction b.
    - rewrite Nat.add_0_r. cbn. rewrite gpop_id_l. reflexivity.
    - rewrite Nat.add_succ_r. cbn [grp]. rewrite IHb, gpop_assoc, Nat.add_assoc. reflexivity.
  Qed.

  Lemma grp_excl lo len :
    (forall i, gf i && pf i = false) -> excl (grp lo len).
  Proof.
    intros H. induction len; [reflexivity|]. cbn [grp]. apply gpop_excl; auto. apply H.
  Qed.

  (* (g_i, p_i) is the group signal of the (at most d) positions ending at i *)
  Definition ksinv (d n : nat) (p g : list bool) : Prop :=
    length p = n /\ length g = n /\
    forall i, (i < n)%nat ->
      (nb i g, nb i p) = grp (S i - Nat.min (S i) d) (Nat.min (S i) d).

  Lemma stage_inv d n p g :
    (1 <= d)%nat -> ksinv d n p g ->
    ksinv (2 * d) n (fst (stageB d p g)) (snd (stageB d p g)).
  Proof.
    intros Hd (Lp & Lg & I). destruct (stageB_spec d p g) as (L1 & L2 & N); [lia|].
    split; [lia|]. split; [lia|]. intros i Hi.
    destruct (N i) as [N1 N2]; [lia|]. rewrite N1, N2.
    destruct (Nat.ltb_spec i d).
    - rewrite (I i Hi). f_equal; lia.
    - replace (Nat.min (S i) (2 * d)) with (Nat.min (S (i - d)) d + d)%nat by lia.
      rewrite grp_app.
      pose proof (I i Hi) as Ii. pose proof (I (i - d)%nat ltac:(lia)) as Ij.
      replace (Nat.min (S i) d) with d in Ii by lia.
      replace (S i - (Nat.min (S (i - d)) d + d) + Nat.min (S (i - d)) d)%nat
        with (S i - d)%nat by lia.
      replace (S i - (Nat.min (S (i - d)) d + d))%nat
        with (S (i - d) - Nat.min (S (i - d)) d)%nat by lia.
      rewrite <- Ii, <- Ij. reflexivity.
  Qed.

  Lemma stages_inv n : forall k d p g,
    (1 <= d)%nat -> ksinv d n p g ->
    ksinv (2 ^ k * d) n (fst (stagesB k d p g)) (snd (stagesB k d p g)).
  Proof.
    induction k as [|k IH]; intros d p g Hd I.
    - cbn [stagesB fst snd Nat.pow]. rewrite Nat.mul_1_l. exact I.
    - cbn [stagesB]. replace (2 ^ S k * d)%nat with (2 ^ k * (2 * d))%nat by (cbn [Nat.pow]; lia).
      apply IH; [lia|]. apply stage_inv; auto.
  Qed.

  Definition carry (i : nat) : bool := fst (grp 0 i).

  Lemma carry_0 : carry 0 = false. Proof. reflexivity. Qed.
  Lemma carry_S i : carry (S i) = xorb (gf i) (pf i && carry i).
  Proof. reflexivity. Qed.

  Lemma ksinv_init n p g :
    length p = n -> length g = n ->
    (forall i, (i < n)%nat -> nb i p = pf i /\ nb i g = gf i) ->
    ksinv 1 n p g.
  Proof.
    intros Lp Lg H. split; [auto|]. split; [auto|]. intros i Hi.
    replace (Nat.min (S i) 1) with 1%nat by lia. replace (S i - 1)%nat with i by lia.
    cbn [grp]. rewrite gpop_id_r, Nat.add_0_r. destruct (H i Hi) as [-> ->]. reflexivity.
  Qed.

  Lemma ksinv_full d n p g :
    (n <= d)%nat -> ksinv d n p g ->
    forall i, (i < n)%nat -> nb i g = carry (S i).
  Proof.
    intros Hn (_ & _ & I) i Hi. specialize (I i Hi).
    replace (Nat.min (S i) d) with (S i) in I by lia. rewrite Nat.sub_diag in I.
    unfold carry. rewrite <- I. reflexivity.
  Qed.
End Prefix.

(* ---------- number of stages ---------- *)
Lemma ceil_log2_aux_bound : forall fuel p n,
  (1 <= p)%nat -> (n <= p + fuel)%nat -> (n <= 2 ^ ceil_log2_aux fuel p n * p)%nat.
Proof.
  induction fuel as [|f IH]; intros p n Hp Hn.
  - cbn. lia.
  - cbn [ceil_log2_aux]. destruct (Nat.leb_spec n p).
    + cbn. lia.
    + specialize (IH (2 * p)%nat n ltac:(lia) ltac:(lia)).
      cbn [Nat.pow]. lia.
Qed.

Lemma ceil_log2_bound n : (n <= 2 ^ ceil_log2 n)%nat.
Proof.
  pose proof (ceil_log2_aux_bound n 1 n ltac:(lia) ltac:(lia)) as H.
  unfold ceil_log2. lia.
Qed.

(* ---------- carries and addition ---------- *)
Fixpoint valf (f : nat -> bool) (k : nat) : N :=
  match k with
  | O => 0
  | S k' => valf f k' + 2 ^ N.of_nat k' * N.b2n (f k')
  end.

Lemma valf_ext f g k : (forall i, (i < k)%nat -> f i = g i) -> valf f k = valf g k.
Proof.
  induction k; intros H; [reflexivity|]. cbn [valf]. rewrite IHk, H by auto. reflexivity.
Qed.

Lemma valf_shift f k : valf f (S k) = N.b2n (f 0%nat) + 2 * valf (fun i => f (S i)) k.
Proof.
  induction k.
  - cbn [valf]. change (2 ^ N.of_nat 0) with 1. lia.
  - change (valf f (S (S k))) with (valf f (S k) + 2 ^ N.of_nat (S k) * N.b2n (f (S k))).
    rewrite IHk. cbn [valf]. rewrite pow2_S. lia.
Qed.

Lemma to_N_valf l : to_N l = valf (fun i => nb i l) (length l).
Proof.
  induction l as [|b l IH]; [reflexivity|].
  cbn [length]. rewrite valf_shift. cbn [to_N nth]. rewrite IH. reflexivity.
Qed.

Lemma to_N_lt l : to_N l < 2 ^ N.of_nat (length l).
Proof.
  induction l as [|b l IH]; cbn [length to_N].
  - cbn. lia.
  - rewrite pow2_S. pose proof (b2n_le1 b). lia.
Qed.

Definition gen_of (xf yf : nat -> bool) (i : nat) : bool := xf i && yf i.
Definition prop_of (xf yf : nat -> bool) (i : nat) : bool := xorb (xf i) (yf i).
Definition sumbit (xf yf : nat -> bool) (i : nat) : bool :=
  xorb (prop_of xf yf i) (carry (gen_of xf yf) (prop_of xf yf) i).

(* the prefix carries are the ripple carries: c_0 = 0, c_(i+1) = maj (x_i, y_i, c_i) *)
Lemma carry_maj xf yf i :
  carry (gen_of xf yf) (prop_of xf yf) (S i) =
  (xf i && yf i) || (carry (gen_of xf yf) (prop_of xf yf) i && xorb (xf i) (yf i)).
Proof.
  rewrite carry_S. unfold gen_of, prop_of.
  destruct (xf i), (yf i), (carry _ _ i); reflexivity.
Qed.

Lemma sumbit_arith xf yf k :
  N.b2n (sumbit xf yf k) + 2 * N.b2n (carry (gen_of xf yf) (prop_of xf yf) (S k))
  = N.b2n (xf k) + N.b2n (yf k) + N.b2n (carry (gen_of xf yf) (prop_of xf yf) k).
Proof.
  rewrite carry_S. unfold sumbit.
  generalize (carry (gen_of xf yf) (prop_of xf yf) k) as c. intros c.
  unfold gen_of, prop_of. destruct (xf k), (yf k), c; reflexivity.
Qed.

Lemma ripple xf yf k :
  valf (sumbit xf yf) k + 2 ^ N.of_nat k * N.b2n (carry (gen_of xf yf) (prop_of xf yf) k)
  = valf xf k + valf yf k.
Proof.
  induction k.
  - cbn. reflexivity.
  - cbn [valf]. rewrite pow2_S. pose proof (sumbit_arith xf yf k) as A.
    assert (E : 2 ^ N.of_nat k *
                (N.b2n (sumbit xf yf k) + 2 * N.b2n (carry (gen_of xf yf) (prop_of xf yf) (S k)))
                = 2 ^ N.of_nat k *
                  (N.b2n (xf k) + N.b2n (yf k) + N.b2n (carry (gen_of xf yf) (prop_of xf yf) k)))
      by (rewrite A; reflexivity).
    lia.
Qed.

(* the Kogge-Stone network on bit lists adds *)
Theorem ks_pure x0 xs y0 ys :
  length ys = length xs ->
  let n := S (length xs) in
  let r0 := preB (x0 :: xs) (y0 :: ys) in
  let r := stagesB (ceil_log2 n) 1 (fst r0) (snd r0) in
  to_N (xorb x0 y0 :: postB xs ys (snd r))
  = (to_N (x0 :: xs) + to_N (y0 :: ys)) mod 2 ^ N.of_nat n.
Proof.
  intros Hy n r0 r.
  set (xb := x0 :: xs) in *. set (yb := y0 :: ys) in *.
  set (xf := fun i => nb i xb). set (yf := fun i => nb i yb).
  assert (Hn : n = S (length xs)) by reflexivity.
  assert (Lxb : length xb = n) by reflexivity.
  assert (Lyb : length yb = n) by (unfold yb, n; cbn; lia).
  destruct (preB_spec xb yb) as (L1 & L2 & N0); [lia|]. fold r0 in L1, L2, N0.
  assert (I0 : ksinv (gen_of xf yf) (prop_of xf yf) 1 n (fst r0) (snd r0)).
  { apply ksinv_init; [lia..|]. intros i _. destruct (N0 i) as [-> ->]. auto. }
  apply (stages_inv _ _ n (ceil_log2 n)) in I0; [|lia]. fold r in I0.
  assert (HG : forall i, (i < n)%nat -> nb i (snd r) = carry (gen_of xf yf) (prop_of xf yf) (S i)).
  { eapply ksinv_full; [|exact I0]. pose proof (ceil_log2_bound n). lia. }
  destruct I0 as (_ & LG & _).
  destruct (postB_spec xs ys (snd r)) as (LP & NP); [lia..|].
  set (zb := xorb x0 y0 :: postB xs ys (snd r)).
  assert (Lzb : length zb = n) by (unfold zb; cbn [length]; lia).
  assert (Hz : forall i, (i < n)%nat -> nb i zb = sumbit xf yf i).
  { intros [|i] Hi.
    - unfold zb, sumbit. rewrite carry_0, xorb_false_r. reflexivity.
    - unfold zb. cbn [nth]. rewrite NP by (unfold n in Hi; lia).
      rewrite HG by lia. reflexivity. }
  pose proof (ripple xf yf n) as R.
  rewrite (to_N_valf xb), (to_N_valf yb), Lxb, Lyb. fold xf yf.
  pose proof (to_N_lt zb) as B. rewrite Lzb in B.
  rewrite (to_N_valf zb), Lzb in *.
  rewrite (valf_ext _ _ _ Hz) in *.
  apply N.mod_unique with (q := N.b2n (carry (gen_of xf yf) (prop_of xf yf) n)); [exact B|].
  lia.
Qed.

(* ====================================================================== *)
(* the builders                                                           *)
(* ====================================================================== *)

(* new contents of the destination vector after the post-processing loop
   (which stops at the shortest of its four arguments) *)
Fixpoint postB4 (x y g z : list bool) : list bool :=
  match x, y, g, z with
  | a :: x', b :: y', c :: g', _ :: z' => xorb (xorb a b) c :: postB4 x' y' g' z'
  | _, _, _, _ => z
  end.

Lemma okm_ks_post4 t : forall x y g z,
  okm t (ks_post x y g z)
      (fun _ e => map e z = postB4 (map e x) (map e y) (map e g) (map e z)).
Proof.
  induction x as [|xi x IH]; intros y g z.
  - cbn. apply okm_ret. auto.
  - destruct y as [|yi y]; [cbn; apply okm_ret; auto|].
    destruct g as [|gi g]; [cbn; apply okm_ret; auto|].
    destruct z as [|zi z]; [cbn; apply okm_ret; auto|].
    cbn [ks_post]. mstep okm_fresh. mstep okm_emit. mstep okm_emit.
    eapply okm_weaken; [apply IH|].
    cbn. intros _ e H E2 E1 _. rewrite <- H, E2, E1. auto.
Qed.

Lemma postB4_firstn : forall x y g z,
  length y = length x -> (length x <= length g)%nat -> (length x <= length z)%nat ->
  firstn (length x) (postB4 x y g z) = postB x y g.
Proof.
  induction x as [|a x IH]; intros y g z Hy Hg Hz; [reflexivity|].
  destruct y as [|b y]; [discriminate|].
  destruct g as [|c g]; [cbn in Hg; lia|].
  destruct z as [|d z]; [cbn in Hz; lia|].
  cbn [postB4 postB length firstn]. rewrite IH by (cbn in *; lia). reflexivity.
Qed.

Lemma stagesB_length : forall k d p g, length g = length p ->
  length (fst (stagesB k d p g)) = length p /\ length (snd (stagesB k d p g)) = length p.
Proof.
  induction k as [|k IH]; intros d p g H; cbn [stagesB]; [cbn; auto|].
  destruct (stageB_spec d p g H) as (L1 & L2 & _).
  destruct (IH (2 * d)%nat (fst (stageB d p g)) (snd (stageB d p g))) as [A B]; lia.
Qed.

(* NewKoggeStoneAdder after padding / truncating both operands to n wires *)
Definition ks_core (n : nat) (x y z : list wire) : M (list wire) :=
  bind (ks_pre (firstn n x) (firstn n y)) (fun pg =>
  match pg with (p, g) =>
  bind (ks_stages (ceil_log2 n) 1 p g) (fun pg' =>
  match pg' with (_, g) =>
  bind (match x, y, z with
        | x0 :: x', y0 :: y', z0 :: z' =>
            bind (emit XOR x0 y0 z0) (fun _ => ks_post (firstn (n - 1) x') y' g z')
        | _, _, _ => ret tt
        end) (fun _ => zero_tail z n)
  end)
  end).

Lemma ks_adder_unfold x y z :
  ks_adder x y z =
  (let n := Nat.max (length x) (length y) in
   let n := if Nat.ltb n (length z) then S n else n in
   bind (pad x n) (fun x => bind (pad y n) (fun y =>
     let trunc := Nat.ltb (length z) (length x) in
     ks_core (if trunc then length z else n)
             (if trunc then firstn (length z) x else x)
             (if trunc then firstn (length z) y else y) z))).
Proof. reflexivity. Qed.

Lemma okm_ks_out t x0 y0 z0 xs ys g zs :
  okm t (bind (emit XOR x0 y0 z0) (fun _ => ks_post xs ys g zs))
      (fun _ e => map e (z0 :: zs) =
                  xorb (e x0) (e y0) :: postB4 (map e xs) (map e ys) (map e g) (map e zs)).
Proof.
  mstep okm_emit. eapply okm_weaken; [apply okm_ks_post4|].
  cbn. intros _ e H E. rewrite <- H, E. reflexivity.
Qed.

Lemma okm_ks_core t n x y z :
  length x = n -> length y = n -> (1 <= n)%nat -> (n <= length z)%nat ->
  okm t (ks_core n x y z)
      (fun z' e => length z' = length z /\
                   valN e z' = (valN e x + valN e y) mod 2 ^ N.of_nat n).
Proof.
  intros Lx Ly Hn Hz. unfold ks_core. rewrite !(firstn_all2 (n := n)) by lia.
  destruct x as [|x0 xs]; [cbn in *; lia|].
  destruct y as [|y0 ys]; [cbn in *; lia|].
  destruct z as [|z0 zs]; [cbn in *; lia|].
  rewrite (firstn_all2 (n := (n - 1)%nat)) by (cbn in *; lia).
  eapply okm_bind; [apply okm_ks_pre|]. intros [p g].
  eapply okm_bind; [apply okm_ks_stages|]. intros [p' g'].
  eapply okm_bind; [apply okm_ks_out|]. intros ?. cbv beta.
  eapply okm_weaken; [apply okm_of_okp, okp_zero_tail|].
  intros z' e [H Hzero] Hout [_ Hs] [Hp1 Hp2]. cbn [fst snd] in *.
  pose proof (zero_tail_len _ _ _ H) as Hlen. split; [exact Hlen|].
  destruct H as (zw & ->).
  rewrite Hp1, Hp2 in Hs. clear Hp1 Hp2.
  assert (Lxs : length xs = (n - 1)%nat) by (cbn in *; lia).
  assert (Lys : length ys = length xs) by (cbn in *; lia).
  (* the tail is zero *)
  rewrite valN_app, (valN_all_zero e (repeat zw _)).
  2:{ intros w Hin.
      destruct (length (z0 :: zs) - n)%nat eqn:EK; [destruct Hin|].
      apply repeat_spec in Hin. subst w.
      apply Hzero; [|lia]. rewrite skipn_app, firstn_length.
      replace (n - Nat.min n (length (z0 :: zs)))%nat with 0%nat by lia.
      rewrite skipn_all2 by (rewrite firstn_length; lia). cbn. auto. }
  rewrite N.mul_0_r, N.add_0_r.
  unfold valN at 1. rewrite <- firstn_map, Hout.
  replace n with (S (length xs)) at 1 by lia. cbn [firstn].
  set (r := stagesB (ceil_log2 n) 1 (fst (preB (map e (x0 :: xs)) (map e (y0 :: ys))))
                    (snd (preB (map e (x0 :: xs)) (map e (y0 :: ys))))) in *.
  assert (Lg : length (map e g') = n).
  { rewrite Hs. unfold r.
    destruct (preB_spec (map e (x0 :: xs)) (map e (y0 :: ys))) as (L1 & L2 & _).
    { rewrite !map_length. cbn in *; lia. }
    destruct (stagesB_length (ceil_log2 n) 1 _ _ (eq_trans L2 (eq_sym L1))) as [_ B].
    rewrite B, L1, map_length. exact Lx. }
  rewrite <- (map_length e xs).
  rewrite postB4_firstn by (rewrite ?map_length in *; cbn in *; lia).
  rewrite Hs.
  pose proof (ks_pure (e x0) (map e xs) (e y0) (map e ys)) as KP.
  rewrite !map_length in KP. specialize (KP Lys). cbv zeta in KP.
  replace (S (length xs)) with n in KP by lia.
  exact KP.
Qed.

Lemma valN_pow_le e ws k : (length ws <= k)%nat -> valN e ws < 2 ^ N.of_nat k.
Proof.
  intros H. eapply N.lt_le_trans; [apply valN_lt|]. apply N.pow_le_mono_r; lia.
Qed.

(* NewKoggeStoneAdder: z = (x + y) mod 2^len(z) for every len(x), len(y), len(z) >= 1 *)
Theorem okm_ks_adder : forall t x y z,
  (1 <= length z)%nat -> (1 <= Nat.max (length x) (length y))%nat ->
  okm t (ks_adder x y z)
      (fun z' e => length z' = length z /\
                   valN e z' = (valN e x + valN e y) mod 2 ^ N.of_nat (length z)).
Proof.
  intros t x y z Hz Hm. rewrite ks_adder_unfold.
  set (m := Nat.max (length x) (length y)) in *. cbv zeta.
  set (n1 := if Nat.ltb m (length z) then S m else m).
  assert (Hn1 : (m < length z /\ n1 = S m)%nat \/ (length z <= m /\ n1 = m)%nat).
  { unfold n1. destruct (Nat.ltb_spec m (length z)); lia. }
  pstep okp_pad. rename a into x1, H into Sx.
  pstep okp_pad. rename a into y1, H into Sy.
  pose proof (pad_shape_len _ _ _ Sx) as Lx. pose proof (pad_shape_len _ _ _ Sy) as Ly.
  assert (Lx1 : length x1 = n1) by lia. assert (Ly1 : length y1 = n1) by lia.
  assert (NZ : 2 ^ N.of_nat (length z) <> 0) by (apply N.pow_nonzero; discriminate).
  destruct (Nat.ltb_spec (length z) (length x1)) as [ET|ET].
  - (* operands wider than the result: truncated *)
    eapply okm_weaken; [apply okm_ks_core; rewrite ?firstn_length; lia|].
    cbv beta. intros z' e [L V] Zy Zx. split; [exact L|].
    rewrite V, !valN_firstn, (pad_val e x1 x _ Sx Zx), (pad_val e y1 y _ Sy Zy).
    rewrite <- N.add_mod by exact NZ. reflexivity.
  - eapply okm_weaken; [apply okm_ks_core; lia|].
    cbv beta. intros z' e [L V] Zy Zx. split; [exact L|].
    rewrite V, (pad_val e x1 x _ Sx Zx), (pad_val e y1 y _ Sy Zy).
    pose proof (valN_pow_le e x m ltac:(lia)) as Bx.
    pose proof (valN_pow_le e y m ltac:(lia)) as By.
    destruct Hn1 as [[H1 H2]|[H1 H2]].
    + (* room for the carry *)
      rewrite H2, pow2_S.
      assert (Bz : 2 * 2 ^ N.of_nat m <= 2 ^ N.of_nat (length z)).
      { rewrite <- pow2_S. apply N.pow_le_mono_r; lia. }
      rewrite !N.mod_small by lia. reflexivity.
    + replace (length z) with n1 by lia. reflexivity.
Qed.

(* ====================================================================== *)
(* NewKoggeStoneSubtractor: x + not y + 1                                 *)
(* ====================================================================== *)

(* (a) pure mirrors *)
Fixpoint kstagesB (fuel step n : nat) (p g : list bool) : list bool * list bool :=
  match fuel with
  | O => (p, g)
  | S f =>
      if Nat.ltb step n
      then let r := stageB step p g in kstagesB f (2 * step) n (fst r) (snd r)
      else (p, g)
  end.

Fixpoint kpostB3 (p g z : list bool) : list bool :=
  match p, g, z with
  | a :: p', c :: g', _ :: z' => xorb a c :: kpostB3 p' g' z'
  | _, _, _ => z
  end.

Fixpoint kpostB (p g : list bool) : list bool :=
  match p, g with
  | a :: p', c :: g' => xorb a c :: kpostB p' g'
  | _, _ => []
  end.

Ltac ostep L := eapply okp_bind; [ apply okp_of_okm, L | intros ? _; cbv beta ].

Lemma okp_kss_pre t : forall x y,
  okp t (kss_pre x y)
      (fun r => length (fst r) = Nat.min (length x) (length y) /\
                length (snd r) = Nat.min (length x) (length y))
      (fun r e => map e (fst r) = fst (preB (map e x) (map negb (map e y))) /\
                  map e (snd r) = snd (preB (map e x) (map negb (map e y)))).
Proof.
  induction x as [|xi x IH]; intros y.
  - cbn. apply okp_ret; auto.
  - destruct y as [|yi y]; [cbn; apply okp_ret; auto|].
    cbn [kss_pre]. ostep okm_fresh. ostep okm_cc_inv. ostep okm_fresh. ostep okm_emit.
    ostep okm_fresh. ostep okm_emit.
    eapply okp_bind; [apply IH|]. intros [ps gs] [L1 L2]. apply okp_ret.
    + cbn in *. lia.
    + cbn. intros e [H1 H2] E3 _ E2 _ E1 _. rewrite H1, H2, E3, E2, E1. auto.
Qed.

Lemma okm_kss_cells t : forall pi gi pj gj,
  okm t (kss_cells pi gi pj gj)
      (fun r e =>
         map e (fst r) = fst (cellsB (map e pi) (map e gi) (map e pj) (map e gj)) /\
         map e (snd r) = snd (cellsB (map e pi) (map e gi) (map e pj) (map e gj))).
Proof.
  induction pi as [|p pi IH]; intros gi pj gj.
  - cbn. apply okm_ret. auto.
  - destruct gi as [|g gi]; [cbn; apply okm_ret; auto|].
    destruct pj as [|pl pj]; [cbn; apply okm_ret; auto|].
    destruct gj as [|gl gj]; [cbn; apply okm_ret; auto|].
    cbn [kss_cells]. mstep okm_fresh. mstep okm_emit. mstep okm_fresh. mstep okm_emit.
    mstep okm_fresh. mstep okm_emit.
    eapply okm_bind; [apply IH|]. intros [ps gs]. apply okm_ret.
    cbn. intros e [H1 H2] E3 _ E2 _ E1 _. rewrite H1, H2, E3, E2, E1. auto.
Qed.

Lemma okm_kss_stages t : forall fuel step n p g,
  okm t (kss_stages fuel step n p g)
      (fun r e => map e (fst r) = fst (kstagesB fuel step n (map e p) (map e g)) /\
                  map e (snd r) = snd (kstagesB fuel step n (map e p) (map e g))).
Proof.
  induction fuel as [|f IH]; intros step n p g.
  - cbn. apply okm_ret. auto.
  - cbn [kss_stages kstagesB]. destruct (Nat.ltb step n).
    + eapply okm_bind; [apply okm_kss_cells|]. intros [ps gs].
      eapply okm_weaken; [apply IH|]. cbn [fst snd]. intros r e [H1 H2] [E1 E2].
      rewrite H1, H2. unfold stageB. cbn [fst snd].
      rewrite !map_app, E1, E2, <- !firstn_map, <- !skipn_map. auto.
    + apply okm_ret. auto.
Qed.

Lemma okm_kss_post3 t : forall p g z,
  okm t (kss_post p g z) (fun _ e => map e z = kpostB3 (map e p) (map e g) (map e z)).
Proof.
  induction p as [|pi p IH]; intros g z.
  - cbn. apply okm_ret. auto.
  - destruct g as [|gi g]; [cbn; apply okm_ret; auto|].
    destruct z as [|zi z]; [cbn; apply okm_ret; auto|].
    cbn [kss_post]. mstep okm_emit.
    eapply okm_weaken; [apply IH|].
    cbn. intros _ e H E. rewrite <- H, E. auto.
Qed.

Lemma kpostB3_firstn : forall p g z,
  (length p <= length g)%nat -> (length p <= length z)%nat ->
  firstn (length p) (kpostB3 p g z) = kpostB p g.
Proof.
  induction p as [|a p IH]; intros g z Hg Hz; [reflexivity|].
  destruct g as [|c g]; [cbn in Hg; lia|].
  destruct z as [|d z]; [cbn in Hz; lia|].
  cbn [kpostB3 kpostB length firstn]. rewrite IH by (cbn in *; lia). reflexivity.
Qed.

Lemma kpostB_spec : forall p g, (length p <= length g)%nat ->
  length (kpostB p g) = length p /\
  forall i, (i < length p)%nat -> nb i (kpostB p g) = xorb (nb i p) (nb i g).
Proof.
  induction p as [|a p IH]; intros g Hg.
  - cbn. split; [reflexivity|]. intros; lia.
  - destruct g as [|c g]; [cbn in Hg; lia|].
    cbn [kpostB length]. destruct (IH g) as (L & N); [cbn in *; lia|].
    split; [lia|]. intros [|i] Hi; cbn [nth]; [reflexivity|]. apply N. lia.
Qed.

(* (b) pure correctness *)
Lemma kstages_inv gf pf n : forall fuel d m p g,
  (1 <= d)%nat -> ksinv gf pf d n p g -> (m <= d + fuel)%nat ->
  exists d', (m <= d')%nat /\
    ksinv gf pf d' n (fst (kstagesB fuel d m p g)) (snd (kstagesB fuel d m p g)).
Proof.
  induction fuel as [|f IH]; intros d m p g Hd I Hm.
  - exists d. cbn. split; [lia|exact I].
  - cbn [kstagesB]. destruct (Nat.ltb_spec d m).
    + apply IH; [lia| |lia]. apply stage_inv; auto.
    + exists d. cbn. split; [lia|exact I].
Qed.

Lemma kstagesB_length : forall fuel d m p g, length g = length p ->
  length (fst (kstagesB fuel d m p g)) = length p /\
  length (snd (kstagesB fuel d m p g)) = length p.
Proof.
  induction fuel as [|f IH]; intros d m p g H; cbn [kstagesB]; [cbn; auto|].
  destruct (Nat.ltb d m); [|cbn; auto].
  destruct (stageB_spec d p g H) as (L1 & L2 & _).
  destruct (IH (2 * d)%nat m (fst (stageB d p g)) (snd (stageB d p g))) as [A B]; lia.
Qed.

(* carry-in 1 folded into the generate signal of position 0 *)
Definition gen_cin (gf pf : nat -> bool) (i : nat) : bool :=
  match i with O => xorb (gf 0%nat) (pf 0%nat) | S _ => gf i end.

Fixpoint carry1 (gf pf : nat -> bool) (i : nat) : bool :=
  match i with
  | O => true
  | S k => xorb (gf k) (pf k && carry1 gf pf k)
  end.

Lemma carry_cin gf pf i : carry (gen_cin gf pf) pf (S i) = carry1 gf pf (S i).
Proof.
  induction i.
  - rewrite carry_S, carry_0. cbn. destruct (gf 0%nat), (pf 0%nat); reflexivity.
  - rewrite carry_S, IHi. reflexivity.
Qed.

Definition sumbit1 (xf yf : nat -> bool) (i : nat) : bool :=
  xorb (prop_of xf yf i) (carry1 (gen_of xf yf) (prop_of xf yf) i).

Lemma sumbit1_arith xf yf k :
  N.b2n (sumbit1 xf yf k) + 2 * N.b2n (carry1 (gen_of xf yf) (prop_of xf yf) (S k))
  = N.b2n (xf k) + N.b2n (yf k) + N.b2n (carry1 (gen_of xf yf) (prop_of xf yf) k).
Proof.
  cbn [carry1]. unfold sumbit1.
  generalize (carry1 (gen_of xf yf) (prop_of xf yf) k) as c. intros c.
  unfold gen_of, prop_of. destruct (xf k), (yf k), c; reflexivity.
Qed.

Lemma ripple1 xf yf k :
  valf (sumbit1 xf yf) k + 2 ^ N.of_nat k * N.b2n (carry1 (gen_of xf yf) (prop_of xf yf) k)
  = valf xf k + valf yf k + 1.
Proof.
  induction k.
  - cbn. reflexivity.
  - cbn [valf]. rewrite pow2_S. pose proof (sumbit1_arith xf yf k) as A.
    assert (E : 2 ^ N.of_nat k *
                (N.b2n (sumbit1 xf yf k) + 2 * N.b2n (carry1 (gen_of xf yf) (prop_of xf yf) (S k)))
                = 2 ^ N.of_nat k *
                  (N.b2n (xf k) + N.b2n (yf k) + N.b2n (carry1 (gen_of xf yf) (prop_of xf yf) k)))
      by (rewrite A; reflexivity).
    lia.
Qed.

(* the subtractor network on bit lists computes x + w + 1 (w = not y) *)
Theorem kss_pure x0 xs w0 ws :
  length ws = length xs ->
  let n := S (length xs) in
  let r0 := preB (x0 :: xs) (w0 :: ws) in
  let g1 := xorb (nb 0 (snd r0)) (nb 0 (fst r0)) :: tl (snd r0) in
  let r := kstagesB n 1 n (fst r0) g1 in
  to_N (negb (nb 0 (fst r0)) :: kpostB (tl (fst r0)) (snd r))
  = (to_N (x0 :: xs) + to_N (w0 :: ws) + 1) mod 2 ^ N.of_nat n.
Proof.
  intros Hy n r0 g1 r.
  set (xb := x0 :: xs) in *. set (wb := w0 :: ws) in *.
  set (xf := fun i => nb i xb). set (wf := fun i => nb i wb).
  assert (Hn : n = S (length xs)) by reflexivity.
  assert (Lxb : length xb = n) by reflexivity.
  assert (Lwb : length wb = n) by (unfold wb; cbn [length]; lia).
  destruct (preB_spec xb wb) as (L1 & L2 & N0); [lia|]. fold r0 in L1, L2, N0.
  assert (Lg1 : length g1 = n).
  { unfold g1. destruct (snd r0); cbn [length tl] in *; lia. }
  assert (I0 : ksinv (gen_cin (gen_of xf wf) (prop_of xf wf)) (prop_of xf wf) 1 n (fst r0) g1).
  { apply ksinv_init; [lia..|]. intros i _. split; [apply N0|].
    unfold g1. destruct i as [|i].
    - cbn [nth gen_cin]. destruct (N0 0%nat) as [-> ->]. reflexivity.
    - destruct (N0 (S i)) as [_ E].
      change (gen_cin (gen_of xf wf) (prop_of xf wf) (S i)) with (nb (S i) xb && nb (S i) wb).
      rewrite <- E. destruct (snd r0); [cbn in L2; lia|]. reflexivity. }
  destruct (kstages_inv _ _ n n 1 n _ _ (le_n 1) I0 ltac:(lia)) as (d' & Hd' & I1).
  fold r in I1.
  assert (HG : forall i, (i < n)%nat ->
             nb i (snd r) = carry1 (gen_of xf wf) (prop_of xf wf) (S i)).
  { intros i Hi. rewrite <- carry_cin. eapply ksinv_full; [|exact I1|exact Hi]. exact Hd'. }
  destruct I1 as (_ & LG & _).
  assert (Lt : length (tl (fst r0)) = length xs).
  { destruct (fst r0); cbn [length tl] in *; lia. }
  destruct (kpostB_spec (tl (fst r0)) (snd r)) as (LP & NP); [lia|].
  set (zb := negb (nb 0 (fst r0)) :: kpostB (tl (fst r0)) (snd r)).
  assert (Lzb : length zb = n) by (unfold zb; cbn [length]; lia).
  assert (Hz : forall i, (i < n)%nat -> nb i zb = sumbit1 xf wf i).
  { intros [|i] Hi.
    - unfold zb, sumbit1. cbn [nth carry1]. destruct (N0 0%nat) as [-> _].
      unfold prop_of, xf, wf. destruct (nb 0 xb), (nb 0 wb); reflexivity.
    - unfold zb. cbn [nth]. rewrite NP by lia. rewrite HG by lia.
      unfold sumbit1. f_equal. destruct (N0 (S i)) as [E _].
      change (prop_of xf wf (S i)) with (xorb (nb (S i) xb) (nb (S i) wb)).
      rewrite <- E. destruct (fst r0); [cbn in L1; lia|]. reflexivity. }
  pose proof (ripple1 xf wf n) as R.
  rewrite (to_N_valf xb), (to_N_valf wb), Lxb, Lwb. fold xf wf.
  pose proof (to_N_lt zb) as B. rewrite Lzb in B.
  rewrite (to_N_valf zb), Lzb in *.
  rewrite (valf_ext _ _ _ Hz) in *.
  apply N.mod_unique with (q := N.b2n (carry1 (gen_of xf wf) (prop_of xf wf) n)); [exact B|].
  lia.
Qed.

Lemma to_N_negb l : to_N (map negb l) + to_N l + 1 = 2 ^ N.of_nat (length l).
Proof.
  induction l as [|b l IH]; [reflexivity|].
  cbn [map to_N length]. rewrite pow2_S. destruct b; cbn [negb N.b2n]; lia.
Qed.

(* NewKoggeStoneSubtractor after padding / truncating both operands to n wires *)
Definition kss_core (n : nat) (x y z : list wire) : M (list wire) :=
  bind (kss_pre (firstn n x) (firstn n y)) (fun pg =>
  match pg with (pinit, g) =>
  bind fresh (fun w =>
  bind (emit XOR (nth 0%nat g 0) (nth 0%nat pinit 0) w) (fun _ =>
  bind (kss_stages n 1 n pinit (w :: tl g)) (fun pg' =>
  match pg' with (_, g) =>
  bind (match pinit, z with
        | p0 :: p', z0 :: z' => bind (cc_inv p0 z0) (fun _ => kss_post p' g z')
        | _, _ => ret tt
        end) (fun _ => zero_tail z n)
  end)))
  end).

Lemma ks_subtractor_unfold x y z :
  ks_subtractor x y z =
  (let n := Nat.max (length x) (length y) in
   let n := if Nat.ltb n (length z) then S n else n in
   bind (pad x n) (fun x => bind (pad y n) (fun y =>
     let trunc := Nat.ltb (length z) (length x) in
     kss_core (if trunc then length z else n)
              (if trunc then firstn (length z) x else x)
              (if trunc then firstn (length z) y else y) z))).
Proof. reflexivity. Qed.

Lemma okm_kss_out t p0 z0 ps g zs :
  okm t (bind (cc_inv p0 z0) (fun _ => kss_post ps g zs))
      (fun _ e => map e (z0 :: zs) =
                  negb (e p0) :: kpostB3 (map e ps) (map e g) (map e zs)).
Proof.
  mstep okm_cc_inv. eapply okm_weaken; [apply okm_kss_post3|].
  cbn. intros _ e H E. rewrite <- H, E. reflexivity.
Qed.

Lemma okm_kss_core t n x y z :
  length x = n -> length y = n -> (1 <= n)%nat -> (n <= length z)%nat ->
  okm t (kss_core n x y z)
      (fun z' e => length z' = length z /\
                   valN e z' = (valN e x + (2 ^ N.of_nat n - 1 - valN e y) + 1)
                               mod 2 ^ N.of_nat n).
Proof.
  intros Lx Ly Hn Hz. unfold kss_core. rewrite !(firstn_all2 (n := n)) by lia.
  destruct x as [|x0 xs]; [cbn in *; lia|].
  destruct y as [|y0 ys]; [cbn in *; lia|].
  destruct z as [|z0 zs]; [cbn in *; lia|].
  pstep okp_kss_pre. destruct a as [pinit g]. destruct H as [Lp Lg]. cbn [fst snd] in *.
  destruct pinit as [|p0 ps]; [cbn in *; lia|].
  destruct g as [|g0 gs]; [cbn in *; lia|].
  cbn [nth tl].
  mstep okm_fresh. mstep okm_emit.
  eapply okm_bind; [apply okm_kss_stages|]. intros [p' g'].
  eapply okm_bind; [apply okm_kss_out|]. intros ?. cbv beta.
  eapply okm_weaken; [apply okm_of_okp, okp_zero_tail|].
  intros z' e [H Hzero] Hout [_ Hs] Ew _ [Hp1 Hp2]. cbn [fst snd gsem] in *.
  pose proof (zero_tail_len _ _ _ H) as Hlen. split; [exact Hlen|].
  destruct H as (zw & ->).
  assert (Lxs : length xs = (n - 1)%nat) by (cbn in *; lia).
  assert (Lys : length ys = length xs) by (cbn in *; lia).
  assert (Lps : length ps = length xs) by (cbn in *; lia).
  assert (Lgs : length gs = length xs) by (cbn in *; lia).
  (* the tail is zero *)
  rewrite valN_app, (valN_all_zero e (repeat zw _)).
  2:{ intros w Hin.
      destruct (length (z0 :: zs) - n)%nat eqn:EK; [destruct Hin|].
      apply repeat_spec in Hin. subst w.
      apply Hzero; [|lia]. rewrite skipn_app, firstn_length.
      replace (n - Nat.min n (length (z0 :: zs)))%nat with 0%nat by lia.
      rewrite skipn_all2 by (rewrite firstn_length; lia). cbn. auto. }
  rewrite N.mul_0_r, N.add_0_r.
  cbn [map] in Hp1, Hp2, Hs. rewrite Ew in Hs.
  pose proof (kss_pure (e x0) (map e xs) (negb (e y0)) (map negb (map e ys))) as KP.
  rewrite !map_length in KP. specialize (KP Lys). cbv zeta in KP.
  rewrite <- Hp1, <- Hp2 in KP. cbn [nth tl] in KP.
  replace (S (length xs)) with n in KP by lia. rewrite <- Hs in KP.
  assert (Lg' : length (map e g') = n).
  { rewrite Hs.
    destruct (kstagesB_length n 1 n (e p0 :: map e ps) (xorb (e g0) (e p0) :: map e gs)) as [_ B].
    { cbn [length]. rewrite !map_length. lia. }
    rewrite B. cbn [length]. rewrite map_length. lia. }
  unfold valN at 1. rewrite <- firstn_map, Hout.
  replace n with (S (length (map e ps))) at 1 by (rewrite map_length; lia). cbn [firstn].
  rewrite kpostB3_firstn by (rewrite ?map_length in *; cbn in *; lia).
  rewrite KP.
  pose proof (to_N_negb (map e (y0 :: ys))) as NB. rewrite map_length in NB.
  cbn [length] in NB. replace (S (length ys)) with n in NB by lia.
  change (negb (e y0) :: map negb (map e ys)) with (map negb (map e (y0 :: ys))).
  change (e x0 :: map e xs) with (map e (x0 :: xs)).
  unfold valN. f_equal. lia.
Qed.

(* NewKoggeStoneSubtractor: with n = min (max (len x, len y) + 1, len z) the result is
   x + not y + 1 over n bits (zero-extended to len z) *)
Theorem okm_ks_subtractor : forall t x y z,
  (1 <= length z)%nat -> (1 <= Nat.max (length x) (length y))%nat ->
  okm t (ks_subtractor x y z)
      (fun z' e => length z' = length z /\
         let n := Nat.min (S (Nat.max (length x) (length y))) (length z) in
         valN e z' = (valN e x mod 2 ^ N.of_nat n
                      + (2 ^ N.of_nat n - 1 - valN e y mod 2 ^ N.of_nat n) + 1)
                     mod 2 ^ N.of_nat n).
Proof.
  intros t x y z Hz Hm. rewrite ks_subtractor_unfold.
  set (m := Nat.max (length x) (length y)) in *. cbv zeta.
  set (n1 := if Nat.ltb m (length z) then S m else m).
  assert (Hn1 : (m < length z /\ n1 = S m)%nat \/ (length z <= m /\ n1 = m)%nat).
  { unfold n1. destruct (Nat.ltb_spec m (length z)); lia. }
  pstep okp_pad. rename a into x1, H into Sx.
  pstep okp_pad. rename a into y1, H into Sy.
  pose proof (pad_shape_len _ _ _ Sx) as Lx. pose proof (pad_shape_len _ _ _ Sy) as Ly.
  assert (Lx1 : length x1 = n1) by lia. assert (Ly1 : length y1 = n1) by lia.
  destruct (Nat.ltb_spec (length z) (length x1)) as [ET|ET].
  - (* operands wider than the result: truncated *)
    eapply okm_weaken; [apply okm_kss_core; rewrite ?firstn_length; lia|].
    cbv beta. intros z' e [L V] Zy Zx. split; [exact L|].
    replace (Nat.min (S m) (length z)) with (length z) by lia.
    rewrite V, !valN_firstn, (pad_val e x1 x _ Sx Zx), (pad_val e y1 y _ Sy Zy).
    reflexivity.
  - eapply okm_weaken; [apply okm_kss_core; lia|].
    cbv beta. intros z' e [L V] Zy Zx. split; [exact L|].
    replace (Nat.min (S m) (length z)) with n1 by lia.
    rewrite V, (pad_val e x1 x _ Sx Zx), (pad_val e y1 y _ Sy Zy).
    pose proof (valN_pow_le e x n1 ltac:(lia)) as Bx.
    pose proof (valN_pow_le e y n1 ltac:(lia)) as By.
    rewrite !(N.mod_small (valN e _)) by assumption. reflexivity.
Qed.

(* ---------- consequences for the subtractor ---------- *)
Lemma sub_mod_char P x y : P <> 0 ->
  ((x mod P + (P - 1 - y mod P) + 1) mod P + y) mod P = x mod P.
Proof.
  intros H. rewrite N.add_mod_idemp_l by auto. rewrite <- N.add_mod_idemp_r by auto.
  pose proof (N.mod_lt y P H).
  replace (x mod P + (P - 1 - y mod P) + 1 + y mod P) with (x mod P + 1 * P) by lia.
  rewrite N.mod_add by auto. apply N.mod_mod; auto.
Qed.

Lemma sub_mod_noborrow P x y : P <> 0 -> y <= x ->
  (x mod P + (P - 1 - y mod P) + 1) mod P = (x - y) mod P.
Proof.
  intros H Hxy. pose proof (N.mod_lt y P H). pose proof (N.div_mod' y P) as D.
  rewrite <- N.add_assoc, N.add_mod_idemp_l by auto.
  replace (x + (P - 1 - y mod P + 1)) with ((x - y) + (y / P + 1) * P) by lia.
  apply N.mod_add; auto.
Qed.

(* z + y = x modulo 2^n *)
Corollary okm_ks_subtractor_mod t x y z :
  (1 <= length z)%nat -> (1 <= Nat.max (length x) (length y))%nat ->
  okm t (ks_subtractor x y z)
      (fun z' e => length z' = length z /\
         let n := Nat.min (S (Nat.max (length x) (length y))) (length z) in
         valN e z' < 2 ^ N.of_nat n /\
         (valN e z' + valN e y) mod 2 ^ N.of_nat n = valN e x mod 2 ^ N.of_nat n).
Proof.
  intros Hz Hm. eapply okm_weaken; [apply okm_ks_subtractor; assumption|].
  cbv beta zeta. intros z' e [L V]. split; [exact L|].
  assert (NZ : 2 ^ N.of_nat (Nat.min (S (Nat.max (length x) (length y))) (length z)) <> 0)
    by (apply N.pow_nonzero; discriminate).
  rewrite V. split; [apply N.mod_lt; exact NZ|]. apply sub_mod_char; exact NZ.
Qed.

(* no borrow: z = x - y *)
Corollary okm_ks_subtractor_noborrow t x y z :
  (1 <= length z)%nat -> (1 <= Nat.max (length x) (length y))%nat ->
  okm t (ks_subtractor x y z)
      (fun z' e => length z' = length z /\
         (valN e y <= valN e x ->
          valN e z' = (valN e x - valN e y) mod 2 ^ N.of_nat (length z))).
Proof.
  intros Hz Hm. eapply okm_weaken; [apply okm_ks_subtractor; assumption|].
  cbv beta zeta. intros z' e [L V]. split; [exact L|]. intros Hxy.
  set (m := Nat.max (length x) (length y)) in *.
  assert (NZ : 2 ^ N.of_nat (Nat.min (S m) (length z)) <> 0)
    by (apply N.pow_nonzero; discriminate).
  rewrite V, sub_mod_noborrow by assumption.
  destruct (Nat.le_gt_cases (length z) (S m)) as [C|C].
  - replace (Nat.min (S m) (length z)) with (length z) by lia. reflexivity.
  - replace (Nat.min (S m) (length z)) with (S m) by lia.
    pose proof (valN_pow_le e x (S m) ltac:(lia)) as Bx.
    assert (Bz : 2 ^ N.of_nat (S m) <= 2 ^ N.of_nat (length z)) by (apply N.pow_le_mono_r; lia).
    rewrite !N.mod_small by lia. reflexivity.
Qed.

(* ---------- NewAdder / NewSubtractor under the GMW target ---------- *)
Corollary okm_new_adder_gmw x y z :
  (1 <= length z)%nat -> (1 <= Nat.max (length x) (length y))%nat ->
  okm true (new_adder x y z)
      (fun z' e => length z' = length z /\
                   valN e z' = (valN e x + valN e y) mod 2 ^ N.of_nat (length z)).
Proof.
  intros Hz Hm s W G. unfold new_adder, bind, target_gmw. rewrite G.
  exact (okm_ks_adder true x y z Hz Hm s W G).
Qed.

Corollary okm_new_subtractor_gmw x y z :
  (1 <= length z)%nat -> (1 <= Nat.max (length x) (length y))%nat ->
  okm true (new_subtractor x y z)
      (fun z' e => length z' = length z /\
         let n := Nat.min (S (Nat.max (length x) (length y))) (length z) in
         valN e z' = (valN e x mod 2 ^ N.of_nat n
                      + (2 ^ N.of_nat n - 1 - valN e y mod 2 ^ N.of_nat n) + 1)
                     mod 2 ^ N.of_nat n).
Proof.
  intros Hz Hm s W G. unfold new_subtractor, bind, target_gmw. rewrite G.
  exact (okm_ks_subtractor true x y z Hz Hm s W G).
Qed.

(* ---------- why XOR may replace OR in the adder's black cells ---------- *)
Lemma gen_prop_excl xf yf i : gen_of xf yf i && prop_of xf yf i = false.
Proof. unfold gen_of, prop_of. destruct (xf i), (yf i); reflexivity. Qed.

(* every (G_i, P_i) pair of every stage is exclusive *)
Lemma ksinv_excl gf pf d n p g :
  (forall i, gf i && pf i = false) -> ksinv gf pf d n p g ->
  forall i, (i < n)%nat -> nb i g && nb i p = false.
Proof.
  intros H (_ & _ & I) i Hi.
  pose proof (grp_excl gf pf (S i - Nat.min (S i) d) (Nat.min (S i) d) H) as E.
  rewrite <- (I i Hi) in E. exact E.
Qed.

(* the group signals computed with the textbook OR operator are the same *)
Fixpoint grp_or (gf pf : nat -> bool) (lo len : nat) : bool * bool :=
  match len with
  | O => (false, true)
  | S k => gpop_or (gf (lo + k)%nat, pf (lo + k)%nat) (grp_or gf pf lo k)
  end.

Lemma grp_or_eq gf pf lo len :
  (forall i, gf i && pf i = false) -> grp_or gf pf lo len = grp gf pf lo len.
Proof.
  intros H. induction len; [reflexivity|]. cbn [grp_or grp]. rewrite IHlen.
  symmetry. apply gpop_or_eq. apply H.
Qed.
