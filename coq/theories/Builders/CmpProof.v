(* CmpProof.v — comparators of Cmp.v (circ_comparators.go), for every width and both targets. *)
From Coq Require Import NArith ZArith List Bool Arith Lia.
From Mpc Require Import Builders.Emit Builders.EmitProof Builders.Mux Builders.MuxProof Builders.Cmp.
Import ListNotations.
Open Scope N_scope.

(* ================= the comparison chain ================= *)
(* LSB first: every position where the operands differ overrides the running
   result, so the most significant differing bit decides *)
Fixpoint cmpb (c : bool) (x y : list bool) : bool :=
  match x, y with
  | xi :: x', yi :: y' => cmpb (if eqb xi yi then c else xi) x' y'
  | _, _ => c
  end.

(* w1 = XNOR cin y_i; w2 = XOR cin x_i; w3 = AND w1 w2; cout = XOR cin w3 *)
Lemma cmp_bit c xi yi :
  xorb c (negb (xorb c yi) && xorb c xi) = if eqb xi yi then c else xi.
Proof. destruct c, xi, yi; reflexivity. Qed.

Lemma cmpb_spec : forall x y c, length x = length y ->
  cmpb c x y = if to_N x =? to_N y then c else to_N y <? to_N x.
Proof.
  induction x as [|xi x IH]; intros [|yi y] c L; try discriminate.
  - reflexivity.
  - cbn [cmpb to_N]. rewrite IH by (cbn in L; lia).
    destruct (N.eqb_spec (to_N x) (to_N y)) as [E|E].
    + rewrite E. destruct xi, yi; cbn [eqb N.b2n];
        repeat match goal with
               | |- context [N.eqb ?a ?b] => destruct (N.eqb_spec a b)
               | |- context [N.ltb ?a ?b] => destruct (N.ltb_spec a b)
               end; try reflexivity; lia.
    + destruct xi, yi; cbn [eqb N.b2n];
        repeat match goal with
               | |- context [N.eqb ?a ?b] => destruct (N.eqb_spec a b)
               | |- context [N.ltb ?a ?b] => destruct (N.ltb_spec a b)
               end; try reflexivity; lia.
Qed.

Ltac mstepn L n := eapply okm_bind; [ apply L | intros n; cbv beta ].

(* bit-level specification of the chain; with [last = Some r0] and a nonempty
   operand the returned (last carry) wire is r0 *)
Lemma okm_cmp_loop_bits t : forall x y cin last, length x = length y ->
  okm t (cmp_loop cin x y last)
      (fun w e => e w = cmpb (e cin) (map e x) (map e y) /\
                  (forall r0, last = Some r0 -> x <> [] -> w = r0)).
Proof.
  induction x as [|xi x IH]; intros [|yi y] cin last L; try discriminate.
  - cbn. apply okm_ret. intros e. split; [reflexivity|]. intros r0 _ H. congruence.
  - cbn [cmp_loop].
    mstepn okm_fresh w1. mstepn okm_emit u1. mstepn okm_fresh w2. mstepn okm_emit u2.
    mstepn okm_fresh w3. mstepn okm_emit u3.
    assert (Gen : okm t (cout <- fresh;; emit XOR cin w3 cout;; cmp_loop cout x y last)
                    (fun w e => e w3 = gsem AND (e w1) (e w2) -> True ->
                                e w2 = gsem XOR (e cin) (e xi) -> True ->
                                e w1 = gsem XNOR (e cin) (e yi) -> True ->
                                e w = cmpb (e cin) (map e (xi :: x)) (map e (yi :: y)) /\
                                (forall r0, last = Some r0 -> x <> [] -> w = r0))).
    { mstepn okm_fresh cout. mstepn okm_emit u4.
      eapply okm_weaken; [apply IH; cbn in L; lia|].
      cbn. intros w e [H Hr] H4 _ H3 _ H2 _ H1 _. split; [|exact Hr].
      rewrite H, H4, H3, H2, H1. rewrite cmp_bit. reflexivity. }
    destruct x as [|xj x].
    + destruct last as [r0|].
      * destruct y; try discriminate.
        mstepn okm_emit u4. apply okm_ret. cbn. intros e H4 H3 _ H2 _ H1 _. split.
        -- rewrite H4, H3, H2, H1, cmp_bit. reflexivity.
        -- intros r1 Hr _. congruence.
      * eapply okm_weaken; [apply Gen|]. cbn. intros w e H H3 X2 H2 X1 H1 X0.
        destruct (H H3 X2 H2 X1 H1 X0) as [Ha _]. split; [exact Ha|]. intros; discriminate.
    + eapply okm_weaken; [apply Gen|]. cbn. intros w e H H3 X2 H2 X1 H1 X0.
      destruct (H H3 X2 H2 X1 H1 X0) as [Ha Hb]. split; [exact Ha|].
      intros r0 Hl _. apply Hb; auto. discriminate.
Qed.

(* numeric specification: "x > y, or x = y and cin" *)
Theorem okm_cmp_loop t x y cin last : length x = length y ->
  okm t (cmp_loop cin x y last)
      (fun w e => e w = if valN e x =? valN e y then e cin else valN e y <? valN e x).
Proof.
  intros L. eapply okm_weaken; [apply (okm_cmp_loop_bits t x y cin last L)|].
  cbn. intros w e [H _]. rewrite H. unfold valN. apply cmpb_spec. rewrite !map_length. exact L.
Qed.

(* with cin = 0 it is x > y, with cin = 1 it is x >= y *)
Lemma cmp_gt_form (a b : N) : (if a =? b then false else b <? a) = (b <? a).
Proof. destruct (N.eqb_spec a b), (N.ltb_spec b a); try reflexivity; lia. Qed.
Lemma cmp_ge_form (a b : N) : (if a =? b then true else b <? a) = (b <=? a).
Proof. destruct (N.eqb_spec a b), (N.ltb_spec b a), (N.leb_spec b a); try reflexivity; lia. Qed.

(* ================= unsigned comparators ================= *)
(* any widths (the shorter operand is zero padded), at least one bit *)
Theorem okm_uint_comparator t cin x y r0 :
  (1 <= Nat.max (length x) (length y))%nat ->
  okm t (uint_comparator cin x y [r0])
      (fun _ e => e r0 = if valN e x =? valN e y then e cin else valN e y <? valN e x).
Proof.
  intros L1. unfold uint_comparator.
  pstep okp_zero_pad. destruct a as [x' y']. cbn [fst snd] in *. destruct H as [Sx Sy].
  pose proof (pad_shape_len _ _ _ Sx) as Lx. pose proof (pad_shape_len _ _ _ Sy) as Ly.
  cbn [nth].
  mstepn (okm_cmp_loop_bits t x' y' cin (Some r0) ltac:(lia)) w.
  apply okm_ret. intros e [H Hr] [Zx Zy].
  rewrite <- (pad_val e x' x _ Sx Zx), <- (pad_val e y' y _ Sy Zy).
  rewrite <- (Hr r0 eq_refl) by (destruct x'; [cbn in Lx; lia | discriminate]).
  rewrite H. unfold valN. apply cmpb_spec. rewrite !map_length. lia.
Qed.

Theorem okm_uint_gt t x y r0 :
  (1 <= Nat.max (length x) (length y))%nat ->
  okm t (uint_gt x y [r0]) (fun _ e => e r0 = (valN e y <? valN e x)).
Proof.
  intros L. unfold uint_gt. mstepn okm_zero c.
  eapply okm_weaken; [apply (okm_uint_comparator t c x y r0 L)|].
  cbn. intros _ e H Hc. rewrite H, Hc. apply cmp_gt_form.
Qed.

Theorem okm_uint_ge t x y r0 :
  (1 <= Nat.max (length x) (length y))%nat ->
  okm t (uint_ge x y [r0]) (fun _ e => e r0 = (valN e y <=? valN e x)).
Proof.
  intros L. unfold uint_ge. mstepn okm_one c.
  eapply okm_weaken; [apply (okm_uint_comparator t c x y r0 L)|].
  cbn. intros _ e H Hc. rewrite H, Hc. apply cmp_ge_form.
Qed.

Theorem okm_uint_lt t x y r0 :
  (1 <= Nat.max (length x) (length y))%nat ->
  okm t (uint_lt x y [r0]) (fun _ e => e r0 = (valN e x <? valN e y)).
Proof.
  intros L. unfold uint_lt. mstepn okm_zero c.
  eapply okm_weaken; [apply (okm_uint_comparator t c y x r0); lia|].
  cbn. intros _ e H Hc. rewrite H, Hc. apply cmp_gt_form.
Qed.

Theorem okm_uint_le t x y r0 :
  (1 <= Nat.max (length x) (length y))%nat ->
  okm t (uint_le x y [r0]) (fun _ e => e r0 = (valN e x <=? valN e y)).
Proof.
  intros L. unfold uint_le. mstepn okm_one c.
  eapply okm_weaken; [apply (okm_uint_comparator t c y x r0); lia|].
  cbn. intros _ e H Hc. rewrite H, Hc. apply cmp_ge_form.
Qed.

(* ================= equality ================= *)
Fixpoint eqbits (x y : list bool) : bool :=
  match x, y with
  | xi :: x', yi :: y' => eqb xi yi && eqbits x' y'
  | _, _ => true
  end.

Lemma eqbits_spec : forall x y, length x = length y -> eqbits x y = (to_N x =? to_N y).
Proof.
  induction x as [|xi x IH]; intros [|yi y] L; try discriminate.
  - reflexivity.
  - cbn [eqbits to_N]. rewrite IH by (cbn in L; lia).
    destruct (N.eqb_spec (to_N x) (to_N y)) as [E|E];
      destruct xi, yi; cbn [eqb N.b2n andb];
      match goal with |- _ = N.eqb ?a ?b => destruct (N.eqb_spec a b) end;
      try reflexivity; lia.
Qed.

Lemma xnor_eqb a b : negb (xorb a b) = eqb a b.
Proof. destruct a, b; reflexivity. Qed.

(* flags: one XNOR per position; their conjunction is bitwise equality *)
Lemma okp_eq_flags t : forall x y, length x = length y ->
  okp t (eq_flags x y) (fun fs => length fs = length x)
      (fun fs e => forallb e fs = eqbits (map e x) (map e y)).
Proof.
  induction x as [|xi x IH]; intros [|yi y] L; try discriminate.
  - cbn. apply okp_ret; auto.
  - cbn [eq_flags].
    eapply okp_bind; [apply okp_of_okm, okm_fresh|]. intros f _. cbv beta.
    eapply okp_bind; [apply okp_of_okm, okm_emit|]. intros u _. cbv beta.
    eapply okp_bind; [apply IH; cbn in L; lia|]. intros fs Hl. cbv beta.
    apply okp_ret.
    + cbn. congruence.
    + cbn. intros e H H1 _. rewrite H, H1, xnor_eqb. reflexivity.
Qed.

(* one pass of pairwise ANDs: the conjunction of all flags is preserved, the
   number of flags is halved (rounded up) *)
Lemma okp_eq_pairs t : forall n flags, (length flags <= n)%nat ->
  okp t (eq_pairs flags)
      (fun fs => (2 * length fs = length flags \/ 2 * length fs = S (length flags))%nat)
      (fun fs e => forallb e fs = forallb e flags).
Proof.
  induction n as [|n IH]; intros flags L.
  - destruct flags; [|cbn in L; lia]. cbn. apply okp_ret; auto.
  - destruct flags as [|a [|b rest]].
    + cbn. apply okp_ret; auto.
    + cbn. apply okp_ret; auto.
    + cbn [eq_pairs].
      eapply okp_bind; [apply okp_of_okm, okm_fresh|]. intros f _. cbv beta.
      eapply okp_bind; [apply okp_of_okm, okm_emit|]. intros u _. cbv beta.
      eapply okp_bind; [apply (IH rest); cbn in L; lia|]. intros fs Hl. cbv beta.
      apply okp_ret.
      * cbv beta in Hl. cbn [length]. lia.
      * cbn. intros e H H1 _. rewrite H, H1. symmetry. apply andb_assoc.
Qed.

(* "for len(flags) > 2": ends with exactly two flags *)
Lemma okp_eq_reduce t : forall fuel flags,
  (2 <= length flags)%nat -> (length flags <= fuel)%nat ->
  okp t (eq_reduce fuel flags) (fun fs => length fs = 2%nat)
      (fun fs e => forallb e fs = forallb e flags).
Proof.
  induction fuel as [|fuel IH]; intros flags L2 Lf; [lia|].
  cbn [eq_reduce]. destruct (Nat.ltb 2 (length flags)) eqn:E.
  - apply Nat.ltb_lt in E.
    eapply okp_bind; [apply (okp_eq_pairs t (length flags) flags); lia|]. intros fl Hl. cbv beta in *.
    eapply okp_weaken; [apply (IH fl); lia| auto |].
    cbn. intros fs e _ H H1. congruence.
  - apply Nat.ltb_ge in E. apply okp_ret; [lia | reflexivity].
Qed.

(* NewEqComparator: any widths (zero padded), at least one bit *)
Theorem okm_eq_comparator t x y r0 :
  (1 <= Nat.max (length x) (length y))%nat ->
  okm t (eq_comparator x y [r0]) (fun _ e => e r0 = (valN e x =? valN e y)).
Proof.
  intros L1. unfold eq_comparator.
  pstep okp_zero_pad. destruct a as [x' y']. cbn [fst snd] in *. destruct H as [Sx Sy].
  pose proof (pad_shape_len _ _ _ Sx) as Lx. pose proof (pad_shape_len _ _ _ Sy) as Ly.
  cbn [nth]. destruct (Nat.eqb (length x') 1) eqn:E1.
  - apply Nat.eqb_eq in E1.
    destruct x' as [|x0 [|? ?]]; try discriminate.
    destruct y' as [|y0 [|? ?]]; try (cbn in *; lia).
    eapply okm_weaken; [apply okm_emit|].
    cbn. intros _ e H [Zx Zy].
    rewrite <- (pad_val e _ x _ Sx Zx), <- (pad_val e _ y _ Sy Zy), H.
    rewrite !valN_cons, !valN_nil. destruct (e x0), (e y0); reflexivity.
  - apply Nat.eqb_neq in E1.
    pstep (okp_eq_flags t x' y' ltac:(lia)). rename a into fl, H into Hfl. cbv beta in Hfl.
    pstep (okp_eq_reduce t (length fl) fl ltac:(lia) ltac:(lia)). rename a into fs, H into Hfs. cbv beta in Hfs.
    destruct fs as [|f0 [|f1 [|? ?]]]; try discriminate. cbn [nth].
    eapply okm_weaken; [apply okm_emit|].
    cbn. intros _ e H H2 H1 [Zx Zy].
    rewrite <- (pad_val e _ x _ Sx Zx), <- (pad_val e _ y _ Sy Zy), H.
    rewrite andb_true_r in H2. rewrite H2, H1. unfold valN.
    apply eqbits_spec. rewrite !map_length. lia.
Qed.

(* NewNeqComparator *)
Theorem okm_neq_comparator t x y r0 :
  (1 <= Nat.max (length x) (length y))%nat ->
  okm t (neq_comparator x y [r0]) (fun _ e => e r0 = negb (valN e x =? valN e y)).
Proof.
  intros L1. unfold neq_comparator. mstepn okm_fresh q.
  mstepn (okm_eq_comparator t x y q L1) u. cbn [nth].
  eapply okm_weaken; [apply okm_cc_inv|].
  cbn. intros _ e H H1 _. rewrite H, H1. reflexivity.
Qed.

(* ================= NewLogicalAND / NewLogicalOR (1 bit) ================= *)
Theorem okm_logical_and t x0 y0 r0 :
  okm t (logical_and [x0] [y0] [r0]) (fun _ e => e r0 = e x0 && e y0).
Proof. unfold logical_and. cbn [nth]. apply okm_emit. Qed.

Theorem okm_logical_or t x0 y0 r0 :
  okm t (logical_or [x0] [y0] [r0]) (fun _ e => e r0 = e x0 || e y0).
Proof. unfold logical_or. cbn [nth]. apply okm_cc_or. Qed.

(* in terms of the numbers carried by the 1-bit operands *)
Theorem okm_logical_and_N t x0 y0 r0 :
  okm t (logical_and [x0] [y0] [r0]) (fun _ e => valN e [r0] = N.land (valN e [x0]) (valN e [y0])).
Proof.
  eapply okm_weaken; [apply okm_logical_and|]. intros u e H. cbv beta in *.
  rewrite !valN_cons, !valN_nil, H. destruct (e x0), (e y0); reflexivity.
Qed.

Theorem okm_logical_or_N t x0 y0 r0 :
  okm t (logical_or [x0] [y0] [r0]) (fun _ e => valN e [r0] = N.lor (valN e [x0]) (valN e [y0])).
Proof.
  eapply okm_weaken; [apply okm_logical_or|]. intros u e H. cbv beta in *.
  rewrite !valN_cons, !valN_nil, H. destruct (e x0), (e y0); reflexivity.
Qed.

(* ================= NewBitSetTest / NewBitClrTest ================= *)
Lemma testbit_to_N : forall i bs, N.testbit (to_N bs) (N.of_nat i) = nth i bs false.
Proof.
  induction i as [|i IH]; intros [|b bs]; cbn [to_N nth].
  - reflexivity.
  - rewrite N.add_comm. apply N.testbit_0_r.
  - apply N.bits_0.
  - rewrite Nat2N.inj_succ, N.add_comm, N.testbit_succ_r. apply IH.
Qed.

Lemma testbit_valN_in e x i : (i < length x)%nat ->
  N.testbit (valN e x) (N.of_nat i) = e (nth i x 0).
Proof.
  intros L. unfold valN. rewrite testbit_to_N.
  rewrite (nth_indep _ false (e 0)) by (rewrite map_length; exact L). apply map_nth.
Qed.

Lemma testbit_valN_out e x i : (length x <= i)%nat ->
  N.testbit (valN e x) (N.of_nat i) = false.
Proof.
  intros L. unfold valN. rewrite testbit_to_N. apply nth_overflow. rewrite map_length. exact L.
Qed.

(* the returned result list r' carries bit [index] of x, for EVERY index *)
Theorem okm_bit_set_test t x index r0 :
  okm t (bit_set_test x index [r0])
      (fun r' e => map e r' = [N.testbit (valN e x) (N.of_nat index)]).
Proof.
  unfold bit_set_test. destruct (Nat.ltb index (length x)) eqn:E.
  - apply Nat.ltb_lt in E. mstepn okm_zero w. cbn [nth]. mstepn okm_emit u.
    apply okm_ret. cbn. intros e H Hw.
    rewrite H, Hw, xorb_false_r, testbit_valN_in by exact E. reflexivity.
  - apply Nat.ltb_ge in E. mstepn okm_zero w. apply okm_ret. cbn. intros e Hw.
    rewrite Hw, testbit_valN_out by exact E. reflexivity.
Qed.

Theorem okm_bit_clr_test t x index r0 :
  okm t (bit_clr_test x index [r0])
      (fun r' e => map e r' = [negb (N.testbit (valN e x) (N.of_nat index))]).
Proof.
  unfold bit_clr_test. destruct (Nat.ltb index (length x)) eqn:E.
  - apply Nat.ltb_lt in E. mstepn okm_one w. cbn [nth]. mstepn okm_emit u.
    apply okm_ret. cbn. intros e H Hw.
    rewrite H, Hw, xorb_true_r, testbit_valN_in by exact E. reflexivity.
  - apply Nat.ltb_ge in E. mstepn okm_one w. apply okm_ret. cbn. intros e Hw.
    rewrite Hw, testbit_valN_out by exact E. reflexivity.
Qed.

(* ================= signed comparators ================= *)
(* NOTE: intComparator ZERO pads operands of unequal widths (it does not sign
   extend), and takes the sign bits at position len(y)-1 of the padded
   operands.  The two's complement theorems below are therefore stated for
   operands of EQUAL width n >= 1, which is how every in-repo caller invokes
   them. *)

(* two's complement value of the n-bit pattern v *)
Definition sval (n : nat) (v : N) : Z :=
  if v <? 2 ^ N.of_nat (n - 1) then Z.of_N v else (Z.of_N v - 2 ^ Z.of_nat n)%Z.

Lemma sign_split e x k : length x = S k ->
  exists lo, lo < 2 ^ N.of_nat k /\ valN e x = lo + 2 ^ N.of_nat k * N.b2n (e (nth k x 0)).
Proof.
  intros L. assert (Nx : x <> []) by (destruct x; [discriminate | discriminate]).
  destruct (exists_last Nx) as (lo & s & ->).
  rewrite app_length in L. cbn in L. assert (Ll : length lo = k) by lia.
  exists (valN e lo). split.
  - rewrite <- Ll. apply valN_lt.
  - rewrite valN_app, app_nth2 by lia. rewrite Ll, Nat.sub_diag. cbn [nth].
    rewrite valN_cons, valN_nil. f_equal. f_equal. lia.
Qed.

Lemma signed_cmp k xl yl (sx sy c : bool) :
  xl < 2 ^ N.of_nat k -> yl < 2 ^ N.of_nat k ->
  (if xorb sx sy then sy
   else if xl + 2 ^ N.of_nat k * N.b2n sx =? yl + 2 ^ N.of_nat k * N.b2n sy then c
        else yl + 2 ^ N.of_nat k * N.b2n sy <? xl + 2 ^ N.of_nat k * N.b2n sx) =
  (if (sval (S k) (xl + 2 ^ N.of_nat k * N.b2n sx) =? sval (S k) (yl + 2 ^ N.of_nat k * N.b2n sy))%Z
   then c
   else (sval (S k) (yl + 2 ^ N.of_nat k * N.b2n sy) <? sval (S k) (xl + 2 ^ N.of_nat k * N.b2n sx))%Z).
Proof.
  intros Hx Hy. unfold sval. replace (S k - 1)%nat with k by lia.
  assert (EP : (2 ^ Z.of_nat (S k) = 2 * Z.of_N (2 ^ N.of_nat k))%Z).
  { rewrite N2Z.inj_pow, nat_N_Z, Nat2Z.inj_succ, Z.pow_succ_r by lia. reflexivity. }
  rewrite EP. clear EP. generalize dependent (2 ^ N.of_nat k). intros P Hx Hy.
  destruct sx, sy; cbn [xorb N.b2n]; rewrite ?N.mul_1_r, ?N.mul_0_r, ?N.add_0_r;
    repeat match goal with
           | |- context [N.eqb ?a ?b] => destruct (N.eqb_spec a b)
           | |- context [N.ltb ?a ?b] => destruct (N.ltb_spec a b)
           | |- context [Z.eqb ?a ?b] => destruct (Z.eqb_spec a b)
           | |- context [Z.ltb ?a ?b] => destruct (Z.ltb_spec a b)
           end; try reflexivity; lia.
Qed.

(* intComparator on equal widths: "x > y, or x = y and cin" on two's complement values *)
Theorem okm_int_comparator t cin x y r0 k :
  length x = S k -> length y = S k ->
  okm t (int_comparator cin x y [r0])
      (fun _ e => e r0 = if (sval (S k) (valN e x) =? sval (S k) (valN e y))%Z then e cin
                         else (sval (S k) (valN e y) <? sval (S k) (valN e x))%Z).
Proof.
  intros Lx Ly. unfold int_comparator.
  pstep okp_zero_pad. destruct a as [x' y']. cbn [fst snd] in *. destruct H as [Sx Sy].
  destruct Sx as (zx & ->). destruct Sy as (zy & ->).
  replace (Nat.max (length x) (length y) - length x)%nat with 0%nat by lia.
  replace (Nat.max (length x) (length y) - length y)%nat with 0%nat by lia.
  cbn [repeat]. rewrite !app_nil_r. replace (length y - 1)%nat with k by lia.
  mstepn (okm_cmp_loop t x y cin None ltac:(lia)) cout.
  mstepn okm_fresh cond. mstepn okm_emit u.
  eapply okm_weaken; [apply okm_new_mux_bits; reflexivity|].
  cbn. intros _ e H H2 _ H1 _.
  assert (H0 : e r0 = if e cond then e (nth k y 0) else e cout)
    by (destruct (e cond); injection H; auto).
  rewrite H0, H2, H1. clear H H0 H1 H2.
  destruct (sign_split e x k Lx) as (xl & Hxl & ->).
  destruct (sign_split e y k Ly) as (yl & Hyl & ->).
  apply signed_cmp; assumption.
Qed.

Lemma cmpZ_gt_form (a b : Z) : (if (a =? b)%Z then false else (b <? a)%Z) = (b <? a)%Z.
Proof. destruct (Z.eqb_spec a b), (Z.ltb_spec b a); try reflexivity; lia. Qed.
Lemma cmpZ_ge_form (a b : Z) : (if (a =? b)%Z then true else (b <? a)%Z) = (b <=? a)%Z.
Proof. destruct (Z.eqb_spec a b), (Z.ltb_spec b a), (Z.leb_spec b a); try reflexivity; lia. Qed.

Theorem okm_int_gt t x y r0 n :
  (1 <= n)%nat -> length x = n -> length y = n ->
  okm t (int_gt x y [r0]) (fun _ e => e r0 = (sval n (valN e y) <? sval n (valN e x))%Z).
Proof.
  intros Ln Lx Ly. destruct n as [|k]; [lia|]. unfold int_gt. mstepn okm_zero c.
  eapply okm_weaken; [apply (okm_int_comparator t c x y r0 k Lx Ly)|].
  cbn. intros _ e H Hc. rewrite H, Hc. apply cmpZ_gt_form.
Qed.

Theorem okm_int_ge t x y r0 n :
  (1 <= n)%nat -> length x = n -> length y = n ->
  okm t (int_ge x y [r0]) (fun _ e => e r0 = (sval n (valN e y) <=? sval n (valN e x))%Z).
Proof.
  intros Ln Lx Ly. destruct n as [|k]; [lia|]. unfold int_ge. mstepn okm_one c.
  eapply okm_weaken; [apply (okm_int_comparator t c x y r0 k Lx Ly)|].
  cbn. intros _ e H Hc. rewrite H, Hc. apply cmpZ_ge_form.
Qed.

Theorem okm_int_lt t x y r0 n :
  (1 <= n)%nat -> length x = n -> length y = n ->
  okm t (int_lt x y [r0]) (fun _ e => e r0 = (sval n (valN e x) <? sval n (valN e y))%Z).
Proof.
  intros Ln Lx Ly. destruct n as [|k]; [lia|]. unfold int_lt. mstepn okm_zero c.
  eapply okm_weaken; [apply (okm_int_comparator t c y x r0 k Ly Lx)|].
  cbn. intros _ e H Hc. rewrite H, Hc. apply cmpZ_gt_form.
Qed.

Theorem okm_int_le t x y r0 n :
  (1 <= n)%nat -> length x = n -> length y = n ->
  okm t (int_le x y [r0]) (fun _ e => e r0 = (sval n (valN e x) <=? sval n (valN e y))%Z).
Proof.
  intros Ln Lx Ly. destruct n as [|k]; [lia|]. unfold int_le. mstepn okm_one c.
  eapply okm_weaken; [apply (okm_int_comparator t c y x r0 k Ly Lx)|].
  cbn. intros _ e H Hc. rewrite H, Hc. apply cmpZ_ge_form.
Qed.
