(* EvalFast.v — map-based gate-by-gate evaluator (same meaning as Emit.eval_rev,
   proved in EvalFastProof.v) for evaluating large emitted circuits inside Coq.
   No proofs in this file. *)
From Coq Require Import NArith List Bool FMapPositive.
From Mpc Require Import Builders.Emit.
Import ListNotations.

Definition menv := PositiveMap.t bool.
Definition wkey (w : wire) : positive := N.succ_pos w.
Definition mget (m : menv) (e0 : env) (w : wire) : bool :=
  match PositiveMap.find (wkey w) m with Some b => b | None => e0 w end.

Fixpoint evalm_rev (gs : list gate) (e0 : env) : menv :=
  match gs with
  | [] => PositiveMap.empty bool
  | g :: r =>
      let m := evalm_rev r e0 in
      PositiveMap.add (wkey (g_o g))
        (gsem (g_op g) (mget m e0 (g_a g)) (mget m e0 (g_b g))) m
  end.

Definition evalm (gs : list gate) (e0 : env) : env := mget (evalm_rev gs e0) e0.
