(* StructCmp.v — structural lemmas (single assignment, defined before use) for the
   comparators of Cmp.v and the bitwise builders of Bitwise.v, for every width and
   both targets, and the resulting theorems about the EVALUATED circuits in the
   harness wire layout. *)
From Coq Require Import NArith ZArith List Bool Arith Lia.
From Mpc Require Import Builders.Emit Builders.EmitProof Builders.StructProof
  Builders.Mux Builders.MuxProof Builders.StructAdder
  Builders.Cmp Builders.CmpProof Builders.Bitwise Builders.BitwiseProof.
Import ListNotations.
Open Scope N_scope.

Section C.
Variable ninp : N.
Notation defd := (defd ninp). Notation pend := (pend ninp). Notation wfst := (wfst ninp).
Notation step := (step ninp). Notation oks := (@oks ninp _).

Lemma step_nil_any s s' wr : step s s' [] -> step s s' wr.
Proof. intros H. eapply step_weaken; [exact H|apply incl_nil_any]. Qed.

(* reading position k of a vector of defined wires (default: input wire 0) *)
Lemma defd_nth s l k : wfst s -> Forall (defd s) l -> defd s (nth k l 0).
Proof.
  intros W F. destruct (nth_in_or_default k l 0) as [H|H].
  - rewrite Forall_forall in F. apply F, H.
  - rewrite H. apply defd_in0. exact W.
Qed.

Lemma In_firstn_c {A} (w : A) : forall k l, In w (firstn k l) -> In w l.
Proof. induction k; intros [|a l]; cbn; try tauto. intros [H|H]; auto. Qed.

Lemma Forall_defd_repeat s z k : defd s z -> Forall (defd s) (repeat z k).
Proof. intros D. apply Forall_forall. intros w Hin. apply repeat_spec in Hin. subst. exact D. Qed.

(* ================= the comparison chain ================= *)
Lemma cmp_loop_s last : forall x y cin s,
  wfst s -> defd s cin -> Forall (defd s) x -> Forall (defd s) y ->
  (forall r0, last = Some r0 -> pend s r0) ->
  oks (cmp_loop cin x y last) s
      (fun w s' => step s s' (optl last) /\ defd s' w /\
                   (length x = length y -> x <> [] -> forall r0, last = Some r0 -> w = r0)).
Proof.
  induction x as [|xi x IH]; intros y cin s W Dc Fx Fy HP.
  - cbn. apply oks_ret; auto. split; [apply step_nil_any, step_refl|]. split; [auto|]. intros _ H. congruence.
  - destruct y as [|yi y].
    { cbn. apply oks_ret; auto. split; [apply step_nil_any, step_refl|]. split; [auto|]. intros H. discriminate. }
    cbn [cmp_loop]. inversion Fx; subst. inversion Fy; subst.
    assert (HL : forall r0, last = Some r0 -> r0 < next s).
    { intros r0 E. eapply pend_next, HP, E. }
    sbind fresh_s. intros w1 s1 W1 (E1 & P1 & S1 & N1). cbv beta.
    eapply oks_bind; [apply emit_s; [auto|sd|sd|sp]|]. intros _ s2 W2 (S2 & D2 & N2). cbv beta.
    sbind fresh_s. intros w2 s3 W3 (E3 & P3 & S3 & N3). cbv beta.
    eapply oks_bind; [apply emit_s; [auto|sd|sd|sp]|]. intros _ s4 W4 (S4 & D4 & N4). cbv beta.
    sbind fresh_s. intros w3 s5 W5 (E5 & P5 & S5 & N5). cbv beta.
    eapply oks_bind; [apply emit_s; [auto|sd|sd|sp]|]. intros _ s6 W6 (S6 & D6 & N6). cbv beta.
    assert (B : oks (cout <- fresh;; emit XOR cin w3 cout;; cmp_loop cout x y last)%monad s6
                  (fun w s' => step s s' (optl last) /\ defd s' w /\
                     (length x = length y -> x <> [] -> forall r0, last = Some r0 -> w = r0))).
    { sbind fresh_s. intros co s7 W7 (E7 & P7 & S7 & N7). cbv beta.
      eapply oks_bind; [apply emit_s; [auto|sd|sd|sp]|]. intros _ s8 W8 (S8 & D8 & N8). cbv beta.
      eapply oks_conseq.
      - apply IH; auto; try (eapply Forall_impl; [|eassumption]; intros; sd).
        intros r0 E. specialize (HP r0 E). specialize (HL r0 E). sp.
      - cbv beta. intros w s9 W9 (S9 & D9 & R9). split; [|split; auto].
        split; [sgn|]. split; [intros w' D; sd|].
        intros w' P N. pose proof (pend_next _ _ _ P) as Lw. sp. }
    destruct x as [|x1 x]; [destruct last as [r0|]|].
    + specialize (HP r0 eq_refl). specialize (HL r0 eq_refl).
      eapply oks_bind; [apply emit_s; [auto|sd|sd|sp]|]. intros _ s7 W7 (S7 & D7 & N7). cbv beta.
      apply oks_ret; auto. split; [|split; [auto|]].
      * split; [sgn|]. split; [intros w' D; sd|].
        intros w' P N. pose proof (pend_next _ _ _ P) as Lw.
        assert (w' <> r0) by (intro; apply N; cbn; auto). sp.
      * intros _ _ r1 [= <-]. reflexivity.
    + eapply oks_conseq; [exact B|]. cbv beta. intros w s' W' (A1 & A2 & A3). split; [auto|]. split; [auto|].
      intros _ _ r0 H. discriminate.
    + eapply oks_conseq; [exact B|]. cbv beta. intros w s' W' (A1 & A2 & A3). split; [auto|]. split; [auto|].
      intros L _ r0 E. apply A3; auto. discriminate.
Qed.

(* ================= uintComparator / intComparator ================= *)
Lemma uint_comparator_s s cin x y r0 :
  wfst s -> defd s cin -> Forall (defd s) x -> Forall (defd s) y -> pend s r0 ->
  (1 <= Nat.max (length x) (length y))%nat ->
  oks (uint_comparator cin x y [r0]) s (fun _ s' => step s s' [r0] /\ defd s' r0).
Proof.
  intros W Dc Fx Fy P0 L1. unfold uint_comparator.
  sbind zero_pad_s. intros [x' y'] s1 W1 (S1 & Fx' & Fy' & Lx & Ly). cbn [fst snd] in *. cbv beta iota.
  cbn [nth].
  eapply oks_bind.
  { apply (cmp_loop_s (Some r0)); auto; [sd|]. intros ? [= <-]. sp. }
  intros w s2 W2 (S2 & D2 & R2). cbv beta.
  apply oks_ret; auto. split.
  - eapply step_weaken; [eapply step_trans; eauto|]. cbn. apply incl_refl.
  - rewrite <- (R2 ltac:(lia) ltac:(destruct x'; [cbn in Lx; lia|discriminate]) r0 eq_refl). exact D2.
Qed.

Lemma int_comparator_s s cin x y r0 :
  wfst s -> defd s cin -> Forall (defd s) x -> Forall (defd s) y -> pend s r0 ->
  oks (int_comparator cin x y [r0]) s (fun _ s' => step s s' [r0] /\ defd s' r0).
Proof.
  intros W Dc Fx Fy P0. unfold int_comparator.
  pose proof (pend_next _ _ _ P0) as L0.
  sbind zero_pad_s. intros [x' y'] s1 W1 (S1 & Fx' & Fy' & Lx & Ly). cbn [fst snd] in *. cbv beta iota.
  eapply oks_bind.
  { apply (cmp_loop_s None); auto; [sd|]. intros ? [=]. }
  intros cout s2 W2 (S2 & D2 & _). cbv beta. cbn [optl] in S2.
  sbind fresh_s. intros cond s3 W3 (E3 & P3 & S3 & N3). cbv beta.
  assert (Fx2 : Forall (defd s3) x') by (eapply Forall_impl; [|exact Fx']; intros; sd).
  assert (Fy2 : Forall (defd s3) y') by (eapply Forall_impl; [|exact Fy']; intros; sd).
  eapply oks_bind; [apply emit_s; [auto|apply defd_nth; auto|apply defd_nth; auto|sp]|].
  intros _ s4 W4 (S4 & D4 & N4). cbv beta.
  eapply oks_conseq.
  - apply new_mux_s; [exact W4|exact D4| | | | |reflexivity].
    + constructor; [|constructor]. eapply step_defd; [exact S4|]. apply defd_nth; auto.
    + constructor; [|constructor]. sd.
    + constructor; [|constructor]. sfacts. sp.
    + constructor; [intros []|constructor].
  - cbv beta. intros _ s5 W5 (S5 & F5). split; [|inversion F5; auto].
    split; [sgn|]. split; [intros w' D; sd|].
    intros w' P N. pose proof (pend_next _ _ _ P) as Lw.
    assert (w' <> r0) by (intro; apply N; cbn; auto). sfacts. sp.
Qed.

(* ================= the eight ordered comparators ================= *)
Lemma uint_gt_s s x y r0 :
  wfst s -> Forall (defd s) x -> Forall (defd s) y -> pend s r0 ->
  (1 <= Nat.max (length x) (length y))%nat ->
  oks (uint_gt x y [r0]) s (fun _ s' => step s s' [r0] /\ defd s' r0).
Proof.
  intros W Fx Fy P0 L. unfold uint_gt. sbind zero_s. intros c s1 W1 (S1 & Dc). cbv beta.
  eapply oks_conseq; [apply uint_comparator_s; auto; try (eapply Forall_defd_step; eauto); sp|].
  cbv beta. intros _ s2 W2 (S2 & D2). split; auto.
  eapply step_weaken; [eapply step_trans; eauto|]. cbn. apply incl_refl.
Qed.

Lemma uint_ge_s s x y r0 :
  wfst s -> Forall (defd s) x -> Forall (defd s) y -> pend s r0 ->
  (1 <= Nat.max (length x) (length y))%nat ->
  oks (uint_ge x y [r0]) s (fun _ s' => step s s' [r0] /\ defd s' r0).
Proof.
  intros W Fx Fy P0 L. unfold uint_ge. sbind one_s. intros c s1 W1 (S1 & Dc). cbv beta.
  eapply oks_conseq; [apply uint_comparator_s; auto; try (eapply Forall_defd_step; eauto); sp|].
  cbv beta. intros _ s2 W2 (S2 & D2). split; auto.
  eapply step_weaken; [eapply step_trans; eauto|]. cbn. apply incl_refl.
Qed.

Lemma uint_lt_s s x y r0 :
  wfst s -> Forall (defd s) x -> Forall (defd s) y -> pend s r0 ->
  (1 <= Nat.max (length x) (length y))%nat ->
  oks (uint_lt x y [r0]) s (fun _ s' => step s s' [r0] /\ defd s' r0).
Proof.
  intros W Fx Fy P0 L. unfold uint_lt. sbind zero_s. intros c s1 W1 (S1 & Dc). cbv beta.
  eapply oks_conseq; [apply uint_comparator_s; auto; try (eapply Forall_defd_step; eauto); try sp; lia|].
  cbv beta. intros _ s2 W2 (S2 & D2). split; auto.
  eapply step_weaken; [eapply step_trans; eauto|]. cbn. apply incl_refl.
Qed.

Lemma uint_le_s s x y r0 :
  wfst s -> Forall (defd s) x -> Forall (defd s) y -> pend s r0 ->
  (1 <= Nat.max (length x) (length y))%nat ->
  oks (uint_le x y [r0]) s (fun _ s' => step s s' [r0] /\ defd s' r0).
Proof.
  intros W Fx Fy P0 L. unfold uint_le. sbind one_s. intros c s1 W1 (S1 & Dc). cbv beta.
  eapply oks_conseq; [apply uint_comparator_s; auto; try (eapply Forall_defd_step; eauto); try sp; lia|].
  cbv beta. intros _ s2 W2 (S2 & D2). split; auto.
  eapply step_weaken; [eapply step_trans; eauto|]. cbn. apply incl_refl.
Qed.

Lemma int_gt_s s x y r0 :
  wfst s -> Forall (defd s) x -> Forall (defd s) y -> pend s r0 ->
  oks (int_gt x y [r0]) s (fun _ s' => step s s' [r0] /\ defd s' r0).
Proof.
  intros W Fx Fy P0. unfold int_gt. sbind zero_s. intros c s1 W1 (S1 & Dc). cbv beta.
  eapply oks_conseq; [apply int_comparator_s; auto; try (eapply Forall_defd_step; eauto); sp|].
  cbv beta. intros _ s2 W2 (S2 & D2). split; auto.
  eapply step_weaken; [eapply step_trans; eauto|]. cbn. apply incl_refl.
Qed.

Lemma int_ge_s s x y r0 :
  wfst s -> Forall (defd s) x -> Forall (defd s) y -> pend s r0 ->
  oks (int_ge x y [r0]) s (fun _ s' => step s s' [r0] /\ defd s' r0).
Proof.
  intros W Fx Fy P0. unfold int_ge. sbind one_s. intros c s1 W1 (S1 & Dc). cbv beta.
  eapply oks_conseq; [apply int_comparator_s; auto; try (eapply Forall_defd_step; eauto); sp|].
  cbv beta. intros _ s2 W2 (S2 & D2). split; auto.
  eapply step_weaken; [eapply step_trans; eauto|]. cbn. apply incl_refl.
Qed.

Lemma int_lt_s s x y r0 :
  wfst s -> Forall (defd s) x -> Forall (defd s) y -> pend s r0 ->
  oks (int_lt x y [r0]) s (fun _ s' => step s s' [r0] /\ defd s' r0).
Proof.
  intros W Fx Fy P0. unfold int_lt. sbind zero_s. intros c s1 W1 (S1 & Dc). cbv beta.
  eapply oks_conseq; [apply int_comparator_s; auto; try (eapply Forall_defd_step; eauto); sp|].
  cbv beta. intros _ s2 W2 (S2 & D2). split; auto.
  eapply step_weaken; [eapply step_trans; eauto|]. cbn. apply incl_refl.
Qed.

Lemma int_le_s s x y r0 :
  wfst s -> Forall (defd s) x -> Forall (defd s) y -> pend s r0 ->
  oks (int_le x y [r0]) s (fun _ s' => step s s' [r0] /\ defd s' r0).
Proof.
  intros W Fx Fy P0. unfold int_le. sbind one_s. intros c s1 W1 (S1 & Dc). cbv beta.
  eapply oks_conseq; [apply int_comparator_s; auto; try (eapply Forall_defd_step; eauto); sp|].
  cbv beta. intros _ s2 W2 (S2 & D2). split; auto.
  eapply step_weaken; [eapply step_trans; eauto|]. cbn. apply incl_refl.
Qed.

(* ================= equality ================= *)
Lemma eq_flags_s : forall x y s,
  wfst s -> Forall (defd s) x -> Forall (defd s) y ->
  oks (eq_flags x y) s (fun fs s' => step s s' [] /\ Forall (defd s') fs /\
                                     length fs = Nat.min (length x) (length y)).
Proof.
  induction x as [|xi x IH]; intros y s W Fx Fy.
  - cbn. apply oks_ret; auto. split; [apply step_refl|]. split; [constructor|reflexivity].
  - destruct y as [|yi y].
    { cbn. apply oks_ret; auto. split; [apply step_refl|]. split; [constructor|reflexivity]. }
    cbn [eq_flags]. inversion Fx; subst. inversion Fy; subst.
    sbind fresh_s. intros f s1 W1 (E1 & P1 & S1 & N1). cbv beta.
    eapply oks_bind; [apply emit_s; [auto|sd|sd|sp]|]. intros _ s2 W2 (S2 & D2 & N2). cbv beta.
    eapply oks_bind; [apply IH; auto; eapply Forall_impl; try eassumption; intros; sd|].
    intros fs s3 W3 (S3 & F3 & L3). cbv beta.
    apply oks_ret; auto. split; [|split].
    + split; [sgn|]. split; [intros w' D; sd|].
      intros w' P N. pose proof (pend_next _ _ _ P) as Lw. sp.
    + constructor; [sd|exact F3].
    + cbn. rewrite L3. reflexivity.
Qed.

Lemma eq_pairs_s : forall n flags s, (length flags <= n)%nat ->
  wfst s -> Forall (defd s) flags ->
  oks (eq_pairs flags) s (fun fs s' => step s s' [] /\ Forall (defd s') fs).
Proof.
  induction n as [|n IH]; intros flags s Ln W F.
  - destruct flags; [|cbn in Ln; lia]. cbn. apply oks_ret; auto. split; [apply step_refl|constructor].
  - destruct flags as [|a [|b rest]].
    + cbn. apply oks_ret; auto. split; [apply step_refl|constructor].
    + cbn. apply oks_ret; auto. split; [apply step_refl|exact F].
    + cbn [eq_pairs]. inversion F as [|? ? Da F1]; subst. inversion F1 as [|? ? Db F2]; subst.
      sbind fresh_s. intros f s1 W1 (E1 & P1 & S1 & N1). cbv beta.
      eapply oks_bind; [apply emit_s; [auto|sd|sd|sp]|]. intros _ s2 W2 (S2 & D2 & N2). cbv beta.
      eapply oks_bind; [apply IH; [cbn in Ln; lia|auto|eapply Forall_impl; try eassumption; intros; sd]|].
      intros fs s3 W3 (S3 & F3). cbv beta.
      apply oks_ret; auto. split.
      * split; [sgn|]. split; [intros w' D; sd|].
        intros w' P N. pose proof (pend_next _ _ _ P) as Lw. sp.
      * constructor; [sd|exact F3].
Qed.

Lemma eq_reduce_s : forall fuel flags s,
  wfst s -> Forall (defd s) flags ->
  oks (eq_reduce fuel flags) s (fun fs s' => step s s' [] /\ Forall (defd s') fs).
Proof.
  induction fuel as [|fuel IH]; intros flags s W F.
  - cbn. apply oks_ret; auto. split; [apply step_refl|exact F].
  - cbn [eq_reduce]. destruct (Nat.ltb 2 (length flags)).
    + eapply oks_bind; [apply (eq_pairs_s (length flags)); auto|].
      intros fl s1 W1 (S1 & F1). cbv beta.
      eapply oks_conseq; [apply IH; auto|].
      cbv beta. intros fs s2 W2 (S2 & F2). split; [|exact F2].
      eapply step_weaken; [eapply step_trans; eauto|]. cbn. apply incl_refl.
    + apply oks_ret; auto. split; [apply step_refl|exact F].
Qed.

(* NewEqComparator: every width (with width 0 the Go code reads flags[0], flags[1]
   of an empty slice; the model reads input wire 0 there) *)
Lemma eq_comparator_s s x y r0 :
  wfst s -> Forall (defd s) x -> Forall (defd s) y -> pend s r0 ->
  oks (eq_comparator x y [r0]) s (fun _ s' => step s s' [r0] /\ defd s' r0).
Proof.
  intros W Fx Fy P0. unfold eq_comparator.
  sbind zero_pad_s. intros [x' y'] s1 W1 (S1 & Fx' & Fy' & Lx & Ly). cbn [fst snd] in *. cbv beta iota zeta.
  cbn [nth].
  destruct (Nat.eqb (length x') 1).
  - eapply oks_conseq; [apply emit_s; [auto|apply defd_nth; auto|apply defd_nth; auto|sp]|].
    cbv beta. intros _ s2 W2 (S2 & D2 & _). split; auto.
    eapply step_weaken; [eapply step_trans; eauto|]. cbn. apply incl_refl.
  - eapply oks_bind; [apply eq_flags_s; auto|]. intros fl s2 W2 (S2 & F2 & _). cbv beta.
    eapply oks_bind; [apply eq_reduce_s; auto|]. intros fl' s3 W3 (S3 & F3). cbv beta.
    eapply oks_conseq; [apply emit_s; [auto|apply defd_nth; auto|apply defd_nth; auto|sp]|].
    cbv beta. intros _ s4 W4 (S4 & D4 & _). split; auto.
    split; [sgn|]. split; [intros w' D; sd|].
    intros w' P N. assert (w' <> r0) by (intro; apply N; cbn; auto). sp.
Qed.

Lemma neq_comparator_s s x y r0 :
  wfst s -> Forall (defd s) x -> Forall (defd s) y -> pend s r0 ->
  oks (neq_comparator x y [r0]) s (fun _ s' => step s s' [r0] /\ defd s' r0).
Proof.
  intros W Fx Fy P0. unfold neq_comparator. pose proof (pend_next _ _ _ P0) as L0.
  sbind fresh_s. intros q s1 W1 (E1 & P1 & S1 & N1). cbv beta.
  eapply oks_bind; [apply eq_comparator_s; auto; eapply Forall_defd_step; eauto|].
  intros _ s2 W2 (S2 & D2). cbv beta. cbn [nth].
  eapply oks_conseq; [apply cc_inv_s; [auto|auto|sp]|].
  cbv beta. intros _ s3 W3 (S3 & D3). split; auto.
  split; [sgn|]. split; [intros w' D; sd|].
  intros w' P N. pose proof (pend_next _ _ _ P) as Lw.
  assert (w' <> r0) by (intro; apply N; cbn; auto). sp.
Qed.

(* ================= NewLogicalAND / NewLogicalOR ================= *)
Lemma logical_and_s s x y r0 :
  wfst s -> Forall (defd s) x -> Forall (defd s) y -> pend s r0 ->
  oks (logical_and x y [r0]) s (fun _ s' => step s s' [r0] /\ defd s' r0).
Proof.
  intros W Fx Fy P0. unfold logical_and. cbn [nth].
  eapply oks_conseq; [apply emit_s; [auto|apply defd_nth; auto|apply defd_nth; auto|auto]|].
  cbv beta. intros _ s1 W1 (S1 & D1 & _). auto.
Qed.

Lemma logical_or_s s x y r0 :
  wfst s -> Forall (defd s) x -> Forall (defd s) y -> pend s r0 ->
  oks (logical_or x y [r0]) s (fun _ s' => step s s' [r0] /\ defd s' r0).
Proof.
  intros W Fx Fy P0. unfold logical_or. cbn [nth].
  apply cc_or_s; auto; apply defd_nth; auto.
Qed.

(* ================= NewBitSetTest / NewBitClrTest ================= *)
Lemma bit_set_test_s s x index r0 :
  wfst s -> Forall (defd s) x -> pend s r0 ->
  oks (bit_set_test x index [r0]) s
      (fun r' s' => step s s' [r0] /\ Forall (defd s') r' /\ length r' = 1%nat).
Proof.
  intros W Fx P0. unfold bit_set_test. destruct (Nat.ltb index (length x)).
  - sbind zero_s. intros z s1 W1 (S1 & Dz). cbv beta. cbn [nth].
    eapply oks_bind; [apply emit_s; [auto|apply defd_nth; auto; eapply Forall_defd_step; eauto|auto|sp]|].
    intros _ s2 W2 (S2 & D2 & _). cbv beta.
    apply oks_ret; auto. split; [|split; [constructor; auto|reflexivity]].
    eapply step_weaken; [eapply step_trans; eauto|]. cbn. apply incl_refl.
  - sbind zero_s. intros z s1 W1 (S1 & Dz). cbv beta.
    apply oks_ret; auto. split; [apply step_nil_any; auto|]. split; [constructor; auto|reflexivity].
Qed.

Lemma bit_clr_test_s s x index r0 :
  wfst s -> Forall (defd s) x -> pend s r0 ->
  oks (bit_clr_test x index [r0]) s
      (fun r' s' => step s s' [r0] /\ Forall (defd s') r' /\ length r' = 1%nat).
Proof.
  intros W Fx P0. unfold bit_clr_test. destruct (Nat.ltb index (length x)).
  - sbind one_s. intros z s1 W1 (S1 & Dz). cbv beta. cbn [nth].
    eapply oks_bind; [apply emit_s; [auto|apply defd_nth; auto; eapply Forall_defd_step; eauto|auto|sp]|].
    intros _ s2 W2 (S2 & D2 & _). cbv beta.
    apply oks_ret; auto. split; [|split; [constructor; auto|reflexivity]].
    eapply step_weaken; [eapply step_trans; eauto|]. cbn. apply incl_refl.
  - sbind one_s. intros z s1 W1 (S1 & Dz). cbv beta.
    apply oks_ret; auto. split; [apply step_nil_any; auto|]. split; [constructor; auto|reflexivity].
Qed.

(* ================= bitwise builders ================= *)
(* structural specification of a per-bit builder *)
Definition bit_builder_s (f : wire -> wire -> wire -> M unit) : Prop :=
  forall s a b o, wfst s -> defd s a -> defd s b -> pend s o ->
    oks (f a b o) s (fun _ s' => step s s' [o] /\ defd s' o).

Lemma bitwise_loop_s f : bit_builder_s f ->
  forall x y r s,
  wfst s -> Forall (defd s) x -> Forall (defd s) y -> Forall (pend s) r -> NoDup r ->
  oks (bitwise_loop f x y r) s
      (fun _ s' => step s s' r /\
                   Forall (defd s') (firstn (Nat.min (length x) (length y)) r)).
Proof.
  intros Hf. induction x as [|xi x IH]; intros y r s W Fx Fy Pr ND.
  - cbn. apply oks_ret; auto. split; [apply step_nil_any, step_refl|constructor].
  - destruct y as [|yi y]; [cbn; apply oks_ret; auto; split; [apply step_nil_any, step_refl|constructor]|].
    destruct r as [|ri r]; [cbn; apply oks_ret; auto; split; [apply step_refl|constructor]|].
    cbn [bitwise_loop]. inversion Fx; subst. inversion Fy; subst. inversion Pr; subst. inversion ND; subst.
    eapply oks_bind; [apply Hf; auto|]. intros _ s1 W1 (S1 & D1). cbv beta.
    assert (Pr1 : Forall (pend s1) r).
    { apply Forall_forall. intros w Hin. rewrite Forall_forall in H6. specialize (H6 _ Hin).
      assert (w <> ri) by (intro; subst; auto). sp. }
    eapply oks_conseq; [apply IH; auto; eapply Forall_defd_step; eauto|].
    cbv beta. intros _ s2 W2 (S2 & F2). split.
    + eapply step_weaken; [eapply step_trans; eauto|]. cbn. apply incl_refl.
    + cbn [length Nat.min firstn]. constructor; [sd|exact F2].
Qed.

Lemma bitwise_s f s x y r : bit_builder_s f ->
  wfst s -> Forall (defd s) x -> Forall (defd s) y -> Forall (pend s) r -> NoDup r ->
  (length r <= Nat.max (length x) (length y))%nat ->
  oks (bitwise f x y r) s (fun _ s' => step s s' r /\ Forall (defd s') r).
Proof.
  intros Hf W Fx Fy Pr ND Lr. unfold bitwise.
  sbind zero_pad_s. intros [x' y'] s1 W1 (S1 & Fx' & Fy' & Lx & Ly). cbn [fst snd] in *. cbv beta iota.
  assert (Pr1 : Forall (pend s1) r).
  { apply Forall_forall. intros w Hin. rewrite Forall_forall in Pr. specialize (Pr _ Hin). sp. }
  eapply oks_conseq.
  - apply (bitwise_loop_s f Hf); auto.
    + apply Forall_forall. intros w Hin. apply In_firstn_c in Hin. rewrite Forall_forall in Fx'. auto.
    + apply Forall_forall. intros w Hin. apply In_firstn_c in Hin. rewrite Forall_forall in Fy'. auto.
  - cbv beta. intros _ s2 W2 (S2 & F2). split.
    + eapply step_weaken; [eapply step_trans; eauto|]. cbn. apply incl_refl.
    + rewrite !firstn_length, firstn_all2 in F2 by lia. exact F2.
Qed.

Lemma and_gate_s : bit_builder_s (fun a b o => emit AND a b o).
Proof.
  intros s a b o W Da Db Po. eapply oks_conseq; [apply emit_s; auto|].
  cbv beta. intros _ s1 W1 (S1 & D1 & _). auto.
Qed.

Lemma xor_gate_s : bit_builder_s (fun a b o => emit XOR a b o).
Proof.
  intros s a b o W Da Db Po. eapply oks_conseq; [apply emit_s; auto|].
  cbv beta. intros _ s1 W1 (S1 & D1 & _). auto.
Qed.

Lemma or_gate_s : bit_builder_s cc_or.
Proof. intros s a b o W Da Db Po. apply cc_or_s; auto. Qed.

Lemma clear_gate_s : bit_builder_s (fun a b o => w <- fresh;; cc_inv b w;; emit AND a w o)%monad.
Proof.
  intros s a b o W Da Db Po. pose proof (pend_next _ _ _ Po) as Lo.
  sbind fresh_s. intros w s1 W1 (E1 & P1 & S1 & N1). cbv beta.
  eapply oks_bind; [apply cc_inv_s; [auto|sd|sp]|]. intros _ s2 W2 (S2 & D2). cbv beta.
  eapply oks_conseq; [apply emit_s; [auto|sd|sd|sp]|].
  cbv beta. intros _ s3 W3 (S3 & D3 & _). split; auto.
  split; [sgn|]. split; [intros w' D; sd|].
  intros w' P N. pose proof (pend_next _ _ _ P) as Lw.
  assert (w' <> o) by (intro; apply N; cbn; auto). sp.
Qed.

Lemma binary_and_s s x y r :
  wfst s -> Forall (defd s) x -> Forall (defd s) y -> Forall (pend s) r -> NoDup r ->
  (length r <= Nat.max (length x) (length y))%nat ->
  oks (binary_and x y r) s (fun _ s' => step s s' r /\ Forall (defd s') r).
Proof. intros. unfold binary_and. apply bitwise_s; auto. apply and_gate_s. Qed.

Lemma binary_or_s s x y r :
  wfst s -> Forall (defd s) x -> Forall (defd s) y -> Forall (pend s) r -> NoDup r ->
  (length r <= Nat.max (length x) (length y))%nat ->
  oks (binary_or x y r) s (fun _ s' => step s s' r /\ Forall (defd s') r).
Proof. intros. unfold binary_or. apply bitwise_s; auto. apply or_gate_s. Qed.

Lemma binary_xor_s s x y r :
  wfst s -> Forall (defd s) x -> Forall (defd s) y -> Forall (pend s) r -> NoDup r ->
  (length r <= Nat.max (length x) (length y))%nat ->
  oks (binary_xor x y r) s (fun _ s' => step s s' r /\ Forall (defd s') r).
Proof. intros. unfold binary_xor. apply bitwise_s; auto. apply xor_gate_s. Qed.

Lemma binary_clear_s s x y r :
  wfst s -> Forall (defd s) x -> Forall (defd s) y -> Forall (pend s) r -> NoDup r ->
  (length r <= Nat.max (length x) (length y))%nat ->
  oks (binary_clear x y r) s (fun _ s' => step s s' r /\ Forall (defd s') r).
Proof. intros. unfold binary_clear. apply bitwise_s; auto. apply clear_gate_s. Qed.

End C.

(* ================= the evaluated circuits =================
   Harness layout: x = wires 0..xw-1, y = the next yw wires, the destination wires
   follow the inputs.  For every target, all widths and every initial assignment e0:
   the emitted gate list is single-assignment and defined-before-use, and evaluating
   it gate by gate yields the stated value. *)
Lemma cmp_eval_gen (tg : bool) (B : list wire -> list wire -> list wire -> M unit)
      (F : N -> N -> bool) (xw yw : nat) (e0 : env) :
  let x := wrange 0 xw in
  let y := wrange (N.of_nat xw) yw in
  let ninp := N.of_nat xw + N.of_nat yw in
  0 < ninp ->
  okm tg (B x y [ninp]) (fun _ e => e ninp = F (valN e x) (valN e y)) ->
  (forall s, wfst ninp s -> Forall (defd ninp s) x -> Forall (defd ninp s) y -> pend ninp s ninp ->
     @oks ninp unit (B x y [ninp]) s (fun _ s' => step ninp s s' [ninp] /\ defd ninp s' ninp)) ->
  exists s', B x y [ninp] (st0 (ninp + 1) tg) = (tt, s') /\
    wfc_b ninp (gates s') = true /\ dbu ninp (gates s') /\
    eval_rev (gates s') e0 ninp = F (valN e0 x) (valN e0 y).
Proof.
  cbv zeta. set (x := wrange 0 xw). set (y := wrange (N.of_nat xw) yw).
  set (ninp := N.of_nat xw + N.of_nat yw). intros Hn Sem Str.
  assert (Ix : forall w, In w x -> w < ninp) by (intros w H; apply wrange_In in H; lia).
  assert (Iy : forall w, In w y -> w < ninp) by (intros w H; apply wrange_In in H; lia).
  specialize (Str (st0 (ninp + 1) tg) ltac:(apply wfst_st0; lia)
                  (Forall_defd_inputs _ _ _ Ix) (Forall_defd_inputs _ _ _ Iy)
                  ltac:(apply pend_st0; lia)).
  destruct (run_st0 ninp _ tg _ _ _ Sem Str e0) as ([] & s' & E & C & D & _ & P & I).
  exists s'. split; [exact E|]. split; [exact C|]. split; [exact D|].
  rewrite P, (valN_inputs _ e0 ninp x I Ix), (valN_inputs _ e0 ninp y I Iy). reflexivity.
Qed.

Theorem uint_gt_eval (tg : bool) (xw yw : nat) (e0 : env) :
  (1 <= Nat.max xw yw)%nat ->
  let x := wrange 0 xw in
  let y := wrange (N.of_nat xw) yw in
  let ninp := N.of_nat xw + N.of_nat yw in
  exists s', uint_gt x y [ninp] (st0 (ninp + 1) tg) = (tt, s') /\
    wfc_b ninp (gates s') = true /\ dbu ninp (gates s') /\
    eval_rev (gates s') e0 ninp = (valN e0 y <? valN e0 x).
Proof.
  intros L. apply (cmp_eval_gen tg uint_gt (fun a b => b <? a) xw yw e0); [lia| |].
  - apply okm_uint_gt. rewrite !wrange_length. exact L.
  - intros s W Fx Fy P. apply uint_gt_s; auto. rewrite !wrange_length. exact L.
Qed.

Theorem uint_ge_eval (tg : bool) (xw yw : nat) (e0 : env) :
  (1 <= Nat.max xw yw)%nat ->
  let x := wrange 0 xw in
  let y := wrange (N.of_nat xw) yw in
  let ninp := N.of_nat xw + N.of_nat yw in
  exists s', uint_ge x y [ninp] (st0 (ninp + 1) tg) = (tt, s') /\
    wfc_b ninp (gates s') = true /\ dbu ninp (gates s') /\
    eval_rev (gates s') e0 ninp = (valN e0 y <=? valN e0 x).
Proof.
  intros L. apply (cmp_eval_gen tg uint_ge (fun a b => b <=? a) xw yw e0); [lia| |].
  - apply okm_uint_ge. rewrite !wrange_length. exact L.
  - intros s W Fx Fy P. apply uint_ge_s; auto. rewrite !wrange_length. exact L.
Qed.

Theorem uint_lt_eval (tg : bool) (xw yw : nat) (e0 : env) :
  (1 <= Nat.max xw yw)%nat ->
  let x := wrange 0 xw in
  let y := wrange (N.of_nat xw) yw in
  let ninp := N.of_nat xw + N.of_nat yw in
  exists s', uint_lt x y [ninp] (st0 (ninp + 1) tg) = (tt, s') /\
    wfc_b ninp (gates s') = true /\ dbu ninp (gates s') /\
    eval_rev (gates s') e0 ninp = (valN e0 x <? valN e0 y).
Proof.
  intros L. apply (cmp_eval_gen tg uint_lt (fun a b => a <? b) xw yw e0); [lia| |].
  - apply okm_uint_lt. rewrite !wrange_length. exact L.
  - intros s W Fx Fy P. apply uint_lt_s; auto. rewrite !wrange_length. exact L.
Qed.

Theorem uint_le_eval (tg : bool) (xw yw : nat) (e0 : env) :
  (1 <= Nat.max xw yw)%nat ->
  let x := wrange 0 xw in
  let y := wrange (N.of_nat xw) yw in
  let ninp := N.of_nat xw + N.of_nat yw in
  exists s', uint_le x y [ninp] (st0 (ninp + 1) tg) = (tt, s') /\
    wfc_b ninp (gates s') = true /\ dbu ninp (gates s') /\
    eval_rev (gates s') e0 ninp = (valN e0 x <=? valN e0 y).
Proof.
  intros L. apply (cmp_eval_gen tg uint_le (fun a b => a <=? b) xw yw e0); [lia| |].
  - apply okm_uint_le. rewrite !wrange_length. exact L.
  - intros s W Fx Fy P. apply uint_le_s; auto. rewrite !wrange_length. exact L.
Qed.

Theorem eq_comparator_eval (tg : bool) (xw yw : nat) (e0 : env) :
  (1 <= Nat.max xw yw)%nat ->
  let x := wrange 0 xw in
  let y := wrange (N.of_nat xw) yw in
  let ninp := N.of_nat xw + N.of_nat yw in
  exists s', eq_comparator x y [ninp] (st0 (ninp + 1) tg) = (tt, s') /\
    wfc_b ninp (gates s') = true /\ dbu ninp (gates s') /\
    eval_rev (gates s') e0 ninp = (valN e0 x =? valN e0 y).
Proof.
  intros L. apply (cmp_eval_gen tg eq_comparator (fun a b => a =? b) xw yw e0); [lia| |].
  - apply okm_eq_comparator. rewrite !wrange_length. exact L.
  - intros s W Fx Fy P. apply eq_comparator_s; auto.
Qed.

Theorem neq_comparator_eval (tg : bool) (xw yw : nat) (e0 : env) :
  (1 <= Nat.max xw yw)%nat ->
  let x := wrange 0 xw in
  let y := wrange (N.of_nat xw) yw in
  let ninp := N.of_nat xw + N.of_nat yw in
  exists s', neq_comparator x y [ninp] (st0 (ninp + 1) tg) = (tt, s') /\
    wfc_b ninp (gates s') = true /\ dbu ninp (gates s') /\
    eval_rev (gates s') e0 ninp = negb (valN e0 x =? valN e0 y).
Proof.
  intros L. apply (cmp_eval_gen tg neq_comparator (fun a b => negb (a =? b)) xw yw e0); [lia| |].
  - apply okm_neq_comparator. rewrite !wrange_length. exact L.
  - intros s W Fx Fy P. apply neq_comparator_s; auto.
Qed.

(* signed comparators: equal widths n >= 1, two's complement values *)
Theorem int_gt_eval (tg : bool) (n : nat) (e0 : env) :
  (1 <= n)%nat ->
  let x := wrange 0 n in
  let y := wrange (N.of_nat n) n in
  let ninp := N.of_nat n + N.of_nat n in
  exists s', int_gt x y [ninp] (st0 (ninp + 1) tg) = (tt, s') /\
    wfc_b ninp (gates s') = true /\ dbu ninp (gates s') /\
    eval_rev (gates s') e0 ninp = (sval n (valN e0 y) <? sval n (valN e0 x))%Z.
Proof.
  intros L. apply (cmp_eval_gen tg int_gt (fun a b => (sval n b <? sval n a)%Z) n n e0); [lia| |].
  - apply okm_int_gt; auto; apply wrange_length.
  - intros s W Fx Fy P. apply int_gt_s; auto.
Qed.

Theorem int_ge_eval (tg : bool) (n : nat) (e0 : env) :
  (1 <= n)%nat ->
  let x := wrange 0 n in
  let y := wrange (N.of_nat n) n in
  let ninp := N.of_nat n + N.of_nat n in
  exists s', int_ge x y [ninp] (st0 (ninp + 1) tg) = (tt, s') /\
    wfc_b ninp (gates s') = true /\ dbu ninp (gates s') /\
    eval_rev (gates s') e0 ninp = (sval n (valN e0 y) <=? sval n (valN e0 x))%Z.
Proof.
  intros L. apply (cmp_eval_gen tg int_ge (fun a b => (sval n b <=? sval n a)%Z) n n e0); [lia| |].
  - apply okm_int_ge; auto; apply wrange_length.
  - intros s W Fx Fy P. apply int_ge_s; auto.
Qed.

Theorem int_lt_eval (tg : bool) (n : nat) (e0 : env) :
  (1 <= n)%nat ->
  let x := wrange 0 n in
  let y := wrange (N.of_nat n) n in
  let ninp := N.of_nat n + N.of_nat n in
  exists s', int_lt x y [ninp] (st0 (ninp + 1) tg) = (tt, s') /\
    wfc_b ninp (gates s') = true /\ dbu ninp (gates s') /\
    eval_rev (gates s') e0 ninp = (sval n (valN e0 x) <? sval n (valN e0 y))%Z.
Proof.
  intros L. apply (cmp_eval_gen tg int_lt (fun a b => (sval n a <? sval n b)%Z) n n e0); [lia| |].
  - apply okm_int_lt; auto; apply wrange_length.
  - intros s W Fx Fy P. apply int_lt_s; auto.
Qed.

Theorem int_le_eval (tg : bool) (n : nat) (e0 : env) :
  (1 <= n)%nat ->
  let x := wrange 0 n in
  let y := wrange (N.of_nat n) n in
  let ninp := N.of_nat n + N.of_nat n in
  exists s', int_le x y [ninp] (st0 (ninp + 1) tg) = (tt, s') /\
    wfc_b ninp (gates s') = true /\ dbu ninp (gates s') /\
    eval_rev (gates s') e0 ninp = (sval n (valN e0 x) <=? sval n (valN e0 y))%Z.
Proof.
  intros L. apply (cmp_eval_gen tg int_le (fun a b => (sval n a <=? sval n b)%Z) n n e0); [lia| |].
  - apply okm_int_le; auto; apply wrange_length.
  - intros s W Fx Fy P. apply int_le_s; auto.
Qed.

(* NewLogicalAND / NewLogicalOR: 1-bit operands on wires 0 and 1, destination wire 2 *)
Theorem logical_and_eval (tg : bool) (e0 : env) :
  exists s', logical_and [0] [1] [2] (st0 3 tg) = (tt, s') /\
    wfc_b 2 (gates s') = true /\ dbu 2 (gates s') /\
    eval_rev (gates s') e0 2 = e0 0 && e0 1.
Proof.
  pose proof (okm_logical_and tg 0 1 2) as Sem.
  assert (Str : @oks 2 unit (logical_and [0] [1] [2]) (st0 3 tg)
                  (fun _ s' => step 2 (st0 3 tg) s' [2] /\ defd 2 s' 2)).
  { apply logical_and_s.
    - apply wfst_st0; lia.
    - constructor; [left; lia|constructor].
    - constructor; [left; lia|constructor].
    - apply pend_st0; lia. }
  destruct (run_st0 2 _ tg _ _ _ Sem Str e0) as ([] & s' & E & C & D & _ & P & I).
  exists s'. split; [exact E|]. split; [exact C|]. split; [exact D|].
  rewrite P, (I 0), (I 1) by lia. reflexivity.
Qed.

Theorem logical_or_eval (tg : bool) (e0 : env) :
  exists s', logical_or [0] [1] [2] (st0 3 tg) = (tt, s') /\
    wfc_b 2 (gates s') = true /\ dbu 2 (gates s') /\
    eval_rev (gates s') e0 2 = e0 0 || e0 1.
Proof.
  pose proof (okm_logical_or tg 0 1 2) as Sem.
  assert (Str : @oks 2 unit (logical_or [0] [1] [2]) (st0 3 tg)
                  (fun _ s' => step 2 (st0 3 tg) s' [2] /\ defd 2 s' 2)).
  { apply logical_or_s.
    - apply wfst_st0; lia.
    - constructor; [left; lia|constructor].
    - constructor; [left; lia|constructor].
    - apply pend_st0; lia. }
  destruct (run_st0 2 _ tg _ _ _ Sem Str e0) as ([] & s' & E & C & D & _ & P & I).
  exists s'. split; [exact E|]. split; [exact C|]. split; [exact D|].
  rewrite P, (I 0), (I 1) by lia. reflexivity.
Qed.

(* NewBitSetTest / NewBitClrTest: x = wires 0..xw-1, destination wire xw, any index
   (an index beyond the operand tests a zero bit; the builder then returns a
   constant wire instead of the destination) *)
Theorem bit_set_test_eval (tg : bool) (xw index : nat) (e0 : env) :
  (1 <= xw)%nat ->
  let x := wrange 0 xw in
  let ninp := N.of_nat xw in
  exists r' s', bit_set_test x index [ninp] (st0 (ninp + 1) tg) = (r', s') /\
    wfc_b ninp (gates s') = true /\ dbu ninp (gates s') /\
    Forall (defd ninp s') r' /\
    map (eval_rev (gates s') e0) r' = [N.testbit (valN e0 x) (N.of_nat index)].
Proof.
  intros L. cbv zeta. set (x := wrange 0 xw). set (ninp := N.of_nat xw).
  assert (Ix : forall w, In w x -> w < ninp) by (intros w H; apply wrange_In in H; lia).
  pose proof (okm_bit_set_test tg x index ninp) as Sem.
  pose proof (bit_set_test_s ninp (st0 (ninp + 1) tg) x index ninp
                ltac:(apply wfst_st0; lia) (Forall_defd_inputs _ _ _ Ix)
                ltac:(apply pend_st0; lia)) as Str.
  destruct (run_st0 ninp _ tg _ _ _ Sem Str e0) as (r' & s' & E & C & D & (_ & Fr & _) & P & I).
  exists r', s'. split; [exact E|]. split; [exact C|]. split; [exact D|]. split; [exact Fr|].
  rewrite P, (valN_inputs _ e0 ninp x I Ix). reflexivity.
Qed.

Theorem bit_clr_test_eval (tg : bool) (xw index : nat) (e0 : env) :
  (1 <= xw)%nat ->
  let x := wrange 0 xw in
  let ninp := N.of_nat xw in
  exists r' s', bit_clr_test x index [ninp] (st0 (ninp + 1) tg) = (r', s') /\
    wfc_b ninp (gates s') = true /\ dbu ninp (gates s') /\
    Forall (defd ninp s') r' /\
    map (eval_rev (gates s') e0) r' = [negb (N.testbit (valN e0 x) (N.of_nat index))].
Proof.
  intros L. cbv zeta. set (x := wrange 0 xw). set (ninp := N.of_nat xw).
  assert (Ix : forall w, In w x -> w < ninp) by (intros w H; apply wrange_In in H; lia).
  pose proof (okm_bit_clr_test tg x index ninp) as Sem.
  pose proof (bit_clr_test_s ninp (st0 (ninp + 1) tg) x index ninp
                ltac:(apply wfst_st0; lia) (Forall_defd_inputs _ _ _ Ix)
                ltac:(apply pend_st0; lia)) as Str.
  destruct (run_st0 ninp _ tg _ _ _ Sem Str e0) as (r' & s' & E & C & D & (_ & Fr & _) & P & I).
  exists r', s'. split; [exact E|]. split; [exact C|]. split; [exact D|]. split; [exact Fr|].
  rewrite P, (valN_inputs _ e0 ninp x I Ix). reflexivity.
Qed.

(* bitwise builders: destination = k wires after the inputs *)
Lemma bitwise_eval_gen (tg : bool) (B : list wire -> list wire -> list wire -> M unit)
      (F : N -> N -> N) (xw yw k : nat) (e0 : env) :
  let x := wrange 0 xw in
  let y := wrange (N.of_nat xw) yw in
  let ninp := N.of_nat xw + N.of_nat yw in
  let r := wrange ninp k in
  0 < ninp ->
  okm tg (B x y r) (fun _ e => valN e r = F (valN e x) (valN e y)) ->
  (forall s, wfst ninp s -> Forall (defd ninp s) x -> Forall (defd ninp s) y ->
     Forall (pend ninp s) r -> NoDup r ->
     @oks ninp unit (B x y r) s (fun _ s' => step ninp s s' r /\ Forall (defd ninp s') r)) ->
  exists s', B x y r (st0 (ninp + N.of_nat k) tg) = (tt, s') /\
    wfc_b ninp (gates s') = true /\ dbu ninp (gates s') /\
    valN (eval_rev (gates s') e0) r = F (valN e0 x) (valN e0 y).
Proof.
  cbv zeta. set (x := wrange 0 xw). set (y := wrange (N.of_nat xw) yw).
  set (ninp := N.of_nat xw + N.of_nat yw). set (r := wrange ninp k). intros Hn Sem Str.
  assert (Ix : forall w, In w x -> w < ninp) by (intros w H; apply wrange_In in H; lia).
  assert (Iy : forall w, In w y -> w < ninp) by (intros w H; apply wrange_In in H; lia).
  specialize (Str (st0 (ninp + N.of_nat k) tg) ltac:(apply wfst_st0; lia)
                  (Forall_defd_inputs _ _ _ Ix) (Forall_defd_inputs _ _ _ Iy)
                  ltac:(apply Forall_pend_st0; intros w H; apply wrange_In in H; lia)
                  (wrange_NoDup _ _)).
  destruct (run_st0 ninp _ tg _ _ _ Sem Str e0) as ([] & s' & E & C & D & _ & P & I).
  exists s'. split; [exact E|]. split; [exact C|]. split; [exact D|].
  rewrite P, (valN_inputs _ e0 ninp x I Ix), (valN_inputs _ e0 ninp y I Iy). reflexivity.
Qed.

Theorem binary_and_eval (tg : bool) (xw yw : nat) (e0 : env) :
  (1 <= Nat.max xw yw)%nat ->
  let x := wrange 0 xw in
  let y := wrange (N.of_nat xw) yw in
  let ninp := N.of_nat xw + N.of_nat yw in
  let r := wrange ninp (Nat.max xw yw) in
  exists s', binary_and x y r (st0 (ninp + N.of_nat (Nat.max xw yw)) tg) = (tt, s') /\
    wfc_b ninp (gates s') = true /\ dbu ninp (gates s') /\
    valN (eval_rev (gates s') e0) r = N.land (valN e0 x) (valN e0 y).
Proof.
  intros L. apply (bitwise_eval_gen tg binary_and N.land xw yw (Nat.max xw yw) e0); [lia| |].
  - apply okm_binary_and. rewrite !wrange_length. reflexivity.
  - intros s W Fx Fy P ND. apply binary_and_s; auto. rewrite !wrange_length. lia.
Qed.

Theorem binary_or_eval (tg : bool) (xw yw : nat) (e0 : env) :
  (1 <= Nat.max xw yw)%nat ->
  let x := wrange 0 xw in
  let y := wrange (N.of_nat xw) yw in
  let ninp := N.of_nat xw + N.of_nat yw in
  let r := wrange ninp (Nat.max xw yw) in
  exists s', binary_or x y r (st0 (ninp + N.of_nat (Nat.max xw yw)) tg) = (tt, s') /\
    wfc_b ninp (gates s') = true /\ dbu ninp (gates s') /\
    valN (eval_rev (gates s') e0) r = N.lor (valN e0 x) (valN e0 y).
Proof.
  intros L. apply (bitwise_eval_gen tg binary_or N.lor xw yw (Nat.max xw yw) e0); [lia| |].
  - apply okm_binary_or. rewrite !wrange_length. reflexivity.
  - intros s W Fx Fy P ND. apply binary_or_s; auto. rewrite !wrange_length. lia.
Qed.

Theorem binary_xor_eval (tg : bool) (xw yw : nat) (e0 : env) :
  (1 <= Nat.max xw yw)%nat ->
  let x := wrange 0 xw in
  let y := wrange (N.of_nat xw) yw in
  let ninp := N.of_nat xw + N.of_nat yw in
  let r := wrange ninp (Nat.max xw yw) in
  exists s', binary_xor x y r (st0 (ninp + N.of_nat (Nat.max xw yw)) tg) = (tt, s') /\
    wfc_b ninp (gates s') = true /\ dbu ninp (gates s') /\
    valN (eval_rev (gates s') e0) r = N.lxor (valN e0 x) (valN e0 y).
Proof.
  intros L. apply (bitwise_eval_gen tg binary_xor N.lxor xw yw (Nat.max xw yw) e0); [lia| |].
  - apply okm_binary_xor. rewrite !wrange_length. reflexivity.
  - intros s W Fx Fy P ND. apply binary_xor_s; auto. rewrite !wrange_length. lia.
Qed.

Theorem binary_clear_eval (tg : bool) (xw yw : nat) (e0 : env) :
  (1 <= Nat.max xw yw)%nat ->
  let x := wrange 0 xw in
  let y := wrange (N.of_nat xw) yw in
  let ninp := N.of_nat xw + N.of_nat yw in
  let r := wrange ninp (Nat.max xw yw) in
  exists s', binary_clear x y r (st0 (ninp + N.of_nat (Nat.max xw yw)) tg) = (tt, s') /\
    wfc_b ninp (gates s') = true /\ dbu ninp (gates s') /\
    valN (eval_rev (gates s') e0) r = N.ldiff (valN e0 x) (valN e0 y).
Proof.
  intros L. apply (bitwise_eval_gen tg binary_clear N.ldiff xw yw (Nat.max xw yw) e0); [lia| |].
  - apply okm_binary_clear. rewrite !wrange_length. reflexivity.
  - intros s W Fx Fy P ND. apply binary_clear_s; auto. rewrite !wrange_length. lia.
Qed.

(* truncated destinations: k <= max xw yw result wires *)
Theorem binary_and_trunc_eval (tg : bool) (xw yw k : nat) (e0 : env) :
  (1 <= Nat.max xw yw)%nat -> (k <= Nat.max xw yw)%nat ->
  let x := wrange 0 xw in
  let y := wrange (N.of_nat xw) yw in
  let ninp := N.of_nat xw + N.of_nat yw in
  let r := wrange ninp k in
  exists s', binary_and x y r (st0 (ninp + N.of_nat k) tg) = (tt, s') /\
    wfc_b ninp (gates s') = true /\ dbu ninp (gates s') /\
    valN (eval_rev (gates s') e0) r = N.land (valN e0 x) (valN e0 y) mod 2 ^ N.of_nat k.
Proof.
  intros L Lk.
  apply (bitwise_eval_gen tg binary_and (fun a b => N.land a b mod 2 ^ N.of_nat k) xw yw k e0); [lia| |].
  - pose proof (okm_binary_and_trunc tg (wrange 0 xw) (wrange (N.of_nat xw) yw)
                  (wrange (N.of_nat xw + N.of_nat yw) k)) as H.
    rewrite !wrange_length in H. apply H. exact Lk.
  - intros s W Fx Fy P ND. apply binary_and_s; auto. rewrite !wrange_length. lia.
Qed.

Theorem binary_or_trunc_eval (tg : bool) (xw yw k : nat) (e0 : env) :
  (1 <= Nat.max xw yw)%nat -> (k <= Nat.max xw yw)%nat ->
  let x := wrange 0 xw in
  let y := wrange (N.of_nat xw) yw in
  let ninp := N.of_nat xw + N.of_nat yw in
  let r := wrange ninp k in
  exists s', binary_or x y r (st0 (ninp + N.of_nat k) tg) = (tt, s') /\
    wfc_b ninp (gates s') = true /\ dbu ninp (gates s') /\
    valN (eval_rev (gates s') e0) r = N.lor (valN e0 x) (valN e0 y) mod 2 ^ N.of_nat k.
Proof.
  intros L Lk.
  apply (bitwise_eval_gen tg binary_or (fun a b => N.lor a b mod 2 ^ N.of_nat k) xw yw k e0); [lia| |].
  - pose proof (okm_binary_or_trunc tg (wrange 0 xw) (wrange (N.of_nat xw) yw)
                  (wrange (N.of_nat xw + N.of_nat yw) k)) as H.
    rewrite !wrange_length in H. apply H. exact Lk.
  - intros s W Fx Fy P ND. apply binary_or_s; auto. rewrite !wrange_length. lia.
Qed.

Theorem binary_xor_trunc_eval (tg : bool) (xw yw k : nat) (e0 : env) :
  (1 <= Nat.max xw yw)%nat -> (k <= Nat.max xw yw)%nat ->
  let x := wrange 0 xw in
  let y := wrange (N.of_nat xw) yw in
  let ninp := N.of_nat xw + N.of_nat yw in
  let r := wrange ninp k in
  exists s', binary_xor x y r (st0 (ninp + N.of_nat k) tg) = (tt, s') /\
    wfc_b ninp (gates s') = true /\ dbu ninp (gates s') /\
    valN (eval_rev (gates s') e0) r = N.lxor (valN e0 x) (valN e0 y) mod 2 ^ N.of_nat k.
Proof.
  intros L Lk.
  apply (bitwise_eval_gen tg binary_xor (fun a b => N.lxor a b mod 2 ^ N.of_nat k) xw yw k e0); [lia| |].
  - pose proof (okm_binary_xor_trunc tg (wrange 0 xw) (wrange (N.of_nat xw) yw)
                  (wrange (N.of_nat xw + N.of_nat yw) k)) as H.
    rewrite !wrange_length in H. apply H. exact Lk.
  - intros s W Fx Fy P ND. apply binary_xor_s; auto. rewrite !wrange_length. lia.
Qed.

Theorem binary_clear_trunc_eval (tg : bool) (xw yw k : nat) (e0 : env) :
  (1 <= Nat.max xw yw)%nat -> (k <= Nat.max xw yw)%nat ->
  let x := wrange 0 xw in
  let y := wrange (N.of_nat xw) yw in
  let ninp := N.of_nat xw + N.of_nat yw in
  let r := wrange ninp k in
  exists s', binary_clear x y r (st0 (ninp + N.of_nat k) tg) = (tt, s') /\
    wfc_b ninp (gates s') = true /\ dbu ninp (gates s') /\
    valN (eval_rev (gates s') e0) r = N.ldiff (valN e0 x) (valN e0 y) mod 2 ^ N.of_nat k.
Proof.
  intros L Lk.
  apply (bitwise_eval_gen tg binary_clear (fun a b => N.ldiff a b mod 2 ^ N.of_nat k) xw yw k e0); [lia| |].
  - pose proof (okm_binary_clear_trunc tg (wrange 0 xw) (wrange (N.of_nat xw) yw)
                  (wrange (N.of_nat xw + N.of_nat yw) k)) as H.
    rewrite !wrange_length in H. apply H. exact Lk.
  - intros s W Fx Fy P ND. apply binary_clear_s; auto. rewrite !wrange_length. lia.
Qed.
