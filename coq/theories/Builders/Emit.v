(* Emit.v — gate-emitting state monad mirroring circuits.Compiler
   (/repo/compiler/circuits/compiler.go, allocator.go, gates.go) as far as the
   circuit builders use it:
     Calloc.Wire / Calloc.Wires     -> fresh / fresh_n   (a wire is its allocation number)
     AddGate(BinaryGate/INVGate)    -> emit
     InvI0Wire / ZeroWire / OneWire -> inv_i0_wire / zero_wire / one_wire (lazily created, once)
     INV / OR / ID                  -> cc_inv / cc_or / cc_id
     Pad / ZeroPad / ShiftLeft      -> pad / zero_pad / shift_left
     Params.Target == TargetGMW     -> target_gmw
   A Go builder receives its destination wires ([]*Wire z) from the caller and
   may replace elements of that slice (z[i] = cc.ZeroWire()); the model passes
   the destination list in and returns the (possibly replaced) list.
   The gate list is kept newest first.  No proofs in this file. *)
From Coq Require Import NArith List Bool.
Import ListNotations.
Open Scope N_scope.

Definition wire := N.

Inductive gop := XOR | XNOR | AND | OR | INV.

Record gate := mkG { g_op : gop; g_a : wire; g_b : wire; g_o : wire }.

Record st := mkSt {
  next  : N;               (* allocator: next unused wire number *)
  gates : list gate;       (* Compiler.Gates, newest first *)
  zero  : option wire;     (* Compiler.zeroWire *)
  one   : option wire;     (* Compiler.oneWire *)
  inv0  : option wire;     (* Compiler.invI0Wire *)
  gmw   : bool             (* Params.Target == utils.TargetGMW *)
}.

Definition M (A : Type) : Type := st -> A * st.
Definition ret {A} (a : A) : M A := fun s => (a, s).
Definition bind {A B} (m : M A) (f : A -> M B) : M B :=
  fun s => let (a, s1) := m s in f a s1.

Declare Scope monad_scope.
Delimit Scope monad_scope with monad.
Notation "x <- m ;; k" := (bind m (fun x => k))
  (at level 61, m at next level, right associativity) : monad_scope.
Notation "' pat <- m ;; k" := (bind m (fun x => match x with pat => k end))
  (at level 61, pat pattern, m at next level, right associativity) : monad_scope.
Notation "m ;; k" := (bind m (fun _ => k))
  (at level 61, right associativity) : monad_scope.
Open Scope monad_scope.

(* InputWires[0] is wire 0: the harness numbers the input wires 0..ninputs-1 *)
Definition in0 : wire := 0.

(* Allocator.Wire *)
Definition fresh : M wire :=
  fun s => (next s, mkSt (N.succ (next s)) (gates s) (zero s) (one s) (inv0 s) (gmw s)).

(* Allocator.Wires / a loop of Allocator.Wire *)
Fixpoint fresh_n (n : nat) : M (list wire) :=
  match n with
  | O => ret []
  | S k => w <- fresh;; ws <- fresh_n k;; ret (w :: ws)
  end.

(* Compiler.AddGate (Calloc.BinaryGate op a b o); INV gates carry b = 0 *)
Definition emit (op : gop) (a b o : wire) : M unit :=
  fun s => (tt, mkSt (next s) (mkG op a b o :: gates s) (zero s) (one s) (inv0 s) (gmw s)).

Definition target_gmw : M bool := fun s => (gmw s, s).

Definition set_inv0 (w : wire) : M unit :=
  fun s => (tt, mkSt (next s) (gates s) (zero s) (one s) (Some w) (gmw s)).
Definition set_zero (w : wire) : M unit :=
  fun s => (tt, mkSt (next s) (gates s) (Some w) (one s) (inv0 s) (gmw s)).
Definition set_one (w : wire) : M unit :=
  fun s => (tt, mkSt (next s) (gates s) (zero s) (Some w) (inv0 s) (gmw s)).

(* Compiler.InvI0Wire *)
Definition inv_i0_wire : M wire :=
  fun s => match inv0 s with
           | Some w => (w, s)
           | None => (w <- fresh;; set_inv0 w;; emit INV in0 0 w;; ret w) s
           end.

(* Compiler.ZeroWire: AND(in0, INV(in0)) *)
Definition zero_wire : M wire :=
  fun s => match zero s with
           | Some w => (w, s)
           | None => (w <- fresh;; set_zero w;; i <- inv_i0_wire;; emit AND in0 i w;; ret w) s
           end.

(* Compiler.OneWire: XOR(in0, INV(in0)) *)
Definition one_wire : M wire :=
  fun s => match one s with
           | Some w => (w, s)
           | None => (w <- fresh;; set_one w;; i <- inv_i0_wire;; emit XOR in0 i w;; ret w) s
           end.

(* Compiler.INV: o = XOR(i, OneWire) *)
Definition cc_inv (i o : wire) : M unit := w1 <- one_wire;; emit XOR i w1 o.

(* Compiler.OR: o = (a xor b) xor (a and b) *)
Definition cc_or (a b o : wire) : M unit :=
  xorAB <- fresh;; emit XOR a b xorAB;;
  andAB <- fresh;; emit AND a b andAB;;
  emit XOR xorAB andAB o.

(* Compiler.ID *)
Definition cc_id (i o : wire) : M unit := z <- zero_wire;; emit XOR i z o.

(* Compiler.Pad *)
Definition pad (ws : list wire) (n : nat) : M (list wire) :=
  if Nat.leb n (length ws) then ret ws
  else z <- zero_wire;; ret (ws ++ repeat z (n - length ws)).

(* Compiler.ZeroPad *)
Definition zero_pad (x y : list wire) : M (list wire * list wire) :=
  if Nat.eqb (length x) (length y) then ret (x, y)
  else let mx := Nat.max (length x) (length y) in
       z <- zero_wire;;
       ret (x ++ repeat z (mx - length x), y ++ repeat z (mx - length y)).

(* Compiler.ShiftLeft (used by the Karatsuba multiplier with count+len(w) <= size
   or count < size; copy truncates) *)
Definition shift_left (w : list wire) (size count : nat) : M (list wire) :=
  let build := fun z =>
    let body := firstn (size - count) w in
    firstn size (repeat z count ++ body ++ repeat z (size - count - length body)) in
  if Nat.ltb 0 count || Nat.ltb (count + length w) size
  then z <- zero_wire;; ret (build z)
  else ret (build 0).

(* "for i := k; i < len(z); i++ { z[i] = cc.ZeroWire() }" *)
Definition zero_tail (z : list wire) (k : nat) : M (list wire) :=
  if Nat.ltb k (length z)
  then zw <- zero_wire;; ret (firstn k z ++ repeat zw (length z - k))
  else ret z.

Definition st0 (nwires : N) (is_gmw : bool) : st := mkSt nwires [] None None None is_gmw.

(* ---------- meaning of an emitted gate list ---------- *)
Definition gsem (op : gop) (a b : bool) : bool :=
  match op with
  | XOR => xorb a b
  | XNOR => negb (xorb a b)
  | AND => a && b
  | OR => a || b
  | INV => negb a
  end.

Definition env := wire -> bool.
Definition upd (e : env) (w : wire) (v : bool) : env :=
  fun x => if N.eqb x w then v else e x.
Definition gate_val (e : env) (g : gate) : bool := gsem (g_op g) (e (g_a g)) (e (g_b g)).

(* gate-by-gate evaluation in emission order (the list is newest first), from
   an initial assignment e0 (input wires carry the operands; every other wire
   carries an arbitrary value until a gate drives it) *)
Fixpoint eval_rev (gs : list gate) (e0 : env) : env :=
  match gs with
  | [] => e0
  | g :: r => let e := eval_rev r e0 in upd e (g_o g) (gate_val e g)
  end.

(* a wire valuation is consistent with a gate list *)
Definition holds (e : env) (g : gate) : Prop := e (g_o g) = gate_val e g.
Definition sat (e : env) (gs : list gate) : Prop := Forall (holds e) gs.

(* bit vectors, LSB first *)
Fixpoint to_N (bs : list bool) : N :=
  match bs with
  | [] => 0
  | b :: r => N.b2n b + 2 * to_N r
  end.
Definition valN (e : env) (ws : list wire) : N := to_N (map e ws).

(* single assignment, no write after use: the output wire of every gate occurs
   in no earlier gate and is not one of the [ninp] input wires.  Under this
   condition gate-by-gate evaluation yields a consistent valuation. *)
Definition gate_wires (g : gate) : list wire := [g_a g; g_b g; g_o g].
Fixpoint mentions (w : wire) (gs : list gate) : bool :=
  match gs with
  | [] => false
  | g :: r => N.eqb w (g_a g) || N.eqb w (g_b g) || N.eqb w (g_o g) || mentions w r
  end.
Fixpoint wfc_b (ninp : N) (gs : list gate) : bool :=
  match gs with
  | [] => true
  | g :: r => negb (N.ltb (g_o g) ninp) && negb (N.eqb (g_o g) (g_a g)) && negb (N.eqb (g_o g) (g_b g))
              && negb (mentions (g_o g) r) && wfc_b ninp r
  end.
