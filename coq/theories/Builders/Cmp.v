(* Cmp.v — /repo/compiler/circuits/circ_comparators.go
   intComparator, uintComparator and the 8 ordered comparators, NewEqComparator,
   NewNeqComparator, NewLogicalAND/OR, NewBitSetTest, NewBitClrTest.
   No proofs in this file. *)
From Coq Require Import NArith List Bool Arith.
From Mpc Require Import Builders.Emit Builders.Mux.
Import ListNotations.
Open Scope monad_scope.

(* the comparison chain; [last] = Some r0 makes the last cout r[0] (uintComparator) *)
Fixpoint cmp_loop (cin : wire) (x y : list wire) (last : option wire) : M wire :=
  match x, y with
  | xi :: x', yi :: y' =>
      w1 <- fresh;;
      emit XNOR cin yi w1;;
      w2 <- fresh;;
      emit XOR cin xi w2;;
      w3 <- fresh;;
      emit AND w1 w2 w3;;
      match x', last with
      | [], Some r0 => emit XOR cin w3 r0;; ret r0
      | _, _ => cout <- fresh;; emit XOR cin w3 cout;; cmp_loop cout x' y' last
      end
  | _, _ => ret cin
  end.

(* intComparator(cc, cin, x, y, r): x > y if cin = 0, x >= y if cin = 1 (two's complement) *)
Definition int_comparator (cin : wire) (x y r : list wire) : M unit :=
  '(x, y) <- zero_pad x y;;
  cout <- cmp_loop cin x y None;;
  let sign := (length y - 1)%nat in
  let negBit := nth sign y 0%N in
  cond <- fresh;;
  emit XOR (nth sign x 0%N) (nth sign y 0%N) cond;;
  new_mux [cond] [negBit] [cout] r.

(* uintComparator *)
Definition uint_comparator (cin : wire) (x y r : list wire) : M unit :=
  '(x, y) <- zero_pad x y;;
  _ <- cmp_loop cin x y (Some (nth 0 r 0%N));;
  ret tt.

Definition int_gt x y r := c <- zero_wire;; int_comparator c x y r.
Definition uint_gt x y r := c <- zero_wire;; uint_comparator c x y r.
Definition int_ge x y r := c <- one_wire;; int_comparator c x y r.
Definition uint_ge x y r := c <- one_wire;; uint_comparator c x y r.
Definition int_lt x y r := c <- zero_wire;; int_comparator c y x r.
Definition uint_lt x y r := c <- zero_wire;; uint_comparator c y x r.
Definition int_le x y r := c <- one_wire;; int_comparator c y x r.
Definition uint_le x y r := c <- one_wire;; uint_comparator c y x r.

(* flags[i] = XNOR(x[i], y[i]) *)
Fixpoint eq_flags (x y : list wire) : M (list wire) :=
  match x, y with
  | xi :: x', yi :: y' =>
      f <- fresh;;
      emit XNOR xi yi f;;
      fs <- eq_flags x' y';;
      ret (f :: fs)
  | _, _ => ret []
  end.

(* one pass "for i := 0; i < len(flags); i += 2" *)
Fixpoint eq_pairs (flags : list wire) : M (list wire) :=
  match flags with
  | a :: b :: rest =>
      f <- fresh;;
      emit AND a b f;;
      fs <- eq_pairs rest;;
      ret (f :: fs)
  | [a] => ret [a]
  | [] => ret []
  end.

(* "for len(flags) > 2" *)
Fixpoint eq_reduce (fuel : nat) (flags : list wire) : M (list wire) :=
  match fuel with
  | O => ret flags
  | S f => if Nat.ltb 2 (length flags)
           then fl <- eq_pairs flags;; eq_reduce f fl
           else ret flags
  end.

(* NewEqComparator *)
Definition eq_comparator (x y r : list wire) : M unit :=
  '(x, y) <- zero_pad x y;;
  let r0 := nth 0 r 0%N in
  if Nat.eqb (length x) 1 then emit XNOR (nth 0 x 0%N) (nth 0 y 0%N) r0
  else
    flags <- eq_flags x y;;
    flags <- eq_reduce (length flags) flags;;
    emit AND (nth 0 flags 0%N) (nth 1 flags 0%N) r0.

(* NewNeqComparator *)
Definition neq_comparator (x y r : list wire) : M unit :=
  eq <- fresh;;
  eq_comparator x y [eq];;
  cc_inv eq (nth 0 r 0%N).

(* NewLogicalAND / NewLogicalOR *)
Definition logical_and (x y r : list wire) : M unit :=
  emit AND (nth 0 x 0%N) (nth 0 y 0%N) (nth 0 r 0%N).
Definition logical_or (x y r : list wire) : M unit :=
  cc_or (nth 0 x 0%N) (nth 0 y 0%N) (nth 0 r 0%N).

(* NewBitSetTest / NewBitClrTest: returns the (possibly replaced) r *)
Definition bit_set_test (x : list wire) (index : nat) (r : list wire) : M (list wire) :=
  if Nat.ltb index (length x)
  then w <- zero_wire;; emit XOR (nth index x 0%N) w (nth 0 r 0%N);; ret r
  else w <- zero_wire;; ret [w].
Definition bit_clr_test (x : list wire) (index : nat) (r : list wire) : M (list wire) :=
  if Nat.ltb index (length x)
  then w <- one_wire;; emit XOR (nth index x 0%N) w (nth 0 r 0%N);; ret r
  else w <- one_wire;; ret [w].
