(* Div2Proof.v — NewUDividerRestoring and NewUDividerArray compute the quotient
   and the remainder for EVERY operand width, every quotient / remainder width,
   both targets, every dividend and every divisor — a zero divisor included
   (all-ones quotient, remainder = dividend). *)
From Coq Require Import NArith List Bool Arith Lia.
From Mpc Require Import Builders.Emit Builders.EmitProof Builders.Adder Builders.Sub Builders.Mux
     Builders.Div2 Builders.AdderProof Builders.SubProof Builders.KsProof Builders.MuxProof
     Builders.DivProof.
Import ListNotations.
Open Scope N_scope.

(* what the division circuits compute: for B = 0 every trial subtraction
   succeeds (quotient bits all 1) and nothing is ever subtracted *)
Definition dq (m : nat) (A B : N) : N := if B =? 0 then 2 ^ N.of_nat m - 1 else A / B.
Definition dr (A B : N) : N := if B =? 0 then A else A mod B.

(* ---------- arithmetic ---------- *)
(* one step of binary long division on the abstract state (R = partial remainder,
   bit = the next dividend bit, L = the m dividend bits below it) *)
Lemma div2_step R B bit L m (c : bool) R' :
  bit <= 1 -> L < 2 ^ N.of_nat m -> (B <> 0 -> R < B) ->
  (c = true <-> B <= 2 * R + bit) ->
  R' = (if c then 2 * R + bit - B else 2 * R + bit) ->
  dq (S m) (R * 2 ^ N.of_nat (S m) + (bit * 2 ^ N.of_nat m + L)) B
    = dq m (R' * 2 ^ N.of_nat m + L) B + 2 ^ N.of_nat m * N.b2n c /\
  dr (R * 2 ^ N.of_nat (S m) + (bit * 2 ^ N.of_nat m + L)) B = dr (R' * 2 ^ N.of_nat m + L) B /\
  (B <> 0 -> R' < B).
Proof.
  intros Hbit HL HRB Hc HR'. unfold dq, dr. rewrite !pow2_S. pose proof (pow2_pos m) as HP.
  set (P := 2 ^ N.of_nat m) in *.
  replace (R * (2 * P) + (bit * P + L)) with ((2 * R + bit) * P + L) by ring. destruct (N.eqb_spec B 0) as [E|E].
  - assert (c = true) by (apply Hc; lia). subst c B. rewrite N.sub_0_r in HR'. subst R'.
    cbn [N.b2n]. split; [lia|]. split; [reflexivity|]. intros H; congruence.
  - specialize (HRB E).
    assert (HR'B : R' < B).
    { destruct c.
      - assert (B <= 2 * R + bit) by (apply Hc; reflexivity). lia.
      - assert (~ B <= 2 * R + bit) by (intros H; apply Hc in H; discriminate). lia. }
    assert (Hsplit : 2 * R + bit = N.b2n c * B + R').
    { destruct c; cbn [N.b2n].
      - assert (B <= 2 * R + bit) by (apply Hc; reflexivity). lia.
      - lia. }
    destruct (div_step_final (2 * R + bit) B R' (N.b2n c) L P E Hsplit) as [HQ HM].
    split; [symmetry; exact HQ|]. split; [symmetry; exact HM|]. intros _. exact HR'B.
Qed.

Lemma dq_lt m R L B :
  L < 2 ^ N.of_nat m -> (B <> 0 -> R < B) -> dq m (R * 2 ^ N.of_nat m + L) B < 2 ^ N.of_nat m.
Proof.
  intros HL HRB. unfold dq. pose proof (pow2_pos m) as HP. set (P := 2 ^ N.of_nat m) in *.
  destruct (N.eqb_spec B 0) as [E|E]; [lia|].
  specialize (HRB E). apply N.div_lt_upper_bound; [exact E|].
  assert ((R + 1) * P <= B * P) by (apply N.mul_le_mono_r; lia). lia.
Qed.

Lemma dq_0 R B : (B <> 0 -> R < B) -> dq 0 R B = 0.
Proof.
  intros H. unfold dq. destruct (N.eqb_spec B 0) as [E|E]; [reflexivity|].
  apply N.div_small. auto.
Qed.

Lemma dr_small R B : (B <> 0 -> R < B) -> dr R B = R.
Proof.
  intros H. unfold dr. destruct (N.eqb_spec B 0) as [E|E]; [reflexivity|].
  apply N.mod_small. auto.
Qed.

(* x + P * X = R * P with x < P: the high part is R *)
Lemma split_hi x X R P : x < P -> x + P * X = R * P -> X = R.
Proof. intros H E. nia. Qed.

Lemma mod_pow_min v n k : v < 2 ^ N.of_nat n ->
  v mod 2 ^ N.of_nat (Nat.min k n) = v mod 2 ^ N.of_nat k.
Proof.
  intros H. destruct (Nat.le_gt_cases k n) as [C|C].
  - rewrite Nat.min_l by lia. reflexivity.
  - rewrite Nat.min_r by lia.
    assert (2 ^ N.of_nat n <= 2 ^ N.of_nat k) by (apply N.pow_le_mono_r; lia).
    rewrite !N.mod_small by lia. reflexivity.
Qed.

(* ---------- list / bit-vector helpers ---------- *)
Lemma firstn1_skipn_nth (q : list wire) i : (i < length q)%nat ->
  firstn 1 (skipn i q) = [nth i q 0].
Proof.
  revert i. induction q as [|w q IH]; intros i H; [cbn in H; lia|].
  destruct i; [reflexivity|]. cbn [skipn nth]. apply IH. cbn in H. lia.
Qed.

(* assembling the quotient: bit m on top of the m bits below, into a
   destination of any width (positions >= len q do not exist) *)
Lemma valN_firstn_S_q e (q : list wire) m Qr (c : bool) :
  valN e (firstn m q) = Qr mod 2 ^ N.of_nat (length q) -> Qr < 2 ^ N.of_nat m ->
  ((m < length q)%nat -> valN e (firstn 1 (skipn m q)) = N.b2n c) ->
  valN e (firstn (S m) q) = (Qr + 2 ^ N.of_nat m * N.b2n c) mod 2 ^ N.of_nat (length q).
Proof.
  intros H Hlt Hc. rewrite (firstn_S_split m q), valN_app, firstn_length, H.
  destruct (Nat.lt_ge_cases m (length q)) as [C|C].
  - rewrite Nat.min_l by lia. rewrite (Hc C).
    assert (HP : 2 ^ N.of_nat (S m) <= 2 ^ N.of_nat (length q)) by (apply N.pow_le_mono_r; lia).
    rewrite pow2_S in HP. pose proof (b2n_le1 c).
    rewrite !N.mod_small; [reflexivity | nia | lia].
  - rewrite Nat.min_r by lia. rewrite skipn_all2 by lia. cbn [firstn].
    rewrite valN_nil, N.mul_0_r, N.add_0_r.
    replace (N.of_nat m) with (N.of_nat (m - length q) + N.of_nat (length q)) by lia.
    rewrite N.pow_add_r.
    replace (Qr + 2 ^ N.of_nat (m - length q) * 2 ^ N.of_nat (length q) * N.b2n c)
      with (Qr + (2 ^ N.of_nat (m - length q) * N.b2n c) * 2 ^ N.of_nat (length q)) by ring.
    rewrite N.mod_add by (apply N.pow_nonzero; discriminate). reflexivity.
Qed.

Lemma zero_tail_val e (z z' : list wire) k :
  (exists zw, z' = firstn k z ++ repeat zw (length z - k)) ->
  (forall w, In w (skipn k z') -> (k <= length z)%nat -> e w = false) ->
  valN e z' = valN e (firstn k z).
Proof.
  intros (zw & ->) Z. destruct (le_lt_dec (length z) k) as [C|C].
  - replace (length z - k)%nat with 0%nat by lia. cbn [repeat]. rewrite app_nil_r. reflexivity.
  - rewrite valN_app, (valN_repeat0 e zw); [lia|].
    apply Z; [|lia]. rewrite skipn_app, firstn_length, Nat.min_l by lia.
    rewrite Nat.sub_diag, skipn_all2 by (rewrite firstn_length; lia). cbn [skipn app].
    destruct (length z - k)%nat eqn:E; [lia|]. cbn. auto.
Qed.

(* a specification with a pure part from a plain one and a state-independent fact *)
Lemma okp_of_okm_pure t {A} (m : M A) (R : A -> Prop) P :
  (forall s, R (fst (m s))) -> okm t m P -> okp t m R P.
Proof.
  intros HR H s W G. destruct (H s W G) as (a & s' & E & W' & X & HP).
  exists a, s'. split; [exact E|]. split; [exact W'|]. split; [exact X|]. split; [|exact HP].
  specialize (HR s). rewrite E in HR. exact HR.
Qed.

Lemma bind_fst_inv {A B} (m : M A) (f : A -> M B) (R : B -> Prop) s :
  (forall a s1, R (fst (f a s1))) -> R (fst (bind m f s)).
Proof. intros H. unfold bind. destruct (m s). apply H. Qed.

Lemma ks_subtractor_len x y z s : length (fst (ks_subtractor x y z s)) = length z.
Proof.
  rewrite ks_subtractor_unfold. cbv zeta.
  apply bind_fst_inv. intros x1 s1. apply bind_fst_inv. intros y1 s2.
  unfold kss_core.
  apply bind_fst_inv. intros [pinit g] s3. apply bind_fst_inv. intros w s4.
  apply bind_fst_inv. intros u5 s5. apply bind_fst_inv. intros [p' g'] s6.
  apply bind_fst_inv. intros u7 s7.
  unfold zero_tail.
  match goal with |- context [Nat.ltb ?k (length z)] => destruct (Nat.ltb_spec k (length z)) as [C|C] end.
  - apply bind_fst_inv. intros zw s8. cbn [ret fst].
    rewrite app_length, firstn_length, repeat_length. lia.
  - reflexivity.
Qed.

(* NewSubtractor, either target, result at most one wire wider than the operands *)
Lemma okp_new_subtractor_any t x y z :
  (0 < length z)%nat -> (0 < Nat.max (length x) (length y))%nat ->
  (length z <= Nat.max (length x) (length y) + 1)%nat ->
  okp t (new_subtractor x y z)
      (fun z' => length z' = length z)
      (fun z' e =>
         valN e z' = (valN e x + 2 ^ N.of_nat (length z)
                      - valN e y mod 2 ^ N.of_nat (length z)) mod 2 ^ N.of_nat (length z)).
Proof.
  intros Hz Hm Hw. destruct t.
  - (* GMW: Kogge-Stone *)
    intros s W G.
    assert (K : okp true (ks_subtractor x y z) (fun z' => length z' = length z)
              (fun z' e => valN e z' = (valN e x + 2 ^ N.of_nat (length z)
                      - valN e y mod 2 ^ N.of_nat (length z)) mod 2 ^ N.of_nat (length z))).
    { apply okp_of_okm_pure; [intros s0; apply ks_subtractor_len|].
      eapply okm_weaken; [apply okm_ks_subtractor; lia|].
      cbv beta zeta. intros z' e [_ V]. rewrite V.
      replace (Nat.min (S (Nat.max (length x) (length y))) (length z)) with (length z) by lia.
      set (P := 2 ^ N.of_nat (length z)).
      assert (NZ : P <> 0) by (apply N.pow_nonzero; discriminate).
      pose proof (N.mod_lt (valN e y) P NZ).
      replace (valN e x mod P + (P - 1 - valN e y mod P) + 1)
        with (valN e x mod P + (P - valN e y mod P)) by lia.
      replace (valN e x + P - valN e y mod P) with (valN e x + (P - valN e y mod P)) by lia.
      apply N.add_mod_idemp_l. exact NZ. }
    unfold new_subtractor, bind, target_gmw. rewrite G. exact (K s W G).
  - apply okp_new_subtractor_yao; assumption.
Qed.

(* ====================== NewUDividerRestoring ====================== *)

(* quotient bit: q[i] = MUX(borrow, 0, 1), when q has a position i *)
Lemma okm_qbit2 t tw i q :
  okm t (if Nat.ltb i (length q)
         then bind zero_wire (fun z => bind one_wire (fun o =>
                new_mux [tw] [z] [o] (firstn 1 (skipn i q))))
         else ret tt)
      (fun _ e => (i < length q)%nat ->
                  valN e (firstn 1 (skipn i q)) = N.b2n (negb (e tw))).
Proof.
  destruct (Nat.ltb_spec i (length q)) as [C|C].
  - mstep okm_zero. mstep okm_one.
    eapply okm_weaken.
    { apply okm_new_mux. rewrite firstn_length, skipn_length. cbn [length]. lia. }
    cbn beta. intros _ e H H1 H0 _. rewrite H, !valN_cons, valN_nil, H1, H0.
    destruct (e tw); reflexivity.
  - apply okm_ret. intros e Hc. lia.
Qed.

(* destination of the new partial remainder (2n wires): new wires; in the last
   iteration the upper half starts with the wires of rret *)
Lemma okp_next_r2 t i n (rret r1 : list wire) : length r1 = (2 * n)%nat ->
  okp t (if Nat.eqb i 0
         then let k := Nat.min (length rret) n in
              bind (fresh_n n) (fun lo => bind (fresh_n (n - k)) (fun hi =>
                ret (lo ++ firstn k rret ++ hi)))
         else fresh_n (length r1))
      (fun nr => length nr = (2 * n)%nat /\
                 (i = 0%nat -> exists lo hi, length lo = n /\
                    nr = lo ++ firstn (Nat.min (length rret) n) rret ++ hi))
      (fun _ _ => True).
Proof.
  intros Hl. destruct (Nat.eqb i 0) eqn:E.
  - cbv zeta.
    eapply okp_bind; [apply okp_fresh_n|]. intros lo Llo. cbv beta in Llo |- *.
    eapply okp_bind; [apply okp_fresh_n|]. intros hi Lhi. cbv beta in Lhi |- *.
    apply okp_ret; [|auto]. split.
    + rewrite !app_length, firstn_length. lia.
    + intros _. exists lo, hi. auto.
  - apply Nat.eqb_neq in E.
    eapply okp_weaken; [apply okp_fresh_n | |]; cbv beta; auto.
    intros a H. split; [lia|]. intros; lia.
Qed.

(* Invariant of the loop of NewUDividerRestoring.  After k iterations (cnt = n - k
   remain) the 2n-wire vector r carries  R * 2^n + L * 2^k : R = the partial
   remainder (below 2^k, below b when b <> 0), L = the cnt dividend bits not yet
   consumed; d carries b * 2^n.  "r << 1" (dropping r's top wire) loses nothing.
   The loop finishes the division of  R * 2^cnt + L  by b. *)
Lemma okm_udiv_restoring_loop t n : forall cnt k d q rret r,
  (k + cnt = n)%nat -> length d = (2 * n)%nat -> length r = (2 * n)%nat ->
  okm t (udiv_restoring_loop cnt n d q rret r)
      (fun _ e => forall B R L,
         valN e d = B * 2 ^ N.of_nat n ->
         valN e r = R * 2 ^ N.of_nat n + L * 2 ^ N.of_nat k ->
         L < 2 ^ N.of_nat cnt -> R < 2 ^ N.of_nat k -> (B <> 0 -> R < B) ->
         B < 2 ^ N.of_nat n ->
         valN e (firstn cnt q)
           = dq cnt (R * 2 ^ N.of_nat cnt + L) B mod 2 ^ N.of_nat (length q) /\
         (cnt <> 0%nat ->
          valN e (firstn n rret)
            = dr (R * 2 ^ N.of_nat cnt + L) B mod 2 ^ N.of_nat (length rret))).
Proof.
  induction cnt as [|i IH]; intros k d q rret r Hk Ld Lr.
  - cbn [udiv_restoring_loop]. apply okm_ret. intros e B R L _ _ HL _ HRB _.
    cbn [firstn]. rewrite valN_nil. change (2 ^ N.of_nat 0) with 1 in *.
    assert (L = 0) by lia. subst L. rewrite N.mul_1_r, N.add_0_r, dq_0 by exact HRB.
    split; [|congruence]. symmetry. apply N.mod_0_l, N.pow_nonzero. discriminate.
  - cbn [udiv_restoring_loop].
    mstep okm_zero. rename a into z0. cbv zeta.
    remember (z0 :: removelast r) as r1 eqn:Er1.
    assert (Lr1 : length r1 = (2 * n)%nat).
    { subst r1. cbn [length]. rewrite removelast_len. lia. }
    eapply okm_bind_p; [apply okp_fresh_n | intros d0 Ld0; cbv beta in Ld0 |- *].
    eapply okm_bind_p; [apply okp_new_subtractor_any; lia | intros diff Ld'; cbv beta in Ld' |- *].
    assert (Hne : diff <> []) by (intros ->; cbn in Ld'; lia).
    destruct (exists_last Hne) as (dl & tw & ->). clear Hne.
    rewrite app_length in Ld'. cbn [length] in Ld'.
    assert (Ldl : length dl = (2 * n)%nat) by lia.
    replace (length (dl ++ [tw]) - 1)%nat with (length dl) by (rewrite app_length; cbn; lia).
    rewrite skipn_app, skipn_all, Nat.sub_diag. cbn [skipn app].
    rewrite firstn_app, firstn_all, Nat.sub_diag. cbn [firstn]. rewrite app_nil_r.
    eapply okm_bind; [apply okm_qbit2 | intros u1; cbv beta].
    eapply okm_bind_p; [apply okp_next_r2; exact Lr1 | intros nr [Lnr Hnr]; cbv beta].
    eapply okm_bind; [apply okm_new_mux; lia | intros u2; cbv beta].
    eapply okm_weaken.
    { apply (IH (S k) d q rret nr); lia. }
    cbv beta. intros _ e HI Hmux _ Hq Hsub _ Hz0 B R L HD HR HL HRk HRB HB.
    (* powers: K = 2^k, I = 2^i, 2^n = 2 K I *)
    pose proof (pow2_pos k) as HK0. pose proof (pow2_pos i) as HI0.
    assert (HN : 2 ^ N.of_nat n = 2 * 2 ^ N.of_nat k * 2 ^ N.of_nat i).
    { replace n with (S (k + i)) by lia. rewrite pow2_S, Nat2N.inj_add, N.pow_add_r. ring. }
    assert (H2N : 2 ^ N.of_nat (2 * n) = 2 ^ N.of_nat n * 2 ^ N.of_nat n).
    { rewrite <- N.pow_add_r. f_equal. lia. }
    assert (H2N1 : 2 ^ N.of_nat (2 * n - 1) = 2 ^ N.of_nat n * (2 ^ N.of_nat k * 2 ^ N.of_nat i)).
    { rewrite <- !N.pow_add_r. f_equal. lia. }
    rewrite pow2_S in HL.
    set (K := 2 ^ N.of_nat k) in *. set (I := 2 ^ N.of_nat i) in *.
    set (P := 2 ^ N.of_nat n) in *.
    (* the next dividend bit and the bits below it *)
    set (bit := L / I). set (L' := L mod I).
    assert (HLs : L = bit * I + L') by (unfold bit, L'; rewrite N.mul_comm; apply N.div_mod'; lia).
    assert (HL' : L' < I) by (apply N.mod_lt; lia).
    assert (Hbit : bit <= 1) by nia.
    set (RI := 2 * R + bit).
    set (Lo := L' * (2 * K)).
    assert (HLo : Lo < P) by (unfold Lo; rewrite HN; nia).
    (* r << 1 *)
    assert (HRsmall : valN e r < 2 ^ N.of_nat (2 * n - 1)).
    { rewrite HR, H2N1. assert ((R + 1) * P <= K * P) by (apply N.mul_le_mono_r; lia).
      assert (L * K < P) by (rewrite HN; nia). nia. }
    assert (HR1 : valN e r1 = RI * P + Lo).
    { subst r1. rewrite valN_cons, valN_removelast, Lr, Hz0. cbn [N.b2n].
      rewrite N.mod_small by exact HRsmall. rewrite HR, HLs. unfold RI, Lo. rewrite HN. ring. }
    assert (HRIlt : RI < 2 * K) by (unfold RI; lia).
    assert (HR1lt : valN e r1 < 2 ^ N.of_nat (2 * n)).
    { rewrite <- Lr1. apply valN_lt. }
    assert (HDlt : valN e d < 2 ^ N.of_nat (2 * n)) by (rewrite <- Ld; apply valN_lt).
    assert (HDn : valN e dl < 2 ^ N.of_nat (2 * n)) by (rewrite <- Ldl; apply valN_lt).
    (* the subtraction and its borrow *)
    rewrite valN_app, valN_cons, valN_nil, Ldl in Hsub.
    rewrite Ld0, Lr1 in Hsub. replace (2 * n + 1)%nat with (S (2 * n)) in Hsub by lia.
    rewrite pow2_S in Hsub.
    apply div_borrow_arith in Hsub; try assumption.
    set (c := negb (e tw)).
    assert (Hc : c = true <-> B <= RI).
    { unfold c. rewrite HR1, HD in Hsub. destruct Hsub as [[Ht Hlt] | [Ht Heq]]; rewrite Ht; cbn [negb].
      - split; [discriminate|]. intros Hle.
        assert (B * P <= RI * P) by (apply N.mul_le_mono_r; exact Hle). lia.
      - split; [|reflexivity]. intros _.
        destruct (N.le_gt_cases B RI) as [G|G]; [exact G|].
        assert ((RI + 1) * P <= B * P) by (apply N.mul_le_mono_r; lia). lia. }
    set (R' := if c then RI - B else RI).
    assert (HNR : valN e nr = R' * P + Lo).
    { rewrite Hmux. unfold R', c. rewrite HR1, HD in Hsub.
      destruct Hsub as [[Ht Hlt] | [Ht Heq]]; rewrite Ht; cbn [negb].
      - exact HR1.
      - assert (B <= RI) by (apply Hc; unfold c; rewrite Ht; reflexivity).
        assert (B * P <= RI * P) by (apply N.mul_le_mono_r; assumption).
        rewrite N.mul_sub_distr_r. lia. }
    destruct (div2_step R B bit L' i c R' Hbit HL' HRB Hc eq_refl) as (SQ & SR & SB).
    fold I in SQ, SR. rewrite <- HLs in SQ, SR.
    assert (HR'lt : R' < 2 * K) by (unfold R'; destruct c; lia).
    destruct (HI B R' L') as [IQ IRm]; try assumption.
    { rewrite HNR, pow2_S. unfold Lo. fold K. ring. }
    { rewrite pow2_S. exact HR'lt. }
    split.
    + rewrite SQ. apply valN_firstn_S_q; [exact IQ | apply dq_lt; assumption | exact Hq].
    + intros _. rewrite SR. destruct i as [|i'].
      * (* last iteration: the upper half of nr starts with rret *)
        destruct (Hnr eq_refl) as (lo & hi & Llo & Enr).
        change (2 ^ N.of_nat 0) with 1 in *. assert (HL0 : L' = 0) by lia.
        assert (HKP : 2 * K = P) by (rewrite HN; unfold I; change (2 ^ N.of_nat 0) with 1; lia).
        set (kk := Nat.min (length rret) n) in *.
        assert (Lf : length (firstn kk rret) = kk) by (rewrite firstn_length; unfold kk; lia).
        rewrite Enr, valN_app, valN_app, Llo, Lf in HNR. fold P in HNR.
        unfold Lo in HNR. replace (L' * (2 * K)) with 0 in HNR by (rewrite HL0; lia).
        rewrite N.add_0_r in HNR.
        apply split_hi in HNR; [|unfold P; rewrite <- Llo; apply valN_lt].
        assert (Hf : valN e (firstn kk rret) = R' mod 2 ^ N.of_nat kk).
        { apply N.mod_unique with (q := valN e hi).
          - rewrite <- Lf at 2. apply valN_lt.
          - rewrite <- HNR. lia. }
        replace (firstn n rret) with (firstn kk rret).
        2:{ unfold kk. destruct (Nat.le_gt_cases (length rret) n) as [C|C].
            - rewrite Nat.min_l by lia. rewrite !firstn_all2 by lia. reflexivity.
            - rewrite Nat.min_r by lia. reflexivity. }
        rewrite Hf. replace (R' * I + L') with R' by (rewrite HL0; unfold I; cbn; lia).
        rewrite dr_small by exact SB.
        unfold kk. apply mod_pow_min. fold P. lia.
      * apply IRm. discriminate.
Qed.

(* NewUDividerRestoring: every target, every operand width (n = max >= 1), every
   quotient and remainder width (including 0 = nil), every dividend, EVERY divisor:
   the low min(n, len q) quotient wires carry (a / b) mod 2^len(q) and the low
   min(n, len rret) remainder wires (a mod b) mod 2^len(rret); for b = 0 the
   quotient is all ones and the remainder is the dividend.  Destination wires at
   positions >= n are not driven by this builder. *)
Theorem okm_udivider_restoring t a b q rret :
  (1 <= Nat.max (length a) (length b))%nat ->
  okm t (udivider_restoring a b q rret)
      (fun _ e =>
         let n := Nat.max (length a) (length b) in
         let A := valN e a in
         let B := valN e b in
         valN e (firstn n q)
           = (if B =? 0 then 2 ^ N.of_nat n - 1 else A / B) mod 2 ^ N.of_nat (length q) /\
         valN e (firstn n rret)
           = (if B =? 0 then A else A mod B) mod 2 ^ N.of_nat (length rret)).
Proof.
  intros Hm. unfold udivider_restoring.
  pstep okp_zero_pad. destruct a0 as [a' b']. cbn [fst snd] in *. destruct H as [Sa Sb].
  pose proof (pad_shape_len _ _ _ Sa) as La. pose proof (pad_shape_len _ _ _ Sb) as Lb.
  cbv zeta. set (n := Nat.max (length a) (length b)) in *.
  assert (La' : length a' = n) by lia. assert (Lb' : length b' = n) by lia.
  rewrite La', Lb'.
  replace (Nat.eqb n 0) with false by (symmetry; apply Nat.eqb_neq; lia).
  mstep okm_zero. rename a0 into z.
  eapply okm_weaken.
  { apply (okm_udiv_restoring_loop t n n 0%nat (repeat z n ++ b') q rret (a' ++ repeat z n));
      rewrite ?app_length, ?repeat_length; unfold wire in *; lia. }
  cbv beta. intros _ e HI Hz [Za Zb].
  pose proof (pad_val e a' a _ Sa Za) as Va. pose proof (pad_val e b' b _ Sb Zb) as Vb.
  destruct (HI (valN e b) 0 (valN e a)) as [HQ HRm].
  - rewrite valN_app, repeat_length, valN_repeat0, Vb by exact Hz. ring.
  - rewrite valN_app, (valN_repeat0 e z) by exact Hz. change (2 ^ N.of_nat 0) with 1.
    rewrite Va. ring.
  - rewrite <- Va, <- La'. apply valN_lt.
  - cbn. lia.
  - intros; lia.
  - rewrite <- Vb, <- Lb'. apply valN_lt.
  - rewrite N.mul_0_l, N.add_0_l in HQ, HRm. split; [exact HQ|]. apply HRm. lia.
Qed.

(* non-vacuity / concrete run: n = 3, a = wires 0..2, b = 3..5, q = 6..8, r = 9..11:
   single-assignment, 7 / 5 = 1 rem 2, 6 / 3 = 2 rem 0, and 5 / 0 = 7 rem 5 *)
Example udiv_restoring_run :
  let '(_, s') := udivider_restoring [0; 1; 2] [3; 4; 5] [6; 7; 8] [9; 10; 11] (st0 12 false) in
  let e1 := eval_rev (gates s') (fun w => match w with 0 | 1 | 2 | 3 | 5 => true | _ => false end) in
  let e2 := eval_rev (gates s') (fun w => match w with 1 | 2 | 3 | 4 => true | _ => false end) in
  let e3 := eval_rev (gates s') (fun w => match w with 0 | 2 => true | _ => false end) in
  wfc_b 6 (gates s') = true /\
  (valN e1 [0; 1; 2], valN e1 [3; 4; 5], valN e1 [6; 7; 8], valN e1 [9; 10; 11]) = (7, 5, 1, 2) /\
  (valN e2 [0; 1; 2], valN e2 [3; 4; 5], valN e2 [6; 7; 8], valN e2 [9; 10; 11]) = (6, 3, 2, 0) /\
  (valN e3 [0; 1; 2], valN e3 [3; 4; 5], valN e3 [6; 7; 8], valN e3 [9; 10; 11]) = (5, 0, 7, 5).
Proof. vm_compute. repeat split. Qed.

(* ====================== NewUDividerArray ====================== *)

Lemma okp_uda_binv t : forall b,
  okp t (uda_binv b) (fun ws => length ws = length b)
      (fun ws e => map e ws = map negb (map e b)).
Proof.
  induction b as [|bi b IH]; cbn [uda_binv].
  - apply okp_ret; auto.
  - eapply okp_bind; [apply okp_of_okm, okm_fresh|]. intros w _. cbv beta.
    eapply okp_bind; [apply okp_of_okm, okm_cc_inv|]. intros u _. cbv beta.
    eapply okp_bind; [apply IH|]. intros ws Hl. cbv beta.
    apply okp_ret; [cbn; congruence|]. intros e Hws Hinv _. cbn [map]. rewrite Hinv, Hws. reflexivity.
Qed.

(* a row of full adders adds: sums + 2^len * carry-out = rin + bw + carry-in *)
Lemma okp_uda_adders t : forall rin bw cin, length rin = length bw ->
  okp t (uda_adders rin bw cin)
      (fun p => length (fst p) = length rin)
      (fun p e => valN e (fst p) + 2 ^ N.of_nat (length rin) * N.b2n (e (snd p))
                  = valN e rin + valN e bw + N.b2n (e cin)).
Proof.
  induction rin as [|ri rin IH]; intros bw cin Hl.
  - destruct bw; [|discriminate]. cbn [uda_adders]. apply okp_ret; [reflexivity|].
    intros e. cbn [fst snd length]. rewrite !valN_nil. change (2 ^ N.of_nat 0) with 1. lia.
  - destruct bw as [|b bw]; [discriminate|]. cbn [uda_adders].
    eapply okp_bind; [apply okp_of_okm, okm_fresh|]. intros co _. cbv beta.
    eapply okp_bind; [apply okp_of_okm, okm_fresh|]. intros ro _. cbv beta.
    eapply okp_bind; [apply okp_of_okm, okm_full_adder|]. intros u _. cbv beta.
    eapply okp_bind; [apply (IH bw co); cbn in Hl; lia|]. intros [ros c] Hlr. cbv beta iota.
    cbn [fst snd] in *.
    apply okp_ret; [cbn [fst length]; congruence|].
    intros e Hih [Hs Hco] _ _. cbn [fst snd length]. rewrite !valN_cons, pow2_S.
    specialize (Hco co eq_refl).
    pose proof (fa_arith (e ri) (e b) (e cin)) as FA. rewrite <- Hs, <- Hco in FA. nia.
Qed.

(* the MUX loop keeps the difference where the carry is 1 and restores rIn otherwise *)
Lemma okp_uda_mux_loop t last c : forall k rout rin r,
  (k <= length rout)%nat -> (k <= length rin)%nat ->
  okp t (uda_mux_loop last c k rout rin r)
      (fun res => length res = k /\
                  (last = true -> firstn (Nat.min k (length r)) res = firstn (Nat.min k (length r)) r))
      (fun res e => map e res = if e c then map e (firstn k rout) else map e (firstn k rin)).
Proof.
  induction k as [|x IH]; intros rout rin r Ho Hi; cbn [uda_mux_loop].
  - apply okp_ret; [split; [reflexivity|intros _; reflexivity]|]. intros e. destruct (e c); reflexivity.
  - eapply okp_bind with (R := fun ro => last = true -> (x < length r)%nat -> ro = nth x r 0)
                         (P := fun _ _ => True).
    { destruct (last && Nat.ltb x (length r)) eqn:E.
      - apply okp_ret; auto.
      - eapply okp_weaken; [apply okp_of_okm, okm_fresh| |]; cbv beta; auto.
        intros a _ Hl Hx. apply andb_false_iff in E. destruct E as [E|E]; [congruence|].
        apply Nat.ltb_ge in E. lia. }
    intros ro Hro. cbv beta.
    assert (L1 : length (firstn 1 (skipn x rout)) = 1%nat) by (rewrite firstn_length, skipn_length; lia).
    assert (L2 : length (firstn 1 (skipn x rin)) = 1%nat) by (rewrite firstn_length, skipn_length; lia).
    eapply okp_bind; [apply okp_of_okm, okm_new_mux_bits; cbn [length]; lia|]. intros u _. cbv beta.
    eapply okp_bind; [apply (IH rout rin r); lia|]. intros lo [Llo Hlo]. cbv beta.
    apply okp_ret.
    + split; [rewrite app_length; cbn [length]; lia|]. intros Hl.
      destruct (Nat.lt_ge_cases x (length r)) as [C|C].
      * rewrite Nat.min_l by lia. rewrite (firstn_S_split x r), firstn1_skipn_nth by lia.
        rewrite <- (Hro Hl C). rewrite firstn_all2 by (rewrite app_length; cbn [length]; lia).
        f_equal. specialize (Hlo Hl). rewrite Nat.min_l in Hlo by lia.
        rewrite <- Hlo. symmetry. apply firstn_all2. lia.
      * rewrite Nat.min_r by lia. specialize (Hlo Hl). rewrite Nat.min_r in Hlo by lia.
        rewrite firstn_app. replace (length r - length lo)%nat with 0%nat by lia.
        cbn [firstn]. rewrite app_nil_r. exact Hlo.
    + intros e Hmap Hmux _. rewrite map_app, Hmap, Hmux.
      rewrite !(firstn_S_split x), !map_app. destruct (e c); reflexivity.
Qed.

Lemma to_N_map_negb e (ws : list wire) :
  to_N (map negb (map e ws)) + valN e ws + 1 = 2 ^ N.of_nat (length ws).
Proof. unfold valN. rewrite to_N_negb, map_length. reflexivity. Qed.

(* Invariant of the row loop of NewUDividerArray: ra = the dividend bits not yet
   consumed (most significant first), the low n wires of rout = the partial
   remainder R (below 2^k after k rows, below b when b <> 0), binv = NOT b. *)
Lemma okp_uda_rows t n : forall ra k binv q r rout,
  (k + length ra = n)%nat -> length binv = n -> (n <= length rout)%nat ->
  okp t (uda_rows ra n binv q r rout)
      (fun res => (ra = [] -> res = rout) /\
                  (ra <> [] -> length res = S n /\
                     firstn (Nat.min (S n) (length r)) res = firstn (Nat.min (S n) (length r)) r))
      (fun res e => forall B R,
         valN e binv + B + 1 = 2 ^ N.of_nat n ->
         valN e (firstn n rout) = R -> R < 2 ^ N.of_nat k -> (B <> 0 -> R < B) ->
         let A' := R * 2 ^ N.of_nat (length ra) + valN e (rev ra) in
         valN e (firstn (length ra) q) = dq (length ra) A' B mod 2 ^ N.of_nat (length q) /\
         valN e (firstn n res) = dr A' B).
Proof.
  induction ra as [|ai ra IH]; intros k binv q r rout Hk Lb Lo.
  - cbn [uda_rows]. apply okp_ret; [split; [reflexivity|congruence]|].
    intros e B R _ HR _ HRB. cbv zeta. cbn [length rev firstn]. rewrite !valN_nil.
    change (2 ^ N.of_nat 0) with 1. rewrite N.mul_1_r, N.add_0_r, dq_0, dr_small by exact HRB.
    split; [|exact HR]. symmetry. apply N.mod_0_l, N.pow_nonzero. discriminate.
  - cbn [uda_rows]. cbv zeta. cbn [length] in Hk.
    set (i := length ra) in *.
    remember (ai :: firstn n rout) as rin eqn:Erin.
    assert (Lrin : length rin = S n) by (subst rin; cbn [length]; rewrite firstn_length; lia).
    eapply okp_bind; [apply okp_of_okm, okm_one|]. intros cin _. cbv beta.
    eapply okp_bind; [apply okp_of_okm, okm_one|]. intros o _. cbv beta.
    eapply okp_bind; [apply (okp_uda_adders t rin (binv ++ [o]) cin); rewrite app_length; cbn [length]; lia|].
    intros [rout1 c] Lr1. cbn [fst snd] in Lr1. cbv beta iota.
    eapply okp_bind with (R := fun _ => True)
      (P := fun _ e => (i < length q)%nat -> e (nth i q 0) = e c).
    { destruct (Nat.ltb_spec i (length q)) as [C|C].
      - eapply okp_bind; [apply okp_of_okm, okm_fresh|]. intros w _. cbv beta.
        eapply okp_bind; [apply okp_of_okm, okm_cc_inv|]. intros u _. cbv beta.
        eapply okp_weaken; [apply okp_of_okm, okm_cc_inv | auto |].
        cbv beta. intros _ e _ H2 H1 _ _. rewrite H2, H1. apply negb_involutive.
      - apply okp_ret; auto. intros e Hc. lia. }
    intros u _. cbv beta.
    replace (n + 1)%nat with (S n) by lia.
    eapply okp_bind; [apply (okp_uda_mux_loop t (Nat.eqb i 0) c (S n) rout1 rin r); lia|].
    intros rout2 [Lr2 Hr2]. cbv beta.
    eapply okp_weaken; [apply (IH (S k) binv q r rout2); lia | |].
    + (* pure part *)
      intros res [Hnil Hcons]. split; [discriminate|]. intros _.
      destruct ra as [|a2 ra'].
      * rewrite (Hnil eq_refl). split; [exact Lr2|]. apply Hr2. reflexivity.
      * apply Hcons. discriminate.
    + (* values *)
      cbv beta. intros res e _ HI Hmux Hq Hadd Ho Hcin B R HBinv HRv HRk HRB. cbv zeta.
      cbn [fst snd] in Hadd.
      pose proof (pow2_pos k) as HK0. pose proof (pow2_pos i) as HI0.
      assert (HN : 2 ^ N.of_nat n = 2 * 2 ^ N.of_nat k * 2 ^ N.of_nat i).
      { replace n with (S (k + i)) by lia. rewrite pow2_S, Nat2N.inj_add, N.pow_add_r. ring. }
      set (K := 2 ^ N.of_nat k) in *. set (I := 2 ^ N.of_nat i) in *.
      set (P := 2 ^ N.of_nat n) in *.
      set (bit := N.b2n (e ai)). pose proof (b2n_le1 (e ai)) as Hbit. fold bit in Hbit.
      set (RI := 2 * R + bit).
      assert (HRI : valN e rin = RI).
      { subst rin. rewrite valN_cons, HRv. unfold RI, bit. lia. }
      assert (HRIlt : RI < 2 * K) by (unfold RI; lia).
      assert (HKP : 2 * K <= P) by (rewrite HN; nia).
      assert (HBlt : B < P) by lia.
      rewrite Lrin, pow2_S, HRI, valN_app, valN_cons, valN_nil, Lb, Ho, Hcin in Hadd.
      cbn [N.b2n] in Hadd. fold P in Hadd.
      assert (HR1lt : valN e rout1 < 2 * P).
      { unfold P. rewrite <- pow2_S, <- Lrin, <- Lr1. apply valN_lt. }
      remember (e c) as cb eqn:Ecb.
      assert (Hc : cb = true <-> B <= RI).
      { destruct cb; cbn [N.b2n] in Hadd; split; intros H0; [lia | reflexivity | discriminate | exfalso; lia]. }
      set (R' := if cb then RI - B else RI).
      assert (HR2 : valN e rout2 = R').
      { assert (E2 : valN e rout2 = if cb then valN e rout1 else valN e rin).
        { unfold valN. rewrite Hmux, !firstn_all2 by lia. destruct cb; reflexivity. }
        rewrite E2. unfold R'. destruct cb; cbn [N.b2n] in Hadd; lia. }
      assert (HR'lt : R' < 2 * K) by (unfold R'; destruct cb; lia).
      destruct (div2_step R B bit (valN e (rev ra)) i cb R' Hbit) as (SQ & SR & SB);
        try assumption; try reflexivity.
      { change (valN e (rev ra) < 2 ^ N.of_nat (length ra)).
        rewrite <- (rev_length ra). apply valN_lt. }
      destruct (HI B R') as [IQ IRm]; try assumption.
      { rewrite valN_firstn, HR2. apply N.mod_small. lia. }
      { rewrite pow2_S. exact HR'lt. }
      cbv zeta in IQ, IRm. fold i in IQ, IRm. fold I in IQ, IRm, SQ, SR.
      assert (Hrev : R * 2 ^ N.of_nat (length (ai :: ra)) + valN e (rev (ai :: ra))
                     = R * 2 ^ N.of_nat (S i) + (bit * I + valN e (rev ra))).
      { cbn [rev length]. fold i. rewrite valN_app, valN_cons, valN_nil, rev_length. fold i I bit. ring. }
      rewrite Hrev. cbn [length]. fold i. split.
      * rewrite SQ. apply valN_firstn_S_q; [exact IQ | | ].
        -- apply dq_lt; [|exact SB]. change (valN e (rev ra) < 2 ^ N.of_nat (length ra)).
           rewrite <- (rev_length ra). apply valN_lt.
        -- intros C. rewrite firstn1_skipn_nth by exact C.
           rewrite valN_cons, valN_nil, (Hq C). lia.
      * rewrite SR. exact IRm.
Qed.

(* NewUDividerArray: every target, every operand width (n = max >= 1), every
   quotient and remainder width (including 0 = nil), every dividend, EVERY divisor:
   the returned quotient vector carries (a / b) mod 2^len(q) and the returned
   remainder vector (a mod b) mod 2^len(r) (destination wires above n are replaced
   by the zero wire); for b = 0 the quotient is all ones (2^n - 1) and the
   remainder is the dividend. *)
Theorem okm_udivider_array t a b q r :
  (1 <= Nat.max (length a) (length b))%nat ->
  okm t (udivider_array a b q r)
      (fun p e =>
         let n := Nat.max (length a) (length b) in
         let A := valN e a in
         let B := valN e b in
         length (fst p) = length q /\ length (snd p) = length r /\
         valN e (fst p)
           = (if B =? 0 then 2 ^ N.of_nat n - 1 else A / B) mod 2 ^ N.of_nat (length q) /\
         valN e (snd p)
           = (if B =? 0 then A else A mod B) mod 2 ^ N.of_nat (length r)).
Proof.
  intros Hm. unfold udivider_array.
  pstep okp_zero_pad. destruct a0 as [a' b']. cbn [fst snd] in *. destruct H as [Sa Sb].
  pose proof (pad_shape_len _ _ _ Sa) as La. pose proof (pad_shape_len _ _ _ Sb) as Lb.
  set (n := Nat.max (length a) (length b)) in *.
  assert (La' : length a' = n) by lia. assert (Lb' : length b' = n) by lia.
  pstep okp_uda_binv. rename a0 into binv, H into Lbinv. cbv beta in Lbinv.
  rewrite La', Lb'.
  replace (Nat.eqb n 0) with false by (symmetry; apply Nat.eqb_neq; lia).
  eapply okm_bind_p with (R := fun r0 : list wire => length r0 = n)
                         (P := fun r0 e => valN e r0 = 0).
  { eapply okp_bind; [apply okp_of_okm, okm_zero|]. intros z _. cbv beta.
    apply okp_ret; [apply repeat_length|]. intros e Hz. apply valN_repeat0. exact Hz. }
  intros r0 Lr0. cbv beta.
  eapply okm_bind_p.
  { apply (okp_uda_rows t n (rev a') 0%nat binv q r r0); rewrite ?rev_length; unfold wire in *; lia. }
  intros rfin [_ Hfin]. cbv beta.
  destruct Hfin as [Lfin Efin].
  { intros E. apply (f_equal (@length wire)) in E. rewrite rev_length in E. cbn in E. lia. }
  pstep okp_zero_tail. rename a0 into q', H into Sq.
  pstep okp_zero_tail. rename a0 into r', H into Sr.
  apply okm_ret. intros e Zr Zq HI Hr0 Hbinv [Za Zb]. cbv zeta. cbn [fst snd].
  pose proof (pad_val e a' a _ Sa Za) as Va. pose proof (pad_val e b' b _ Sb Zb) as Vb.
  split; [apply (zero_tail_len q' q n Sq)|]. split; [apply (zero_tail_len r' r n Sr)|].
  rewrite (zero_tail_val e q q' n Sq Zq), (zero_tail_val e r r' n Sr Zr).
  destruct (HI (valN e b) 0) as [HQ HRm].
  - pose proof (to_N_map_negb e b') as T. rewrite <- Hbinv in T. fold (valN e binv) in T.
    rewrite Lb', Vb in T. lia.
  - rewrite firstn_all2 by lia. exact Hr0.
  - cbn. lia.
  - intros; lia.
  - cbv zeta in HQ, HRm. rewrite rev_length, rev_involutive, La', N.mul_0_l, N.add_0_l, Va in HQ, HRm.
    unfold dq, dr in HQ, HRm. split; [exact HQ|].
    (* remainder: the low min(n, len r) wires of the last row are the wires of r *)
    set (D := if valN e b =? 0 then valN e a else valN e a mod valN e b) in *.
    assert (Hlt : D < 2 ^ N.of_nat n).
    { rewrite <- HRm. eapply N.lt_le_trans; [apply valN_lt|].
      apply N.pow_le_mono_r; [discriminate|]. rewrite firstn_length. lia. }
    set (m := Nat.min n (length r)).
    assert (E1 : firstn n r = firstn m r).
    { unfold m. destruct (Nat.le_gt_cases n (length r)) as [C|C].
      - rewrite Nat.min_l by lia. reflexivity.
      - rewrite Nat.min_r by lia. rewrite !firstn_all2 by lia. reflexivity. }
    assert (E2 : firstn m r = firstn m (firstn n rfin)).
    { apply (f_equal (firstn m)) in Efin. rewrite !firstn_firstn in Efin. rewrite firstn_firstn.
      replace (Nat.min m (Nat.min (S n) (length r))) with m in Efin by (unfold m; lia).
      replace (Nat.min m n) with m by (unfold m; lia). symmetry. exact Efin. }
    rewrite E1, E2, valN_firstn, HRm. unfold m. rewrite Nat.min_comm. apply mod_pow_min. exact Hlt.
Qed.

(* non-vacuity / concrete run: n = 3: 7 / 5 = 1 rem 2, 6 / 3 = 2 rem 0, 5 / 0 = 7 rem 5 *)
Example udiv_array_run :
  let '(_, s') := udivider_array [0; 1; 2] [3; 4; 5] [6; 7; 8] [9; 10; 11] (st0 12 false) in
  let e1 := eval_rev (gates s') (fun w => match w with 0 | 1 | 2 | 3 | 5 => true | _ => false end) in
  let e2 := eval_rev (gates s') (fun w => match w with 1 | 2 | 3 | 4 => true | _ => false end) in
  let e3 := eval_rev (gates s') (fun w => match w with 0 | 2 => true | _ => false end) in
  wfc_b 6 (gates s') = true /\
  (valN e1 [0; 1; 2], valN e1 [3; 4; 5], valN e1 [6; 7; 8], valN e1 [9; 10; 11]) = (7, 5, 1, 2) /\
  (valN e2 [0; 1; 2], valN e2 [3; 4; 5], valN e2 [6; 7; 8], valN e2 [9; 10; 11]) = (6, 3, 2, 0) /\
  (valN e3 [0; 1; 2], valN e3 [3; 4; 5], valN e3 [6; 7; 8], valN e3 [9; 10; 11]) = (5, 0, 7, 5).
Proof. vm_compute. repeat split. Qed.
