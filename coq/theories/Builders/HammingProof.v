(* HammingProof.v — circuits.Hamming computes the Hamming distance of its operands
   (number of bit positions in which the zero-padded operands differ = population
   count of the xor of their values) modulo 2^(result width), for every operand
   width >= 2, every result width >= 1 and both targets. *)
From Coq Require Import NArith List Bool Arith Lia.
From Mpc Require Import Builders.Emit Builders.EmitProof Builders.Adder Builders.AdderProof
     Builders.KsProof Builders.Hamming.
Import ListNotations.
Open Scope N_scope.

(* ---------- NewAdder for either target ---------- *)
Theorem okm_new_adder : forall t x y z,
  (1 <= length z)%nat -> (1 <= Nat.max (length x) (length y))%nat ->
  okm t (new_adder x y z)
      (fun z' e => length z' = length z /\
                   valN e z' = (valN e x + valN e y) mod 2 ^ N.of_nat (length z)).
Proof.
  intros [|] x y z Hz Hm.
  - apply okm_new_adder_gmw; assumption.
  - apply okm_new_adder_yao; assumption.
Qed.

(* the length of the returned vector does not depend on the state (pure fact) *)
Definition retlen (m : M (list wire)) (n : nat) : Prop := forall s, length (fst (m s)) = n.

Lemma retlen_bind {A} (m : M A) f n : (forall a, retlen (f a) n) -> retlen (bind m f) n.
Proof. intros H s. unfold bind. destruct (m s) as [a s1]. apply H. Qed.

Lemma retlen_zero_tail z k : retlen (zero_tail z k) (length z).
Proof.
  intros s. unfold zero_tail. destruct (Nat.ltb k (length z)) eqn:E.
  - apply Nat.ltb_lt in E. unfold bind. destruct (zero_wire s) as [zw s1]. cbn.
    rewrite app_length, firstn_length, repeat_length. lia.
  - reflexivity.
Qed.

Lemma retlen_new_adder x y z : retlen (new_adder x y z) (length z).
Proof.
  unfold new_adder. apply retlen_bind. intros [|].
  - unfold ks_adder. cbv zeta.
    apply retlen_bind. intros x1. apply retlen_bind. intros y1.
    apply retlen_bind. intros [p g]. apply retlen_bind. intros [p' g'].
    apply retlen_bind. intros _. apply retlen_zero_tail.
  - unfold ripple_adder. apply retlen_bind. intros [x1 y1]. cbv zeta.
    apply retlen_bind. intros _. apply retlen_zero_tail.
Qed.

Lemma okp_of_okm_retlen t (m : M (list wire)) n P :
  okm t m P -> retlen m n -> okp t m (fun a => length a = n) P.
Proof.
  intros H L s W G. destruct (H s W G) as (a & s' & E & W' & X & HP).
  exists a, s'. split; [exact E | split; [exact W' | split; [exact X | split; [|exact HP]]]].
  specialize (L s). rewrite E in L. exact L.
Qed.

Lemma okp_new_adder t x y z :
  (1 <= length z)%nat -> (1 <= Nat.max (length x) (length y))%nat ->
  okp t (new_adder x y z) (fun z' => length z' = length z)
      (fun z' e => valN e z' = (valN e x + valN e y) mod 2 ^ N.of_nat (length z)).
Proof.
  intros Hz Hm. eapply okp_weaken.
  - apply okp_of_okm_retlen; [apply okm_new_adder; assumption | apply retlen_new_adder].
  - auto.
  - cbv beta. intros a e _ [_ H]. exact H.
Qed.

(* ---------- population count, Hamming distance of bit lists ---------- *)
Fixpoint pop_pos (p : positive) : N :=
  match p with
  | xH => 1
  | xO q => pop_pos q
  | xI q => 1 + pop_pos q
  end.
Definition popcountN (n : N) : N := match n with N0 => 0 | Npos p => pop_pos p end.

(* number of positions in which two bit lists differ *)
Fixpoint hamdist (x y : list bool) : N :=
  match x, y with
  | a :: x', b :: y' => N.b2n (xorb a b) + hamdist x' y'
  | _, _ => 0
  end.

Lemma popcountN_cons b n : popcountN (N.b2n b + 2 * n) = N.b2n b + popcountN n.
Proof. destruct b, n; reflexivity. Qed.

Lemma lxor_cons a b x y :
  N.lxor (N.b2n a + 2 * x) (N.b2n b + 2 * y) = N.b2n (xorb a b) + 2 * N.lxor x y.
Proof.
  destruct a, b, x as [|p], y as [|q]; try reflexivity; cbn;
    destruct (Pos.lxor p q); reflexivity.
Qed.

Lemma hamdist_popcount : forall x y, length x = length y ->
  hamdist x y = popcountN (N.lxor (to_N x) (to_N y)).
Proof.
  induction x as [|a x IH]; intros [|b y] H; try discriminate; [reflexivity|].
  cbn [hamdist to_N]. rewrite lxor_cons, popcountN_cons, IH by (cbn in H; lia). reflexivity.
Qed.

(* ---------- the array of partial sums ---------- *)
Definition sumv (e : env) (arr : list (list wire)) : N :=
  fold_right (fun w acc => valN e w + acc) 0 arr.

(* every vector is at most [b] wide and the widths do not increase along the array *)
Fixpoint desc (b : nat) (arr : list (list wire)) : Prop :=
  match arr with
  | [] => True
  | u :: r => (length u <= b)%nat /\ desc (length u) r
  end.
Definition posw (w : list wire) : Prop := (1 <= length w)%nat.

Lemma desc_mono b b' arr : desc b arr -> (b <= b')%nat -> desc b' arr.
Proof. destruct arr; cbn; [auto|]. intros [H1 H2] H. split; [lia|auto]. Qed.

Ltac ppstep L := eapply okp_bind; [ apply L | intros ? ?; cbv beta in * ].

Lemma okp_ham_xor t : forall a b,
  okp t (ham_xor a b)
      (fun arr => length arr = Nat.min (length a) (length b) /\
                  Forall (fun w => length w = 1%nat) arr)
      (fun arr e => sumv e arr = hamdist (map e a) (map e b)).
Proof.
  induction a as [|ai a IH]; intros b.
  - cbn. apply okp_ret; auto.
  - destruct b as [|bi b]; [cbn; apply okp_ret; auto|]. cbn [ham_xor].
    ppstep (okp_of_okm t _ _ (okm_fresh t)).
    ppstep (okp_of_okm t _ _ (okm_emit t XOR ai bi a0)).
    ppstep IH. destruct H1 as [HL HF]. apply okp_ret.
    + split; [cbn; lia|]. constructor; auto.
    + cbn. intros e HS HX _. rewrite HX. unfold sumv in HS. rewrite HS.
      destruct (xorb (e ai) (e bi)); cbn; lia.
Qed.

(* one pass of pairwise additions: the total is preserved (no addition overflows
   because the second operand of a pair is never wider than the first and the
   result is one bit wider than the first) *)
Lemma okp_ham_pairs t : forall n arr b,
  (length arr <= n)%nat -> desc b arr -> Forall posw arr ->
  okp t (ham_pairs arr)
      (fun arr' => length arr' = ((length arr + 1) / 2)%nat /\ desc (S b) arr' /\ Forall posw arr')
      (fun arr' e => sumv e arr' = sumv e arr).
Proof.
  induction n as [|n IH]; intros arr b Hn Hd Hp.
  - destruct arr; [|cbn in Hn; lia]. cbn. apply okp_ret; auto.
  - destruct arr as [|u [|v rest]].
    + cbn. apply okp_ret; auto.
    + cbn [ham_pairs]. apply okp_ret; auto. cbn in *. repeat split; auto. lia.
    + cbn [ham_pairs]. cbn [desc] in Hd. destruct Hd as (Hu & Hv & Hr).
      inversion Hp as [|? ? Pu Hp1]; subst. inversion Hp1 as [|? ? Pv Hp2]; subst.
      unfold posw in Pu, Pv.
      ppstep okp_fresh_n.
      ppstep (okp_new_adder t u v a); [unfold wire in *; lia | unfold wire in *; lia | ].
      ppstep (IH rest (length v)); [cbn in Hn; lia | exact Hr | exact Hp2 | ].
      destruct H1 as (L1 & D1 & P1). apply okp_ret.
      * split; [|split].
        -- cbn [length]. rewrite L1.
           replace (S (S (length rest)) + 1)%nat with (length rest + 1 + 1 * 2)%nat by lia.
           rewrite Nat.div_add by lia. symmetry. apply Nat.add_1_r.
        -- cbn [desc]. split; [lia|]. eapply desc_mono; [exact D1|lia].
        -- constructor; [unfold posw; lia|exact P1].
      * cbn. intros e HS HA _. unfold sumv in HS. rewrite HS, HA, H.
        replace (length u + 1)%nat with (S (length u)) by lia. rewrite pow2_S.
        pose proof (valN_lt e u) as Bu. pose proof (valN_lt e v) as Bv.
        assert (2 ^ N.of_nat (length v) <= 2 ^ N.of_nat (length u))
          by (apply N.pow_le_mono_r; lia).
        rewrite N.mod_small by lia. lia.
Qed.

Lemma okp_ham_reduce t : forall fuel arr b,
  (2 <= length arr)%nat -> (length arr <= fuel + 2)%nat -> desc b arr -> Forall posw arr ->
  okp t (ham_reduce fuel arr)
      (fun arr' => length arr' = 2%nat /\ Forall posw arr')
      (fun arr' e => sumv e arr' = sumv e arr).
Proof.
  induction fuel as [|f IH]; intros arr b H2 Hf Hd Hp.
  - cbn. apply okp_ret; auto. split; [lia|auto].
  - cbn [ham_reduce]. destruct (Nat.ltb 2 (length arr)) eqn:E.
    + apply Nat.ltb_lt in E.
      ppstep (okp_ham_pairs t (length arr) arr b); [lia | exact Hd | exact Hp | ].
      destruct H as (L1 & D1 & P1).
      assert (2 <= (length arr + 1) / 2 <= f + 2)%nat.
      { pose proof (Nat.div_mod (length arr + 1) 2 ltac:(lia)).
        pose proof (Nat.mod_upper_bound (length arr + 1) 2 ltac:(lia)). lia. }
      eapply okp_weaken; [apply (IH a (S b)); auto; lia | auto |].
      cbv beta. intros a' e _ HS HS1. congruence.
    + apply Nat.ltb_ge in E. apply okp_ret; auto. split; [lia|auto].
Qed.

(* circuits.Hamming: r = number of differing positions of the zero-padded operands,
   modulo 2^len(r) *)
Theorem okm_hamming t a b r :
  (2 <= Nat.max (length a) (length b))%nat -> (1 <= length r)%nat ->
  okm t (hamming a b r)
      (fun r' e => length r' = length r /\
                   valN e r' = popcountN (N.lxor (valN e a) (valN e b)) mod 2 ^ N.of_nat (length r)).
Proof.
  intros Hm Hr. unfold hamming.
  pstep okp_zero_pad. destruct a0 as [a' b']. cbn [fst snd] in *. destruct H as [Sa Sb].
  pose proof (pad_shape_len _ _ _ Sa) as La. pose proof (pad_shape_len _ _ _ Sb) as Lb.
  pstep okp_ham_xor. destruct H as [Larr Farr].
  assert (Hp : Forall posw a0).
  { eapply Forall_impl; [|exact Farr]. unfold posw. intros w Hw. lia. }
  assert (Hd : desc 1 a0).
  { clear - Farr. induction Farr as [|w l Hw Hl IHl]; cbn; [auto|]. split; [lia|].
    rewrite Hw. exact IHl. }
  pstep (okp_ham_reduce t (length a0) a0 1%nat); [lia | lia | exact Hd | exact Hp | ].
  destruct H as [L2 P2].
  destruct a1 as [|u [|v [|? ?]]]; try discriminate. cbn [nth].
  inversion P2 as [|? ? Pu P2']; subst. unfold posw in Pu.
  eapply okm_weaken; [apply okm_new_adder; lia|].
  cbv beta. intros r' e [HL HV] HS HX [Za Zb]. split; [exact HL|].
  rewrite HV. f_equal. cbn in HS.
  rewrite <- (pad_val e a' a _ Sa Za), <- (pad_val e b' b _ Sb Zb).
  unfold valN at 3 4. rewrite <- hamdist_popcount by (rewrite !map_length; lia).
  rewrite <- HX. lia.
Qed.

(* the same result as a count of differing positions of the zero-padded bit lists *)
Definition padb (l : list bool) (n : nat) : list bool := l ++ repeat false (n - length l).

Lemma to_N_padb l n : to_N (padb l n) = to_N l.
Proof.
  unfold padb. generalize (n - length l)%nat as k. intros k.
  induction l as [|b l IH]; cbn [app to_N].
  - induction k; cbn [repeat to_N]; [reflexivity|]. rewrite IHk. reflexivity.
  - rewrite IH. reflexivity.
Qed.

Lemma padb_length l n : length (padb l n) = Nat.max n (length l).
Proof. unfold padb. rewrite app_length, repeat_length. lia. Qed.

Corollary okm_hamming_hamdist t a b r :
  (2 <= Nat.max (length a) (length b))%nat -> (1 <= length r)%nat ->
  okm t (hamming a b r)
      (fun r' e => length r' = length r /\
                   let mx := Nat.max (length a) (length b) in
                   valN e r' = hamdist (padb (map e a) mx) (padb (map e b) mx)
                               mod 2 ^ N.of_nat (length r)).
Proof.
  intros Hm Hr. eapply okm_weaken; [apply okm_hamming; assumption|].
  cbv beta zeta. intros r' e [HL HV]. split; [exact HL|].
  rewrite hamdist_popcount by (rewrite !padb_length, !map_length; lia).
  rewrite !to_N_padb. exact HV.
Qed.

(* sanity: popcount and hamdist on samples *)
Example popcount_ex : popcountN 13 = 3. Proof. reflexivity. Qed.
Example hamdist_ex : hamdist [true; false; true] [false; false; false] = 2. Proof. reflexivity. Qed.
