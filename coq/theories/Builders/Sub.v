(* Sub.v — /repo/compiler/circuits/circ_subtractor.go
   NewFullSubtractor, NewSubtractor (ripple borrow, Yao target),
   NewKoggeStoneSubtractor (GMW target).  No proofs in this file. *)
From Coq Require Import NArith List Bool Arith.
From Mpc Require Import Builders.Emit Builders.Adder.
Import ListNotations.
Open Scope monad_scope.

(* NewFullSubtractor(cc, x, y, cin, d, cout) *)
Definition full_subtractor (x y cin d : wire) (cout : option wire) : M unit :=
  w1 <- fresh;;
  emit XNOR y cin w1;;
  emit XNOR x w1 d;;
  match cout with
  | Some cout =>
      w2 <- fresh;;
      emit XOR x cin w2;;
      w3 <- fresh;;
      emit AND w1 w2 w3;;
      emit XOR w3 cin cout
  | None => ret tt
  end.

(* the loop of NewSubtractor; note the call is NewFullSubtractor(cc, y[i], x[i], ...) *)
Fixpoint sub_loop (xs ys zs : list wire) (cin : wire) (last : option wire) : M unit :=
  match xs, ys, zs with
  | x :: xs', y :: ys', z :: zs' =>
      match xs' with
      | [] => full_subtractor y x cin z last
      | _ :: _ =>
          cout <- fresh;;
          full_subtractor y x cin z (Some cout);;
          sub_loop xs' ys' zs' cout last
      end
  | _, _, _ => ret tt
  end.

Definition ripple_subtractor (x y z : list wire) : M (list wire) :=
  '(x, y) <- zero_pad x y;;
  let x := firstn (length z) x in
  let y := firstn (length z) y in
  let n := length x in
  cin <- zero_wire;;
  let last := if Nat.ltb n (length z) then Some (nth n z 0%N) else None in
  sub_loop x y z cin last;;
  zero_tail z (n + 1).

(* bitwise preparation: bInv = INV(y[i]); p[i] = x[i] xor bInv; g[i] = x[i] and bInv *)
Fixpoint kss_pre (x y : list wire) : M (list wire * list wire) :=
  match x, y with
  | xi :: x', yi :: y' =>
      bInv <- fresh;;
      cc_inv yi bInv;;
      p <- fresh;;
      emit XOR xi bInv p;;
      g <- fresh;;
      emit AND xi bInv g;;
      '(ps, gs) <- kss_pre x' y';;
      ret (p :: ps, g :: gs)
  | _, _ => ret ([], [])
  end.

Fixpoint kss_cells (pi gi pj gj : list wire) : M (list wire * list wire) :=
  match pi, gi, pj, gj with
  | p :: pi', g :: gi', pl :: pj', gl :: gj' =>
      pg <- fresh;;
      emit AND p gl pg;;
      w <- fresh;;
      emit XOR g pg w;;
      w' <- fresh;;
      emit AND p pl w';;
      '(ps, gs) <- kss_cells pi' gi' pj' gj';;
      ret (w' :: ps, w :: gs)
  | _, _, _, _ => ret ([], [])
  end.

(* "for step := 1; step < n; step *= 2" *)
Fixpoint kss_stages (fuel step n : nat) (p g : list wire) : M (list wire * list wire) :=
  match fuel with
  | O => ret (p, g)
  | S f =>
      if Nat.ltb step n then
        '(ps, gs) <- kss_cells (skipn step p) (skipn step g) p g;;
        kss_stages f (2 * step) n (firstn step p ++ ps) (firstn step g ++ gs)
      else ret (p, g)
  end.

(* z[i] = pInit[i] xor g[i-1] for i >= 1 *)
Fixpoint kss_post (pinit g z : list wire) : M unit :=
  match pinit, g, z with
  | pi :: p', gi :: g', zi :: z' =>
      emit XOR pi gi zi;;
      kss_post p' g' z'
  | _, _, _ => ret tt
  end.

(* NewKoggeStoneSubtractor *)
Definition ks_subtractor (x y z : list wire) : M (list wire) :=
  let n := Nat.max (length x) (length y) in
  let n := if Nat.ltb n (length z) then S n else n in
  x <- pad x n;;
  y <- pad y n;;
  let trunc := Nat.ltb (length z) (length x) in
  let x := if trunc then firstn (length z) x else x in
  let y := if trunc then firstn (length z) y else y in
  let n := if trunc then length z else n in
  '(pinit, g) <- kss_pre (firstn n x) (firstn n y);;
  w <- fresh;;
  emit XOR (nth 0 g 0%N) (nth 0 pinit 0%N) w;;
  let g := w :: tl g in
  '(_, g) <- kss_stages n 1 n pinit g;;
  (match pinit, z with
   | p0 :: p', z0 :: z' =>
       cc_inv p0 z0;;
       kss_post p' g z'
   | _, _ => ret tt
   end);;
  zero_tail z n.

(* NewSubtractor *)
Definition new_subtractor (x y z : list wire) : M (list wire) :=
  t <- target_gmw;;
  if t then ks_subtractor x y z else ripple_subtractor x y z.
