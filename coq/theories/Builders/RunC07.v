(* RunC07.v — executable entry point of the C07 model for the correspondence check.
   input  = (builder target pre (operand widths...) (destination widths...) (params...) full
             ((operand values...)...))
     the harness numbers the input wires 0..ni-1 (operands in order) and the
     preallocated destination wires ni..ni+nd-1; pre = 1: ZeroWire() and
     OneWire() are created before the builder runs (as ssa.CompileCircuit does)
   output = (ngates hash wfc dbu (dest1' ...) (dest2' ...) (gates...) ((value1 value2)...))
     the last element: for every tuple of operand values of the input the numbers carried by
     the two destination vectors when the emitted gate list is evaluated gate by gate
     (EvalFast.evalm = Emit.eval_rev); the harness compares them with the outputs of the
     real compiled circuit on the same operands
     gates = ((op a b o)...) in emission order with wires canonically renumbered
     (inputs and destinations keep their numbers, every other wire is numbered
     by first appearance); only when full = 1, else ().
     hash = FNV-1a/64 over the two words op+8a, b+2^32 o of every gate (canonical numbers);
     wfc = every gate output is a wire not seen before (single assignment, no
     write after use); dbu = every gate input is an input wire or an earlier
     gate output; dest' = the destination lists as the builder leaves them
     (-1 for a wire that is neither input nor destination nor in any gate). *)
From Coq Require Import ZArith NArith List Bool Arith FMapPositive.
From Mpc Require Import Gen.Consts Gen.Thresholds Base.Sx
  Builders.Emit Builders.Adder Builders.Sub Builders.Mux Builders.Cmp Builders.Bitwise
  Builders.Index Builders.Hamming Builders.Mult Builders.Gmwdiv Builders.Div Builders.Div2 Builders.EvalFast.
Import ListNotations.
Open Scope monad_scope.

Definition op_code (o : gop) : Z :=
  match o with
  | XOR => circuit_XOR | XNOR => circuit_XNOR | AND => circuit_AND
  | OR => circuit_OR | INV => circuit_INV
  end.

Definition seqN (from : N) (n : nat) : list wire := map (fun i => (from + N.of_nat i)%N) (seq 0 n).

(* ---- canonical renumbering ---- *)
Definition key (w : wire) : positive := N.succ_pos w.
Record canon := mkCanon { cmap : PositiveMap.t N; cnext : N }.

Definition canon_wire (fixed : N) (c : canon) (w : wire) : N * canon :=
  if N.ltb w fixed then (w, c)
  else match PositiveMap.find (key w) (cmap c) with
       | Some k => (k, c)
       | None => (cnext c, mkCanon (PositiveMap.add (key w) (cnext c) (cmap c)) (N.succ (cnext c)))
       end.

Definition canon_gate (fixed : N) (c : canon) (g : gate) : gate * canon :=
  let '(a, c) := canon_wire fixed c (g_a g) in
  let '(b, c) := match g_op g with INV => (0%N, c) | _ => canon_wire fixed c (g_b g) end in
  let '(o, c) := canon_wire fixed c (g_o g) in
  (mkG (g_op g) a b o, c).

(* gates in emission order *)
Fixpoint canon_gates (fixed : N) (c : canon) (gs : list gate) (acc : list gate) : list gate * canon :=
  match gs with
  | [] => (rev_append acc [], c)
  | g :: r => let '(g', c') := canon_gate fixed c g in canon_gates fixed c' r (g' :: acc)
  end.

Definition canon_lookup (fixed : N) (c : canon) (w : wire) : Z :=
  if N.ltb w fixed then Z.of_N w
  else match PositiveMap.find (key w) (cmap c) with
       | Some k => Z.of_N k
       | None => (-1)%Z
       end.

(* ---- hash ---- *)
Definition fnv_prime : N := 1099511628211.
Definition fnv_basis : N := 14695981039346656037.
Definition mask64 : N := 18446744073709551615.
Definition fnv_step (h v : N) : N := N.land (fnv_prime * N.lxor h v) mask64.
Definition hash_gate (h : N) (g : gate) : N :=
  fnv_step (fnv_step h (Z.to_N (op_code (g_op g)) + 8 * g_a g)) (g_b g + N.shiftl (g_o g) 32).
Definition hash_gates (gs : list gate) : N := fold_left hash_gate gs fnv_basis.

(* ---- structural checks on the canonical list (emission order) ---- *)
Definition pset := PositiveMap.t unit.
Definition pmem (w : wire) (s : pset) : bool :=
  match PositiveMap.find (key w) s with Some _ => true | None => false end.
Definition padd (w : wire) (s : pset) : pset := PositiveMap.add (key w) tt s.

(* wfc: output never seen before *)
Fixpoint wfc_fast (ninp : N) (gs : list gate) (seen : pset) : bool :=
  match gs with
  | [] => true
  | g :: r =>
      let o := g_o g in
      if N.ltb o ninp || N.eqb o (g_a g) || N.eqb o (g_b g) || pmem o seen then false
      else wfc_fast ninp r (padd o (padd (g_a g) (padd (g_b g) seen)))
  end.

(* dbu: inputs defined before use *)
Fixpoint dbu_fast (ninp : N) (gs : list gate) (defd : pset) : bool :=
  match gs with
  | [] => true
  | g :: r =>
      let ok := fun w => N.ltb w ninp || pmem w defd in
      if ok (g_a g) && (match g_op g with INV => true | _ => ok (g_b g) end)
      then dbu_fast ninp r (padd (g_o g) defd)
      else false
  end.

(* ---- builders ---- *)
Definition nthw (l : list (list wire)) (i : nat) : list wire := nth i l [].
Definition nthn (l : list nat) (i : nat) : nat := nth i l 0%nat.

Definition unit2 (m : M unit) (d1 d2 : list wire) : M (list wire * list wire) := m;; ret (d1, d2).
Definition list1 (m : M (list wire)) (d2 : list wire) : M (list wire * list wire) := z <- m;; ret (z, d2).

Local Open Scope nat_scope.
Definition run_builder (b : nat) (ops dst : list (list wire)) (prm : list nat) : M (list wire * list wire) :=
  let x := nthw ops 0 in let y := nthw ops 1 in let c := nthw ops 2 in
  let z := nthw dst 0 in let r := nthw dst 1 in
  match b with
  | 0 => list1 (new_adder x y z) r
  | 1 => list1 (new_subtractor x y z) r
  | 2 => list1 (new_multiplier multiplierArrayTresholds (nthn prm 0) x y z) r
  | 3 => list1 (array_multiplier x y z) r
  | 4 => list1 (karatsuba (S (Nat.max (length x) (length y))) (nthn prm 0) x y z) r
  | 5 => list1 (wallace_multiplier x y z) r
  | 6 => unit2 (new_udivider x y z r) z r
  | 7 => unit2 (new_idivider x y z r) z r
  | 8 => unit2 (int_gt x y z) z r
  | 9 => unit2 (uint_gt x y z) z r
  | 10 => unit2 (int_ge x y z) z r
  | 11 => unit2 (uint_ge x y z) z r
  | 12 => unit2 (int_lt x y z) z r
  | 13 => unit2 (uint_lt x y z) z r
  | 14 => unit2 (int_le x y z) z r
  | 15 => unit2 (uint_le x y z) z r
  | 16 => unit2 (eq_comparator x y z) z r
  | 17 => unit2 (neq_comparator x y z) z r
  | 18 => unit2 (logical_and x y z) z r
  | 19 => unit2 (logical_or x y z) z r
  | 20 => list1 (bit_set_test x (nthn prm 0) z) r
  | 21 => list1 (bit_clr_test x (nthn prm 0) z) r
  | 22 => unit2 (new_mux x y c z) z r
  | 23 => list1 (new_index (nthn prm 0) x y z) r
  | 24 => unit2 (binary_and x y z) z r
  | 25 => unit2 (binary_clear x y z) z r
  | 26 => unit2 (binary_or x y z) z r
  | 27 => unit2 (binary_xor x y z) z r
  | 28 => list1 (hamming x y z) r
  | 29 => list1 (ks_adder x y z) r
  | 30 => list1 (ks_subtractor x y z) r
  | 31 => unit2 (udivider_long x y z r) z r
  | 32 => unit2 (udivider_restoring x y z r) z r
  | 33 => udivider_array x y z r
  | _ => ret (z, r)
  end.

Local Close Scope nat_scope.

(* split the wire range starting at [from] into consecutive lists of the given widths *)
Fixpoint split_range (from : N) (ws : list nat) : list (list wire) * N :=
  match ws with
  | [] => ([], from)
  | w :: r => let '(l, e) := split_range (from + N.of_nat w)%N r in (seqN from w :: l, e)
  end.

(* initial assignment: operand j (width w_j) carries value v_j on its input wires *)
Fixpoint operand_bits (opw : list nat) (vals : list N) : list bool :=
  match opw with
  | [] => []
  | w :: r => map (fun i => N.testbit (hd 0%N vals) (N.of_nat i)) (seq 0 w) ++ operand_bits r (tl vals)
  end.
Definition env_of_operands (ni : N) (opw : list nat) (vals : list N) : env :=
  let bs := operand_bits opw vals in
  fun w => if N.ltb w ni then nth (N.to_nat w) bs false else false.

Definition run_c07 (inp : sx) : sx :=
  let b := getnat (nthx 0 inp) in
  let tgt := getB (nthx 1 inp) in
  let pre := getB (nthx 2 inp) in
  let opw := getLnat (nthx 3 inp) in
  let dsw := getLnat (nthx 4 inp) in
  let prm := getLnat (nthx 5 inp) in
  let full := getB (nthx 6 inp) in
  let tuples := map getLN (getL (nthx 7 inp)) in
  let '(ops, ni) := split_range 0 opw in
  let '(dst, fixed) := split_range ni dsw in
  let prog := (if pre then _ <- zero_wire;; _ <- one_wire;; ret tt else ret tt);;
              run_builder b ops dst prm in
  let '((d1, d2), s) := prog (st0 fixed tgt) in
  let '(cg, c) := canon_gates fixed (mkCanon (PositiveMap.empty N) fixed) (rev_append (gates s) []) [] in
  SL [ ofnat (length cg);
       ofN (hash_gates cg);
       ofB (wfc_fast ni cg (PositiveMap.empty unit));
       ofB (dbu_fast ni cg (PositiveMap.empty unit));
       SL (map (fun w => SZ (canon_lookup fixed c w)) d1);
       SL (map (fun w => SZ (canon_lookup fixed c w)) d2);
       (if full then SL (map (fun g => SL [SZ (op_code (g_op g)); ofN (g_a g); ofN (g_b g); ofN (g_o g)]) cg)
        else SL []);
       SL (map (fun vals =>
                  let e0 := env_of_operands ni opw vals in
                  let m := evalm_rev (gates s) e0 in
                  SL [ofN (to_N (map (mget m e0) d1)); ofN (to_N (map (mget m e0) d2))]) tuples) ].
