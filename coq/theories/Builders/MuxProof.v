(* MuxProof.v — NewMUX selects t when cond = 1 and f when cond = 0, for every width. *)
From Coq Require Import NArith List Bool Arith Lia.
From Mpc Require Import Builders.Emit Builders.EmitProof Builders.Mux.
Import ListNotations.
Open Scope N_scope.

Lemma mux_bit c t f : xorb (xorb f t && c) f = if c then t else f.
Proof. destruct c, t, f; reflexivity. Qed.

Lemma okm_mux_loop tg c : forall t f out,
  length t = length f -> length t = length out ->
  okm tg (mux_loop c t f out)
      (fun _ e => map e out = if e c then map e t else map e f).
Proof.
  induction t as [|ti t IH]; intros f out Hf Ho.
  - destruct f, out; try discriminate. cbn. apply okm_ret. intros e. destruct (e c); reflexivity.
  - destruct f as [|fi f], out as [|oi out]; try discriminate. cbn [mux_loop].
    mstep okm_fresh. mstep okm_fresh. mstep okm_emit. mstep okm_emit. mstep okm_emit.
    eapply okm_weaken; [apply IH; cbn in *; lia|].
    cbn. intros _ e H H3 H2 H1 _ _.
    rewrite H3, H2, H1, H. rewrite mux_bit. destruct (e c); reflexivity.
Qed.

(* any widths of t and f (the shorter one is zero padded), out as wide as the wider one *)
Theorem okm_new_mux tg c t f out :
  length out = Nat.max (length t) (length f) ->
  okm tg (new_mux [c] t f out)
      (fun _ e => valN e out = if e c then valN e t else valN e f).
Proof.
  intros Ho. unfold new_mux.
  pstep okp_zero_pad. destruct a as [t' f']. cbn [fst snd] in *. destruct H as [St Sf].
  pose proof (pad_shape_len _ _ _ St) as Lt. pose proof (pad_shape_len _ _ _ Sf) as Lf.
  replace (Nat.eqb (length [c]) 1) with true by reflexivity.
  replace (Nat.eqb (length t') (length out)) with true by (symmetry; apply Nat.eqb_eq; lia).
  cbn [andb nth].
  eapply okm_weaken; [apply okm_mux_loop; lia|].
  cbn. intros _ e H [Zt Zf].
  rewrite <- (pad_val e t' t _ St Zt), <- (pad_val e f' f _ Sf Zf).
  unfold valN. rewrite H. destruct (e c); reflexivity.
Qed.

(* equal widths: bit for bit *)
Theorem okm_new_mux_bits tg c t f out :
  length t = length f -> length t = length out ->
  okm tg (new_mux [c] t f out)
      (fun _ e => map e out = if e c then map e t else map e f).
Proof.
  intros Hf Ho s W G. unfold new_mux, zero_pad, bind, ret.
  rewrite Hf, Nat.eqb_refl. cbn [length Nat.eqb andb nth].
  replace (Nat.eqb (length t) (length out)) with true by (symmetry; apply Nat.eqb_eq; lia).
  apply (okm_mux_loop tg c t f out Hf Ho s W G).
Qed.
