(* IndexProof.v — circuits.NewIndex selects element (index mod 2^bits) of an array of
   n elements of [size] wires, or the all-zero default when that position is >= n;
   for every element size >= 1, every n >= 1 and both targets, when the index
   operand has at least [bits] wires (bits = 1 for n <= 2, else ceil(log2 n)). *)
From Coq Require Import NArith List Bool Arith Lia.
From Mpc Require Import Builders.Emit Builders.EmitProof Builders.Mux Builders.MuxProof
     Builders.Index.
Import ListNotations.
Open Scope N_scope.

(* element i of an array of [size]-wire elements *)
Definition elem (size : nat) (array : list wire) (i : nat) : list wire :=
  firstn size (skipn (i * size) array).

Lemma skipn_skipn_ix {A} : forall a b (l : list A), skipn a (skipn b l) = skipn (b + a) l.
Proof.
  intros a b; revert a. induction b; intros a l; [reflexivity|].
  destruct l; cbn; [destruct a; reflexivity|]. apply IHb.
Qed.

Lemma elem_firstn size array L i :
  (i < L)%nat -> elem size (firstn (L * size) array) i = elem size array i.
Proof.
  intros H. unfold elem. rewrite skipn_firstn_comm, firstn_firstn. f_equal. nia.
Qed.

Lemma elem_skipn size array L i :
  elem size (skipn (L * size) array) i = elem size array (L + i).
Proof.
  unfold elem. rewrite skipn_skipn_ix. do 2 f_equal. lia.
Qed.

Lemma pow2_half k : (2 ^ S k / 2 = 2 ^ k)%nat.
Proof. rewrite Nat.pow_succ_r', Nat.mul_comm. apply Nat.div_mul. lia. Qed.

Lemma firstn1_skipn (k : nat) (l : list wire) :
  (k < length l)%nat -> firstn 1 (skipn k l) = [nth k l 0].
Proof.
  revert l. induction k; intros [|a l] H; cbn in H; try lia; [reflexivity|].
  cbn [skipn nth]. apply IHk. lia.
Qed.

Lemma firstn_S_nth_ix (d : wire) : forall n (l : list wire),
  (n < length l)%nat -> firstn (S n) l = firstn n l ++ [nth n l d].
Proof.
  induction n; intros [|a l] H; cbn in *; try lia; auto.
  rewrite IHn by lia. reflexivity.
Qed.

Lemma new_index_rec_S bit' length_ size array index def out :
  new_index_rec (S bit') length_ size array index def out =
  let n := (length array / size)%nat in
  let length_ := (length_ / 2)%nat in
  let fArray := if Nat.ltb length_ n then firstn (length_ * size) array else array in
  if Nat.leb (length index) (S bit') then
    new_index_rec bit' length_ size fArray index def out
  else
    bind (fresh_n size) (fun fVal =>
    bind (new_index_rec bit' length_ size fArray index def fVal) (fun _ =>
    bind (if Nat.ltb length_ n then
            bind (fresh_n size) (fun tVal =>
            bind (new_index_rec bit' length_ size (skipn (length_ * size) array) index def tVal)
                 (fun _ => ret tVal))
          else ret def) (fun tVal =>
    new_mux (firstn 1 (skipn (S bit') index)) tVal fVal out))).
Proof. reflexivity. Qed.

(* value of the index bits 0..k as a natural number *)
Definition idx (e : env) (index : list wire) (k : nat) : nat :=
  N.to_nat (valN e (firstn k index)).

Lemma idx_lt e index k : (idx e index k < 2 ^ k)%nat.
Proof.
  unfold idx. pose proof (valN_lt e (firstn k index)) as B.
  assert (2 ^ N.of_nat (length (firstn k index)) <= 2 ^ N.of_nat k) as B2.
  { apply N.pow_le_mono_r; [lia|]. rewrite firstn_length. lia. }
  pose proof (Nat2N.inj_pow 2 k) as P. change (N.of_nat 2) with 2 in P. lia.
Qed.

(* an index operand with no wire k contributes nothing at position k *)
Lemma idx_short e index k : (length index <= k)%nat -> idx e index (S k) = idx e index k.
Proof. intros H. unfold idx. rewrite !firstn_all2 by lia. reflexivity. Qed.

Lemma idx_S e index k :
  (k < length index)%nat ->
  idx e index (S k) = (idx e index k + 2 ^ k * (if e (nth k index 0%N) then 1 else 0))%nat.
Proof.
  intros H. unfold idx. rewrite (firstn_S_nth_ix 0 k index H), valN_app, valN_cons, valN_nil.
  rewrite firstn_length_le by lia.
  pose proof (Nat2N.inj_pow 2 k) as P. change (N.of_nat 2) with 2 in P.
  destruct (e (nth k index 0%N)); cbn [N.b2n]; lia.
Qed.

(* newIndex: with capacity 2^(bit+1) >= n, the output is element (index bits 0..bit)
   of the array, or the default when that position is >= n.  The index operand may
   be shorter than bit+1 wires: the missing wires count as zero (Go then descends
   into the lower half only). *)
Lemma okm_new_index_rec t size index def :
  (1 <= size)%nat -> length def = size -> (1 <= length index)%nat ->
  forall bit array out n,
    length array = (n * size)%nat ->
    (1 <= n)%nat -> (n <= 2 ^ S bit)%nat -> length out = size ->
    okm t (new_index_rec bit (2 ^ S bit) size array index def out)
        (fun _ e => let i := idx e index (S bit) in
                    valN e out = if (i <? n)%nat then valN e (elem size array i)
                                 else valN e def).
Proof.
  intros Hs Hdef Hix. induction bit as [|bit' IH]; intros array out n Ha Hn1 Hn2 Ho.
  - (* bit 0: one or two elements *)
    assert (Hb : (0 < length index)%nat) by lia.
    cbn [new_index_rec].
    assert (En : (length array / size)%nat = n) by (rewrite Ha; apply Nat.div_mul; lia).
    rewrite En. rewrite <- (skipn_O index) at 1. rewrite firstn1_skipn by exact Hb.
    assert (n = 1 \/ n = 2)%nat as Hn by (cbn in Hn2; lia).
    eapply okm_weaken.
    + apply okm_new_mux. rewrite firstn_length.
      destruct Hn as [-> | ->]; cbn [Nat.ltb Nat.leb]; [|rewrite firstn_length, skipn_length]; lia.
    + cbv beta zeta. intros _ e H. rewrite H. rewrite idx_S by exact Hb.
      assert (I0 : idx e index 0 = 0%nat) by reflexivity. rewrite I0.
      destruct (e (nth 0 index 0%N)).
      * destruct Hn as [-> | ->]; cbn [Nat.ltb Nat.leb Nat.pow Nat.mul Nat.add]; [reflexivity|].
        unfold elem. rewrite Nat.mul_1_l. reflexivity.
      * cbn [Nat.pow Nat.mul Nat.add].
        replace (0 <? n)%nat with true by (symmetry; apply Nat.ltb_lt; lia).
        reflexivity.
  - (* bit > 0 *)
    rewrite new_index_rec_S. cbv zeta.
    assert (En : (length array / size)%nat = n) by (rewrite Ha; apply Nat.div_mul; lia).
    rewrite En, pow2_half.
    set (L := (2 ^ S bit')%nat) in *.
    assert (HL : (1 <= L)%nat) by (unfold L; pose proof (Nat.pow_nonzero 2 (S bit')); lia).
    assert (HL2 : (2 ^ S (S bit') = 2 * L)%nat) by (unfold L; apply Nat.pow_succ_r').
    destruct (Nat.leb_spec (length index) (S bit')) as [Hsh|Hb].
    { (* the index operand has no wire for this bit: lower half only *)
      destruct (Nat.ltb L n) eqn:EL.
      - apply Nat.ltb_lt in EL.
        eapply okm_weaken.
        + apply (IH (firstn (L * size) array) out L); try lia. rewrite firstn_length. nia.
        + cbv beta zeta. intros _ e H. rewrite idx_short by exact Hsh. rewrite H.
          pose proof (idx_lt e index (S bit')) as Bi. fold L in Bi.
          set (i := idx e index (S bit')) in *.
          replace (i <? L)%nat with true by (symmetry; apply Nat.ltb_lt; lia).
          replace (i <? n)%nat with true by (symmetry; apply Nat.ltb_lt; lia).
          rewrite elem_firstn by lia. reflexivity.
      - apply Nat.ltb_ge in EL.
        eapply okm_weaken.
        + apply (IH array out n); try lia.
        + cbv beta zeta. intros _ e H. rewrite idx_short by exact Hsh. exact H. }
    rewrite firstn1_skipn by exact Hb.
    destruct (Nat.ltb L n) eqn:EL.
    + (* both halves populated *)
      apply Nat.ltb_lt in EL.
      pstep okp_fresh_n. cbv beta in H.
      eapply okm_bind.
      { apply (IH (firstn (L * size) array) a L); try lia.
        rewrite firstn_length. nia. }
      intros ?. cbv beta.
      eapply okm_bind_p with
        (R := fun tVal : list wire => length tVal = size)
        (P := fun (tVal : list wire) e =>
                let i := idx e index (S bit') in
                valN e tVal = if (i <? n - L)%nat
                              then valN e (elem size (skipn (L * size) array) i)
                              else valN e def).
      { eapply okp_bind; [apply okp_fresh_n|]. intros tv Htv. cbv beta in Htv.
        eapply okp_bind.
        { apply okp_of_okm. apply (IH (skipn (L * size) array) tv (n - L)%nat); try lia.
          rewrite skipn_length. nia. }
        intros ? _. cbv beta. apply okp_ret; auto. }
      intros tVal HtV. cbv beta in HtV.
      eapply okm_weaken; [apply okm_new_mux; unfold wire in *; lia|].
      cbv beta zeta. intros _ e HM HT HF _.
      rewrite HM, idx_S by exact Hb. fold L.
      pose proof (idx_lt e index (S bit')) as Bi. fold L in Bi.
      set (i := idx e index (S bit')) in *.
      destruct (e (nth (S bit') index 0%N)).
      * rewrite HT. rewrite elem_skipn.
        replace (i + L * 1)%nat with (L + i)%nat by lia.
        destruct (Nat.ltb_spec i (n - L)), (Nat.ltb_spec (L + i) n); try lia; reflexivity.
      * rewrite HF. replace (i + L * 0)%nat with i by lia.
        replace (i <? L)%nat with true by (symmetry; apply Nat.ltb_lt; lia).
        replace (i <? n)%nat with true by (symmetry; apply Nat.ltb_lt; lia).
        rewrite elem_firstn by lia. reflexivity.
    + (* only the lower half populated: the upper half is the default *)
      apply Nat.ltb_ge in EL.
      pstep okp_fresh_n. cbv beta in H.
      eapply okm_bind.
      { apply (IH array a n); try lia. }
      intros ?. cbv beta.
      eapply okm_bind_p with (R := fun tVal : list wire => tVal = def) (P := fun _ _ => True);
        [apply okp_ret; auto|].
      intros tVal ->. cbv beta.
      eapply okm_weaken; [apply okm_new_mux; unfold wire in *; lia|].
      cbv beta zeta. intros _ e HM _ HF _.
      rewrite HM, idx_S by exact Hb. fold L.
      pose proof (idx_lt e index (S bit')) as Bi. fold L in Bi.
      set (i := idx e index (S bit')) in *.
      destruct (e (nth (S bit') index 0%N)).
      * replace (i + L * 1 <? n)%nat with false by (symmetry; apply Nat.ltb_ge; lia).
        reflexivity.
      * rewrite HF. replace (i + L * 0)%nat with i by lia. reflexivity.
Qed.

(* ---------- the number of index bits used ---------- *)
(* "bits := 1; for length = 2; length < n; length *= 2 { bits++ }": the capacity is
   2^bits >= n, and bits is minimal (bits = 1, or 2^(bits-1) < n) *)
Lemma index_bits_inv : forall fuel bits len n,
  len = (2 ^ bits)%nat -> (1 <= bits)%nat -> (n <= len + fuel)%nat ->
  (bits = 1%nat \/ len < 2 * n)%nat ->
  let r := index_bits fuel bits len n in
  snd r = (2 ^ fst r)%nat /\ (1 <= fst r)%nat /\ (n <= snd r)%nat /\
  (fst r = 1%nat \/ snd r < 2 * n)%nat.
Proof.
  induction fuel as [|f IH]; intros bits len n Hl Hb Hn Hm.
  - cbn. repeat split; auto. lia.
  - cbn [index_bits]. destruct (Nat.ltb_spec len n) as [E|E].
    + apply IH.
      * rewrite Nat.pow_succ_r'. lia.
      * lia.
      * assert (1 <= len)%nat by (subst len; pose proof (Nat.pow_nonzero 2 bits); lia). lia.
      * right. lia.
    + cbn. repeat split; auto.
Qed.

Lemma index_bits_spec n :
  let r := index_bits n 1 2 n in
  snd r = (2 ^ fst r)%nat /\ (1 <= fst r)%nat /\ (n <= 2 ^ fst r)%nat /\
  (fst r = 1%nat \/ 2 ^ (fst r - 1) < n)%nat.
Proof.
  pose proof (index_bits_inv n 1 2 n eq_refl ltac:(lia) ltac:(lia) ltac:(auto)) as H.
  cbv zeta in *. destruct H as (H1 & H2 & H3 & H4). rewrite H1 in H3, H4.
  repeat split; auto. destruct H4 as [H4|H4]; [auto|right].
  destruct (fst (index_bits n 1 2 n)) as [|k]; [lia|].
  rewrite Nat.pow_succ_r' in H4. replace (S k - 1)%nat with k by lia. lia.
Qed.

Definition index_nbits (n : nat) : nat := fst (index_bits n 1 2 n).

(* ---------- NewIndex ---------- *)
(* n >= 1 elements; the index operand has at least one wire (when it has fewer than
   [bits] wires, valN e index < 2^bits and the mod below is the identity) *)
Theorem okm_new_index t size array index out n :
  (1 <= size)%nat -> length array = (n * size)%nat -> (1 <= n)%nat -> length out = size ->
  (1 <= length index)%nat ->
  okm t (new_index size array index out)
      (fun out' e =>
         out' = out /\
         let i := valN e index mod 2 ^ N.of_nat (index_nbits n) in
         valN e out' = if i <? N.of_nat n then valN e (elem size array (N.to_nat i)) else 0).
Proof.
  intros Hs Ha Hn Ho Hi. unfold new_index.
  assert (En : (length array / size)%nat = n) by (rewrite Ha; apply Nat.div_mul; lia).
  rewrite En. replace (Nat.eqb n 0) with false by (symmetry; apply Nat.eqb_neq; lia).
  pose proof (index_bits_spec n) as HB. cbv zeta in HB. unfold index_nbits in *.
  destruct (index_bits n 1 2 n) as [bits len]. cbn [fst snd] in *.
  destruct HB as (Hlen & Hb1 & Hcap & _).
  replace (Nat.eqb size 0) with false by (symmetry; apply Nat.eqb_neq; lia).
  eapply okm_bind_p with
    (R := fun d : list wire => length d = size)
    (P := fun (d : list wire) e => valN e d = 0).
  { eapply okp_bind; [apply okp_of_okm, okm_zero|]. intros z _. cbv beta.
    apply okp_ret; [apply repeat_length|]. intros e Hz. apply valN_repeat0. exact Hz. }
  intros def Hdef. cbv beta.
  destruct bits as [|bit]; [lia|]. replace (S bit - 1)%nat with bit by lia. subst len.
  eapply okm_bind.
  { apply (okm_new_index_rec t size index def Hs Hdef Hi bit array out n); auto; lia. }
  intros ?. cbv beta. apply okm_ret.
  cbv zeta. intros e HR HD. split; [reflexivity|].
  rewrite HR, HD. unfold idx. rewrite valN_firstn.
  set (i := valN e index mod 2 ^ N.of_nat (S bit)).
  destruct (Nat.ltb_spec (N.to_nat i) n), (N.ltb_spec i (N.of_nat n)); try lia; reflexivity.
Qed.

(* empty array: every output wire is zero *)
Theorem okm_new_index_empty t size array index out :
  (length array / size)%nat = 0%nat ->
  okm t (new_index size array index out)
      (fun out' e => length out' = length out /\ (forall w, In w out' -> e w = false) /\
                     valN e out' = 0).
Proof.
  intros En. unfold new_index. rewrite En. cbn [Nat.eqb].
  destruct (Nat.eqb (length out) 0) eqn:E.
  - apply Nat.eqb_eq in E. destruct out; [|discriminate]. apply okm_ret.
    intros e. repeat split; auto. intros w [].
  - mstep okm_zero. apply okm_ret. intros e Hz. split; [apply repeat_length|].
    split; [|apply valN_repeat0; exact Hz].
    intros w Hin. apply repeat_spec in Hin. subst. exact Hz.
Qed.
