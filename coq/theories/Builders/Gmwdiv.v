(* Gmwdiv.v — /repo/compiler/circuits/circ_gmw_divider.go
   NewUDividerGoldschmidtFast, ApplyLogShifter, DetectMSB, AddConstOne,
   SubConstOne, NewReciprocalROM, intToConstWires, iterationsForWidth,
   iterationsForWidthWithSeed.  romBits comes from the regenerated Gen/Consts.v.
   No proofs in this file. *)
From Coq Require Import NArith ZArith List Bool Arith.
From Mpc Require Import Gen.Consts Builders.Emit Builders.Adder Builders.Sub Builders.Mux Builders.Mult.
Import ListNotations.
Open Scope monad_scope.

Definition rom_bits : nat := Z.to_nat compiler_circuits_romBits.

(* bits.Len(uint(k)) *)
Definition bits_len (k : nat) : nat := N.size_nat (N.of_nat k).

(* DetectMSB: processes a from the most significant bit down; [ra] = rev a;
   returns msb in the same (reversed) order *)
Fixpoint detect_msb_loop (ra : list wire) (seen : wire) : M (list wire) :=
  match ra with
  | ai :: ra' =>
      notSeen <- fresh;;
      cc_inv seen notSeen;;
      m <- fresh;;
      emit AND ai notSeen m;;
      tmp <- fresh;;
      cc_or seen ai tmp;;
      r <- detect_msb_loop ra' tmp;;
      ret (m :: r)
  | [] => ret []
  end.
Definition detect_msb (a : list wire) : M (list wire) :=
  seen <- zero_wire;;
  r <- detect_msb_loop (rev a) seen;;
  ret (rev r).

(* s[bIdx]: OR of msb[i] over the i with bit bIdx of (n-1-i) set *)
Fixpoint shift_sig_loop (bIdx n i : nat) (msb : list wire) (acc : wire) : M wire :=
  match msb with
  | mi :: msb' =>
      if N.testbit (N.of_nat (n - 1 - i)) (N.of_nat bIdx)
      then tmp <- fresh;; cc_or acc mi tmp;; shift_sig_loop bIdx n (S i) msb' tmp
      else shift_sig_loop bIdx n (S i) msb' acc
  | [] => ret acc
  end.
Fixpoint shift_sigs (k bIdx n : nat) (msb : list wire) : M (list wire) :=
  match k with
  | O => ret []
  | S k' =>
      acc <- zero_wire;;
      s <- shift_sig_loop bIdx n 0 (firstn n msb) acc;;
      r <- shift_sigs k' (S bIdx) n msb;;
      ret (s :: r)
  end.

(* one level of the barrel shifter: shifted = current[i-shiftAmount] or zero *)
Fixpoint shifter_level (sb : wire) (shifted current : list wire) : M (list wire) :=
  match shifted, current with
  | sv :: shifted', ci :: current' =>
      out <- fresh;;
      new_mux [sb] [sv] [ci] [out];;
      r <- shifter_level sb shifted' current';;
      ret (out :: r)
  | _, _ => ret []
  end.

(* ApplyLogShifter(cc, in, s, width) *)
Fixpoint apply_log_shifter (current s : list wire) (shiftAmount width : nat) : M (list wire) :=
  match s with
  | sb :: s' =>
      z <- (if Nat.eqb width 0 then ret 0%N else zero_wire);;
      let shifted := repeat z shiftAmount ++ current in
      next_ <- shifter_level sb (firstn width shifted) (firstn width current);;
      apply_log_shifter next_ s' (2 * shiftAmount) width
  | [] => ret current
  end.

(* iterationsForWidth *)
Definition iterations_for_width (n : nat) : nat :=
  if Nat.leb n 1 then 1%nat else (bits_len (n - 1) + 1)%nat.

(* iterationsForWidthWithSeed *)
Definition iterations_for_width_with_seed (n m : nat) : nat :=
  if Nat.leb n 1 then 1%nat
  else
    let correctBits := if Nat.ltb (m - 1) 1 then 1%nat else (m - 1)%nat in
    let needed := ((n + correctBits - 1) / correctBits)%nat in
    if Nat.leb needed 1 then 2%nat else (bits_len (needed - 1) + 1)%nat.

(* intToConstWires(cc, val, m) *)
Fixpoint int_to_const_wires (val : N) (i m : nat) : M (list wire) :=
  match m with
  | O => ret []
  | S m' =>
      w <- (if N.testbit val (N.of_nat i) then one_wire else zero_wire);;
      r <- int_to_const_wires val (S i) m';;
      ret (w :: r)
  end.

Fixpoint rom_table (half : N) (i : N) (cnt : nat) (m : nat) : M (list (list wire)) :=
  match cnt with
  | O => ret []
  | S c =>
      t <- int_to_const_wires ((half * half) / (half + i))%N 0 m;;
      r <- rom_table half (i + 1)%N c m;;
      ret (t :: r)
  end.

Fixpoint rom_level (sel : wire) (m : nat) (current : list (list wire)) : M (list (list wire)) :=
  match current with
  | even :: odd :: rest =>
      out <- fresh_n m;;
      new_mux [sel] odd even out;;
      r <- rom_level sel m rest;;
      ret (out :: r)
  | _ => ret []
  end.

Fixpoint rom_levels (k level n m : nat) (bNorm : list wire) (current : list (list wire)) : M (list (list wire)) :=
  match k with
  | O => ret current
  | S k' =>
      nx <- rom_level (nth (n - m + level) bNorm 0%N) m current;;
      rom_levels k' (S level) n m bNorm nx
  end.

(* NewReciprocalROM(cc, bNorm, m), 2 <= m <= len(bNorm) *)
Definition reciprocal_rom (bNorm : list wire) (m : nat) : M (list wire) :=
  let n := length bNorm in
  let numEntries := Nat.pow 2 (m - 1) in
  table <- rom_table (N.of_nat numEntries) 0%N numEntries m;;
  current <- rom_levels (m - 1) 0 n m bNorm table;;
  ret (nth 0 current []).

(* AddConstOne / SubConstOne *)
Definition add_const_one (a : list wire) : M (list wire) :=
  o <- one_wire;;
  out <- fresh_n (length a);;
  ks_adder a [o] out.
Definition sub_const_one (a : list wire) : M (list wire) :=
  o <- one_wire;;
  out <- fresh_n (length a);;
  ks_subtractor a [o] out.

Definition slice (l : list wire) (from len : nat) : list wire := firstn len (skipn from l).

(* Goldschmidt iterations *)
Fixpoint gs_iters (k n W qWidth : nat) (twoConst bCurr qCurr : list wire) : M (list wire * list wire) :=
  match k with
  | O => ret (bCurr, qCurr)
  | S k' =>
      f <- fresh_n W;;
      f <- ks_subtractor twoConst bCurr f;;
      let fN := firstn n f in
      bProd <- fresh_n (2 * W);;
      bProd <- wallace_multiplier bCurr fN bProd;;
      let bCurr := slice bProd (n - 1) W in
      qProd <- fresh_n (qWidth + n);;
      qProd <- wallace_multiplier qCurr fN qProd;;
      let qCurr := slice qProd (n - 1) qWidth in
      gs_iters k' n W qWidth twoConst bCurr qCurr
  end.

(* step 4 of NewUDividerGoldschmidtFast, "Parallelized Correction Logic":
   from the quotient estimate q compute r = a - q*b and select among
   (q-1, r+b), (q, r), (q+1, r-b) *)
Definition gmw_correction (a b q qFinal rFinal : list wire) : M unit :=
  let n := length a in
  qbLong <- fresh_n (2 * n);;
  qbLong <- wallace_multiplier q b qbLong;;
  let qb := firstn n qbLong in
  r <- fresh_n (n + 1);;
  r <- ks_subtractor a qb r;;
  qMinus1 <- sub_const_one q;;
  qPlus1 <- add_const_one q;;
  rPlusB <- fresh_n n;;
  rPlusB <- ks_adder (firstn n r) b rPlusB;;
  rMinusB <- fresh_n (n + 1);;
  rMinusB <- ks_subtractor (firstn n r) b rMinusB;;
  let isNeg := nth n r 0%N in
  isGe <- fresh;;
  cc_inv (nth n rMinusB 0%N) isGe;;
  qHigh <- fresh_n n;;
  rHigh <- fresh_n n;;
  new_mux [isGe] qPlus1 q qHigh;;
  new_mux [isGe] (firstn n rMinusB) (firstn n r) rHigh;;
  new_mux [isNeg] qMinus1 qHigh qFinal;;
  new_mux [isNeg] rPlusB rHigh rFinal.

(* muxResult(cc, cond, t, f, out) (/repo cfc357f): the result can be unused (nil),
   narrower than the operands (truncated) or wider (zero-extended):
   "for i := n; i < len(out); i++ { cc.ID(cc.ZeroWire(), out[i]) }" *)
Fixpoint zero_ids (out : list wire) : M unit :=
  match out with
  | [] => ret tt
  | o :: r => z <- zero_wire;; cc_id z o;; zero_ids r
  end.

Definition mux_result (cond : wire) (t f out : list wire) : M unit :=
  let n := Nat.min (length out) (length t) in
  (if Nat.ltb 0 n then new_mux [cond] (firstn n t) (firstn n f) (firstn n out) else ret tt);;
  zero_ids (skipn n out).

(* step 4 as committed in /repo cfc357f: the same computation as [gmw_correction],
   the two final selections go through muxResult.  For destinations of the
   operand width (len qFinal = len rFinal = len a) it emits exactly the gates of
   [gmw_correction] (the form C07's correction theorems are stated for). *)
Definition gmw_correction_w (a b q qFinal rFinal : list wire) : M unit :=
  let n := length a in
  qbLong <- fresh_n (2 * n);;
  qbLong <- wallace_multiplier q b qbLong;;
  let qb := firstn n qbLong in
  r <- fresh_n (n + 1);;
  r <- ks_subtractor a qb r;;
  qMinus1 <- sub_const_one q;;
  qPlus1 <- add_const_one q;;
  rPlusB <- fresh_n n;;
  rPlusB <- ks_adder (firstn n r) b rPlusB;;
  rMinusB <- fresh_n (n + 1);;
  rMinusB <- ks_subtractor (firstn n r) b rMinusB;;
  let isNeg := nth n r 0%N in
  isGe <- fresh;;
  cc_inv (nth n rMinusB 0%N) isGe;;
  qHigh <- fresh_n n;;
  rHigh <- fresh_n n;;
  new_mux [isGe] qPlus1 q qHigh;;
  new_mux [isGe] (firstn n rMinusB) (firstn n r) rHigh;;
  mux_result isNeg qMinus1 qHigh qFinal;;
  mux_result isNeg rPlusB rHigh rFinal.

(* NewUDividerGoldschmidtFast(cc, a, b, qFinal, rFinal) as of /repo cfc357f:
   operands of any two widths ("a, b = cc.ZeroPad(a, b)", n = the common width
   >= 1), results through muxResult *)
Definition gmw_divider (a b qFinal rFinal : list wire) : M unit :=
  '(a, b) <- zero_pad a b;;
  let n := length a in
  let useROM := Nat.leb 4 n in
  let m := if Nat.leb n rom_bits then (n - 1)%nat else rom_bits in
  msb <- detect_msb b;;
  let shiftBits := bits_len (n - 1) in
  s <- shift_sigs shiftBits 0 n msb;;
  bNorm <- apply_log_shifter b s 1 n;;
  aPadded <- (z <- zero_wire;; ret (a ++ repeat z n));;
  aNorm2n <- apply_log_shifter aPadded s 1 (2 * n);;
  let W := (n + 1)%nat in
  twoConst <- (z <- zero_wire;; o <- one_wire;; ret (repeat z n ++ [o]));;
  let qWidth := (2 * n)%nat in
  '(bCurr, qCurr, iters) <-
     (if useROM then
        recip <- reciprocal_rom bNorm m;;
        bNormW <- pad bNorm W;;
        bSeedProd <- fresh_n (W + m);;
        bSeedProd <- wallace_multiplier bNormW recip bSeedProd;;
        let bCurr := slice bSeedProd (m - 1) W in
        qSeedProd <- fresh_n (qWidth + m);;
        qSeedProd <- wallace_multiplier aNorm2n recip qSeedProd;;
        let qCurr := slice qSeedProd (m - 1) qWidth in
        ret (bCurr, qCurr, iterations_for_width_with_seed n m)
      else
        bCurr <- pad bNorm W;;
        ret (bCurr, aNorm2n, iterations_for_width n));;
  '(bCurr, qCurr) <- gs_iters iters n W qWidth twoConst bCurr qCurr;;
  let q := slice qCurr (n - 1) n in
  gmw_correction_w a b q qFinal rFinal.
