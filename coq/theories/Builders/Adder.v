(* Adder.v — /repo/compiler/circuits/circ_adder.go
   NewHalfAdder, NewFullAdder, NewAdder (ripple carry, Yao target),
   NewKoggeStoneAdder (GMW target).  No proofs in this file. *)
From Coq Require Import NArith List Bool Arith.
From Mpc Require Import Builders.Emit.
Import ListNotations.
Open Scope monad_scope.

(* NewHalfAdder(cc, a, b, s, c); c == nil -> None *)
Definition half_adder (a b s : wire) (c : option wire) : M unit :=
  emit XOR a b s;;
  match c with
  | Some c => emit AND a b c
  | None => ret tt
  end.

(* NewFullAdder(cc, a, b, cin, s, cout) *)
Definition full_adder (a b cin s : wire) (cout : option wire) : M unit :=
  w1 <- fresh;; w2 <- fresh;; w3 <- fresh;;
  emit XOR b cin w1;;
  emit XOR a w1 s;;
  match cout with
  | Some cout =>
      emit XOR a cin w2;;
      emit AND w1 w2 w3;;
      emit XOR cin w3 cout
  | None => ret tt
  end.

(* the loop "for i := 1; i < len(x); i++" of NewAdder: xs ys zs are x[i..],
   y[i..], z[i..]; [last] is the carry destination of the last position
   (z[len(x)] or nil) *)
Fixpoint adder_loop (xs ys zs : list wire) (cin : wire) (last : option wire) : M unit :=
  match xs, ys, zs with
  | x :: xs', y :: ys', z :: zs' =>
      match xs' with
      | [] => full_adder x y cin z last
      | _ :: _ =>
          cout <- fresh;;
          full_adder x y cin z (Some cout);;
          adder_loop xs' ys' zs' cout last
      end
  | _, _, _ => ret tt
  end.

(* the ripple-carry part of NewAdder *)
Definition ripple_adder (x y z : list wire) : M (list wire) :=
  '(x, y) <- zero_pad x y;;
  let x := firstn (length z) x in
  let y := firstn (length z) y in
  let n := length x in
  let last := if Nat.ltb n (length z) then Some (nth n z 0%N) else None in
  (match x, y, z with
   | x0 :: xs, y0 :: ys, z0 :: zs =>
       match xs with
       | [] => half_adder x0 y0 z0 last
       | _ :: _ =>
           cin <- fresh;;
           half_adder x0 y0 z0 (Some cin);;
           adder_loop xs ys zs cin last
       end
   | _, _, _ => ret tt
   end);;
  zero_tail z (n + 1).

(* smallest s with 2^s >= n  (int(math.Ceil(math.Log2(float64(n)))), n >= 1) *)
Fixpoint ceil_log2_aux (fuel : nat) (p n : nat) : nat :=
  match fuel with
  | O => O
  | S f => if Nat.leb n p then O else S (ceil_log2_aux f (2 * p) n)
  end.
Definition ceil_log2 (n : nat) : nat := ceil_log2_aux n 1 n.

(* pre-processing: p[i] = x[i] xor y[i], g[i] = x[i] and y[i] *)
Fixpoint ks_pre (x y : list wire) : M (list wire * list wire) :=
  match x, y with
  | xi :: x', yi :: y' =>
      p <- fresh;; g <- fresh;;
      emit XOR xi yi p;;
      emit AND xi yi g;;
      '(ps, gs) <- ks_pre x' y';;
      ret (p :: ps, g :: gs)
  | _, _ => ret ([], [])
  end.

(* black cells for i >= shift: pi gi = p[i..], g[i..]; pj gj = p[i-shift..], g[i-shift..] *)
Fixpoint ks_cells (pi gi pj gj : list wire) : M (list wire * list wire) :=
  match pi, gi, pj, gj with
  | p :: pi', g :: gi', pl :: pj', gl :: gj' =>
      newG <- fresh;; newP <- fresh;; andG <- fresh;;
      emit AND p gl andG;;
      emit AND p pl newP;;
      emit XOR g andG newG;;
      '(ps, gs) <- ks_cells pi' gi' pj' gj';;
      ret (newP :: ps, newG :: gs)
  | _, _, _, _ => ret ([], [])
  end.

Definition ks_stage (shift : nat) (p g : list wire) : M (list wire * list wire) :=
  '(ps, gs) <- ks_cells (skipn shift p) (skipn shift g) p g;;
  ret (firstn shift p ++ ps, firstn shift g ++ gs).

Fixpoint ks_stages (k shift : nat) (p g : list wire) : M (list wire * list wire) :=
  match k with
  | O => ret (p, g)
  | S k' => '(p', g') <- ks_stage shift p g;; ks_stages k' (2 * shift) p' g'
  end.

(* post-processing for i >= 1: z[i] = (x[i] xor y[i]) xor g[i-1] *)
Fixpoint ks_post (x y g z : list wire) : M unit :=
  match x, y, g, z with
  | xi :: x', yi :: y', gi :: g', zi :: z' =>
      t <- fresh;;
      emit XOR xi yi t;;
      emit XOR t gi zi;;
      ks_post x' y' g' z'
  | _, _, _, _ => ret tt
  end.

(* NewKoggeStoneAdder *)
Definition ks_adder (x y z : list wire) : M (list wire) :=
  let n := Nat.max (length x) (length y) in
  let n := if Nat.ltb n (length z) then S n else n in
  x <- pad x n;;
  y <- pad y n;;
  let trunc := Nat.ltb (length z) (length x) in
  let x := if trunc then firstn (length z) x else x in
  let y := if trunc then firstn (length z) y else y in
  let n := if trunc then length z else n in
  '(p, g) <- ks_pre (firstn n x) (firstn n y);;
  '(_, g) <- ks_stages (ceil_log2 n) 1 p g;;
  (match x, y, z with
   | x0 :: x', y0 :: y', z0 :: z' =>
       emit XOR x0 y0 z0;;
       ks_post (firstn (n - 1) x') y' g z'
   | _, _, _ => ret tt
   end);;
  zero_tail z n.

(* NewAdder *)
Definition new_adder (x y z : list wire) : M (list wire) :=
  t <- target_gmw;;
  if t then ks_adder x y z else ripple_adder x y z.
