(* GmwCorrProof.v — the final correction step of the GMW Goldschmidt divider
   (step 4 "Parallelized Correction Logic" of NewUDividerGoldschmidtFast in
   compiler/circuits/circ_gmw_divider.go, model Gmwdiv.gmw_correction).

   From the quotient estimate q the circuit computes qb = low n bits of q*b,
   r = a - qb on n+1 bits (two's complement, bit n = isNeg), q-1, q+1, r+b,
   r-b (n+1 bits, isGe = not borrow) and selects
       isNeg ? (q-1, r+b) : (isGe ? (q+1, r-b) : (q, r)).

   Results (every width n = len a = len b = len q = len qFinal = len rFinal >= 1,
   both targets, every valuation consistent with the emitted gates):

   * okm_gmw_correction_sem   — what the circuit computes, no hypothesis on q
                                (predicate corr_sem).
   * okm_gmw_correction       — if  Q = A/B  or  Q+1 = A/B  or
                                (Q = A/B+1 and Q*B < 2^n)  and B <> 0, then
                                qFinal = A/B and rFinal = A mod B.
     okm_gmw_correction_under / okm_gmw_correction_over are its two halves.
   * okm_gmw_correction_over_overflow — the side condition is NECESSARY: if
     Q = A/B+1 and Q*B >= 2^n then qFinal <> A/B, always.  Reason: the product
     is truncated to n bits before the subtraction, so qb = Q*B - 2^n <= A,
     isNeg = 0 and the circuit outputs Q or Q+1 instead of Q-1.
   * gmw_correction_pm1_refuted — hence the plain statement "|Q - A/B| <= 1
     implies the outputs are exact" (gmw_correction_pm1_statement) is FALSE;
     witness n = 3, A = 7, B = 3, Q = 3: the circuit returns (4, 3) instead of
     (2, 1) (gmw_correction_w3_counterexample, gate-by-gate evaluation by
     vm_compute; the gate list is single-assignment, so eval_rev_sat makes the
     evaluated valuation a consistent one).
   Exhaustive gate-level sweeps for n = 1..4 (not kept here, they agree with the
   theorems): Q = A/B and Q = A/B-1 always exact; Q = A/B+1 (< 2^n) exact iff
   Q*B < 2^n (0, 3, 14, 50 failing triples for n = 1, 2, 3, 4).  Note that
   Q = A/B+1 = 2^n is not representable at all (covered: then Q*B >= 2^n). *)
From Coq Require Import NArith List Bool Arith Lia.
From Mpc Require Import Builders.Emit Builders.EmitProof Builders.Adder Builders.Sub
  Builders.Mux Builders.MuxProof Builders.Mult Builders.KsProof Builders.WallaceProof
  Builders.Gmwdiv.
Import ListNotations.
Open Scope N_scope.

(* ---------- pure length facts (the result lists of the builders are used by
   later control flow, so their lengths are needed before any valuation) ---------- *)
Definition lenq (m : M (list wire)) (n : nat) : Prop := forall s, length (fst (m s)) = n.

Lemma lenq_ret l n : length l = n -> lenq (ret l) n.
Proof. intros H s. exact H. Qed.

Lemma lenq_bind {A} (m : M A) f n : (forall a, lenq (f a) n) -> lenq (bind m f) n.
Proof. intros H s. unfold bind. destruct (m s) as [a s1]. apply H. Qed.

Lemma okp_lenq t (m : M (list wire)) n P :
  okm t m P -> lenq m n -> okp t m (fun a => length a = n) P.
Proof.
  intros H L s W G. destruct (H s W G) as (a & s' & E & W' & X & HP).
  exists a, s'. split; [exact E | split; [exact W' | split; [exact X | split; [|exact HP]]]].
  specialize (L s). rewrite E in L. exact L.
Qed.

Lemma lenq_zero_tail z k : lenq (zero_tail z k) (length z).
Proof.
  unfold zero_tail. destruct (Nat.ltb k (length z)) eqn:E.
  - apply Nat.ltb_lt in E. apply lenq_bind. intros zw. apply lenq_ret.
    rewrite app_length, firstn_length, repeat_length. lia.
  - apply lenq_ret. reflexivity.
Qed.

Lemma lenq_ks_adder x y z : lenq (ks_adder x y z) (length z).
Proof.
  unfold ks_adder. cbv zeta.
  apply lenq_bind; intros x1. apply lenq_bind; intros y1.
  apply lenq_bind; intros [p g]. apply lenq_bind; intros [p' g'].
  apply lenq_bind; intros _. apply lenq_zero_tail.
Qed.

Lemma lenq_ks_subtractor x y z : lenq (ks_subtractor x y z) (length z).
Proof.
  unfold ks_subtractor. cbv zeta.
  apply lenq_bind; intros x1. apply lenq_bind; intros y1.
  apply lenq_bind; intros [p g]. apply lenq_bind; intros w. apply lenq_bind; intros _.
  apply lenq_bind; intros [p' g']. apply lenq_bind; intros _. apply lenq_zero_tail.
Qed.

Lemma lenq_wallace a b r : lenq (wallace_multiplier a b r) (length r).
Proof.
  unfold wallace_multiplier. cbv zeta.
  apply lenq_bind; intros a1. apply lenq_bind; intros b1.
  apply lenq_bind; intros c1. apply lenq_bind; intros c2.
  apply lenq_bind; intros [r1 r2]. apply lenq_ks_adder.
Qed.

(* ---------- arithmetic helpers ---------- *)
Lemma pow2_ge2 n : (1 <= n)%nat -> 2 <= 2 ^ N.of_nat n.
Proof.
  intros H. destruct n as [|k]; [lia|]. rewrite pow2_S. pose proof (pow2_pos k). lia.
Qed.

Lemma pow2_double n : 2 ^ N.of_nat (2 * n) = 2 ^ N.of_nat n * 2 ^ N.of_nat n.
Proof.
  replace (2 * n)%nat with (n + n)%nat by lia. rewrite Nat2N.inj_add, N.pow_add_r. reflexivity.
Qed.

Lemma mod_sq_mod x P : P <> 0 -> (x mod (P * P)) mod P = x mod P.
Proof.
  intros H. assert (HP : P * P <> 0) by lia.
  pose proof (N.div_mod' x (P * P)) as D.
  rewrite D at 2. replace (P * P * (x / (P * P)) + x mod (P * P))
    with (x mod (P * P) + (P * (x / (P * P))) * P) by ring.
  rewrite N.mod_add by exact H. reflexivity.
Qed.

(* two's complement subtraction x + not y + 1 on a width that holds x and y *)
Lemma subsem P x y : x < P -> y < P ->
  (x mod P + (P - 1 - y mod P) + 1) mod P = if y <=? x then x - y else P + x - y.
Proof.
  intros Hx Hy. rewrite (N.mod_small x P), (N.mod_small y P) by assumption.
  destruct (N.leb_spec y x).
  - symmetry. apply N.mod_unique with (q := 1); lia.
  - symmetry. apply N.mod_unique with (q := 0); lia.
Qed.

Lemma addsem P x y : x < P -> y < P ->
  (x + y) mod P = if x + y <? P then x + y else x + y - P.
Proof.
  intros Hx Hy. destruct (N.ltb_spec (x + y) P).
  - apply N.mod_small; assumption.
  - symmetry. apply N.mod_unique with (q := 1); lia.
Qed.

(* a vector of width n+1 = its low n bits and its top bit *)
Lemma valN_split_last e : forall n (r : list wire), length r = S n ->
  valN e r = valN e (firstn n r) + 2 ^ N.of_nat n * N.b2n (e (nth n r 0)).
Proof.
  induction n; intros r H; destruct r as [|w r]; try discriminate.
  - destruct r; try discriminate. cbn [firstn nth]. rewrite valN_cons, !valN_nil.
    change (2 ^ N.of_nat 0) with 1. lia.
  - cbn [firstn nth]. rewrite !valN_cons, (IHn r), pow2_S by (cbn in H; lia). ring.
Qed.

(* ---------- the arithmetic builders in the shapes used by the correction step ---------- *)
Lemma okp_wallace t a b r : (1 <= length r)%nat ->
  okp t (wallace_multiplier a b r) (fun r' => length r' = length r)
      (fun r' e => valN e r' = (valN e a * valN e b) mod 2 ^ N.of_nat (length r)).
Proof.
  intros H. eapply okp_weaken; [apply okp_lenq; [apply okm_wallace_multiplier; exact H | apply lenq_wallace] | |].
  - auto.
  - cbv beta. intros r' e _ [_ V]. exact V.
Qed.

(* operands of width k, result of width k+1: the exact difference in two's complement *)
Lemma okp_ks_sub_wide t x y z k : (1 <= k)%nat ->
  length x = k -> length y = k -> length z = S k ->
  okp t (ks_subtractor x y z) (fun z' => length z' = S k)
      (fun z' e => valN e z' = if valN e y <=? valN e x then valN e x - valN e y
                               else 2 * 2 ^ N.of_nat k + valN e x - valN e y).
Proof.
  intros Hk Lx Ly Lz. unfold wire in *.
  eapply okp_weaken; [apply okp_lenq; [apply okm_ks_subtractor; unfold wire in *; lia | apply lenq_ks_subtractor] | |].
  - cbv beta. unfold wire in *. intros; lia.
  - cbv beta zeta. unfold wire in *. intros z' e _ [_ V].
    replace (Nat.min (S (Nat.max (length x) (length y))) (length z)) with (S k) in V by lia.
    rewrite pow2_S in V. rewrite V.
    pose proof (valN_lt e x) as Bx. pose proof (valN_lt e y) as By. unfold wire in *. rewrite Lx in Bx. rewrite Ly in By.
    apply subsem; lia.
Qed.

Lemma okp_ks_add_same t x y z k : (1 <= k)%nat ->
  length x = k -> length y = k -> length z = k ->
  okp t (ks_adder x y z) (fun z' => length z' = k)
      (fun z' e => valN e z' = if valN e x + valN e y <? 2 ^ N.of_nat k then valN e x + valN e y
                               else valN e x + valN e y - 2 ^ N.of_nat k).
Proof.
  intros Hk Lx Ly Lz. unfold wire in *.
  eapply okp_weaken; [apply okp_lenq; [apply okm_ks_adder; unfold wire in *; lia | apply lenq_ks_adder] | |].
  - cbv beta. unfold wire in *. intros; lia.
  - cbv beta. unfold wire in *. intros z' e _ [_ V]. rewrite Lz in V. rewrite V.
    pose proof (valN_lt e x) as Bx. pose proof (valN_lt e y) as By. unfold wire in *. rewrite Lx in Bx. rewrite Ly in By.
    apply addsem; assumption.
Qed.

(* SubConstOne / AddConstOne *)
Lemma okp_sub_const_one t q k : (1 <= k)%nat -> length q = k ->
  okp t (sub_const_one q) (fun r => length r = k)
      (fun r e => valN e r = if 1 <=? valN e q then valN e q - 1 else 2 ^ N.of_nat k + valN e q - 1).
Proof.
  intros Hk Lq. unfold sub_const_one. unfold wire in *.
  eapply okp_bind; [apply okp_of_okm, okm_one|]. intros o _. cbv beta.
  eapply okp_bind; [apply okp_fresh_n|]. intros out Lo. cbv beta.
  eapply okp_weaken; [apply okp_lenq; [apply okm_ks_subtractor | apply lenq_ks_subtractor] | | ].
  - unfold wire in *. lia.
  - unfold wire in *. cbn [length]. lia.
  - cbv beta. unfold wire in *. intros; lia.
  - cbv beta zeta. unfold wire in *. intros z' e _ [_ V] _ Ho. cbn [length] in V.
    replace (Nat.min (S (Nat.max (length q) 1)) (length out)) with k in V by lia.
    rewrite V. rewrite valN_cons, valN_nil, Ho. cbn [N.b2n]. change (1 + 2 * 0) with 1.
    pose proof (valN_lt e q) as Bq. unfold wire in *. rewrite Lq in Bq. pose proof (pow2_ge2 k Hk).
    apply subsem; lia.
Qed.

Lemma okp_add_const_one t q k : (1 <= k)%nat -> length q = k ->
  okp t (add_const_one q) (fun r => length r = k)
      (fun r e => valN e r = if valN e q + 1 <? 2 ^ N.of_nat k then valN e q + 1
                             else valN e q + 1 - 2 ^ N.of_nat k).
Proof.
  intros Hk Lq. unfold add_const_one. unfold wire in *.
  eapply okp_bind; [apply okp_of_okm, okm_one|]. intros o _. cbv beta.
  eapply okp_bind; [apply okp_fresh_n|]. intros out Lo. cbv beta.
  eapply okp_weaken; [apply okp_lenq; [apply okm_ks_adder | apply lenq_ks_adder] | | ].
  - unfold wire in *. lia.
  - unfold wire in *. cbn [length]. lia.
  - cbv beta. unfold wire in *. intros; lia.
  - cbv beta. unfold wire in *. intros z' e _ [_ V] _ Ho. rewrite Lo, Lq in V.
    rewrite V. rewrite valN_cons, valN_nil, Ho. cbn [N.b2n]. change (1 + 2 * 0) with 1.
    pose proof (valN_lt e q) as Bq. unfold wire in *. rewrite Lq in Bq. pose proof (pow2_ge2 k Hk).
    apply addsem; lia.
Qed.

(* ---------- what the correction circuit computes (no hypothesis on q) ---------- *)
(* With P = 2^n and qb = (Q*B) mod P:
     r    = A - qb           on n+1 bits, two's complement; low n bits Rlo, top bit neg
     rm   = Rlo - B          on n+1 bits;                   low n bits RMlo, top bit mb
     qFinal = neg ? Q-1 (mod P) : (not mb ? Q+1 (mod P) : Q)
     rFinal = neg ? Rlo+B (mod P) : (not mb ? RMlo : Rlo)                              *)
Definition corr_sem (P A B Q qf rf : N) : Prop :=
  let qb := (Q * B) mod P in
  exists (neg mb : bool) (Rlo RMlo : N),
    Rlo < P /\ RMlo < P /\
    (if qb <=? A then A - qb else 2 * P + A - qb) = Rlo + P * N.b2n neg /\
    (if B <=? Rlo then Rlo - B else 2 * P + Rlo - B) = RMlo + P * N.b2n mb /\
    qf = (if neg then (if 1 <=? Q then Q - 1 else P + Q - 1)
          else if negb mb then (if Q + 1 <? P then Q + 1 else Q + 1 - P) else Q) /\
    rf = (if neg then (if Rlo + B <? P then Rlo + B else Rlo + B - P)
          else if negb mb then RMlo else Rlo).

Theorem okm_gmw_correction_sem t a b q qFinal rFinal :
  (1 <= length a)%nat -> length b = length a -> length q = length a ->
  length qFinal = length a -> length rFinal = length a ->
  okm t (gmw_correction a b q qFinal rFinal)
      (fun _ e => corr_sem (2 ^ N.of_nat (length a)) (valN e a) (valN e b) (valN e q)
                           (valN e qFinal) (valN e rFinal)).
Proof.
  intros Hn Lb Lq Lqf Lrf. unfold gmw_correction. cbv zeta. unfold wire in *.
  set (n := length a) in *.
  eapply okm_bind_p; [apply okp_fresh_n | intros qbL0 LqbL0; cbv beta].
  eapply okm_bind_p; [apply okp_wallace; unfold wire in *; lia | intros qbL LqbL; cbv beta].
  assert (Lqb : length (firstn n qbL) = n) by (rewrite firstn_length; unfold wire in *; lia).
  eapply okm_bind_p; [apply okp_fresh_n | intros r0 Lr0; cbv beta].
  eapply okm_bind_p; [apply (okp_ks_sub_wide t a (firstn n qbL) r0 n); unfold wire in *; lia
                     | intros r Lr; cbv beta].
  assert (Lrl : length (firstn n r) = n) by (rewrite firstn_length; unfold wire in *; lia).
  eapply okm_bind_p; [apply (okp_sub_const_one t q n); unfold wire in *; lia | intros qm Lqm; cbv beta].
  eapply okm_bind_p; [apply (okp_add_const_one t q n); unfold wire in *; lia | intros qp Lqp; cbv beta].
  eapply okm_bind_p; [apply okp_fresh_n | intros rp0 Lrp0; cbv beta].
  eapply okm_bind_p; [apply (okp_ks_add_same t (firstn n r) b rp0 n); unfold wire in *; lia
                     | intros rp Lrp; cbv beta].
  eapply okm_bind_p; [apply okp_fresh_n | intros rm0 Lrm0; cbv beta].
  eapply okm_bind_p; [apply (okp_ks_sub_wide t (firstn n r) b rm0 n); unfold wire in *; lia
                     | intros rm Lrm; cbv beta].
  assert (Lrml : length (firstn n rm) = n) by (rewrite firstn_length; unfold wire in *; lia).
  eapply okm_bind; [apply okm_fresh | intros isGe; cbv beta].
  eapply okm_bind; [apply okm_cc_inv | intros ?; cbv beta].
  eapply okm_bind_p; [apply okp_fresh_n | intros qHigh LqH; cbv beta].
  eapply okm_bind_p; [apply okp_fresh_n | intros rHigh LrH; cbv beta].
  eapply okm_bind; [apply okm_new_mux; unfold wire in *; lia | intros ?; cbv beta].
  eapply okm_bind; [apply okm_new_mux; unfold wire in *; lia | intros ?; cbv beta].
  eapply okm_bind; [apply okm_new_mux; unfold wire in *; lia | intros ?; cbv beta].
  eapply okm_weaken; [apply okm_new_mux; unfold wire in *; lia|].
  cbv beta. intros _ e Hrf Hqf Hrh Hqh _ _ Hge _ Hrm _ Hrp _ Hqp Hqm Hr _ Hqb _.
  unfold wire in *.
  set (P := 2 ^ N.of_nat n) in *.
  assert (HP : P <> 0) by (pose proof (pow2_pos n); unfold P; lia).
  (* qb *)
  assert (Vqb : valN e (firstn n qbL) = (valN e q * valN e b) mod P).
  { rewrite valN_firstn, Hqb, LqbL0, pow2_double. apply mod_sq_mod. exact HP. }
  rewrite Vqb in Hr.
  pose proof (valN_split_last e n r ltac:(unfold wire in *; lia)) as Sr.
  pose proof (valN_split_last e n rm ltac:(unfold wire in *; lia)) as Srm.
  pose proof (valN_pow_le e (firstn n r) n ltac:(unfold wire in *; lia)) as Brl.
  pose proof (valN_pow_le e (firstn n rm) n ltac:(unfold wire in *; lia)) as Brml.
  fold P in Sr, Srm, Brl, Brml.
  unfold corr_sem. cbv zeta.
  exists (e (nth n r 0)), (e (nth n rm 0)), (valN e (firstn n r)), (valN e (firstn n rm)).
  split; [exact Brl|]. split; [exact Brml|].
  split; [rewrite <- Hr; exact Sr|].
  split; [rewrite <- Hrm; exact Srm|].
  rewrite Hqf, Hrf, Hqh, Hrh, Hge, Hqm, Hqp, Hrp.
  split; reflexivity.
Qed.

(* ---------- arithmetic of the three-way selection ---------- *)
Ltac corr_fin neg mb :=
  repeat match goal with
         | |- context [N.leb ?x ?y] => destruct (N.leb_spec x y)
         | |- context [N.ltb ?x ?y] => destruct (N.ltb_spec x y)
         | H : context [N.leb ?x ?y] |- _ => destruct (N.leb_spec x y)
         | H : context [N.ltb ?x ?y] |- _ => destruct (N.ltb_spec x y)
         end;
  destruct neg, mb; cbn [N.b2n negb] in *; lia.

(* every admissible estimate has a product that fits in n bits *)
Lemma est_small P A B Q : A < P -> B <> 0 ->
  (Q = A / B \/ Q + 1 = A / B \/ (Q = A / B + 1 /\ Q * B < P)) -> Q * B < P.
Proof.
  intros HA HB0 Hest.
  pose proof (N.div_mod' A B) as D. pose proof (N.mod_lt A B HB0) as M.
  set (d := A / B) in *. set (m := A mod B) in *. clearbody d m.
  destruct Hest as [E|[E|[_ E]]].
  - subst Q. rewrite (N.mul_comm d B). lia.
  - assert (K : B * d = Q * B + B) by (rewrite <- E; ring). lia.
  - exact E.
Qed.

Lemma corr_arith P A B Q qf rf : A < P -> B < P -> Q < P -> B <> 0 ->
  (Q = A / B \/ Q + 1 = A / B \/ (Q = A / B + 1 /\ Q * B < P)) ->
  corr_sem P A B Q qf rf -> qf = A / B /\ rf = A mod B.
Proof.
  intros HA HB HQ HB0 Hest (neg & mb & Rlo & RMlo & H1 & H2 & H3 & H4 & -> & ->).
  pose proof (est_small P A B Q HA HB0 Hest) as HQB.
  rewrite (N.mod_small (Q * B) P) in H3 by exact HQB.
  pose proof (N.div_mod' A B) as D. pose proof (N.mod_lt A B HB0) as M.
  set (d := A / B) in *. set (m := A mod B) in *. clearbody d m.
  assert (Hd : d <= B * d) by nia.
  destruct Hest as [E|[E|[E _]]].
  - subst Q. rewrite (N.mul_comm d B) in *. set (T := B * d) in *. clearbody T.
    corr_fin neg mb.
  - assert (K : B * d = Q * B + B) by (rewrite <- E; ring). rewrite K in D, Hd.
    set (T := Q * B) in *. clearbody T. corr_fin neg mb.
  - subst Q. assert (K : (d + 1) * B = B * d + B) by ring. rewrite K in *.
    set (T := B * d) in *. clearbody T. corr_fin neg mb.
Qed.

(* an over-estimate whose product overflows n bits is never repaired *)
Lemma corr_arith_over_overflow P A B Q qf rf : A < P -> B < P -> Q < P -> B <> 0 ->
  Q = A / B + 1 -> P <= Q * B ->
  corr_sem P A B Q qf rf -> qf <> A / B.
Proof.
  intros HA HB HQ HB0 E Hov (neg & mb & Rlo & RMlo & H1 & H2 & H3 & H4 & -> & _).
  pose proof (N.div_mod' A B) as D. pose proof (N.mod_lt A B HB0) as M.
  set (d := A / B) in *. set (m := A mod B) in *. clearbody d m.
  subst Q. assert (K : (d + 1) * B = B * d + B) by ring. rewrite K in *.
  assert (T0 : d = 0 -> B * d = 0) by (intros ->; lia).
  set (T := B * d) in *. clearbody T.
  assert (Em : (T + B) mod P = T + B - P) by (symmetry; apply N.mod_unique with (q := 1); lia).
  rewrite Em in H3.
  corr_fin neg mb.
Qed.

(* ---------- the correction theorem, every width n >= 1, both targets ---------- *)
Theorem okm_gmw_correction t a b q qFinal rFinal :
  (1 <= length a)%nat -> length b = length a -> length q = length a ->
  length qFinal = length a -> length rFinal = length a ->
  okm t (gmw_correction a b q qFinal rFinal)
      (fun _ e => let A := valN e a in let B := valN e b in let Q := valN e q in
         B <> 0 ->
         (Q = A / B \/ Q + 1 = A / B \/ (Q = A / B + 1 /\ Q * B < 2 ^ N.of_nat (length a))) ->
         valN e qFinal = A / B /\ valN e rFinal = A mod B).
Proof.
  intros Hn Lb Lq Lqf Lrf.
  eapply okm_weaken; [apply okm_gmw_correction_sem; assumption|].
  cbv beta zeta. intros _ e S HB0 Hest.
  pose proof (valN_lt e a) as BA. pose proof (valN_lt e b) as BB. pose proof (valN_lt e q) as BQ.
  unfold wire in *. rewrite Lb in BB. rewrite Lq in BQ.
  exact (corr_arith _ _ _ _ _ _ BA BB BQ HB0 Hest S).
Qed.

(* exact or under-estimate by one: no further condition *)
Corollary okm_gmw_correction_under t a b q qFinal rFinal :
  (1 <= length a)%nat -> length b = length a -> length q = length a ->
  length qFinal = length a -> length rFinal = length a ->
  okm t (gmw_correction a b q qFinal rFinal)
      (fun _ e => let A := valN e a in let B := valN e b in let Q := valN e q in
         B <> 0 -> (Q = A / B \/ Q + 1 = A / B) ->
         valN e qFinal = A / B /\ valN e rFinal = A mod B).
Proof.
  intros Hn Lb Lq Lqf Lrf.
  eapply okm_weaken; [apply okm_gmw_correction; assumption|].
  cbv beta zeta. intros _ e H HB0 Hest. apply H; [exact HB0|]. tauto.
Qed.

(* over-estimate by one: repaired when q*b fits in n bits *)
Corollary okm_gmw_correction_over t a b q qFinal rFinal :
  (1 <= length a)%nat -> length b = length a -> length q = length a ->
  length qFinal = length a -> length rFinal = length a ->
  okm t (gmw_correction a b q qFinal rFinal)
      (fun _ e => let A := valN e a in let B := valN e b in let Q := valN e q in
         B <> 0 -> Q = A / B + 1 -> Q * B < 2 ^ N.of_nat (length a) ->
         valN e qFinal = A / B /\ valN e rFinal = A mod B).
Proof.
  intros Hn Lb Lq Lqf Lrf.
  eapply okm_weaken; [apply okm_gmw_correction; assumption|].
  cbv beta zeta. intros _ e H HB0 E Hs. apply H; [exact HB0|]. right; right. split; assumption.
Qed.

(* ... and NEVER repaired when q*b does not fit: the side condition is necessary *)
Theorem okm_gmw_correction_over_overflow t a b q qFinal rFinal :
  (1 <= length a)%nat -> length b = length a -> length q = length a ->
  length qFinal = length a -> length rFinal = length a ->
  okm t (gmw_correction a b q qFinal rFinal)
      (fun _ e => let A := valN e a in let B := valN e b in let Q := valN e q in
         B <> 0 -> Q = A / B + 1 -> 2 ^ N.of_nat (length a) <= Q * B ->
         valN e qFinal <> A / B).
Proof.
  intros Hn Lb Lq Lqf Lrf.
  eapply okm_weaken; [apply okm_gmw_correction_sem; assumption|].
  cbv beta zeta. intros _ e S HB0 E Hov.
  pose proof (valN_lt e a) as BA. pose proof (valN_lt e b) as BB. pose proof (valN_lt e q) as BQ.
  unfold wire in *. rewrite Lb in BB. rewrite Lq in BQ.
  exact (corr_arith_over_overflow _ _ _ _ _ _ BA BB BQ HB0 E Hov S).
Qed.

(* ---------- the plain "+-1" statement is false ---------- *)
(* width 3: a = wires 0..2, b = 3..5, q = 6..8 (inputs), qFinal = 9..11, rFinal = 12..14.
   Inputs A = 7, B = 3, Q = 3 = 7/3 + 1 (input assignment = the bits of 223 = 7 + 8*3 + 64*3). *)
Definition corr3_gates : list gate :=
  gates (snd (gmw_correction [0; 1; 2] [3; 4; 5] [6; 7; 8] [9; 10; 11] [12; 13; 14] (st0 15 true))).

Example gmw_correction_w3_counterexample :
  wfc_b 9 corr3_gates = true /\
  let e := eval_rev corr3_gates (N.testbit 223) in
  valN e [0; 1; 2] = 7 /\ valN e [3; 4; 5] = 3 /\ valN e [6; 7; 8] = 3 /\
  valN e [9; 10; 11] = 4 /\ valN e [12; 13; 14] = 3.
Proof. vm_compute. repeat split; reflexivity. Qed.

Definition gmw_correction_pm1_statement : Prop :=
  forall t a b q qFinal rFinal,
    (1 <= length a)%nat -> length b = length a -> length q = length a ->
    length qFinal = length a -> length rFinal = length a ->
    okm t (gmw_correction a b q qFinal rFinal)
        (fun _ e => let A := valN e a in let B := valN e b in let Q := valN e q in
           B <> 0 -> (Q = A / B \/ Q + 1 = A / B \/ Q = A / B + 1) ->
           valN e qFinal = A / B /\ valN e rFinal = A mod B).

Theorem gmw_correction_pm1_refuted : ~ gmw_correction_pm1_statement.
Proof.
  intros H.
  specialize (H true [0; 1; 2] [3; 4; 5] [6; 7; 8] [9; 10; 11] [12; 13; 14]
                (le_n_S _ _ (Nat.le_0_l _)) eq_refl eq_refl eq_refl eq_refl).
  destruct (H (st0 15 true) (wfs_st0 _ _) eq_refl) as (u & s' & E & _ & _ & HP).
  assert (Es : gates s' = corr3_gates) by (unfold corr3_gates; rewrite E; reflexivity).
  destruct gmw_correction_w3_counterexample as (W & VA & VB & VQ & Vq & Vr).
  specialize (HP (eval_rev corr3_gates (N.testbit 223))).
  rewrite Es in HP. specialize (HP (eval_rev_sat 9 _ _ W)).
  cbv zeta in HP. rewrite VA, VB, VQ, Vq, Vr in HP.
  destruct HP as [K _]; [discriminate | right; right; reflexivity | discriminate K].
Qed.
