(* Bitwise.v — /repo/compiler/circuits/circ_binary.go
   NewBinaryAND, NewBinaryClear, NewBinaryOR, NewBinaryXOR.  No proofs in this file. *)
From Coq Require Import NArith List Bool Arith.
From Mpc Require Import Builders.Emit.
Import ListNotations.
Open Scope monad_scope.

Fixpoint bitwise_loop (f : wire -> wire -> wire -> M unit) (x y r : list wire) : M unit :=
  match x, y, r with
  | xi :: x', yi :: y', ri :: r' => f xi yi ri;; bitwise_loop f x' y' r'
  | _, _, _ => ret tt
  end.

Definition bitwise (f : wire -> wire -> wire -> M unit) (x y r : list wire) : M unit :=
  '(x, y) <- zero_pad x y;;
  bitwise_loop f (firstn (length r) x) (firstn (length r) y) r.

Definition binary_and := bitwise (fun a b o => emit AND a b o).
Definition binary_clear := bitwise (fun a b o => w <- fresh;; cc_inv b w;; emit AND a w o).
Definition binary_or := bitwise cc_or.
Definition binary_xor := bitwise (fun a b o => emit XOR a b o).
