(* Div2.v — /repo/compiler/circuits/circ_divider.go
   NewUDividerRestoring, NewUDividerArray (exported builders without an in-repo
   caller).  No proofs in this file. *)
From Coq Require Import NArith List Bool Arith.
From Mpc Require Import Builders.Emit Builders.Adder Builders.Sub Builders.Mux.
Import ListNotations.
Open Scope monad_scope.

(* ---------- NewUDividerRestoring ---------- *)

(* the loop "for i := len(a)-1; i >= 0; i--": cnt = i+1 iterations remain,
   n = len(a) (after ZeroPad), r and d are the 2n-wire vectors of the Go code *)
Fixpoint udiv_restoring_loop (cnt n : nat) (d q rret r : list wire) : M unit :=
  match cnt with
  | S i =>
      (* r << 1, r[0] = cc.ZeroWire() *)
      z0 <- zero_wire;;
      let r := z0 :: removelast r in
      (* r-d, overflow: r < d *)
      diff <- fresh_n (length r + 1);;
      diff <- new_subtractor r d diff;;
      let top := skipn (length diff - 1) diff in
      (if Nat.ltb i (length q) then
         z <- zero_wire;; o <- one_wire;;
         new_mux top [z] [o] (firstn 1 (skipn i q))
       else ret tt);;
      (* nr[j] = rret[j-len(a)] in the last iteration for len(a) <= j < len(a)+len(rret),
         a new wire otherwise (allocated in the order of j) *)
      nr <- (if Nat.eqb i 0 then
               let k := Nat.min (length rret) n in
               lo <- fresh_n n;;
               hi <- fresh_n (n - k);;
               ret (lo ++ firstn k rret ++ hi)
             else fresh_n (length r));;
      new_mux top r (firstn (length diff - 1) diff) nr;;
      udiv_restoring_loop i n d q rret nr
  | O => ret tt
  end.

(* NewUDividerRestoring(cc, a, b, q, rret) *)
Definition udivider_restoring (a b q rret : list wire) : M unit :=
  '(a, b) <- zero_pad a b;;
  let n := length a in
  (* r = a ++ zeros, d = zeros ++ b  (2n wires each) *)
  z <- (if Nat.eqb n 0 then ret 0%N else zero_wire);;
  let r := a ++ repeat z n in
  let d := repeat z (length b) ++ b in
  udiv_restoring_loop n n d q rret r.

(* ---------- NewUDividerArray ---------- *)

(* "bINV[i] = cc.Calloc.Wire(); cc.INV(b[i], bINV[i])" *)
Fixpoint uda_binv (b : list wire) : M (list wire) :=
  match b with
  | bi :: b' => w <- fresh;; cc_inv bi w;; ws <- uda_binv b';; ret (w :: ws)
  | [] => ret []
  end.

(* one row of full adders "for x := 0; x < len(b)+1; x++": rin and bw = bINV ++ [OneWire]
   position by position; returns the sums (the new rOut) and the final carry *)
Fixpoint uda_adders (rin bw : list wire) (cin : wire) : M (list wire * wire) :=
  match rin, bw with
  | ri :: rin', b :: bw' =>
      co <- fresh;;
      ro <- fresh;;
      full_adder ri b cin ro (Some co);;
      '(ros, c) <- uda_adders rin' bw' co;;
      ret (ro :: ros, c)
  | _, _ => ret ([], cin)
  end.

(* "for x := len(b); x >= 0; x--" with k = x+1: restores rIn where the carry is 0;
   returns rOut[0..k-1]; in the last row the first len(r) outputs are the wires of r *)
Fixpoint uda_mux_loop (last : bool) (c : wire) (k : nat) (rout rin r : list wire) : M (list wire) :=
  match k with
  | S x =>
      ro <- (if last && Nat.ltb x (length r) then ret (nth x r 0%N) else fresh);;
      new_mux [c] (firstn 1 (skipn x rout)) (firstn 1 (skipn x rin)) [ro];;
      lo <- uda_mux_loop last c x rout rin r;;
      ret (lo ++ [ro])
  | O => ret []
  end.

(* the loop "for y := 0; y < len(a); y++"; ra = a[len(a)-1-y], ..., a[0];
   rout = the previous row's rOut (its first len(b) wires are used) *)
Fixpoint uda_rows (ra : list wire) (nb : nat) (binv q r rout : list wire) : M (list wire) :=
  match ra with
  | ai :: ra' =>
      let i := length ra' in
      let rin := ai :: firstn nb rout in
      cin <- one_wire;;
      o <- one_wire;;
      '(rout, c) <- uda_adders rin (binv ++ [o]) cin;;
      (if Nat.ltb i (length q) then
         w <- fresh;;
         cc_inv c w;;
         cc_inv w (nth i q 0%N)
       else ret tt);;
      rout <- uda_mux_loop (Nat.eqb i 0) c (nb + 1) rout rin r;;
      uda_rows ra' nb binv q r rout
  | [] => ret rout
  end.

(* NewUDividerArray(cc, a, b, q, r); returns q and r as the builder leaves them *)
Definition udivider_array (a b q r : list wire) : M (list wire * list wire) :=
  '(a, b) <- zero_pad a b;;
  binv <- uda_binv b;;
  rout <- (if Nat.eqb (length b) 0 then ret [] else z <- zero_wire;; ret (repeat z (length b)));;
  _ <- uda_rows (rev a) (length b) binv q r rout;;
  q <- zero_tail q (length a);;
  r <- zero_tail r (length b);;
  ret (q, r).
