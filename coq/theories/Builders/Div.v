(* Div.v — /repo/compiler/circuits/circ_divider.go
   NewUDividerLong, NewUDivider, NewIDivider.  No proofs in this file. *)
From Coq Require Import NArith List Bool Arith.
From Mpc Require Import Builders.Emit Builders.Sub Builders.Mux Builders.Gmwdiv.
Import ListNotations.
Open Scope monad_scope.

(* the loop "for i := len(a)-1; i >= 0; i--" of NewUDividerLong;
   ra = a[i], a[i-1], ..., a[0] *)
Fixpoint udiv_long_loop (ra : list wire) (i : nat) (b q rret r : list wire) : M unit :=
  match ra with
  | ai :: ra' =>
      (* r << 1, r[0] = a[i] *)
      let r := ai :: removelast r in
      diff <- fresh_n (length r + 1);;
      diff <- new_subtractor r b diff;;
      let top := skipn (length diff - 1) diff in
      (if Nat.ltb i (length q) then
         z <- zero_wire;; o <- one_wire;;
         new_mux top [z] [o] (firstn 1 (skipn i q))
       else ret tt);;
      nr <- (if Nat.eqb i 0 then
               let k := Nat.min (length rret) (length r) in
               fr <- fresh_n (length r - k);;
               ret (firstn k rret ++ fr)
             else fresh_n (length r));;
      new_mux top r (firstn (length diff - 1) diff) nr;;
      udiv_long_loop ra' (i - 1) b q rret nr
  | [] => ret tt
  end.

(* NewUDividerLong(cc, a, b, q, rret) *)
Definition udivider_long (a b q rret : list wire) : M unit :=
  '(a, b) <- zero_pad a b;;
  r <- (if Nat.eqb (length a) 0 then ret [] else z <- zero_wire;; ret (repeat z (length a)));;
  udiv_long_loop (rev a) (length a - 1) b q rret r.

(* NewUDivider *)
Definition new_udivider (a b q r : list wire) : M unit :=
  t <- target_gmw;;
  if t then gmw_divider a b q r else udivider_long a b q r.

(* NewIDivider(cc, a, b, q, r); q = nil is modelled as [] *)
Definition new_idivider (a b q r : list wire) : M unit :=
  '(a, b) <- zero_pad a b;;
  z0 <- zero_wire;;
  let zero_ := [z0] in
  let neg0 := z0 in
  let alast := skipn (length a - 1) a in
  let blast := skipn (length b - 1) b in
  neg1 <- fresh;;
  cc_inv neg0 neg1;;
  a1 <- fresh_n (length a);;
  a1 <- new_subtractor zero_ a a1;;
  neg2 <- fresh;;
  new_mux alast [neg1] [neg0] [neg2];;
  a2 <- fresh_n (length a);;
  new_mux alast a1 a a2;;
  neg3 <- fresh;;
  cc_inv neg2 neg3;;
  b1 <- fresh_n (length b);;
  b1 <- new_subtractor zero_ b b1;;
  neg4 <- fresh;;
  new_mux blast [neg3] [neg2] [neg4];;
  b2 <- fresh_n (length b);;
  new_mux blast b1 b b2;;
  if Nat.eqb (length q) 0 then new_udivider a2 b2 q r
  else
    q0 <- fresh_n (length q);;
    new_udivider a2 b2 q0 r;;
    q1 <- fresh_n (length q);;
    q1 <- new_subtractor zero_ q0 q1;;
    new_mux [neg4] q1 q0 q.
