(* Hamming.v — /repo/compiler/circuits/circ_hamming.go  Hamming.
   No proofs in this file. *)
From Coq Require Import NArith List Bool Arith.
From Mpc Require Import Builders.Emit Builders.Adder.
Import ListNotations.
Open Scope monad_scope.

Fixpoint ham_xor (a b : list wire) : M (list (list wire)) :=
  match a, b with
  | ai :: a', bi :: b' =>
      w <- fresh;;
      emit XOR ai bi w;;
      r <- ham_xor a' b';;
      ret ([w] :: r)
  | _, _ => ret []
  end.

(* one pass "for i := 0; i < len(arr); i += 2" *)
Fixpoint ham_pairs (arr : list (list wire)) : M (list (list wire)) :=
  match arr with
  | u :: v :: rest =>
      result <- fresh_n (length u + 1);;
      result <- new_adder u v result;;
      r <- ham_pairs rest;;
      ret (result :: r)
  | [u] => ret [u]
  | [] => ret []
  end.

Fixpoint ham_reduce (fuel : nat) (arr : list (list wire)) : M (list (list wire)) :=
  match fuel with
  | O => ret arr
  | S f => if Nat.ltb 2 (length arr)
           then a <- ham_pairs arr;; ham_reduce f a
           else ret arr
  end.

(* Hamming(cc, a, b, r); len(a) >= 2 (Go indexes arr[1]) *)
Definition hamming (a b r : list wire) : M (list wire) :=
  '(a, b) <- zero_pad a b;;
  arr <- ham_xor a b;;
  arr <- ham_reduce (length arr) arr;;
  new_adder (nth 0 arr []) (nth 1 arr []) r.
