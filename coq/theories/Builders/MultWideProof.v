(* MultWideProof.v — regression record of finding F12 (fixed in /repo by commit
   40c507d "NewArrayMultiplier zeroes all unused high result bits").
   Before the fix both zero-fill loops of NewArrayMultiplier assigned z[1]
   instead of z[i]; [array_multiplier_old] is the faithful model of that code.
   It is NOT exact for result widths > 2*max: 1-bit x = 1 times 2-bit y = 2 with
   a 7-bit result evaluates to 0 ([array_multiplier_old_wide_refuted]); the
   current model (Mult.array_multiplier, tied to the current Go code by the
   correspondence check) gives 2 and is proved exact for every width in
   MultProof.v. *)
From Coq Require Import NArith List Bool Arith Lia.
From Mpc Require Import Builders.Emit Builders.Mult.
Import ListNotations.
Open Scope monad_scope.

Definition array_multiplier_old (x y z : list wire) : M (list wire) :=
  '(x, y) <- zero_pad x y;;
  let x := firstn (length z) x in
  let y := firstn (length z) y in
  if Nat.eqb (length x) 1 then
    emit AND (nth 0 x 0%N) (nth 0 y 0%N) (nth 0 z 0%N);;
    (* if len(z) > 1 { z[1] = cc.ZeroWire() } *)
    (if Nat.ltb 1 (length z) then zw <- zero_wire;; ret (set_nth z 1 zw) else ret z)
  else
    emit AND (nth 0 x 0%N) (nth 0 y 0%N) (nth 0 z 0%N);;
    sums <- am_row0 (tl x) (nth 0 y 0%N);;
    let j := (length y - 1)%nat in
    sums <- am_layers x (firstn (j - 1) (tl y)) (tl z) sums;;
    am_final true x (nth j y 0%N) sums (skipn j z) 0%N;;
    (* for i := j+len(x)+1; i < len(z); i++ { z[1] = cc.ZeroWire() }   <- the typo *)
    (if Nat.ltb (j + length x + 1) (length z)
     then zw <- zero_wire;; ret (set_nth z 1 zw)
     else ret z).

Open Scope N_scope.

(* operands on wires 0 (x), 1..2 (y); destinations 3..9; x = 1, y = 2 *)
Definition f12_x : list wire := [0].
Definition f12_y : list wire := [1; 2].
Definition f12_z : list wire := [3; 4; 5; 6; 7; 8; 9].
Definition f12_e0 : env := fun w => N.eqb w 0 || N.eqb w 2.

Lemma f12_inputs : valN f12_e0 f12_x = 1 /\ valN f12_e0 f12_y = 2.
Proof. split; reflexivity. Qed.

Theorem array_multiplier_old_wide_refuted :
  exists x y z e0,
    (2 * Nat.max (length x) (length y) < length z)%nat /\
    let '(z', s') := array_multiplier_old x y z (st0 10 false) in
    wfc_b 3 (gates s') = true /\
    valN (eval_rev (gates s') e0) z' <> (valN e0 x * valN e0 y) mod 2 ^ N.of_nat (length z).
Proof.
  exists f12_x, f12_y, f12_z, f12_e0. split; [cbn; lia|].
  vm_compute. split; [reflexivity|discriminate].
Qed.

(* the wrong value was 0: bit 1 (the only set bit of the product 2) was zeroed *)
Example f12_old_value :
  let '(z', s') := array_multiplier_old f12_x f12_y f12_z (st0 10 false) in
  valN (eval_rev (gates s') f12_e0) z' = 0.
Proof. vm_compute. reflexivity. Qed.

(* the code as it is now gives the exact product on the same input *)
Example f12_fixed_value :
  let '(z', s') := array_multiplier f12_x f12_y f12_z (st0 10 false) in
  valN (eval_rev (gates s') f12_e0) z' = 2.
Proof. vm_compute. reflexivity. Qed.

Example f12_fixed_via_multiplier :
  let '(z', s') := new_multiplier [] 0 f12_x f12_y f12_z (st0 10 false) in
  valN (eval_rev (gates s') f12_e0) z' = 2.
Proof. vm_compute. reflexivity. Qed.
