(* StructProof.v — structural well-formedness of emitted gate lists, for every width.

   [wfc_b ninp gs] (Emit.v): every gate's output wire is new — not an input wire,
   not read or written by any earlier gate (single assignment, no write after
   use).  [dbu ninp gs]: every gate input is an input wire or the output of an
   earlier gate (defined before use).  Under wfc_b, gate-by-gate evaluation is a
   consistent valuation (EmitProof.eval_rev_sat), so the semantic theorems
   ([okm]) apply to the evaluated circuit ([run_st0] below).

   State-level vocabulary (ninp = number of circuit input wires, numbered 0..ninp-1):
     defd s w : w is an input wire or the output of an emitted gate (may be read)
     pend s w : w is allocated (ninp <= w < next s) and occurs in no gate yet
                (may be used as a destination exactly once)
     wfst s   : the emitted list is wfc_b and dbu, mentions only allocated
                wires, and the lazily created constant wires are defined
     step s s' wr : s' comes after s: the allocator only grows, defined wires stay
                defined, and every pending wire NOT in [wr] is still pending
     oks m s Q : running m from s yields (a, s') with wfst s' and Q a s'
   A builder's structural lemma has the shape
     wfst s -> <operands defd in s> -> <destinations pend in s, distinct> ->
     oks (builder ...) s (fun a s' => step s s' <destinations> /\ <results defd in s'>). *)
From Coq Require Import NArith List Bool Arith Lia FinFun.
From Mpc Require Import Builders.Emit Builders.EmitProof.
Import ListNotations.
Open Scope N_scope.

Section Struct.
Variable ninp : N.

Definition outs (gs : list gate) : list wire := map g_o gs.
Definition defd_in (gs : list gate) (w : wire) : Prop := w < ninp \/ In w (outs gs).
Fixpoint dbu (gs : list gate) : Prop :=
  match gs with
  | [] => True
  | g :: r => defd_in r (g_a g) /\ defd_in r (g_b g) /\ dbu r
  end.
Definition pend_g (n : N) (gs : list gate) (w : wire) : Prop :=
  ninp <= w /\ w < n /\ mentions w gs = false.
Definition wfg (n : N) (gs : list gate) : Prop :=
  wfc_b ninp gs = true /\ dbu gs /\ (forall w, mentions w gs = true -> w < n) /\
  0 < ninp /\ ninp <= n.

Lemma mentions_cons w g r :
  mentions w (g :: r) = (N.eqb w (g_a g) || N.eqb w (g_b g) || N.eqb w (g_o g) || mentions w r).
Proof. reflexivity. Qed.

Lemma outs_mentions gs w : In w (outs gs) -> mentions w gs = true.
Proof.
  induction gs as [|g r IH]; cbn; [intros []|]. intros [H|H].
  - subst. rewrite N.eqb_refl. rewrite !orb_true_r. reflexivity.
  - rewrite IH by auto. apply orb_true_r.
Qed.

Lemma defd_lt n gs w : wfg n gs -> defd_in gs w -> w < n.
Proof.
  intros (_ & _ & L & I1 & I2) [H|H]; [lia|]. apply L, outs_mentions, H.
Qed.

Lemma defd_pend_neq n gs a o : defd_in gs a -> pend_g n gs o -> a <> o.
Proof.
  intros [H|H] (P1 & P2 & P3) E; subst; [lia|].
  apply outs_mentions in H. congruence.
Qed.

Lemma defd_in_cons g gs w : defd_in gs w -> defd_in (g :: gs) w.
Proof. intros [H|H]; [left; auto|right; cbn; auto]. Qed.

Lemma defd_in_out g gs : defd_in (g :: gs) (g_o g).
Proof. right. cbn. auto. Qed.

Lemma wfg_emit n gs op a b o :
  wfg n gs -> defd_in gs a -> defd_in gs b -> pend_g n gs o ->
  wfg n (mkG op a b o :: gs).
Proof.
  intros W Da Db Po. pose proof (defd_pend_neq _ _ _ _ Da Po) as Na.
  pose proof (defd_pend_neq _ _ _ _ Db Po) as Nb.
  pose proof (defd_lt _ _ _ W Da) as La. pose proof (defd_lt _ _ _ W Db) as Lb.
  destruct W as (C & D & L & I1 & I2). destruct Po as (P1 & P2 & P3).
  split; [|split; [|split; [|split]]]; auto.
  - cbn. rewrite C, P3.
    replace (N.ltb o ninp) with false by (symmetry; apply N.ltb_ge; lia).
    replace (N.eqb o a) with false by (symmetry; apply N.eqb_neq; congruence).
    replace (N.eqb o b) with false by (symmetry; apply N.eqb_neq; congruence).
    reflexivity.
  - cbn. auto.
  - intros w. rewrite mentions_cons. cbn [g_a g_b g_o]. intros H.
    apply orb_true_iff in H. destruct H as [H|H]; [|auto].
    apply orb_true_iff in H. destruct H as [H|H].
    + apply orb_true_iff in H. destruct H as [H|H]; apply N.eqb_eq in H; subst; auto.
    + apply N.eqb_eq in H. subst. auto.
Qed.

Lemma pend_emit n gs op a b o w :
  pend_g n gs w -> w <> o -> defd_in gs a -> defd_in gs b ->
  pend_g n (mkG op a b o :: gs) w.
Proof.
  intros P No Da Db. pose proof (defd_pend_neq _ _ _ _ Da P). pose proof (defd_pend_neq _ _ _ _ Db P).
  destruct P as (P1 & P2 & P3). split; [|split]; auto.
  rewrite mentions_cons. cbn [g_a g_b g_o]. rewrite P3.
  replace (N.eqb w a) with false by (symmetry; apply N.eqb_neq; congruence).
  replace (N.eqb w b) with false by (symmetry; apply N.eqb_neq; congruence).
  replace (N.eqb w o) with false by (symmetry; apply N.eqb_neq; congruence).
  reflexivity.
Qed.

Lemma wfg_next n n' gs : wfg n gs -> n <= n' -> wfg n' gs.
Proof.
  intros (C & D & L & I1 & I2) H. repeat split; auto; try lia.
  intros w M. specialize (L w M). lia.
Qed.

(* ---------- state level ---------- *)
Definition defd (s : st) (w : wire) : Prop := defd_in (gates s) w.
Definition pend (s : st) (w : wire) : Prop := pend_g (next s) (gates s) w.
Definition wfst (s : st) : Prop :=
  wfg (next s) (gates s) /\
  (forall w, zero s = Some w -> defd s w) /\
  (forall w, one s = Some w -> defd s w) /\
  (forall w, inv0 s = Some w -> defd s w).

Definition step (s s' : st) (wr : list wire) : Prop :=
  (gmw s' = gmw s /\ next s <= next s') /\
  (forall w, defd s w -> defd s' w) /\
  (forall w, pend s w -> ~ In w wr -> pend s' w).

Lemma step_refl s : step s s [].
Proof. split; [split; [reflexivity|lia]|]. split; auto. Qed.

Lemma step_trans s1 s2 s3 w1 w2 : step s1 s2 w1 -> step s2 s3 w2 -> step s1 s3 (w1 ++ w2).
Proof.
  intros ((G1 & A1) & B1 & C1) ((G2 & A2) & B2 & C2). split; [split; [congruence|lia]|]. split; [auto|].
  intros x P N. apply C2; [apply C1; auto|]; intro; apply N, in_or_app; auto.
Qed.

Lemma step_weaken s s' w1 w2 : step s s' w1 -> incl w1 w2 -> step s s' w2.
Proof. intros (A & B & C) I. split; [auto|]. split; [auto|]. intros x P N. apply C; auto. Qed.

Lemma step_defd s s' wr w : step s s' wr -> defd s w -> defd s' w.
Proof. intros (_ & B & _). auto. Qed.
Lemma step_pend s s' wr w : step s s' wr -> pend s w -> ~ In w wr -> pend s' w.
Proof. intros (_ & _ & C). auto. Qed.
Lemma step_next s s' wr : step s s' wr -> next s <= next s'.
Proof. intros ((_ & A) & _). auto. Qed.
Lemma step_gmw s s' wr : step s s' wr -> gmw s' = gmw s.
Proof. intros ((A & _) & _). auto. Qed.

Lemma defd_next s w : wfst s -> defd s w -> w < next s.
Proof. intros (W & _) D. eapply defd_lt; eauto. Qed.
Lemma pend_next s w : pend s w -> w < next s.
Proof. intros (_ & H & _). auto. Qed.
Lemma defd_pend_ne s a o : defd s a -> pend s o -> a <> o.
Proof. intros D P. eapply defd_pend_neq; eauto. Qed.
Lemma pend_not_defd s w : pend s w -> ~ defd s w.
Proof. intros P D. eapply defd_pend_ne; eauto. Qed.
Lemma defd_input s w : w < ninp -> defd s w.
Proof. intros H. left. auto. Qed.
Lemma defd_in0 s : wfst s -> defd s in0.
Proof. intros ((_ & _ & _ & I & _) & _). left. exact I. Qed.
Lemma defd_zero_const s : wfst s -> defd s 0.
Proof. apply defd_in0. Qed.

Definition oks {A} (m : M A) (s : st) (Q : A -> st -> Prop) : Prop :=
  exists a s', m s = (a, s') /\ wfst s' /\ Q a s'.

Lemma oks_ret {A} (a : A) s (Q : A -> st -> Prop) : wfst s -> Q a s -> oks (ret a) s Q.
Proof. intros W H. exists a, s. auto. Qed.

Lemma oks_bind {A B} (m : M A) (f : A -> M B) s (P : A -> st -> Prop) (Q : B -> st -> Prop) :
  oks m s P -> (forall a s1, wfst s1 -> P a s1 -> oks (f a) s1 Q) -> oks (bind m f) s Q.
Proof.
  intros (a & s1 & E1 & W1 & P1) H. destruct (H a s1 W1 P1) as (b & s2 & E2 & W2 & Q2).
  exists b, s2. unfold bind. rewrite E1, E2. auto.
Qed.

Lemma oks_conseq {A} (m : M A) s (P Q : A -> st -> Prop) :
  oks m s P -> (forall a s', wfst s' -> P a s' -> Q a s') -> oks m s Q.
Proof. intros (a & s' & E & W & H) I. exists a, s'. auto. Qed.

(* ---------- primitives ---------- *)
Lemma fresh_s s : wfst s ->
  oks fresh s (fun w s' => w = next s /\ pend s' w /\ step s s' [] /\ next s' = N.succ (next s)).
Proof.
  intros (W & Z & O & I). eexists _, _. split; [reflexivity|]. cbn.
  assert (W' : wfg (N.succ (next s)) (gates s)) by (eapply wfg_next; eauto; lia).
  split; [split; auto|]. split; [reflexivity|]. split; [|split; [|reflexivity]].
  - destruct W as (_ & _ & L & I1 & I2). unfold pend, pend_g. cbn. repeat split; try lia.
    destruct (mentions (next s) (gates s)) eqn:M; auto. specialize (L _ M). lia.
  - unfold step, defd, pend, pend_g. cbn. split; [split; [reflexivity|lia]|]. split; [auto|].
    intros w (H1 & H2 & H3) _. repeat split; auto; lia.
Qed.

Lemma emit_s s op a b o : wfst s -> defd s a -> defd s b -> pend s o ->
  oks (emit op a b o) s (fun _ s' => step s s' [o] /\ defd s' o /\ next s' = next s).
Proof.
  intros (W & Z & O & I) Da Db Po. eexists _, _. split; [reflexivity|]. cbn.
  split; [|split; [|split; [|reflexivity]]].
  - split; [apply wfg_emit; auto|]. unfold defd. cbn.
    split; [intros w Hw; apply defd_in_cons, Z, Hw | split; [intros w Hw; apply defd_in_cons, O, Hw | intros w Hw; apply defd_in_cons, I, Hw]].
  - unfold step, defd, pend. cbn. split; [split; [reflexivity|lia]|]. split.
    + intros w. apply defd_in_cons.
    + intros w P N. apply pend_emit; auto; try (intro; apply N; cbn; auto).
  - unfold defd. cbn. apply (defd_in_out (mkG op a b o)).
Qed.

Lemma pend_g_next n n' gs w : pend_g n gs w -> n <= n' -> pend_g n' gs w.
Proof. intros (A & B & C) H. repeat split; auto. lia. Qed.

Lemma pend_g_fresh n gs k : wfg n gs -> n <= k -> forall n', k < n' -> pend_g n' gs k.
Proof.
  intros (_ & _ & L & I1 & I2) H n' H'. repeat split; try lia.
  destruct (mentions k gs) eqn:M; auto. specialize (L _ M). lia.
Qed.

Lemma pend_emit' n gs op a b o w :
  pend_g n gs w -> w <> o -> w <> a -> w <> b -> pend_g n (mkG op a b o :: gs) w.
Proof.
  intros (P1 & P2 & P3) No Na Nb. split; [|split]; auto.
  rewrite mentions_cons. cbn [g_a g_b g_o]. rewrite P3.
  replace (N.eqb w a) with false by (symmetry; apply N.eqb_neq; congruence).
  replace (N.eqb w b) with false by (symmetry; apply N.eqb_neq; congruence).
  replace (N.eqb w o) with false by (symmetry; apply N.eqb_neq; congruence).
  reflexivity.
Qed.

Lemma in0_defd n gs : wfg n gs -> defd_in gs in0.
Proof. intros (_ & _ & _ & I & _). left. exact I. Qed.

Lemma inv0_s s : wfst s -> oks inv_i0_wire s (fun w s' => step s s' [] /\ defd s' w).
Proof.
  intros WS. pose proof WS as (W & Z & O & I). unfold inv_i0_wire, oks. cbv beta.
  destruct (inv0 s) as [i|] eqn:EI.
  - exists i, s. split; [reflexivity|]. split; [exact WS|]. split; [apply step_refl|]. apply I; auto.
  - unfold bind, fresh, set_inv0, emit, ret. cbn. eexists _, _. split; [reflexivity|].
    assert (W1 : wfg (N.succ (next s)) (gates s)) by (eapply wfg_next; eauto; lia).
    assert (P1 : pend_g (N.succ (next s)) (gates s) (next s)) by (apply (pend_g_fresh (next s) (gates s) (next s) W); lia).
    pose proof (in0_defd _ _ W1) as D0.
    assert (W2 : wfg (N.succ (next s)) (mkG INV in0 0 (next s) :: gates s)) by (apply wfg_emit; auto).
    split; [|split].
    + split; [exact W2|]. unfold defd. cbn.
      split; [intros w Hw; apply defd_in_cons, Z, Hw | split; [intros w Hw; apply defd_in_cons, O, Hw | ]].
      intros w Hw. inversion Hw; subst. apply (defd_in_out (mkG INV in0 0 (next s))).
    + unfold step, defd, pend. cbn. split; [split; [reflexivity|lia]|]. split; [intros w; apply defd_in_cons|].
      intros w P _. pose proof P as (Q1 & Q2 & Q3).
      apply pend_emit; auto; try lia; eapply pend_g_next; eauto; lia.
    + unfold defd. cbn. apply (defd_in_out (mkG INV in0 0 (next s))).
Qed.

(* the constant wires: op = AND gives ZeroWire, op = XOR gives OneWire *)
Lemma const_gates_ok s op :
  wfst s ->
  match inv0 s with
  | Some i =>
      let gs' := mkG op in0 i (next s) :: gates s in
      wfg (N.succ (next s)) gs' /\ defd_in gs' (next s) /\
      (forall w, defd_in (gates s) w -> defd_in gs' w) /\
      (forall w, pend_g (next s) (gates s) w -> pend_g (N.succ (next s)) gs' w)
  | None =>
      let gs' := mkG op in0 (N.succ (next s)) (next s) :: mkG INV in0 0 (N.succ (next s)) :: gates s in
      wfg (N.succ (N.succ (next s))) gs' /\ defd_in gs' (next s) /\ defd_in gs' (N.succ (next s)) /\
      (forall w, defd_in (gates s) w -> defd_in gs' w) /\
      (forall w, pend_g (next s) (gates s) w -> pend_g (N.succ (N.succ (next s))) gs' w)
  end.
Proof.
  intros (W & Z & O & I). destruct (inv0 s) as [i|] eqn:EI; cbv zeta.
  - assert (W1 : wfg (N.succ (next s)) (gates s)) by (eapply wfg_next; eauto; lia).
    assert (P1 : pend_g (N.succ (next s)) (gates s) (next s)) by (apply (pend_g_fresh (next s) (gates s) (next s) W); lia).
    pose proof (in0_defd _ _ W1) as D0. pose proof (I i eq_refl) as Di.
    split; [apply wfg_emit; auto|]. split; [apply (defd_in_out (mkG op in0 i (next s)))|].
    split; [intros w; apply defd_in_cons|].
    intros w P. pose proof P as (Q1 & Q2 & Q3).
    apply pend_emit; auto; try lia; eapply pend_g_next; eauto; lia.
  - set (n := next s). set (i := N.succ n).
    assert (W1 : wfg (N.succ i) (gates s)) by (eapply wfg_next; eauto; lia).
    assert (Pi : pend_g (N.succ i) (gates s) i) by (apply (pend_g_fresh (next s) (gates s) i W); lia).
    assert (Pn : pend_g (N.succ i) (gates s) n) by (apply (pend_g_fresh (next s) (gates s) n W); lia).
    pose proof (in0_defd _ _ W1) as D0.
    assert (W2 : wfg (N.succ i) (mkG INV in0 0 i :: gates s)) by (apply wfg_emit; auto).
    assert (Pn2 : pend_g (N.succ i) (mkG INV in0 0 i :: gates s) n) by (apply pend_emit; auto; lia).
    split; [apply wfg_emit; auto; [apply defd_in_cons; auto | apply (defd_in_out (mkG INV in0 0 i))]|].
    split; [apply (defd_in_out (mkG op in0 i n))|].
    split; [apply defd_in_cons, (defd_in_out (mkG INV in0 0 i))|].
    split; [intros w D; apply defd_in_cons, defd_in_cons, D|].
    intros w P. pose proof P as (Q1 & Q2 & Q3).
    assert (Hw0 : w <> 0) by (destruct W as (_ & _ & _ & I1 & _); lia).
    apply pend_emit'; try (unfold in0; subst n i; lia).
    apply pend_emit'; try (unfold in0; subst n i; lia).
    eapply pend_g_next; eauto. subst n i. lia.
Qed.

Lemma zero_s s : wfst s -> oks zero_wire s (fun w s' => step s s' [] /\ defd s' w).
Proof.
  intros WS. pose proof WS as (W & Z & O & I). unfold zero_wire, oks. cbv beta.
  destruct (zero s) as [z|] eqn:EZ.
  - exists z, s. split; [reflexivity|]. split; [exact WS|]. split; [apply step_refl|]. apply Z; auto.
  - pose proof (const_gates_ok s AND WS) as K.
    unfold inv_i0_wire, bind, fresh, set_zero, set_inv0, emit, ret; cbn.
    destruct (inv0 s) as [i|] eqn:EI; cbn; cbv zeta in K.
    + destruct K as (K1 & K2 & K3 & K4). eexists _, _. split; [reflexivity|].
      split; [|split].
      * split; [exact K1|]. unfold defd. cbn.
        split; [intros w Hw; inversion Hw; subst; exact K2|].
        split; [intros w Hw; apply K3, O, Hw | intros w Hw; apply K3, I; congruence].
      * unfold step, defd, pend. cbn. split; [split; [reflexivity|lia]|]. split; [exact K3|]. intros w P _. apply K4, P.
      * exact K2.
    + destruct K as (K1 & K2 & K2' & K3 & K4). eexists _, _. split; [reflexivity|].
      split; [|split].
      * split; [exact K1|]. unfold defd. cbn.
        split; [intros w Hw; inversion Hw; subst; exact K2|].
        split; [intros w Hw; apply K3, O, Hw | intros w Hw; inversion Hw; subst; exact K2'].
      * unfold step, defd, pend. cbn. split; [split; [reflexivity|lia]|]. split; [exact K3|]. intros w P _. apply K4, P.
      * exact K2.
Qed.

Lemma one_s s : wfst s -> oks one_wire s (fun w s' => step s s' [] /\ defd s' w).
Proof.
  intros WS. pose proof WS as (W & Z & O & I). unfold one_wire, oks. cbv beta.
  destruct (one s) as [z|] eqn:EZ.
  - exists z, s. split; [reflexivity|]. split; [exact WS|]. split; [apply step_refl|]. apply O; auto.
  - pose proof (const_gates_ok s XOR WS) as K.
    unfold inv_i0_wire, bind, fresh, set_one, set_inv0, emit, ret; cbn.
    destruct (inv0 s) as [i|] eqn:EI; cbn; cbv zeta in K.
    + destruct K as (K1 & K2 & K3 & K4). eexists _, _. split; [reflexivity|].
      split; [|split].
      * split; [exact K1|]. unfold defd. cbn.
        split; [intros w Hw; apply K3, Z, Hw|].
        split; [intros w Hw; inversion Hw; subst; exact K2 | intros w Hw; apply K3, I; congruence].
      * unfold step, defd, pend. cbn. split; [split; [reflexivity|lia]|]. split; [exact K3|]. intros w P _. apply K4, P.
      * exact K2.
    + destruct K as (K1 & K2 & K2' & K3 & K4). eexists _, _. split; [reflexivity|].
      split; [|split].
      * split; [exact K1|]. unfold defd. cbn.
        split; [intros w Hw; apply K3, Z, Hw|].
        split; [intros w Hw; inversion Hw; subst; exact K2 | intros w Hw; inversion Hw; subst; exact K2'].
      * unfold step, defd, pend. cbn. split; [split; [reflexivity|lia]|]. split; [exact K3|]. intros w P _. apply K4, P.
      * exact K2.
Qed.

Ltac sbind L := eapply oks_bind; [ eapply L; eauto | ].

Lemma incl_nil_any {A} (l : list A) : incl [] l.
Proof. intros x []. Qed.

Lemma cc_inv_s s i o : wfst s -> defd s i -> pend s o ->
  oks (cc_inv i o) s (fun _ s' => step s s' [o] /\ defd s' o).
Proof.
  intros W Di Po. unfold cc_inv. sbind one_s. intros w s1 W1 (S1 & D1). cbv beta.
  eapply oks_conseq; [apply emit_s; eauto using step_defd|].
  - eapply step_pend; eauto.
  - cbv beta. intros _ s2 W2 (S2 & D2 & _). split; auto.
    eapply step_weaken; [eapply step_trans; eauto|]. cbn. apply incl_refl.
Qed.

Lemma cc_id_s s i o : wfst s -> defd s i -> pend s o ->
  oks (cc_id i o) s (fun _ s' => step s s' [o] /\ defd s' o).
Proof.
  intros W Di Po. unfold cc_id. sbind zero_s. intros w s1 W1 (S1 & D1). cbv beta.
  eapply oks_conseq; [apply emit_s; eauto using step_defd|].
  - eapply step_pend; eauto.
  - cbv beta. intros _ s2 W2 (S2 & D2 & _). split; auto.
    eapply step_weaken; [eapply step_trans; eauto|]. cbn. apply incl_refl.
Qed.

Lemma cc_or_s s a b o : wfst s -> defd s a -> defd s b -> pend s o ->
  oks (cc_or a b o) s (fun _ s' => step s s' [o] /\ defd s' o).
Proof.
  intros W Da Db Po. unfold cc_or.
  sbind fresh_s. intros x s1 W1 (Ex & Px & S1 & N1). cbv beta.
  assert (Nxo : x <> o) by (pose proof (pend_next _ _ Po); lia).
  sbind emit_s; eauto using step_defd. intros _ s2 W2 (S2 & Dx & N2). cbv beta.
  assert (Po2 : pend s2 o).
  { eapply step_pend; [exact S2| |cbn; intros [E|[]]; congruence].
    eapply step_pend; [exact S1|exact Po|intros []]. }
  sbind fresh_s. intros y s3 W3 (Ey & Py & S3 & N3). cbv beta.
  assert (Nyo : y <> o) by (pose proof (pend_next _ _ Po2); lia).
  assert (Po3 : pend s3 o) by (eapply step_pend; [exact S3|exact Po2|intros []]).
  sbind emit_s; eauto using step_defd. intros _ s4 W4 (S4 & Dy & N4). cbv beta.
  eapply oks_conseq; [apply emit_s; eauto using step_defd|].
  - eapply step_pend; [exact S4|exact Po3|cbn; intros [E|[]]; congruence].
  - cbv beta. intros _ s5 W5 (S5 & Do & _). split; auto.
    split; [|split].
    + pose proof (step_next _ _ _ S1). pose proof (step_next _ _ _ S2). pose proof (step_next _ _ _ S3).
      pose proof (step_next _ _ _ S4). pose proof (step_next _ _ _ S5).
      pose proof (step_gmw _ _ _ S1). pose proof (step_gmw _ _ _ S2). pose proof (step_gmw _ _ _ S3).
      pose proof (step_gmw _ _ _ S4). pose proof (step_gmw _ _ _ S5).
      split; [congruence|lia].
    + eauto 10 using step_defd.
    + intros w P N. assert (Nw : w <> o) by (intro; apply N; cbn; auto).
      pose proof (pend_next _ _ P) as Lw.
      eapply step_pend; [exact S5| |cbn; intros [E|[]]; congruence].
      eapply step_pend; [exact S4| |cbn; intros [E|[]]; lia].
      eapply step_pend; [exact S3| |intros []].
      eapply step_pend; [exact S2| |cbn; intros [E|[]]; lia].
      eapply step_pend; [exact S1|exact P|intros []].
Qed.

Lemma fresh_n_s n : forall s, wfst s ->
  oks (fresh_n n) s (fun ws s' => step s s' [] /\ NoDup ws /\ length ws = n /\
                                  forall w, In w ws -> pend s' w /\ next s <= w).
Proof.
  induction n; intros s W; cbn [fresh_n].
  - apply oks_ret; auto. split; [apply step_refl|]. split; [constructor|]. split; auto. intros w [].
  - sbind fresh_s. intros x s1 W1 (Ex & Px & S1 & N1). cbv beta.
    eapply oks_bind; [apply IHn; auto|]. intros ws s2 W2 (S2 & ND & Ln & Pw). cbv beta.
    apply oks_ret; auto. split; [|split; [|split]].
    + eapply step_weaken; [eapply step_trans; eauto|]. apply incl_refl.
    + constructor; auto. intros Hin. destruct (Pw _ Hin) as (_ & H). lia.
    + cbn. congruence.
    + intros w [E|Hin].
      * subst w. split; [|lia]. eapply step_pend; eauto.
      * destruct (Pw _ Hin) as (P & H). split; auto. lia.
Qed.

Lemma Forall_defd_step s s' wr l : step s s' wr -> Forall (defd s) l -> Forall (defd s') l.
Proof. intros S F. eapply Forall_impl; [|exact F]. intros w. apply (step_defd _ _ _ _ S). Qed.

Lemma pad_s s x n : wfst s -> Forall (defd s) x ->
  oks (pad x n) s (fun ws s' => step s s' [] /\ Forall (defd s') ws /\ length ws = Nat.max n (length x)).
Proof.
  intros W F. unfold pad. destruct (Nat.leb n (length x)) eqn:E.
  - apply Nat.leb_le in E. apply oks_ret; auto. split; [apply step_refl|]. split; auto. lia.
  - apply Nat.leb_gt in E. sbind zero_s. intros z s1 W1 (S1 & Dz). cbv beta.
    apply oks_ret; auto. split; auto. split.
    + apply Forall_app. split; [eapply Forall_defd_step; eauto|]. apply Forall_forall.
      intros w Hin. apply repeat_spec in Hin. subst. auto.
    + rewrite app_length, repeat_length. lia.
Qed.

Lemma zero_pad_s s x y : wfst s -> Forall (defd s) x -> Forall (defd s) y ->
  oks (zero_pad x y) s (fun p s' => step s s' [] /\ Forall (defd s') (fst p) /\ Forall (defd s') (snd p) /\
                                    length (fst p) = Nat.max (length x) (length y) /\
                                    length (snd p) = Nat.max (length x) (length y)).
Proof.
  intros W Fx Fy. unfold zero_pad. destruct (Nat.eqb (length x) (length y)) eqn:E.
  - apply Nat.eqb_eq in E. apply oks_ret; auto. cbn. split; [apply step_refl|]. repeat split; auto; lia.
  - sbind zero_s. intros z s1 W1 (S1 & Dz). cbv beta. apply oks_ret; auto. cbn.
    split; auto.
    assert (R : forall k, Forall (defd s1) (repeat z k)).
    { intros k. apply Forall_forall. intros w Hin. apply repeat_spec in Hin. subst. auto. }
    split; [apply Forall_app; split; [eapply Forall_defd_step; eauto|apply R]|].
    split; [apply Forall_app; split; [eapply Forall_defd_step; eauto|apply R]|].
    rewrite !app_length, !repeat_length. lia.
Qed.

(* z' = first k wires of z, then zero wires: the replaced positions of z stay pending *)
Lemma zero_tail_s s z k : wfst s ->
  oks (zero_tail z k) s (fun z' s' => step s s' [] /\ length z' = length z /\
                                      firstn k z' = firstn k z /\
                                      Forall (defd s') (skipn k z')).
Proof.
  intros W. unfold zero_tail. destruct (Nat.ltb k (length z)) eqn:E.
  - apply Nat.ltb_lt in E. sbind zero_s. intros zw s1 W1 (S1 & Dz). cbv beta.
    apply oks_ret; auto. split; auto.
    assert (Lf : length (firstn k z) = k) by (rewrite firstn_length; lia).
    split; [rewrite app_length, repeat_length; lia|]. split.
    + rewrite firstn_app, Lf, Nat.sub_diag. cbn. rewrite app_nil_r.
      rewrite firstn_all2 by lia. reflexivity.
    + rewrite skipn_app, Lf, Nat.sub_diag. rewrite skipn_all2 by lia. cbn.
      apply Forall_forall. intros w Hin. apply repeat_spec in Hin. subst. auto.
  - apply Nat.ltb_ge in E. apply oks_ret; auto. split; [apply step_refl|].
    split; auto. split; auto. rewrite skipn_all2 by lia. constructor.
Qed.

Lemma wfst_st0 n t : 0 < ninp -> ninp <= n -> wfst (st0 n t).
Proof.
  intros H1 H2. split; [|cbn; repeat split; intros; discriminate].
  cbn. repeat split; auto. intros w M. discriminate.
Qed.

Lemma pend_st0 n t w : ninp <= w -> w < n -> pend (st0 n t) w.
Proof. intros. repeat split; auto. Qed.

End Struct.

Arguments oks {ninp A} m s Q.

Definition optl (c : option wire) : list wire := match c with Some w => [w] | None => [] end.

(* bind step: [sbind L] applies structural lemma L to the first computation *)
Ltac sbind L := eapply oks_bind; [ eapply L; eauto | ].
(* solve [~ In w l] for explicit small lists from disequalities / bounds in the context *)
Ltac snotin := cbn; intuition (subst; try lia; try congruence; eauto).
(* prove [pend sK w] from [pend s0 w] by walking back along the step hypotheses *)
Ltac sp :=
  match goal with
  | H : pend ?n ?s ?w |- pend ?n ?s ?w => exact H
  | S : step ?n ?s0 ?s ?wr |- pend ?n ?s ?w =>
      eapply (step_pend n s0 s wr w S); [sp | snotin]
  end.
(* first component of a [step] goal: target flag unchanged, allocator monotone *)
Ltac sfacts :=
  repeat match goal with
  | S : step _ ?a ?b _ |- _ =>
      lazymatch goal with
      | H : gmw b = gmw a |- _ => fail
      | _ => pose proof (step_gmw _ _ _ _ S); pose proof (step_next _ _ _ _ S)
      end
  end.
Ltac sgn := sfacts; split; [cbn in *; congruence | cbn in *; lia].
(* prove [defd sK w] from an earlier [defd s0 w] *)
Ltac sd := eauto 12 using step_defd.

(* ---------- from builder theorems to the evaluated circuit ---------- *)
(* If a builder satisfies the semantic specification P (okm) and the structural
   one (oks) from the initial compiler state, then P holds of the valuation
   obtained by evaluating the emitted gates one by one, the emitted list is
   single-assignment and defined-before-use, and input wires keep their values. *)
Theorem run_st0 {A} (ninp n : N) (t : bool) (m : M A) (P : A -> env -> Prop) (Q : A -> st -> Prop) :
  okm t m P -> @oks ninp A m (st0 n t) Q ->
  forall e0, exists a s', m (st0 n t) = (a, s') /\
    wfc_b ninp (gates s') = true /\ dbu ninp (gates s') /\ Q a s' /\
    P a (eval_rev (gates s') e0) /\
    (forall w, w < ninp -> eval_rev (gates s') e0 w = e0 w).
Proof.
  intros Hm (a & s' & E & W & HQ) e0.
  destruct (Hm (st0 n t) (wfs_st0 n t) eq_refl) as (a' & s'' & E' & _ & _ & HP).
  rewrite E in E'. inversion E'; subst a' s''.
  destruct W as ((C & D & _) & _).
  exists a, s'. repeat split; auto.
  - apply HP. eapply eval_rev_sat; eauto.
  - intros w Hw. eapply eval_rev_inputs; eauto.
Qed.

(* ---------- wire ranges of the harness layout ---------- *)
Definition wrange (from : N) (n : nat) : list wire := map (fun i => from + N.of_nat i) (seq 0 n).

Lemma wrange_length from n : length (wrange from n) = n.
Proof. unfold wrange. rewrite map_length, seq_length. reflexivity. Qed.

Lemma wrange_In from n w : In w (wrange from n) <-> from <= w /\ w < from + N.of_nat n.
Proof.
  unfold wrange. rewrite in_map_iff. split.
  - intros (i & E & Hi). apply in_seq in Hi. lia.
  - intros (H1 & H2). exists (N.to_nat (w - from)). split; [lia|]. apply in_seq. lia.
Qed.

Lemma wrange_NoDup from n : NoDup (wrange from n).
Proof.
  unfold wrange. apply Injective_map_NoDup; [|apply seq_NoDup].
  intros a b H. lia.
Qed.

(* operand vectors made of input wires keep their value under evaluation *)
Lemma valN_inputs (e e0 : env) ninp ws :
  (forall w, w < ninp -> e w = e0 w) -> (forall w, In w ws -> w < ninp) -> valN e ws = valN e0 ws.
Proof.
  intros H I. unfold valN. f_equal. apply map_ext_in. intros w Hin. apply H, I, Hin.
Qed.

Lemma Forall_defd_inputs ninp s ws : (forall w, In w ws -> w < ninp) -> Forall (defd ninp s) ws.
Proof. intros H. apply Forall_forall. intros w Hin. left. auto. Qed.

Lemma Forall_pend_st0 ninp n t ws :
  (forall w, In w ws -> ninp <= w /\ w < n) -> Forall (pend ninp (st0 n t)) ws.
Proof. intros H. apply Forall_forall. intros w Hin. destruct (H w Hin). apply pend_st0; auto. Qed.
