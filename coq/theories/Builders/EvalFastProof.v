(* EvalFastProof.v — the map-based evaluator computes exactly Emit.eval_rev. *)
From Coq Require Import NArith List Bool FMapPositive Lia.
From Mpc Require Import Builders.Emit Builders.EvalFast.
Import ListNotations.

Lemma wkey_inj a b : wkey a = wkey b -> a = b.
Proof.
  unfold wkey. intros H.
  assert (K : N.pos (N.succ_pos a) = N.pos (N.succ_pos b)) by congruence.
  rewrite !N.succ_pos_spec in K. lia.
Qed.

Theorem evalm_correct gs e0 w : evalm gs e0 w = eval_rev gs e0 w.
Proof.
  unfold evalm. revert w. induction gs as [|g r IH]; intros w; cbn [evalm_rev eval_rev].
  - unfold mget. rewrite PositiveMap.gempty. reflexivity.
  - unfold upd, gate_val. destruct (N.eqb w (g_o g)) eqn:E.
    + apply N.eqb_eq in E. subst w. unfold mget at 1. rewrite PositiveMap.gss.
      rewrite !IH. reflexivity.
    + apply N.eqb_neq in E. unfold mget at 1. rewrite PositiveMap.gso.
      * apply IH.
      * intros K. apply wkey_inj in K. congruence.
Qed.

Corollary evalm_valN gs e0 ws : valN (evalm gs e0) ws = valN (eval_rev gs e0) ws.
Proof. unfold valN. f_equal. apply map_ext. intros w. apply evalm_correct. Qed.
