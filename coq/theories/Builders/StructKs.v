(* StructKs.v — structural lemmas (single assignment, defined before use) for the
   Kogge-Stone adder and subtractor (NewKoggeStoneAdder / NewKoggeStoneSubtractor,
   the GMW-target NewAdder / NewSubtractor), for every width and target, and the
   theorems about the EVALUATED circuits in the harness wire layout. *)
From Coq Require Import NArith List Bool Arith Lia.
From Mpc Require Import Builders.Emit Builders.EmitProof Builders.StructProof
  Builders.Adder Builders.Sub Builders.KsProof.
Import ListNotations.
Open Scope N_scope.

Lemma Forall_firstn_ {A} (P : A -> Prop) k l : Forall P l -> Forall P (firstn k l).
Proof. intros H. rewrite <- (firstn_skipn k l) in H. apply Forall_app in H. tauto. Qed.
Lemma Forall_skipn_ {A} (P : A -> Prop) k l : Forall P l -> Forall P (skipn k l).
Proof. intros H. rewrite <- (firstn_skipn k l) in H. apply Forall_app in H. tauto. Qed.

(* transport [Forall (defd s0) l] to a later state *)
Ltac sF :=
  match goal with
  | H : Forall (StructProof.defd ?n ?s0) ?l |- Forall (StructProof.defd ?n ?s) ?l =>
      first [ exact H | eapply Forall_impl; [|exact H]; intros ? ?; solve [sd] ]
  end.

(* a [step] whose written wires are all fresh (>= next s) or allowed *)
Lemma step_narrow ninp s s' wr wr' :
  step ninp s s' wr -> (forall w, In w wr -> next s <= w \/ In w wr') -> step ninp s s' wr'.
Proof.
  intros (A & B & C) H. split; [auto|]. split; [auto|]. intros w P N. apply C; auto.
  intros I. destruct (H w I) as [L|L]; [|auto]. pose proof (pend_next _ _ _ P). unfold wire in *. lia.
Qed.

Lemma Forall_pend_step ninp s s' wr l :
  step ninp s s' wr -> (forall w, In w l -> ~ In w wr) -> Forall (pend ninp s) l -> Forall (pend ninp s') l.
Proof.
  intros S H F. apply Forall_forall. intros w Hin. rewrite Forall_forall in F.
  eapply step_pend; eauto.
Qed.

Lemma Forall_pend_step0 ninp s s' l :
  step ninp s s' [] -> Forall (pend ninp s) l -> Forall (pend ninp s') l.
Proof. intros S. apply (Forall_pend_step ninp s s' [] l S). intros w _ []. Qed.

Section K.
Variable ninp : N.
Notation defd := (defd ninp). Notation pend := (pend ninp). Notation wfst := (wfst ninp).
Notation step := (step ninp). Notation oks := (@oks ninp _).

(* ---------- Kogge-Stone adder ---------- *)
Lemma ks_pre_s : forall x y s, wfst s -> Forall (defd s) x -> Forall (defd s) y ->
  oks (ks_pre x y) s
      (fun pg s' => step s s' [] /\ Forall (defd s') (fst pg) /\ Forall (defd s') (snd pg) /\
                    length (fst pg) = Nat.min (length x) (length y) /\
                    length (snd pg) = Nat.min (length x) (length y)).
Proof.
  induction x as [|xi x IH]; intros y s W Fx Fy.
  - cbn. apply oks_ret; auto. cbn. split; [apply step_refl|]. repeat split; constructor.
  - destruct y as [|yi y].
    + cbn. apply oks_ret; auto. cbn. split; [apply step_refl|]. repeat split; constructor.
    + cbn [ks_pre]. inversion Fx; subst. inversion Fy; subst.
      sbind fresh_s. intros p s1 W1 (E1 & P1 & S1 & N1). cbv beta.
      sbind fresh_s. intros g s2 W2 (E2 & P2 & S2 & N2). cbv beta.
      eapply oks_bind; [apply emit_s; [auto|sd|sd|sp]|]. intros _ s3 W3 (S3 & D3 & N3). cbv beta.
      eapply oks_bind; [apply emit_s; [auto|sd|sd|sp]|]. intros _ s4 W4 (S4 & D4 & N4). cbv beta.
      eapply oks_bind; [apply IH; [auto|sF|sF]|].
      intros [ps gs] s5 W5 (S5 & Fp & Fg & Lp & Lg). cbn [fst snd] in *. cbv beta.
      apply oks_ret; auto. cbn [fst snd length Nat.min]. split; [|split; [|split]].
      * split; [sgn|]. split; [intros w D; sd|].
        intros w P N. pose proof (pend_next _ _ _ P) as Lw. sp.
      * constructor; [sd|auto].
      * constructor; [sd|auto].
      * lia.
Qed.

Definition min4 (a b c d : nat) : nat := Nat.min (Nat.min a b) (Nat.min c d).

Lemma ks_cells_s : forall pi gi pj gj s, wfst s ->
  Forall (defd s) pi -> Forall (defd s) gi -> Forall (defd s) pj -> Forall (defd s) gj ->
  oks (ks_cells pi gi pj gj) s
      (fun pg s' => step s s' [] /\ Forall (defd s') (fst pg) /\ Forall (defd s') (snd pg) /\
                    length (fst pg) = min4 (length pi) (length gi) (length pj) (length gj) /\
                    length (snd pg) = min4 (length pi) (length gi) (length pj) (length gj)).
Proof.
  assert (Z : forall pi gi pj gj s, wfst s ->
            min4 (length pi) (length gi) (length pj) (length gj) = 0%nat ->
            ks_cells pi gi pj gj = ret ([], []) ->
            oks (ks_cells pi gi pj gj) s
              (fun pg s' => step s s' [] /\ Forall (defd s') (fst pg) /\ Forall (defd s') (snd pg) /\
                    length (fst pg) = min4 (length pi) (length gi) (length pj) (length gj) /\
                    length (snd pg) = min4 (length pi) (length gi) (length pj) (length gj))).
  { intros pi gi pj gj s W E1 E2. rewrite E2, E1. apply oks_ret; auto. cbn.
    split; [apply step_refl|]. repeat split; constructor. }
  induction pi as [|p pi IH]; intros gi pj gj s W Fpi Fgi Fpj Fgj.
  - apply Z; auto.
  - destruct gi as [|g gi]; [apply Z; auto|].
    destruct pj as [|pl pj]; [apply Z; auto|].
    destruct gj as [|gl gj]; [apply Z; auto; unfold min4; cbn; lia|].
    cbn [ks_cells]. inversion Fpi; subst. inversion Fgi; subst. inversion Fpj; subst. inversion Fgj; subst.
    sbind fresh_s. intros nG s1 W1 (E1 & P1 & S1 & N1). cbv beta.
    sbind fresh_s. intros nP s2 W2 (E2 & P2 & S2 & N2). cbv beta.
    sbind fresh_s. intros aG s3 W3 (E3 & P3 & S3 & N3). cbv beta.
    eapply oks_bind; [apply emit_s; [auto|sd|sd|sp]|]. intros _ s4 W4 (S4 & D4 & N4). cbv beta.
    eapply oks_bind; [apply emit_s; [auto|sd|sd|sp]|]. intros _ s5 W5 (S5 & D5 & N5). cbv beta.
    eapply oks_bind; [apply emit_s; [auto|sd|sd|sp]|]. intros _ s6 W6 (S6 & D6 & N6). cbv beta.
    eapply oks_bind; [apply IH; [auto|sF|sF|sF|sF]|].
    intros [ps gs] s7 W7 (S7 & Fp & Fg & Lp & Lg). cbn [fst snd] in *. cbv beta.
    apply oks_ret; auto. unfold min4 in *. cbn [fst snd length Nat.min]. split; [|split; [|split]].
    + split; [sgn|]. split; [intros w D; sd|].
      intros w P N. pose proof (pend_next _ _ _ P) as Lw. sp.
    + constructor; [sd|auto].
    + constructor; [sd|auto].
    + lia.
Qed.

Lemma ks_stage_s shift p g s : wfst s -> Forall (defd s) p -> Forall (defd s) g ->
  length p = length g ->
  oks (ks_stage shift p g) s
      (fun pg s' => step s s' [] /\ Forall (defd s') (fst pg) /\ Forall (defd s') (snd pg) /\
                    length (fst pg) = length p /\ length (snd pg) = length p).
Proof.
  intros W Fp Fg L. unfold ks_stage.
  eapply oks_bind; [apply ks_cells_s; auto using Forall_skipn_|].
  intros [ps gs] s1 W1 (S1 & Fps & Fgs & Lp & Lg). cbn [fst snd] in *. cbv beta.
  apply oks_ret; auto. cbn [fst snd]. split; [auto|].
  unfold min4 in *. rewrite !skipn_length in *.
  split; [apply Forall_app; split; [apply Forall_firstn_; sF|auto]|].
  split; [apply Forall_app; split; [apply Forall_firstn_; sF|auto]|].
  rewrite !app_length, !firstn_length. lia.
Qed.

Lemma ks_stages_s : forall k shift p g s, wfst s -> Forall (defd s) p -> Forall (defd s) g ->
  length p = length g ->
  oks (ks_stages k shift p g) s
      (fun pg s' => step s s' [] /\ Forall (defd s') (fst pg) /\ Forall (defd s') (snd pg) /\
                    length (fst pg) = length p /\ length (snd pg) = length p).
Proof.
  induction k as [|k IH]; intros shift p g s W Fp Fg L.
  - cbn. apply oks_ret; auto. cbn. split; [apply step_refl|]. auto.
  - cbn [ks_stages].
    eapply oks_bind; [apply ks_stage_s; auto|].
    intros [p1 g1] s1 W1 (S1 & Fp1 & Fg1 & Lp1 & Lg1). cbn [fst snd] in *. cbv beta.
    eapply oks_conseq; [apply IH; auto; lia|].
    cbv beta. intros [p2 g2] s2 W2 (S2 & Fp2 & Fg2 & Lp2 & Lg2). cbn [fst snd] in *.
    split; [|repeat split; auto; lia].
    eapply step_weaken; [eapply step_trans; eauto|]. apply incl_refl.
Qed.

Lemma ks_post_s : forall x y g z s, wfst s ->
  Forall (defd s) x -> Forall (defd s) y -> Forall (defd s) g -> Forall (pend s) z -> NoDup z ->
  oks (ks_post x y g z) s
      (fun _ s' => step s s' z /\
                   Forall (defd s') (firstn (min4 (length x) (length y) (length g) (length z)) z)).
Proof.
  assert (Z : forall x y g z s, wfst s ->
            min4 (length x) (length y) (length g) (length z) = 0%nat ->
            ks_post x y g z = ret tt ->
            oks (ks_post x y g z) s
              (fun _ s' => step s s' z /\
                   Forall (defd s') (firstn (min4 (length x) (length y) (length g) (length z)) z))).
  { intros x y g z s W E1 E2. rewrite E2, E1. apply oks_ret; auto. cbn.
    split; [|constructor]. eapply step_weaken; [apply step_refl|apply incl_nil_any]. }
  induction x as [|xi x IH]; intros y g z s W Fx Fy Fg Pz ND.
  - apply Z; auto.
  - destruct y as [|yi y]; [apply Z; auto|].
    destruct g as [|gi g]; [apply Z; auto|].
    destruct z as [|zi z]; [apply Z; auto; unfold min4; cbn; lia|].
    cbn [ks_post]. inversion Fx; subst. inversion Fy; subst. inversion Fg; subst.
    inversion Pz; subst. inversion ND; subst.
    match goal with H : pend s zi |- _ => pose proof (pend_next _ _ _ H) as Lo end.
    sbind fresh_s. intros t s1 W1 (E1 & P1 & S1 & N1). cbv beta.
    eapply oks_bind; [apply emit_s; [auto|sd|sd|sp]|]. intros _ s2 W2 (S2 & D2 & N2). cbv beta.
    eapply oks_bind; [apply emit_s; [auto|sd|sd|sp]|]. intros _ s3 W3 (S3 & D3 & N3). cbv beta.
    assert (Pz3 : Forall (pend s3) z).
    { apply Forall_forall. intros w Hin.
      match goal with H : Forall (pend s) z |- _ => rewrite Forall_forall in H; specialize (H _ Hin);
        pose proof (pend_next _ _ _ H) as Lw end.
      assert (w <> zi) by (intro; subst; auto). sp. }
    eapply oks_conseq; [apply IH; [auto|sF|sF|sF|auto|auto]|].
    cbv beta. intros _ s4 W4 (S4 & F4). split.
    + split; [sgn|]. split; [intros w D; sd|].
      intros w P N. pose proof (pend_next _ _ _ P) as Lw.
      assert (w <> zi /\ ~ In w z) as (? & ?) by (split; intro; apply N; cbn; auto).
      sp.
    + unfold min4 in *. cbn [length Nat.min firstn]. constructor; [sd|exact F4].
Qed.

Lemma ks_core_s n x y z s :
  length x = n -> length y = n -> (1 <= n)%nat -> (n <= length z)%nat ->
  wfst s -> Forall (defd s) x -> Forall (defd s) y -> Forall (pend s) z -> NoDup z ->
  oks (ks_core n x y z) s
      (fun z' s' => step s s' z /\ Forall (defd s') z' /\ length z' = length z).
Proof.
  intros Lx Ly Hn Hz W Fx Fy Pz ND. unfold ks_core.
  rewrite !(firstn_all2 (n := n)) by lia.
  eapply oks_bind; [apply ks_pre_s; auto|].
  intros [p g] s1 W1 (S1 & Fp & Fg & Lp & Lg). cbn [fst snd] in *. cbv beta.
  eapply oks_bind; [apply ks_stages_s; auto; lia|].
  intros [p2 g2] s2 W2 (S2 & Fp2 & Fg2 & Lp2 & Lg2). cbn [fst snd] in *. cbv beta.
  destruct x as [|x0 xs]; [cbn in *; lia|].
  destruct y as [|y0 ys]; [cbn in *; lia|].
  destruct z as [|z0 zs]; [cbn in *; lia|].
  inversion Fx; subst. inversion Fy; subst. inversion Pz; subst. inversion ND; subst.
  cbn [length] in *.
  assert (Pz2 : Forall (pend s2) (z0 :: zs)).
  { eapply Forall_pend_step0; [exact S2|]. eapply Forall_pend_step0; [exact S1|]. exact Pz. }
  inversion Pz2; subst.
  eapply (oks_bind _ _ _ _ (fun _ s4 => step s2 s4 (z0 :: zs) /\ defd s4 z0 /\ Forall (defd s4) (firstn (length xs) zs))).
  { eapply oks_bind; [apply emit_s; [auto|sd|sd|auto]|]. intros u s3 W3 (S3 & D3 & N3). cbv beta.
    eapply oks_conseq;
      [apply ks_post_s; [auto|apply Forall_firstn_; sF|sF|sF| |auto]|].
    - eapply Forall_pend_step; [exact S3| |eassumption].
      intros w Hin HI. cbn in HI. destruct HI as [E|HI]; [subst w; auto|exact HI].
    - cbv beta. intros u' s4 W4 (S4 & F4). split; [|split; [sd|]].
      + eapply step_weaken; [eapply step_trans; eauto|]. cbn. apply incl_refl.
      + rewrite firstn_length in F4. unfold min4 in F4.
        replace (Nat.min (Nat.min (Nat.min (S (length xs) - 1) (length xs)) (length ys))
                     (Nat.min (length g2) (length zs))) with (length xs) in F4 by lia.
        exact F4. }
  intros u s4 W4 (S4 & D4 & F4). cbv beta.
  eapply oks_conseq; [apply zero_tail_s; auto|].
  cbv beta. intros z' s5 W5 (S5 & Lz' & Fz' & Tz').
  split; [|split; [|exact Lz']].
  - eapply step_weaken; [eapply step_trans; [eapply step_trans; [eapply step_trans|]|]; eauto|].
    cbn. rewrite app_nil_r. apply incl_refl.
  - rewrite <- (firstn_skipn (S (length xs)) z'). apply Forall_app. split; [|exact Tz'].
    rewrite Fz'. cbn [firstn]. constructor; [sd|]. sF.
Qed.

(* NewKoggeStoneAdder: writes z[0..n) only; the tail of the returned vector is zero wires *)
Lemma ks_adder_s s x y z :
  wfst s -> Forall (defd s) x -> Forall (defd s) y -> Forall (pend s) z -> NoDup z ->
  (1 <= length z)%nat -> (1 <= Nat.max (length x) (length y))%nat ->
  oks (ks_adder x y z) s
      (fun z' s' => step s s' z /\ Forall (defd s') z' /\ length z' = length z).
Proof.
  intros W Fx Fy Pz ND Hz Hm. rewrite ks_adder_unfold.
  set (m := Nat.max (length x) (length y)) in *. cbv zeta.
  set (n1 := if Nat.ltb m (length z) then S m else m).
  assert (Hn1 : (m < length z /\ n1 = S m)%nat \/ (length z <= m /\ n1 = m)%nat).
  { unfold n1. destruct (Nat.ltb_spec m (length z)); lia. }
  sbind pad_s. intros x1 s1 W1 (S1 & Fx1 & Lx1). cbv beta.
  eapply oks_bind; [apply pad_s; [auto|sF]|]. intros y1 s2 W2 (S2 & Fy1 & Ly1). cbv beta.
  assert (Pz2 : Forall (pend s2) z).
  { eapply Forall_pend_step0; [exact S2|]. eapply Forall_pend_step0; [exact S1|]. exact Pz. }
  assert (K : forall n x2 y2, length x2 = n -> length y2 = n -> (1 <= n)%nat -> (n <= length z)%nat ->
              Forall (defd s2) x2 -> Forall (defd s2) y2 ->
              oks (ks_core n x2 y2 z) s2
                (fun z' s' => step s s' z /\ Forall (defd s') z' /\ length z' = length z)).
  { intros n x2 y2 L1 L2 H1 H2 F1 F2.
    eapply oks_conseq; [apply ks_core_s; eauto|].
    cbv beta. intros z' s3 W3 (S3 & F3 & L3). split; [|auto].
    eapply step_weaken; [eapply step_trans; [eapply step_trans|]; eauto|]. cbn. apply incl_refl. }
  destruct (Nat.ltb_spec (length z) (length x1)) as [ET|ET].
  - apply K; rewrite ?firstn_length; try lia; apply Forall_firstn_; sF.
  - apply K; try lia; sF.
Qed.

Lemma new_adder_gmw_s s x y z :
  gmw s = true ->
  wfst s -> Forall (defd s) x -> Forall (defd s) y -> Forall (pend s) z -> NoDup z ->
  (1 <= length z)%nat -> (1 <= Nat.max (length x) (length y))%nat ->
  oks (new_adder x y z) s
      (fun z' s' => step s s' z /\ Forall (defd s') z' /\ length z' = length z).
Proof.
  intros G W Fx Fy Pz ND Hz Hm.
  pose proof (ks_adder_s s x y z W Fx Fy Pz ND Hz Hm) as H.
  unfold StructProof.oks in *. unfold new_adder, bind, target_gmw. rewrite G. exact H.
Qed.


(* ---------- Kogge-Stone subtractor ---------- *)
Lemma kss_pre_s : forall x y s, wfst s -> Forall (defd s) x -> Forall (defd s) y ->
  oks (kss_pre x y) s
      (fun pg s' => step s s' [] /\ Forall (defd s') (fst pg) /\ Forall (defd s') (snd pg) /\
                    length (fst pg) = Nat.min (length x) (length y) /\
                    length (snd pg) = Nat.min (length x) (length y)).
Proof.
  induction x as [|xi x IH]; intros y s W Fx Fy.
  - cbn. apply oks_ret; auto. cbn. split; [apply step_refl|]. repeat split; constructor.
  - destruct y as [|yi y].
    + cbn. apply oks_ret; auto. cbn. split; [apply step_refl|]. repeat split; constructor.
    + cbn [kss_pre]. inversion Fx; subst. inversion Fy; subst.
      sbind fresh_s. intros bi s1 W1 (E1 & P1 & S1 & N1). cbv beta.
      eapply oks_bind; [apply cc_inv_s; [auto|sd|sp]|]. intros u2 s2 W2 (S2 & D2). cbv beta.
      sbind fresh_s. intros p s3 W3 (E3 & P3 & S3 & N3). cbv beta.
      eapply oks_bind; [apply emit_s; [auto|sd|sd|sp]|]. intros u4 s4 W4 (S4 & D4 & N4). cbv beta.
      sbind fresh_s. intros g s5 W5 (E5 & P5 & S5 & N5). cbv beta.
      eapply oks_bind; [apply emit_s; [auto|sd|sd|sp]|]. intros u6 s6 W6 (S6 & D6 & N6). cbv beta.
      eapply oks_bind; [apply IH; [auto|sF|sF]|].
      intros [ps gs] s7 W7 (S7 & Fp & Fg & Lp & Lg). cbn [fst snd] in *. cbv beta.
      apply oks_ret; auto. cbn [fst snd length Nat.min]. split; [|split; [|split]].
      * split; [sgn|]. split; [intros w D; sd|].
        intros w P N. pose proof (pend_next _ _ _ P) as Lw.
        pose proof (step_next _ _ _ _ S1). pose proof (step_next _ _ _ _ S2).
        pose proof (step_next _ _ _ _ S3). pose proof (step_next _ _ _ _ S4).
        pose proof (step_next _ _ _ _ S5). unfold wire in *. sp.
      * constructor; [sd|auto].
      * constructor; [sd|auto].
      * lia.
Qed.

Lemma kss_cells_s : forall pi gi pj gj s, wfst s ->
  Forall (defd s) pi -> Forall (defd s) gi -> Forall (defd s) pj -> Forall (defd s) gj ->
  oks (kss_cells pi gi pj gj) s
      (fun pg s' => step s s' [] /\ Forall (defd s') (fst pg) /\ Forall (defd s') (snd pg) /\
                    length (fst pg) = min4 (length pi) (length gi) (length pj) (length gj) /\
                    length (snd pg) = min4 (length pi) (length gi) (length pj) (length gj)).
Proof.
  assert (Z : forall pi gi pj gj s, wfst s ->
            min4 (length pi) (length gi) (length pj) (length gj) = 0%nat ->
            kss_cells pi gi pj gj = ret ([], []) ->
            oks (kss_cells pi gi pj gj) s
              (fun pg s' => step s s' [] /\ Forall (defd s') (fst pg) /\ Forall (defd s') (snd pg) /\
                    length (fst pg) = min4 (length pi) (length gi) (length pj) (length gj) /\
                    length (snd pg) = min4 (length pi) (length gi) (length pj) (length gj))).
  { intros pi gi pj gj s W E1 E2. rewrite E2, E1. apply oks_ret; auto. cbn.
    split; [apply step_refl|]. repeat split; constructor. }
  induction pi as [|p pi IH]; intros gi pj gj s W Fpi Fgi Fpj Fgj.
  - apply Z; auto.
  - destruct gi as [|g gi]; [apply Z; auto|].
    destruct pj as [|pl pj]; [apply Z; auto|].
    destruct gj as [|gl gj]; [apply Z; auto; unfold min4; cbn; lia|].
    cbn [kss_cells]. inversion Fpi; subst. inversion Fgi; subst. inversion Fpj; subst. inversion Fgj; subst.
    sbind fresh_s. intros pg s1 W1 (E1 & P1 & S1 & N1). cbv beta.
    eapply oks_bind; [apply emit_s; [auto|sd|sd|sp]|]. intros u2 s2 W2 (S2 & D2 & N2). cbv beta.
    sbind fresh_s. intros w1 s3 W3 (E3 & P3 & S3 & N3). cbv beta.
    eapply oks_bind; [apply emit_s; [auto|sd|sd|sp]|]. intros u4 s4 W4 (S4 & D4 & N4). cbv beta.
    sbind fresh_s. intros w2 s5 W5 (E5 & P5 & S5 & N5). cbv beta.
    eapply oks_bind; [apply emit_s; [auto|sd|sd|sp]|]. intros u6 s6 W6 (S6 & D6 & N6). cbv beta.
    eapply oks_bind; [apply IH; [auto|sF|sF|sF|sF]|].
    intros [ps gs] s7 W7 (S7 & Fp & Fg & Lp & Lg). cbn [fst snd] in *. cbv beta.
    apply oks_ret; auto. unfold min4 in *. cbn [fst snd length Nat.min]. split; [|split; [|split]].
    + split; [sgn|]. split; [intros w D; sd|].
      intros w P N. pose proof (pend_next _ _ _ P) as Lw. unfold wire in *. sp.
    + constructor; [sd|auto].
    + constructor; [sd|auto].
    + lia.
Qed.

Lemma kss_stages_s : forall fuel stp n p g s, wfst s -> Forall (defd s) p -> Forall (defd s) g ->
  length p = length g ->
  oks (kss_stages fuel stp n p g) s
      (fun pg s' => step s s' [] /\ Forall (defd s') (fst pg) /\ Forall (defd s') (snd pg) /\
                    length (fst pg) = length p /\ length (snd pg) = length p).
Proof.
  induction fuel as [|k IH]; intros stp n p g s W Fp Fg L.
  - cbn. apply oks_ret; auto. cbn. split; [apply step_refl|]. auto.
  - cbn [kss_stages]. destruct (Nat.ltb stp n).
    + eapply oks_bind; [apply kss_cells_s; auto using Forall_skipn_|].
      intros [ps gs] s1 W1 (S1 & Fps & Fgs & Lp & Lg). cbn [fst snd] in *. cbv beta.
      unfold min4 in *. rewrite !skipn_length in *.
      eapply oks_conseq; [apply IH; [auto| | |]|].
      * apply Forall_app; split; [apply Forall_firstn_; sF|auto].
      * apply Forall_app; split; [apply Forall_firstn_; sF|auto].
      * rewrite !app_length, !firstn_length. lia.
      * cbv beta. intros [p2 g2] s2 W2 (S2 & Fp2 & Fg2 & Lp2 & Lg2). cbn [fst snd] in *.
        rewrite !app_length, !firstn_length in *.
        split; [|repeat split; auto; lia].
        eapply step_weaken; [eapply step_trans; eauto|]. apply incl_refl.
    + apply oks_ret; auto. cbn. split; [apply step_refl|]. auto.
Qed.

Lemma kss_post_s : forall x g z s, wfst s ->
  Forall (defd s) x -> Forall (defd s) g -> Forall (pend s) z -> NoDup z ->
  oks (kss_post x g z) s
      (fun _ s' => step s s' z /\
                   Forall (defd s') (firstn (Nat.min (length x) (Nat.min (length g) (length z))) z)).
Proof.
  assert (Z : forall x g z s, wfst s ->
            Nat.min (length x) (Nat.min (length g) (length z)) = 0%nat ->
            kss_post x g z = ret tt ->
            oks (kss_post x g z) s
              (fun _ s' => step s s' z /\
                   Forall (defd s') (firstn (Nat.min (length x) (Nat.min (length g) (length z))) z))).
  { intros x g z s W E1 E2. rewrite E2, E1. apply oks_ret; auto. cbn.
    split; [|constructor]. eapply step_weaken; [apply step_refl|apply incl_nil_any]. }
  induction x as [|xi x IH]; intros g z s W Fx Fg Pz ND.
  - apply Z; auto.
  - destruct g as [|gi g]; [apply Z; auto|].
    destruct z as [|zi z]; [apply Z; auto; cbn; lia|].
    cbn [kss_post]. inversion Fx; subst. inversion Fg; subst.
    inversion Pz; subst. inversion ND; subst.
    eapply oks_bind; [apply emit_s; [auto|sd|sd|auto]|]. intros u1 s1 W1 (S1 & D1 & N1). cbv beta.
    assert (Pz1 : Forall (pend s1) z).
    { eapply Forall_pend_step; [exact S1| |eassumption].
      intros w Hin HI. cbn in HI. destruct HI as [E|HI]; [subst w; auto|exact HI]. }
    eapply oks_conseq; [apply IH; [auto|sF|sF|auto|auto]|].
    cbv beta. intros u2 s2 W2 (S2 & F2). split.
    + eapply step_weaken; [eapply step_trans; eauto|]. cbn. apply incl_refl.
    + cbn [length Nat.min firstn]. constructor; [sd|exact F2].
Qed.

Lemma kss_core_s n x y z s :
  length x = n -> length y = n -> (1 <= n)%nat -> (n <= length z)%nat ->
  wfst s -> Forall (defd s) x -> Forall (defd s) y -> Forall (pend s) z -> NoDup z ->
  oks (kss_core n x y z) s
      (fun z' s' => step s s' z /\ Forall (defd s') z' /\ length z' = length z).
Proof.
  intros Lx Ly Hn Hz W Fx Fy Pz ND. unfold kss_core.
  rewrite !(firstn_all2 (n := n)) by lia.
  eapply oks_bind; [apply kss_pre_s; auto|].
  intros [p g] s1 W1 (S1 & Fp & Fg & Lp & Lg). cbn [fst snd] in *. cbv beta.
  destruct p as [|p0 ps]; [cbn in *; lia|].
  destruct g as [|g0 gs]; [cbn in *; lia|].
  destruct z as [|z0 zs]; [cbn in *; lia|].
  cbn [nth tl]. inversion Fp; subst. inversion Fg; subst.
  sbind fresh_s. intros w s2 W2 (E2 & P2 & S2 & N2). cbv beta.
  eapply oks_bind; [apply emit_s; [auto|sd|sd|sp]|]. intros u3 s3 W3 (S3 & D3 & N3). cbv beta.
  eapply oks_bind; [apply kss_stages_s; [auto|sF| |cbn in *; lia]|].
  { constructor; [sd|sF]. }
  intros [p4 g4] s4 W4 (S4 & Fp4 & Fg4 & Lp4 & Lg4). cbn [fst snd] in *. cbv beta.
  assert (Pz4 : Forall (pend s4) (z0 :: zs)).
  { apply Forall_forall. intros v Hin. rewrite Forall_forall in Pz. specialize (Pz _ Hin).
    pose proof (pend_next _ _ _ Pz) as Lv. pose proof (step_next _ _ _ _ S1). unfold wire in *. sp. }
  inversion Pz4; subst. inversion ND; subst.
  eapply (oks_bind _ _ _ _ (fun _ s6 => step s4 s6 (z0 :: zs) /\ defd s6 z0 /\ Forall (defd s6) (firstn (length ps) zs))).
  { eapply oks_bind; [apply cc_inv_s; [auto|sd|auto]|]. intros u5 s5 W5 (S5 & D5). cbv beta.
    eapply oks_conseq; [apply kss_post_s; [auto|sF|sF| |auto]|].
    - eapply Forall_pend_step; [exact S5| |eassumption].
      intros v Hin HI. cbn in HI. destruct HI as [E|HI]; [subst v; auto|exact HI].
    - cbv beta. intros u6 s6 W6 (S6 & F6). split; [|split; [sd|]].
      + eapply step_weaken; [eapply step_trans; eauto|]. cbn. apply incl_refl.
      + cbn [length] in *.
        replace (Nat.min (length ps) (Nat.min (length g4) (length zs))) with (length ps) in F6 by lia.
        exact F6. }
  intros u6 s6 W6 (S6 & D6 & F6). cbv beta.
  eapply oks_conseq; [apply zero_tail_s; auto|].
  cbv beta. intros z' s7 W7 (S7 & Lz' & Fz' & Tz').
  assert (Ln : length x = S (length ps)) by (cbn in *; lia).
  split; [|split; [|exact Lz']].
  - split; [sgn|]. split; [intros v D; sd|].
    intros v P N. pose proof (pend_next _ _ _ P) as Lv. pose proof (step_next _ _ _ _ S1).
    assert (v <> z0 /\ ~ In v zs) as (? & ?) by (split; intro; apply N; cbn; auto).
    unfold wire in *. sp.
  - rewrite <- (firstn_skipn (length x) z'). apply Forall_app. split; [|exact Tz'].
    rewrite Fz', Ln. cbn [firstn]. constructor; [sd|]. sF.
Qed.

(* NewKoggeStoneSubtractor *)
Lemma ks_subtractor_s s x y z :
  wfst s -> Forall (defd s) x -> Forall (defd s) y -> Forall (pend s) z -> NoDup z ->
  (1 <= length z)%nat -> (1 <= Nat.max (length x) (length y))%nat ->
  oks (ks_subtractor x y z) s
      (fun z' s' => step s s' z /\ Forall (defd s') z' /\ length z' = length z).
Proof.
  intros W Fx Fy Pz ND Hz Hm. rewrite ks_subtractor_unfold.
  set (m := Nat.max (length x) (length y)) in *. cbv zeta.
  set (n1 := if Nat.ltb m (length z) then S m else m).
  assert (Hn1 : (m < length z /\ n1 = S m)%nat \/ (length z <= m /\ n1 = m)%nat).
  { unfold n1. destruct (Nat.ltb_spec m (length z)); lia. }
  sbind pad_s. intros x1 s1 W1 (S1 & Fx1 & Lx1). cbv beta.
  eapply oks_bind; [apply pad_s; [auto|sF]|]. intros y1 s2 W2 (S2 & Fy1 & Ly1). cbv beta.
  assert (Pz2 : Forall (pend s2) z).
  { eapply Forall_pend_step0; [exact S2|]. eapply Forall_pend_step0; [exact S1|]. exact Pz. }
  assert (K : forall n x2 y2, length x2 = n -> length y2 = n -> (1 <= n)%nat -> (n <= length z)%nat ->
              Forall (defd s2) x2 -> Forall (defd s2) y2 ->
              oks (kss_core n x2 y2 z) s2
                (fun z' s' => step s s' z /\ Forall (defd s') z' /\ length z' = length z)).
  { intros n x2 y2 L1 L2 H1 H2 F1 F2.
    eapply oks_conseq; [apply kss_core_s; eauto|].
    cbv beta. intros z' s3 W3 (S3 & F3 & L3). split; [|auto].
    eapply step_weaken; [eapply step_trans; [eapply step_trans|]; eauto|]. cbn. apply incl_refl. }
  destruct (Nat.ltb_spec (length z) (length x1)) as [ET|ET].
  - apply K; rewrite ?firstn_length; try lia; apply Forall_firstn_; sF.
  - apply K; try lia; sF.
Qed.

Lemma new_subtractor_gmw_s s x y z :
  gmw s = true ->
  wfst s -> Forall (defd s) x -> Forall (defd s) y -> Forall (pend s) z -> NoDup z ->
  (1 <= length z)%nat -> (1 <= Nat.max (length x) (length y))%nat ->
  oks (new_subtractor x y z) s
      (fun z' s' => step s s' z /\ Forall (defd s') z' /\ length z' = length z).
Proof.
  intros G W Fx Fy Pz ND Hz Hm.
  pose proof (ks_subtractor_s s x y z W Fx Fy Pz ND Hz Hm) as H.
  unfold StructProof.oks in *. unfold new_subtractor, bind, target_gmw. rewrite G. exact H.
Qed.

End K.

(* ---------- the evaluated Kogge-Stone adder ----------
   Harness layout: x = wires 0..xw-1, y = the next yw wires, the zw destination
   wires follow the inputs.  For every target, all widths and every initial
   assignment e0: the emitted gate list is single-assignment and
   defined-before-use, and evaluating it gate by gate yields (x + y) mod 2^zw. *)
Theorem ks_adder_eval (tg : bool) (xw yw zw : nat) (e0 : env) :
  (1 <= zw)%nat -> (1 <= Nat.max xw yw)%nat ->
  let x := wrange 0 xw in
  let y := wrange (N.of_nat xw) yw in
  let ninp := N.of_nat xw + N.of_nat yw in
  let z := wrange ninp zw in
  exists z' s', ks_adder x y z (st0 (ninp + N.of_nat zw) tg) = (z', s') /\
    wfc_b ninp (gates s') = true /\ dbu ninp (gates s') /\
    length z' = zw /\
    valN (eval_rev (gates s') e0) z' = (valN e0 x + valN e0 y) mod 2 ^ N.of_nat zw.
Proof.
  intros Hz Hm. cbv zeta.
  set (x := wrange 0 xw). set (y := wrange (N.of_nat xw) yw).
  set (ninp := N.of_nat xw + N.of_nat yw). set (z := wrange ninp zw).
  assert (Ix : forall w, In w x -> w < ninp) by (intros w H; apply wrange_In in H; lia).
  assert (Iy : forall w, In w y -> w < ninp) by (intros w H; apply wrange_In in H; lia).
  assert (Lz : length z = zw) by (unfold z; apply wrange_length).
  assert (Lx : length x = xw) by (unfold x; apply wrange_length).
  assert (Ly : length y = yw) by (unfold y; apply wrange_length).
  assert (Hz' : (1 <= length z)%nat) by lia.
  assert (Hm' : (1 <= Nat.max (length x) (length y))%nat) by lia.
  pose proof (okm_ks_adder tg x y z Hz' Hm') as Sem.
  assert (Str : @oks ninp _ (ks_adder x y z) (st0 (ninp + N.of_nat zw) tg)
                  (fun z' s' => step ninp (st0 (ninp + N.of_nat zw) tg) s' z /\
                                Forall (defd ninp s') z' /\ length z' = length z)).
  { apply ks_adder_s; auto.
    - apply wfst_st0; lia.
    - apply Forall_defd_inputs; auto.
    - apply Forall_defd_inputs; auto.
    - apply Forall_pend_st0. intros w H. apply wrange_In in H. lia.
    - apply wrange_NoDup. }
  destruct (run_st0 ninp _ tg _ _ _ Sem Str e0) as (z' & s' & E & C & D & _ & (L & P) & I).
  exists z', s'. split; [exact E|]. split; [exact C|]. split; [exact D|]. split; [lia|].
  rewrite P, Lz, (valN_inputs _ e0 ninp x I Ix), (valN_inputs _ e0 ninp y I Iy). reflexivity.
Qed.

(* ---------- the evaluated Kogge-Stone subtractor ----------
   Same layout.  With n = min (max xw yw + 1) zw the result is the n-bit
   two's-complement difference x + ~y + 1 (mod 2^n), zero-extended to zw wires
   (the statement of okm_ks_subtractor, transported to the evaluated circuit). *)
Theorem ks_subtractor_eval (tg : bool) (xw yw zw : nat) (e0 : env) :
  (1 <= zw)%nat -> (1 <= Nat.max xw yw)%nat ->
  let x := wrange 0 xw in
  let y := wrange (N.of_nat xw) yw in
  let ninp := N.of_nat xw + N.of_nat yw in
  let z := wrange ninp zw in
  let n := Nat.min (S (Nat.max xw yw)) zw in
  exists z' s', ks_subtractor x y z (st0 (ninp + N.of_nat zw) tg) = (z', s') /\
    wfc_b ninp (gates s') = true /\ dbu ninp (gates s') /\
    length z' = zw /\
    valN (eval_rev (gates s') e0) z' =
      (valN e0 x mod 2 ^ N.of_nat n + (2 ^ N.of_nat n - 1 - valN e0 y mod 2 ^ N.of_nat n) + 1)
      mod 2 ^ N.of_nat n.
Proof.
  intros Hz Hm. cbv zeta.
  set (x := wrange 0 xw). set (y := wrange (N.of_nat xw) yw).
  set (ninp := N.of_nat xw + N.of_nat yw). set (z := wrange ninp zw).
  assert (Ix : forall w, In w x -> w < ninp) by (intros w H; apply wrange_In in H; lia).
  assert (Iy : forall w, In w y -> w < ninp) by (intros w H; apply wrange_In in H; lia).
  assert (Lz : length z = zw) by (unfold z; apply wrange_length).
  assert (Lx : length x = xw) by (unfold x; apply wrange_length).
  assert (Ly : length y = yw) by (unfold y; apply wrange_length).
  assert (Hz' : (1 <= length z)%nat) by lia.
  assert (Hm' : (1 <= Nat.max (length x) (length y))%nat) by lia.
  pose proof (okm_ks_subtractor tg x y z Hz' Hm') as Sem.
  assert (Str : @oks ninp _ (ks_subtractor x y z) (st0 (ninp + N.of_nat zw) tg)
                  (fun z' s' => step ninp (st0 (ninp + N.of_nat zw) tg) s' z /\
                                Forall (defd ninp s') z' /\ length z' = length z)).
  { apply ks_subtractor_s; auto.
    - apply wfst_st0; lia.
    - apply Forall_defd_inputs; auto.
    - apply Forall_defd_inputs; auto.
    - apply Forall_pend_st0. intros w H. apply wrange_In in H. lia.
    - apply wrange_NoDup. }
  destruct (run_st0 ninp _ tg _ _ _ Sem Str e0) as (z' & s' & E & C & D & _ & (L & P) & I).
  cbv zeta in P. rewrite Lx, Ly, Lz in P.
  exists z', s'. split; [exact E|]. split; [exact C|]. split; [exact D|]. split; [lia|].
  rewrite P, (valN_inputs _ e0 ninp x I Ix), (valN_inputs _ e0 ninp y I Iy). reflexivity.
Qed.

(* no borrow (y <= x as numbers): the evaluated circuit computes (x - y) mod 2^zw *)
Corollary ks_subtractor_eval_noborrow (tg : bool) (xw yw zw : nat) (e0 : env) :
  (1 <= zw)%nat -> (1 <= Nat.max xw yw)%nat ->
  let x := wrange 0 xw in
  let y := wrange (N.of_nat xw) yw in
  let ninp := N.of_nat xw + N.of_nat yw in
  let z := wrange ninp zw in
  valN e0 y <= valN e0 x ->
  exists z' s', ks_subtractor x y z (st0 (ninp + N.of_nat zw) tg) = (z', s') /\
    wfc_b ninp (gates s') = true /\ dbu ninp (gates s') /\
    length z' = zw /\
    valN (eval_rev (gates s') e0) z' = (valN e0 x - valN e0 y) mod 2 ^ N.of_nat zw.
Proof.
  intros Hz Hm. cbv zeta.
  set (x := wrange 0 xw). set (y := wrange (N.of_nat xw) yw).
  set (ninp := N.of_nat xw + N.of_nat yw). set (z := wrange ninp zw). intros Hxy.
  assert (Ix : forall w, In w x -> w < ninp) by (intros w H; apply wrange_In in H; lia).
  assert (Iy : forall w, In w y -> w < ninp) by (intros w H; apply wrange_In in H; lia).
  assert (Lz : length z = zw) by (unfold z; apply wrange_length).
  assert (Lx : length x = xw) by (unfold x; apply wrange_length).
  assert (Ly : length y = yw) by (unfold y; apply wrange_length).
  assert (Hz' : (1 <= length z)%nat) by lia.
  assert (Hm' : (1 <= Nat.max (length x) (length y))%nat) by lia.
  pose proof (okm_ks_subtractor_noborrow tg x y z Hz' Hm') as Sem.
  assert (Str : @oks ninp _ (ks_subtractor x y z) (st0 (ninp + N.of_nat zw) tg)
                  (fun z' s' => step ninp (st0 (ninp + N.of_nat zw) tg) s' z /\
                                Forall (defd ninp s') z' /\ length z' = length z)).
  { apply ks_subtractor_s; auto.
    - apply wfst_st0; lia.
    - apply Forall_defd_inputs; auto.
    - apply Forall_defd_inputs; auto.
    - apply Forall_pend_st0. intros w H. apply wrange_In in H. lia.
    - apply wrange_NoDup. }
  destruct (run_st0 ninp _ tg _ _ _ Sem Str e0) as (z' & s' & E & C & D & _ & (L & P) & I).
  rewrite (valN_inputs _ e0 ninp x I Ix), (valN_inputs _ e0 ninp y I Iy), Lz in P.
  exists z', s'. split; [exact E|]. split; [exact C|]. split; [exact D|]. split; [lia|].
  apply P, Hxy.
Qed.

(* the GMW-target dispatchers NewAdder / NewSubtractor run the Kogge-Stone builders *)
Corollary new_adder_gmw_eval (xw yw zw : nat) (e0 : env) :
  (1 <= zw)%nat -> (1 <= Nat.max xw yw)%nat ->
  let x := wrange 0 xw in
  let y := wrange (N.of_nat xw) yw in
  let ninp := N.of_nat xw + N.of_nat yw in
  let z := wrange ninp zw in
  exists z' s', new_adder x y z (st0 (ninp + N.of_nat zw) true) = (z', s') /\
    wfc_b ninp (gates s') = true /\ dbu ninp (gates s') /\
    length z' = zw /\
    valN (eval_rev (gates s') e0) z' = (valN e0 x + valN e0 y) mod 2 ^ N.of_nat zw.
Proof. exact (ks_adder_eval true xw yw zw e0). Qed.

Corollary new_subtractor_gmw_eval (xw yw zw : nat) (e0 : env) :
  (1 <= zw)%nat -> (1 <= Nat.max xw yw)%nat ->
  let x := wrange 0 xw in
  let y := wrange (N.of_nat xw) yw in
  let ninp := N.of_nat xw + N.of_nat yw in
  let z := wrange ninp zw in
  let n := Nat.min (S (Nat.max xw yw)) zw in
  exists z' s', new_subtractor x y z (st0 (ninp + N.of_nat zw) true) = (z', s') /\
    wfc_b ninp (gates s') = true /\ dbu ninp (gates s') /\
    length z' = zw /\
    valN (eval_rev (gates s') e0) z' =
      (valN e0 x mod 2 ^ N.of_nat n + (2 ^ N.of_nat n - 1 - valN e0 y mod 2 ^ N.of_nat n) + 1)
      mod 2 ^ N.of_nat n.
Proof. exact (ks_subtractor_eval true xw yw zw e0). Qed.
