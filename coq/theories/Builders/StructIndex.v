(* StructIndex.v — structural lemmas (single assignment, defined before use) for
   circuits.NewIndex / newIndex (Index.v), for every element size >= 1, every
   number of elements n >= 1, every index width >= 1 and both targets, and the
   resulting theorem about the EVALUATED circuit in the harness wire layout. *)
From Coq Require Import NArith List Bool Arith Lia.
From Mpc Require Import Builders.Emit Builders.EmitProof Builders.StructProof
  Builders.Mux Builders.MuxProof Builders.StructAdder Builders.Index Builders.IndexProof.
Import ListNotations.
Open Scope N_scope.

Lemma Forall_firstn_ix {A} (P : A -> Prop) k l : Forall P l -> Forall P (firstn k l).
Proof. intros F. rewrite <- (firstn_skipn k l) in F. apply Forall_app in F. tauto. Qed.

Lemma Forall_skipn_ix {A} (P : A -> Prop) k l : Forall P l -> Forall P (skipn k l).
Proof. intros F. rewrite <- (firstn_skipn k l) in F. apply Forall_app in F. tauto. Qed.

Section I.
Variable ninp : N.
Notation defd := (defd ninp). Notation pend := (pend ninp). Notation wfst := (wfst ninp).
Notation step := (step ninp). Notation oks := (@oks ninp _).

Lemma defd_nth_ix s l k : wfst s -> Forall (defd s) l -> defd s (nth k l 0).
Proof.
  intros W F. destruct (nth_in_or_default k l 0) as [H|H].
  - rewrite Forall_forall in F. apply F, H.
  - rewrite H. apply defd_in0. exact W.
Qed.

(* allocate [size] fresh wires, fill them with [m], continue with [K]: from the
   point of view of the caller nothing that was pending has been touched *)
Lemma fresh_bind_s {B} size (m : list wire -> M unit) (K : list wire -> M B) s (Q : B -> st -> Prop) :
  wfst s ->
  (forall v s1, wfst s1 -> step s s1 [] -> Forall (pend s1) v -> NoDup v -> length v = size ->
     oks (m v) s1 (fun _ s' => step s1 s' v /\ Forall (defd s') v)) ->
  (forall v s', wfst s' -> step s s' [] -> Forall (defd s') v -> length v = size -> oks (K v) s' Q) ->
  oks (v <- fresh_n size;; m v;; K v)%monad s Q.
Proof.
  intros W Hm HK.
  sbind fresh_n_s. intros v s1 W1 (S1 & ND & Lv & Pv). cbv beta.
  eapply oks_bind; [apply Hm; auto; apply Forall_forall; intros w Hin; apply Pv, Hin|].
  intros _ s2 W2 (S2 & F2). cbv beta.
  apply HK; auto.
  split; [sgn|]. split; [intros w D; sd|].
  intros w P _. eapply step_pend; [exact S2|eapply step_pend; [exact S1|exact P|intros []]|].
  intros Hin. destruct (Pv _ Hin) as (_ & Hge). pose proof (pend_next _ _ _ P). lia.
Qed.

Lemma Forall_pend_step_nil s s' l : step s s' [] -> Forall (pend s) l -> Forall (pend s') l.
Proof.
  intros S F. eapply Forall_impl; [|exact F]. intros w P.
  eapply step_pend; [exact S|exact P|intros []].
Qed.

(* newIndex with capacity 2^(bit+1) on an array of n >= 1 elements *)
Lemma new_index_rec_s size index def :
  (1 <= size)%nat -> length def = size -> (1 <= length index)%nat ->
  forall bit array out n s,
    wfst s -> Forall (defd s) array -> Forall (defd s) index -> Forall (defd s) def ->
    Forall (pend s) out -> NoDup out ->
    length array = (n * size)%nat -> (1 <= n)%nat -> length out = size ->
    oks (new_index_rec bit (2 ^ S bit) size array index def out) s
        (fun _ s' => step s s' out /\ Forall (defd s') out).
Proof.
  intros Hs Hdef Hix. induction bit as [|bit' IH]; intros array out n s W Fa Fi Fd Po ND Ha Hn Ho.
  - assert (Hb : (0 < length index)%nat) by lia.
    cbn [new_index_rec].
    assert (En : (length array / size)%nat = n) by (rewrite Ha; apply Nat.div_mul; lia).
    rewrite En. rewrite <- (skipn_O index) at 1. rewrite firstn1_skipn by exact Hb.
    apply new_mux_s; auto.
    + apply defd_nth_ix; auto.
    + destruct (Nat.ltb 1 n); [apply Forall_firstn_ix, Forall_skipn_ix|]; auto.
    + apply Forall_firstn_ix; auto.
    + rewrite firstn_length. destruct (Nat.ltb_spec 1 n); [rewrite firstn_length, skipn_length|]; nia.
  - rewrite new_index_rec_S. cbv zeta.
    assert (En : (length array / size)%nat = n) by (rewrite Ha; apply Nat.div_mul; lia).
    rewrite En, pow2_half.
    set (L := (2 ^ S bit')%nat) in *.
    assert (HL : (1 <= L)%nat) by (unfold L; pose proof (Nat.pow_nonzero 2 (S bit')); lia).
    set (fArray := if Nat.ltb L n then firstn (L * size) array else array).
    assert (HF : exists nf, length fArray = (nf * size)%nat /\ (1 <= nf)%nat /\ Forall (defd s) fArray).
    { unfold fArray. destruct (Nat.ltb_spec L n).
      - exists L. split; [rewrite firstn_length; nia|]. split; [lia|]. apply Forall_firstn_ix; auto.
      - exists n. auto. }
    destruct HF as (nf & HF1 & HF2 & HF3).
    destruct (Nat.leb_spec (length index) (S bit')) as [Hsh|Hb].
    { apply (IH fArray out nf); auto. }
    rewrite firstn1_skipn by exact Hb.
    apply fresh_bind_s; auto.
    { intros v s1 W1 S1 Pv NDv Lv.
      apply (IH fArray v nf); auto; eapply Forall_defd_step; eauto. }
    intros fVal s2 W2 S2 F2 LfV.
    eapply oks_bind with (P := fun tVal s' => step s2 s' [] /\ Forall (defd s') tVal /\ length tVal = size).
    { destruct (Nat.ltb_spec L n) as [EL|EL].
      - apply fresh_bind_s; auto.
        + intros v s3 W3 S3 Pv NDv Lv.
          apply (IH (skipn (L * size) array) v (n - L)%nat); auto.
          * apply Forall_skipn_ix. eapply Forall_defd_step; [exact S3|]. eapply Forall_defd_step; eauto.
          * eapply Forall_defd_step; [exact S3|]. eapply Forall_defd_step; eauto.
          * eapply Forall_defd_step; [exact S3|]. eapply Forall_defd_step; eauto.
          * rewrite skipn_length. nia.
          * lia.
        + intros v s4 W4 S4 F4 Lv. apply oks_ret; auto.
      - apply oks_ret; auto. split; [apply step_refl|]. split; [eapply Forall_defd_step; eauto|auto]. }
    intros tVal s3 W3 (S3 & F3 & LtV). cbv beta.
    eapply oks_conseq.
    + apply new_mux_s; auto.
      * apply defd_nth_ix; auto. eapply Forall_defd_step; [exact S3|]. eapply Forall_defd_step; eauto.
      * eapply Forall_defd_step; eauto.
      * eapply Forall_pend_step_nil; [exact S3|]. eapply Forall_pend_step_nil; eauto.
      * unfold wire in *. lia.
    + cbv beta. intros _ s4 W4 (S4 & F4). split; [|exact F4].
      eapply step_weaken; [eapply step_trans; [exact S2|eapply step_trans; [exact S3|exact S4]]|].
      cbn. apply incl_refl.
Qed.

(* NewIndex *)
Lemma new_index_s s size array index out n :
  wfst s -> Forall (defd s) array -> Forall (defd s) index ->
  Forall (pend s) out -> NoDup out ->
  (1 <= size)%nat -> length array = (n * size)%nat -> (1 <= n)%nat -> length out = size ->
  (1 <= length index)%nat ->
  oks (new_index size array index out) s
      (fun out' s' => out' = out /\ step s s' out /\ Forall (defd s') out').
Proof.
  intros W Fa Fi Po ND Hs Ha Hn Ho Hi. unfold new_index.
  assert (En : (length array / size)%nat = n) by (rewrite Ha; apply Nat.div_mul; lia).
  rewrite En. replace (Nat.eqb n 0) with false by (symmetry; apply Nat.eqb_neq; lia).
  pose proof (index_bits_spec n) as HB. cbv zeta in HB.
  destruct (index_bits n 1 2 n) as [bits len]. cbn [fst snd] in *.
  destruct HB as (Hlen & Hb1 & Hcap & _).
  replace (Nat.eqb size 0) with false by (symmetry; apply Nat.eqb_neq; lia).
  eapply oks_bind with (P := fun d s' => step s s' [] /\ Forall (defd s') d /\ length d = size).
  { sbind zero_s. intros z s1 W1 (S1 & Dz). cbv beta. apply oks_ret; auto.
    split; [exact S1|]. split; [|apply repeat_length].
    apply Forall_forall. intros w Hin. apply repeat_spec in Hin. subst. exact Dz. }
  intros def s1 W1 (S1 & Fd & Ld). cbv beta.
  destruct bits as [|bit]; [lia|]. replace (S bit - 1)%nat with bit by lia. subst len.
  eapply oks_bind.
  { apply (new_index_rec_s size index def Hs Ld Hi bit array out n); auto.
    - eapply Forall_defd_step; eauto.
    - eapply Forall_defd_step; eauto.
    - eapply Forall_pend_step_nil; eauto. }
  intros _ s2 W2 (S2 & F2). cbv beta.
  apply oks_ret; auto. split; [reflexivity|]. split; [|exact F2].
  eapply step_weaken; [eapply step_trans; eauto|]. cbn. apply incl_refl.
Qed.

End I.

(* ---------- the evaluated NewIndex circuit ----------
   Harness layout: array = wires 0..n*size-1 (n elements of [size] wires), index =
   the next iw wires, the destination wires follow the inputs. *)
Lemma In_elem size array i w : In w (elem size array i) -> In w array.
Proof.
  unfold elem. intros H.
  assert (H1 : In w (skipn (i * size) array)).
  { rewrite <- (firstn_skipn size (skipn (i * size) array)). apply in_or_app. auto. }
  rewrite <- (firstn_skipn (i * size) array). apply in_or_app. auto.
Qed.

Theorem new_index_eval (tg : bool) (size n iw : nat) (e0 : env) :
  (1 <= size)%nat -> (1 <= n)%nat -> (1 <= iw)%nat ->
  let array := wrange 0 (n * size) in
  let index := wrange (N.of_nat (n * size)) iw in
  let ninp := N.of_nat (n * size) + N.of_nat iw in
  let out := wrange ninp size in
  exists s', new_index size array index out (st0 (ninp + N.of_nat size) tg) = (out, s') /\
    wfc_b ninp (gates s') = true /\ dbu ninp (gates s') /\
    let i := valN e0 index mod 2 ^ N.of_nat (index_nbits n) in
    valN (eval_rev (gates s') e0) out =
      if i <? N.of_nat n then valN e0 (elem size array (N.to_nat i)) else 0.
Proof.
  intros Hs Hn Hi. cbv zeta.
  set (array := wrange 0 (n * size)). set (index := wrange (N.of_nat (n * size)) iw).
  set (ninp := N.of_nat (n * size) + N.of_nat iw). set (out := wrange ninp size).
  assert (Ia : forall w, In w array -> w < ninp) by (intros w H; apply wrange_In in H; lia).
  assert (Ii : forall w, In w index -> w < ninp) by (intros w H; apply wrange_In in H; lia).
  assert (La : length array = (n * size)%nat) by apply wrange_length.
  assert (Li : (1 <= length index)%nat) by (unfold index; rewrite wrange_length; exact Hi).
  assert (Lo : length out = size) by apply wrange_length.
  pose proof (okm_new_index tg size array index out n Hs La Hn Lo Li) as Sem.
  assert (Str : @oks ninp _ (new_index size array index out) (st0 (ninp + N.of_nat size) tg)
                  (fun out' s' => out' = out /\ step ninp (st0 (ninp + N.of_nat size) tg) s' out /\
                                  Forall (defd ninp s') out')).
  { apply (new_index_s ninp _ size array index out n); auto.
    - apply wfst_st0; lia.
    - apply Forall_defd_inputs; auto.
    - apply Forall_defd_inputs; auto.
    - apply Forall_pend_st0. intros w H. apply wrange_In in H. lia.
    - apply wrange_NoDup. }
  destruct (run_st0 ninp _ tg _ _ _ Sem Str e0) as (out' & s' & E & C & D & (Eo & _) & (_ & P) & I).
  subst out'. exists s'. split; [exact E|]. split; [exact C|]. split; [exact D|].
  cbv zeta in P. rewrite P. rewrite (valN_inputs _ e0 ninp index I Ii).
  set (i := valN e0 index mod 2 ^ N.of_nat (index_nbits n)).
  destruct (i <? N.of_nat n); [|reflexivity].
  apply (valN_inputs _ e0 ninp _ I). intros w H. apply Ia. eapply In_elem; eauto.
Qed.
