(* StructMult.v — structural lemmas (single assignment, defined before use) for
   NewArrayMultiplier (every width), the Karatsuba multiplier and NewMultiplier
   under the Yao target, and the theorems about the EVALUATED circuits. *)
From Coq Require Import NArith List Bool Arith Lia.
From Mpc Require Import Builders.Emit Builders.EmitProof Builders.StructProof Builders.StructAdder
  Builders.StructArith Builders.Adder Builders.Sub Builders.Mult Builders.MultProof Builders.KaratsubaProof.
Import ListNotations.
Open Scope N_scope.

(* ---------- list helpers ---------- *)
Lemma firstn_add_skipn {A} a b : forall (l : list A),
  firstn (a + b) l = firstn a l ++ firstn b (skipn a l).
Proof.
  induction a; intros [|x l]; cbn; auto.
  - destruct b; reflexivity.
  - f_equal. apply IHa.
Qed.

Lemma NoDup_app_disj {A} (l1 l2 : list A) : NoDup (l1 ++ l2) -> forall w, In w l1 -> ~ In w l2.
Proof.
  induction l1 as [|a l1 IH]; cbn; intros H w; [tauto|]. inversion H; subst.
  intros [E|I]; [subst; intro; apply H2, in_or_app; auto | apply IH; auto].
Qed.

Lemma Forall_tl {A} (P : A -> Prop) l : Forall P l -> Forall P (tl l).
Proof. intros F. destruct l; cbn; auto. inversion F; auto. Qed.

Lemma length_tl {A} (l : list A) : length (tl l) = (length l - 1)%nat.
Proof. destruct l; cbn; lia. Qed.

Section A.
Variable ninp : N.
Notation defd := (defd ninp). Notation pend := (pend ninp). Notation wfst := (wfst ninp).
Notation step := (step ninp). Notation oks := (@oks ninp _).

Lemma oks_ret_bind {X Y} (a : X) (f : X -> M Y) s (Q : Y -> st -> Prop) :
  oks (f a) s Q -> oks (bind (ret a) f) s Q.
Proof. intros (b & s' & E & H). exists b, s'. split; auto. Qed.

Lemma defd_nth s l k : wfst s -> Forall (defd s) l -> defd s (nth k l 0).
Proof.
  intros W F. destruct (nth_in_or_default k l 0) as [H|H].
  - rewrite Forall_forall in F; auto.
  - rewrite H. apply defd_zero_const; auto.
Qed.

(* step with no destination: only fresh wires were written *)
Ltac step_nil :=
  split; [sgn|]; split; [intros ?v ?D; sd|];
  let v := fresh "v" in let P := fresh "P" in let N := fresh "N" in
  intros v P N; pose proof (pend_next _ _ _ P); sfacts; sp.

(* ---------- AND rows ---------- *)
Lemma am_ands_s : forall xs yj s, wfst s -> Forall (defd s) xs -> defd s yj ->
  oks (am_ands xs yj) s (fun r s' => step s s' [] /\ Forall (defd s') r /\ length r = length xs).
Proof.
  induction xs as [|xn xs IH]; intros yj s W Fx Dy; cbn [am_ands].
  - apply oks_ret; auto. split; [apply step_refl|]. split; [constructor|reflexivity].
  - apply Forall_cons_iff in Fx as (Dx & Fx').
    sbind fresh_s. intros w s1 W1 (E1 & P1 & S1 & N1). cbv beta.
    eapply oks_bind; [apply emit_s; [auto|sd|sd|sp]|]. intros _ s2 W2 (S2 & D2 & N2). cbv beta.
    eapply oks_bind; [apply IH; [auto| eapply Forall_defd_step; [exact S2|eapply Forall_defd_step; eauto] | sd]|].
    intros r s3 W3 (S3 & F3 & L3). cbv beta.
    apply oks_ret; auto. split; [|split].
    + step_nil.
    + constructor; [sd|auto].
    + cbn. congruence.
Qed.

Lemma am_row0_s : forall xs y0 s, wfst s -> Forall (defd s) xs -> defd s y0 ->
  oks (am_row0 xs y0) s (fun r s' => step s s' [] /\ Forall (defd s') r /\ length r = length xs).
Proof.
  induction xs as [|xn xs IH]; intros yj s W Fx Dy; cbn [am_row0].
  - apply oks_ret; auto. split; [apply step_refl|]. split; [constructor|reflexivity].
  - apply Forall_cons_iff in Fx as (Dx & Fx').
    sbind fresh_s. intros w s1 W1 (E1 & P1 & S1 & N1). cbv beta.
    eapply oks_bind; [apply emit_s; [auto|sd|sd|sp]|]. intros _ s2 W2 (S2 & D2 & N2). cbv beta.
    eapply oks_bind; [apply IH; [auto| eapply Forall_defd_step; [exact S2|eapply Forall_defd_step; eauto] | sd]|].
    intros r s3 W3 (S3 & F3 & L3). cbv beta.
    apply oks_ret; auto. split; [|split].
    + step_nil.
    + constructor; [sd|auto].
    + cbn. congruence.
Qed.

(* ---------- "compute next sums": fresh sum and carry wires ---------- *)
Lemma am_sums_s : forall ands sums c s,
  wfst s -> Forall (defd s) ands -> Forall (defd s) sums -> defd s c ->
  oks (am_sums ands sums c) s
      (fun p s' => step s s' [] /\ Forall (defd s') (fst p) /\ defd s' (snd p) /\
                   length (fst p) = length ands).
Proof.
  induction ands as [|a ands IH]; intros sums c s W Fa Fs Dc; cbn [am_sums].
  - apply oks_ret; auto. cbn. split; [apply step_refl|]. auto.
  - apply Forall_cons_iff in Fa as (Da & Fa').
    sbind fresh_s. intros cout s1 W1 (E1 & P1 & S1 & N1). cbv beta.
    sbind fresh_s. intros so s2 W2 (E2 & P2 & S2 & N2). cbv beta.
    eapply oks_bind with (P := fun _ s' => step s2 s' [so; cout] /\ defd s' so /\ defd s' cout).
    { destruct sums as [|si sums'].
      - eapply oks_conseq; [apply half_adder_s; [auto|sd|sd|sp|]|].
        + intros cw [= <-]. split; [sp|unfold wire in *; lia].
        + cbv beta. intros _ s3 W3 (S3 & D3 & D4). cbn [optl app] in S3. auto.
      - apply Forall_cons_iff in Fs as (Dsi & _).
        eapply oks_conseq; [apply full_adder_s; [auto|sd|sd|sd|sp|]|].
        + intros cw [= <-]. split; [sp|unfold wire in *; lia].
        + cbv beta. intros _ s3 W3 (S3 & D3 & D4). cbn [optl app] in S3. auto. }
    intros _ s3 W3 (S3 & D3 & D4). cbv beta.
    eapply oks_bind; [apply IH; [auto| | |exact D4]|].
    { eapply Forall_impl; [|exact Fa']. intros; sd. }
    { apply Forall_tl. eapply Forall_impl; [|exact Fs]. intros; sd. }
    intros [ns c'] s4 W4 (S4 & F4 & D5 & L4). cbn [fst snd] in *. cbv beta iota.
    apply oks_ret; auto. cbn [fst snd]. split; [|split; [|split]].
    + step_nil.
    + constructor; [sd|auto].
    + auto.
    + cbn. congruence.
Qed.

(* ---------- one intermediate layer: writes z[j] ---------- *)
Lemma am_layer_s s x yj zj sums :
  wfst s -> Forall (defd s) x -> (1 <= length x)%nat -> defd s yj -> pend s zj ->
  Forall (defd s) sums ->
  oks (am_layer x yj zj sums) s
      (fun sums' s' => step s s' [zj] /\ defd s' zj /\ Forall (defd s') sums' /\
                       length sums' = length x).
Proof.
  intros W Fx Lx Dy Pz Fs. unfold am_layer. pose proof (pend_next _ _ _ Pz) as Lz.
  sbind am_ands_s. intros ands s1 W1 (S1 & F1 & L1). cbv beta.
  destruct ands as [|a0 ands']; [cbn in L1; lia|].
  apply Forall_cons_iff in F1 as (Da0 & Fa').
  sbind fresh_s. intros cout s2 W2 (E2 & P2 & S2 & N2). cbv beta.
  eapply oks_bind; [apply half_adder_s; [auto|sd| |sp|]|].
  { apply defd_nth; auto. eapply Forall_impl; [|exact Fs]. intros; sd. }
  { intros cw [= <-]. split; [auto|]. sfacts. unfold wire in *. lia. }
  intros _ s3 W3 (S3 & D3 & D4). specialize (D4 _ eq_refl). cbn [optl app] in S3. cbv beta.
  eapply oks_bind; [apply am_sums_s; [auto| | |exact D4]|].
  { eapply Forall_impl; [|exact Fa']. intros; sd. }
  { apply Forall_tl. eapply Forall_impl; [|exact Fs]. intros; sd. }
  intros [ns c] s4 W4 (S4 & F4 & D5 & L4). cbn [fst snd] in *. cbv beta iota.
  apply oks_ret; auto. split; [|split; [sd|split]].
  - split; [sgn|]. split; [intros v D; sd|]. intros v P N. pose proof (pend_next _ _ _ P).
    assert (v <> zj) by (intro; apply N; cbn; auto). sfacts. sp.
  - apply Forall_app; split; auto.
  - rewrite app_length. cbn in *. lia.
Qed.

(* ---------- layers 1 .. len(y)-2: write z[1..j) ---------- *)
Lemma am_layers_s x : forall ys zs sums s,
  wfst s -> Forall (defd s) x -> (1 <= length x)%nat -> Forall (defd s) ys ->
  Forall (pend s) zs -> NoDup zs -> (length ys <= length zs)%nat -> Forall (defd s) sums ->
  oks (am_layers x ys zs sums) s
      (fun sums' s' => step s s' (firstn (length ys) zs) /\
                       Forall (defd s') (firstn (length ys) zs) /\ Forall (defd s') sums').
Proof.
  induction ys as [|yj ys IH]; intros zs sums s W Fx Lx Fy Pz ND Lz Fs; cbn [am_layers].
  - apply oks_ret; auto. cbn. split; [apply step_refl|]. split; auto.
  - destruct zs as [|zj zs]; [cbn in Lz; lia|]. cbn [nth tl length firstn] in *.
    apply Forall_cons_iff in Fy as (Dy & Fy'). apply Forall_cons_iff in Pz as (Pzj & Pz').
    apply NoDup_cons_iff in ND as (Nz & ND').
    eapply oks_bind; [apply am_layer_s; auto|]. intros sums' s1 W1 (S1 & D1 & F1 & L1). cbv beta.
    eapply oks_conseq; [apply IH; auto; try lia;
                        try (eapply Forall_defd_step; [exact S1|assumption])|].
    + eapply (Forall_pend_step ninp); [exact S1|exact Pz'|]. intros w Hin [E|[]]; subst; auto.
    + cbv beta. intros sums'' s2 W2 (S2 & F2 & F3). split; [|split; auto].
      * eapply step_weaken; [eapply step_trans; eauto|]. cbn. apply incl_refl.
      * constructor; [sd|auto].
Qed.

(* ---------- final layer ---------- *)
Lemma am_final_add_s s (i0 : bool) a sums c zi cout :
  wfst s -> defd s a -> Forall (defd s) sums -> (i0 = true \/ defd s c) ->
  pend s zi -> pend s cout -> cout <> zi ->
  oks (if i0 then half_adder a (nth 0 sums 0) zi (Some cout)
       else match sums with
            | [] => half_adder a c zi (Some cout)
            | si :: _ => full_adder a si c zi (Some cout)
            end) s
      (fun _ s' => step s s' [zi; cout] /\ defd s' zi /\ defd s' cout).
Proof.
  intros W Da Fs Hc Pz Pc Nc.
  assert (HC : forall cw, Some cout = Some cw -> pend s cw /\ cw <> zi) by (intros cw [= <-]; auto).
  destruct i0.
  - eapply oks_conseq; [apply half_adder_s; auto; apply defd_nth; auto|].
    cbv beta. intros _ s1 W1 (S1 & D1 & D2). cbn [optl app] in S1. auto.
  - destruct Hc as [Hc|Dc]; [discriminate|]. destruct sums as [|si sums'].
    + eapply oks_conseq; [apply half_adder_s; auto|].
      cbv beta. intros _ s1 W1 (S1 & D1 & D2). cbn [optl app] in S1. auto.
    + apply Forall_cons_iff in Fs as (Dsi & _).
      eapply oks_conseq; [apply full_adder_s; auto|].
      cbv beta. intros _ s1 W1 (S1 & D1 & D2). cbn [optl app] in S1. auto.
Qed.

(* The final layer writes zs[0 .. len xs - 1] and, if it exists, zs[len xs] (the
   last carry).  Invariant for the incoming carry c: it is defined, or this is
   position 0 (c unused), or the destinations have run out (zs = []: no adder is
   emitted any more, so the never-driven fresh carry wire is not read). *)
Lemma am_final_s : forall xs i0 yj sums zs c s,
  wfst s -> Forall (defd s) xs -> defd s yj -> Forall (defd s) sums ->
  Forall (pend s) zs -> NoDup zs ->
  (i0 = true \/ defd s c \/ zs = []) -> xs <> [] ->
  oks (am_final i0 xs yj sums zs c) s
      (fun _ s' => step s s' (firstn (length xs + 1) zs) /\
                   Forall (defd s') (firstn (length xs + 1) zs)).
Proof.
  induction xs as [|xn xs' IH]; intros i0 yj sums zs c s W Fx Dy Fs Pz ND Hc Hne; [congruence|].
  cbn [am_final]. apply Forall_cons_iff in Fx as (Dx & Fx').
  sbind fresh_s. intros a s1 W1 (E1 & P1 & S1 & N1). cbv beta.
  eapply oks_bind; [apply emit_s; [auto|sd|sd|sp]|]. intros _ s2 W2 (S2 & D2 & N2). cbv beta.
  assert (Pz2 : Forall (pend s2) zs).
  { apply Forall_forall. intros w Hin. rewrite Forall_forall in Pz. specialize (Pz _ Hin).
    pose proof (pend_next _ _ _ Pz). sp. }
  assert (Fs2 : Forall (defd s2) sums) by (eapply Forall_impl; [|exact Fs]; intros; sd).
  assert (Hc2 : i0 = true \/ defd s2 c \/ zs = []) by (destruct Hc as [?|[?|?]]; auto; right; left; sd).
  destruct xs' as [|x2 xs''].
  - (* last position of x *)
    destruct zs as [|zi [|zn zs'']]; cbn [tl length Nat.add firstn].
    + sbind fresh_s. intros cout s3 W3 (E3 & P3 & S3 & N3). cbv beta.
      apply oks_ret_bind. cbn [am_final]. apply oks_ret; auto. split; [|constructor]. step_nil.
    + apply Forall_cons_iff in Pz2 as (Pzi & _). pose proof (pend_next _ _ _ Pzi) as Lzi.
      sbind fresh_s. intros cout s3 W3 (E3 & P3 & S3 & N3). cbv beta.
      eapply oks_bind; [apply am_final_add_s; [auto|sd| | |sp|auto|unfold wire in *; lia]|].
      { eapply Forall_impl; [|exact Fs2]. intros; sd. }
      { destruct Hc2 as [?|[?|?]]; [auto|right; sd|discriminate]. }
      intros _ s4 W4 (S4 & D4 & D5). cbv beta. cbn [am_final]. apply oks_ret; auto.
      split; [|constructor; [auto|constructor]].
      split; [sgn|]. split; [intros v D; sd|]. intros v P N. pose proof (pend_next _ _ _ P).
      assert (v <> zi) by (intro; apply N; cbn; auto). sfacts. sp.
    + apply Forall_cons_iff in Pz2 as (Pzi & Pz2'). apply Forall_cons_iff in Pz2' as (Pzn & _).
      apply NoDup_cons_iff in ND as (Nzi & _).
      apply oks_ret_bind.
      eapply oks_bind; [apply am_final_add_s; [auto|sd|auto| |auto|auto|]|].
      { destruct Hc2 as [?|[?|?]]; [auto|right; sd|discriminate]. }
      { intro; subst; apply Nzi; cbn; auto. }
      intros _ s4 W4 (S4 & D4 & D5). cbv beta. cbn [am_final]. apply oks_ret; auto.
      split; [|constructor; [auto|constructor; [auto|constructor]]].
      split; [sgn|]. split; [intros v D; sd|]. intros v P N. pose proof (pend_next _ _ _ P).
      assert (v <> zi /\ v <> zn) as (? & ?) by (split; intro; apply N; cbn; auto). sfacts. sp.
  - cbv iota. remember (x2 :: xs'') as xs' eqn:Exs.
    assert (Hne' : xs' <> []) by (subst xs'; discriminate).
    change (length (xn :: xs') + 1)%nat with (S (length xs' + 1)).
    destruct zs as [|zi zs'].
    + cbn [tl firstn].
      eapply oks_bind; [apply fresh_s; auto|]. intros cout s3 W3 (E3 & P3 & S3 & N3). cbv beta.
      apply oks_ret_bind.
      eapply oks_conseq; [apply IH; [auto| | sd | | constructor | constructor | right; right; reflexivity | auto]|].
      * eapply Forall_impl; [|exact Fx']. intros; sd.
      * apply Forall_tl. eapply Forall_impl; [|exact Fs2]. intros; sd.
      * cbv beta. intros _ s4 W4 (S4 & F4). rewrite firstn_nil in S4. split; [|constructor].
        step_nil.
    + cbn [tl firstn] in *.
      apply Forall_cons_iff in Pz2 as (Pzi & Pz2'). pose proof (pend_next _ _ _ Pzi) as Lzi.
      apply NoDup_cons_iff in ND as (Nzi & ND').
      eapply oks_bind; [apply fresh_s; auto|]. intros cout s3 W3 (E3 & P3 & S3 & N3). cbv beta.
      eapply oks_bind; [apply am_final_add_s; [auto|sd| | |sp|auto|unfold wire in *; lia]|].
      { eapply Forall_impl; [|exact Fs2]. intros; sd. }
      { destruct Hc2 as [?|[?|?]]; [auto|right; sd|discriminate]. }
      intros _ s4 W4 (S4 & D4 & D5). cbv beta.
      assert (Pz4 : Forall (pend s4) zs').
      { apply Forall_forall. intros w Hin. rewrite Forall_forall in Pz2'. specialize (Pz2' _ Hin).
        pose proof (pend_next _ _ _ Pz2'). assert (w <> zi) by (intro; subst; auto). sfacts. sp. }
      eapply oks_conseq; [apply IH; [auto| | sd | | exact Pz4 | exact ND' | right; left; exact D5 | auto]|].
      * eapply Forall_impl; [|exact Fx']. intros; sd.
      * apply Forall_tl. eapply Forall_impl; [|exact Fs2]. intros; sd.
      * cbv beta. intros _ s5 W5 (S5 & F5). split; [|constructor; [sd|auto]].
        split; [sgn|]. split; [intros v D; sd|]. intros v P N. pose proof (pend_next _ _ _ P).
        assert (v <> zi /\ ~ In v (firstn (length xs' + 1) zs')) as (? & ?)
          by (split; intro; apply N; cbn; auto).
        sfacts. sp.
Qed.

(* ---------- NewArrayMultiplier, every width ---------- *)
Lemma array_multiplier_s s x y z :
  wfst s -> Forall (defd s) x -> Forall (defd s) y -> Forall (pend s) z -> NoDup z ->
  (1 <= length z)%nat -> (1 <= Nat.max (length x) (length y))%nat ->
  oks (array_multiplier x y z) s
      (fun z' s' => step s s' z /\ Forall (defd s') z' /\ length z' = length z).
Proof.
  intros W Fx Fy Pz ND Hz Hm. unfold array_multiplier.
  sbind zero_pad_s. intros [x' y'] s1 W1 (S1 & Fx' & Fy' & Lx & Ly). cbn [fst snd] in *.
  cbv beta iota zeta.
  remember (firstn (length z) x') as x2 eqn:Ex2.
  remember (firstn (length z) y') as y2 eqn:Ey2.
  assert (Lx2 : length x2 = Nat.min (length z) (Nat.max (length x) (length y)))
    by (subst x2; rewrite firstn_length; lia).
  assert (Ly2 : length y2 = Nat.min (length z) (Nat.max (length x) (length y)))
    by (subst y2; rewrite firstn_length; lia).
  assert (Fx2 : Forall (defd s1) x2) by (subst x2; apply firstn_Forall'; auto).
  assert (Fy2 : Forall (defd s1) y2) by (subst y2; apply firstn_Forall'; auto).
  clear Ex2 Ey2.
  assert (Pz1 : Forall (pend s1) z) by (eapply (Forall_pend_step ninp); eauto).
  destruct z as [|z0 zt]; [cbn in Hz; lia|].
  pose proof Pz1 as Pz1'. apply Forall_cons_iff in Pz1' as (Pz0 & Pzt).
  pose proof ND as ND0. apply NoDup_cons_iff in ND0 as (Nz0 & NDt).
  cbn [nth].
  eapply oks_bind with (P := fun _ s' => step s1 s' [z0] /\ defd s' z0 /\ next s' = next s1).
  { destruct (Nat.eqb (length x2) 1); (apply emit_s; [auto|apply defd_nth; auto|apply defd_nth; auto|exact Pz0]). }
Abort.

End A.
