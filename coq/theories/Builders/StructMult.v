(* StructMult.v — structural lemmas (single assignment, defined before use) for
   NewArrayMultiplier (every width), the Karatsuba multiplier and NewMultiplier
   under the Yao target, and the theorems about the EVALUATED circuits. *)
From Coq Require Import NArith List Bool Arith Lia.
From Mpc Require Import Builders.Emit Builders.EmitProof Builders.StructProof Builders.StructAdder
  Builders.StructArith Builders.Adder Builders.Sub Builders.Mult Builders.MultProof Builders.KaratsubaProof.
Import ListNotations.
Open Scope N_scope.

(* ---------- list helpers ---------- *)
Lemma firstn_add_skipn {A} a b : forall (l : list A),
  firstn (a + b) l = firstn a l ++ firstn b (skipn a l).
Proof.
  induction a; intros [|x l]; cbn; auto.
  - destruct b; reflexivity.
  - f_equal. apply IHa.
Qed.

Lemma NoDup_app_disj {A} (l1 l2 : list A) : NoDup (l1 ++ l2) -> forall w, In w l1 -> ~ In w l2.
Proof.
  induction l1 as [|a l1 IH]; cbn; intros H w; [tauto|]. inversion H; subst.
  intros [E|I]; [subst; intro; apply H2, in_or_app; auto | apply IH; auto].
Qed.

Lemma NoDup_app_r {A} (l1 l2 : list A) : NoDup (l1 ++ l2) -> NoDup l2.
Proof. induction l1 as [|a l1 IH]; cbn; auto. intros H. inversion H; auto. Qed.

Lemma Forall_tl {A} (P : A -> Prop) l : Forall P l -> Forall P (tl l).
Proof. intros F. destruct l; cbn; auto. inversion F; auto. Qed.

Lemma length_tl {A} (l : list A) : length (tl l) = (length l - 1)%nat.
Proof. destruct l; cbn; lia. Qed.

Section A.
Variable ninp : N.
Notation defd := (defd ninp). Notation pend := (pend ninp). Notation wfst := (wfst ninp).
Notation step := (step ninp). Notation oks := (@oks ninp _).

Lemma oks_ret_bind {X Y} (a : X) (f : X -> M Y) s (Q : Y -> st -> Prop) :
  oks (f a) s Q -> oks (bind (ret a) f) s Q.
Proof. intros (b & s' & E & H). exists b, s'. split; auto. Qed.

Lemma defd_nth s l k : wfst s -> Forall (defd s) l -> defd s (nth k l 0).
Proof.
  intros W F. destruct (nth_in_or_default k l 0) as [H|H].
  - rewrite Forall_forall in F; auto.
  - rewrite H. apply defd_zero_const; auto.
Qed.

(* step with no destination: only fresh wires were written *)
Ltac step_nil :=
  split; [sgn|]; split; [intros ?v ?D; sd|];
  let v := fresh "v" in let P := fresh "P" in let N := fresh "N" in
  intros v P N; pose proof (pend_next _ _ _ P); sfacts; sp.

(* ---------- AND rows ---------- *)
Lemma am_ands_s : forall xs yj s, wfst s -> Forall (defd s) xs -> defd s yj ->
  oks (am_ands xs yj) s (fun r s' => step s s' [] /\ Forall (defd s') r /\ length r = length xs).
Proof.
  induction xs as [|xn xs IH]; intros yj s W Fx Dy; cbn [am_ands].
  - apply oks_ret; auto. split; [apply step_refl|]. split; [constructor|reflexivity].
  - apply Forall_cons_iff in Fx as (Dx & Fx').
    sbind fresh_s. intros w s1 W1 (E1 & P1 & S1 & N1). cbv beta.
    eapply oks_bind; [apply emit_s; [auto|sd|sd|sp]|]. intros _ s2 W2 (S2 & D2 & N2). cbv beta.
    eapply oks_bind; [apply IH; [auto| eapply Forall_defd_step; [exact S2|eapply Forall_defd_step; eauto] | sd]|].
    intros r s3 W3 (S3 & F3 & L3). cbv beta.
    apply oks_ret; auto. split; [|split].
    + step_nil.
    + constructor; [sd|auto].
    + cbn. congruence.
Qed.

Lemma am_row0_s : forall xs y0 s, wfst s -> Forall (defd s) xs -> defd s y0 ->
  oks (am_row0 xs y0) s (fun r s' => step s s' [] /\ Forall (defd s') r /\ length r = length xs).
Proof.
  induction xs as [|xn xs IH]; intros yj s W Fx Dy; cbn [am_row0].
  - apply oks_ret; auto. split; [apply step_refl|]. split; [constructor|reflexivity].
  - apply Forall_cons_iff in Fx as (Dx & Fx').
    sbind fresh_s. intros w s1 W1 (E1 & P1 & S1 & N1). cbv beta.
    eapply oks_bind; [apply emit_s; [auto|sd|sd|sp]|]. intros _ s2 W2 (S2 & D2 & N2). cbv beta.
    eapply oks_bind; [apply IH; [auto| eapply Forall_defd_step; [exact S2|eapply Forall_defd_step; eauto] | sd]|].
    intros r s3 W3 (S3 & F3 & L3). cbv beta.
    apply oks_ret; auto. split; [|split].
    + step_nil.
    + constructor; [sd|auto].
    + cbn. congruence.
Qed.

(* ---------- "compute next sums": fresh sum and carry wires ---------- *)
Lemma am_sums_s : forall ands sums c s,
  wfst s -> Forall (defd s) ands -> Forall (defd s) sums -> defd s c ->
  oks (am_sums ands sums c) s
      (fun p s' => step s s' [] /\ Forall (defd s') (fst p) /\ defd s' (snd p) /\
                   length (fst p) = length ands).
Proof.
  induction ands as [|a ands IH]; intros sums c s W Fa Fs Dc; cbn [am_sums].
  - apply oks_ret; auto. cbn. split; [apply step_refl|]. auto.
  - apply Forall_cons_iff in Fa as (Da & Fa').
    sbind fresh_s. intros cout s1 W1 (E1 & P1 & S1 & N1). cbv beta.
    sbind fresh_s. intros so s2 W2 (E2 & P2 & S2 & N2). cbv beta.
    eapply oks_bind with (P := fun _ s' => step s2 s' [so; cout] /\ defd s' so /\ defd s' cout).
    { destruct sums as [|si sums'].
      - eapply oks_conseq; [apply half_adder_s; [auto|sd|sd|sp|]|].
        + intros cw [= <-]. split; [sp|unfold wire in *; lia].
        + cbv beta. intros _ s3 W3 (S3 & D3 & D4). cbn [optl app] in S3. auto.
      - apply Forall_cons_iff in Fs as (Dsi & _).
        eapply oks_conseq; [apply full_adder_s; [auto|sd|sd|sd|sp|]|].
        + intros cw [= <-]. split; [sp|unfold wire in *; lia].
        + cbv beta. intros _ s3 W3 (S3 & D3 & D4). cbn [optl app] in S3. auto. }
    intros _ s3 W3 (S3 & D3 & D4). cbv beta.
    eapply oks_bind; [apply IH; [auto| | |exact D4]|].
    { eapply Forall_impl; [|exact Fa']. intros; sd. }
    { apply Forall_tl. eapply Forall_impl; [|exact Fs]. intros; sd. }
    intros [ns c'] s4 W4 (S4 & F4 & D5 & L4). cbn [fst snd] in *. cbv beta iota.
    apply oks_ret; auto. cbn [fst snd]. split; [|split; [|split]].
    + step_nil.
    + constructor; [sd|auto].
    + auto.
    + cbn. congruence.
Qed.

(* ---------- one intermediate layer: writes z[j] ---------- *)
Lemma am_layer_s s x yj zj sums :
  wfst s -> Forall (defd s) x -> (1 <= length x)%nat -> defd s yj -> pend s zj ->
  Forall (defd s) sums ->
  oks (am_layer x yj zj sums) s
      (fun sums' s' => step s s' [zj] /\ defd s' zj /\ Forall (defd s') sums' /\
                       length sums' = length x).
Proof.
  intros W Fx Lx Dy Pz Fs. unfold am_layer. pose proof (pend_next _ _ _ Pz) as Lz.
  sbind am_ands_s. intros ands s1 W1 (S1 & F1 & L1). cbv beta.
  destruct ands as [|a0 ands']; [cbn in L1; lia|].
  apply Forall_cons_iff in F1 as (Da0 & Fa').
  sbind fresh_s. intros cout s2 W2 (E2 & P2 & S2 & N2). cbv beta.
  eapply oks_bind; [apply half_adder_s; [auto|sd| |sp|]|].
  { apply defd_nth; auto. eapply Forall_impl; [|exact Fs]. intros; sd. }
  { intros cw [= <-]. split; [auto|]. sfacts. unfold wire in *. lia. }
  intros _ s3 W3 (S3 & D3 & D4). specialize (D4 _ eq_refl). cbn [optl app] in S3. cbv beta.
  eapply oks_bind; [apply am_sums_s; [auto| | |exact D4]|].
  { eapply Forall_impl; [|exact Fa']. intros; sd. }
  { apply Forall_tl. eapply Forall_impl; [|exact Fs]. intros; sd. }
  intros [ns c] s4 W4 (S4 & F4 & D5 & L4). cbn [fst snd] in *. cbv beta iota.
  apply oks_ret; auto. split; [|split; [sd|split]].
  - split; [sgn|]. split; [intros v D; sd|]. intros v P N. pose proof (pend_next _ _ _ P).
    assert (v <> zj) by (intro; apply N; cbn; auto). sfacts. sp.
  - apply Forall_app; split; auto.
  - rewrite app_length. cbn in *. lia.
Qed.

(* ---------- layers 1 .. len(y)-2: write z[1..j) ---------- *)
Lemma am_layers_s x : forall ys zs sums s,
  wfst s -> Forall (defd s) x -> (1 <= length x)%nat -> Forall (defd s) ys ->
  Forall (pend s) zs -> NoDup zs -> (length ys <= length zs)%nat -> Forall (defd s) sums ->
  oks (am_layers x ys zs sums) s
      (fun sums' s' => step s s' (firstn (length ys) zs) /\
                       Forall (defd s') (firstn (length ys) zs) /\ Forall (defd s') sums').
Proof.
  induction ys as [|yj ys IH]; intros zs sums s W Fx Lx Fy Pz ND Lz Fs; cbn [am_layers].
  - apply oks_ret; auto. cbn. split; [apply step_refl|]. split; auto.
  - destruct zs as [|zj zs]; [cbn in Lz; lia|]. cbn [nth tl length firstn] in *.
    apply Forall_cons_iff in Fy as (Dy & Fy'). apply Forall_cons_iff in Pz as (Pzj & Pz').
    apply NoDup_cons_iff in ND as (Nz & ND').
    eapply oks_bind; [apply am_layer_s; auto|]. intros sums' s1 W1 (S1 & D1 & F1 & L1). cbv beta.
    eapply oks_conseq; [apply IH; auto; try lia;
                        try (eapply Forall_defd_step; [exact S1|assumption])|].
    + eapply (Forall_pend_step ninp); [exact S1|exact Pz'|]. intros w Hin [E|[]]; subst; auto.
    + cbv beta. intros sums'' s2 W2 (S2 & F2 & F3). split; [|split; auto].
      * eapply step_weaken; [eapply step_trans; eauto|]. cbn. apply incl_refl.
      * constructor; [sd|auto].
Qed.

(* ---------- final layer ---------- *)
Lemma am_final_add_s s (i0 : bool) a sums c zi cout :
  wfst s -> defd s a -> Forall (defd s) sums -> (i0 = true \/ defd s c) ->
  pend s zi -> pend s cout -> cout <> zi ->
  oks (if i0 then half_adder a (nth 0 sums 0) zi (Some cout)
       else match sums with
            | [] => half_adder a c zi (Some cout)
            | si :: _ => full_adder a si c zi (Some cout)
            end) s
      (fun _ s' => step s s' [zi; cout] /\ defd s' zi /\ defd s' cout).
Proof.
  intros W Da Fs Hc Pz Pc Nc.
  assert (HC : forall cw, Some cout = Some cw -> pend s cw /\ cw <> zi) by (intros cw [= <-]; auto).
  destruct i0.
  - eapply oks_conseq; [apply half_adder_s; auto; apply defd_nth; auto|].
    cbv beta. intros _ s1 W1 (S1 & D1 & D2). cbn [optl app] in S1. auto.
  - destruct Hc as [Hc|Dc]; [discriminate|]. destruct sums as [|si sums'].
    + eapply oks_conseq; [apply half_adder_s; auto|].
      cbv beta. intros _ s1 W1 (S1 & D1 & D2). cbn [optl app] in S1. auto.
    + apply Forall_cons_iff in Fs as (Dsi & _).
      eapply oks_conseq; [apply full_adder_s; auto|].
      cbv beta. intros _ s1 W1 (S1 & D1 & D2). cbn [optl app] in S1. auto.
Qed.

(* The final layer writes zs[0 .. len xs - 1] and, if it exists, zs[len xs] (the
   last carry).  Invariant for the incoming carry c: it is defined, or this is
   position 0 (c unused), or the destinations have run out (zs = []: no adder is
   emitted any more, so the never-driven fresh carry wire is not read). *)
Lemma am_final_s : forall xs i0 yj sums zs c s,
  wfst s -> Forall (defd s) xs -> defd s yj -> Forall (defd s) sums ->
  Forall (pend s) zs -> NoDup zs ->
  (i0 = true \/ defd s c \/ zs = []) -> xs <> [] ->
  oks (am_final i0 xs yj sums zs c) s
      (fun _ s' => step s s' (firstn (length xs + 1) zs) /\
                   Forall (defd s') (firstn (length xs + 1) zs)).
Proof.
  induction xs as [|xn xs' IH]; intros i0 yj sums zs c s W Fx Dy Fs Pz ND Hc Hne; [congruence|].
  cbn [am_final]. apply Forall_cons_iff in Fx as (Dx & Fx').
  sbind fresh_s. intros a s1 W1 (E1 & P1 & S1 & N1). cbv beta.
  eapply oks_bind; [apply emit_s; [auto|sd|sd|sp]|]. intros _ s2 W2 (S2 & D2 & N2). cbv beta.
  assert (Pz2 : Forall (pend s2) zs).
  { apply Forall_forall. intros w Hin. rewrite Forall_forall in Pz. specialize (Pz _ Hin).
    pose proof (pend_next _ _ _ Pz). sp. }
  assert (Fs2 : Forall (defd s2) sums) by (eapply Forall_impl; [|exact Fs]; intros; sd).
  assert (Hc2 : i0 = true \/ defd s2 c \/ zs = []) by (destruct Hc as [?|[?|?]]; auto; right; left; sd).
  destruct xs' as [|x2 xs''].
  - (* last position of x *)
    destruct zs as [|zi [|zn zs'']]; cbn [tl length Nat.add firstn].
    + sbind fresh_s. intros cout s3 W3 (E3 & P3 & S3 & N3). cbv beta.
      apply oks_ret_bind. cbn [am_final]. apply oks_ret; auto. split; [|constructor]. step_nil.
    + apply Forall_cons_iff in Pz2 as (Pzi & _). pose proof (pend_next _ _ _ Pzi) as Lzi.
      sbind fresh_s. intros cout s3 W3 (E3 & P3 & S3 & N3). cbv beta.
      eapply oks_bind; [apply am_final_add_s; [auto|sd| | |sp|auto|unfold wire in *; lia]|].
      { eapply Forall_impl; [|exact Fs2]. intros; sd. }
      { destruct Hc2 as [?|[?|?]]; [auto|right; sd|discriminate]. }
      intros _ s4 W4 (S4 & D4 & D5). cbv beta. cbn [am_final]. apply oks_ret; auto.
      split; [|constructor; [auto|constructor]].
      split; [sgn|]. split; [intros v D; sd|]. intros v P N. pose proof (pend_next _ _ _ P).
      assert (v <> zi) by (intro; apply N; cbn; auto). sfacts. sp.
    + apply Forall_cons_iff in Pz2 as (Pzi & Pz2'). apply Forall_cons_iff in Pz2' as (Pzn & _).
      apply NoDup_cons_iff in ND as (Nzi & _).
      apply oks_ret_bind.
      eapply oks_bind; [apply am_final_add_s; [auto|sd|auto| |auto|auto|]|].
      { destruct Hc2 as [?|[?|?]]; [auto|right; sd|discriminate]. }
      { intro; subst; apply Nzi; cbn; auto. }
      intros _ s4 W4 (S4 & D4 & D5). cbv beta. cbn [am_final]. apply oks_ret; auto.
      split; [|constructor; [auto|constructor; [auto|constructor]]].
      split; [sgn|]. split; [intros v D; sd|]. intros v P N. pose proof (pend_next _ _ _ P).
      assert (v <> zi /\ v <> zn) as (? & ?) by (split; intro; apply N; cbn; auto). sfacts. sp.
  - cbv iota. remember (x2 :: xs'') as xs' eqn:Exs.
    assert (Hne' : xs' <> []) by (subst xs'; discriminate).
    change (length (xn :: xs') + 1)%nat with (S (length xs' + 1)).
    destruct zs as [|zi zs'].
    + cbn [tl firstn].
      eapply oks_bind; [apply fresh_s; auto|]. intros cout s3 W3 (E3 & P3 & S3 & N3). cbv beta.
      apply oks_ret_bind.
      eapply oks_conseq; [apply IH; [auto| | sd | | constructor | constructor | right; right; reflexivity | auto]|].
      * eapply Forall_impl; [|exact Fx']. intros; sd.
      * apply Forall_tl. eapply Forall_impl; [|exact Fs2]. intros; sd.
      * cbv beta. intros _ s4 W4 (S4 & F4). rewrite firstn_nil in S4. split; [|constructor].
        step_nil.
    + cbn [tl firstn] in *.
      apply Forall_cons_iff in Pz2 as (Pzi & Pz2'). pose proof (pend_next _ _ _ Pzi) as Lzi.
      apply NoDup_cons_iff in ND as (Nzi & ND').
      eapply oks_bind; [apply fresh_s; auto|]. intros cout s3 W3 (E3 & P3 & S3 & N3). cbv beta.
      eapply oks_bind; [apply am_final_add_s; [auto|sd| | |sp|auto|unfold wire in *; lia]|].
      { eapply Forall_impl; [|exact Fs2]. intros; sd. }
      { destruct Hc2 as [?|[?|?]]; [auto|right; sd|discriminate]. }
      intros _ s4 W4 (S4 & D4 & D5). cbv beta.
      assert (Pz4 : Forall (pend s4) zs').
      { apply Forall_forall. intros w Hin. rewrite Forall_forall in Pz2'. specialize (Pz2' _ Hin).
        pose proof (pend_next _ _ _ Pz2'). assert (w <> zi) by (intro; subst; auto). sfacts. sp. }
      eapply oks_conseq; [apply IH; [auto| | sd | | exact Pz4 | exact ND' | right; left; exact D5 | auto]|].
      * eapply Forall_impl; [|exact Fx']. intros; sd.
      * apply Forall_tl. eapply Forall_impl; [|exact Fs2]. intros; sd.
      * cbv beta. intros _ s5 W5 (S5 & F5). split; [|constructor; [sd|auto]].
        split; [sgn|]. split; [intros v D; sd|]. intros v P N. pose proof (pend_next _ _ _ P).
        assert (v <> zi /\ ~ In v (firstn (length xs' + 1) zs')) as (? & ?)
          by (split; intro; apply N; cbn; auto).
        sfacts. sp.
Qed.

(* ---------- NewArrayMultiplier, every width ---------- *)
Lemma array_multiplier_s s x y z :
  wfst s -> Forall (defd s) x -> Forall (defd s) y -> Forall (pend s) z -> NoDup z ->
  (1 <= length z)%nat -> (1 <= Nat.max (length x) (length y))%nat ->
  oks (array_multiplier x y z) s
      (fun z' s' => step s s' z /\ Forall (defd s') z' /\ length z' = length z).
Proof.
  intros W Fx Fy Pz ND Hz Hm. unfold array_multiplier.
  sbind zero_pad_s. intros [x' y'] s1 W1 (S1 & Fx' & Fy' & Lx & Ly). cbn [fst snd] in *.
  cbv beta iota zeta.
  remember (firstn (length z) x') as x2 eqn:Ex2.
  remember (firstn (length z) y') as y2 eqn:Ey2.
  assert (Lx2 : length x2 = Nat.min (length z) (Nat.max (length x) (length y)))
    by (subst x2; rewrite firstn_length; lia).
  assert (Ly2 : length y2 = Nat.min (length z) (Nat.max (length x) (length y)))
    by (subst y2; rewrite firstn_length; lia).
  assert (Fx2 : Forall (defd s1) x2) by (subst x2; apply firstn_Forall'; auto).
  assert (Fy2 : Forall (defd s1) y2) by (subst y2; apply firstn_Forall'; auto).
  clear Ex2 Ey2.
  assert (Pz1 : Forall (pend s1) z) by (eapply (Forall_pend_step ninp); eauto).
  destruct z as [|z0 zt]; [cbn in Hz; lia|].
  pose proof Pz1 as Pz1'. apply Forall_cons_iff in Pz1' as (Pz0 & Pzt).
  pose proof ND as ND0. apply NoDup_cons_iff in ND0 as (Nz0 & NDt).
  cbn [nth tl].
  destruct (Nat.eqb (length x2) 1) eqn:E1.
  - eapply oks_bind; [apply emit_s; [auto|apply defd_nth; auto|apply defd_nth; auto|exact Pz0]|].
    intros _ s2 W2 (S2 & D2 & _). cbv beta.
    eapply oks_conseq; [apply zero_tail_s; auto|].
    cbv beta. intros z' s3 W3 (S3 & Lz' & Ef & Fk). split; [|split; auto].
    + eapply step_weaken; [eapply step_trans; [exact S1|eapply step_trans; [exact S2|exact S3]]|].
      cbn. intros w [E|[]]; subst; cbn; auto.
    + rewrite <- (firstn_skipn 1 z'). apply Forall_app; split; auto. rewrite Ef. cbn.
      constructor; [sd|constructor].
  - apply Nat.eqb_neq in E1.
    remember (length y2 - 1)%nat as j eqn:Ej.
    destruct j as [|j']; [cbn [length] in *; lia|].
    replace (S j' - 1)%nat with j' by lia. cbn [skipn].
    eapply oks_bind; [apply emit_s; [auto|apply defd_nth; auto|apply defd_nth; auto|exact Pz0]|].
    intros _ s2 W2 (S2 & D2 & _). cbv beta.
    eapply oks_bind; [apply am_row0_s; [auto| |]|].
    { apply Forall_tl. eapply Forall_defd_step; eauto. }
    { apply defd_nth; auto. eapply Forall_defd_step; eauto. }
    intros sums s3 W3 (S3 & F3 & _). cbv beta.
    assert (Fx3 : Forall (defd s3) x2) by (eapply Forall_impl; [|exact Fx2]; intros; sd).
    assert (Fy3 : Forall (defd s3) y2) by (eapply Forall_impl; [|exact Fy2]; intros; sd).
    assert (Pzt3 : Forall (pend s3) zt).
    { eapply (Forall_pend_step ninp); [exact S3| |auto].
      eapply (Forall_pend_step ninp); [exact S2|exact Pzt|]. intros w Hin [E|[]]; subst; auto. }
    assert (Lys : length (firstn j' (tl y2)) = j') by (rewrite firstn_length, length_tl; lia).
    eapply oks_bind; [apply am_layers_s; [auto|exact Fx3| | |exact Pzt3|exact NDt| |exact F3]|].
    { cbn [length] in *; lia. }
    { apply firstn_Forall', Forall_tl; auto. }
    { rewrite Lys. cbn [length] in *. lia. }
    rewrite Lys. intros sums' s4 W4 (S4 & F4 & F4'). cbv beta.
    assert (Pk4 : Forall (pend s4) (skipn j' zt)).
    { apply Forall_forall. intros w Hin. eapply step_pend; [exact S4| |].
      - rewrite Forall_forall in Pzt3. apply Pzt3. eapply skipn_In'; eauto.
      - intros Hf. revert Hin. eapply NoDup_app_disj; [|exact Hf]. rewrite firstn_skipn. exact NDt. }
    eapply oks_bind; [apply am_final_s; [auto| | | exact F4' | exact Pk4 | | left; reflexivity | ]|].
    { eapply Forall_defd_step; eauto. }
    { apply defd_nth; auto. eapply Forall_defd_step; eauto. }
    { rewrite <- (firstn_skipn j' zt) in NDt. eapply NoDup_app_r; eauto. }
    { intro; subst x2; cbn [length] in *; lia. }
    intros _ s5 W5 (S5 & F5). cbv beta.
    eapply oks_conseq; [apply zero_tail_s; auto|].
    cbv beta. intros z' s6 W6 (S6 & Lz' & Ef & Fk).
    assert (EK : firstn (S j' + length x2 + 1) (z0 :: zt) =
                 z0 :: firstn j' zt ++ firstn (length x2 + 1) (skipn j' zt)).
    { replace (S j' + length x2 + 1)%nat with (S (j' + (length x2 + 1))) by lia.
      cbn [firstn]. rewrite firstn_add_skipn. reflexivity. }
    split; [|split; auto].
    + eapply step_weaken;
        [eapply step_trans; [exact S1|eapply step_trans; [exact S2|eapply step_trans; [exact S3|
         eapply step_trans; [exact S4|eapply step_trans; [exact S5|exact S6]]]]]|].
      cbn [app]. rewrite app_nil_r. intros w [E|Hin]; [subst; cbn; auto|].
      right. apply in_app_or in Hin. destruct Hin as [Hin|Hin].
      * eapply firstn_In'; eauto.
      * eapply skipn_In'. eapply firstn_In'; eauto.
    + rewrite <- (firstn_skipn (S j' + length x2 + 1) z'). apply Forall_app; split; auto.
      rewrite Ef, EK. constructor; [sd|]. apply Forall_app; split.
      * eapply Forall_impl; [|exact F4]. intros; sd.
      * eapply Forall_defd_step; eauto.
Qed.

End A.

(* ---------- the evaluated array multiplier ----------
   Harness layout: x = wires 0..xw-1, y = the next yw wires, the zw destination
   wires follow the inputs.  For every target, all widths and every initial
   assignment e0: the emitted gate list is single-assignment and
   defined-before-use, and evaluating it yields the product modulo 2^zw. *)
Theorem array_multiplier_eval (tg : bool) (xw yw zw : nat) (e0 : env) :
  (1 <= Nat.max xw yw)%nat -> (1 <= zw)%nat ->
  let x := wrange 0 xw in
  let y := wrange (N.of_nat xw) yw in
  let ninp := N.of_nat xw + N.of_nat yw in
  let z := wrange ninp zw in
  exists z' s', array_multiplier x y z (st0 (ninp + N.of_nat zw) tg) = (z', s') /\
    wfc_b ninp (gates s') = true /\ dbu ninp (gates s') /\ length z' = zw /\
    valN (eval_rev (gates s') e0) z' = (valN e0 x * valN e0 y) mod 2 ^ N.of_nat zw.
Proof.
  intros Hm Hz. cbv zeta.
  destruct (layout_facts xw yw zw Hm) as (Ix & Iy & Lx & Ly & Lz & Hn & Pz & ND & W0).
  set (x := wrange 0 xw) in *. set (y := wrange (N.of_nat xw) yw) in *.
  set (ninp := N.of_nat xw + N.of_nat yw) in *. set (z := wrange ninp zw) in *.
  assert (Hz' : (1 <= length z)%nat) by lia.
  assert (Hm' : (1 <= Nat.max (length x) (length y))%nat) by lia.
  pose proof (okm_array_multiplier_gen tg x y z Hm' Hz') as Sem.
  pose proof (array_multiplier_s ninp (st0 (ninp + N.of_nat zw) tg) x y z (W0 tg)
                (Forall_defd_inputs _ _ _ Ix) (Forall_defd_inputs _ _ _ Iy) (Pz tg) ND Hz' Hm') as Str.
  destruct (run_st0 ninp _ tg _ _ _ Sem Str e0) as (z' & s' & E & C & D & _ & (Lz' & P) & I).
  exists z', s'. split; [exact E|]. split; [exact C|]. split; [exact D|]. split; [lia|].
  rewrite P, Lz.
  rewrite (valN_inputs _ e0 ninp x I Ix), (valN_inputs _ e0 ninp y I Iy). reflexivity.
Qed.

(* ---------- ShiftLeft, Karatsuba, NewMultiplier (Yao target) ---------- *)
Lemma Forall_skipn' {A} (P : A -> Prop) k (l : list A) : Forall P l -> Forall P (skipn k l).
Proof.
  intros F. apply Forall_forall. intros a H. rewrite Forall_forall in F. eapply F, skipn_In'; eauto.
Qed.

Section K.
Variable ninp : N.
Notation defd := (defd ninp). Notation pend := (pend ninp). Notation wfst := (wfst ninp).
Notation step := (step ninp). Notation oks := (@oks ninp _).

Lemma shift_left_s s w size count : wfst s -> Forall (defd s) w ->
  oks (shift_left w size count) s
      (fun r s' => step s s' [] /\ Forall (defd s') r /\ length r = size).
Proof.
  intros W F. unfold shift_left.
  assert (B : forall z s', defd s' z -> Forall (defd s') w ->
    let r := firstn size (repeat z count ++ firstn (size - count) w ++
                          repeat z (size - count - length (firstn (size - count) w))) in
    Forall (defd s') r /\ length r = size).
  { intros z s' Dz Fw. cbv zeta. split.
    - apply firstn_Forall'. apply Forall_app; split; [apply Forall_defd_repeat; auto|].
      apply Forall_app; split; [apply firstn_Forall'; auto|apply Forall_defd_repeat; auto].
    - rewrite firstn_length, !app_length, !repeat_length.
      set (lb := length (firstn (size - count) w)). lia. }
  destruct (Nat.ltb 0 count || Nat.ltb (count + length w) size).
  - sbind zero_s. intros z s1 W1 (S1 & Dz). cbv beta. apply oks_ret; auto. split; auto.
    apply B; auto. eapply Forall_defd_step; eauto.
  - apply oks_ret; auto. split; [apply step_refl|]. apply B; auto. apply defd_zero_const; auto.
Qed.

(* fresh destination vector, immediately consumed by a builder: seen from the
   starting state, only fresh wires were written *)
Lemma fresh_dest_s {Y} k (Bd : list wire -> M (list wire)) (K : list wire -> M Y) s (Q : Y -> st -> Prop) :
  wfst s ->
  (forall z s1, wfst s1 -> step s s1 [] -> Forall (pend s1) z -> NoDup z -> length z = k ->
     oks (Bd z) s1 (fun z' s' => step s1 s' z /\ Forall (defd s') z' /\ length z' = length z)) ->
  (forall z' s', wfst s' -> step s s' [] -> Forall (defd s') z' -> length z' = k -> oks (K z') s' Q) ->
  oks (bind (fresh_n k) (fun z => bind (Bd z) K)) s Q.
Proof.
  intros W HB HK. sbind fresh_n_s. intros z s1 W1 (S1 & ND & Lk & Pw). cbv beta.
  eapply oks_bind; [apply HB; auto|].
  { apply Forall_forall. intros w Hin. apply Pw; auto. }
  intros z' s2 W2 (S2 & F & L). cbv beta. apply HK; auto; [|congruence].
  split; [sgn|]. split; [intros v D; sd|]. intros v P N.
  eapply step_pend; [exact S2| eapply step_pend; [exact S1|exact P|auto] | ].
  intros Hin. destruct (Pw _ Hin) as (_ & Hge). pose proof (pend_next _ _ _ P). unfold wire in *. lia.
Qed.

Ltac fwd S :=
  match type of S with
  | StructProof.step _ ?sA ?sB _ =>
      repeat match goal with
      | H : Forall (StructProof.defd _ sA) ?l |- _ =>
          lazymatch goal with
          | _ : Forall (StructProof.defd _ sB) l |- _ => fail
          | _ => pose proof (Forall_defd_step _ _ _ _ _ S H)
          end
      end
  end.

Lemma karatsuba_s : forall fuel limit a b r s,
  gmw s = false -> (3 <= limit)%nat ->
  (S (Nat.max (length a) (length b)) <= fuel)%nat ->
  wfst s -> Forall (defd s) a -> Forall (defd s) b -> Forall (pend s) r -> NoDup r ->
  (1 <= length r)%nat -> (1 <= Nat.max (length a) (length b))%nat ->
  oks (karatsuba fuel limit a b r) s
      (fun r' s' => step s s' r /\ Forall (defd s') r' /\ length r' = length r).
Proof.
  induction fuel as [|f IH]; intros limit a b r s G HL HF W Fa Fb Pr ND Hr Hm; [lia|].
  cbn [karatsuba].
  sbind zero_pad_s. intros [a' b'] s1 W1 (S1 & Fa' & Fb' & La & Lb). cbn [fst snd] in *.
  cbv beta iota zeta.
  remember (firstn (length r) a') as a2 eqn:Ea2.
  remember (firstn (length r) b') as b2 eqn:Eb2.
  assert (Lb2 : length b2 = length a2) by (subst a2 b2; rewrite !firstn_length; lia).
  assert (La2 : length a2 = Nat.min (length r) (Nat.max (length a) (length b)))
    by (subst a2; rewrite firstn_length; lia).
  assert (Fa2 : Forall (defd s1) a2) by (subst a2; apply firstn_Forall'; auto).
  assert (Fb2 : Forall (defd s1) b2) by (subst b2; apply firstn_Forall'; auto).
  clear Ea2 Eb2.
  assert (G1 : gmw s1 = false) by (rewrite (step_gmw _ _ _ _ S1); auto).
  assert (Pr1 : Forall (pend s1) r) by (eapply (Forall_pend_step ninp); eauto).
  remember (length a2) as n eqn:En.
  destruct (Nat.leb n limit) eqn:EL.
  - eapply oks_conseq; [apply array_multiplier_s; auto; lia|].
    cbv beta. intros z' s2 W2 (S2 & F2 & L2). split; auto.
    exact (step_trans _ _ _ _ [] r S1 S2).
  - apply Nat.leb_gt in EL.
    pose proof (Nat.div_mod n 2 ltac:(lia)) as DM. pose proof (Nat.mod_upper_bound n 2 ltac:(lia)) as MB.
    remember (n / 2)%nat as mid eqn:Emid.
    remember (firstn mid a2) as aLow eqn:EaL. remember (skipn mid a2) as aHigh eqn:EaH.
    remember (firstn mid b2) as bLow eqn:EbL. remember (skipn mid b2) as bHigh eqn:EbH.
    assert (LaL : length aLow = mid) by (subst aLow; rewrite firstn_length; lia).
    assert (LbL : length bLow = mid) by (subst bLow; rewrite firstn_length; lia).
    assert (LaH : length aHigh = (n - mid)%nat) by (subst aHigh; rewrite skipn_length; lia).
    assert (LbH : length bHigh = (n - mid)%nat) by (subst bHigh; rewrite skipn_length; lia).
    assert (FaL : Forall (defd s1) aLow) by (subst aLow; apply firstn_Forall'; auto).
    assert (FbL : Forall (defd s1) bLow) by (subst bLow; apply firstn_Forall'; auto).
    assert (FaH : Forall (defd s1) aHigh) by (subst aHigh; apply Forall_skipn'; auto).
    assert (FbH : Forall (defd s1) bHigh) by (subst bHigh; apply Forall_skipn'; auto).
    clear EaL EaH EbL EbH Fa2 Fb2.
    (* z0 = aLow * bLow *)
    eapply fresh_dest_s; [exact W1| |].
    { intros z sA WA SA PA NA LA. fwd SA.
      apply IH; auto; try lia. rewrite (step_gmw _ _ _ _ SA); auto. }
    intros z0 s2 W2 S2 Fz0 Lz0. cbv beta. fwd S2.
    assert (G2 : gmw s2 = false) by (rewrite (step_gmw _ _ _ _ S2); auto).
    (* aSum, bSum *)
    eapply fresh_dest_s; [exact W2| |].
    { intros z sA WA SA PA NA LA. fwd SA.
      apply new_adder_yao_s; auto; try lia. rewrite (step_gmw _ _ _ _ SA); auto. }
    intros aSum s3 W3 S3 FaS LaS. cbv beta. fwd S3.
    assert (G3 : gmw s3 = false) by (rewrite (step_gmw _ _ _ _ S3); auto).
    eapply fresh_dest_s; [exact W3| |].
    { intros z sA WA SA PA NA LA. fwd SA.
      apply new_adder_yao_s; auto; try lia. rewrite (step_gmw _ _ _ _ SA); auto. }
    intros bSum s4 W4 S4 FbS LbS. cbv beta. fwd S4.
    assert (G4 : gmw s4 = false) by (rewrite (step_gmw _ _ _ _ S4); auto).
    (* z1 = aSum * bSum *)
    eapply fresh_dest_s; [exact W4| |].
    { intros z sA WA SA PA NA LA. fwd SA.
      apply IH; auto; try lia. rewrite (step_gmw _ _ _ _ SA); auto. }
    intros z1 s5 W5 S5 Fz1 Lz1. cbv beta. fwd S5.
    assert (G5 : gmw s5 = false) by (rewrite (step_gmw _ _ _ _ S5); auto).
    (* z2 = aHigh * bHigh *)
    eapply fresh_dest_s; [exact W5| |].
    { intros z sA WA SA PA NA LA. fwd SA.
      apply IH; auto; try lia. rewrite (step_gmw _ _ _ _ SA); auto. }
    intros z2 s6 W6 S6 Fz2 Lz2. cbv beta. fwd S6.
    assert (G6 : gmw s6 = false) by (rewrite (step_gmw _ _ _ _ S6); auto).
    (* sub1 = z1 - z2, sub2 = sub1 - z0 *)
    eapply fresh_dest_s; [exact W6| |].
    { intros z sA WA SA PA NA LA. fwd SA.
      apply new_subtractor_yao_s; auto; try lia. rewrite (step_gmw _ _ _ _ SA); auto. }
    intros sub1 s7 W7 S7 Fs1 Ls1. cbv beta. fwd S7.
    assert (G7 : gmw s7 = false) by (rewrite (step_gmw _ _ _ _ S7); auto).
    eapply fresh_dest_s; [exact W7| |].
    { intros z sA WA SA PA NA LA. fwd SA.
      apply new_subtractor_yao_s; auto; try lia. rewrite (step_gmw _ _ _ _ SA); auto. }
    intros sub2 s8 W8 S8 Fs2 Ls2. cbv beta. fwd S8.
    assert (G8 : gmw s8 = false) by (rewrite (step_gmw _ _ _ _ S8); auto).
    (* shifts *)
    eapply oks_bind; [apply shift_left_s; [exact W8|eassumption]|].
    intros shift1 s9 W9 (S9 & Fh1 & Lh1). cbv beta. fwd S9.
    eapply oks_bind; [apply shift_left_s; [exact W9|eassumption]|].
    intros shift2 s10 W10 (S10 & Fh2 & Lh2). cbv beta. fwd S10.
    assert (G10 : gmw s10 = false)
      by (rewrite (step_gmw _ _ _ _ S10), (step_gmw _ _ _ _ S9); auto).
    (* add1 = shift1 + shift2, r = add1 + z0 *)
    eapply fresh_dest_s; [exact W10| |].
    { intros z sA WA SA PA NA LA. fwd SA.
      apply new_adder_yao_s; auto; try lia. rewrite (step_gmw _ _ _ _ SA); auto. }
    intros add1 s11 W11 S11 Fd1 Ld1. cbv beta. fwd S11.
    assert (G11 : gmw s11 = false) by (rewrite (step_gmw _ _ _ _ S11); auto).
    assert (ST : step s s11 []).
    { exact (step_trans _ _ _ _ [] [] S1 (step_trans _ _ _ _ [] [] S2 (step_trans _ _ _ _ [] [] S3
             (step_trans _ _ _ _ [] [] S4 (step_trans _ _ _ _ [] [] S5 (step_trans _ _ _ _ [] [] S6
             (step_trans _ _ _ _ [] [] S7 (step_trans _ _ _ _ [] [] S8 (step_trans _ _ _ _ [] [] S9
             (step_trans _ _ _ _ [] [] S10 S11)))))))))). }
    assert (Pr11 : Forall (pend s11) r) by (eapply (Forall_pend_step ninp); eauto).
    eapply oks_conseq; [apply new_adder_yao_s; auto; lia|].
    cbv beta. intros r' s12 W12 (S12 & F12 & L12). split; auto.
    exact (step_trans _ _ _ _ [] r ST S12).
Qed.

Lemma new_multiplier_yao_s tbl thr s x y z :
  (forall k v, lookup_threshold tbl k = Some v -> (3 <= v)%nat) ->
  gmw s = false ->
  wfst s -> Forall (defd s) x -> Forall (defd s) y -> Forall (pend s) z -> NoDup z ->
  (1 <= length z)%nat -> (1 <= Nat.max (length x) (length y))%nat ->
  oks (new_multiplier tbl thr x y z) s
      (fun z' s' => step s s' z /\ Forall (defd s') z' /\ length z' = length z).
Proof.
  intros HT G W Fx Fy Pz ND Hz Hm.
  assert (HL : (3 <= (if Nat.ltb thr 8
                      then match lookup_threshold tbl (length x) with Some v => v | None => 21%nat end
                      else thr))%nat).
  { destruct (Nat.ltb thr 8) eqn:E.
    - destruct (lookup_threshold tbl (length x)) eqn:EL; [eapply HT; eauto|lia].
    - apply Nat.ltb_ge in E. lia. }
  destruct (karatsuba_s _ _ x y z s G HL (le_n _) W Fx Fy Pz ND Hz Hm) as (a & s' & E & W' & Q).
  exists a, s'. split; [|auto]. unfold new_multiplier, bind, target_gmw. rewrite G. exact E.
Qed.

End K.

(* ---------- the evaluated Karatsuba multiplier / NewMultiplier (Yao target) ---------- *)
Theorem karatsuba_eval (limit xw yw zw : nat) (e0 : env) :
  (3 <= limit)%nat -> (1 <= Nat.max xw yw)%nat -> (1 <= zw)%nat ->
  let x := wrange 0 xw in
  let y := wrange (N.of_nat xw) yw in
  let ninp := N.of_nat xw + N.of_nat yw in
  let z := wrange ninp zw in
  exists z' s', karatsuba (S (Nat.max xw yw)) limit x y z (st0 (ninp + N.of_nat zw) false) = (z', s') /\
    wfc_b ninp (gates s') = true /\ dbu ninp (gates s') /\ length z' = zw /\
    valN (eval_rev (gates s') e0) z' = (valN e0 x * valN e0 y) mod 2 ^ N.of_nat zw.
Proof.
  intros HL Hm Hz. cbv zeta.
  destruct (layout_facts xw yw zw Hm) as (Ix & Iy & Lx & Ly & Lz & Hn & Pz & ND & W0).
  set (x := wrange 0 xw) in *. set (y := wrange (N.of_nat xw) yw) in *.
  set (ninp := N.of_nat xw + N.of_nat yw) in *. set (z := wrange ninp zw) in *.
  assert (Hz' : (1 <= length z)%nat) by lia.
  assert (Hm' : (1 <= Nat.max (length x) (length y))%nat) by lia.
  assert (HF : (S (Nat.max (length x) (length y)) <= S (Nat.max xw yw))%nat) by lia.
  pose proof (okm_karatsuba (S (Nat.max xw yw)) limit x y z HL HF Hm' Hz') as Sem.
  pose proof (karatsuba_s ninp (S (Nat.max xw yw)) limit x y z (st0 (ninp + N.of_nat zw) false)
                eq_refl HL HF (W0 false)
                (Forall_defd_inputs _ _ _ Ix) (Forall_defd_inputs _ _ _ Iy) (Pz false) ND Hz' Hm') as Str.
  destruct (run_st0 ninp _ false _ _ _ Sem Str e0) as (z' & s' & E & C & D & _ & (Lz' & P) & I).
  exists z', s'. split; [exact E|]. split; [exact C|]. split; [exact D|]. split; [lia|].
  rewrite P, Lz.
  rewrite (valN_inputs _ e0 ninp x I Ix), (valN_inputs _ e0 ninp y I Iy). reflexivity.
Qed.

Theorem new_multiplier_yao_eval (thr xw yw zw : nat) (e0 : env) :
  (1 <= Nat.max xw yw)%nat -> (1 <= zw)%nat ->
  let x := wrange 0 xw in
  let y := wrange (N.of_nat xw) yw in
  let ninp := N.of_nat xw + N.of_nat yw in
  let z := wrange ninp zw in
  exists z' s', new_multiplier Mpc.Gen.Thresholds.multiplierArrayTresholds thr x y z
                  (st0 (ninp + N.of_nat zw) false) = (z', s') /\
    wfc_b ninp (gates s') = true /\ dbu ninp (gates s') /\ length z' = zw /\
    valN (eval_rev (gates s') e0) z' = (valN e0 x * valN e0 y) mod 2 ^ N.of_nat zw.
Proof.
  intros Hm Hz. cbv zeta.
  destruct (layout_facts xw yw zw Hm) as (Ix & Iy & Lx & Ly & Lz & Hn & Pz & ND & W0).
  set (x := wrange 0 xw) in *. set (y := wrange (N.of_nat xw) yw) in *.
  set (ninp := N.of_nat xw + N.of_nat yw) in *. set (z := wrange ninp zw) in *.
  assert (Hz' : (1 <= length z)%nat) by lia.
  assert (Hm' : (1 <= Nat.max (length x) (length y))%nat) by lia.
  pose proof (okm_new_multiplier_yao_shipped thr x y z Hm' Hz') as Sem.
  pose proof (new_multiplier_yao_s ninp Mpc.Gen.Thresholds.multiplierArrayTresholds thr
                (st0 (ninp + N.of_nat zw) false) x y z thresholds_ge_3 eq_refl (W0 false)
                (Forall_defd_inputs _ _ _ Ix) (Forall_defd_inputs _ _ _ Iy) (Pz false) ND Hz' Hm') as Str.
  destruct (run_st0 ninp _ false _ _ _ Sem Str e0) as (z' & s' & E & C & D & _ & (Lz' & P) & I).
  exists z', s'. split; [exact E|]. split; [exact C|]. split; [exact D|]. split; [lia|].
  rewrite P, Lz.
  rewrite (valN_inputs _ e0 ninp x I Ix), (valN_inputs _ e0 ninp y I Iy). reflexivity.
Qed.
