(* BitwiseProof.v — NewBinaryAND / NewBinaryOR / NewBinaryXOR / NewBinaryClear
   (Bitwise.v) compute N.land / N.lor / N.lxor / N.ldiff of the zero padded
   operands, truncated to the width of the result, for every width and both
   targets. *)
From Coq Require Import NArith List Bool Arith Lia.
From Mpc Require Import Builders.Emit Builders.EmitProof Builders.Bitwise.
Import ListNotations.
Open Scope N_scope.

(* ---------- bit lists ---------- *)
Fixpoint zipb (op : bool -> bool -> bool) (a b : list bool) : list bool :=
  match a, b with
  | ai :: a', bi :: b' => op ai bi :: zipb op a' b'
  | _, _ => []
  end.

(* bs zero extended to n bits (unchanged when already that long) *)
Definition padb (bs : list bool) (n : nat) : list bool := bs ++ repeat false (n - length bs).

Lemma padb_length bs n : length (padb bs n) = Nat.max n (length bs).
Proof. unfold padb. rewrite app_length, repeat_length. lia. Qed.

Lemma pad_bits e ws x n : pad_shape ws x n -> pad_zero e ws x -> map e ws = padb (map e x) n.
Proof.
  intros (zw & ->) Z. unfold pad_zero in Z.
  rewrite skipn_app, Nat.sub_diag, skipn_all in Z. cbn in Z.
  unfold padb. rewrite map_app, map_length. f_equal.
  remember (n - length x)%nat as k. clear Heqk.
  induction k; cbn; [reflexivity|]. f_equal.
  - apply Z. cbn. auto.
  - apply IHk. intros w H. apply Z. cbn. auto.
Qed.

(* ---------- N.land & co. on LSB-first bit lists ---------- *)
Definition bitop_spec (op : bool -> bool -> bool) (Nop : N -> N -> N) : Prop :=
  forall a b n, N.testbit (Nop a b) n = op (N.testbit a n) (N.testbit b n).

Lemma Nop_double op Nop : bitop_spec op Nop ->
  forall b c a d, Nop (N.b2n b + 2 * a) (N.b2n c + 2 * d) = N.b2n (op b c) + 2 * Nop a d.
Proof.
  intros S b c a d. apply N.bits_inj. intros n.
  rewrite S, !(N.add_comm (N.b2n _)).
  destruct n as [|p] using N.peano_ind.
  - rewrite !N.testbit_0_r. reflexivity.
  - rewrite !N.testbit_succ_r, S. reflexivity.
Qed.

Lemma Nop_00 op Nop : bitop_spec op Nop -> op false false = false -> Nop 0 0 = 0.
Proof.
  intros S H. apply N.bits_inj. intros n. rewrite S, N.bits_0. exact H.
Qed.

Lemma to_N_zipb op Nop : bitop_spec op Nop -> op false false = false ->
  forall a b, length a = length b -> to_N (zipb op a b) = Nop (to_N a) (to_N b).
Proof.
  intros S H0. induction a as [|ai a IH]; intros [|bi b] L; try discriminate.
  - cbn. symmetry. apply (Nop_00 op Nop S H0).
  - cbn [zipb to_N]. rewrite IH by (cbn in L; lia). symmetry. apply (Nop_double op Nop S).
Qed.

Lemma Nop_mod op Nop : bitop_spec op Nop -> op false false = false ->
  forall a b k, Nop (a mod 2 ^ k) (b mod 2 ^ k) = Nop a b mod 2 ^ k.
Proof.
  intros S H0 a b k. apply N.bits_inj. intros n. rewrite S.
  destruct (N.lt_ge_cases n k) as [L|L].
  - rewrite !N.mod_pow2_bits_low by exact L. rewrite S. reflexivity.
  - rewrite !N.mod_pow2_bits_high by exact L. exact H0.
Qed.

Lemma land_bitop : bitop_spec andb N.land.
Proof. intros a b n. apply N.land_spec. Qed.
Lemma lor_bitop : bitop_spec orb N.lor.
Proof. intros a b n. apply N.lor_spec. Qed.
Lemma lxor_bitop : bitop_spec xorb N.lxor.
Proof. intros a b n. apply N.lxor_spec. Qed.
Definition andnb (a b : bool) : bool := a && negb b.
Lemma ldiff_bitop : bitop_spec andnb N.ldiff.
Proof. intros a b n. apply N.ldiff_spec. Qed.

(* the double-step equations, for the record *)
Lemma land_double b c a d :
  N.land (N.b2n b + 2 * a) (N.b2n c + 2 * d) = N.b2n (b && c) + 2 * N.land a d.
Proof. apply (Nop_double andb N.land land_bitop). Qed.
Lemma lor_double b c a d :
  N.lor (N.b2n b + 2 * a) (N.b2n c + 2 * d) = N.b2n (b || c) + 2 * N.lor a d.
Proof. apply (Nop_double orb N.lor lor_bitop). Qed.
Lemma lxor_double b c a d :
  N.lxor (N.b2n b + 2 * a) (N.b2n c + 2 * d) = N.b2n (xorb b c) + 2 * N.lxor a d.
Proof. apply (Nop_double xorb N.lxor lxor_bitop). Qed.
Lemma ldiff_double b c a d :
  N.ldiff (N.b2n b + 2 * a) (N.b2n c + 2 * d) = N.b2n (b && negb c) + 2 * N.ldiff a d.
Proof. apply (Nop_double andnb N.ldiff ldiff_bitop). Qed.

(* ---------- the loop ---------- *)
Lemma okm_bitwise_loop t f op :
  (forall a b o, okm t (f a b o) (fun _ e => e o = op (e a) (e b))) ->
  forall x y r, length x = length r -> length y = length r ->
  okm t (bitwise_loop f x y r) (fun _ e => map e r = zipb op (map e x) (map e y)).
Proof.
  intros Hf. induction x as [|xi x IH]; intros y r Lx Ly.
  - destruct r; try discriminate. destruct y; try discriminate.
    cbn. apply okm_ret. reflexivity.
  - destruct r as [|ri r]; try discriminate. destruct y as [|yi y]; try discriminate.
    cbn [bitwise_loop]. mstep (Hf xi yi ri).
    eapply okm_weaken; [apply IH; cbn in *; lia|].
    cbn. intros _ e H H1. rewrite H, H1. reflexivity.
Qed.

(* core: the result bits are the op of the first [length r] bits of the padded operands *)
Lemma okm_bitwise_core t f op x y r :
  (forall a b o, okm t (f a b o) (fun _ e => e o = op (e a) (e b))) ->
  (length r <= Nat.max (length x) (length y))%nat ->
  okm t (bitwise f x y r)
      (fun _ e => exists x' y',
           let mx := Nat.max (length x) (length y) in
           pad_shape x' x mx /\ pad_shape y' y mx /\ pad_zero e x' x /\ pad_zero e y' y /\
           map e r = zipb op (map e (firstn (length r) x')) (map e (firstn (length r) y'))).
Proof.
  intros Hf Lr. unfold bitwise.
  pstep okp_zero_pad. destruct a as [x' y']. cbn [fst snd] in *. destruct H as [Sx Sy].
  pose proof (pad_shape_len _ _ _ Sx) as Lx. pose proof (pad_shape_len _ _ _ Sy) as Ly.
  eapply okm_weaken; [apply (okm_bitwise_loop t f op Hf); rewrite firstn_length; lia|].
  cbn. intros _ e H [Zx Zy]. exists x', y'. auto.
Qed.

(* bit-list form: exact for every width *)
Theorem okm_bitwise_bits t f op x y r :
  (forall a b o, okm t (f a b o) (fun _ e => e o = op (e a) (e b))) ->
  (length r <= Nat.max (length x) (length y))%nat ->
  okm t (bitwise f x y r)
      (fun _ e => let mx := Nat.max (length x) (length y) in
                  map e r = zipb op (firstn (length r) (padb (map e x) mx))
                                    (firstn (length r) (padb (map e y) mx))).
Proof.
  intros Hf Lr. eapply okm_weaken; [apply (okm_bitwise_core t f op x y r Hf Lr)|].
  cbn. intros _ e (x' & y' & Sx & Sy & Zx & Zy & H).
  rewrite H, <- !firstn_map, (pad_bits e x' x _ Sx Zx), (pad_bits e y' y _ Sy Zy). reflexivity.
Qed.

(* numeric form *)
Theorem okm_bitwise_N t f op Nop x y r :
  bitop_spec op Nop -> op false false = false ->
  (forall a b o, okm t (f a b o) (fun _ e => e o = op (e a) (e b))) ->
  (length r <= Nat.max (length x) (length y))%nat ->
  okm t (bitwise f x y r)
      (fun _ e => valN e r = Nop (valN e x) (valN e y) mod 2 ^ N.of_nat (length r)).
Proof.
  intros S H0 Hf Lr. eapply okm_weaken; [apply (okm_bitwise_core t f op x y r Hf Lr)|].
  cbn. intros _ e (x' & y' & Sx & Sy & Zx & Zy & H).
  pose proof (pad_shape_len _ _ _ Sx) as Lx. pose proof (pad_shape_len _ _ _ Sy) as Ly.
  unfold valN at 1. rewrite H, (to_N_zipb op Nop S H0).
  - fold (valN e (firstn (length r) x')). fold (valN e (firstn (length r) y')).
    rewrite !valN_firstn, (pad_val e x' x _ Sx Zx), (pad_val e y' y _ Sy Zy).
    apply (Nop_mod op Nop S H0).
  - rewrite !map_length, !firstn_length. lia.
Qed.

Theorem okm_bitwise_N_full t f op Nop x y r :
  bitop_spec op Nop -> op false false = false ->
  (forall a b o, okm t (f a b o) (fun _ e => e o = op (e a) (e b))) ->
  length r = Nat.max (length x) (length y) ->
  okm t (bitwise f x y r) (fun _ e => valN e r = Nop (valN e x) (valN e y)).
Proof.
  intros S H0 Hf Lr.
  eapply okm_weaken; [apply (okm_bitwise_N t f op Nop x y r S H0 Hf); lia|].
  cbn. intros _ e H. rewrite H, <- (Nop_mod op Nop S H0), !valN_small by lia. reflexivity.
Qed.

(* ---------- the per-bit gates ---------- *)
Lemma okm_and_gate t a b o : okm t (emit AND a b o) (fun _ e => e o = e a && e b).
Proof. apply okm_emit. Qed.
Lemma okm_xor_gate t a b o : okm t (emit XOR a b o) (fun _ e => e o = xorb (e a) (e b)).
Proof. apply okm_emit. Qed.
Lemma okm_clear_gate t a b o :
  okm t (w <- fresh;; cc_inv b w;; emit AND a w o) (fun _ e => e o = andnb (e a) (e b)).
Proof.
  mstep okm_fresh. mstep okm_cc_inv.
  eapply okm_weaken; [apply okm_emit|]. cbn. intros _ e H H1 _. rewrite H, H1. reflexivity.
Qed.

(* ---------- NewBinaryAND ---------- *)
Theorem okm_binary_and t x y r :
  length r = Nat.max (length x) (length y) ->
  okm t (binary_and x y r) (fun _ e => valN e r = N.land (valN e x) (valN e y)).
Proof.
  intros L. apply (okm_bitwise_N_full t _ andb N.land x y r land_bitop eq_refl (okm_and_gate t) L).
Qed.

Theorem okm_binary_and_trunc t x y r :
  (length r <= Nat.max (length x) (length y))%nat ->
  okm t (binary_and x y r)
      (fun _ e => valN e r = N.land (valN e x) (valN e y) mod 2 ^ N.of_nat (length r)).
Proof.
  intros L. apply (okm_bitwise_N t _ andb N.land x y r land_bitop eq_refl (okm_and_gate t) L).
Qed.

Theorem okm_binary_and_bits t x y r :
  (length r <= Nat.max (length x) (length y))%nat ->
  okm t (binary_and x y r)
      (fun _ e => let mx := Nat.max (length x) (length y) in
                  map e r = zipb andb (firstn (length r) (padb (map e x) mx))
                                      (firstn (length r) (padb (map e y) mx))).
Proof. intros L. apply (okm_bitwise_bits t _ andb x y r (okm_and_gate t) L). Qed.

(* ---------- NewBinaryOR ---------- *)
Theorem okm_binary_or t x y r :
  length r = Nat.max (length x) (length y) ->
  okm t (binary_or x y r) (fun _ e => valN e r = N.lor (valN e x) (valN e y)).
Proof.
  intros L. apply (okm_bitwise_N_full t _ orb N.lor x y r lor_bitop eq_refl (okm_cc_or t) L).
Qed.

Theorem okm_binary_or_trunc t x y r :
  (length r <= Nat.max (length x) (length y))%nat ->
  okm t (binary_or x y r)
      (fun _ e => valN e r = N.lor (valN e x) (valN e y) mod 2 ^ N.of_nat (length r)).
Proof.
  intros L. apply (okm_bitwise_N t _ orb N.lor x y r lor_bitop eq_refl (okm_cc_or t) L).
Qed.

Theorem okm_binary_or_bits t x y r :
  (length r <= Nat.max (length x) (length y))%nat ->
  okm t (binary_or x y r)
      (fun _ e => let mx := Nat.max (length x) (length y) in
                  map e r = zipb orb (firstn (length r) (padb (map e x) mx))
                                     (firstn (length r) (padb (map e y) mx))).
Proof. intros L. apply (okm_bitwise_bits t _ orb x y r (okm_cc_or t) L). Qed.

(* ---------- NewBinaryXOR ---------- *)
Theorem okm_binary_xor t x y r :
  length r = Nat.max (length x) (length y) ->
  okm t (binary_xor x y r) (fun _ e => valN e r = N.lxor (valN e x) (valN e y)).
Proof.
  intros L. apply (okm_bitwise_N_full t _ xorb N.lxor x y r lxor_bitop eq_refl (okm_xor_gate t) L).
Qed.

Theorem okm_binary_xor_trunc t x y r :
  (length r <= Nat.max (length x) (length y))%nat ->
  okm t (binary_xor x y r)
      (fun _ e => valN e r = N.lxor (valN e x) (valN e y) mod 2 ^ N.of_nat (length r)).
Proof.
  intros L. apply (okm_bitwise_N t _ xorb N.lxor x y r lxor_bitop eq_refl (okm_xor_gate t) L).
Qed.

Theorem okm_binary_xor_bits t x y r :
  (length r <= Nat.max (length x) (length y))%nat ->
  okm t (binary_xor x y r)
      (fun _ e => let mx := Nat.max (length x) (length y) in
                  map e r = zipb xorb (firstn (length r) (padb (map e x) mx))
                                      (firstn (length r) (padb (map e y) mx))).
Proof. intros L. apply (okm_bitwise_bits t _ xorb x y r (okm_xor_gate t) L). Qed.

(* ---------- NewBinaryClear: x AND NOT y ---------- *)
Theorem okm_binary_clear t x y r :
  length r = Nat.max (length x) (length y) ->
  okm t (binary_clear x y r) (fun _ e => valN e r = N.ldiff (valN e x) (valN e y)).
Proof.
  intros L. apply (okm_bitwise_N_full t _ andnb N.ldiff x y r ldiff_bitop eq_refl (okm_clear_gate t) L).
Qed.

Theorem okm_binary_clear_trunc t x y r :
  (length r <= Nat.max (length x) (length y))%nat ->
  okm t (binary_clear x y r)
      (fun _ e => valN e r = N.ldiff (valN e x) (valN e y) mod 2 ^ N.of_nat (length r)).
Proof.
  intros L. apply (okm_bitwise_N t _ andnb N.ldiff x y r ldiff_bitop eq_refl (okm_clear_gate t) L).
Qed.

Theorem okm_binary_clear_bits t x y r :
  (length r <= Nat.max (length x) (length y))%nat ->
  okm t (binary_clear x y r)
      (fun _ e => let mx := Nat.max (length x) (length y) in
                  map e r = zipb andnb (firstn (length r) (padb (map e x) mx))
                                       (firstn (length r) (padb (map e y) mx))).
Proof. intros L. apply (okm_bitwise_bits t _ andnb x y r (okm_clear_gate t) L). Qed.
