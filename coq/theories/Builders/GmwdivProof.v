(* GmwdivProof.v — the GMW Goldschmidt divider (NewUDividerGoldschmidtFast).

   Planned statement (DESIGN C07):
     C07_gmwdiv_correction : if the iterated quotient estimate q satisfies
        |q - floor(a/b)| <= 1 then the three-way MUX returns floor(a/b) and a mod b   (all widths)
     C07_gmwdiv_small      : the estimate is within +-1 for all widths <= 8 and all operands.
   The second statement is FALSE of the faithful model (and of the Go code): at
   width 7 the estimate for 127 / 13 is 11 = floor(127/13) + 2, and the
   correction step (q-1, q, q+1) cannot repair an error of 2.  Proved below:
   [gmw_divider_w7_refuted] (witness evaluated by vm_compute through the
   map-based evaluator, transported to eval_rev by evalm_correct /
   gmwdiv_run_eval_rev) and the finite sweep [gmw_divider_small_exact] for the
   widths 1..5 where the divider is exact for all operands with b <> 0 (bound
   in the statement; gmwdiv_run is gate-by-gate evaluation by gmwdiv_run_eval_rev).
   The correction lemma for all widths is proved in GmwCorrProof.v (with the
   exact side condition it needs); the harness oracle covers wider widths. *)
From Coq Require Import NArith List Bool Arith Lia.
From Mpc Require Import Builders.Emit Builders.EvalFast Builders.EvalFastProof Builders.Gmwdiv.
Import ListNotations.
Open Scope N_scope.

Definition wires_from (from n : nat) : list wire := map N.of_nat (seq from n).
Definition bits_of (v : N) (n : nat) : list bool := map (fun i => N.testbit v (N.of_nat i)) (seq 0 n).
Definition env_of (vals : list bool) : env := fun w => nth (N.to_nat w) vals false.

(* the divider circuit for width n: a = wires 0..n-1, b = n..2n-1, q = 2n..3n-1, r = 3n..4n-1 *)
Definition gmwdiv_gates (n : nat) : list gate :=
  gates (snd (gmw_divider (wires_from 0 n) (wires_from n n) (wires_from (2 * n) n) (wires_from (3 * n) n)
                          (st0 (N.of_nat (4 * n)) true))).

Definition gmwdiv_run (n : nat) (gs : list gate) (a b : N) : N * N :=
  let e := evalm gs (env_of (bits_of a n ++ bits_of b n)) in
  (valN e (wires_from (2 * n) n), valN e (wires_from (3 * n) n)).

(* 127 / 13 at width 7: quotient 11 (exact: 9), remainder 112 (exact: 10) *)
Lemma gmw_divider_w7_value : gmwdiv_run 7 (gmwdiv_gates 7) 127 13 = (11, 112).
Proof. vm_compute. reflexivity. Qed.

(* the map-based run is gate-by-gate evaluation (generic in the gate list) *)
Lemma gmwdiv_run_eval_rev n gs a b :
  gmwdiv_run n gs a b =
  (valN (eval_rev gs (env_of (bits_of a n ++ bits_of b n))) (wires_from (2 * n) n),
   valN (eval_rev gs (env_of (bits_of a n ++ bits_of b n))) (wires_from (3 * n) n)).
Proof. unfold gmwdiv_run. cbv zeta. rewrite !evalm_valN. reflexivity. Qed.

Theorem gmw_divider_w7_refuted :
  exists (n : nat) (a b : N),
    b <> 0 /\ a < 2 ^ N.of_nat n /\ b < 2 ^ N.of_nat n /\
    exists q r,
      (valN (eval_rev (gmwdiv_gates n) (env_of (bits_of a n ++ bits_of b n))) (wires_from (2 * n) n),
       valN (eval_rev (gmwdiv_gates n) (env_of (bits_of a n ++ bits_of b n))) (wires_from (3 * n) n))
      = (q, r) /\ q <> a / b /\ r <> a mod b.
Proof.
  exists 7%nat, 127, 13. split; [discriminate|]. split; [reflexivity|]. split; [reflexivity|].
  exists 11, 112. split.
  - rewrite <- gmwdiv_run_eval_rev. exact gmw_divider_w7_value.
  - split; vm_compute; discriminate.
Qed.

(* finite sweep: widths 1..5, all a, all b <> 0 *)
Definition gmwdiv_check (n : nat) : bool :=
  let gs := gmwdiv_gates n in
  forallb (fun a => forallb (fun b =>
      let '(q, r) := gmwdiv_run n gs (N.of_nat a) (N.of_nat b) in
      N.eqb q (N.of_nat a / N.of_nat b) && N.eqb r (N.of_nat a mod N.of_nat b))
    (seq 1 (Nat.pow 2 n - 1))) (seq 0 (Nat.pow 2 n)).

Lemma gmw_divider_small_sweep : forallb gmwdiv_check [1; 2; 3; 4; 5]%nat = true.
Proof. vm_compute. reflexivity. Qed.

Theorem gmw_divider_small_exact :
  forall n a b, In n [1; 2; 3; 4; 5]%nat ->
    (a < Nat.pow 2 n)%nat -> (1 <= b < Nat.pow 2 n)%nat ->
    gmwdiv_run n (gmwdiv_gates n) (N.of_nat a) (N.of_nat b)
    = (N.of_nat a / N.of_nat b, N.of_nat a mod N.of_nat b).
Proof.
  intros n a b Hn Ha Hb.
  pose proof gmw_divider_small_sweep as S. rewrite forallb_forall in S.
  specialize (S n Hn). unfold gmwdiv_check in S. cbv zeta in S.
  rewrite forallb_forall in S. specialize (S a (proj2 (in_seq _ _ _) (conj (Nat.le_0_l _) Ha))).
  rewrite forallb_forall in S.
  assert (Hin : In b (seq 1 (Nat.pow 2 n - 1))) by (apply in_seq; lia).
  specialize (S b Hin).
  destruct (gmwdiv_run n (gmwdiv_gates n) (N.of_nat a) (N.of_nat b)) as [q r].
  apply andb_true_iff in S. destruct S as [S1 S2].
  apply N.eqb_eq in S1, S2. congruence.
Qed.
