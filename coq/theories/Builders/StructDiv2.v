(* StructDiv2.v — structural lemmas (single assignment, defined before use) for
   NewUDividerRestoring and NewUDividerArray, for every width and both targets,
   and the theorems about the EVALUATED divider circuits. *)
From Coq Require Import NArith List Bool Arith Lia.
From Mpc Require Import Builders.Emit Builders.EmitProof Builders.StructProof Builders.StructAdder
  Builders.StructArith Builders.StructKs Builders.StructHamming Builders.StructDiv
  Builders.Adder Builders.Sub Builders.Mux Builders.Div2
  Builders.AdderProof Builders.SubProof Builders.MuxProof Builders.Div2Proof.
Import ListNotations.
Open Scope N_scope.

Lemma Forall_skipn {A} (P : A -> Prop) k : forall l, Forall P l -> Forall P (skipn k l).
Proof.
  induction k; intros [|a l] F; cbn; auto. inversion F; subst. auto.
Qed.

Section R.
Variable ninp : N.
Notation defd := (defd ninp). Notation pend := (pend ninp). Notation wfst := (wfst ninp).
Notation step := (step ninp). Notation oks := (@oks ninp _).

Lemma Forall_defd_repeat2 s z k : defd s z -> Forall (defd s) (repeat z k).
Proof. intros D. apply Forall_forall. intros w H. apply repeat_spec in H. subst. exact D. Qed.

(* ====================== NewUDividerRestoring ====================== *)

(* destination of the new partial remainder: 2n wires, new ones except (last
   iteration) positions n .. n+k-1 which are the first k wires of rret *)
Lemma nr2_s s i rret n len1 :
  wfst s -> Forall (pend s) rret -> NoDup rret -> len1 = (2 * n)%nat ->
  let k := Nat.min (length rret) n in
  oks (if Nat.eqb i 0
       then bind (fresh_n n) (fun lo => bind (fresh_n (n - k)) (fun hi =>
              ret (lo ++ firstn k rret ++ hi)))
       else fresh_n len1) s
      (fun nr s' => step s s' [] /\ Forall (pend s') nr /\ NoDup nr /\ length nr = (2 * n)%nat /\
         (forall w, In w nr -> next s <= w \/ (i = 0%nat /\ In w (firstn k rret))) /\
         (i = 0%nat -> firstn k (skipn n nr) = firstn k rret)).
Proof.
  intros W Pr ND Hl k. destruct (Nat.eqb i 0) eqn:E.
  - apply Nat.eqb_eq in E.
    sbind fresh_n_s. intros lo s1 W1 (S1 & NDlo & Llo & Plo). cbv beta.
    sbind fresh_n_s. intros hi s2 W2 (S2 & NDhi & Lhi & Phi). cbv beta.
    apply oks_ret; auto.
    assert (Lk : length (firstn k rret) = k) by (rewrite firstn_length; unfold k; lia).
    pose proof (step_next _ _ _ _ S1) as N1.
    assert (Pk : forall w, In w (firstn k rret) -> pend s w).
    { intros w H. rewrite Forall_forall in Pr. apply Pr. eapply firstn_In'; eauto. }
    split; [eapply step_weaken; [eapply step_trans; [exact S1|exact S2]|apply incl_refl]|].
    split; [|split; [|split; [|split]]].
    + apply Forall_app. split; [|apply Forall_app; split].
      * apply Forall_forall. intros w H. eapply step_pend; [exact S2|apply Plo; auto|auto].
      * apply Forall_forall. intros w H.
        eapply step_pend; [exact S2|eapply step_pend; [exact S1|apply Pk; auto|auto]|auto].
      * apply Forall_forall. intros w H. apply Phi; auto.
    + apply NoDup_app_iff'. split; [exact NDlo|]. split.
      * apply NoDup_app_iff'. split; [apply firstn_NoDup'; exact ND|]. split; [exact NDhi|].
        intros w H1 H2. pose proof (pend_next _ _ _ (Pk _ H1)). destruct (Phi _ H2). lia.
      * intros w H1 H2. destruct (Plo _ H1) as (_ & B1). apply in_app_or in H2. destruct H2 as [H2|H2].
        -- pose proof (pend_next _ _ _ (Pk _ H2)). lia.
        -- destruct (Phi _ H2) as (Q2 & B2). destruct (Plo _ H1) as (Q1 & _).
           (* lo wires are below next s1, hi wires at or above it *)
           pose proof (pend_next _ _ _ Q1). lia.
    + rewrite !app_length, Llo, Lk, Lhi. unfold k. lia.
    + intros w H. apply in_app_or in H. destruct H as [H|H]; [left; apply Plo; auto|].
      apply in_app_or in H. destruct H as [H|H]; [right; auto|].
      left. destruct (Phi _ H). lia.
    + intros _. rewrite skipn_app, Llo, Nat.sub_diag, skipn_all2 by lia. cbn [skipn app].
      rewrite firstn_app, Lk, Nat.sub_diag, firstn_firstn, Nat.min_id. cbn [firstn].
      apply app_nil_r.
  - apply Nat.eqb_neq in E.
    eapply oks_conseq; [apply fresh_n_s; auto|]. cbv beta.
    intros nr s1 W1 (S1 & NDf & Lf & Pf). split; auto. split; [|split; [auto|split; [lia|split]]].
    + apply Forall_forall. intros w Hw. apply Pf; auto.
    + intros w Hw. left. apply Pf; auto.
    + intros; contradiction.
Qed.

(* the loop of NewUDividerRestoring: destinations q[0..cnt-1] and rret[0..min(len rret, n)-1] *)
Lemma udiv_restoring_loop_s : forall cnt n d q rret r s,
  wfst s -> Forall (defd s) d -> Forall (defd s) r ->
  (1 <= n)%nat -> length r = (2 * n)%nat -> length d = (2 * n)%nat ->
  Forall (pend s) (firstn cnt q ++ rret) -> NoDup (firstn cnt q ++ rret) ->
  oks (udiv_restoring_loop cnt n d q rret r) s
      (fun _ s' => step s s' (firstn cnt q ++ rret) /\
                   (cnt <> 0%nat -> Forall (defd s') (firstn cnt q) /\
                                    Forall (defd s') (firstn (Nat.min (length rret) n) rret))).
Proof.
  induction cnt as [|i IH]; intros n d q rret r s W Fd Fr Hn Lr Ld Po ND.
  - cbn. apply oks_ret; auto.
    split; [eapply step_weaken; [apply step_refl|apply incl_nil_any]|congruence].
  - cbn [udiv_restoring_loop].
    sbind zero_s. intros z0 sa Wa (Sa & Dz0). cbv beta zeta.
    remember (z0 :: removelast r) as r1 eqn:Er1.
    assert (Lr1 : length r1 = (2 * n)%nat) by (subst r1; cbn; rewrite removelast_len; lia).
    assert (Fr1 : Forall (defd sa) r1).
    { subst r1. constructor; [auto|]. apply removelast_Forall. eapply Forall_defd_step; eauto. }
    clear Er1.
    rewrite (firstn_S_split i q) in Po, ND |- *.
    set (Qi := firstn 1 (skipn i q)) in *. set (Q := firstn i q) in *.
    apply Forall_app in Po as (PQQ & Prr). apply Forall_app in PQQ as (PQ & PQi).
    apply NoDup_app_iff' in ND as (NDQQ & NDrr & DjR).
    apply NoDup_app_iff' in NDQQ as (NDQ & NDQi & DjQ).
    assert (ND' : NoDup (Q ++ rret)).
    { apply NoDup_app_iff'. split; [auto|split; [auto|]]. intros w H. apply DjR, in_or_app; auto. }
    assert (Dj : forall w, In w Qi -> ~ In w (Q ++ rret)).
    { intros w H H'. apply in_app_or in H'. destruct H' as [H'|H'].
      - apply (DjQ w); auto.
      - apply (DjR w); auto. apply in_or_app; auto. }
    sbind fresh_n_s. intros diff0 s1 W1 (S1 & ND0 & L0 & P0). cbv beta.
    pose proof (step_trans _ _ _ _ _ _ Sa S1) as Sa1. cbn [app] in Sa1.
    eapply oks_bind; [apply new_subtractor_s; auto|].
    + eapply Forall_defd_step; [exact S1|exact Fr1].
    + eapply Forall_defd_step; [exact Sa1|exact Fd].
    + apply Forall_forall. intros w Hw. apply P0; auto.
    + lia.
    + lia.
    + intros diff s2 W2 (S2 & Fdf & Ldf). cbv beta.
      destruct (skipn_last1 diff) as (c & Ec & Ic); [lia|]. rewrite Ec.
      assert (Dc : defd s2 c) by (rewrite Forall_forall in Fdf; auto).
      assert (S02 : step s s2 []).
      { eapply step_weaken_fresh; [eapply step_trans; [exact Sa1|exact S2]|].
        cbn [app]. intros w Hw. right. destruct (P0 _ Hw) as (_ & B).
        pose proof (step_next _ _ _ _ Sa). lia. }
      eapply oks_bind; [apply (qbit_s ninp s2 c i q); auto|].
      { eapply StructArith.Forall_pend_step; [exact S02|exact PQi|auto]. }
      intros _ s3 W3 (S3 & FQ). cbv beta. fold Qi in S3, FQ.
      pose proof (step_trans _ _ _ _ _ _ S02 S3) as S03. cbn [app] in S03.
      eapply oks_bind; [apply (nr2_s s3 i rret n (length r1)); auto|].
      { eapply StructArith.Forall_pend_step; [exact S03|exact Prr|].
        intros w H H'. apply (Dj w H'). apply in_or_app; auto. }
      cbv zeta. set (k := Nat.min (length rret) n).
      intros nr s4 W4 (S4 & Pn & NDn & Ln & Hn4 & Hk). cbv beta.
      pose proof (step_trans _ _ _ _ _ _ S03 S4) as S04. rewrite app_nil_r in S04.
      eapply oks_bind; [apply new_mux_s; auto|].
      { eapply step_defd; [exact S4|]. eapply step_defd; [exact S3|exact Dc]. }
      { eapply Forall_defd_step; [exact S4|]. eapply Forall_defd_step; [exact S3|].
        eapply Forall_defd_step; [exact S2|]. eapply Forall_defd_step; [exact S1|exact Fr1]. }
      { apply firstn_Forall'. eapply Forall_defd_step; [exact S4|].
        eapply Forall_defd_step; [exact S3|auto]. }
      { rewrite firstn_length. lia. }
      intros _ s5 W5 (S5 & Fn). cbv beta.
      pose proof (step_trans _ _ _ _ _ _ S04 S5) as S05.
      assert (FQ5 : Forall (defd s5) Qi).
      { eapply Forall_defd_step; [exact S5|]. eapply Forall_defd_step; [exact S4|auto]. }
      pose proof (step_next _ _ _ _ S03) as N03.
      destruct i as [|i'].
      * (* last iteration *)
        cbn [udiv_restoring_loop]. apply oks_ret; auto. split.
        -- eapply step_weaken_fresh; [exact S05|]. intros w Hw.
           apply in_app_or in Hw. destruct Hw as [Hw|Hw].
           ++ left. apply in_or_app. left. apply in_or_app. auto.
           ++ destruct (Hn4 _ Hw) as [H|(_ & H)]; [right; lia|].
              left. apply in_or_app. right. eapply firstn_In'; eauto.
        -- intros _. split; [apply Forall_app; split; [unfold Q; constructor|exact FQ5]|].
           fold k. rewrite <- (Hk eq_refl). apply firstn_Forall', Forall_skipn. exact Fn.
      * assert (S05' : step s s5 Qi).
        { eapply step_weaken_fresh; [exact S05|]. intros w Hw.
          apply in_app_or in Hw. destruct Hw as [Hw|Hw]; [auto|].
          destruct (Hn4 _ Hw) as [H|(H & _)]; [right; lia|discriminate]. }
        eapply oks_conseq; [apply (IH n d q rret nr s5); auto|].
        -- eapply Forall_defd_step; [exact S05'|auto].
        -- eapply StructArith.Forall_pend_step; [exact S05'|apply Forall_app; split; [exact PQ|exact Prr]|].
           intros w H H'. apply (Dj w H' H).
        -- cbv beta. intros _ s6 W6 (S6 & F6). fold Q in S6, F6.
           destruct F6 as (F6q & F6r); [discriminate|]. split.
           ++ eapply step_weaken; [eapply step_trans; [exact S05'|exact S6]|].
              intros w Hw. apply in_app_or in Hw. destruct Hw as [Hw|Hw].
              ** apply in_or_app. left. apply in_or_app. auto.
              ** apply in_app_or in Hw. destruct Hw as [Hw|Hw].
                 --- apply in_or_app. left. apply in_or_app. auto.
                 --- apply in_or_app. auto.
           ++ intros _. split; [|exact F6r].
              apply Forall_app. split; [exact F6q|]. eapply Forall_defd_step; [exact S6|exact FQ5].
Qed.

(* NewUDividerRestoring: destinations q ++ rret; with n = max(len a, len b) the low
   n wires of q and of rret are driven *)
Lemma udivider_restoring_s s a b q rret :
  wfst s -> Forall (defd s) a -> Forall (defd s) b ->
  Forall (pend s) (q ++ rret) -> NoDup (q ++ rret) ->
  (1 <= Nat.max (length a) (length b))%nat ->
  oks (udivider_restoring a b q rret) s
      (fun _ s' => step s s' (q ++ rret) /\
                   Forall (defd s') (firstn (Nat.max (length a) (length b)) q) /\
                   Forall (defd s') (firstn (Nat.max (length a) (length b)) rret)).
Proof.
  intros W Fa Fb Po ND Hm. unfold udivider_restoring.
  sbind zero_pad_s. intros [a' b'] s1 W1 (S1 & Fa' & Fb' & La & Lb). cbn [fst snd] in *.
  cbv beta iota zeta.
  set (n := Nat.max (length a) (length b)) in *. rewrite La, Lb.
  replace (Nat.eqb n 0) with false by (symmetry; apply Nat.eqb_neq; lia).
  sbind zero_s. intros z s2 W2 (S2 & Dz). cbv beta.
  pose proof (step_trans _ _ _ _ _ _ S1 S2) as S02. cbn [app] in S02.
  apply Forall_app in Po as (Pq & Pr). apply NoDup_app_iff' in ND as (NDq & NDr & Dj).
  eapply oks_conseq; [apply udiv_restoring_loop_s; auto|].
  - apply Forall_app. split; [apply Forall_defd_repeat2; exact Dz|eapply Forall_defd_step; [exact S2|exact Fb']].
  - apply Forall_app. split; [eapply Forall_defd_step; [exact S2|exact Fa']|apply Forall_defd_repeat2; exact Dz].
  - rewrite app_length, repeat_length. unfold wire in *. lia.
  - rewrite app_length, repeat_length. unfold wire in *. lia.
  - eapply StructArith.Forall_pend_step; [exact S02| |auto].
    apply Forall_app. split; [apply firstn_Forall'; auto|auto].
  - apply NoDup_app_iff'. split; [apply firstn_NoDup'; auto|]. split; [auto|].
    intros w Hw. apply Dj. eapply firstn_In'; eauto.
  - cbv beta. intros _ s3 W3 (S3 & F3). split.
    + eapply step_weaken; [eapply step_trans; [exact S02|exact S3]|]. cbn [app].
      intros w Hw. apply in_app_or in Hw. apply in_or_app.
      destruct Hw as [Hw|Hw]; [left; eapply firstn_In'; eauto|auto].
    + destruct F3 as (F3q & F3r); [lia|].
      split; [exact F3q|]. rewrite firstn_min_len in F3r. exact F3r.
Qed.

End R.

(* ====================== NewUDividerArray ====================== *)
Section A.
Variable ninp : N.
Notation defd := (defd ninp). Notation pend := (pend ninp). Notation wfst := (wfst ninp).
Notation step := (step ninp). Notation oks := (@oks ninp _).

Lemma uda_binv_s : forall b s, wfst s -> Forall (defd s) b ->
  oks (uda_binv b) s (fun ws s' => step s s' [] /\ Forall (defd s') ws /\ length ws = length b).
Proof.
  induction b as [|bi b IH]; intros s W Fb; cbn [uda_binv].
  - apply oks_ret; auto. split; [apply step_refl|]. split; [constructor|reflexivity].
  - apply Forall_cons_iff in Fb as (Dbi & Fb).
    sbind fresh_s. intros w s1 W1 (E1 & P1 & S1 & N1). cbv beta.
    eapply oks_bind; [apply cc_inv_s; [exact W1 | eapply step_defd; [exact S1|exact Dbi] | exact P1]|].
    intros _ s2 W2 (S2 & D2). cbv beta.
    assert (S02 : step s s2 []).
    { eapply step_weaken_fresh; [eapply step_trans; [exact S1|exact S2]|]. cbn [app].
      intros x [<-|[]]. right. unfold wire in *. lia. }
    eapply oks_bind; [apply (IH s2 W2); eapply Forall_defd_step; [exact S02|exact Fb]|].
    intros ws s3 W3 (S3 & F3 & L3). cbv beta.
    apply oks_ret; auto. split; [|split].
    + eapply step_weaken; [eapply step_trans; [exact S02|exact S3]|apply incl_refl].
    + constructor; [eapply step_defd; [exact S3|exact D2]|exact F3].
    + cbn [length]. congruence.
Qed.

Lemma uda_adders_s : forall rin bw cin s,
  wfst s -> Forall (defd s) rin -> Forall (defd s) bw -> defd s cin -> length rin = length bw ->
  oks (uda_adders rin bw cin) s
      (fun p s' => step s s' [] /\ Forall (defd s') (fst p) /\ defd s' (snd p) /\
                   length (fst p) = length rin).
Proof.
  induction rin as [|ri rin IH]; intros bw cin s W Fr Fb Dc Hl.
  - destruct bw; [|discriminate]. cbn [uda_adders]. apply oks_ret; auto. cbn [fst snd].
    split; [apply step_refl|]. split; [constructor|]. split; auto.
  - destruct bw as [|b bw]; [discriminate|]. cbn [uda_adders].
    apply Forall_cons_iff in Fr as (Dri & Fr). apply Forall_cons_iff in Fb as (Db & Fb).
    sbind fresh_s. intros co s1 W1 (E1 & P1 & S1 & N1). cbv beta.
    sbind fresh_s. intros ro s2 W2 (E2 & P2 & S2 & N2). cbv beta.
    eapply oks_bind.
    { apply (full_adder_s ninp s2 ri b cin ro (Some co)); [exact W2 | sdb | sdb | sdb | exact P2 |].
      intros cw [= <-]. split; [eapply step_pend; [exact S2|exact P1|intros []]|].
      unfold wire in *. lia. }
    intros _ s3 W3 (S3 & D3 & Dco). cbv beta. specialize (Dco co eq_refl).
    assert (S03 : step s s3 []).
    { eapply step_weaken_fresh; [eapply step_trans; [exact S1|eapply step_trans; [exact S2|exact S3]]|].
      cbn [app optl]. intros x Hx. right. unfold wire in *.
      destruct Hx as [<-|[<-|[]]]; lia. }
    eapply oks_bind.
    { apply (IH bw co s3 W3); [eapply Forall_defd_step; [exact S03|exact Fr]
                              |eapply Forall_defd_step; [exact S03|exact Fb]|exact Dco|cbn in Hl; lia]. }
    intros [ros c] s4 W4 (S4 & F4 & D4 & L4). cbn [fst snd] in *. cbv beta iota.
    apply oks_ret; auto. cbn [fst snd]. split; [|split; [|split]].
    + eapply step_weaken; [eapply step_trans; [exact S03|exact S4]|apply incl_refl].
    + constructor; [eapply step_defd; [exact S4|exact D3]|exact F4].
    + exact D4.
    + cbn [length]. congruence.
Qed.

Lemma uda_mux_loop_s last c : forall k rout rin r s,
  wfst s -> defd s c -> Forall (defd s) rout -> Forall (defd s) rin ->
  (k <= length rout)%nat -> (k <= length rin)%nat ->
  (last = true -> Forall (pend s) (firstn k r) /\ NoDup (firstn k r)) ->
  oks (uda_mux_loop last c k rout rin r) s
      (fun res s' => step s s' (if last then firstn k r else []) /\ Forall (defd s') res /\
                     length res = k /\ (last = true -> Forall (defd s') (firstn k r))).
Proof.
  induction k as [|x IH]; intros rout rin r s W Dc Fo Fi Ho Hi Hl; cbn [uda_mux_loop].
  - apply oks_ret; auto. split; [|split; [constructor|split; [reflexivity|intros; constructor]]].
    eapply step_weaken; [apply step_refl|apply incl_nil_any].
  - eapply oks_bind with (P := fun ro s1 => step s s1 [] /\ pend s1 ro /\
        ((last = true /\ (x < length r)%nat /\ ro = nth x r 0) \/
         ((last = false \/ (length r <= x)%nat) /\ next s <= ro))).
    { destruct (last && Nat.ltb x (length r)) eqn:E.
      - apply andb_true_iff in E as (E1 & E2). apply Nat.ltb_lt in E2.
        apply oks_ret; auto. split; [apply step_refl|]. split; [|left; auto].
        destruct (Hl E1) as (Pk & _). rewrite Forall_forall in Pk. apply Pk.
        rewrite (firstn_S_split x r), firstn1_skipn_nth by lia. apply in_or_app. right. cbn. auto.
      - eapply oks_conseq; [apply fresh_s; auto|]. cbv beta. intros ro s1 W1 (E1 & P1 & S1 & N1).
        split; [exact S1|]. split; [exact P1|]. right. split; [|unfold wire in *; lia].
        apply andb_false_iff in E. destruct E as [E|E]; [left; exact E|right; apply Nat.ltb_ge in E; exact E]. }
    intros ro s1 W1 (S1 & P1 & Hro). cbv beta.
    eapply oks_bind.
    { apply (new_mux_s ninp s1 c (firstn 1 (skipn x rout)) (firstn 1 (skipn x rin)) [ro]);
        [exact W1 | sdb
        | apply firstn_Forall', Forall_skipn; eapply Forall_defd_step; [exact S1|exact Fo]
        | apply firstn_Forall', Forall_skipn; eapply Forall_defd_step; [exact S1|exact Fi]
        | constructor; [exact P1|constructor]
        | constructor; [intros []|constructor]
        | cbn [length]; rewrite !firstn_length, !skipn_length; lia]. }
    intros _ s2 W2 (S2 & F2). cbv beta.
    apply Forall_cons_iff in F2 as (Dro & _).
    pose proof (step_trans _ _ _ _ _ _ S1 S2) as S02. cbn [app] in S02.
    eapply oks_bind.
    { apply (IH rout rin r s2 W2); [sdb | eapply Forall_defd_step; [exact S02|exact Fo]
        | eapply Forall_defd_step; [exact S02|exact Fi] | lia | lia |].
      intros El. destruct (Hl El) as (Pk & NDk). rewrite (firstn_S_split x r) in Pk, NDk.
      apply Forall_app in Pk as (Pk & _). apply NoDup_app_iff' in NDk as (NDk & _ & Djk).
      split; [|exact NDk]. eapply StructArith.Forall_pend_step; [exact S02|exact Pk|].
      intros w Hw [<-|[]].
      destruct Hro as [(_ & Hx & ->)|(_ & Hge)].
      - apply (Djk _ Hw). rewrite firstn1_skipn_nth by lia. cbn. auto.
      - rewrite Forall_forall in Pk. pose proof (pend_next _ _ _ (Pk _ Hw)). unfold wire in *. lia. }
    intros lo s3 W3 (S3 & F3 & L3 & R3). cbv beta.
    pose proof (step_trans _ _ _ _ _ _ S02 S3) as S03.
    apply oks_ret; auto. split; [|split; [|split]].
    + destruct last.
      * destruct Hro as [(_ & Hx & ->)|([Hf|Hge] & Hn)]; [ | discriminate | ].
        -- eapply step_weaken; [exact S03|]. rewrite (firstn_S_split x r), firstn1_skipn_nth by lia.
           intros w Hw. cbn [app In] in Hw. destruct Hw as [<-|Hw]; apply in_or_app; [right; cbn; auto|left; exact Hw].
        -- eapply step_weaken_fresh; [exact S03|]. intros w Hw. cbn [app In] in Hw.
           destruct Hw as [<-|Hw]; [right; exact Hn|left].
           rewrite (firstn_S_split x r). apply in_or_app. left. exact Hw.
      * destruct Hro as [(Hf & _)|(_ & Hn)]; [discriminate|].
        eapply step_weaken_fresh; [exact S03|]. cbn [app]. intros w [<-|[]]. right. exact Hn.
    + apply Forall_app. split; [exact F3|constructor; [eapply step_defd; [exact S3|exact Dro]|constructor]].
    + rewrite app_length. cbn [length]. lia.
    + intros El. rewrite (firstn_S_split x r). apply Forall_app. split; [apply R3; exact El|].
      destruct Hro as [(_ & Hx & ->)|([Hf|Hge] & Hn)]; [ | congruence | ].
      * rewrite firstn1_skipn_nth by lia. constructor; [eapply step_defd; [exact S3|exact Dro]|constructor].
      * rewrite skipn_all2 by lia. constructor.
Qed.

Lemma uda_rows_s : forall ra nb binv q r rout s,
  wfst s -> Forall (defd s) ra -> Forall (defd s) binv -> Forall (defd s) rout ->
  length binv = nb -> (nb <= length rout)%nat ->
  Forall (pend s) (firstn (length ra) q ++ firstn (S nb) r) ->
  NoDup (firstn (length ra) q ++ firstn (S nb) r) ->
  oks (uda_rows ra nb binv q r rout) s
      (fun res s' => step s s' (firstn (length ra) q ++ firstn (S nb) r) /\ Forall (defd s') res /\
         (ra <> [] -> Forall (defd s') (firstn (length ra) q) /\ Forall (defd s') (firstn (S nb) r))).
Proof.
  induction ra as [|ai ra IH]; intros nb binv q r rout s W Fa Fb Fo Lb Lo Po ND.
  - cbn [uda_rows]. apply oks_ret; auto. split; [|split; [exact Fo|congruence]].
    eapply step_weaken; [apply step_refl|apply incl_nil_any].
  - cbn [uda_rows]. cbv zeta. cbn [length] in Po, ND |- *.
    set (i := length ra) in *.
    apply Forall_cons_iff in Fa as (Dai & Fa).
    rewrite (firstn_S_split i q) in Po, ND |- *.
    set (Qi := firstn 1 (skipn i q)) in *. set (Q := firstn i q) in *. set (R := firstn (S nb) r) in *.
    apply Forall_app in Po as (PQQ & Prr). apply Forall_app in PQQ as (PQ & PQi).
    apply NoDup_app_iff' in ND as (NDQQ & NDrr & DjR).
    apply NoDup_app_iff' in NDQQ as (NDQ & NDQi & DjQ).
    assert (ND' : NoDup (Q ++ R)).
    { apply NoDup_app_iff'. split; [auto|split; [auto|]]. intros w H. apply DjR, in_or_app; auto. }
    assert (Dj : forall w, In w Qi -> ~ In w (Q ++ R)).
    { intros w H H'. apply in_app_or in H'. destruct H' as [H'|H'].
      - apply (DjQ w); auto.
      - apply (DjR w); auto. apply in_or_app; auto. }
    remember (ai :: firstn nb rout) as rin eqn:Erin.
    assert (Lrin : length rin = S nb) by (subst rin; cbn [length]; rewrite firstn_length; lia).
    assert (Frin : Forall (defd s) rin) by (subst rin; constructor; [exact Dai|apply firstn_Forall'; exact Fo]).
    clear Erin.
    sbind one_s. intros cin s1 W1 (S1 & Dcin). cbv beta.
    sbind one_s. intros o s2 W2 (S2 & Do). cbv beta.
    pose proof (step_trans _ _ _ _ _ _ S1 S2) as S02. cbn [app] in S02.
    eapply oks_bind.
    { apply (uda_adders_s rin (binv ++ [o]) cin s2 W2);
        [eapply Forall_defd_step; [exact S02|exact Frin]
        |apply Forall_app; split; [eapply Forall_defd_step; [exact S02|exact Fb]|constructor; [exact Do|constructor]]
        |sdb
        |rewrite app_length; cbn [length]; lia]. }
    intros [rout1 c] s3 W3 (S3 & F3 & Dc & L3). cbn [fst snd] in *. cbv beta iota.
    pose proof (step_trans _ _ _ _ _ _ S02 S3) as S03. cbn [app] in S03.
    (* quotient bit *)
    eapply oks_bind with (P := fun _ s4 => step s3 s4 Qi /\ Forall (defd s4) Qi).
    { destruct (Nat.ltb_spec i (length q)) as [C|C].
      - assert (EQi : Qi = [nth i q 0]) by (unfold Qi; apply firstn1_skipn_nth; exact C).
        assert (Pqi : pend s3 (nth i q 0)).
        { rewrite EQi in PQi. apply Forall_cons_iff in PQi as (Pq0 & _).
          eapply step_pend; [exact S03|exact Pq0|intros []]. }
        sbind fresh_s. intros w s4 W4 (E4 & P4 & S4 & N4). cbv beta.
        eapply oks_bind; [apply cc_inv_s; [exact W4|sdb|exact P4]|].
        intros _ s5 W5 (S5 & D5). cbv beta.
        assert (S35 : step s3 s5 []).
        { eapply step_weaken_fresh; [eapply step_trans; [exact S4|exact S5]|]. cbn [app].
          intros x [<-|[]]. right. unfold wire in *. lia. }
        eapply oks_conseq; [apply cc_inv_s; [exact W5|exact D5|]|].
        + eapply step_pend; [exact S35|exact Pqi|intros []].
        + cbv beta. intros _ s6 W6 (S6 & D6). rewrite EQi. split.
          * pose proof (step_trans _ _ _ _ _ _ S35 S6) as T. cbn [app] in T. exact T.
          * constructor; [exact D6|constructor].
      - apply oks_ret; auto. unfold Qi. rewrite skipn_all2 by lia. cbn [firstn].
        split; [apply step_refl|constructor]. }
    intros _ s4 W4 (S4 & FQi). cbv beta.
    pose proof (step_trans _ _ _ _ _ _ S03 S4) as S04. cbn [app] in S04.
    replace (nb + 1)%nat with (S nb) by lia.
    assert (Prr4 : Forall (pend s4) R).
    { eapply StructArith.Forall_pend_step; [exact S04|exact Prr|].
      intros w H H'. apply (Dj w H'). apply in_or_app; auto. }
    eapply oks_bind.
    { apply (uda_mux_loop_s (Nat.eqb i 0) c (S nb) rout1 rin r s4 W4);
        [sdb | eapply Forall_defd_step; [exact S4|exact F3]
        | eapply Forall_defd_step; [exact S04|exact Frin] | lia | lia |].
      intros _. split; [exact Prr4|exact NDrr]. }
    intros rout2 s5 W5 (S5 & F5 & L5 & R5). cbv beta.
    pose proof (step_trans _ _ _ _ _ _ S04 S5) as S05.
    assert (FQi5 : Forall (defd s5) Qi) by (eapply Forall_defd_step; [exact S5|exact FQi]).
    destruct ra as [|a2 ra'].
    + (* last row *)
      cbn [uda_rows]. apply oks_ret; [exact W5|].
      split; [exact S05|split; [exact F5|]].
      intros _. split; [exact FQi5|apply R5; reflexivity].
    + assert (Ei : Nat.eqb i 0 = false) by (unfold i; reflexivity).
      rewrite Ei in S05, R5. rewrite app_nil_r in S05.
      eapply oks_conseq.
      { apply (IH nb binv q r rout2 s5 W5);
          [eapply Forall_defd_step; [exact S05|exact Fa]
          |eapply Forall_defd_step; [exact S05|exact Fb]
          |exact F5 | exact Lb | lia | |exact ND'].
        eapply StructArith.Forall_pend_step; [exact S05|apply Forall_app; split; [exact PQ|exact Prr]|].
        intros w H H'. apply (Dj w H' H). }
      cbv beta. fold i Q R. intros res s6 W6 (S6 & F6 & FR6).
      destruct FR6 as (F6q & F6r); [discriminate|]. split; [|split; [exact F6|]].
      * eapply step_weaken; [eapply step_trans; [exact S05|exact S6]|].
        intros w Hw. apply in_app_or in Hw. destruct Hw as [Hw|Hw].
        -- apply in_or_app. left. apply in_or_app. auto.
        -- apply in_app_or in Hw. destruct Hw as [Hw|Hw].
           ++ apply in_or_app. left. apply in_or_app. auto.
           ++ apply in_or_app. auto.
      * intros _. split; [|exact F6r].
        apply Forall_app. split; [exact F6q|]. eapply Forall_defd_step; [exact S6|exact FQi5].
Qed.

(* NewUDividerArray: destinations q ++ r; the returned vectors are fully driven *)
Lemma udivider_array_s s a b q r :
  wfst s -> Forall (defd s) a -> Forall (defd s) b ->
  Forall (pend s) (q ++ r) -> NoDup (q ++ r) ->
  (1 <= Nat.max (length a) (length b))%nat ->
  oks (udivider_array a b q r) s
      (fun p s' => step s s' (q ++ r) /\ Forall (defd s') (fst p) /\ Forall (defd s') (snd p)).
Proof.
  intros W Fa Fb Po ND Hm. unfold udivider_array.
  sbind zero_pad_s. intros [a' b'] s1 W1 (S1 & Fa' & Fb' & La & Lb). cbn [fst snd] in *.
  cbv beta iota.
  set (n := Nat.max (length a) (length b)) in *.
  sbind uda_binv_s. intros binv s2 W2 (S2 & Fbinv & Lbinv). cbv beta.
  pose proof (step_trans _ _ _ _ _ _ S1 S2) as S02. cbn [app] in S02.
  rewrite La, Lb.
  replace (Nat.eqb n 0) with false by (symmetry; apply Nat.eqb_neq; lia).
  eapply oks_bind with (P := fun r0 s3 => step s2 s3 [] /\ Forall (defd s3) r0 /\ length r0 = n).
  { sbind zero_s. intros z s3 W3 (S3 & Dz). cbv beta.
    apply oks_ret; [exact W3|]. split; [exact S3|]. split; [apply Forall_defd_repeat2; exact Dz|apply repeat_length]. }
  intros r0 s3 W3 (S3 & Fr0 & Lr0). cbv beta.
  pose proof (step_trans _ _ _ _ _ _ S02 S3) as S03. cbn [app] in S03.
  apply Forall_app in Po as (Pq & Pr). apply NoDup_app_iff' in ND as (NDq & NDr & Dj).
  eapply oks_bind.
  { apply (uda_rows_s (rev a') n binv q r r0 s3 W3).
    - apply Forall_forall. intros w Hw. apply in_rev in Hw. rewrite Forall_forall in Fa'.
      eapply step_defd; [exact S3|]. eapply step_defd; [exact S2|]. auto.
    - eapply Forall_defd_step; [exact S3|exact Fbinv].
    - exact Fr0.
    - unfold wire in *. lia.
    - lia.
    - eapply StructArith.Forall_pend_step; [exact S03| |auto].
      apply Forall_app. split; apply firstn_Forall'; auto.
    - apply NoDup_app_iff'. split; [apply firstn_NoDup'; auto|]. split; [apply firstn_NoDup'; auto|].
      intros w H1 H2. apply (Dj w); eapply firstn_In'; eauto. }
  intros rfin s4 W4 (S4 & Ffin & FR). cbv beta.
  destruct FR as (FRq & FRr).
  { intros E. apply (f_equal (@length wire)) in E. rewrite rev_length in E. cbn in E. unfold wire in *. lia. }
  rewrite rev_length, La in S4, FRq.
  assert (S04 : step s s4 (q ++ r)).
  { eapply step_weaken; [eapply step_trans; [exact S03|exact S4]|]. cbn [app].
    intros w Hw. apply in_app_or in Hw. apply in_or_app.
    destruct Hw as [Hw|Hw]; [left|right]; eapply firstn_In'; eauto. }
  sbind zero_tail_s. intros q' s5 W5 (S5 & Lq' & Eq' & Zq'). cbv beta.
  sbind zero_tail_s. intros r' s6 W6 (S6 & Lr' & Er' & Zr'). cbv beta.
  apply oks_ret; auto. cbn [fst snd]. split; [|split].
  - eapply step_weaken; [eapply step_trans; [exact S04|eapply step_trans; [exact S5|exact S6]]|].
    rewrite !app_nil_r. apply incl_refl.
  - rewrite <- (firstn_skipn n q'). apply Forall_app. split.
    + rewrite Eq'. eapply Forall_defd_step; [exact S6|]. eapply Forall_defd_step; [exact S5|exact FRq].
    + eapply Forall_defd_step; [exact S6|exact Zq'].
  - rewrite <- (firstn_skipn n r'). apply Forall_app. split.
    + rewrite Er'. eapply Forall_defd_step; [exact S6|]. eapply Forall_defd_step; [exact S5|].
      replace (firstn n r) with (firstn n (firstn (S n) r)) by (rewrite firstn_firstn; f_equal; lia).
      apply firstn_Forall'. exact FRr.
    + exact Zr'.
Qed.

End A.

(* ---------- the evaluated restoring divider ----------
   Harness layout: a = wires 0..aw-1, b = the next bw wires (inputs), then the
   destinations q (qw wires) and r (rw wires).  For BOTH targets, all widths
   (n = max(aw, bw) >= 1) and every initial assignment e0 — a zero divisor
   included — the emitted gate list is single-assignment and defined-before-use,
   and evaluating it gate by gate yields the quotient and the remainder. *)
Theorem udivider_restoring_eval (tg : bool) (aw bw qw rw : nat) (e0 : env) :
  (1 <= Nat.max aw bw)%nat ->
  let n := Nat.max aw bw in
  let a := wrange 0 aw in
  let b := wrange (N.of_nat aw) bw in
  let ninp := N.of_nat aw + N.of_nat bw in
  let q := wrange ninp qw in
  let r := wrange (ninp + N.of_nat qw) rw in
  let A := valN e0 a in
  let B := valN e0 b in
  exists s', udivider_restoring a b q r (st0 (ninp + N.of_nat qw + N.of_nat rw) tg) = (tt, s') /\
    wfc_b ninp (gates s') = true /\ dbu ninp (gates s') /\
    valN (eval_rev (gates s') e0) (firstn n q)
      = (if B =? 0 then 2 ^ N.of_nat n - 1 else A / B) mod 2 ^ N.of_nat qw /\
    valN (eval_rev (gates s') e0) (firstn n r)
      = (if B =? 0 then A else A mod B) mod 2 ^ N.of_nat rw.
Proof.
  intros Hn. cbv zeta.
  set (a := wrange 0 aw). set (b := wrange (N.of_nat aw) bw).
  set (ninp := N.of_nat aw + N.of_nat bw).
  set (q := wrange ninp qw). set (r := wrange (ninp + N.of_nat qw) rw).
  assert (Ia : forall w, In w a -> w < ninp) by (intros w H; apply wrange_In in H; unfold ninp; lia).
  assert (Ib : forall w, In w b -> w < ninp) by (intros w H; apply wrange_In in H; unfold ninp; lia).
  assert (La : length a = aw) by apply wrange_length.
  assert (Lb : length b = bw) by apply wrange_length.
  assert (Lq : length q = qw) by apply wrange_length.
  assert (Lr : length r = rw) by apply wrange_length.
  assert (Hm : (1 <= Nat.max (length a) (length b))%nat) by (rewrite La, Lb; exact Hn).
  pose proof (okm_udivider_restoring tg a b q r Hm) as Sem.
  assert (Str : @oks ninp unit (udivider_restoring a b q r) (st0 (ninp + N.of_nat qw + N.of_nat rw) tg)
            (fun _ s' => step ninp (st0 (ninp + N.of_nat qw + N.of_nat rw) tg) s' (q ++ r) /\
                         Forall (defd ninp s') (firstn (Nat.max (length a) (length b)) q) /\
                         Forall (defd ninp s') (firstn (Nat.max (length a) (length b)) r))).
  { apply udivider_restoring_s; auto.
    - apply wfst_st0; unfold ninp; lia.
    - apply Forall_defd_inputs; auto.
    - apply Forall_defd_inputs; auto.
    - apply Forall_pend_st0. intros w H. apply in_app_or in H.
      destruct H as [H|H]; apply wrange_In in H; unfold ninp in *; lia.
    - apply NoDup_app_iff'. split; [apply wrange_NoDup|]. split; [apply wrange_NoDup|].
      intros w H1 H2. apply wrange_In in H1. apply wrange_In in H2. unfold ninp in *. lia. }
  destruct (run_st0 ninp _ tg _ _ _ Sem Str e0) as ([] & s' & E & C & D & _ & P & I).
  exists s'. split; [exact E|]. split; [exact C|]. split; [exact D|].
  cbv zeta in P.
  rewrite (valN_inputs _ e0 ninp a I Ia), (valN_inputs _ e0 ninp b I Ib), La, Lb, Lq, Lr in P.
  exact P.
Qed.

(* ---------- the evaluated array divider ----------
   Same layout.  BOTH targets, all widths (n = max(aw, bw) >= 1), every initial
   assignment e0 (zero divisor included): single-assignment, defined-before-use,
   and the returned quotient / remainder vectors carry the exact values. *)
Theorem udivider_array_eval (tg : bool) (aw bw qw rw : nat) (e0 : env) :
  (1 <= Nat.max aw bw)%nat ->
  let n := Nat.max aw bw in
  let a := wrange 0 aw in
  let b := wrange (N.of_nat aw) bw in
  let ninp := N.of_nat aw + N.of_nat bw in
  let q := wrange ninp qw in
  let r := wrange (ninp + N.of_nat qw) rw in
  let A := valN e0 a in
  let B := valN e0 b in
  exists q' r' s',
    udivider_array a b q r (st0 (ninp + N.of_nat qw + N.of_nat rw) tg) = ((q', r'), s') /\
    wfc_b ninp (gates s') = true /\ dbu ninp (gates s') /\
    length q' = qw /\ length r' = rw /\
    valN (eval_rev (gates s') e0) q'
      = (if B =? 0 then 2 ^ N.of_nat n - 1 else A / B) mod 2 ^ N.of_nat qw /\
    valN (eval_rev (gates s') e0) r'
      = (if B =? 0 then A else A mod B) mod 2 ^ N.of_nat rw.
Proof.
  intros Hn. cbv zeta.
  set (a := wrange 0 aw). set (b := wrange (N.of_nat aw) bw).
  set (ninp := N.of_nat aw + N.of_nat bw).
  set (q := wrange ninp qw). set (r := wrange (ninp + N.of_nat qw) rw).
  assert (Ia : forall w, In w a -> w < ninp) by (intros w H; apply wrange_In in H; unfold ninp; lia).
  assert (Ib : forall w, In w b -> w < ninp) by (intros w H; apply wrange_In in H; unfold ninp; lia).
  assert (La : length a = aw) by apply wrange_length.
  assert (Lb : length b = bw) by apply wrange_length.
  assert (Lq : length q = qw) by apply wrange_length.
  assert (Lr : length r = rw) by apply wrange_length.
  assert (Hm : (1 <= Nat.max (length a) (length b))%nat) by (rewrite La, Lb; exact Hn).
  pose proof (okm_udivider_array tg a b q r Hm) as Sem.
  assert (Str : @oks ninp _ (udivider_array a b q r) (st0 (ninp + N.of_nat qw + N.of_nat rw) tg)
            (fun p s' => step ninp (st0 (ninp + N.of_nat qw + N.of_nat rw) tg) s' (q ++ r) /\
                         Forall (defd ninp s') (fst p) /\ Forall (defd ninp s') (snd p))).
  { apply udivider_array_s; auto.
    - apply wfst_st0; unfold ninp; lia.
    - apply Forall_defd_inputs; auto.
    - apply Forall_defd_inputs; auto.
    - apply Forall_pend_st0. intros w H. apply in_app_or in H.
      destruct H as [H|H]; apply wrange_In in H; unfold ninp in *; lia.
    - apply NoDup_app_iff'. split; [apply wrange_NoDup|]. split; [apply wrange_NoDup|].
      intros w H1 H2. apply wrange_In in H1. apply wrange_In in H2. unfold ninp in *. lia. }
  destruct (run_st0 ninp _ tg _ _ _ Sem Str e0) as ([q' r'] & s' & E & C & D & _ & P & I).
  exists q', r', s'. split; [exact E|]. split; [exact C|]. split; [exact D|].
  cbv zeta in P. cbn [fst snd] in P.
  rewrite (valN_inputs _ e0 ninp a I Ia), (valN_inputs _ e0 ninp b I Ib), La, Lb, Lq, Lr in P.
  exact P.
Qed.
