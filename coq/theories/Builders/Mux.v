(* Mux.v — /repo/compiler/circuits/circ_mux.go  NewMUX.  No proofs in this file. *)
From Coq Require Import NArith List Bool Arith.
From Mpc Require Import Builders.Emit.
Import ListNotations.
Open Scope monad_scope.

Fixpoint mux_loop (c : wire) (t f out : list wire) : M unit :=
  match t, f, out with
  | ti :: t', fi :: f', oi :: out' =>
      w1 <- fresh;; w2 <- fresh;;
      emit XOR fi ti w1;;
      emit AND w1 c w2;;
      emit XOR w2 fi oi;;
      mux_loop c t' f' out'
  | _, _, _ => ret tt
  end.

(* NewMUX(cc, cond, t, f, out); on a length mismatch Go returns an error and
   emits nothing (after ZeroPad) — several callers ignore that error *)
Definition new_mux (cond t f out : list wire) : M unit :=
  '(t, f) <- zero_pad t f;;
  if Nat.eqb (length cond) 1 && Nat.eqb (length t) (length out)
  then mux_loop (nth 0 cond 0%N) t f out
  else ret tt.
