(* EmitProof.v — proof library for the gate-emitting monad of Emit.v.

   Meaning of an emitted circuit.  A valuation [e : wire -> bool] is
   *consistent* with a gate list when every gate's output wire carries the
   gate function of its input wires ([sat]).  A builder specification
   [okm t m P] says: from every well-formed compiler state of target [t] the
   builder [m] returns [a] and a state whose gate list extends the old one
   (nothing already emitted is changed), and in EVERY valuation consistent with
   the new gate list the postcondition [P a e] holds.  Because gate lists only
   grow, facts established about earlier wires remain true ("never disturbs
   already-assigned wires" is built in).  [eval_rev_sat] links this to
   gate-by-gate evaluation: for a single-assignment gate list ([wfc_b]) the
   valuation computed by evaluating the gates in emission order is consistent,
   so the postcondition holds of the evaluated circuit. *)
From Coq Require Import NArith List Bool Arith Lia.
From Mpc Require Import Builders.Emit.
Import ListNotations.
Open Scope N_scope.

(* ---------- consistency ---------- *)
Lemma sat_cons e g gs : sat e (g :: gs) <-> holds e g /\ sat e gs.
Proof. unfold sat. split; intro H. inversion H; auto. destruct H; constructor; auto. Qed.

Lemma sat_app e a b : sat e (a ++ b) <-> sat e a /\ sat e b.
Proof. unfold sat. apply Forall_app. Qed.

Definition ext (s s' : st) : Prop :=
  (exists new, gates s' = new ++ gates s) /\ gmw s' = gmw s.

Lemma ext_refl s : ext s s.
Proof. split; auto. exists []. reflexivity. Qed.

Lemma ext_trans a b c : ext a b -> ext b c -> ext a c.
Proof.
  intros [[n1 H1] G1] [[n2 H2] G2]. split; [|congruence].
  exists (n2 ++ n1). rewrite H2, H1. apply app_assoc.
Qed.

Lemma sat_ext e s s' : ext s s' -> sat e (gates s') -> sat e (gates s).
Proof. intros [[n H] _] S. rewrite H in S. apply sat_app in S. tauto. Qed.

(* the lazily created constant wires mean what their names say *)
Definition wfs (s : st) : Prop :=
  forall e, sat e (gates s) ->
    (forall w, zero s = Some w -> e w = false) /\
    (forall w, one s = Some w -> e w = true) /\
    (forall w, inv0 s = Some w -> e w = negb (e 0)).

Lemma wfs_st0 n t : wfs (st0 n t).
Proof. intros e _. cbn. repeat split; intros; discriminate. Qed.

Definition okm (t : bool) {A} (m : M A) (P : A -> env -> Prop) : Prop :=
  forall s, wfs s -> gmw s = t ->
    exists a s', m s = (a, s') /\ wfs s' /\ ext s s' /\
                 (forall e, sat e (gates s') -> P a e).

Ltac ok_here := split; [reflexivity | split; [solve [auto] | split; [apply ext_refl | ]]].

Lemma okm_ret t {A} (a : A) (P : A -> env -> Prop) :
  (forall e, P a e) -> okm t (ret a) P.
Proof. intros H s W G. exists a, s. ok_here. auto. Qed.

Lemma okm_bind t {A B} (m : M A) (f : A -> M B) (P : A -> env -> Prop) (Q : B -> env -> Prop) :
  okm t m P ->
  (forall a, okm t (f a) (fun b e => P a e -> Q b e)) ->
  okm t (bind m f) Q.
Proof.
  intros Hm Hf s W G.
  destruct (Hm s W G) as (a & s1 & E1 & W1 & X1 & P1).
  assert (G1 : gmw s1 = t) by (destruct X1; congruence).
  destruct (Hf a s1 W1 G1) as (b & s2 & E2 & W2 & X2 & P2).
  exists b, s2. unfold bind. rewrite E1, E2.
  split; [reflexivity | split; [exact W2 | split; [eapply ext_trans; eauto | ]]].
  intros e S. apply P2; auto. apply P1. eapply sat_ext; eauto.
Qed.

Lemma okm_weaken t {A} (m : M A) (P Q : A -> env -> Prop) :
  okm t m P -> (forall a e, P a e -> Q a e) -> okm t m Q.
Proof.
  intros H I s W G. destruct (H s W G) as (a & s' & E & W' & X & HP).
  exists a, s'. split; [exact E | split; [exact W' | split; [exact X | ]]]. intros e S. auto.
Qed.

(* specifications with a pure part [R] about the result (lengths, shapes) that
   is available before any valuation is considered (control flow of the
   continuation may depend on it) *)
Definition okp (t : bool) {A} (m : M A) (R : A -> Prop) (P : A -> env -> Prop) : Prop :=
  forall s, wfs s -> gmw s = t ->
    exists a s', m s = (a, s') /\ wfs s' /\ ext s s' /\ R a /\
                 (forall e, sat e (gates s') -> P a e).

Lemma okp_of_okm t {A} (m : M A) P : okm t m P -> okp t m (fun _ => True) P.
Proof.
  intros H s W G. destruct (H s W G) as (a & s' & E & W' & X & HP).
  exists a, s'. split; [exact E | split; [exact W' | split; [exact X | split; [exact I | exact HP]]]].
Qed.

Lemma okm_of_okp t {A} (m : M A) R P : okp t m R P -> okm t m (fun a e => R a /\ P a e).
Proof.
  intros H s W G. destruct (H s W G) as (a & s' & E & W' & X & HR & HP).
  exists a, s'. split; [exact E | split; [exact W' | split; [exact X | ]]]. intros e S. auto.
Qed.

Lemma okp_ret t {A} (a : A) (R : A -> Prop) (P : A -> env -> Prop) :
  R a -> (forall e, P a e) -> okp t (ret a) R P.
Proof. intros HR H s W G. exists a, s. ok_here. auto. Qed.

Lemma okp_bind t {A B} (m : M A) (f : A -> M B) (R : A -> Prop) (P : A -> env -> Prop)
      (R' : B -> Prop) (Q : B -> env -> Prop) :
  okp t m R P ->
  (forall a, R a -> okp t (f a) R' (fun b e => P a e -> Q b e)) ->
  okp t (bind m f) R' Q.
Proof.
  intros Hm Hf s W G.
  destruct (Hm s W G) as (a & s1 & E1 & W1 & X1 & HR & P1).
  assert (G1 : gmw s1 = t) by (destruct X1; congruence).
  destruct (Hf a HR s1 W1 G1) as (b & s2 & E2 & W2 & X2 & HR2 & P2).
  exists b, s2. unfold bind. rewrite E1, E2.
  split; [reflexivity | split; [exact W2 | split; [eapply ext_trans; eauto | split; [exact HR2|] ]]].
  intros e S. apply P2; auto. apply P1. eapply sat_ext; eauto.
Qed.

(* bind of a pure-part specification into a plain one *)
Lemma okm_bind_p t {A B} (m : M A) (f : A -> M B) (R : A -> Prop) (P : A -> env -> Prop)
      (Q : B -> env -> Prop) :
  okp t m R P ->
  (forall a, R a -> okm t (f a) (fun b e => P a e -> Q b e)) ->
  okm t (bind m f) Q.
Proof.
  intros Hm Hf s W G.
  destruct (Hm s W G) as (a & s1 & E1 & W1 & X1 & HR & P1).
  assert (G1 : gmw s1 = t) by (destruct X1; congruence).
  destruct (Hf a HR s1 W1 G1) as (b & s2 & E2 & W2 & X2 & P2).
  exists b, s2. unfold bind. rewrite E1, E2.
  split; [reflexivity | split; [exact W2 | split; [eapply ext_trans; eauto | ]]].
  intros e S. apply P2; auto. apply P1. eapply sat_ext; eauto.
Qed.

Lemma okp_weaken t {A} (m : M A) (R R' : A -> Prop) (P Q : A -> env -> Prop) :
  okp t m R P -> (forall a, R a -> R' a) -> (forall a e, R a -> P a e -> Q a e) -> okp t m R' Q.
Proof.
  intros H I1 I2 s W G. destruct (H s W G) as (a & s' & E & W' & X & HR & HP).
  exists a, s'. split; [exact E | split; [exact W' | split; [exact X | split; [auto|] ]]].
  intros e S. auto.
Qed.

(* ---------- primitives ---------- *)
Lemma okm_fresh t : okm t fresh (fun _ _ => True).
Proof.
  intros s W G. eexists _, _. split; [reflexivity|]. cbn.
  split; [exact W | split; [|auto]]. split; auto. exists []. reflexivity.
Qed.

Lemma okm_emit t op a b o :
  okm t (emit op a b o) (fun _ e => e o = gsem op (e a) (e b)).
Proof.
  intros s W G. eexists _, _. split; [reflexivity|]. cbn.
  split; [|split].
  - intros e S. apply sat_cons in S. destruct S as [_ S]. apply (W e S).
  - split; auto. exists [mkG op a b o]. reflexivity.
  - intros e S. apply sat_cons in S. destruct S as [H _]. exact H.
Qed.

Lemma okm_target t : okm t target_gmw (fun b _ => b = t).
Proof. intros s W G. exists (gmw s), s. ok_here. auto. Qed.

Lemma okm_inv0 t : okm t inv_i0_wire (fun w e => e w = negb (e 0)).
Proof.
  intros s W G. unfold inv_i0_wire. destruct (inv0 s) as [w|] eqn:E.
  - exists w, s. ok_here. intros e S. apply (W e S); auto.
  - eexists _, _. split; [reflexivity|]. cbn. split; [|split].
    + intros e S. apply sat_cons in S. destruct S as [H S]. destruct (W e S) as (Z & O & I).
      repeat split; auto. intros w Hw. inversion Hw; subst. exact H.
    + split; auto. eexists [_]. reflexivity.
    + intros e S. apply sat_cons in S. destruct S as [H _]. exact H.
Qed.

Lemma and_inv_false b : b && negb b = false. Proof. destruct b; reflexivity. Qed.
Lemma xor_inv_true b : xorb b (negb b) = true. Proof. destruct b; reflexivity. Qed.

Lemma okm_zero t : okm t zero_wire (fun w e => e w = false).
Proof.
  intros s W G. unfold zero_wire. destruct (zero s) as [w|] eqn:E.
  - exists w, s. ok_here. intros e S. apply (W e S); auto.
  - unfold inv_i0_wire, bind, fresh, set_zero, set_inv0, emit, ret; cbn.
    destruct (inv0 s) as [i|] eqn:EI; cbn.
    + eexists _, _. split; [reflexivity|]. cbn.
      assert (K : forall e, sat e (mkG AND in0 i (next s) :: gates s) -> e (next s) = false).
      { intros e S. apply sat_cons in S. destruct S as [H S].
        destruct (W e S) as (_ & _ & I). unfold holds, gate_val in H. cbn in H.
        rewrite H, (I i EI). unfold in0. apply and_inv_false. }
      split; [|split].
      * intros e S. cbn in *. pose proof (K e S) as K1. apply sat_cons in S. destruct S as [_ S].
        destruct (W e S) as (_ & O & I). repeat split; auto;
        intros w Hw; inversion Hw; subst; auto.
      * split; auto. eexists [_]. reflexivity.
      * exact K.
    + eexists _, _. split; [reflexivity|]. cbn.
      assert (K : forall e, sat e (mkG AND in0 (N.succ (next s)) (next s) :: mkG INV in0 0 (N.succ (next s)) :: gates s) ->
                  e (next s) = false /\ e (N.succ (next s)) = negb (e 0)).
      { intros e S. apply sat_cons in S. destruct S as [H S]. apply sat_cons in S. destruct S as [H2 S].
        unfold holds, gate_val in H, H2. cbn in H, H2. unfold in0 in *.
        split; auto. rewrite H, H2. apply and_inv_false. }
      split; [|split].
      * intros e S. cbn in *. destruct (K e S) as [K1 K2]. apply sat_cons in S. destruct S as [_ S].
        apply sat_cons in S. destruct S as [_ S]. destruct (W e S) as (_ & O & _).
        repeat split; auto; intros w Hw; inversion Hw; subst; auto.
      * split; auto. eexists [_; _]. reflexivity.
      * intros e S. apply (K e S).
Qed.

Lemma okm_one t : okm t one_wire (fun w e => e w = true).
Proof.
  intros s W G. unfold one_wire. destruct (one s) as [w|] eqn:E.
  - exists w, s. ok_here. intros e S. apply (W e S); auto.
  - unfold inv_i0_wire, bind, fresh, set_one, set_inv0, emit, ret; cbn.
    destruct (inv0 s) as [i|] eqn:EI; cbn.
    + eexists _, _. split; [reflexivity|]. cbn.
      assert (K : forall e, sat e (mkG XOR in0 i (next s) :: gates s) -> e (next s) = true).
      { intros e S. apply sat_cons in S. destruct S as [H S].
        destruct (W e S) as (_ & _ & I). unfold holds, gate_val in H. cbn in H.
        rewrite H, (I i EI). unfold in0. apply xor_inv_true. }
      split; [|split].
      * intros e S. cbn in *. pose proof (K e S) as K1. apply sat_cons in S. destruct S as [_ S].
        destruct (W e S) as (Z & _ & I). repeat split; auto;
        intros w Hw; inversion Hw; subst; auto.
      * split; auto. eexists [_]. reflexivity.
      * exact K.
    + eexists _, _. split; [reflexivity|]. cbn.
      assert (K : forall e, sat e (mkG XOR in0 (N.succ (next s)) (next s) :: mkG INV in0 0 (N.succ (next s)) :: gates s) ->
                  e (next s) = true /\ e (N.succ (next s)) = negb (e 0)).
      { intros e S. apply sat_cons in S. destruct S as [H S]. apply sat_cons in S. destruct S as [H2 S].
        unfold holds, gate_val in H, H2. cbn in H, H2. unfold in0 in *.
        split; auto. rewrite H, H2. apply xor_inv_true. }
      split; [|split].
      * intros e S. cbn in *. destruct (K e S) as [K1 K2]. apply sat_cons in S. destruct S as [_ S].
        apply sat_cons in S. destruct S as [_ S]. destruct (W e S) as (Z & _ & _).
        repeat split; auto; intros w Hw; inversion Hw; subst; auto.
      * split; auto. eexists [_; _]. reflexivity.
      * intros e S. apply (K e S).
Qed.

Ltac mstep L := eapply okm_bind; [ apply L | intros ?; cbv beta ].
Ltac pstep L := eapply okm_bind_p; [ apply L | intros ? ?; cbv beta ].

Lemma okm_cc_inv t i o : okm t (cc_inv i o) (fun _ e => e o = negb (e i)).
Proof.
  unfold cc_inv. eapply okm_bind; [apply okm_one|]. intros w.
  eapply okm_weaken; [apply okm_emit|]. cbn. intros _ e H H1. rewrite H, H1.
  destruct (e i); reflexivity.
Qed.

Lemma okm_cc_id t i o : okm t (cc_id i o) (fun _ e => e o = e i).
Proof.
  unfold cc_id. eapply okm_bind; [apply okm_zero|]. intros w.
  eapply okm_weaken; [apply okm_emit|]. cbn. intros _ e H H1. rewrite H, H1.
  destruct (e i); reflexivity.
Qed.

Lemma okm_cc_or t a b o : okm t (cc_or a b o) (fun _ e => e o = e a || e b).
Proof.
  unfold cc_or.
  mstep okm_fresh. mstep okm_emit. mstep okm_fresh. mstep okm_emit.
  eapply okm_weaken; [apply okm_emit|]. cbn. intros _ e H3 H2 _ H1 _.
  rewrite H3, H2, H1. destruct (e a), (e b); reflexivity.
Qed.

Lemma okp_fresh_n t n : okp t (fresh_n n) (fun ws => length ws = n) (fun _ _ => True).
Proof.
  induction n; cbn [fresh_n].
  - apply okp_ret; auto.
  - eapply okp_bind; [apply okp_of_okm, okm_fresh|]. intros w _.
    eapply okp_bind; [apply IHn|]. intros ws Hl. cbv beta.
    apply okp_ret; auto. cbn. congruence.
Qed.

(* ---------- bit vectors ---------- *)
Lemma valN_nil e : valN e [] = 0. Proof. reflexivity. Qed.
Lemma valN_cons e w ws : valN e (w :: ws) = N.b2n (e w) + 2 * valN e ws.
Proof. reflexivity. Qed.

Lemma pow2_S k : 2 ^ N.of_nat (S k) = 2 * 2 ^ N.of_nat k.
Proof. rewrite Nat2N.inj_succ, N.pow_succ_r'. reflexivity. Qed.

Lemma pow2_pos k : 0 < 2 ^ N.of_nat k.
Proof. apply N.neq_0_lt_0, N.pow_nonzero. discriminate. Qed.

Lemma valN_app e a b : valN e (a ++ b) = valN e a + 2 ^ N.of_nat (length a) * valN e b.
Proof.
  induction a as [|w a IH]; cbn [app length].
  - rewrite valN_nil. cbn. destruct (valN e b); reflexivity.
  - rewrite !valN_cons, IH, pow2_S. ring.
Qed.

Lemma b2n_le1 b : N.b2n b <= 1. Proof. destruct b; cbn; lia. Qed.

Lemma valN_lt e ws : valN e ws < 2 ^ N.of_nat (length ws).
Proof.
  induction ws as [|w ws IH]; cbn [length].
  - cbn. lia.
  - rewrite valN_cons, pow2_S. pose proof (b2n_le1 (e w)). lia.
Qed.

Lemma valN_repeat0 e z k : e z = false -> valN e (repeat z k) = 0.
Proof.
  intros H. induction k; cbn [repeat]; [reflexivity|].
  rewrite valN_cons, IHk, H. reflexivity.
Qed.

Lemma mod2p b v p : b <= 1 -> 0 < p -> (b + 2 * v) mod (2 * p) = b + 2 * (v mod p).
Proof.
  intros Hb Hp. symmetry. apply N.mod_unique with (q := v / p).
  - pose proof (N.mod_lt v p). lia.
  - pose proof (N.div_mod' v p). lia.
Qed.

Lemma valN_firstn e k ws : valN e (firstn k ws) = valN e ws mod 2 ^ N.of_nat k.
Proof.
  revert ws. induction k; intros ws.
  - cbn. rewrite N.mod_1_r. reflexivity.
  - destruct ws as [|w ws]; cbn [firstn].
    + rewrite valN_nil, N.mod_0_l; [reflexivity|]. apply N.pow_nonzero. discriminate.
    + rewrite !valN_cons, IHk, pow2_S, mod2p; auto using b2n_le1, pow2_pos.
Qed.

Lemma valN_small e ws k : (length ws <= k)%nat -> valN e ws mod 2 ^ N.of_nat k = valN e ws.
Proof.
  intros H. apply N.mod_small. eapply N.lt_le_trans; [apply valN_lt|].
  apply N.pow_le_mono_r; lia.
Qed.

(* ---------- padding ---------- *)
(* shape of a zero-padded / zero-tailed vector (pure) and its meaning *)
Definition pad_shape (ws x : list wire) (n : nat) : Prop :=
  exists zw, ws = x ++ repeat zw (n - length x).
Definition pad_zero (e : env) (ws x : list wire) : Prop :=
  forall w, In w (skipn (length x) ws) -> e w = false.

Lemma pad_shape_len ws x n : pad_shape ws x n -> length ws = Nat.max n (length x).
Proof. intros (zw & ->). rewrite app_length, repeat_length. lia. Qed.

Lemma pad_shape_firstn ws x n : pad_shape ws x n -> firstn (length x) ws = x.
Proof. intros (zw & ->). rewrite firstn_app, Nat.sub_diag, firstn_all. cbn. apply app_nil_r. Qed.

Lemma valN_all_zero e ws : (forall w, In w ws -> e w = false) -> valN e ws = 0.
Proof.
  induction ws as [|w ws IH]; intros H; [reflexivity|].
  rewrite valN_cons, IH by (intros; apply H; cbn; auto).
  rewrite (H w) by (cbn; auto). reflexivity.
Qed.

Lemma pad_val e ws x n : pad_shape ws x n -> pad_zero e ws x -> valN e ws = valN e x.
Proof.
  intros (zw & ->) Z. unfold pad_zero in Z.
  rewrite skipn_app, Nat.sub_diag, skipn_all in Z. cbn in Z.
  rewrite valN_app, (valN_all_zero e (repeat zw _)) by auto. lia.
Qed.

Lemma okp_pad t x n : okp t (pad x n) (fun ws => pad_shape ws x n) (fun ws e => pad_zero e ws x).
Proof.
  unfold pad. destruct (Nat.leb n (length x)) eqn:E.
  - apply Nat.leb_le in E. apply okp_ret.
    + exists 0. replace (n - length x)%nat with 0%nat by lia. cbn. rewrite app_nil_r. reflexivity.
    + intros e w. rewrite skipn_all. intros [].
  - eapply okp_bind; [apply okp_of_okm, okm_zero|]. intros z _. cbv beta. apply okp_ret.
    + exists z. reflexivity.
    + intros e Hz w. rewrite skipn_app, Nat.sub_diag, skipn_all. cbn.
      intros Hin. apply repeat_spec in Hin. subst. exact Hz.
Qed.

Lemma okp_zero_pad t x y :
  okp t (zero_pad x y)
      (fun p => let mx := Nat.max (length x) (length y) in
                pad_shape (fst p) x mx /\ pad_shape (snd p) y mx)
      (fun p e => pad_zero e (fst p) x /\ pad_zero e (snd p) y).
Proof.
  unfold zero_pad. destruct (Nat.eqb (length x) (length y)) eqn:E.
  - apply Nat.eqb_eq in E. apply okp_ret.
    + cbn. split; exists 0.
      * replace (Nat.max (length x) (length y) - length x)%nat with 0%nat by lia.
        cbn. rewrite app_nil_r. reflexivity.
      * replace (Nat.max (length x) (length y) - length y)%nat with 0%nat by lia.
        cbn. rewrite app_nil_r. reflexivity.
    + intros e. cbn. split; intros w; rewrite skipn_all; intros [].
  - eapply okp_bind; [apply okp_of_okm, okm_zero|]. intros z _. cbv beta. apply okp_ret.
    + cbn. split; exists z; reflexivity.
    + intros e Hz. cbn. split; intros w; rewrite skipn_app, Nat.sub_diag, skipn_all; cbn;
        intros Hin; apply repeat_spec in Hin; subst; exact Hz.
Qed.

(* z' = the first k wires of z followed by zero wires *)
Lemma okp_zero_tail t z k :
  okp t (zero_tail z k)
      (fun z' => exists zw, z' = firstn k z ++ repeat zw (length z - k))
      (fun z' e => forall w, In w (skipn k z') -> (k <= length z)%nat -> e w = false).
Proof.
  unfold zero_tail. destruct (Nat.ltb k (length z)) eqn:E.
  - apply Nat.ltb_lt in E.
    eapply okp_bind; [apply okp_of_okm, okm_zero|]. intros zw _. cbv beta. apply okp_ret.
    + exists zw. reflexivity.
    + intros e Hz w Hin _. rewrite skipn_app in Hin.
      rewrite firstn_length_le in Hin by lia. rewrite Nat.sub_diag in Hin.
      rewrite skipn_all2 in Hin by (rewrite firstn_length; lia). cbn in Hin.
      apply repeat_spec in Hin. subst. exact Hz.
  - apply Nat.ltb_ge in E. apply okp_ret.
    + exists 0. replace (length z - k)%nat with 0%nat by lia. cbn. rewrite app_nil_r.
      rewrite firstn_all2 by lia. reflexivity.
    + intros e w Hin Hk. rewrite skipn_all2 in Hin by lia. destruct Hin.
Qed.

Lemma zero_tail_len (z' z : list wire) (k : nat) : (exists zw, z' = firstn k z ++ repeat zw (length z - k)) -> length z' = length z.
Proof. intros (zw & ->). rewrite app_length, firstn_length, repeat_length. lia. Qed.

(* ---------- gate-by-gate evaluation of a single-assignment list is consistent ---------- *)
Lemma mentions_false_cons w g r :
  mentions w (g :: r) = false ->
  w <> g_a g /\ w <> g_b g /\ w <> g_o g /\ mentions w r = false.
Proof.
  cbn. intros H. apply orb_false_iff in H. destruct H as [H H4].
  apply orb_false_iff in H. destruct H as [H H3].
  apply orb_false_iff in H. destruct H as [H1 H2].
  apply N.eqb_neq in H1, H2, H3. auto.
Qed.

Lemma upd_other e w v x : x <> w -> upd e w v x = e x.
Proof. intros H. unfold upd. apply N.eqb_neq in H. rewrite H. reflexivity. Qed.
Lemma upd_same e w v : upd e w v w = v.
Proof. unfold upd. rewrite N.eqb_refl. reflexivity. Qed.

Lemma sat_upd_unmentioned e w v gs :
  mentions w gs = false -> sat e gs -> sat (upd e w v) gs.
Proof.
  induction gs as [|g r IH]; intros M S; [constructor|].
  apply mentions_false_cons in M. destruct M as (Ha & Hb & Ho & M).
  apply sat_cons in S. destruct S as [H S]. apply sat_cons. split; auto.
  unfold holds, gate_val in *. rewrite !upd_other by auto. exact H.
Qed.

Theorem eval_rev_sat ninp gs e0 : wfc_b ninp gs = true -> sat (eval_rev gs e0) gs.
Proof.
  induction gs as [|g r IH]; intros W; [constructor|].
  cbn in W. apply andb_true_iff in W. destruct W as [W W5].
  apply andb_true_iff in W. destruct W as [W W4].
  apply andb_true_iff in W. destruct W as [W W3].
  apply andb_true_iff in W. destruct W as [W1 W2].
  apply negb_true_iff in W2, W3, W4. apply N.eqb_neq in W2, W3.
  cbn [eval_rev]. apply sat_cons. split.
  - unfold holds, gate_val. rewrite upd_same, !upd_other by auto. reflexivity.
  - apply sat_upd_unmentioned; auto.
Qed.

Theorem eval_rev_inputs ninp gs e0 w : wfc_b ninp gs = true -> w < ninp -> eval_rev gs e0 w = e0 w.
Proof.
  induction gs as [|g r IH]; intros W Hw; [reflexivity|].
  cbn in W. apply andb_true_iff in W. destruct W as [W W5].
  apply andb_true_iff in W. destruct W as [W _].
  apply andb_true_iff in W. destruct W as [W _].
  apply andb_true_iff in W. destruct W as [W1 _].
  apply negb_true_iff in W1. apply N.ltb_ge in W1.
  cbn [eval_rev]. rewrite upd_other by lia. auto.
Qed.
