(* Index.v — /repo/compiler/circuits/circ_index.go  NewIndex, newIndex.
   No proofs in this file. *)
From Coq Require Import NArith List Bool Arith.
From Mpc Require Import Builders.Emit Builders.Mux.
Import ListNotations.
Open Scope monad_scope.

(* newIndex(cc, bit, length, size, array, index, def, out) *)
Fixpoint new_index_rec (bit : nat) (length_ size : nat) (array index def out : list wire) : M unit :=
  let n := (length array / size)%nat in
  match bit with
  | O =>
      let fVal := firstn size array in
      let tVal := if Nat.ltb 1 n then firstn size (skipn size array) else def in
      new_mux (firstn 1 index) tVal fVal out
  | S bit' =>
      let length_ := (length_ / 2)%nat in
      let fArray := if Nat.ltb length_ n then firstn (length_ * size) array else array in
      if Nat.leb (length index) bit then
        new_index_rec bit' length_ size fArray index def out
      else
        fVal <- fresh_n size;;
        new_index_rec bit' length_ size fArray index def fVal;;
        tVal <- (if Nat.ltb length_ n then
                   tVal <- fresh_n size;;
                   new_index_rec bit' length_ size (skipn (length_ * size) array) index def tVal;;
                   ret tVal
                 else ret def);;
        new_mux (firstn 1 (skipn bit index)) tVal fVal out
  end.

(* "bits := 1; for length = 2; length < n; length *= 2 { bits++ }" *)
Fixpoint index_bits (fuel : nat) (bits length_ n : nat) : nat * nat :=
  match fuel with
  | O => (bits, length_)
  | S f => if Nat.ltb length_ n then index_bits f (S bits) (2 * length_) n else (bits, length_)
  end.

(* NewIndex(cc, size, array, index, out): returns the (possibly replaced) out.
   size > 0, len(array) % size == 0 and len(out) >= size are the caller's
   obligations (Go returns an error otherwise). *)
Definition new_index (size : nat) (array index out : list wire) : M (list wire) :=
  let n := (length array / size)%nat in
  if Nat.eqb n 0 then
    (if Nat.eqb (length out) 0 then ret out
     else z <- zero_wire;; ret (repeat z (length out)))
  else
    let '(bits, length_) := index_bits n 1 2 n in
    def <- (if Nat.eqb size 0 then ret [] else z <- zero_wire;; ret (repeat z size));;
    new_index_rec (bits - 1) length_ size array index def out;;
    ret out.
