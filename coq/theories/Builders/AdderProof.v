(* AdderProof.v — NewHalfAdder, NewFullAdder and the ripple-carry NewAdder (Yao target)
   compute (x + y) mod 2^(result width) for every operand and result width. *)
From Coq Require Import NArith List Bool Arith Lia.
From Mpc Require Import Builders.Emit Builders.EmitProof Builders.Adder.
Import ListNotations.
Open Scope N_scope.

Definition maj (a b c : bool) : bool := (a && b) || (c && xorb a b).

Lemma ha_arith a b : N.b2n (xorb a b) + 2 * N.b2n (a && b) = N.b2n a + N.b2n b.
Proof. destruct a, b; reflexivity. Qed.
Lemma fa_arith a b c : N.b2n (xorb (xorb a b) c) + 2 * N.b2n (maj a b c) = N.b2n a + N.b2n b + N.b2n c.
Proof. destruct a, b, c; reflexivity. Qed.

(* truth table of the half adder *)
Lemma okm_half_adder t a b s c :
  okm t (half_adder a b s c)
      (fun _ e => e s = xorb (e a) (e b) /\ forall cw, c = Some cw -> e cw = e a && e b).
Proof.
  unfold half_adder. destruct c as [cw|].
  - mstep okm_emit. eapply okm_weaken; [apply okm_emit|]. cbn.
    intros _ e H2 H1. split; auto. intros ? [= <-]. auto.
  - mstep okm_emit. apply okm_ret. cbn. intros e H. split; auto. intros; discriminate.
Qed.

(* truth table of the full adder *)
Lemma okm_full_adder t a b cin s cout :
  okm t (full_adder a b cin s cout)
      (fun _ e => e s = xorb (xorb (e a) (e b)) (e cin) /\
                  forall cw, cout = Some cw -> e cw = maj (e a) (e b) (e cin)).
Proof.
  unfold full_adder. mstep okm_fresh. mstep okm_fresh. mstep okm_fresh.
  mstep okm_emit. mstep okm_emit.
  destruct cout as [cw|].
  - mstep okm_emit. mstep okm_emit. eapply okm_weaken; [apply okm_emit|]. cbn.
    intros _ e H5 H4 H3 H2 H1 _ _ _. split.
    + rewrite H2, H1. destruct (e a), (e b), (e cin); reflexivity.
    + intros ? [= <-]. rewrite H5, H4, H3, H1. unfold maj.
      destruct (e a), (e b), (e cin); reflexivity.
  - apply okm_ret. cbn. intros e H2 H1 _ _ _. split.
    + rewrite H2, H1. destruct (e a), (e b), (e cin); reflexivity.
    + intros; discriminate.
Qed.

(* carry invariant of the loop "for i := 1; i < len(x); i++" *)
Lemma okm_adder_loop t : forall xs ys zs cin last,
  xs <> [] -> length ys = length xs -> (length xs <= length zs)%nat ->
  okm t (adder_loop xs ys zs cin last)
      (fun _ e =>
         let n := length xs in
         match last with
         | Some l => valN e (firstn n zs) + 2 ^ N.of_nat n * N.b2n (e l)
                     = valN e xs + valN e ys + N.b2n (e cin)
         | None => valN e (firstn n zs)
                   = (valN e xs + valN e ys + N.b2n (e cin)) mod 2 ^ N.of_nat n
         end).
Proof.
  induction xs as [|x xs IH]; intros ys zs cin last Hne Hy Hz; [congruence|].
  destruct ys as [|y ys]; [discriminate|]. destruct zs as [|z zs]; [cbn in Hz; lia|].
  cbn [adder_loop]. destruct xs as [|x2 xs'].
  - destruct ys; [|discriminate].
    eapply okm_weaken; [apply okm_full_adder|]. cbn [length firstn].
    intros _ e [Hs Hc]. rewrite !valN_cons, !valN_nil.
    pose proof (fa_arith (e x) (e y) (e cin)) as FA. rewrite <- Hs in FA.
    destruct last as [l|].
    + rewrite <- (Hc l eq_refl) in FA. change (2 ^ N.of_nat 1) with 2. lia.
    + change (2 ^ N.of_nat 1) with 2. rewrite Hs.
      destruct (e x), (e y), (e cin); reflexivity.
  - mstep okm_fresh. mstep okm_full_adder.
    eapply okm_weaken; [apply IH; cbn in *; try lia; congruence|].
    cbv beta. intros _ e HI [Hs Hc] _. specialize (Hc _ eq_refl).
    pose proof (fa_arith (e x) (e y) (e cin)) as FA. rewrite <- Hs, <- Hc in FA.
    remember (x2 :: xs') as xs eqn:Exs.
    cbn [length firstn]. cbn zeta in HI. rewrite !valN_cons, pow2_S.
    destruct last as [l|].
    + lia.
    + rewrite HI.
      replace (N.b2n (e x) + 2 * valN e xs + (N.b2n (e y) + 2 * valN e ys) + N.b2n (e cin))
        with (N.b2n (e z) + 2 * (valN e xs + valN e ys + N.b2n (e a))) by lia.
      rewrite mod2p; auto using b2n_le1, pow2_pos.
Qed.

Lemma firstn_S_nth {A} (d : A) : forall n (l : list A),
  (n < length l)%nat -> firstn (S n) l = firstn n l ++ [nth n l d].
Proof.
  induction n; intros [|a l] H; cbn in *; try lia; auto.
  rewrite IHn by lia. reflexivity.
Qed.

(* bit 0 (half adder) followed by the carry chain *)
Lemma okm_ripple_core t x0 xs y0 ys z0 zs last :
  length ys = length xs -> (length xs <= length zs)%nat ->
  okm t (match xs with
         | [] => half_adder x0 y0 z0 last
         | _ :: _ => bind fresh (fun cin => bind (half_adder x0 y0 z0 (Some cin))
                                               (fun _ => adder_loop xs ys zs cin last))
         end)
      (fun _ e =>
         let n := S (length xs) in
         match last with
         | Some l => valN e (firstn n (z0 :: zs)) + 2 ^ N.of_nat n * N.b2n (e l)
                     = valN e (x0 :: xs) + valN e (y0 :: ys)
         | None => valN e (firstn n (z0 :: zs))
                   = (valN e (x0 :: xs) + valN e (y0 :: ys)) mod 2 ^ N.of_nat n
         end).
Proof.
  intros Hy Hz. destruct xs as [|x1 xs'].
  - destruct ys; [|discriminate].
    eapply okm_weaken; [apply okm_half_adder|]. cbn [length firstn].
    intros _ e [Hs Hc]. rewrite !valN_cons, !valN_nil. change (2 ^ N.of_nat 1) with 2.
    pose proof (ha_arith (e x0) (e y0)) as HA. rewrite <- Hs in HA.
    destruct last as [l|].
    + rewrite <- (Hc l eq_refl) in HA. lia.
    + rewrite Hs. destruct (e x0), (e y0); reflexivity.
  - remember (x1 :: xs') as xs eqn:Exs.
    mstep okm_fresh. mstep okm_half_adder.
    eapply okm_weaken; [apply okm_adder_loop; try lia; subst; discriminate|].
    cbv beta. intros _ e HI [Hs Hc] _. specialize (Hc _ eq_refl).
    pose proof (ha_arith (e x0) (e y0)) as HA. rewrite <- Hs, <- Hc in HA.
    cbn [length firstn]. cbn zeta in HI. rewrite !valN_cons, pow2_S.
    destruct last as [l|].
    + lia.
    + rewrite HI.
      replace (N.b2n (e x0) + 2 * valN e xs + (N.b2n (e y0) + 2 * valN e ys))
        with (N.b2n (e z0) + 2 * (valN e xs + valN e ys + N.b2n (e a))) by lia.
      rewrite mod2p; auto using b2n_le1, pow2_pos.
Qed.

(* NewAdder, Yao target: z = (x + y) mod 2^len(z) for every len(x), len(y), len(z) >= 1 *)
Theorem okm_ripple_adder t x y z :
  (1 <= length z)%nat -> (1 <= Nat.max (length x) (length y))%nat ->
  okm t (ripple_adder x y z)
      (fun z' e => length z' = length z /\
                   valN e z' = (valN e x + valN e y) mod 2 ^ N.of_nat (length z)).
Proof.
  intros Hz Hm. unfold ripple_adder.
  pstep okp_zero_pad. destruct a as [x' y']. cbn [fst snd] in *. destruct H as [Sx Sy].
  pose proof (pad_shape_len _ _ _ Sx) as Lx. pose proof (pad_shape_len _ _ _ Sy) as Ly.
  cbv zeta.
  remember (firstn (length z) x') as x2 eqn:Ex2.
  remember (firstn (length z) y') as y2 eqn:Ey2.
  assert (Lx2 : length x2 = Nat.min (length z) (Nat.max (length x) (length y))).
  { subst x2. rewrite firstn_length. lia. }
  assert (Ly2 : length y2 = length x2).
  { subst y2. rewrite firstn_length. lia. }
  destruct x2 as [|x0 xs]; [cbn [length] in Lx2; lia|].
  destruct y2 as [|y0 ys]; [discriminate|].
  destruct z as [|z0 zs]; [cbn [length] in Hz; lia|].
  cbv iota beta.
  set (n := length (x0 :: xs)) in *.
  set (last := if Nat.ltb n (length (z0 :: zs)) then Some (nth n (z0 :: zs) 0) else None).
  eapply okm_bind.
  { apply (okm_ripple_core t x0 xs y0 ys z0 zs last); cbn [length] in *; lia. }
  intros u. cbv beta.
  eapply okm_weaken; [apply okm_of_okp, okp_zero_tail|].
  cbv beta. intros z' e [H Hzero] Hcore [Zx Zy].
  pose proof (zero_tail_len _ _ _ H) as Hlen. split; [exact Hlen|].
  destruct H as (zw & ->).
  (* values of the truncated, padded operands *)
  assert (Vx : valN e (x0 :: xs) = valN e x mod 2 ^ N.of_nat (length (z0 :: zs))).
  { rewrite Ex2, valN_firstn. f_equal. eapply pad_val; eauto. }
  assert (Vy : valN e (y0 :: ys) = valN e y mod 2 ^ N.of_nat (length (z0 :: zs))).
  { rewrite Ey2, valN_firstn. f_equal. eapply pad_val; eauto. }
  assert (Hz0 : valN e (repeat zw (length (z0 :: zs) - (n + 1))) = 0).
  { destruct (length (z0 :: zs) - (n + 1))%nat eqn:EK; [reflexivity|].
    apply valN_all_zero. intros w Hin. apply repeat_spec in Hin. subst w.
    apply Hzero; [|lia].
    rewrite skipn_app, firstn_length.
    replace (n + 1 - Nat.min (n + 1) (length (z0 :: zs)))%nat with 0%nat by lia.
    rewrite skipn_all2 by (rewrite firstn_length; lia). cbn. auto. }
  rewrite valN_app, Hz0, N.mul_0_r, N.add_0_r.
  subst last. destruct (Nat.ltb n (length (z0 :: zs))) eqn:EL.
  - (* room for the carry: n = max(len x, len y) < len z, nothing is lost *)
    apply Nat.ltb_lt in EL.
    replace (n + 1)%nat with (S n) by lia.
    rewrite (@firstn_S_nth wire 0%N n (z0 :: zs) EL). rewrite valN_app, firstn_length, valN_cons, valN_nil.
    replace (Nat.min n (length (z0 :: zs))) with n by lia.
    cbv zeta in Hcore. change (S (length xs)) with n in Hcore.
    assert (Hn : n = Nat.max (length x) (length y)) by lia.
    assert (Bx : valN e x < 2 ^ N.of_nat n).
    { eapply N.lt_le_trans; [apply valN_lt|]. apply N.pow_le_mono_r; lia. }
    assert (By : valN e y < 2 ^ N.of_nat n).
    { eapply N.lt_le_trans; [apply valN_lt|]. apply N.pow_le_mono_r; lia. }
    assert (Bz : 2 * 2 ^ N.of_nat n <= 2 ^ N.of_nat (length (z0 :: zs))).
    { rewrite <- pow2_S. apply N.pow_le_mono_r; lia. }
    rewrite N.mod_small in Vx by lia. rewrite N.mod_small in Vy by lia.
    rewrite N.mod_small by lia. lia.
  - (* result as wide as the (truncated) operands: the carry is dropped *)
    apply Nat.ltb_ge in EL.
    assert (Hn : n = length (z0 :: zs)) by lia.
    rewrite firstn_all2 by lia.
    cbv zeta in Hcore. change (S (length xs)) with n in Hcore. rewrite Hn in Hcore.
    rewrite firstn_all in Hcore. rewrite Hcore, Vx, Vy.
    rewrite <- N.add_mod by (apply N.pow_nonzero; discriminate). reflexivity.
Qed.

(* NewAdder under the Yao target *)
Corollary okm_new_adder_yao x y z :
  (1 <= length z)%nat -> (1 <= Nat.max (length x) (length y))%nat ->
  okm false (new_adder x y z)
      (fun z' e => length z' = length z /\
                   valN e z' = (valN e x + valN e y) mod 2 ^ N.of_nat (length z)).
Proof.
  intros Hz Hm s W G. unfold new_adder, bind, target_gmw. rewrite G.
  apply (okm_ripple_adder false x y z Hz Hm s W G).
Qed.

(* Aliased operands: the builder theorems quantify over arbitrary lists of wire
   ids, so the same vector (or overlapping vectors) may be passed for x and y.
   Instance x = y: t + t = 2t. *)
Corollary okm_new_adder_same_operand (x z : list wire) :
  (1 <= length z)%nat -> (1 <= length x)%nat ->
  okm false (new_adder x x z)
      (fun z' e => length z' = length z /\
                   valN e z' = (2 * valN e x) mod 2 ^ N.of_nat (length z)).
Proof.
  intros Hz Hx. eapply okm_weaken.
  - apply okm_new_adder_yao; [exact Hz|]. rewrite Nat.max_id. exact Hx.
  - cbv beta. intros z' e [H1 H2]. split; [exact H1|]. rewrite H2. f_equal. lia.
Qed.
