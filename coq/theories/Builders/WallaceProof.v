(* WallaceProof.v — NewWallaceMultiplier (GMW target multiplier) computes
   (a * b) mod 2^(result width) for every result width >= 1 and every operand width.

   Invariant: the weighted column sum  colsum e cols = sum_i 2^i * #(true wires of column i).
     (1) after the partial products the column sum is a' * b' (the n-bit operands);
     (2) a reduction round preserves it modulo 2^(number of columns) (carries of the last
         column are dropped);
     (3) the fuel loop preserves it, and the fuel 2n+8 suffices: while the maximal column
         height M is >= 3 a round lowers it to at most M-1, and the initial height is <= n;
     (4) the two rows read off columns of height <= 2 sum to the column sum;
     (5) the Kogge-Stone adder adds the rows modulo 2^n. *)
From Coq Require Import NArith List Bool Arith Lia.
From Mpc Require Import Builders.Emit Builders.EmitProof Builders.Adder Builders.AdderProof
                        Builders.Sub Builders.Mult Builders.KsProof.
Import ListNotations.
Open Scope N_scope.

(* ---------- sanity check of the model on concrete instances ---------- *)
(* operands of width n on wires 0..n-1 and n..2n-1, result width l on wires 2n.. *)
Definition wm_run (n l : nat) (a b : N) : N * N :=
  let x := map N.of_nat (seq 0 n) in
  let y := map N.of_nat (seq n n) in
  let z := map N.of_nat (seq (2 * n) l) in
  let '(z', s) := wallace_multiplier x y z (st0 (N.of_nat (2 * n + l)) true) in
  let e0 := fun w => if N.ltb w (N.of_nat n) then N.testbit a w
                     else N.testbit b (w - N.of_nat n) in
  let e := eval_rev (gates s) e0 in
  (valN e z', (a * b) mod 2 ^ N.of_nat l).

Definition wm_check (n l : nat) : bool :=
  forallb (fun a => forallb (fun b => let '(u, v) := wm_run n l (N.of_nat a) (N.of_nat b) in N.eqb u v)
                            (seq 0 (2 ^ n))) (seq 0 (2 ^ n)).

Example wm_check_1 : forallb (wm_check 1) [1; 2; 3]%nat = true.
Proof. vm_compute. reflexivity. Qed.
Example wm_check_2 : forallb (wm_check 2) [1; 2; 3; 4; 5]%nat = true.
Proof. vm_compute. reflexivity. Qed.
Example wm_check_3 : forallb (wm_check 3) [1; 2; 3; 4; 6; 7]%nat = true.
Proof. vm_compute. reflexivity. Qed.

(* ---------- column sums ---------- *)
(* number of true wires of a column *)
Fixpoint cnt (e : env) (c : list wire) : N :=
  match c with
  | [] => 0
  | w :: r => N.b2n (e w) + cnt e r
  end.

(* weighted sum of the columns: column i has weight 2^i *)
Fixpoint colsum (e : env) (cols : list (list wire)) : N :=
  match cols with
  | [] => 0
  | c :: r => cnt e c + 2 * colsum e r
  end.

Lemma cnt_app e a b : cnt e (a ++ b) = cnt e a + cnt e b.
Proof. induction a as [|w a IH]; cbn [app cnt]; [reflexivity|]. rewrite IH. lia. Qed.

Lemma colsum_app e x y :
  colsum e (x ++ y) = colsum e x + 2 ^ N.of_nat (length x) * colsum e y.
Proof.
  induction x as [|c x IH]; cbn [app colsum length].
  - change (2 ^ N.of_nat 0) with 1. lia.
  - rewrite IH, pow2_S. ring.
Qed.

Lemma colsum_repeat_nil e m : colsum e (repeat [] m) = 0.
Proof. induction m; cbn [repeat colsum cnt]; [reflexivity|]. rewrite IHm. reflexivity. Qed.

Lemma nth_repeat_nil j m : nth j (repeat (@nil wire) m) [] = [].
Proof. revert j. induction m; intros [|j]; cbn; auto. Qed.

(* ---------- add_col ---------- *)
Lemma add_col_length : forall cols k w, length (add_col cols k w) = length cols.
Proof. induction cols as [|c r IH]; intros [|k] w; cbn; auto. Qed.

Lemma colsum_add_col e w : forall cols k, (k < length cols)%nat ->
  colsum e (add_col cols k w) = colsum e cols + 2 ^ N.of_nat k * N.b2n (e w).
Proof.
  induction cols as [|c r IH]; intros k H; [cbn in H; lia|].
  destruct k as [|k]; cbn [add_col colsum].
  - rewrite cnt_app. cbn [cnt]. change (2 ^ N.of_nat 0) with 1. lia.
  - rewrite IH by (cbn in H; lia). rewrite pow2_S. ring.
Qed.

Lemma add_col_nth_len : forall cols k w j,
  (length (nth j (add_col cols k w) []) <= length (nth j cols []) + (if Nat.eqb j k then 1 else 0))%nat.
Proof.
  induction cols as [|c r IH]; intros k w j.
  - destruct k, j; cbn; lia.
  - destruct k as [|k], j as [|j]; cbn [add_col nth Nat.eqb].
    + rewrite app_length. cbn. lia.
    + lia.
    + lia.
    + apply IH.
Qed.

Ltac wstep L := eapply okp_bind; [ apply okp_of_okm, L | intros ? _; cbv beta ].

(* ---------- (1) partial products ---------- *)
Lemma okp_wal_pp_row t ai : forall bs k cols,
  okp t (wal_pp_row ai bs k cols)
      (fun cols' => length cols' = length cols /\
         forall j, (length (nth j cols' []) <= length (nth j cols []) + (if Nat.leb k j then 1 else 0))%nat)
      (fun cols' e => (k + length bs <= length cols)%nat ->
         colsum e cols' = colsum e cols + 2 ^ N.of_nat k * (N.b2n (e ai) * valN e bs)).
Proof.
  induction bs as [|bj bs IH]; intros k cols; cbn [wal_pp_row].
  - apply okp_ret.
    + split; auto. intros j. lia.
    + intros e _. rewrite valN_nil, !N.mul_0_r, N.add_0_r. reflexivity.
  - wstep okm_fresh. rename a into w. wstep okm_emit.
    eapply okp_weaken; [apply IH| |].
    + intros cols' [HL HJ]. rewrite add_col_length in HL. split; auto.
      intros j. specialize (HJ j). pose proof (add_col_nth_len cols k w j) as HA.
      destruct (Nat.leb_spec (S k) j), (Nat.leb_spec k j), (Nat.eqb_spec j k); lia.
    + cbv beta. intros cols' e _ HP Hemit _ Hlen. cbn [length] in Hlen.
      rewrite HP by (rewrite add_col_length; lia).
      rewrite colsum_add_col by lia. rewrite valN_cons, pow2_S, Hemit. cbn [gsem].
      destruct (e ai), (e bj); cbn [N.b2n andb]; ring.
Qed.

Lemma okp_wal_pp t b : forall a i cols,
  okp t (wal_pp a b i cols)
      (fun cols' => length cols' = length cols /\
         forall j, (length (nth j cols' []) <= length (nth j cols []) + length a)%nat)
      (fun cols' e => (i + length a + length b <= S (length cols))%nat ->
         colsum e cols' = colsum e cols + 2 ^ N.of_nat i * (valN e a * valN e b)).
Proof.
  induction a as [|ai a IH]; intros i cols; cbn [wal_pp].
  - apply okp_ret.
    + split; auto. intros j. lia.
    + intros e _. rewrite valN_nil, N.mul_0_l, N.mul_0_r, N.add_0_r. reflexivity.
  - eapply okp_bind; [apply okp_wal_pp_row|]. intros cols1 [L1 J1]. cbv beta.
    eapply okp_weaken; [apply IH| |].
    + intros cols' [L J]. split; [congruence|]. intros j.
      specialize (J j). specialize (J1 j). cbn [length]. destruct (Nat.leb i j); lia.
    + cbv beta. intros cols' e _ HP Hrow Hlen. cbn [length] in Hlen.
      rewrite HP by lia. rewrite Hrow by lia. rewrite valN_cons, pow2_S. ring.
Qed.

(* ---------- adders, arithmetic form ---------- *)
Lemma wp_half_adder t a b s c :
  okm t (half_adder a b s (Some c))
      (fun _ e => N.b2n (e s) + 2 * N.b2n (e c) = N.b2n (e a) + N.b2n (e b)).
Proof.
  eapply okm_weaken; [apply okm_half_adder|]. cbn. intros _ e [H1 H2].
  rewrite H1, (H2 c eq_refl). apply ha_arith.
Qed.

Lemma wp_full_adder t a b cin s c :
  okm t (full_adder a b cin s (Some c))
      (fun _ e => N.b2n (e s) + 2 * N.b2n (e c) = N.b2n (e a) + N.b2n (e b) + N.b2n (e cin)).
Proof.
  eapply okm_weaken; [apply okm_full_adder|]. cbn. intros _ e [H1 H2].
  rewrite H1, (H2 c eq_refl). apply fa_arith.
Qed.

(* ---------- reduction of one column ---------- *)
(* a column's count = count of the sums (and pass-through) + 2 * count of the carries;
   with enough fuel a column of height h leaves at most ceil(h/3) sums and
   floor((h+1)/3) carries *)
Lemma okp_wal_col t : forall fuel col,
  okp t (wal_col fuel col)
      (fun r => (length col <= fuel)%nat ->
                (3 * length (fst r) <= length col + 2 /\ 3 * length (snd r) <= length col + 1)%nat)
      (fun r e => cnt e (fst r) + 2 * cnt e (snd r) = cnt e col).
Proof.
  induction fuel as [|f IH]; intros col; cbn [wal_col].
  - apply okp_ret.
    + cbn [fst snd length]. intros H. destruct col; cbn [length] in *; lia.
    + intros e. cbn [fst snd cnt]. lia.
  - destruct col as [|u [|v [|w rest]]].
    + apply okp_ret; [cbn; lia | intros e; reflexivity].
    + apply okp_ret; [cbn; lia | intros e; cbn [fst snd cnt]; lia].
    + wstep okm_fresh. rename a into s. wstep okm_fresh. rename a into c.
      wstep wp_half_adder. apply okp_ret.
      * cbn. lia.
      * intros e H _ _. cbn [fst snd cnt]. lia.
    + wstep okm_fresh. rename a into s. wstep okm_fresh. rename a into c.
      wstep wp_full_adder.
      eapply okp_bind; [apply IH|]. intros [ss cs] HR. cbv beta iota.
      apply okp_ret.
      * cbn [fst snd length] in *. intros H. lia.
      * intros e HP H _ _. cbn [fst snd cnt] in *. lia.
Qed.

(* ---------- column heights ---------- *)
Lemma max_height_Forall M : forall cols,
  Forall (fun c : list wire => (length c <= M)%nat) cols <-> (max_height cols <= M)%nat.
Proof.
  induction cols as [|c r IH]; cbn [max_height fold_right].
  - split; [lia | constructor].
  - fold (max_height r). split.
    + intros H. inversion H; subst. apply IH in H3. lia.
    + intros H. constructor; [lia|]. apply IH. lia.
Qed.

Lemma Forall_nth_len M : forall cols : list (list wire),
  (forall j, (length (nth j cols []) <= M)%nat) -> Forall (fun c => (length c <= M)%nat) cols.
Proof.
  induction cols as [|c r IH]; intros H; constructor.
  - apply (H 0%nat).
  - apply IH. intros j. apply (H (S j)).
Qed.

Lemma Forall_firstn_w {A} (P : A -> Prop) k (l : list A) : Forall P l -> Forall P (firstn k l).
Proof.
  intros H. rewrite <- (firstn_skipn k l) in H. apply Forall_app in H. tauto.
Qed.

(* ---------- (2) one reduction round ---------- *)
(* the column sum is preserved up to a multiple of 2^(number of columns) (the dropped
   carries of the last column); while the maximal height M is >= 3 it drops to <= M-1 *)
Lemma okp_wal_round t : forall cols cin,
  okp t (wal_round cols cin)
      (fun cols' => length cols' = length cols /\
         forall M, (3 <= M)%nat -> (3 * length cin <= M + 1)%nat ->
                   Forall (fun c => (length c <= M)%nat) cols ->
                   Forall (fun c => (length c <= M - 1)%nat) cols')
      (fun cols' e => exists d,
         colsum e cols' + 2 ^ N.of_nat (length cols) * d = cnt e cin + colsum e cols).
Proof.
  induction cols as [|col rest IH]; intros cin; cbn [wal_round].
  - apply okp_ret.
    + split; auto.
    + intros e. exists (cnt e cin). cbn [colsum length]. change (2 ^ N.of_nat 0) with 1. lia.
  - eapply okp_bind; [apply okp_wal_col|]. intros [ss cs] HC. cbv beta iota.
    cbn [fst snd] in HC. specialize (HC (le_n _)). destruct HC as [HC1 HC2].
    eapply okp_bind; [apply IH|]. intros rest' [L HM]. cbv beta.
    apply okp_ret.
    + split; [cbn [length]; congruence|].
      intros M HM3 Hcin HF. inversion HF; subst. constructor.
      * rewrite app_length. unfold wire in *. lia.
      * apply HM; auto. unfold wire in *. lia.
    + intros e [d HI] Hcol. exists d. cbn [fst snd] in Hcol.
      cbn [colsum length]. rewrite cnt_app, pow2_S. nia.
Qed.

(* ---------- (3) the reduction loop ---------- *)
Lemma okp_wal_reduce t : forall fuel cols,
  okp t (wal_reduce fuel cols)
      (fun cols' => length cols' = length cols /\
         ((max_height cols <= fuel + 2)%nat -> Forall (fun c => (length c <= 2)%nat) cols'))
      (fun cols' e => exists d, colsum e cols' + 2 ^ N.of_nat (length cols) * d = colsum e cols).
Proof.
  induction fuel as [|f IH]; intros cols; cbn [wal_reduce].
  - apply okp_ret.
    + split; auto. intros H. apply max_height_Forall. lia.
    + intros e. exists 0. lia.
  - destruct (Nat.ltb 2 (max_height cols)) eqn:E.
    + apply Nat.ltb_lt in E.
      eapply okp_bind; [apply okp_wal_round|]. intros cols1 [L1 HM]. cbv beta.
      eapply okp_weaken; [apply IH| |].
      * intros cols' [L H]. split; [congruence|]. intros Hf. apply H.
        apply max_height_Forall.
        eapply Forall_impl; [|apply (HM (max_height cols)); [lia | cbn; lia | apply max_height_Forall; lia]].
        cbv beta. intros c Hc. lia.
      * cbv beta. intros cols' e _ [d Hd] [d1 Hd1]. rewrite L1 in Hd. cbn [cnt] in Hd1.
        exists (d + d1). nia.
    + apply Nat.ltb_ge in E. apply okp_ret.
      * split; auto. intros _. apply max_height_Forall. lia.
      * intros e. exists 0. lia.
Qed.

(* ---------- (4) the two rows of the final addition ---------- *)
Lemma okm_row1 t (col : list wire) :
  okm t (match col with w :: _ => ret w | [] => zero_wire end)
      (fun r e => N.b2n (e r) = match col with w :: _ => N.b2n (e w) | [] => 0 end).
Proof.
  destruct col as [|w ?].
  - eapply okm_weaken; [apply okm_zero|]. cbv beta. intros r e H. rewrite H. reflexivity.
  - apply okm_ret. reflexivity.
Qed.

Lemma okm_row2 t (col : list wire) :
  okm t (match col with _ :: w :: _ => ret w | _ => zero_wire end)
      (fun r e => N.b2n (e r) = match col with _ :: w :: _ => N.b2n (e w) | _ => 0 end).
Proof.
  destruct col as [|w1 [|w2 ?]].
  - eapply okm_weaken; [apply okm_zero|]. cbv beta. intros r e H. rewrite H. reflexivity.
  - eapply okm_weaken; [apply okm_zero|]. cbv beta. intros r e H. rewrite H. reflexivity.
  - apply okm_ret. reflexivity.
Qed.

Lemma okp_wal_rows t : forall cols,
  okp t (wal_rows cols)
      (fun r => length (fst r) = length cols /\ length (snd r) = length cols)
      (fun r e => Forall (fun c : list wire => (length c <= 2)%nat) cols ->
                  valN e (fst r) + valN e (snd r) = colsum e cols).
Proof.
  induction cols as [|col rest IH]; cbn [wal_rows].
  - apply okp_ret; [split; reflexivity | intros e _; reflexivity].
  - wstep okm_row1. rename a into r1. wstep okm_row2. rename a into r2.
    eapply okp_bind; [apply IH|]. intros [ra rb] [La Lb]. cbv beta iota.
    cbn [fst snd] in La, Lb.
    apply okp_ret.
    + cbn [fst snd length]. split; congruence.
    + intros e HI H2 H1 HF. inversion HF; subst. cbn [fst snd] in *.
      rewrite !valN_cons. cbn [colsum]. specialize (HI H4).
      destruct col as [|w1 [|w2 [|w3 ?]]]; cbn [cnt length] in *; lia.
Qed.

(* ---------- (5) NewWallaceMultiplier ---------- *)
Lemma wal_mod_arith F X d va vb p :
  0 < p -> F + p * X + p * p * d = (va mod p) * (vb mod p) -> F mod p = (va * vb) mod p.
Proof.
  intros Hp H. assert (Hp0 : p <> 0) by lia.
  rewrite (N.mul_mod va vb p Hp0), <- H.
  replace (F + p * X + p * p * d) with (F + (X + p * d) * p) by ring.
  rewrite N.mod_add by exact Hp0. reflexivity.
Qed.

(* r = (a * b) mod 2^len(r) for every len(a), len(b) and len(r) >= 1 *)
Theorem okm_wallace_multiplier : forall t a b r, (1 <= length r)%nat ->
  okm t (wallace_multiplier a b r)
      (fun r' e => length r' = length r /\
                   valN e r' = (valN e a * valN e b) mod 2 ^ N.of_nat (length r)).
Proof.
  intros t a b r Hr. unfold wallace_multiplier. cbv zeta.
  remember (length r) as n eqn:En.
  eapply okm_bind_p; [apply okp_pad|]. intros a1 Sa. cbv beta.
  eapply okm_bind_p; [apply okp_pad|]. intros b1 Sb. cbv beta.
  pose proof (pad_shape_len _ _ _ Sa) as La. pose proof (pad_shape_len _ _ _ Sb) as Lb.
  remember (firstn n a1) as a2 eqn:Ea2. remember (firstn n b1) as b2 eqn:Eb2.
  assert (La2 : length a2 = n) by (subst a2; rewrite firstn_length; lia).
  assert (Lb2 : length b2 = n) by (subst b2; rewrite firstn_length; lia).
  eapply okm_bind_p; [apply okp_wal_pp|]. intros cols0 [L0 J0]. cbv beta.
  rewrite repeat_length in L0.
  assert (H0 : (max_height cols0 <= 2 * n + 8 + 2)%nat).
  { apply max_height_Forall. apply Forall_nth_len. intros j.
    pose proof (J0 j) as J. rewrite nth_repeat_nil in J. cbn [length] in J.
    rewrite La2 in J. clear - J. unfold wire in *. lia. }
  eapply okm_bind_p; [apply okp_wal_reduce|]. intros cols1 [L1 F1]. cbv beta.
  specialize (F1 H0).
  eapply okm_bind_p; [apply okp_wal_rows|]. intros [row1 row2] [Lr1 Lr2]. cbv beta iota.
  cbn [fst snd] in Lr1, Lr2. rewrite firstn_length in Lr1, Lr2.
  eapply okm_weaken; [apply okm_ks_adder; unfold wire in *; lia|].
  cbv beta. intros r' e [Hlen Hval] Hrows [d Hred] Hpp Zb Za.
  rewrite <- En in Hlen, Hval. split; [exact Hlen|].
  cbn [fst snd] in Hrows. specialize (Hrows (Forall_firstn_w _ _ _ F1)).
  rewrite repeat_length in Hpp. rewrite colsum_repeat_nil in Hpp.
  specialize (Hpp ltac:(unfold wire in *; lia)).
  change (2 ^ N.of_nat 0) with 1 in Hpp. rewrite N.add_0_l, N.mul_1_l in Hpp.
  assert (Va : valN e a2 = valN e a mod 2 ^ N.of_nat n).
  { rewrite Ea2, valN_firstn. f_equal. exact (pad_val e a1 a n Sa Za). }
  assert (Vb : valN e b2 = valN e b mod 2 ^ N.of_nat n).
  { rewrite Eb2, valN_firstn. f_equal. exact (pad_val e b1 b n Sb Zb). }
  rewrite Hval, Hrows.
  pose proof (colsum_app e (firstn n cols1) (skipn n cols1)) as HS.
  rewrite firstn_skipn, firstn_length in HS.
  replace (Nat.min n (length cols1)) with n in HS by lia.
  rewrite L0 in Hred.
  assert (HP2 : 2 ^ N.of_nat (2 * n) = 2 ^ N.of_nat n * 2 ^ N.of_nat n).
  { rewrite <- N.pow_add_r. f_equal. lia. }
  apply (wal_mod_arith _ (colsum e (skipn n cols1)) d); [apply pow2_pos|].
  rewrite <- Va, <- Vb, <- Hpp, <- Hred, HS, HP2. reflexivity.
Qed.

(* NewMultiplier under the GMW target is the Wallace multiplier *)
Corollary okm_new_multiplier_gmw tbl thr x y z : (1 <= length z)%nat ->
  okm true (new_multiplier tbl thr x y z)
      (fun z' e => length z' = length z /\
                   valN e z' = (valN e x * valN e y) mod 2 ^ N.of_nat (length z)).
Proof.
  intros Hz s W G. unfold new_multiplier, bind, target_gmw. rewrite G.
  apply (okm_wallace_multiplier true x y z Hz s W G).
Qed.
