(* StructDiv.v — structural lemmas (single assignment, defined before use) for
   NewUDividerLong / NewUDivider / NewIDivider (Yao target), for every width,
   and the theorems about the EVALUATED divider circuits. *)
From Coq Require Import NArith List Bool Arith Lia.
From Mpc Require Import Builders.Emit Builders.EmitProof Builders.StructProof Builders.StructAdder
  Builders.StructArith Builders.Adder Builders.Sub Builders.Mux Builders.Div
  Builders.AdderProof Builders.SubProof Builders.MuxProof Builders.DivProof.
Import ListNotations.
Open Scope N_scope.

(* ---------- list helpers ---------- *)
Lemma NoDup_app_iff' {A} (a b : list A) :
  NoDup (a ++ b) <-> NoDup a /\ NoDup b /\ (forall w, In w a -> ~ In w b).
Proof.
  induction a as [|x a IH]; cbn.
  - split; [intros H; split; [constructor|split; [auto|intros w []]] | intros (_ & H & _); auto].
  - rewrite !NoDup_cons_iff, IH, in_app_iff. split.
    + intros (N & Na & Nb & Hd). split; [split; auto|]. split; [auto|].
      intros w [E|Hw]; [subst; auto|auto].
    + intros ((N & Na) & Nb & Hd). split; [|split; [auto|split; auto]].
      intros [H|H]; [auto|]. apply (Hd x); auto.
Qed.

Lemma firstn_S_split {A} : forall i (q : list A),
  firstn (S i) q = firstn i q ++ firstn 1 (skipn i q).
Proof.
  induction i; intros [|a q]; try reflexivity.
  cbn [firstn skipn app]. rewrite <- IHi. reflexivity.
Qed.

Lemma removelast_Forall {A} (P : A -> Prop) : forall l, Forall P l -> Forall P (removelast l).
Proof.
  induction l as [|a l IH]; intros F; cbn; auto. destruct l; [constructor|].
  inversion F; subst. constructor; auto.
Qed.

Lemma removelast_len {A} : forall (l : list A), length (removelast l) = (length l - 1)%nat.
Proof.
  induction l as [|a l IH]; cbn; auto. destruct l; cbn in *; auto. lia.
Qed.

Lemma skipn_last1 {A} (l : list A) : (1 <= length l)%nat ->
  exists c, skipn (length l - 1) l = [c] /\ In c l.
Proof.
  intros H. assert (L : length (skipn (length l - 1) l) = 1%nat) by (rewrite skipn_length; lia).
  destruct (skipn (length l - 1) l) as [|c [|? ?]] eqn:E; try discriminate.
  exists c. split; auto. apply (skipn_In' (length l - 1)). rewrite E. cbn. auto.
Qed.

Lemma firstn_min_len {A} (l : list A) n : firstn (Nat.min (length l) n) l = firstn n l.
Proof.
  destruct (le_lt_dec (length l) n).
  - rewrite Nat.min_l by lia. rewrite firstn_all, firstn_all2 by lia. reflexivity.
  - rewrite Nat.min_r by lia. reflexivity.
Qed.

Section D.
Variable ninp : N.
Notation defd := (defd ninp). Notation pend := (pend ninp). Notation wfst := (wfst ninp).
Notation step := (step ninp). Notation oks := (@oks ninp _).

(* wires allocated after s never matter for a step from s *)
Lemma step_weaken_fresh s s' w1 w2 :
  step s s' w1 -> (forall w, In w w1 -> In w w2 \/ next s <= w) -> step s s' w2.
Proof.
  intros (A & B & C) I. split; [auto|]. split; [auto|]. intros x P N. apply C; auto.
  intros Hin. destruct (I _ Hin) as [H|H]; [auto|]. pose proof (pend_next _ _ _ P). lia.
Qed.

(* q[i] = NOT borrow *)
Lemma qbit_s s c i q :
  wfst s -> defd s c -> Forall (pend s) (firstn 1 (skipn i q)) ->
  oks (if Nat.ltb i (length q)
       then bind zero_wire (fun z => bind one_wire (fun o =>
              new_mux [c] [z] [o] (firstn 1 (skipn i q))))
       else ret tt) s
      (fun _ s' => step s s' (firstn 1 (skipn i q)) /\ Forall (defd s') (firstn 1 (skipn i q))).
Proof.
  intros W Dc Pq. destruct (Nat.ltb i (length q)) eqn:E.
  - apply Nat.ltb_lt in E.
    assert (L : length (firstn 1 (skipn i q)) = 1%nat) by (rewrite firstn_length, skipn_length; lia).
    destruct (firstn 1 (skipn i q)) as [|qi [|? ?]]; try discriminate.
    sbind zero_s. intros z s1 W1 (S1 & Dz). cbv beta.
    sbind one_s. intros o s2 W2 (S2 & Do). cbv beta.
    assert (Pq2 : Forall (pend s2) [qi]).
    { eapply Forall_pend_step; [exact S2| |auto]. eapply Forall_pend_step; [exact S1|exact Pq|auto]. }
    eapply oks_conseq; [apply new_mux_s; auto|].
    + sd.
    + constructor; [sd|constructor].
    + constructor; [intros []|constructor].
    + cbv beta. intros _ s3 W3 (S3 & F3). split; auto.
      eapply step_weaken; [eapply step_trans; [exact S1|eapply step_trans; [exact S2|exact S3]]|].
      cbn. apply incl_refl.
  - apply Nat.ltb_ge in E. rewrite skipn_all2 by lia. cbn. apply oks_ret; auto.
    split; [apply step_refl|constructor].
Qed.

(* the destination of the remainder MUX: fresh wires, or (last iteration) rret *)
Lemma nr_s s i rret n :
  wfst s -> Forall (pend s) rret -> NoDup rret ->
  oks (if Nat.eqb i 0
       then bind (fresh_n (n - Nat.min (length rret) n))
                 (fun fr => ret (firstn (Nat.min (length rret) n) rret ++ fr))
       else fresh_n n) s
      (fun nr s' => step s s' [] /\ Forall (pend s') nr /\ NoDup nr /\ length nr = n /\
         (forall w, In w nr -> next s <= w \/ (i = 0%nat /\ In w rret)) /\
         (i = 0%nat -> firstn (Nat.min (length rret) n) nr = firstn (Nat.min (length rret) n) rret)).
Proof.
  intros W Pr ND. destruct (Nat.eqb i 0) eqn:E.
  - apply Nat.eqb_eq in E. set (k := Nat.min (length rret) n).
    sbind fresh_n_s. intros fr s1 W1 (S1 & NDf & Lf & Pf). cbv beta.
    apply oks_ret; auto. split; [exact S1|].
    assert (Lk : length (firstn k rret) = k) by (rewrite firstn_length; unfold k; lia).
    split; [|split; [|split; [|split]]].
    + apply Forall_app. split.
      * eapply Forall_pend_step; [exact S1|apply firstn_Forall'; exact Pr|auto].
      * apply Forall_forall. intros w Hw. apply Pf; auto.
    + apply NoDup_app_iff'. split; [apply firstn_NoDup'; auto|]. split; [auto|].
      intros w H1 H2. apply firstn_In' in H1. rewrite Forall_forall in Pr.
      pose proof (pend_next _ _ _ (Pr _ H1)). destruct (Pf _ H2). lia.
    + rewrite app_length, Lk, Lf. unfold k. lia.
    + intros w Hw. apply in_app_iff in Hw. destruct Hw as [H|H].
      * right. split; auto. eapply firstn_In'; eauto.
      * left. apply Pf; auto.
    + intros _. rewrite firstn_app, firstn_firstn, Nat.min_id, Lk, Nat.sub_diag. cbn.
      apply app_nil_r.
  - apply Nat.eqb_neq in E.
    eapply oks_conseq; [apply fresh_n_s; auto|]. cbv beta.
    intros nr s1 W1 (S1 & NDf & Lf & Pf). split; auto. split; [|split; [auto|split; [auto|split]]].
    + apply Forall_forall. intros w Hw. apply Pf; auto.
    + intros w Hw. left. apply Pf; auto.
    + intros; contradiction.
Qed.

(* the restoring-division loop.  The index of the first iteration is
   length ra - 1; destinations: q[0..length ra - 1] and rret. *)
Lemma udiv_long_loop_s : forall ra b q rret r s,
  gmw s = false -> wfst s ->
  Forall (defd s) ra -> Forall (defd s) b -> Forall (defd s) r -> (1 <= length r)%nat ->
  Forall (pend s) (firstn (length ra) q ++ rret) -> NoDup (firstn (length ra) q ++ rret) ->
  oks (udiv_long_loop ra (length ra - 1) b q rret r) s
      (fun _ s' => step s s' (firstn (length ra) q ++ rret) /\
                   (ra <> [] -> Forall (defd s') (firstn (length ra) q) /\
                                Forall (defd s') (firstn (Nat.min (length rret) (length r)) rret))).
Proof.
  induction ra as [|ai ra IH]; intros b q rret r s G W Fa Fb Fr Lr Po ND.
  - cbn. apply oks_ret; auto.
    split; [eapply step_weaken; [apply step_refl|apply incl_nil_any]|congruence].
  - cbn [udiv_long_loop]. cbv zeta.
    remember (ai :: removelast r) as r1 eqn:Er1.
    cbn [length] in Po, ND |- *.
    replace (S (length ra) - 1)%nat with (length ra) by lia.
    remember (length ra) as i eqn:Ei in Po, ND |- *.
    assert (Lr1 : length r1 = length r) by (subst r1; cbn; rewrite removelast_len; lia).
    apply Forall_cons_iff in Fa as (Dai & Fa').
    assert (Fr1 : Forall (defd s) r1) by (subst r1; constructor; [auto|apply removelast_Forall; auto]).
    clear Er1.
    rewrite (firstn_S_split i q) in Po, ND |- *.
    set (Qi := firstn 1 (skipn i q)) in *. set (Q := firstn i q) in *.
    apply Forall_app in Po as (PQQ & Prr). apply Forall_app in PQQ as (PQ & PQi).
    apply NoDup_app_iff' in ND as (NDQQ & NDrr & DjR).
    apply NoDup_app_iff' in NDQQ as (NDQ & NDQi & DjQ).
    assert (ND' : NoDup (Q ++ rret)).
    { apply NoDup_app_iff'. split; [auto|split; [auto|]]. intros w H. apply DjR, in_or_app; auto. }
    assert (Dj : forall w, In w Qi -> ~ In w (Q ++ rret)).
    { intros w H H'. apply in_app_or in H'. destruct H' as [H'|H'].
      - apply (DjQ w); auto.
      - apply (DjR w); auto. apply in_or_app; auto. }
    sbind fresh_n_s. intros diff0 s1 W1 (S1 & ND0 & L0 & P0). cbv beta.
    assert (G1 : gmw s1 = false) by (rewrite (step_gmw _ _ _ _ S1); auto).
    eapply oks_bind; [apply new_subtractor_yao_s; auto|].
    + eapply Forall_defd_step; eauto.
    + eapply Forall_defd_step; eauto.
    + apply Forall_forall. intros w Hw. apply P0; auto.
    + lia.
    + lia.
    + intros diff s2 W2 (S2 & Fd & Ld). cbv beta.
      destruct (skipn_last1 diff) as (c & Ec & Ic); [lia|]. rewrite Ec.
      assert (Dc : defd s2 c) by (rewrite Forall_forall in Fd; auto).
      assert (S02 : step s s2 []).
      { eapply step_weaken_fresh; [eapply step_trans; [exact S1|exact S2]|].
        cbn [app]. intros w Hw. right. apply P0; auto. }
      eapply oks_bind; [apply (qbit_s s2 c i q); auto|].
      { eapply Forall_pend_step; [exact S02|exact PQi|auto]. }
      intros _ s3 W3 (S3 & FQ). cbv beta. fold Qi in S3, FQ.
      pose proof (step_trans _ _ _ _ _ _ S02 S3) as S03. cbn [app] in S03.
      eapply oks_bind; [apply (nr_s s3 i rret (length r1)); auto|].
      { eapply Forall_pend_step; [exact S03|exact Prr|].
        intros w H H'. apply (Dj w H'). apply in_or_app; auto. }
      intros nr s4 W4 (S4 & Pn & NDn & Ln & Hn & Hk). cbv beta.
      pose proof (step_trans _ _ _ _ _ _ S03 S4) as S04. rewrite app_nil_r in S04.
      eapply oks_bind; [apply new_mux_s; auto|].
      { eapply step_defd; [exact S4|]. eapply step_defd; [exact S3|exact Dc]. }
      { eapply Forall_defd_step; [exact S04|auto]. }
      { apply firstn_Forall'. eapply Forall_defd_step; [exact S4|].
        eapply Forall_defd_step; [exact S3|auto]. }
      { rewrite firstn_length. lia. }
      intros _ s5 W5 (S5 & Fn). cbv beta.
      pose proof (step_trans _ _ _ _ _ _ S04 S5) as S05.
      assert (FQ5 : Forall (defd s5) Qi).
      { eapply Forall_defd_step; [exact S5|]. eapply Forall_defd_step; [exact S4|auto]. }
      pose proof (step_next _ _ _ _ S03) as N03.
      destruct ra as [|a2 ra'].
      * (* last iteration: i = 0 *)
        cbn in Ei. cbn [udiv_long_loop]. apply oks_ret; auto. split.
        -- eapply step_weaken_fresh; [exact S05|]. intros w Hw.
           apply in_app_or in Hw. destruct Hw as [Hw|Hw].
           ++ left. apply in_or_app. left. apply in_or_app. auto.
           ++ destruct (Hn _ Hw) as [H|(_ & H)]; [right; lia|left; apply in_or_app; auto].
        -- intros _. split; [apply Forall_app; split; [unfold Q; rewrite Ei; constructor|exact FQ5]|].
           rewrite <- Lr1, <- (Hk Ei). apply firstn_Forall'. exact Fn.
      * assert (Hi : i <> 0%nat) by (subst i; discriminate).
        assert (S05' : step s s5 Qi).
        { eapply step_weaken_fresh; [exact S05|]. intros w Hw.
          apply in_app_or in Hw. destruct Hw as [Hw|Hw]; [auto|].
          destruct (Hn _ Hw) as [H|(H & _)]; [right; lia|contradiction]. }
        subst i.
        eapply oks_conseq; [apply (IH b q rret nr s5); auto|].
        -- rewrite (step_gmw _ _ _ _ S05'); auto.
        -- eapply Forall_defd_step; [exact S05'|auto].
        -- eapply Forall_defd_step; [exact S05'|auto].
        -- lia.
        -- eapply Forall_pend_step; [exact S05'|apply Forall_app; split; [exact PQ|exact Prr]|].
           intros w H H'. apply (Dj w H' H).
        -- cbv beta. intros _ s6 W6 (S6 & F6). fold Q in S6, F6.
           destruct F6 as (F6q & F6r); [discriminate|]. split.
           ++ eapply step_weaken; [eapply step_trans; [exact S05'|exact S6]|].
              intros w Hw. apply in_app_or in Hw. destruct Hw as [Hw|Hw].
              ** apply in_or_app. left. apply in_or_app. auto.
              ** apply in_app_or in Hw. destruct Hw as [Hw|Hw].
                 --- apply in_or_app. left. apply in_or_app. auto.
                 --- apply in_or_app. auto.
           ++ intros _. split.
              ** apply Forall_app. split; [exact F6q|]. eapply Forall_defd_step; [exact S6|exact FQ5].
              ** rewrite Ln, Lr1 in F6r. exact F6r.
Qed.

(* NewUDividerLong: destinations q ++ rret; the low max(len a, len b) wires of q
   and of rret are driven *)
Lemma udivider_long_s s a b q rret :
  gmw s = false -> wfst s -> Forall (defd s) a -> Forall (defd s) b ->
  Forall (pend s) (q ++ rret) -> NoDup (q ++ rret) ->
  (1 <= Nat.max (length a) (length b))%nat ->
  oks (udivider_long a b q rret) s
      (fun _ s' => step s s' (q ++ rret) /\
                   Forall (defd s') (firstn (Nat.max (length a) (length b)) q) /\
                   Forall (defd s') (firstn (Nat.max (length a) (length b)) rret)).
Proof.
  intros G W Fa Fb Po ND Hm. unfold udivider_long.
  sbind zero_pad_s. intros [a' b'] s1 W1 (S1 & Fa' & Fb' & La & Lb). cbn [fst snd] in *.
  cbv beta iota.
  set (n := Nat.max (length a) (length b)) in *.
  replace (Nat.eqb (length a') 0) with false by (symmetry; apply Nat.eqb_neq; lia).
  eapply oks_bind with (P := fun r s2 => step s1 s2 [] /\ exists z, defd s2 z /\ r = repeat z (length a')).
  { sbind zero_s. intros z s2 W2 (S2 & Dz). cbv beta.
    apply oks_ret; [exact W2|]. split; [exact S2|]. exists z. auto. }
  cbv beta. intros r s2 W2 (S2 & z & Dz & Er).
  pose proof (step_trans _ _ _ _ _ _ S1 S2) as S02. cbn [app] in S02.
  replace (length a' - 1)%nat with (length (rev a') - 1)%nat by (rewrite rev_length; reflexivity).
  apply Forall_app in Po as (Pq & Pr). apply NoDup_app_iff' in ND as (NDq & NDr & Dj).
  eapply oks_conseq; [apply udiv_long_loop_s; auto|].
  - rewrite (step_gmw _ _ _ _ S02). exact G.
  - apply Forall_forall. intros w Hw. apply in_rev in Hw. rewrite Forall_forall in Fa'.
    eapply step_defd; [exact S2|auto].
  - eapply Forall_defd_step; [exact S2|auto].
  - rewrite Er. apply Forall_defd_repeat; auto.
  - rewrite Er, repeat_length. lia.
  - eapply Forall_pend_step; [exact S02| |auto].
    apply Forall_app. split; [apply firstn_Forall'; auto|auto].
  - apply NoDup_app_iff'. split; [apply firstn_NoDup'; auto|]. split; [auto|].
    intros w Hw. apply Dj. eapply firstn_In'; eauto.
  - cbv beta. rewrite rev_length, La. intros _ s3 W3 (S3 & F3). split.
    + eapply step_weaken; [eapply step_trans; [exact S02|exact S3]|]. cbn [app].
      intros w Hw. apply in_app_or in Hw. apply in_or_app.
      destruct Hw as [Hw|Hw]; [left; eapply firstn_In'; eauto|auto].
    + destruct F3 as (F3q & F3r).
      { intros E. apply (f_equal (@length wire)) in E. rewrite rev_length in E. cbn in E. lia. }
      split; [exact F3q|]. rewrite Er, repeat_length, La, firstn_min_len in F3r. exact F3r.
Qed.

Lemma new_udivider_yao_s s a b q rret :
  gmw s = false -> wfst s -> Forall (defd s) a -> Forall (defd s) b ->
  Forall (pend s) (q ++ rret) -> NoDup (q ++ rret) ->
  (1 <= Nat.max (length a) (length b))%nat ->
  oks (new_udivider a b q rret) s
      (fun _ s' => step s s' (q ++ rret) /\
                   Forall (defd s') (firstn (Nat.max (length a) (length b)) q) /\
                   Forall (defd s') (firstn (Nat.max (length a) (length b)) rret)).
Proof.
  intros G W Fa Fb Po ND Hm.
  destruct (udivider_long_s s a b q rret G W Fa Fb Po ND Hm) as (u & s' & E & W' & Q).
  exists u, s'. split; [|auto]. unfold new_udivider, bind, target_gmw. rewrite G. exact E.
Qed.

(* equal widths (the case covered by the semantic theorem): q and rret are fully driven *)
Corollary new_udivider_yao_eq_s s a b q rret :
  gmw s = false -> wfst s -> Forall (defd s) a -> Forall (defd s) b ->
  Forall (pend s) (q ++ rret) -> NoDup (q ++ rret) ->
  (1 <= length a)%nat -> length b = length a -> length q = length a -> length rret = length a ->
  oks (new_udivider a b q rret) s
      (fun _ s' => step s s' (q ++ rret) /\ Forall (defd s') q /\ Forall (defd s') rret).
Proof.
  intros G W Fa Fb Po ND Ha Lb Lq Lr.
  eapply oks_conseq; [apply new_udivider_yao_s; auto; lia|].
  cbv beta. intros _ s' W' (S & Fq & Fr). rewrite Lb, Nat.max_id in Fq, Fr.
  rewrite firstn_all2 in Fq, Fr by lia. auto.
Qed.

End D.

(* walk back along the step hypotheses *)
Ltac sdb :=
  match goal with
  | H : defd _ ?s ?w |- defd _ ?s ?w => exact H
  | S : step _ ?s0 ?s _ |- defd _ ?s ?w => apply (step_defd _ _ _ _ _ S); sdb
  end.
Ltac sfd :=
  match goal with
  | H : Forall (defd _ ?s) ?l |- Forall (defd _ ?s) ?l => exact H
  | S : step _ ?s0 ?s _ |- Forall (defd _ ?s) ?l => apply (Forall_defd_step _ _ _ _ _ S); sfd
  end.
(* S0 : step s sj [], Sk : step sj sk wr with wr allocated after s  ==>  nm : step s sk [] *)
Ltac adv S0 Sk nm tac :=
  pose proof (step_next _ _ _ _ S0);
  pose proof (step_weaken_fresh _ _ _ _ [] (step_trans _ _ _ _ _ _ S0 Sk)) as nm;
  cbn [app] in nm;
  lapply nm; [clear nm; intro nm | intros ?w ?Hw; right; tac].
Ltac fr1 := idtac; match goal with Hw : In _ [_] |- _ => destruct Hw as [<-|[]]; sfacts; unfold wire in *; lia end.
Ltac frn P := idtac; match goal with Hw : In _ _ |- _ => apply P in Hw; destruct Hw; sfacts; unfold wire in *; lia end.

Section I.
Variable ninp : N.
Notation defd := (defd ninp). Notation pend := (pend ninp). Notation wfst := (wfst ninp).
Notation step := (step ninp). Notation oks := (@oks ninp _).

Lemma Forall_pend_of s (ws : list wire) (X : wire -> Prop) :
  (forall w, In w ws -> pend s w /\ X w) -> Forall (pend s) ws.
Proof. intros H. apply Forall_forall. intros w Hw. apply H; auto. Qed.

(* NewIDivider (Yao target), equal widths *)
Lemma new_idivider_yao_s s a b q r :
  gmw s = false -> wfst s -> Forall (defd s) a -> Forall (defd s) b ->
  Forall (pend s) (q ++ r) -> NoDup (q ++ r) ->
  (1 <= length a)%nat -> length b = length a -> length q = length a -> length r = length a ->
  oks (new_idivider a b q r) s
      (fun _ s' => step s s' (q ++ r) /\ Forall (defd s') q /\ Forall (defd s') r).
Proof.
  intros G W Fa Fb Po ND Ha Lb Lq Lr. unfold new_idivider.
  apply Forall_app in Po as (Pq & Pr). apply NoDup_app_iff' in ND as (NDq & NDr & Dj).
  sbind zero_pad_s. intros [a' b'] s1 W1 (S1 & Fa' & Fb' & La' & Lb'). cbn [fst snd] in *.
  cbv beta iota zeta. rewrite Lb, Nat.max_id in La', Lb'.
  sbind zero_s. intros z0 s2 W2 (S2 & Dz0). cbv beta.
  destruct (skipn_last1 a') as (ca & Eca & Ica); [lia|].
  destruct (skipn_last1 b') as (cb & Ecb & Icb); [lia|].
  rewrite Eca, Ecb.
  assert (Dca : defd s1 ca) by (rewrite Forall_forall in Fa'; auto).
  assert (Dcb : defd s1 cb) by (rewrite Forall_forall in Fb'; auto).
  pose proof (step_trans _ _ _ _ _ _ S1 S2) as S02. cbn [app] in S02.
  (* neg1 = INV(neg0) *)
  sbind fresh_s. intros neg1 s3 W3 (E3 & P3 & S3 & N3). cbv beta.
  pose proof (step_trans _ _ _ _ _ _ S02 S3) as S03. cbn [app] in S03.
  eapply oks_bind; [apply cc_inv_s; [auto|sdb|exact P3]|]. intros _ s4 W4 (S4 & D4). cbv beta.
  adv S03 S4 S04 fr1.
  (* a1 = 0 - a *)
  sbind fresh_n_s. intros a10 s5 W5 (S5 & ND5 & L5 & P5). cbv beta.
  pose proof (step_trans _ _ _ _ _ _ S04 S5) as S05. cbn [app] in S05.
  eapply oks_bind; [apply new_subtractor_yao_s; auto|].
  { rewrite (step_gmw _ _ _ _ S05). exact G. }
  { constructor; [sdb|constructor]. }
  { sfd. }
  { eapply Forall_pend_of; eauto. }
  { lia. }
  { cbn [length]. lia. }
  intros a1 s6 W6 (S6 & F6 & L6). cbv beta.
  adv S05 S6 S06 ltac:(frn P5).
  (* neg2 = a[last] ? neg1 : neg0 *)
  sbind fresh_s. intros neg2 s7 W7 (E7 & P7 & S7 & N7). cbv beta.
  pose proof (step_trans _ _ _ _ _ _ S06 S7) as S07. cbn [app] in S07.
  eapply oks_bind; [apply new_mux_s; auto|].
  { sdb. }
  { constructor; [sdb|constructor]. }
  { constructor; [sdb|constructor]. }
  { constructor; [intros []|constructor]. }
  intros _ s8 W8 (S8 & F8). cbv beta.
  assert (D8 : defd s8 neg2) by (apply Forall_cons_iff in F8 as (D & _); exact D).
  adv S07 S8 S08 fr1.
  (* a2 = a[last] ? a1 : a *)
  sbind fresh_n_s. intros a2 s9 W9 (S9 & ND9 & L9 & P9). cbv beta.
  pose proof (step_trans _ _ _ _ _ _ S08 S9) as S09. cbn [app] in S09.
  eapply oks_bind; [apply new_mux_s; auto|].
  { sdb. }
  { sfd. }
  { sfd. }
  { eapply Forall_pend_of; eauto. }
  { lia. }
  intros _ s10 W10 (S10 & F10). cbv beta.
  adv S09 S10 S010 ltac:(frn P9).
  (* neg3 = INV(neg2) *)
  sbind fresh_s. intros neg3 s11 W11 (E11 & P11 & S11 & N11). cbv beta.
  pose proof (step_trans _ _ _ _ _ _ S010 S11) as S011. cbn [app] in S011.
  eapply oks_bind; [apply cc_inv_s; [auto|sdb|exact P11]|]. intros _ s12 W12 (S12 & D12). cbv beta.
  adv S011 S12 S012 fr1.
  (* b1 = 0 - b *)
  sbind fresh_n_s. intros b10 s13 W13 (S13 & ND13 & L13 & P13). cbv beta.
  pose proof (step_trans _ _ _ _ _ _ S012 S13) as S013. cbn [app] in S013.
  eapply oks_bind; [apply new_subtractor_yao_s; auto|].
  { rewrite (step_gmw _ _ _ _ S013). exact G. }
  { constructor; [sdb|constructor]. }
  { sfd. }
  { eapply Forall_pend_of; eauto. }
  { lia. }
  { cbn [length]. lia. }
  intros b1 s14 W14 (S14 & F14 & L14). cbv beta.
  adv S013 S14 S014 ltac:(frn P13).
  (* neg4 = b[last] ? neg3 : neg2 *)
  sbind fresh_s. intros neg4 s15 W15 (E15 & P15 & S15 & N15). cbv beta.
  pose proof (step_trans _ _ _ _ _ _ S014 S15) as S015. cbn [app] in S015.
  eapply oks_bind; [apply new_mux_s; auto|].
  { sdb. }
  { constructor; [sdb|constructor]. }
  { constructor; [sdb|constructor]. }
  { constructor; [intros []|constructor]. }
  intros _ s16 W16 (S16 & F16). cbv beta.
  assert (D16 : defd s16 neg4) by (apply Forall_cons_iff in F16 as (D & _); exact D).
  adv S015 S16 S016 fr1.
  (* b2 = b[last] ? b1 : b *)
  sbind fresh_n_s. intros b2 s17 W17 (S17 & ND17 & L17 & P17). cbv beta.
  pose proof (step_trans _ _ _ _ _ _ S016 S17) as S017. cbn [app] in S017.
  eapply oks_bind; [apply new_mux_s; auto|].
  { sdb. }
  { sfd. }
  { sfd. }
  { eapply Forall_pend_of; eauto. }
  { lia. }
  intros _ s18 W18 (S18 & F18). cbv beta.
  adv S017 S18 S018 ltac:(frn P17).
  replace (Nat.eqb (length q) 0) with false by (symmetry; apply Nat.eqb_neq; lia).
  (* unsigned division into q0, r *)
  sbind fresh_n_s. intros q0 s19 W19 (S19 & ND19 & L19 & P19). cbv beta.
  pose proof (step_trans _ _ _ _ _ _ S018 S19) as S019. cbn [app] in S019.
  pose proof (step_next _ _ _ _ S018) as N018.
  assert (Pr19 : Forall (pend s19) r) by (eapply Forall_pend_step; [exact S019|exact Pr|auto]).
  eapply oks_bind; [apply (new_udivider_yao_eq_s ninp s19 a2 b2 q0 r); auto|].
  { rewrite (step_gmw _ _ _ _ S019). exact G. }
  { sfd. }
  { sfd. }
  { apply Forall_app. split; [eapply Forall_pend_of; eauto|exact Pr19]. }
  { apply NoDup_app_iff'. split; [auto|split; [auto|]]. intros w I1 I2.
    apply P19 in I1. destruct I1 as (_ & I1). rewrite Forall_forall in Pr.
    pose proof (pend_next _ _ _ (Pr _ I2)). unfold wire in *. lia. }
  { lia. }
  { lia. }
  { lia. }
  { lia. }
  intros _ s20 W20 (S20 & Fq0 & Fr20). cbv beta.
  assert (S020 : step s s20 r).
  { eapply step_weaken_fresh; [eapply step_trans; [exact S019|exact S20]|]. cbn [app].
    intros w Hw. apply in_app_or in Hw. destruct Hw as [Hw|Hw]; [right|left; exact Hw].
    apply P19 in Hw. destruct Hw. unfold wire in *. lia. }
  (* q1 = 0 - q0;  q = neg4 ? q1 : q0 *)
  sbind fresh_n_s. intros q10 s21 W21 (S21 & ND21 & L21 & P21). cbv beta.
  pose proof (step_trans _ _ _ _ _ _ S020 S21) as S021. rewrite app_nil_r in S021.
  eapply oks_bind; [apply new_subtractor_yao_s; auto|].
  { rewrite (step_gmw _ _ _ _ S021). exact G. }
  { constructor; [sdb|constructor]. }
  { sfd. }
  { eapply Forall_pend_of; eauto. }
  { lia. }
  { cbn [length]. lia. }
  intros q1 s22 W22 (S22 & F22 & L22). cbv beta.
  assert (S022 : step s s22 r).
  { pose proof (step_next _ _ _ _ S020).
    eapply step_weaken_fresh; [eapply step_trans; [exact S021|exact S22]|].
    intros w Hw. apply in_app_or in Hw. destruct Hw as [Hw|Hw]; [left; exact Hw|right].
    apply P21 in Hw. destruct Hw. unfold wire in *. lia. }
  eapply oks_conseq; [apply new_mux_s; auto|].
  { sdb. }
  { sfd. }
  { eapply Forall_pend_step; [exact S022|exact Pq|]. intros w I1 I2. apply (Dj w I1 I2). }
  { lia. }
  cbv beta. intros _ s23 W23 (S23 & Fq). split; [|split; [exact Fq|sfd]].
  eapply step_weaken; [eapply step_trans; [exact S022|exact S23]|].
  intros w Hw. apply in_app_or in Hw. apply in_or_app. tauto.
Qed.

End I.

(* ---------- the evaluated unsigned divider ----------
   Harness layout: a = wires 0..n-1, b = n..2n-1 (inputs), q = 2n..3n-1,
   r = 3n..4n-1 (destinations).  For every width n >= 1 and every initial
   assignment e0 the emitted gate list is single-assignment and
   defined-before-use, and for a non-zero divisor evaluating it gate by gate
   yields the quotient and the remainder. *)
Theorem udivider_long_eval (n : nat) (e0 : env) :
  (1 <= n)%nat ->
  let a := wrange 0 n in
  let b := wrange (N.of_nat n) n in
  let ninp := 2 * N.of_nat n in
  let q := wrange ninp n in
  let r := wrange (3 * N.of_nat n) n in
  exists s', udivider_long a b q r (st0 (4 * N.of_nat n) false) = (tt, s') /\
    wfc_b ninp (gates s') = true /\ dbu ninp (gates s') /\
    (valN e0 b <> 0 ->
     valN (eval_rev (gates s') e0) q = valN e0 a / valN e0 b /\
     valN (eval_rev (gates s') e0) r = valN e0 a mod valN e0 b).
Proof.
  intros Hn. cbv zeta.
  set (a := wrange 0 n). set (b := wrange (N.of_nat n) n). set (ninp := 2 * N.of_nat n).
  set (q := wrange ninp n). set (r := wrange (3 * N.of_nat n) n).
  assert (Ia : forall w, In w a -> w < ninp) by (intros w H; apply wrange_In in H; unfold ninp; lia).
  assert (Ib : forall w, In w b -> w < ninp) by (intros w H; apply wrange_In in H; unfold ninp; lia).
  assert (La : length a = n) by apply wrange_length.
  assert (Lb : length b = length a) by (unfold a, b; rewrite !wrange_length; reflexivity).
  assert (Lq : length q = length a) by (unfold a, q; rewrite !wrange_length; reflexivity).
  assert (Lr : length r = length a) by (unfold a, r; rewrite !wrange_length; reflexivity).
  assert (Ha : (1 <= length a)%nat) by lia.
  pose proof (okm_udivider_long a b q r Ha Lb Lq Lr) as Sem.
  assert (Str : @oks ninp unit (udivider_long a b q r) (st0 (4 * N.of_nat n) false)
            (fun _ s' => step ninp (st0 (4 * N.of_nat n) false) s' (q ++ r) /\
                         Forall (defd ninp s') (firstn (Nat.max (length a) (length b)) q) /\
                         Forall (defd ninp s') (firstn (Nat.max (length a) (length b)) r))).
  { apply udivider_long_s; auto.
    - apply wfst_st0; unfold ninp; lia.
    - apply Forall_defd_inputs; auto.
    - apply Forall_defd_inputs; auto.
    - apply Forall_pend_st0. intros w H. apply in_app_or in H.
      destruct H as [H|H]; apply wrange_In in H; unfold ninp in *; lia.
    - apply NoDup_app_iff'. split; [apply wrange_NoDup|]. split; [apply wrange_NoDup|].
      intros w H1 H2. apply wrange_In in H1. apply wrange_In in H2. unfold ninp in *. lia.
    - lia. }
  destruct (run_st0 ninp _ false _ _ _ Sem Str e0) as ([] & s' & E & C & D & _ & P & I).
  exists s'. split; [exact E|]. split; [exact C|]. split; [exact D|].
  rewrite (valN_inputs _ e0 ninp a I Ia), (valN_inputs _ e0 ninp b I Ib) in P. exact P.
Qed.

Theorem new_udivider_yao_eval (n : nat) (e0 : env) :
  (1 <= n)%nat ->
  let a := wrange 0 n in
  let b := wrange (N.of_nat n) n in
  let ninp := 2 * N.of_nat n in
  let q := wrange ninp n in
  let r := wrange (3 * N.of_nat n) n in
  exists s', new_udivider a b q r (st0 (4 * N.of_nat n) false) = (tt, s') /\
    wfc_b ninp (gates s') = true /\ dbu ninp (gates s') /\
    (valN e0 b <> 0 ->
     valN (eval_rev (gates s') e0) q = valN e0 a / valN e0 b /\
     valN (eval_rev (gates s') e0) r = valN e0 a mod valN e0 b).
Proof.
  intros Hn. exact (udivider_long_eval n e0 Hn).
Qed.

(* ---------- the evaluated signed divider (Yao target) ----------
   Same layout.  sa, sb: the sign bits of the operands; A, B: the magnitudes the
   builder feeds to the unsigned divider; the remainder is A mod B and the
   quotient is negated when the signs differ (the postcondition of
   okm_new_idivider, about the gate-by-gate evaluation from e0). *)
Lemma last_In {A} (d : A) : forall l, l <> [] -> In (last l d) l.
Proof.
  induction l as [|x l IH]; intros H; [congruence|].
  destruct l as [|y l]; [cbn; auto|]. right. apply IH. discriminate.
Qed.

Theorem new_idivider_yao_eval (n : nat) (e0 : env) :
  (1 <= n)%nat ->
  let a := wrange 0 n in
  let b := wrange (N.of_nat n) n in
  let ninp := 2 * N.of_nat n in
  let q := wrange ninp n in
  let r := wrange (3 * N.of_nat n) n in
  exists s', new_idivider a b q r (st0 (4 * N.of_nat n) false) = (tt, s') /\
    wfc_b ninp (gates s') = true /\ dbu ninp (gates s') /\
    (valN e0 b <> 0 ->
     let e := eval_rev (gates s') e0 in
     let sa := e0 (last a 0) in
     let sb := e0 (last b 0) in
     let A := if sa then negN n (valN e0 a) else valN e0 a in
     let B := if sb then negN n (valN e0 b) else valN e0 b in
     valN e r = A mod B /\
     valN e q = if xorb sa sb then negN n (A / B) else A / B).
Proof.
  intros Hn. cbv zeta.
  set (a := wrange 0 n). set (b := wrange (N.of_nat n) n). set (ninp := 2 * N.of_nat n).
  set (q := wrange ninp n). set (r := wrange (3 * N.of_nat n) n).
  assert (Ia : forall w, In w a -> w < ninp) by (intros w H; apply wrange_In in H; unfold ninp; lia).
  assert (Ib : forall w, In w b -> w < ninp) by (intros w H; apply wrange_In in H; unfold ninp; lia).
  assert (La : length a = n) by apply wrange_length.
  assert (Lb : length b = length a) by (unfold a, b; rewrite !wrange_length; reflexivity).
  assert (Lq : length q = length a) by (unfold a, q; rewrite !wrange_length; reflexivity).
  assert (Lr : length r = length a) by (unfold a, r; rewrite !wrange_length; reflexivity).
  assert (Ha : (1 <= length a)%nat) by lia.
  pose proof (okm_new_idivider a b q r Ha Lb Lq Lr) as Sem.
  assert (Str : @oks ninp unit (new_idivider a b q r) (st0 (4 * N.of_nat n) false)
            (fun _ s' => step ninp (st0 (4 * N.of_nat n) false) s' (q ++ r) /\
                         Forall (defd ninp s') q /\ Forall (defd ninp s') r)).
  { apply new_idivider_yao_s; auto.
    - apply wfst_st0; unfold ninp; lia.
    - apply Forall_defd_inputs; auto.
    - apply Forall_defd_inputs; auto.
    - apply Forall_pend_st0. intros w H. apply in_app_or in H.
      destruct H as [H|H]; apply wrange_In in H; unfold ninp in *; lia.
    - apply NoDup_app_iff'. split; [apply wrange_NoDup|]. split; [apply wrange_NoDup|].
      intros w H1 H2. apply wrange_In in H1. apply wrange_In in H2. unfold ninp in *. lia. }
  destruct (run_st0 ninp _ false _ _ _ Sem Str e0) as ([] & s' & E & C & D & _ & P & I).
  exists s'. split; [exact E|]. split; [exact C|]. split; [exact D|].
  cbv zeta in P.
  assert (Na : a <> []) by (intros H; rewrite H in La; cbn in La; lia).
  assert (Nb : b <> []) by (intros H; rewrite H in Lb; cbn in Lb; lia).
  rewrite (valN_inputs _ e0 ninp a I Ia), (valN_inputs _ e0 ninp b I Ib) in P.
  rewrite (I (last a 0)) in P by (apply Ia, last_In, Na).
  rewrite (I (last b 0)) in P by (apply Ib, last_In, Nb).
  rewrite La in P. exact P.
Qed.
