(* Mult.v — /repo/compiler/circuits/circ_multiplier.go
   NewArrayMultiplier, NewKaratsubaMultiplier, NewWallaceMultiplier, NewMultiplier
   (thresholds: circ_multiplier_params.go via the regenerated Gen/Thresholds.v).
   No proofs in this file. *)
From Coq Require Import NArith List Bool Arith.
From Mpc Require Import Builders.Emit Builders.Adder Builders.Sub.
Import ListNotations.
Open Scope monad_scope.

(* replace element i of a list *)
Fixpoint set_nth {A} (l : list A) (i : nat) (v : A) : list A :=
  match l, i with
  | [], _ => []
  | _ :: r, O => v :: r
  | a :: r, S k => a :: set_nth r k v
  end.

(* "Construct Y0 sums": AND(x[i], y0) into z[0] (i = 0) or a fresh sum wire *)
Fixpoint am_row0 (xs : list wire) (y0 : wire) : M (list wire) :=
  match xs with
  | xn :: xs' =>
      s <- fresh;;
      emit AND xn y0 s;;
      r <- am_row0 xs' y0;;
      ret (s :: r)
  | [] => ret []
  end.

(* ANDs for y(j) *)
Fixpoint am_ands (xs : list wire) (yj : wire) : M (list wire) :=
  match xs with
  | xn :: xs' =>
      w <- fresh;;
      emit AND xn yj w;;
      r <- am_ands xs' yj;;
      ret (w :: r)
  | [] => ret []
  end.

(* "Compute next sums" for i >= 1: ands = ands[i..], sums = sums[i..] *)
Fixpoint am_sums (ands sums : list wire) (c : wire) : M (list wire * wire) :=
  match ands with
  | a :: ands' =>
      cout <- fresh;;
      s <- fresh;;
      (match sums with
       | [] => half_adder a c s (Some cout)
       | si :: _ => full_adder a si c s (Some cout)
       end);;
      '(ns, c') <- am_sums ands' (tl sums) cout;;
      ret (s :: ns, c')
  | [] => ret ([], c)
  end.

(* one intermediate layer j: returns the new sums (carry as the highest bit) *)
Definition am_layer (x : list wire) (yj zj : wire) (sums : list wire) : M (list wire) :=
  ands <- am_ands x yj;;
  match ands with
  | a0 :: ands' =>
      cout <- fresh;;
      half_adder a0 (nth 0 sums 0%N) zj (Some cout);;
      '(ns, c) <- am_sums ands' (tl sums) cout;;
      ret (ns ++ [c])
  | [] => ret sums
  end.

(* layers j = 1 .. len(y)-2: ys = y[j..len(y)-2], zs = z[j..] *)
Fixpoint am_layers (x ys zs sums : list wire) : M (list wire) :=
  match ys with
  | yj :: ys' =>
      sums' <- am_layer x yj (nth 0 zs 0%N) sums;;
      am_layers x ys' (tl zs) sums'
  | [] => ret sums
  end.

(* final layer: xs = x[i..], sums = sums[i..], zs = z[j+i..] (may run out),
   i0 = (i == 0) *)
Fixpoint am_final (i0 : bool) (xs : list wire) (yj : wire) (sums zs : list wire) (c : wire) : M unit :=
  match xs with
  | xn :: xs' =>
      and <- fresh;;
      emit AND xn yj and;;
      cout <- (match xs', tl zs with
               | [], zn :: _ => ret zn        (* i+1 >= len(x) && j+i+1 < len(z) *)
               | _, _ => fresh
               end);;
      (match zs with
       | zi :: _ =>
           if i0 then half_adder and (nth 0 sums 0%N) zi (Some cout)
           else match sums with
                | [] => half_adder and c zi (Some cout)
                | si :: _ => full_adder and si c zi (Some cout)
                end
       | [] => ret tt
       end);;
      am_final false xs' yj (tl sums) (tl zs) cout
  | [] => ret tt
  end.

(* NewArrayMultiplier(cc, x, y, z): returns the (possibly replaced) z *)
Definition array_multiplier (x y z : list wire) : M (list wire) :=
  '(x, y) <- zero_pad x y;;
  let x := firstn (length z) x in
  let y := firstn (length z) y in
  if Nat.eqb (length x) 1 then
    emit AND (nth 0 x 0%N) (nth 0 y 0%N) (nth 0 z 0%N);;
    (* for i := 1; i < len(z); i++ { z[i] = cc.ZeroWire() } *)
    zero_tail z 1
  else
    (* Y0 sums: i = 0 goes to z[0] *)
    emit AND (nth 0 x 0%N) (nth 0 y 0%N) (nth 0 z 0%N);;
    sums <- am_row0 (tl x) (nth 0 y 0%N);;
    let j := (length y - 1)%nat in
    sums <- am_layers x (firstn (j - 1) (tl y)) (tl z) sums;;
    am_final true x (nth j y 0%N) sums (skipn j z) 0%N;;
    (* for i := j+len(x)+1; i < len(z); i++ { z[i] = cc.ZeroWire() } *)
    zero_tail z (j + length x + 1).

(* NewKaratsubaMultiplier(cc, limit, a, b, r); recursion on the width is
   bounded by explicit fuel (the widths strictly decrease when limit >= 3) *)
Fixpoint karatsuba (fuel : nat) (limit : nat) (a b r : list wire) : M (list wire) :=
  match fuel with
  | O => ret r
  | S f =>
      '(a, b) <- zero_pad a b;;
      let a := firstn (length r) a in
      let b := firstn (length r) b in
      if Nat.leb (length a) limit then array_multiplier a b r
      else
        let mid := (length a / 2)%nat in
        let aLow := firstn mid a in let aHigh := skipn mid a in
        let bLow := firstn mid b in let bHigh := skipn mid b in
        z0 <- fresh_n (Nat.min (Nat.max (length aLow) (length bLow) * 2) (length r));;
        z0 <- karatsuba f limit aLow bLow z0;;
        let aSumLen := (Nat.max (length aLow) (length aHigh) + 1)%nat in
        aSum <- fresh_n aSumLen;;
        aSum <- new_adder aLow aHigh aSum;;
        let bSumLen := (Nat.max (length bLow) (length bHigh) + 1)%nat in
        bSum <- fresh_n bSumLen;;
        bSum <- new_adder bLow bHigh bSum;;
        z1 <- fresh_n (Nat.min (Nat.max aSumLen bSumLen * 2) (length r));;
        z1 <- karatsuba f limit aSum bSum z1;;
        z2 <- fresh_n (Nat.min (Nat.max (length aHigh) (length bHigh) * 2) (length r));;
        z2 <- karatsuba f limit aHigh bHigh z2;;
        sub1 <- fresh_n (length r);;
        sub1 <- new_subtractor z1 z2 sub1;;
        sub2 <- fresh_n (length r);;
        sub2 <- new_subtractor sub1 z0 sub2;;
        shift1 <- shift_left z2 (length r) (mid * 2);;
        shift2 <- shift_left sub2 (length r) mid;;
        add1 <- fresh_n (length r);;
        add1 <- new_adder shift1 shift2 add1;;
        new_adder add1 z0 r
  end.

(* partial products: column i+j collects AND(a[i], b[j]); emission order i, then j *)
Fixpoint add_col (cols : list (list wire)) (k : nat) (w : wire) : list (list wire) :=
  match cols, k with
  | [], _ => []
  | c :: r, O => (c ++ [w]) :: r
  | c :: r, S k' => c :: add_col r k' w
  end.

Fixpoint wal_pp_row (ai : wire) (bs : list wire) (k : nat) (cols : list (list wire)) : M (list (list wire)) :=
  match bs with
  | bj :: bs' =>
      w <- fresh;;
      emit AND ai bj w;;
      wal_pp_row ai bs' (S k) (add_col cols k w)
  | [] => ret cols
  end.

Fixpoint wal_pp (a_ b : list wire) (i : nat) (cols : list (list wire)) : M (list (list wire)) :=
  match a_ with
  | ai :: a' => cols' <- wal_pp_row ai b i cols;; wal_pp a' b (S i) cols'
  | [] => ret cols
  end.

(* reduce one column: groups of three -> full adder, two left -> half adder,
   one left passes through; returns (sums and pass-through, carries) *)
Fixpoint wal_col (fuel : nat) (col : list wire) : M (list wire * list wire) :=
  match fuel with
  | O => ret (col, [])
  | S f =>
      match col with
      | u :: v :: w :: rest =>
          s <- fresh;; c <- fresh;;
          full_adder u v w s (Some c);;
          '(ss, cs) <- wal_col f rest;;
          ret (s :: ss, c :: cs)
      | [u; v] =>
          s <- fresh;; c <- fresh;;
          half_adder u v s (Some c);;
          ret ([s], [c])
      | [u] => ret ([u], [])
      | [] => ret ([], [])
      end
  end.

(* one reduction round over all columns; carries of the last column are dropped *)
Fixpoint wal_round (cols : list (list wire)) (cin : list wire) : M (list (list wire)) :=
  match cols with
  | col :: rest =>
      '(ss, cs) <- wal_col (length col) col;;
      rest' <- wal_round rest cs;;
      ret ((cin ++ ss) :: rest')
  | [] => ret []
  end.

Definition max_height (cols : list (list wire)) : nat :=
  fold_right (fun c m => Nat.max (length c) m) O cols.

Fixpoint wal_reduce (fuel : nat) (cols : list (list wire)) : M (list (list wire)) :=
  match fuel with
  | O => ret cols
  | S f => if Nat.ltb 2 (max_height cols)
           then cols' <- wal_round cols [];; wal_reduce f cols'
           else ret cols
  end.

(* rows for the final addition *)
Fixpoint wal_rows (cols : list (list wire)) : M (list wire * list wire) :=
  match cols with
  | col :: rest =>
      r1 <- (match col with w :: _ => ret w | [] => zero_wire end);;
      r2 <- (match col with _ :: w :: _ => ret w | _ => zero_wire end);;
      '(a, b) <- wal_rows rest;;
      ret (r1 :: a, r2 :: b)
  | [] => ret ([], [])
  end.

(* NewWallaceMultiplier(cc, a, b, r) *)
Definition wallace_multiplier (a b r : list wire) : M (list wire) :=
  let n := length r in
  a <- pad a n;;
  b <- pad b n;;
  let a := firstn n a in
  let b := firstn n b in
  cols <- wal_pp a b 0 (repeat [] (2 * n));;
  cols <- wal_reduce (2 * n + 8) cols;;
  '(row1, row2) <- wal_rows (firstn n cols);;
  ks_adder row1 row2 r.

Definition lookup_threshold (tbl : list (nat * nat)) (k : nat) : option nat :=
  match find (fun p => Nat.eqb (fst p) k) tbl with
  | Some p => Some (snd p)
  | None => None
  end.

(* NewMultiplier(c, arrayTreshold, x, y, z); tbl = multiplierArrayTresholds *)
Definition new_multiplier (tbl : list (nat * nat)) (arrayTreshold : nat) (x y z : list wire) : M (list wire) :=
  t <- target_gmw;;
  if t then wallace_multiplier x y z
  else
    let thr := if Nat.ltb arrayTreshold 8
               then match lookup_threshold tbl (length x) with Some v => v | None => 21%nat end
               else arrayTreshold in
    karatsuba (S (Nat.max (length x) (length y))) thr x y z.
