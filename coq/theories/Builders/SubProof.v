(* SubProof.v — NewFullSubtractor and the ripple-borrow NewSubtractor (Yao target)
   compute (x - y) mod 2^(result width) for every operand width and every result
   width up to max(len x, len y) + 1. *)
From Coq Require Import NArith List Bool Arith Lia.
From Mpc Require Import Builders.Emit Builders.EmitProof Builders.Sub.
Import ListNotations.
Open Scope N_scope.

(* borrow-out of a - b - c *)
Definition bor (a b c : bool) : bool := (negb a && b) || (negb (xorb a b) && c).

Lemma fs_arith a b c :
  N.b2n a + 2 * N.b2n (bor a b c) = N.b2n (xorb (xorb a b) c) + N.b2n b + N.b2n c.
Proof. destruct a, b, c; reflexivity. Qed.

(* truth table of NewFullSubtractor(x, y, cin, d, cout):
     d    = x xor y xor cin
     cout = borrow-out of  y - x - cin   (NOT of x - y - cin: e.g. x=0,y=1,cin=0
            gives w1 = 0, w3 = 0, cout = 0).  NewSubtractor calls it with the
            operands swapped, so the ripple subtractor computes x - y. *)
Lemma okm_full_subtractor t x y cin d cout :
  okm t (full_subtractor x y cin d cout)
      (fun _ e => e d = xorb (xorb (e x) (e y)) (e cin) /\
                  forall c, cout = Some c -> e c = bor (e y) (e x) (e cin)).
Proof.
  unfold full_subtractor. mstep okm_fresh. mstep okm_emit. mstep okm_emit.
  destruct cout as [cw|].
  - mstep okm_fresh. mstep okm_emit. mstep okm_fresh. mstep okm_emit.
    eapply okm_weaken; [apply okm_emit|]. cbn.
    intros _ e H5 H4 _ H3 _ H2 H1 _. split.
    + rewrite H2, H1. destruct (e x), (e y), (e cin); reflexivity.
    + intros ? [= <-]. rewrite H5, H4, H3, H1. unfold bor.
      destruct (e x), (e y), (e cin); reflexivity.
  - apply okm_ret. cbn. intros e H2 H1 _. split.
    + rewrite H2, H1. destruct (e x), (e y), (e cin); reflexivity.
    + intros; discriminate.
Qed.

(* borrow invariant of the loop of NewSubtractor: xs - ys - cin, with the final
   borrow [k] (stored in [last] when there is such a wire) *)
Lemma okm_sub_loop t : forall xs ys zs cin last,
  xs <> [] -> length ys = length xs -> (length xs <= length zs)%nat ->
  okm t (sub_loop xs ys zs cin last)
      (fun _ e =>
         let n := length xs in
         exists k : bool,
           (forall l, last = Some l -> e l = k) /\
           valN e xs + 2 ^ N.of_nat n * N.b2n k
           = valN e (firstn n zs) + valN e ys + N.b2n (e cin)).
Proof.
  induction xs as [|x xs IH]; intros ys zs cin last Hne Hy Hz; [congruence|].
  destruct ys as [|y ys]; [discriminate|]. destruct zs as [|z zs]; [cbn in Hz; lia|].
  destruct xs as [|x2 xs'].
  - destruct ys; [|discriminate]. cbn [sub_loop].
    eapply okm_weaken; [apply okm_full_subtractor|]. cbn [length firstn].
    intros _ e [Hs Hc]. exists (bor (e x) (e y) (e cin)). split; [exact Hc|].
    rewrite !valN_cons, !valN_nil. change (2 ^ N.of_nat 1) with 2.
    rewrite Hs. destruct (e x), (e y), (e cin); reflexivity.
  - cbn [sub_loop]. mstep okm_fresh. mstep okm_full_subtractor.
    eapply okm_weaken; [apply IH; cbn in *; try lia; congruence|].
    cbv beta. intros _ e HI [Hs Hc] _. specialize (Hc _ eq_refl).
    cbv zeta in HI. destruct HI as (k & Hl & HI). exists k. split; [exact Hl|].
    pose proof (fs_arith (e x) (e y) (e cin)) as FS.
    replace (xorb (xorb (e x) (e y)) (e cin)) with (e z) in FS
      by (rewrite Hs; destruct (e x), (e y), (e cin); reflexivity).
    rewrite <- Hc in FS.
    remember (x2 :: xs') as xs eqn:Exs.
    cbn [length firstn]. rewrite !valN_cons, pow2_S. lia.
Qed.

Lemma firstn_S_nth_sub {A} (d : A) : forall n (l : list A),
  (n < length l)%nat -> firstn (S n) l = firstn n l ++ [nth n l d].
Proof.
  induction n; intros [|a l] H; cbn in *; try lia; auto.
  rewrite IHn by lia. reflexivity.
Qed.

(* (X - Y) mod P from the borrow equation, full width plus borrow bit *)
Lemma sub_mod_wide X Y Zn k P :
  X < P -> Y < P -> Zn < P -> X + P * N.b2n k = Zn + Y ->
  Zn + P * (N.b2n k + 2 * 0) = (X + 2 * P - Y mod (2 * P)) mod (2 * P).
Proof.
  intros HX HY HZ E. rewrite (N.mod_small Y) by lia.
  destruct k; cbn [N.b2n] in *.
  - rewrite N.mod_small by lia. lia.
  - apply N.mod_unique with (q := 1); lia.
Qed.

(* (X - Y) mod P from the borrow equation on the truncated operands *)
Lemma sub_mod_trunc X Y Z k P :
  0 < P -> Z < P -> X mod P + P * N.b2n k = Z + Y mod P ->
  Z = (X + P - Y mod P) mod P.
Proof.
  intros HP HZ E.
  pose proof (N.div_mod' X P) as DX. pose proof (N.mod_lt X P) as LX.
  pose proof (N.mod_lt Y P) as LY.
  destruct k; cbn [N.b2n] in *.
  - apply N.mod_unique with (q := X / P); lia.
  - apply N.mod_unique with (q := X / P + 1); lia.
Qed.

(* NewSubtractor, ripple borrow: z = (x - y) mod 2^len(z) for every len(x), len(y) and
   every 1 <= len(z) <= max(len x, len y) + 1.

   For len(z) > max(len x, len y) + 1 the statement is FALSE: the builder stores
   the final borrow in bit max(len x, len y) and fills the bits above with the
   zero wire (instead of sign-extending the borrow), so for x < y the result is
   2^(max+1) + x - y rather than 2^len(z) + x - y; see [sub_wide_counterexample]. *)
Theorem okp_ripple_subtractor t x y z :
  (0 < length z)%nat -> (0 < Nat.max (length x) (length y))%nat ->
  (length z <= Nat.max (length x) (length y) + 1)%nat ->
  okp t (ripple_subtractor x y z)
      (fun z' => length z' = length z)
      (fun z' e =>
         valN e z' = (valN e x + 2 ^ N.of_nat (length z)
                      - valN e y mod 2 ^ N.of_nat (length z)) mod 2 ^ N.of_nat (length z)).
Proof.
  intros Hz Hm Hw. unfold ripple_subtractor.
  eapply okp_bind; [apply okp_zero_pad|]. intros [x' y'] [Sx Sy]. cbn [fst snd] in *.
  pose proof (pad_shape_len _ _ _ Sx) as Lx. pose proof (pad_shape_len _ _ _ Sy) as Ly.
  cbv zeta.
  remember (firstn (length z) x') as x2 eqn:Ex2.
  remember (firstn (length z) y') as y2 eqn:Ey2.
  assert (Lx2 : length x2 = Nat.min (length z) (Nat.max (length x) (length y))).
  { subst x2. rewrite firstn_length. lia. }
  assert (Ly2 : length y2 = length x2).
  { subst y2. rewrite firstn_length. lia. }
  remember (length x2) as n eqn:En.
  eapply okp_bind; [apply okp_of_okm, okm_zero | intros cin _; cbv beta].
  set (last := if Nat.ltb n (length z) then Some (nth n z 0) else None).
  eapply okp_bind.
  { apply okp_of_okm. apply (okm_sub_loop t x2 y2 z cin last); try lia.
    intros ->. cbn in En. lia. }
  intros u _. cbv beta.
  eapply okp_weaken; [apply okp_zero_tail | intros z' H; eapply zero_tail_len; exact H | ].
  cbv beta. intros z' e H Hzero Hcore Hcin [Zx Zy].
  destruct H as (zw & ->).
  assert (Vx : valN e x2 = valN e x mod 2 ^ N.of_nat (length z)).
  { rewrite Ex2, valN_firstn. f_equal. eapply pad_val; eauto. }
  assert (Vy : valN e y2 = valN e y mod 2 ^ N.of_nat (length z)).
  { rewrite Ey2, valN_firstn. f_equal. eapply pad_val; eauto. }
  cbv zeta in Hcore. rewrite <- En in Hcore. destruct Hcore as (k & Hl & Hcore).
  rewrite Hcin in Hcore. cbn [N.b2n] in Hcore. rewrite N.add_0_r in Hcore.
  subst last. destruct (Nat.ltb n (length z)) eqn:EL.
  - (* len z = max + 1: the final borrow is the top bit *)
    apply Nat.ltb_lt in EL.
    assert (Hn : n = Nat.max (length x) (length y)) by lia.
    assert (Hzl : length z = S n) by lia.
    replace (length z - (n + 1))%nat with 0%nat by lia. cbn [repeat]. rewrite app_nil_r.
    replace (n + 1)%nat with (S n) by lia.
    rewrite (firstn_S_nth_sub (0%N : wire)) by exact EL.
    rewrite valN_app, firstn_length, valN_cons, valN_nil.
    replace (Nat.min n (length z)) with n by lia.
    rewrite (Hl _ eq_refl).
    assert (Bx : valN e x < 2 ^ N.of_nat n).
    { eapply N.lt_le_trans; [apply valN_lt|]. apply N.pow_le_mono_r; lia. }
    assert (By : valN e y < 2 ^ N.of_nat n).
    { eapply N.lt_le_trans; [apply valN_lt|]. apply N.pow_le_mono_r; lia. }
    assert (Bz : valN e (firstn n z) < 2 ^ N.of_nat n).
    { eapply N.lt_le_trans; [apply valN_lt|]. apply N.pow_le_mono_r. lia.
      rewrite firstn_length. lia. }
    rewrite Hzl in *. rewrite pow2_S in *.
    rewrite N.mod_small in Vx by lia. rewrite N.mod_small in Vy by lia.
    rewrite Vx, Vy in Hcore.
    apply sub_mod_wide; auto.
  - (* len z <= max: truncated operands, the borrow is dropped *)
    apply Nat.ltb_ge in EL.
    assert (Hn : n = length z) by lia.
    replace (length z - (n + 1))%nat with 0%nat by lia. cbn [repeat]. rewrite app_nil_r.
    rewrite firstn_all2 by lia.
    rewrite Hn in Hcore. rewrite firstn_all in Hcore. rewrite Vx, Vy in Hcore.
    eapply sub_mod_trunc; eauto using pow2_pos. apply valN_lt.
Qed.

(* the same as a plain [okm] specification *)
Theorem okm_ripple_subtractor t x y z :
  (0 < length z)%nat -> (0 < Nat.max (length x) (length y))%nat ->
  (length z <= Nat.max (length x) (length y) + 1)%nat ->
  okm t (ripple_subtractor x y z)
      (fun z' e => length z' = length z /\
         valN e z' = (valN e x + 2 ^ N.of_nat (length z)
                      - valN e y mod 2 ^ N.of_nat (length z)) mod 2 ^ N.of_nat (length z)).
Proof. intros Hz Hm Hw. apply okm_of_okp, okp_ripple_subtractor; assumption. Qed.

(* NewSubtractor under the Yao target (the dispatch on Params.Target takes the ripple branch) *)
Corollary okp_new_subtractor_yao x y z :
  (0 < length z)%nat -> (0 < Nat.max (length x) (length y))%nat ->
  (length z <= Nat.max (length x) (length y) + 1)%nat ->
  okp false (new_subtractor x y z)
      (fun z' => length z' = length z)
      (fun z' e =>
         valN e z' = (valN e x + 2 ^ N.of_nat (length z)
                      - valN e y mod 2 ^ N.of_nat (length z)) mod 2 ^ N.of_nat (length z)).
Proof.
  intros Hz Hm Hw s W G.
  unfold new_subtractor, bind, target_gmw. rewrite G.
  apply (okp_ripple_subtractor false x y z Hz Hm Hw s W G).
Qed.

Corollary okm_new_subtractor_yao x y z :
  (0 < length z)%nat -> (0 < Nat.max (length x) (length y))%nat ->
  (length z <= Nat.max (length x) (length y) + 1)%nat ->
  okm false (new_subtractor x y z)
      (fun z' e => length z' = length z /\
         valN e z' = (valN e x + 2 ^ N.of_nat (length z)
                      - valN e y mod 2 ^ N.of_nat (length z)) mod 2 ^ N.of_nat (length z)).
Proof. intros Hz Hm Hw. apply okm_of_okp, okp_new_subtractor_yao; assumption. Qed.

(* A result wider than max(len x, len y) + 1: x = [wire 0] = 0, y = [wire 1] = 1,
   z = wires 2,3,4.  The gate list is single-assignment, its gate-by-gate
   evaluation gives z = 3 = 0b011 (borrow in bit 1, zero wire in bit 2), whereas
   (0 - 1) mod 2^3 = 7. *)
Example sub_wide_counterexample :
  let '(z', s') := ripple_subtractor [0] [1] [2; 3; 4] (st0 5 false) in
  let e := eval_rev (gates s') (fun w => N.eqb w 1) in
  wfc_b 2 (gates s') = true /\
  valN e [0] = 0 /\ valN e [1] = 1 /\
  z' = [2; 3; 5] /\ valN e z' = 3 /\
  (valN e [0] + 2 ^ 3 - valN e [1] mod 2 ^ 3) mod 2 ^ 3 = 7.
Proof. vm_compute. repeat split. Qed.

(* hence the specification of [okm_ripple_subtractor] does not extend to wider results *)
Theorem ripple_subtractor_wide_false :
  ~ okm false (ripple_subtractor [0] [1] [2; 3; 4])
      (fun z' e => length z' = 3%nat /\
         valN e z' = (valN e [0] + 2 ^ N.of_nat 3 - valN e [1] mod 2 ^ N.of_nat 3)
                     mod 2 ^ N.of_nat 3).
Proof.
  intros H. destruct (H (st0 5 false) (wfs_st0 5 false) eq_refl) as (a & s' & E & _ & _ & HP).
  vm_compute in E. inversion E; subst a s'. clear E.
  cbn [gates] in HP.
  match type of HP with forall e, sat e ?g -> _ =>
    specialize (HP (eval_rev g (fun w => N.eqb w 1))
                   (eval_rev_sat 2 g (fun w => N.eqb w 1) eq_refl)) end.
  destruct HP as [_ HP]. vm_compute in HP. discriminate.
Qed.
