(* StructHamming.v — structural lemmas (single assignment, defined before use) for
   NewAdder / NewSubtractor WITHOUT any hypothesis on the target (the dispatch on
   Params.Target is discharged by a case split on [gmw s]), and for circuits.Hamming
   (ham_xor, ham_pairs, ham_reduce, hamming), for every width and both targets,
   and the theorems about the EVALUATED circuits in the harness wire layout. *)
From Coq Require Import NArith List Bool Arith Lia.
From Mpc Require Import Builders.Emit Builders.EmitProof Builders.StructProof Builders.StructAdder
  Builders.StructArith Builders.StructKs
  Builders.Adder Builders.Sub Builders.AdderProof Builders.KsProof
  Builders.Hamming Builders.HammingProof.
Import ListNotations.
Open Scope N_scope.

Section H.
Variable ninp : N.
Notation defd := (defd ninp). Notation pend := (pend ninp). Notation wfst := (wfst ninp).
Notation step := (step ninp). Notation oks := (@oks ninp _).

(* ---------- NewAdder / NewSubtractor, any target ---------- *)
Lemma new_adder_s s x y z :
  wfst s -> Forall (defd s) x -> Forall (defd s) y -> Forall (pend s) z -> NoDup z ->
  (1 <= length z)%nat -> (1 <= Nat.max (length x) (length y))%nat ->
  oks (new_adder x y z) s
      (fun z' s' => step s s' z /\ Forall (defd s') z' /\ length z' = length z).
Proof.
  intros W Fx Fy Pz ND Hz Hm. destruct (gmw s) eqn:G.
  - apply new_adder_gmw_s; auto.
  - apply new_adder_yao_s; auto.
Qed.

Lemma new_subtractor_s s x y z :
  wfst s -> Forall (defd s) x -> Forall (defd s) y -> Forall (pend s) z -> NoDup z ->
  (1 <= length z)%nat -> (1 <= Nat.max (length x) (length y))%nat ->
  oks (new_subtractor x y z) s
      (fun z' s' => step s s' z /\ Forall (defd s') z' /\ length z' = length z).
Proof.
  intros W Fx Fy Pz ND Hz Hm. destruct (gmw s) eqn:G.
  - apply new_subtractor_gmw_s; auto.
  - apply new_subtractor_yao_s; auto.
Qed.

(* ---------- transport helpers ---------- *)
Lemma FF_defd_step s s' wr arr :
  step s s' wr -> Forall (Forall (defd s)) arr -> Forall (Forall (defd s')) arr.
Proof.
  intros S F. eapply Forall_impl; [|exact F]. intros l. apply (Forall_defd_step ninp s s' wr l S).
Qed.

Lemma Fpend_step0 s s' l : step s s' [] -> Forall (pend s) l -> Forall (pend s') l.
Proof.
  intros S F. eapply Forall_impl; [|exact F]. intros w P.
  eapply step_pend; [exact S|exact P|intros []].
Qed.

(* ---------- Hamming: the xor row ---------- *)
Lemma ham_xor_s : forall a b s, wfst s -> Forall (defd s) a -> Forall (defd s) b ->
  oks (ham_xor a b) s
      (fun arr s' => step s s' [] /\ Forall (Forall (defd s')) arr /\ Forall posw arr /\
                     length arr = Nat.min (length a) (length b)).
Proof.
  induction a as [|ai a IH]; intros b s W Fa Fb.
  - cbn. apply oks_ret; auto. split; [apply step_refl|]. split; [constructor|]. split; [constructor|reflexivity].
  - destruct b as [|bi b].
    + cbn. apply oks_ret; auto. split; [apply step_refl|]. split; [constructor|]. split; [constructor|reflexivity].
    + cbn [ham_xor]. inversion Fa as [|? ? Dai Fa']; subst. inversion Fb as [|? ? Dbi Fb']; subst.
      sbind fresh_s. intros w s1 W1 (Ew & Pw & S1 & N1). cbv beta.
      eapply oks_bind; [apply emit_s; [auto|sd|sd|sp]|]. intros _ s2 W2 (S2 & Dw & N2). cbv beta.
      eapply oks_bind; [apply IH; [auto| |]|].
      * eapply Forall_defd_step; [exact S2|]. eapply Forall_defd_step; [exact S1|]. exact Fa'.
      * eapply Forall_defd_step; [exact S2|]. eapply Forall_defd_step; [exact S1|]. exact Fb'.
      * intros r s3 W3 (S3 & F3 & P3 & L3). cbv beta. apply oks_ret; auto.
        split; [|split; [|split]].
        -- eapply step_narrow; [eapply step_trans; [eapply step_trans; [exact S1|exact S2]|exact S3]|].
           cbn. intros x [E|[]]. left. subst. unfold wire in *. lia.
        -- constructor; [constructor; [sd|constructor]|exact F3].
        -- constructor; [unfold posw; cbn; lia|exact P3].
        -- cbn [length Nat.min]. rewrite L3. reflexivity.
Qed.

(* ---------- one pass of pairwise additions ---------- *)
Lemma ham_pairs_s : forall n arr s, (length arr <= n)%nat ->
  wfst s -> Forall (Forall (defd s)) arr -> Forall posw arr ->
  oks (ham_pairs arr) s
      (fun arr' s' => step s s' [] /\ Forall (Forall (defd s')) arr' /\ Forall posw arr' /\
                      ((1 <= length arr)%nat -> (1 <= length arr')%nat)).
Proof.
  induction n as [|n IH]; intros arr s Hn W F P.
  - destruct arr; [|cbn in Hn; lia]. cbn. apply oks_ret; auto. split; [apply step_refl|auto].
  - destruct arr as [|u [|v rest]].
    + cbn. apply oks_ret; auto. split; [apply step_refl|auto].
    + cbn [ham_pairs]. apply oks_ret; auto. split; [apply step_refl|auto].
    + cbn [ham_pairs].
      inversion F as [|? ? Du F1]; subst. inversion F1 as [|? ? Dv F2]; subst.
      inversion P as [|? ? Pu P1]; subst. inversion P1 as [|? ? Pv P2]; subst.
      unfold posw in Pu, Pv.
      sbind fresh_n_s. intros res s1 W1 (S1 & ND & Ln & Pw). cbv beta.
      eapply oks_bind; [apply new_adder_s; auto|].
      * eapply Forall_defd_step; [exact S1|exact Du].
      * eapply Forall_defd_step; [exact S1|exact Dv].
      * apply Forall_forall. intros w Hin. apply Pw, Hin.
      * unfold wire in *. lia.
      * unfold wire in *. lia.
      * intros res' s2 W2 (S2 & D2 & L2). cbv beta.
        eapply oks_bind; [apply (IH rest); [cbn in Hn; lia|auto| |exact P2]|].
        -- eapply FF_defd_step; [exact S2|]. eapply FF_defd_step; [exact S1|exact F2].
        -- intros r s3 W3 (S3 & F3 & P3 & _). cbv beta. apply oks_ret; auto.
           split; [|split; [|split]].
           ++ eapply step_narrow; [eapply step_trans; [exact S1|eapply step_trans; [exact S2|exact S3]]|].
              intros w Hin. left. cbn [app] in Hin. rewrite app_nil_r in Hin. apply Pw, Hin.
           ++ constructor; [eapply Forall_defd_step; [exact S3|exact D2]|exact F3].
           ++ constructor; [unfold posw; unfold wire in *; lia|exact P3].
           ++ cbn. lia.
Qed.

(* ---------- the reduction loop ---------- *)
Lemma ham_reduce_s : forall fuel arr s,
  wfst s -> Forall (Forall (defd s)) arr -> Forall posw arr ->
  oks (ham_reduce fuel arr) s
      (fun arr' s' => step s s' [] /\ Forall (Forall (defd s')) arr' /\ Forall posw arr' /\
                      ((1 <= length arr)%nat -> (1 <= length arr')%nat)).
Proof.
  induction fuel as [|f IH]; intros arr s W F P.
  - cbn. apply oks_ret; auto. split; [apply step_refl|auto].
  - cbn [ham_reduce]. destruct (Nat.ltb 2 (length arr)).
    + eapply oks_bind; [apply (ham_pairs_s (length arr)); auto|].
      intros a s1 W1 (S1 & F1 & P1 & L1). cbv beta.
      eapply oks_conseq; [apply IH; auto|]. cbv beta. intros a' s2 W2 (S2 & F2 & P2 & L2).
      split; [|split; [auto|split; [auto|lia]]].
      eapply step_weaken; [eapply step_trans; eauto|]. cbn. apply incl_refl.
    + apply oks_ret; auto. split; [apply step_refl|auto].
Qed.

(* ---------- circuits.Hamming ---------- *)
Lemma hamming_s s a b r :
  wfst s -> Forall (defd s) a -> Forall (defd s) b -> Forall (pend s) r -> NoDup r ->
  (2 <= Nat.max (length a) (length b))%nat -> (1 <= length r)%nat ->
  oks (hamming a b r) s
      (fun r' s' => step s s' r /\ Forall (defd s') r' /\ length r' = length r).
Proof.
  intros W Fa Fb Pr ND Hm Hr. unfold hamming.
  sbind zero_pad_s. intros [a' b'] s1 W1 (S1 & Fa' & Fb' & La & Lb). cbn [fst snd] in *. cbv beta iota.
  eapply oks_bind; [apply ham_xor_s; auto|]. intros arr s2 W2 (S2 & F2 & P2 & L2). cbv beta.
  eapply oks_bind; [apply ham_reduce_s; auto|]. intros arr' s3 W3 (S3 & F3 & P3 & L3). cbv beta.
  assert (L3' : (1 <= length arr')%nat) by (apply L3; unfold wire in *; lia).
  destruct arr' as [|u rest]; [cbn in L3'; lia|].
  inversion F3 as [|? ? Du F3']; subst. inversion P3 as [|? ? Pu P3']; subst. unfold posw in Pu.
  cbn [nth].
  eapply oks_conseq; [apply new_adder_s; auto|].
  - destruct rest as [|v rest']; cbn [nth]; [constructor|]. inversion F3'; auto.
  - eapply Fpend_step0; [exact S3|]. eapply Fpend_step0; [exact S2|]. eapply Fpend_step0; [exact S1|exact Pr].
  - unfold wire in *. lia.
  - cbv beta. intros r' s4 W4 (S4 & D4 & L4). split; [|auto].
    eapply step_weaken;
      [eapply step_trans; [exact S1|eapply step_trans; [exact S2|eapply step_trans; [exact S3|exact S4]]]|].
    cbn. apply incl_refl.
Qed.

End H.

(* ---------- the evaluated NewAdder circuit, either target ----------
   Harness layout: x = wires 0..xw-1, y = the next yw wires, the zw destination
   wires follow the inputs. *)
Theorem new_adder_eval (tg : bool) (xw yw zw : nat) (e0 : env) :
  (1 <= Nat.max xw yw)%nat -> (1 <= zw)%nat ->
  let x := wrange 0 xw in
  let y := wrange (N.of_nat xw) yw in
  let ninp := N.of_nat xw + N.of_nat yw in
  let z := wrange ninp zw in
  exists z' s', new_adder x y z (st0 (ninp + N.of_nat zw) tg) = (z', s') /\
    wfc_b ninp (gates s') = true /\ dbu ninp (gates s') /\ length z' = zw /\
    valN (eval_rev (gates s') e0) z' = (valN e0 x + valN e0 y) mod 2 ^ N.of_nat zw.
Proof.
  intros Hm Hz. cbv zeta.
  destruct (layout_facts xw yw zw Hm) as (Ix & Iy & Lx & Ly & Lz & Hn & Pz & ND & W0).
  set (x := wrange 0 xw) in *. set (y := wrange (N.of_nat xw) yw) in *.
  set (ninp := N.of_nat xw + N.of_nat yw) in *. set (z := wrange ninp zw) in *.
  assert (Hz' : (1 <= length z)%nat) by lia.
  assert (Hm' : (1 <= Nat.max (length x) (length y))%nat) by lia.
  pose proof (okm_new_adder tg x y z Hz' Hm') as Sem.
  pose proof (new_adder_s ninp (st0 (ninp + N.of_nat zw) tg) x y z (W0 tg)
                (Forall_defd_inputs _ _ _ Ix) (Forall_defd_inputs _ _ _ Iy) (Pz tg) ND Hz' Hm') as Str.
  destruct (run_st0 ninp _ tg _ _ _ Sem Str e0) as (z' & s' & E & C & D & _ & (Lz' & P) & I).
  exists z', s'. split; [exact E|]. split; [exact C|]. split; [exact D|]. split; [lia|].
  rewrite P, Lz.
  rewrite (valN_inputs _ e0 ninp x I Ix), (valN_inputs _ e0 ninp y I Iy). reflexivity.
Qed.

(* ---------- the evaluated Hamming circuit, either target ----------
   Harness layout: a = wires 0..aw-1, b = the next bw wires, the rw destination
   wires follow the inputs.  The result is the population count of the xor of
   the operand values (= number of differing positions), modulo 2^rw. *)
Theorem hamming_eval (tg : bool) (aw bw rw : nat) (e0 : env) :
  (2 <= Nat.max aw bw)%nat -> (1 <= rw)%nat ->
  let a := wrange 0 aw in
  let b := wrange (N.of_nat aw) bw in
  let ninp := N.of_nat aw + N.of_nat bw in
  let r := wrange ninp rw in
  exists r' s', hamming a b r (st0 (ninp + N.of_nat rw) tg) = (r', s') /\
    wfc_b ninp (gates s') = true /\ dbu ninp (gates s') /\ length r' = rw /\
    valN (eval_rev (gates s') e0) r' =
      popcountN (N.lxor (valN e0 a) (valN e0 b)) mod 2 ^ N.of_nat rw.
Proof.
  intros Hm Hr. cbv zeta.
  assert (Hm1 : (1 <= Nat.max aw bw)%nat) by lia.
  destruct (layout_facts aw bw rw Hm1) as (Ia & Ib & La & Lb & Lr & Hn & Pr & ND & W0).
  set (a := wrange 0 aw) in *. set (b := wrange (N.of_nat aw) bw) in *.
  set (ninp := N.of_nat aw + N.of_nat bw) in *. set (r := wrange ninp rw) in *.
  assert (Hr' : (1 <= length r)%nat) by lia.
  assert (Hm' : (2 <= Nat.max (length a) (length b))%nat) by lia.
  pose proof (okm_hamming tg a b r Hm' Hr') as Sem.
  pose proof (hamming_s ninp (st0 (ninp + N.of_nat rw) tg) a b r (W0 tg)
                (Forall_defd_inputs _ _ _ Ia) (Forall_defd_inputs _ _ _ Ib) (Pr tg) ND Hm' Hr') as Str.
  destruct (run_st0 ninp _ tg _ _ _ Sem Str e0) as (r' & s' & E & C & D & _ & (Lr' & P) & I).
  exists r', s'. split; [exact E|]. split; [exact C|]. split; [exact D|]. split; [lia|].
  rewrite P, Lr.
  rewrite (valN_inputs _ e0 ninp a I Ia), (valN_inputs _ e0 ninp b I Ib). reflexivity.
Qed.

(* ---------- the evaluated NewSubtractor circuit, either target ----------
   Same layout.  For result widths up to max(xw,yw)+1 (the range in which the
   ripple-borrow specification holds) both targets compute x - y modulo 2^zw. *)
Lemma sub_forms (x y M : N) : M <> 0 ->
  (x mod M + (M - 1 - y mod M) + 1) mod M = (x + M - y mod M) mod M.
Proof.
  intros NZ. pose proof (N.mod_lt y M NZ) as By.
  replace (x mod M + (M - 1 - y mod M) + 1) with (x mod M + (M - y mod M)) by lia.
  rewrite N.add_mod_idemp_l by exact NZ. f_equal. lia.
Qed.

Theorem new_subtractor_eval (tg : bool) (xw yw zw : nat) (e0 : env) :
  (1 <= Nat.max xw yw)%nat -> (1 <= zw)%nat -> (zw <= Nat.max xw yw + 1)%nat ->
  let x := wrange 0 xw in
  let y := wrange (N.of_nat xw) yw in
  let ninp := N.of_nat xw + N.of_nat yw in
  let z := wrange ninp zw in
  exists z' s', new_subtractor x y z (st0 (ninp + N.of_nat zw) tg) = (z', s') /\
    wfc_b ninp (gates s') = true /\ dbu ninp (gates s') /\ length z' = zw /\
    valN (eval_rev (gates s') e0) z' =
      (valN e0 x + 2 ^ N.of_nat zw - valN e0 y mod 2 ^ N.of_nat zw) mod 2 ^ N.of_nat zw.
Proof.
  intros Hm Hz Hw. destruct tg.
  - pose proof (new_subtractor_gmw_eval xw yw zw e0 Hz Hm) as H. cbv zeta in *.
    replace (Nat.min (S (Nat.max xw yw)) zw) with zw in H by lia.
    destruct H as (z' & s' & E & C & D & L & V). exists z', s'.
    split; [exact E|]. split; [exact C|]. split; [exact D|]. split; [exact L|].
    rewrite V. apply sub_forms. apply N.pow_nonzero. discriminate.
  - exact (new_subtractor_yao_eval xw yw zw e0 Hm Hz Hw).
Qed.
