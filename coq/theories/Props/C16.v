(* Props/C16.v — property C16: the garbler never reports a wrong result under
   message corruption.  Only statements closed by [exact] + Print Assumptions. *)
From Coq Require Import NArith List Bool.
From Mpc Require Import Base.Label Base.Codec Circuit.Circuit Circuit.Garble
     Proto.Session Proto.SessionProof.
Import ListNotations.

(* Whatever label list reaches the garbler (arbitrary corruption of either
   direction: key, tables, input labels, OT traffic and returned labels all
   influence the garbler's result ONLY through this list), a successful
   decode means: every returned label is exactly one of the two labels of
   its output wire — the one for the bit the garbler reports.  An unknown
   label or a short list is an error, never a value. *)
Theorem C16_decode_sound :
  forall ws ls bs, decode_all ws ls = Some bs ->
    length bs = length ws /\
    forall i, (i < length ws)%nat -> nth i ls 0%N = pick (nth i ws w0) (nth i bs false).
Proof. exact decode_all_sound. Qed.
Print Assumptions C16_decode_sound.

(* For every block-function family, randomness, key, circuit and inputs and
   EVERY returned label list: if the garbler accepts, then for each output bit
   either the bit is the correct one and the returned label is the honest
   label, or the bit is wrong and the other party produced the honest label
   xor R — the value C04 shows is never transmitted.  (The final
   cryptographic step "nobody without R can compute L xor R" is the named
   assumption.) *)
Theorem C16_wrong_implies_forgery :
  forall (pi_of_key : list N -> N -> N) (rnd : nat -> N) (key : list N) (scratch : list wire)
         (c : circ2) (x y : list bool) (returned : list N) (bits : list bool),
    wf2 c = true -> length x = n0 c -> length y = n1 c ->
    let g := garble (pi_of_key key) rnd scratch (cc c) in
    garbler_finish c g returned = Some bits ->
    length bits = noutputs (cc c) /\
    forall i, (i < noutputs (cc c))%nat ->
      let honest := pick (nth i (out_wires c g) w0) (nth i (eval_plain (cc c) (x ++ y)) false) in
      (nth i bits false = nth i (eval_plain (cc c) (x ++ y)) false /\ nth i returned 0%N = honest) \/
      (nth i bits false <> nth i (eval_plain (cc c) (x ++ y)) false /\
       nth i returned 0%N = lxor honest (gR g)).
Proof. exact garbler_wrong_implies_forgery. Qed.
Print Assumptions C16_wrong_implies_forgery.

(* the garbler refuses any OT range other than exactly the evaluator's input wires *)
Theorem C16_range_check :
  forall c off cnt, garbler_range_ok c off cnt = true <->
                    off = N.of_nat (n0 c) /\ cnt = N.of_nat (n1 c).
Proof. exact range_check_spec. Qed.
Print Assumptions C16_range_check.

(* the evaluator rejects a table count other than the circuit's gate count *)
Theorem C16_gate_count_check :
  forall c key cnt rest, cnt <> N.of_nat (length (gates (cc c))) ->
    evaluator_first c (MData key :: MU32 cnt :: rest) = None.
Proof. exact gate_count_check. Qed.
Print Assumptions C16_gate_count_check.
