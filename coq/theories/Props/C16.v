(* Props/C16.v — property C16: the garbler never reports a wrong result under
   message corruption.  Only statements closed by [exact] + Print Assumptions. *)
From Coq Require Import NArith List Bool.
From Mpc Require Import Base.Label Base.Codec Circuit.Circuit Circuit.Garble
     Proto.Session Proto.SessionProof Proto.Conn Proto.ConnProof Proto.SessionRx Proto.SessionRxProof
     Circuit.GGarble Proto.SpanView Proto.SpanViewProof.
Import ListNotations.
From Mpc Require Gen.State Base.StateExpected Base.StateCheck Base.StatePkgs.

(* Whatever label list reaches the garbler (arbitrary corruption of either
   direction: key, tables, input labels, OT traffic and returned labels all
   influence the garbler's result ONLY through this list), a successful
   decode means: every returned label is exactly one of the two labels of
   its output wire — the one for the bit the garbler reports.  An unknown
   label or a short list is an error, never a value. *)
Theorem C16_decode_sound :
  forall ws ls bs, decode_all ws ls = Some bs ->
    length bs = length ws /\
    forall i, (i < length ws)%nat -> nth i ls 0%N = pick (nth i ws w0) (nth i bs false).
Proof. exact decode_all_sound. Qed.
Print Assumptions C16_decode_sound.

(* For every block-function family, randomness, key, circuit and inputs and
   EVERY returned label list: if the garbler accepts, then for each output bit
   either the bit is the correct one and the returned label is the honest
   label, or the bit is wrong and the other party produced the honest label
   xor R — the value C04 shows is never transmitted.  (The final
   cryptographic step "nobody without R can compute L xor R" is the named
   assumption.) *)
Theorem C16_wrong_implies_forgery :
  forall (pi_of_key : list N -> N -> N) (rnd : nat -> N) (key : list N) (scratch : list wire)
         (c : circ2) (x y : list bool) (returned : list N) (bits : list bool),
    wf2 c = true -> length x = n0 c -> length y = n1 c ->
    let g := garble (pi_of_key key) rnd scratch (cc c) in
    garbler_finish c g returned = Some bits ->
    length bits = noutputs (cc c) /\
    forall i, (i < noutputs (cc c))%nat ->
      let honest := pick (nth i (out_wires c g) w0) (nth i (eval_plain (cc c) (x ++ y)) false) in
      (nth i bits false = nth i (eval_plain (cc c) (x ++ y)) false /\ nth i returned 0%N = honest) \/
      (nth i bits false <> nth i (eval_plain (cc c) (x ++ y)) false /\
       nth i returned 0%N = lxor honest (gR g)).
Proof. exact garbler_wrong_implies_forgery. Qed.
Print Assumptions C16_wrong_implies_forgery.

(* the garbler refuses any OT range other than exactly the evaluator's input wires *)
Theorem C16_range_check :
  forall c off cnt, garbler_range_ok c off cnt = true <->
                    off = N.of_nat (n0 c) /\ cnt = N.of_nat (n1 c).
Proof. exact range_check_spec. Qed.
Print Assumptions C16_range_check.

(* the evaluator rejects a table count other than the circuit's gate count *)
Theorem C16_gate_count_check :
  forall c key cnt rest, cnt <> N.of_nat (length (gates (cc c))) ->
    evaluator_first c (MData key :: MU32 cnt :: rest) = None.
Proof. exact gate_count_check. Qed.
Print Assumptions C16_gate_count_check.

(* BYTE LEVEL (composition with the connection layer of C11).  For every block-
   function family, randomness, key, circuit and inputs, and for EVERY byte string
   [bytes] that reaches the garbler after the OT — whoever produced it — read
   through p2p.Conn with any buffer size >= 16 under EVERY read fragmentation, with
   or without EOF delivered together with data: if the garbler's result loop
   returns bits, then at least 16 * noutputs bytes arrived and for each output i
   either the bit is the correct one and the i-th 16-byte block of the stream IS
   the honest label, or the bit is wrong and that block is the honest label xor R
   (the value C04 shows is never transmitted).  Corrupting any byte of a returned
   label therefore yields an error unless it produces exactly that forgery. *)
Theorem C16_bytes_wrong_implies_forgery :
  forall (pi_of_key : list N -> N -> N) (rcap : N) (rnd : nat -> N) (key : list N) (scratch : list wire)
         (c : circ2) (x y : list bool) (bytes frags : list N) (eofdata : bool) (bits : list bool),
    (16 <= rcap)%N -> wf2 c = true -> length x = n0 c -> length y = n1 c ->
    let g := garble (pi_of_key key) rnd scratch (cc c) in
    snd (garbler_rx_result rcap c g (r_init (mkT bytes frags eofdata 0))) = Some bits ->
    (16 * noutputs (cc c) <= length bytes)%nat /\ length bits = noutputs (cc c) /\
    forall i, (i < noutputs (cc c))%nat ->
      let honest := pick (nth i (out_wires c g) w0) (nth i (eval_plain (cc c) (x ++ y)) false) in
      (nth i bits false = nth i (eval_plain (cc c) (x ++ y)) false /\ block16 i bytes = honest) \/
      (nth i bits false <> nth i (eval_plain (cc c) (x ++ y)) false /\
       block16 i bytes = lxor honest (gR g)).
Proof. exact garbler_rx_result_sound. Qed.
Print Assumptions C16_bytes_wrong_implies_forgery.

(* a truncated stream (fewer than 16 * noutputs bytes ever arrive) is an error,
   never a value — under every fragmentation *)
Theorem C16_bytes_short_is_error :
  forall (rcap : N) (c : circ2) (g : garbled) (bytes frags : list N) (eofdata : bool),
    (16 <= rcap)%N -> (length bytes < 16 * noutputs (cc c))%nat ->
    snd (garbler_rx_result rcap c g (r_init (mkT bytes frags eofdata 0))) = None.
Proof. exact garbler_rx_short_is_error. Qed.
Print Assumptions C16_bytes_short_is_error.

(* the OT query at the byte level: whatever 8 bytes arrive, the garbler goes on
   to the OT only when they are exactly (n0, n1) big endian *)
Theorem C16_bytes_query :
  forall (rcap : N) (c : circ2) (bytes frags : list N) (eofdata : bool),
    (16 <= rcap)%N ->
    snd (garbler_rx_query rcap c (r_init (mkT bytes frags eofdata 0))) = Some true ->
    (8 <= length bytes)%nat /\
    of_be (firstn 4 bytes) = N.of_nat (n0 c) /\ of_be (firstn 4 (skipn 4 bytes)) = N.of_nat (n1 c).
Proof. exact garbler_rx_query_sound. Qed.
Print Assumptions C16_bytes_query.

(* THE FORGERY IS NOT A LINEAR FUNCTION OF THE VIEW (idealised symbolic execution of
   Circuit/GGarble.v: values are GF(2)-combinations of basis elements and R; the hash is
   a memoising random oracle).  For EVERY permute-bit assignment, EVERY wf circuit with
   at most 2^32 tweaks and EVERY input, with view = everything label-dependent the
   garbler transmits (one label per input wire + every garbled row):
   (a) no GF(2)-linear combination of the view — EVERY selection [sel] — equals R;
   (b) no two elements of the span are R apart: for EVERY value h, if h is in the span
       then h xor R (the forgery for an honest label h) is not;
   (c) the view is linearly independent (a combination that is 0 selects nothing),
       i.e. its rank is its length.
   This closes the gap between C16_wrong_implies_forgery and C04 (which only excludes R
   and R-pairs VERBATIM in the transcript) for linear adversaries. *)
Theorem C16_forgery_not_in_span :
  forall (perm : nat -> bool) (c : circuit) (x : list bool),
    wf c = true -> (tweaks_of (gates c) <= 2 ^ 32)%N ->
    let view := sym_transcript perm c x in
    (forall sel, span_xor sel view <> Rsym) /\
    (forall h, in_span h view -> ~ in_span (lxor h Rsym) view) /\
    (forall sel, span_xor sel view = 0%N -> forall i, (i < length view)%nat -> nth i sel false = false).
Proof. exact forgery_not_in_span. Qed.
Print Assumptions C16_forgery_not_in_span.

(* Composed with the garbler's label test (sym_accepts = BitFromLabel on symbolic values):
   for every permute-bit assignment, wf circuit, input, every wire w with L1 = L0 xor R,
   every plain value v of that wire whose honest label (pick w v) the evaluator can derive
   linearly from the view, and EVERY response that is a linear function of the view
   (every selection): if the garbler accepts the response, the bit it decodes is v. *)
Theorem C16_linear_response_right_bit :
  forall (perm : nat -> bool) (c : circuit) (x : list bool) (w : wire) (v : bool)
         (sel : list bool) (b : bool),
    wf c = true -> (tweaks_of (gates c) <= 2 ^ 32)%N ->
    L1 w = lxor (L0 w) Rsym ->
    let view := sym_transcript perm c x in
    in_span (pick w v) view ->
    sym_accepts w (span_xor sel view) = Some b -> b = v.
Proof. exact linear_response_right_bit. Qed.
Print Assumptions C16_linear_response_right_bit.

(* The executable span test that run_c16 evaluates on the generated circuits of every
   run (Gaussian elimination on bitsets, SpanView.in_span_b) is sound (a positive answer
   exhibits a combination), hence on the view of EVERY wf circuit, permute-bit assignment
   and input it never reports R in the span nor two span elements R apart. *)
Theorem C16_span_test_sound :
  forall v tr, in_span_b v tr = true -> in_span v tr.
Proof. exact in_span_b_sound. Qed.
Print Assumptions C16_span_test_sound.

Theorem C16_span_test_never_fires :
  forall (perm : nat -> bool) (c : circuit) (x : list bool),
    wf c = true -> (tweaks_of (gates c) <= 2 ^ 32)%N ->
    let view := sym_transcript perm c x in
    in_span_b Rsym view = false /\
    forall h, in_span_b h view = true -> in_span_b (lxor h Rsym) view = false.
Proof. exact span_test_never_fires. Qed.
Print Assumptions C16_span_test_never_fires.

(* STATE INVENTORY (finite obligation on the model regenerated from the source, checked by
   computation).  The struct fields and package-level variables of the Go packages this
   property is anchored in — circuit, compiler/ssa — as emitted from /repo's current
   source by harness/gen_state.go (Gen/State.v) are exactly those the models above were written
   against (Base/StateExpected.v).  A new field or variable (a cache, a memo, a pool, a counter,
   a changed field type) is state the models do not have: this obligation then breaks and the
   property is no longer shown to hold until the change has been reviewed against the model. *)
Theorem C16_state_inventory :
  Mpc.Base.StateCheck.state_unchanged Mpc.Gen.State.state_inventory Mpc.Base.StateExpected.expected_state
    Mpc.Base.StatePkgs.pkgs_C16 = true.
Proof. vm_compute. reflexivity. Qed.
Print Assumptions C16_state_inventory.
