(* Props/C12.v — property C12: constant folding equals circuit evaluation.
   Only statements closed by [exact], each followed by Print Assumptions.
   The full statement is FALSE of the faithful model of mpa.Int / evalConst /
   Generator.Constant (Lang/Fold.v), so it appears as [_refuted] (witnesses by
   vm_compute, each replayed on the implementation by the harness) together
   with the restricted positive theorems [_partial]. *)
From Coq Require Import ZArith List Bool.
From Mpc Require Import Lang.Fold Lang.FoldProof Lang.FoldClassProof Lang.FoldNestProof.
Import ListNotations.
From Mpc Require Gen.State Base.StateExpected Base.StateCheck Base.StatePkgs.
Open Scope Z_scope.

(* The property as stated — for every operator, every type intN/uintN, all
   representable operands (written T(a) or -T(|a|)) the folder answers and what
   the program sees of the folded constant (kind, Type.Bits, wire bits) is what
   the compiled circuit computes on run-time inputs — does NOT hold. *)
Theorem C12_fold_eq_circuit_refuted : ~ C12_claim.
Proof. exact fold_eq_circuit_refuted. Qed.
Print Assumptions C12_fold_eq_circuit_refuted.

(* One concrete witness per failing class (operator, signedness, operand sign
   class, small/large path): on each of the 21 listed inputs the folder's
   answer differs from the circuit's, or the folder panics.  Finite list of
   witnesses, checked by computation. *)
Theorem C12_refuted_witness_per_class : forallb differs witnesses = true.
Proof. exact witnesses_differ. Qed.
Print Assumptions C12_refuted_witness_per_class.

(* Totality is false as well: there are an operator, a type and two
   representable operands on which evalConst panics (uint128(1)+uint128(2):
   "Output already assigned"). *)
Theorem C12_fold_total_refuted :
  exists op k n a b l r, 0 < n /\ representable k n a /\ representable k n b /\
    typed k n a = Ok l /\ typed k n b = Ok r /\ is_panic (evalConst op l r) = true.
Proof. exact fold_total_refuted. Qed.
Print Assumptions C12_fold_total_refuted.

(* Totality on the small path, unbounded in values and nesting depth: for every
   operator and every two constants whose declared type and mpa.Int container
   are at most 64 bits wide, evalConst never panics, and its result is again
   such a constant (so arbitrarily nested folds of such constants never
   panic). *)
Theorem C12_fold_total_partial : forall op l r, smallc l -> smallc r ->
  match evalConst op l r with Ok c => smallc c | Err _ => True | Panic _ => False end.
Proof. exact evalConst_small_total. Qed.
Print Assumptions C12_fold_total_partial.

(* ... every typed constant T(a) of a type of at most 64 bits (any literal
   a < 2^64) satisfies that invariant, and unary minus preserves it. *)
Theorem C12_fold_total_operands : forall k n a, 0 < n <= 64 -> 0 <= a < 2 ^ 64 ->
  exists c, operand k n a = Ok c /\ smallc c.
Proof. exact operand_smallc. Qed.
Print Assumptions C12_fold_total_operands.

Theorem C12_fold_total_unary_minus : forall c, smallc c ->
  match unaryMinus c with Ok c' => smallc c' | Err _ => True | Panic _ => False end.
Proof. exact unaryMinus_small. Qed.
Print Assumptions C12_fold_total_unary_minus.

(* Positive part, operators - * & | ^ &^, signed and unsigned, EVERY width
   1..64 and ALL operand values (negative ones included wherever the constant
   holds them modulo 2^N, i.e. T(a) for every N and the two's complement
   negatives of int32/int64): the folder answers, the wires of the folded
   constant are exactly the circuit's output bits, the constant keeps the
   operands' kind, is assignable to the declared type (MinBits <= N), is at most
   64 bits wide, and for N = 32 (and N = 64) has exactly the declared width. *)
Theorem C12_fold_eq_circuit_partial_ring : forall op k N l r a b,
  ring_like op = true -> 1 <= N <= 64 -> holds l k N a -> holds r k N b ->
  exists c, evalConst op l r = Ok c /\
    const_wires c = snd (circuit_sem op k N a b) /\
    tk (ctype c) = k /\ tmin (ctype c) <= N /\ N <= tbits (ctype c) <= 64 /\
    (N = 32 -> tbits (ctype c) = 32) /\ smallc c.
Proof. exact fold_ring_small. Qed.
Print Assumptions C12_fold_eq_circuit_partial_ring.

(* + for every width 1..64 and all values, when the wider of the two operand
   containers has the declared width (always for N = 32; for N = 64 when an
   operand is >= 2^32; otherwise the folder truncates the sum: finding F6b). *)
Theorem C12_fold_eq_circuit_partial_add : forall k N ml mr x y a b,
  1 <= N <= 64 -> Z.max (mbits x) (mbits y) = N ->
  (small x) mod 2 ^ N = a -> (small y) mod 2 ^ N = b ->
  exists c, evalConst OAdd (CI (mkT k N ml) x) (CI (mkT k N mr) y) = Ok c /\
    const_wires c = snd (circuit_sem OAdd k N a b) /\
    tk (ctype c) = k /\ tmin (ctype c) <= N /\ N <= tbits (ctype c) <= 64 /\
    (N = 32 -> tbits (ctype c) = 32) /\ smallc c.
Proof. exact fold_add_small. Qed.
Print Assumptions C12_fold_eq_circuit_partial_add.

(* / and %, signed and unsigned, every width 1..64, all operands that are
   non-negative in their type and below 2^63 (all of uintN for N <= 63, the
   non-negative half of intN), division by zero included. *)
Theorem C12_fold_eq_circuit_partial_divmod : forall op k N ml mr x y a b,
  (op = ODiv \/ op = OMod) -> k <> KBool -> 1 <= N <= 64 ->
  mval x = a -> mval y = b -> 0 <= a < 2 ^ 63 -> 0 <= b < 2 ^ 63 ->
  a < nonneg_bound k N -> b < nonneg_bound k N ->
  exists c, evalConst op (CI (mkT k N ml) x) (CI (mkT k N mr) y) = Ok c /\
    const_wires c = snd (circuit_sem op k N a b) /\
    tk (ctype c) = k /\ tmin (ctype c) <= N /\ N <= tbits (ctype c) <= 64 /\
    (N = 32 -> tbits (ctype c) = 32) /\ smallc c.
Proof. exact fold_divmod_nonneg. Qed.
Print Assumptions C12_fold_eq_circuit_partial_divmod.

(* >> by any literal count >= 0 on such operands, every width 1..64. *)
Theorem C12_fold_eq_circuit_partial_rsh : forall k N ml tr x y a cnt,
  k <> KBool -> tk tr <> KBool -> 1 <= N <= 64 -> mval x = a -> 0 <= a < 2 ^ 63 -> a < nonneg_bound k N ->
  u64 (Int64 y) = cnt -> 0 <= cnt ->
  exists c, evalConst ORsh (CI (mkT k N ml) x) (CI tr y) = Ok c /\
    const_wires c = snd (circuit_sem ORsh k N a cnt) /\
    tk (ctype c) = k /\ tmin (ctype c) <= N /\ N <= tbits (ctype c) <= 64 /\
    (N = 32 -> tbits (ctype c) = 32) /\ smallc c.
Proof. exact fold_rsh_nonneg. Qed.
Print Assumptions C12_fold_eq_circuit_partial_rsh.

(* ---- the proved region as ONE executable predicate ----
   Fold.fold_ok_class op k n a b (operator, operand kind, declared width, the two
   operand values; for shifts b = literal count) is evaluated by run_c12 on every
   harness case and recomputed in Go by the harness (the correspondence check
   compares the two), and any oracle failure inside it is reported under the key
   c12:inside-proved-class:...  The theorem: for EVERY operator (+ - * / % & | ^
   &^ << >> < <= > >= == != && ||), kind (intN, uintN, bool), width n >= 1
   (small path n <= 64 and big path n > 64) and operand values the classifier
   accepts, the typed operands T(a) / -T(|a|) exist, evalConst answers (no error,
   no panic), and the folded constant has the circuit's result kind, exactly the
   circuit's output bits as its wires, MinBits <= the declared width, and for a
   declared width of 32 or >= 64 exactly the declared width. *)
Theorem C12_fold_ok_class_sound : forall op k n a b, fold_ok_class op k n a b = true ->
  exists l r c, typedv k n a = Ok l /\ rhs op k n b = Ok r /\ evalConst op l r = Ok c /\
    goodt c (target op k n a b).
Proof. exact fold_ok_class_sound. Qed.
Print Assumptions C12_fold_ok_class_sound.

(* On fold_exact_class (= fold_ok_class and result bool, or n = 32, or n >= 64)
   the triple the rest of the program sees — (kind, Type.Bits, wires) — IS the
   circuit's (kind, width, output bits): the strict statement of C12. *)
Theorem C12_fold_exact_class_sound : forall op k n a b, fold_exact_class op k n a b = true ->
  exists l r c, typedv k n a = Ok l /\ rhs op k n b = Ok r /\ evalConst op l r = Ok c /\
    seen c = target op k n a b /\ tmin (ctype c) <= snd (fst (target op k n a b)).
Proof. exact fold_exact_class_sound. Qed.
Print Assumptions C12_fold_exact_class_sound.

(* unary minus of T(a) / -T(|a|): every intN/uintN, every width, every value
   accepted by neg_ok_class (all non-negative a; negative a for n = 32, 64, > 64) *)
Theorem C12_neg_ok_class_sound : forall k n a, neg_ok_class k n a = true ->
  exists l c, typed k n a = Ok l /\ unaryMinus l = Ok c /\
    good c k n (snd (circuit_neg k n (a mod 2 ^ n))).
Proof. exact neg_ok_class_sound. Qed.
Print Assumptions C12_neg_ok_class_sound.

(* ! on a boolean constant *)
Theorem C12_not_sound : forall b, exists c, unaryNot (CB b) = Ok c /\
  seen c = (KBool, 1, 1 - (if b then 1 else 0)).
Proof. exact not_sound. Qed.
Print Assumptions C12_not_sound.

(* ---- several folded constants in one program: the constant table ----
   Constants are interned by NAME = "$" + the value as mpa.Int.String() prints it
   (model: cname = the stored value).  For all constants produced by
   Generator.Constant (all widths, all values; fits = mpint.go's invariants "a
   small Int holds a 64-bit value, a big one is non-negative"): the same name
   implies the same mpa.Int (value AND container). *)
Theorem C12_same_name_same_mint : forall v1 v2 t1 t2, fits v1 -> fits v2 -> mval v1 = mval v2 ->
  exists m t1' t2', constant v1 t1 = CI t1' m /\ constant v2 t2 = CI t2' m /\
    cname (constant v1 t1) = cname (constant v2 t2).
Proof. exact same_name_same_mint. Qed.
Print Assumptions C12_same_name_same_mint.

(* For every table, every two types and every mpa.Int: a constant consumed through
   the entry registered first under its name receives exactly the wires it denotes
   at its own width (truncation / zero extension of the shared wires), EXCEPT when
   its type is a wider intN and the entry's top wire is 1. *)
Theorem C12_shared_wires_partial : forall tbl t1 t2 m,
  tlookup (mval m) tbl = Some (CI t1 m) -> 0 <= tbits t2 -> BitLen m <= tbits t1 ->
  ~ (tk t2 = KInt /\ tbits t1 < tbits t2 /\ Z.testbit (const_wires (CI t1 m)) (tbits t1 - 1) = true) ->
  lookup_wires tbl (CI t2 m) = const_wires (CI t2 m).
Proof. exact shared_wires_partial. Qed.
Print Assumptions C12_shared_wires_partial.

(* The exception is real in today's compiler (finding F6k): two folds of the exact
   class, same name, the later int64 one is seen sign-extended. *)
Theorem C12_shared_constant_refuted :
  exists c1 c2,
    fold_exact_class OAdd KUint 32 (2 ^ 30) (2 ^ 30) = true /\
    fold_exact_class OAdd KInt 64 (2 ^ 30) (2 ^ 30) = true /\
    (do l <- typed KUint 32 (2 ^ 30); evalConst OAdd l l) = Ok c1 /\
    (do l <- typed KInt 64 (2 ^ 30); evalConst OAdd l l) = Ok c2 /\
    cname c1 = cname c2 /\
    const_wires c2 = 2 ^ 31 /\
    lookup_wires (intern (intern [] c1) c2) c2 = 2 ^ 64 - 2 ^ 31.
Proof. exact shared_constant_refuted. Qed.
Print Assumptions C12_shared_constant_refuted.

(* ---- the same source expression folded at several types in one compilation ----
   A cast T(A) copies the constant and shares its mpa.Int: for every value A >= 0
   and any two types, T1(A) and T2(A) carry the SAME mpa.Int. *)
Theorem C12_casts_share_the_mint : forall k1 n1 k2 n2 a, 0 <= a ->
  exists t1 t2 m, operand k1 n1 a = Ok (CI t1 m) /\ operand k2 n2 a = Ok (CI t2 m).
Proof. exact casts_share_the_mint. Qed.
Print Assumptions C12_casts_share_the_mint.

(* Binary.Eval is a function of the operator and the two TYPED operands, and NOT of
   the operand mpa.Int objects: no memo keyed by (operator, operand objects) agrees
   with the folder (witness a * b with A = B = 100000: 1410065408 at uint32,
   10000000000 at uint64, FoldClassProof.mul_at_two_types). *)
Theorem C12_fold_is_a_function_of_typed_operands :
  ~ exists memo : binop -> mint -> mint -> res cval,
      forall op t1 t2 m1 m2, evalConst op (CI t1 m1) (CI t2 m2) = memo op m1 m2.
Proof. exact fold_needs_the_operand_types. Qed.
Print Assumptions C12_fold_is_a_function_of_typed_operands.

(* In the model of a program that calls one helper several times, for every list of
   calls, table and names: the folded values depend on each call's own typed
   operands only (no state is carried from one fold of the node to the next). *)
Theorem C12_calls_fold_independently : forall calls tbl names t n ps,
  reg_calls calls tbl names = Ok (t, n, ps) ->
  res_map (fun c => do v <- eval (cex c); consumer_prep (item_of_call c) v) calls = Ok ps.
Proof. exact calls_fold_independently. Qed.
Print Assumptions C12_calls_fold_independently.

(* ---- NESTED folds across a cast ----
   The operands of the theorems above are typed literals.  An operand that is the RESULT
   of an earlier fold at another width, brought to the operator's type by a cast, keeps its
   mpa.Int (C12_casts_share_the_mint): a 64-bit fold result with bit 63 set is a small Int
   with a NEGATIVE value, a narrower result sits in its 32/64-bit container, ...
   [held]: the invariant of an mpa.Int as Generator.Constant leaves it.  It is established
   for EVERY small Int (any int64 value, negative included) and every non-negative big Int —
   all literals, all small-path results, all results of the big-path adder, subtractor and
   multiplier. *)
Theorem C12_constant_leaves_held : forall v t, (isSmall v = true \/ 0 <= mval v) ->
  held (mint_of (constant v t)).
Proof. exact constant_held. Qed.
Print Assumptions C12_constant_leaves_held.

(* What the program sees of a held constant of a type at least as wide as its container
   (every widening cast) is exactly the container's bits — what mpa.Int.bin feeds into the
   big-path circuits. *)
Theorem C12_held_wires : forall k n mn m, held m -> 0 < mbits m <= n ->
  const_wires (CI (mkT k n mn) m) = inval m.
Proof. exact held_wires. Qed.
Print Assumptions C12_held_wires.

(* * + - folded at ANY declared width n > 64 on ANY two held operands of that type (results of
   earlier folds at any width, any casts, containers up to n; all values, negative small
   ones included): the folder answers and the folded constant is the circuit's result on
   exactly the wires the program sees of the two operands (+ and - unless both containers
   are more than one bit shorter than n: the F6f panic). *)
Theorem C12_nested_wide_arith : forall op k n ml mr x y,
  wide_arith op = true -> 64 < n -> held x -> held y ->
  0 < mbits x <= n -> 0 < mbits y <= n ->
  (match op with OAdd | OSub => n - 1 <= Z.max (mbits x) (mbits y) | _ => True end) ->
  exists c, evalConst op (CI (mkT k n ml) x) (CI (mkT k n mr) y) = Ok c /\
    good c k n (snd (circuit_sem op k n (const_wires (CI (mkT k n ml) x)) (const_wires (CI (mkT k n mr) y)))).
Proof. exact nested_wide_arith. Qed.
Print Assumptions C12_nested_wide_arith.

(* & | ^ &^ likewise (the big path reads its operands with ubig(): the non-negative number
   their bits spell — repair of finding F6m; [inrange]: a small Int holds an int64 or a
   value below 2^64). *)
Theorem C12_nested_wide_bitops : forall op k n ml mr x y,
  wide_bitop op = true -> 64 < n -> held x -> held y -> inrange x -> inrange y ->
  0 < mbits x <= n -> 0 < mbits y <= n ->
  exists c, evalConst op (CI (mkT k n ml) x) (CI (mkT k n mr) y) = Ok c /\
    good c k n (snd (circuit_sem op k n (const_wires (CI (mkT k n ml) x)) (const_wires (CI (mkT k n mr) y)))).
Proof. exact nested_wide_bitops. Qed.
Print Assumptions C12_nested_wide_bitops.

(* The former F6m witnesses: uint128(-uint64(5)) << 64 (constant and run-time variant) and
   uint128(-uint64(1)) >> 63 fold to what the circuit computes. *)
Theorem C12_nested_wide_shift_repaired :
  run_program KUint 128 f6m_const = Ok ((2 ^ 64 - 5) * 2 ^ 64) /\
  run_program KUint 128 f6m_runtime = Ok ((2 ^ 64 - 5) * 2 ^ 64) /\
  run_program KUint 128 (EBin ORsh (ECast KUint 128 (ENeg (ECast KUint 64 (ELit 1)))) (ELit 63)) = Ok 1.
Proof. exact nested_wide_shift_repaired. Qed.
Print Assumptions C12_nested_wide_shift_repaired.

(* SCOPE NOTE (binding forms).  The theorems above are about the folder GIVEN its operand
   constants (literals, casts T(a), -T(a), x := E, helper parameters).  The other ways a
   constant reaches a folded operator — var x T; x = c / var x T = c / re-assignment /
   via another constant-bound name / package-level const / struct field / array element /
   function argument / function result / op-assignment / loop variable — are OUTSIDE the
   Coq model: LRValue.Set, VariableDef, Assign are not modelled.  They are tied by the
   harness only (harness/c12bind.go): every form, boundary values at the declared width,
   fold == circuit oracle, keys c12:fold:binding-form:<form>:<op>:<type>:... . *)

(* SCOPE NOTE (evaluators).  Constant folding has three layers: mpa.Int (the arithmetic),
   Binary/Unary evalConst (operator + result type; reached from Binary.SSA and from
   Binary.Eval) and the compile-time Eval entry points of compiler/ast/eval.go through which
   other constructs evaluate expressions (For.SSA -> Assign.Eval on loop headers,
   TypeInfo.Resolve for array sizes, Slice.Eval, Index.Eval, Make.Eval,
   Package.defineConstant, computed shift counts).  The Coq model and the theorems above
   cover the first two layers — the operator semantics.  The third layer (how the results
   are bound to names and consumed by loop unrolling, sizes, bounds, indexes) is OUTSIDE the
   model; harness/c12eval.go ties every entry point to the operator semantics by comparing
   whole programs with a Go reference, keys c12:eval:<entry>:<form>:... . *)

(* STATE INVENTORY (finite obligation on the model regenerated from the source, checked by
   computation).  The struct fields and package-level variables of the Go packages this
   property is anchored in — compiler/ast, compiler/mpa, compiler/ssa — as emitted from /repo's current
   source by harness/gen_state.go (Gen/State.v) are exactly those the models above were written
   against (Base/StateExpected.v).  A new field or variable (a cache, a memo, a pool, a counter,
   a changed field type) is state the models do not have: this obligation then breaks and the
   property is no longer shown to hold until the change has been reviewed against the model. *)
Theorem C12_state_inventory :
  Mpc.Base.StateCheck.state_unchanged Mpc.Gen.State.state_inventory Mpc.Base.StateExpected.expected_state
    Mpc.Base.StatePkgs.pkgs_C12 = true.
Proof. vm_compute. reflexivity. Qed.
Print Assumptions C12_state_inventory.
