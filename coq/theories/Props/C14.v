(* Props/C14.v — property C14: circuit files round-trip; parsers reject malformed files gracefully.
   Only statements closed by [exact], each followed by Print Assumptions.
   [ParseMPCLC] = [parse_mpclc true true] models circuit.ParseMPCLC as it is now (gate bound check
   99bac0d, io.ReadFull in parseString dace4fa).  The pre-fix variant [ParseMPCLC_prefix] and its
   refutation witnesses (findings F9, F10, fixed) stay in IO/MarshalProof.v as a regression record. *)
From Coq Require Import NArith ZArith List Bool.
From Mpc Require Import Gen.Consts Circuit.Circuit IO.Marshal IO.MarshalProof IO.MarshalRoundTrip IO.ParseFile IO.ParseFileProof IO.RunC14.
Import ListNotations.
From Mpc Require Gen.State Base.StateExpected Base.StateCheck Base.StatePkgs.

(* FULL (MPCLC round trip): for every circuit c with
   - header counts and list lengths below 2^32, names and type texts shorter than 2^32 bytes,
     Bits in int32 range, [printable] types (concrete bool/int/uint/string/struct with
     0 <= Bits < 2^31, arrays [N]T with 0 <= N < 2^31 and slices []T of such types),
     compound members recursively the same ([wf_io]),
   - NumGates = number of gates, input bits <= NumWires, every gate input in range and defined
     before use, every wire assigned, NO GATE WRITES AN INPUT WIRE ([parse_sound]; true of every
     compiler output and generated circuit; since commit 407ba55 the parsers reject such gates),
   parsing the written bytes yields exactly [norm c] (everything except IsConcrete/MinBits/struct
   field detail/slice ArraySize of the types and Input1 of INV gates) and writing [norm c] gives
   the same bytes.  No restriction on name lengths relative to the bufio buffer. *)
Theorem C14_mpclc_roundtrip :
  forall c, wf_marshal c -> ParseMPCLC (Marshal c) = Ok (norm c) /\ Marshal (norm c) = Marshal c.
Proof. exact mpclc_roundtrip. Qed.
Print Assumptions C14_mpclc_roundtrip.

(* FULL (Bristol round trip): for every circuit c with NumGates, NumWires <= MaxInt32,
   0 <= Bits < 2^31 for every argument, at least one input bit, and the invariant [parse_sound]
   (which includes: no gate writes an input wire),
   parsing the written text yields [bristol_norm c] (counts, argument sizes as uintN named
   NI<i>/NO<i>, the gates) and writing that gives the same bytes. *)
Theorem C14_bristol_roundtrip :
  forall c, wf_bristol c ->
    ParseBristol (MarshalBristol c) = Ok (bristol_norm c) /\ MarshalBristol (bristol_norm c) = MarshalBristol c.
Proof. exact bristol_roundtrip. Qed.
Print Assumptions C14_bristol_roundtrip.

(* FULL (type text): for every printable type t, types.Parse of Info.String t is [strip t]
   (IsConcrete, MinBits = Bits, no struct fields, array Bits recomputed, slice size 0) and
   printing that gives the same text. *)
Theorem C14_type_roundtrip :
  forall t, printable t -> Parse (info_string t) = Ok (strip t) /\ info_string (strip t) = info_string t.
Proof. exact type_roundtrip. Qed.
Print Assumptions C14_type_roundtrip.

(* FULL (soundness, MPCLC): for ALL byte strings, if ParseMPCLC returns a circuit then
   0 <= input bits <= NumWires, the number of gates equals the header's NumGates, every gate
   input is in range and defined before use (an input wire or the output of an earlier gate),
   every gate output is in range and not an input wire, and every wire is assigned. *)
Theorem C14_mpclc_parse_sound : forall bs c, ParseMPCLC bs = Ok c -> parse_sound c.
Proof. exact (mpclc_sound true true). Qed.
Print Assumptions C14_mpclc_parse_sound.

(* FULL (soundness, Bristol): the same for ALL byte strings offered to ParseBristol. *)
Theorem C14_bristol_parse_sound : forall bs c, ParseBristol bs = Ok c -> parse_sound c.
Proof. exact bristol_sound. Qed.
Print Assumptions C14_bristol_parse_sound.

(* FULL (graceful, MPCLC): for all byte strings (no size bound) ParseMPCLC returns a circuit or
   an error: it never panics and the recursion fuel |bs|+1 is never exhausted (every stage
   consumes input). *)
Theorem C14_mpclc_total : forall bs, ok_or_err (ParseMPCLC bs).
Proof. exact mpclc_ok_or_err. Qed.
Print Assumptions C14_mpclc_total.

(* FULL (graceful, Bristol): for all byte strings ParseBristol returns a circuit or an error:
   none of its index expressions (line[0], line[2+i], line[2+n1+i], inputs[0], outputs[0]) can go
   out of range, and it is structurally recursive on the list of lines. *)
Theorem C14_bristol_total : forall bs, ok_or_err (ParseBristol bs).
Proof. exact bristol_total. Qed.
Print Assumptions C14_bristol_total.

(* FULL: for all type texts types.Parse returns a type or an error. *)
Theorem C14_types_parse_total : forall val, ok_or_err (Parse val).
Proof. exact Parse_ok. Qed.
Print Assumptions C14_types_parse_total.

(* FULL (codec): for all fields l1, all following bytes l2 and every buffer state b, io.ReadFull
   through the buffered reader returns exactly l1 and leaves exactly l2. *)
Theorem C14_read_full_exact :
  forall l1 l2 b, rd_ok (l1 ++ l2, b) ->
    exists b', read_full (nlen l1) (l1 ++ l2, b) = Ok (l1, (l2, b')) /\ rd_ok (l2, b') /\
               (nlen l1 <= b -> b' = b - nlen l1)%N.
Proof. exact read_full_exact. Qed.
Print Assumptions C14_read_full_exact.

(* non-vacuity: a circuit with all gate kinds, a struct argument with compound members and an
   array argument satisfies the hypotheses of both round-trip theorems *)
Theorem C14_roundtrip_hypotheses_inhabited : wf_marshal ex_circuit /\ wf_bristol ex_circuit.
Proof. exact (conj ex_wf_marshal ex_wf_bristol). Qed.
Print Assumptions C14_roundtrip_hypotheses_inhabited.

(* FULL (entry point Circuit.MarshalFormat, the format-dispatching writer used by the compiler's
   Params.CircOut/CircFormat and by apps/garbled): for every format string, circuit and output,
   if it writes anything then the format is "mpclc" or "bristol", the bytes are exactly those of
   Marshal resp. MarshalBristol, and (under the round-trip hypotheses) they parse back. *)
Theorem C14_marshal_format_roundtrip :
  forall c f bs, MarshalFormat f c = Some bs ->
    (f = s_mpclc /\ bs = Marshal c /\ (wf_marshal c -> ParseMPCLC bs = Ok (norm c))) \/
    (f = s_bristol /\ bs = MarshalBristol c /\ (wf_bristol c -> ParseBristol bs = Ok (bristol_norm c))).
Proof. exact marshal_format_roundtrip. Qed.
Print Assumptions C14_marshal_format_roundtrip.

(* FULL (input wires are never overwritten; C01 and C04 rely on it): for ALL byte strings, a circuit
   returned by ParseMPCLC or ParseBristol has no gate whose output id is below the number of input
   wires — i.e. a file in which some gate writes an input wire (e.g. XOR w w w) is rejected by
   both parsers (commit 407ba55: the check sits after the input-not-set checks and before the
   wiresSeen range check of the gate's output; all three are errors). *)
Theorem C14_parse_rejects_input_overwrite :
  forall bs c, ParseMPCLC bs = Ok c \/ ParseBristol bs = Ok c ->
    forall g, In g (c_gates c) -> (io_size (c_inputs c) <= Z.of_N (g_out g))%Z.
Proof. exact parse_rejects_input_overwrite. Qed.
Print Assumptions C14_parse_rejects_input_overwrite.

(* ---- front doors: circuit.IsFilename, circuit.Parse(file) (IO/ParseFile.v) ---- *)

(* FULL (which parser for which name): for EVERY file name (any byte string) the parser that
   circuit.Parse selects is ParseMPCLC exactly when the name ends in ".mpclc", ParseBristol exactly
   when it ends in ".circ" or ".bristol", and none ("unsupported circuit format") exactly when
   IsFilename is false. *)
Theorem C14_select_parser_spec :
  forall file,
    (select_parser file = SelMPCLC <-> has_suffix file s_dot_mpclc = true) /\
    (select_parser file = SelBristol <-> has_suffix file s_dot_circ = true \/ has_suffix file s_dot_bristol = true) /\
    (select_parser file = SelNone <-> IsFilename file = false).
Proof. exact select_parser_spec. Qed.
Print Assumptions C14_select_parser_spec.

(* FULL: for every file name at most one of the three suffixes matches, so the order of the tests
   in Parse / IsFilename is immaterial and no name is claimed by both formats. *)
Theorem C14_suffixes_exclusive :
  forall s,
    (has_suffix s s_dot_mpclc = true -> has_suffix s s_dot_circ = false /\ has_suffix s s_dot_bristol = false) /\
    (has_suffix s s_dot_bristol = true -> has_suffix s s_dot_circ = false /\ has_suffix s s_dot_mpclc = false) /\
    (has_suffix s s_dot_circ = true -> has_suffix s s_dot_bristol = false /\ has_suffix s s_dot_mpclc = false).
Proof. exact suffixes_exclusive. Qed.
Print Assumptions C14_suffixes_exclusive.

(* FULL: for every base name (empty, or itself ending in another suffix, e.g. "x.circ" + ".mpclc")
   and every file content, Parse(base + suffix) IS the parser of that suffix. *)
Theorem C14_parse_file_dispatch :
  forall base bs,
    ParseFile (base ++ s_dot_mpclc) (Some bs) = ParseMPCLC bs /\
    ParseFile (base ++ s_dot_bristol) (Some bs) = ParseBristol bs /\
    ParseFile (base ++ s_dot_circ) (Some bs) = ParseBristol bs.
Proof. exact parse_file_dispatch. Qed.
Print Assumptions C14_parse_file_dispatch.

(* FULL: IsFilename and Parse agree: a name IsFilename rejects is never parsed, whatever the file
   holds (and whether it exists). *)
Theorem C14_parse_file_unsupported :
  forall file content, IsFilename file = false -> ParseFile file content = Err.
Proof. exact parse_file_unsupported. Qed.
Print Assumptions C14_parse_file_unsupported.

(* FULL (graceful, front door): for every file name, every file content and a missing file,
   circuit.Parse returns a circuit or an error. *)
Theorem C14_parse_file_total : forall file content, ok_or_err (ParseFile file content).
Proof. exact parse_file_total. Qed.
Print Assumptions C14_parse_file_total.

(* FULL (soundness, front door): every circuit circuit.Parse returns, for any name and content,
   satisfies [parse_sound]. *)
Theorem C14_parse_file_sound : forall file content c, ParseFile file content = Ok c -> parse_sound c.
Proof. exact parse_file_sound. Qed.
Print Assumptions C14_parse_file_sound.

(* FULL (round trip through both front doors): for every format string f, circuit c and base
   name: what MarshalFormat(f) writes, stored under base + "." + f, is read back by circuit.Parse
   as the normal form of c (the format names of the writer ARE the suffixes of the reader);
   Bristol text is also read back under base + ".circ". *)
Theorem C14_front_door_roundtrip :
  forall base f c bs, MarshalFormat f c = Some bs ->
    (f = s_mpclc /\ bs = Marshal c /\
     (wf_marshal c -> ParseFile (base ++ [46%N] ++ f) (Some bs) = Ok (norm c))) \/
    (f = s_bristol /\ bs = MarshalBristol c /\
     (wf_bristol c -> ParseFile (base ++ [46%N] ++ f) (Some bs) = Ok (bristol_norm c) /\
                      ParseFile (base ++ s_dot_circ) (Some bs) = Ok (bristol_norm c))).
Proof. exact front_door_roundtrip. Qed.
Print Assumptions C14_front_door_roundtrip.

(* FULL (a file of one format under the other format's name): for EVERY circuit c (no hypothesis
   at all) and every base name, the bytes Marshal writes are REJECTED by ParseBristol and hence by
   circuit.Parse under a ".circ" / ".bristol" name — never misread as some other circuit; more
   generally ParseBristol rejects every byte string that starts with the first MAGIC byte 'c'
   (every truncation / extension / mutation of an MPCLC file that keeps its first byte). *)
Theorem C14_mpclc_file_under_bristol_name :
  forall base c,
    ParseBristol (Marshal c) = Err /\
    ParseFile (base ++ s_dot_circ) (Some (Marshal c)) = Err /\
    ParseFile (base ++ s_dot_bristol) (Some (Marshal c)) = Err.
Proof. exact mpclc_file_cross_rejected. Qed.
Print Assumptions C14_mpclc_file_under_bristol_name.

Theorem C14_bristol_rejects_magic_byte : forall t, ParseBristol (c99 :: t) = Err.
Proof. exact bristol_rejects_c99. Qed.
Print Assumptions C14_bristol_rejects_magic_byte.

(* FULL (Circuit.Stats after a parse): for every file name and content, if circuit.Parse returns a
   circuit with Stats st then st is the histogram of its gate kinds (slots Count/NumLevels/MaxWidth
   zero), Stats.Count() = the header's NumGates, NumXOR() + NumNonXOR() = Count(), and Cost() is
   the sum of the per-gate costs (XOR/XNOR 0, AND/INV 2, OR 3). *)
Theorem C14_parse_file_stats :
  forall file content c st, ParseFileStats file content = Ok (c, st) ->
    parse_sound c /\ st = parse_stats (c_gates c) /\ Z.of_N (stats_count st) = c_numgates c /\
    (stats_numxor st + stats_numnonxor st = stats_count st)%N /\
    stats_cost st = fold_right (fun g a => (gate_cost (g_op g) + a)%N) 0%N (c_gates c).
Proof. exact parse_file_stats. Qed.
Print Assumptions C14_parse_file_stats.

(* FULL: for every gate list (any length) the parsers' `stats[op]++` loop yields exactly the
   per-kind counts followed by three zero slots. *)
Theorem C14_parse_stats_spec :
  forall gs, parse_stats gs =
    [count_op XOR gs; count_op XNOR gs; count_op AND gs; count_op OR gs; count_op INV gs; 0%N; 0%N; 0%N].
Proof. exact parse_stats_spec. Qed.
Print Assumptions C14_parse_stats_spec.

(* FULL: for every circuit, the normal forms both round trips return carry the Stats of the
   circuit that was written. *)
Theorem C14_stats_roundtrip :
  forall c, parse_stats (c_gates (norm c)) = parse_stats (c_gates c) /\
            parse_stats (c_gates (bristol_norm c)) = parse_stats (c_gates c).
Proof. exact stats_roundtrip. Qed.
Print Assumptions C14_stats_roundtrip.

(* STATE INVENTORY (finite obligation on the model regenerated from the source, checked by
   computation).  The struct fields and package-level variables of the Go packages this
   property is anchored in — circuit, types — as emitted from /repo's current
   source by harness/gen_state.go (Gen/State.v) are exactly those the models above were written
   against (Base/StateExpected.v).  A new field or variable (a cache, a memo, a pool, a counter,
   a changed field type) is state the models do not have: this obligation then breaks and the
   property is no longer shown to hold until the change has been reviewed against the model. *)
Theorem C14_state_inventory :
  Mpc.Base.StateCheck.state_unchanged Mpc.Gen.State.state_inventory Mpc.Base.StateExpected.expected_state
    Mpc.Base.StatePkgs.pkgs_C14 = true.
Proof. vm_compute. reflexivity. Qed.
Print Assumptions C14_state_inventory.
