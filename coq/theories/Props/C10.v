(* Props/C10.v — property C10: GMW, every party outputs f(inputs); dealt
   triples are valid.  Only statements closed by [exact], each followed by
   Print Assumptions. *)
From Coq Require Import NArith List Bool Arith.
From Mpc Require Import Proto.Live Gmw.GmwNet Gmw.GmwNetProof Gen.SkelGmw.
From Mpc Require Import Base.Codec Circuit.Circuit Gmw.Gmw Gmw.Pool Gmw.GmwProof Gmw.PoolSync Gmw.PoolSyncProof Gmw.GmwReuse Gmw.GmwReuseProof.
Import ListNotations.
From Mpc Require Gen.State Base.StateExpected Base.StateCheck Base.StatePkgs.
Local Open Scope nat_scope.

(* (1) For every number of parties n (any n, in particular n >= 2), every
   batch size, all local random shares a, b of all parties, all sender bits
   sb p q and Delta bits dl p q of every ordered pair, and all receiver bits
   rb p q that satisfy the bit-COT relation  rb p q = sb p q xor (b q and
   Delta-mask (dl p q))  for every ordered pair of distinct parties: in every
   word w of the batch the xor of all parties' c-shares that tripleBatch
   computes equals (xor of all a-shares) AND (xor of all b-shares). *)
Theorem C10_triples_valid :
  forall (n words : nat) (a b : nat -> list N) (sb : nat -> nat -> list N)
         (dl : nat -> nat -> bool) (rb : nat -> nat -> list N),
    cot_relation n words b sb dl rb ->
    forall w, w < words ->
      xorN (map (fun p => tC (nth w (triple_batch n words a b sb dl rb p) t0)) (seq 0 n))
      = N.land (xorN (map (fun p => tA (nth w (triple_batch n words a b sb dl rb p) t0)) (seq 0 n)))
               (xorN (map (fun p => tB (nth w (triple_batch n words a b sb dl rb p) t0)) (seq 0 n))).
Proof. exact triples_valid. Qed.
Print Assumptions C10_triples_valid.

(* (2) For every well-formed single-assignment circuit without OR gates
   (what the compiler emits for the GMW target), every split of its inputs
   among any non-empty list of parties, all inputs, all input-share
   randomness rnd, and all pool states of the parties (words already in the
   pool, batches still to arrive, arbitrary arrival schedule per party) whose
   word streams are valid triples at every position and hold at least
   words_needed c words: Network.Run succeeds at every party (no error, no
   stall) and every party's output is the plain evaluation of the circuit on
   the concatenation of all inputs. *)
Theorem C10_online_correct :
  forall (c : circuit) (isz : list nat) (inputs : list (list bool))
         (rnd : nat -> nat -> list bool) (pools : list (triples * list triples * list nat)),
    wf c = true -> ssa c = true -> gmw_supported c = true ->
    map (@length bool) inputs = isz -> fold_right Nat.add 0 isz = ninputs c ->
    length pools = length isz -> pools <> [] ->
    valid_streams (map pool_stream pools) ->
    (forall pl, In pl pools -> words_needed c <= length (pool_stream pl)) ->
    exists outs, run_gmw c isz inputs rnd pools = Some outs /\ length outs = length pools /\
                 forall o, In o outs -> o = eval_plain c (concat inputs).
Proof. exact online_correct. Qed.
Print Assumptions C10_online_correct.

(* (3) For every well-formed circuit: the levels that (the model of)
   Circuit.AssignLevels(TargetGMW) assigns are as many as there are gates;
   every input wire of a gate of level L is a circuit input or the output of
   an earlier gate g' of level L' with L' + 1 <= L if g' is an AND gate and
   L' <= L otherwise (so in the schedule "rest[L] in gate order, then the AND
   batch of level L" every operand is available); and every level is at most
   Stats[NumLevels], so the loop over 0..NumLevels reaches every gate. *)
Theorem C10_levels_sound :
  forall c : circuit, wf c = true ->
    let gl := combine (gates c) (gate_levels c) in
    length (gate_levels c) = length (gates c) /\
    levelled (ninputs c) gl /\
    (forall g L, In (g, L) gl -> L <= num_levels c).
Proof. exact levels_sound. Qed.
Print Assumptions C10_levels_sound.

(* The levels of (3) are unbounded naturals (Go: Level is uint32 and the
   per-wire scratch array of AssignLevels is []Level).  Regression record: if
   the per-wire level is stored modulo 2^16, then for a wire of AND depth
   65535 (levels up to 65535 are stored exactly), one more AND (level 65535)
   and a consumer of its output, the consumer gets level 0 instead of 65536 —
   not above its producer's, so gate_deps_ok fails and the level-wise
   schedule of Network.run evaluates it before its operand exists.  The
   harness therefore checks AssignLevels on AND chains of depth 65535, 65536,
   65537 and 70000 in every run (oracle key
   c10:levels:and-depth>=65536:not-topological). *)
Theorem C10_level_wrap16_refuted :
  let d := N.to_nat 65535 in
  fst (fst (assign_levels_loop_w wrap16 wrap_witness [d; 0; 0] 0)) = [d; 0] /\
  fst (fst (assign_levels_loop wrap_witness [d; 0; 0] 0)) = [d; S d] /\
  ~ gate_deps_ok 0 [(mkGate 0 0 1 AND, d)] (mkGate 1 1 2 XOR) 0.
Proof. exact level_wrap16_refuted. Qed.
Print Assumptions C10_level_wrap16_refuted.

(* (4) For every sequence of Get counts (one per AND level of a run), every
   pool content, every split of the remaining words into batches and every
   arrival schedule with enough words: the sequence of Gets returns exactly
   the consecutive ranges of ceil(count/64) words of the party's word
   stream — the ranges depend on the counts only, so all parties consume the
   same word positions for the same circuit. *)
Theorem C10_pool_same_order :
  forall (counts : list nat) (pool : triples) (pend : list triples) (sched : list nat),
    total_words counts <= length (stream pool pend) ->
    get_all counts pool pend sched = Some (chunks (map words_for counts) (stream pool pend)).
Proof. exact pool_same_order. Qed.
Print Assumptions C10_pool_same_order.

(* (1)+(2) For every circuit as in (2), all inputs, all randomness and every
   batch dealt by tripleBatch over bit-COTs that satisfy the COT relation
   (receiver bits computed by cot_recv) with at least words_needed c words,
   handed to the parties under arbitrary arrival schedules: every party
   outputs the plain evaluation. *)
Theorem C10_dealt_run_correct :
  forall (c : circuit) (isz : list nat) (inputs : list (list bool)) (rnd : nat -> nat -> list bool)
         (words : nat) (a b : nat -> list N) (sb : nat -> nat -> list N) (dl : nat -> nat -> bool)
         (sched : nat -> list nat),
    wf c = true -> ssa c = true -> gmw_supported c = true ->
    map (@length bool) inputs = isz -> fold_right Nat.add 0 isz = ninputs c -> isz <> [] ->
    words_needed c <= words ->
    let n := length isz in
    let pools := map (fun p => ([], [nth p (deal n words a b sb dl) []], sched p)) (seq 0 n) in
    exists outs, run_gmw c isz inputs rnd pools = Some outs /\ length outs = n /\
                 forall o, In o outs -> o = eval_plain c (concat inputs).
Proof. exact dealt_run_correct. Qed.
Print Assumptions C10_dealt_run_correct.

(* (5) The producer/consumer protocol of the triple pool (PoolSync.v: Get and
   the generator loop as small-step system over the one condition variable).
   For every low-water mark, all batch sizes and every reachable state (any
   interleaving of consumer and generator critical sections, any sequence of
   Get(n) calls, n arbitrary — also larger than the pool can ever hold):
   whenever the consumer is parked in Get, its request is unsatisfied (n > 0)
   and the generator is NOT parked without a pending Signal.  Instances:
   lwm = go_lwm (gmw_lowWaterMark from Gen/Consts.v), bsz = go_bsz. *)
Theorem C10_pool_no_lost_wakeup :
  forall (lwm : nat) (bsz : nat -> nat) (s : pst),
    reachable lwm bsz false s ->
    forall n, cst s = CWaiting n -> 0 < n /\ gst s <> GWaiting.
Proof. exact no_lost_wakeup. Qed.
Print Assumptions C10_pool_no_lost_wakeup.

(* hence some goroutine can always run while a request is outstanding *)
Theorem C10_pool_deadlock_free :
  forall (lwm : nat) (bsz : nat -> nat) (s : pst),
    reachable lwm bsz false s -> cst s <> CIdle ->
    exists s', cons_step lwm false s = Some s' \/ gen_step lwm bsz s = Some s'.
Proof. exact deadlock_free. Qed.
Print Assumptions C10_pool_deadlock_free.

(* and under the round-robin (fair) schedule every Get(n), from every
   reachable state and for every n, returns within 3*n rounds, provided every
   batch has at least one word *)
Theorem C10_pool_get_completes :
  forall (lwm : nat) (bsz : nat -> nat), (forall k, 1 <= bsz k) ->
  forall s, reachable lwm bsz false s ->
    exists k, k <= 3 * need_of (cst s) /\ cst (run_rr lwm bsz false k s) = CIdle.
Proof. exact get_completes. Qed.
Print Assumptions C10_pool_get_completes.

(* Regression record: with the Signal hoisted out of the chunk loop (issued
   once after the whole request) and the constants of the Go code, a
   reachable state has the consumer parked on an unsatisfied request AND the
   generator parked with no Signal pending: after the pool has filled
   (4160 words) a Get of 4219 words hangs. *)
Theorem C10_pool_no_lost_wakeup_hoisted_refuted :
  exists s, reachable go_lwm go_bsz true s /\ lost_wakeup s = true /\
            cst s = CWaiting 59 /\ gst s = GWaiting /\ words s = 0.
Proof. exact pool_no_lost_wakeup_hoisted_refuted. Qed.
Print Assumptions C10_pool_no_lost_wakeup_hoisted_refuted.

(* (6) Word packing of an AND batch (andBatchFlush step 1 / "Set result
   wires").  For every list of share bits of ANY length n — in particular n a
   multiple of 64: packing it into ceil(n/64) uint64 words (the model's
   per-word form [pack], and [pack_go], the literal transcription of the Go
   loop over words*64 padded positions) and reading the n positions back with
   bit() is the identity, and exactly ceil(n/64) words are produced. *)
Theorem C10_pack_unpack_id :
  forall bs : list bool,
    unpack (length bs) (pack bs (words_for (length bs))) = bs /\
    unpack (length bs) (pack_go bs (words_for (length bs))) = bs /\
    length (pack bs (words_for (length bs))) = words_for (length bs).
Proof. exact pack_unpack_id. Qed.
Print Assumptions C10_pack_unpack_id.

(* the last word of a batch of n > 0 gates holds n - 64*(words-1) gates:
   between 1 and 64, and 64 (never 0) when n is a multiple of 64 *)
Theorem C10_last_word_count :
  forall n, 0 < n ->
    let cnt := n - 64 * (words_for n - 1) in
    1 <= cnt <= 64 /\ (n mod 64 = 0 -> cnt = 64).
Proof. exact last_word_count. Qed.
Print Assumptions C10_last_word_count.

(* (7) Network reuse.  Network.Run does not clear nw.wires: a run starts on
   the wire shares the previous run left (GmwReuse.v: setWires overwrites the
   input positions, gates overwrite their outputs, everything else — also all
   positions at or above the new circuit's NumWires — keeps its old share;
   nw.output = wires >> (NumWires - nout) carries those stale shares above
   bit nout; Outputs.Split reads exactly Outputs.Size() bits).
   For every sequence of jobs (circuit, input split, inputs, share
   randomness), each well formed, single assignment, OR-free and for the
   network's number of parties, and for EVERY state the parties' wires may be
   in at the start (any contents, equal length at all parties — in particular
   whatever any earlier runs left behind), with valid triple streams holding
   enough words for the whole sequence: every run succeeds and every party's
   result of every run is the plain evaluation of THAT run's circuit on THAT
   run's inputs. *)
Theorem C10_reuse_independent :
  forall (jobs : list job) (sts : list pstate) (Lp : nat),
    sts <> [] ->
    (forall st, In st sts -> length (ps_wires st) = Lp) ->
    valid_streams (map sstream sts) ->
    (forall st, In st sts -> total_need jobs <= length (sstream st)) ->
    Forall (job_ok (length sts)) jobs ->
    exists outs, run_seq jobs sts = Some outs /\
      Forall2 (fun j o => length o = length sts /\
                          forall r, In r o -> r = eval_plain (jc j) (concat (jinputs j))) jobs outs.
Proof. exact reuse_independent. Qed.
Print Assumptions C10_reuse_independent.

(* Regression record for the truncation in Split: after a 6-wire circuit the
   opened output of a 3-wire, 1-output circuit is [result; stale w3; w4; w5];
   returned without reading exactly nout bits it would differ from the plain
   evaluation [true]. *)
Theorem C10_reuse_untruncated_output_refuted :
  match run_on ex_big [1; 1] [[true]; [true]] (fun _ _ => [true]) (fresh [([], [], []); ([], [], [])]) with
  | Some (sts1, _) =>
      match run_on ex_small [1; 1] [[true]; [false]] (fun _ _ => [false]) sts1 with
      | Some (sts2, _) => bxor_bits 0 (map (fun st => out_go ex_small (ps_wires st)) sts2)
      | None => []
      end
  | None => []
  end = [true; true; false; true].
Proof. exact ex_reuse_stale_without_split. Qed.
Print Assumptions C10_reuse_untruncated_output_refuted.

(* ONLINE PHASE AS A NETWORK (Gmw/GmwNet.v): n parties, pairwise FIFO channels, a
   write buffer per peer at every sender (p2p.Conn), Send / Flush / blocking Receive;
   a Send may flush on its own (buffer full) — a choice of the schedule.  The order of
   the operations of every party is the skeleton harness/gen_skel_gmw.go extracts from
   gmw/network.go and gmw/peer.go on every run (Gen/SkelGmw.v); Gmw/GmwNet.gflat turns
   it into the action list of party `self` of `n` for a list of levels (AND count,
   len(nw.andD)); every item carries (phase, level, sender, receiver, kind) and a
   Receive that meets another item than the one it expects sets ns_bad.

   (N1) The skeleton extracted from the CURRENT source is the reference skeleton the
   theorems below are proved for, and the translator met nothing it did not understand
   (a deleted Flush, a reordered Send/Receive, a connection operation on another
   connection: this obligation breaks). *)
Theorem C10_net_skeleton_from_source : skel_gmw_run = ref_run /\ skel_gmw_errors = [].
Proof. exact skel_matches_source. Qed.
Print Assumptions C10_net_skeleton_from_source.

(* (N2) For EVERY number of parties n, EVERY list of levels (number of AND gates and
   vector length per level index; levels without AND gates exchange nothing) and EVERY
   fair schedule — any interleaving of the parties in which every party is scheduled
   again and again (at least total_len rounds covering all parties), with any choice of
   automatic flushes —: all parties finish, every write buffer and every channel is
   empty, and no Receive met an item other than the one sent for that phase and level
   by that peer (ndone). *)
Theorem C10_net_online_live :
  forall (n : nat) (levels : list GmwNet.level) (sched : list GmwNet.choice),
    nfair n (party_acts skel_gmw_run n levels) sched ->
    ndone n (nrun sched (ninit n (party_acts skel_gmw_run n levels))) = true.
Proof. exact gmw_online_live. Qed.
Print Assumptions C10_net_online_live.

(* (N3) Under EVERY schedule, fair or not, at every moment: no Receive has met an
   item of another phase, level, peer or kind than it expects (no cross-level mix-up). *)
Theorem C10_net_online_no_mixup :
  forall (n : nat) (levels : list GmwNet.level) (sched : list GmwNet.choice),
    ns_bad (nrun sched (ninit n (party_acts skel_gmw_run n levels))) = false.
Proof. exact gmw_online_safe. Qed.
Print Assumptions C10_net_online_no_mixup.

(* (N4) The general result behind (N2): for every n, every family of programs that is
   compatible (what i sends to j is, in order, what j expects from i), clean (no
   unflushed data when a party receives or ends) and ranked (a rank on items such that,
   within every program, an item received before another is sent has the smaller rank),
   every fair schedule ends with ndone. *)
Theorem C10_net_live_generic :
  forall (n : nat) (progs : nat -> list nact) (rk : tag -> nat),
    compatible n progs -> (forall i, i < n -> clean (progs i)) -> (forall i, i < n -> okr rk (progs i)) ->
    forall sched, nfair n progs sched -> ndone n (nrun sched (ninit n progs)) = true.
Proof. exact net_live_generic. Qed.
Print Assumptions C10_net_live_generic.

(* (N5) What the flattened skeleton is, for every n, levels and party: per phase (input
   sharing; every level with AND gates; output reconstruction), for every peer j in
   ascending id order, the lower id sends (Data, or Uint32 + the labels of d and e),
   flushes, then receives; the higher id receives, then sends and flushes. *)
Theorem C10_net_flat_is_program :
  forall (n : nat) (levels : list GmwNet.level) (self : nat),
    party_acts ref_run n levels self = party_prog n levels self.
Proof. exact gflat_ref. Qed.
Print Assumptions C10_net_flat_is_program.

(* (N6) The fairness hypothesis is not vacuous: for every n >= 1 and every program
   family the round-robin schedule of total_len rounds is fair. *)
Theorem C10_net_fair_schedules_exist :
  forall (n : nat) (progs : nat -> list nact), 0 < n -> nfair n progs (rr_sched n (total_len n progs)).
Proof. exact rr_is_fair. Qed.
Print Assumptions C10_net_fair_schedules_exist.

(* (N7) Regression record: the variant in which the lower party of every exchange
   receives BEFORE it flushes does not terminate — a fair schedule of two parties after
   which the network is not done (both parties blocked in a Receive, the shares still
   in the write buffers), although no unexpected item was met. *)
Theorem C10_net_recv_before_flush_refuted :
  exists (n : nat) (levels : list GmwNet.level) (sched : list GmwNet.choice),
    2 <= n /\ nfair n (party_acts rbf_run n levels) sched /\
    ndone n (nrun sched (ninit n (party_acts rbf_run n levels))) = false /\
    ns_bad (nrun sched (ninit n (party_acts rbf_run n levels))) = false.
Proof. exact rbf_refuted. Qed.
Print Assumptions C10_net_recv_before_flush_refuted.

(* OUTSIDE THE MODEL: the command-line front end.  apps/garbled -gmw (gmwMode:
   per round create/join the network, Connect, loadCircuit with the input
   sizes the parties just exchanged, Run, Close; -loop repeats this) is not
   modelled: the theorems above are about ONE circuit handed to Network.Run.
   That every round of a looping party uses the circuit compiled for THAT
   round's input sizes is tied by the oracle-only family harness/c10cli.go:
   the built CLI, a -loop leader, peers with []byte inputs of sizes s1, s2 <>
   s1, s1 (plus a fixed-size program and a 3-party round); every party's
   printed result of every round vs Circuit.Compute of the program compiled
   for the round's sizes (keys c10:cli:gmw-loop:round<k>:wrong-result /
   :error / :hang). *)

(* STATE INVENTORY (finite obligation on the model regenerated from the source, checked by
   computation).  The struct fields and package-level variables of the Go packages this
   property is anchored in — circuit, gmw, ot — as emitted from /repo's current
   source by harness/gen_state.go (Gen/State.v) are exactly those the models above were written
   against (Base/StateExpected.v).  A new field or variable (a cache, a memo, a pool, a counter,
   a changed field type) is state the models do not have: this obligation then breaks and the
   property is no longer shown to hold until the change has been reviewed against the model. *)
Theorem C10_state_inventory :
  Mpc.Base.StateCheck.state_unchanged Mpc.Gen.State.state_inventory Mpc.Base.StateExpected.expected_state
    Mpc.Base.StatePkgs.pkgs_C10 = true.
Proof. vm_compute. reflexivity. Qed.
Print Assumptions C10_state_inventory.
