(* Props/C01.v — property C01: garbled evaluation equals plain evaluation.
   Only statements closed by [exact], each followed by Print Assumptions. *)
From Coq Require Import NArith ZArith List Bool.
From Mpc Require Import Gen.Consts Base.Label Base.Aes Circuit.Circuit Circuit.Garble Circuit.GarbleProof Circuit.ComputeIO Circuit.ComputeIOProof Circuit.RunC01.
Import ListNotations.
From Mpc Require Gen.State Base.StateExpected Base.StateCheck Base.StatePkgs.

(* For every block function pi (hence every AES key of every length), every
   random stream rnd (hence every R with its S bit forced and every
   combination of point-and-permute bits), every content of the reused
   scratch buffer, every well-formed circuit and every input assignment:
   garbled evaluation on the labels that encode x succeeds, and on every
   output wire it yields one of that wire's two labels, that label decodes
   (BitFromLabel) to exactly the bit of gate-by-gate evaluation, and the two
   labels of the wire are different (decoding is unambiguous). *)
Theorem C01_garble_eval_correct :
  forall (pi : N -> N) (rnd : nat -> N) (scratch : list wire) (c : circuit) (x : list bool),
    wf c = true -> length x = ninputs c ->
    let g := garble pi rnd scratch c in
    exists ew, geval pi c (encode g c x) (gTables g) = Some ew /\
      forall o, In o (output_wires c) ->
        let b := nth o (eval_plain_wires c x) false in
        nth o ew 0%N = pick (nth o (gWires g) w0) b /\
        decode (nth o (gWires g) w0) (nth o ew 0%N) = Some b /\
        L0 (nth o (gWires g) w0) <> L1 (nth o (gWires g) w0).
Proof. exact garble_eval_correct. Qed.
Print Assumptions C01_garble_eval_correct.

(* the decoded output vector is the plain evaluator's output vector *)
Theorem C01_decoded_outputs_eq_plain :
  forall pi rnd scratch c x, wf c = true -> length x = ninputs c ->
    let g := garble pi rnd scratch c in
    exists ew, geval pi c (encode g c x) (gTables g) = Some ew /\
      map (fun o => decode (nth o (gWires g) w0) (nth o ew 0%N)) (output_wires c)
      = map Some (eval_plain c x).
Proof. exact garble_decoded_outputs. Qed.
Print Assumptions C01_decoded_outputs_eq_plain.

(* the gate-kind numbering the models decode agrees with circuit.Operation
   as regenerated from the source *)
Theorem C01_op_enum :
  map op_of_Z [circuit_XOR; circuit_XNOR; circuit_AND; circuit_OR; circuit_INV]
  = [XOR; XNOR; AND; OR; INV].
Proof. exact op_enum_ok. Qed.
Print Assumptions C01_op_enum.

(* The well-formedness hypothesis "no gate writes an input wire" is necessary
   and is NOT enforced by the circuit-file parsers: a parser-accepted circuit
   that overwrites input wire 0 has a defined plain evaluation, but its garbled
   evaluation ends with a label that is neither label of the output wire
   (known finding F35; exhibited on the implementation by the harness). *)
Theorem C01_input_overwrite_refuted :
  wf_parser overwrite_circuit = true /\ wf overwrite_circuit = false /\
  eval_plain overwrite_circuit [true; true] = [false] /\
  decoded_outputs (aes_pi (aes_schedule (be_bytes 16 7))) (fun i => N.of_nat (1000 + 37 * i))
                  overwrite_circuit [true; true] = Some [None].
Proof. exact input_overwrite_refuted. Qed.
Print Assumptions C01_input_overwrite_refuted.

(* Circuit.Compute over []*big.Int (circuit/computer.go), model Circuit/ComputeIO.v.
   For every circuit (no well-formedness needed), every declared input layout (any number
   of arguments, any widths incl. 0 and widths that are no multiple of 8 or 64, compound
   arguments replaced by their members), every declared output layout that fits the
   circuit, and every list of argument values in Z (negative, narrower or wider than
   the declared width) with one value per flattened argument: Compute succeeds and its
   k-th result is the unsigned number formed by the k-th field of the plain evaluation
   of the flattened bits (bit i of argument k = big.Int.Bit(i)). *)
Theorem C01_compute_io_eq_eval_plain :
  forall (c : circuit) (ins outs : list ioarg) (vals : list Z),
    layout_ok c ins outs -> length vals = length (flat_args ins) ->
    compute_io c ins outs vals
    = COk (pack_bits (map iobits outs) (eval_plain c (flatten_inputs (flat_args ins) vals))).
Proof. exact compute_io_eq_eval_plain. Qed.
Print Assumptions C01_compute_io_eq_eval_plain.

(* For every circuit, layout and argument values (no hypothesis on the layout): only
   value mod 2^width of each argument matters, i.e. a negative value acts as its two's
   complement, an over-wide value is truncated, a narrow one zero-extended. *)
Theorem C01_compute_io_vals_mod :
  forall c ins outs vals,
    length vals = length (flat_args ins) ->
    compute_io c ins outs (reduce_vals (flat_args ins) vals) = compute_io c ins outs vals.
Proof. exact compute_io_vals_mod. Qed.
Print Assumptions C01_compute_io_vals_mod.

(* Same quantifiers as C01_compute_io_eq_eval_plain: there is one result per declared
   output, every result r satisfies 0 <= r < 2^width, and reading the results back bit
   by bit (the reader of the input side) returns exactly the plain output bits: the
   packing loses nothing and adds nothing. *)
Theorem C01_compute_io_results_roundtrip :
  forall c ins outs vals,
    layout_ok c ins outs -> length vals = length (flat_args ins) ->
    exists rs, compute_io c ins outs vals = COk rs /\
      length rs = length outs /\
      Forall2 (fun n r => (0 <= r < 2 ^ Z.of_nat n)%Z) (map iobits outs) rs /\
      flatten_inputs (map iobits outs) rs = eval_plain c (flatten_inputs (flat_args ins) vals).
Proof. exact compute_io_results_roundtrip. Qed.
Print Assumptions C01_compute_io_results_roundtrip.

(* For every circuit, layout and value list of the wrong length: the explicit
   "invalid inputs: got, expected" error with exactly these two numbers. *)
Theorem C01_compute_io_arg_count :
  forall c ins outs vals, length vals <> length (flat_args ins) ->
    compute_io c ins outs vals = CErrArgs (length vals) (length (flat_args ins)).
Proof. exact compute_io_arg_count. Qed.
Print Assumptions C01_compute_io_arg_count.

(* The main claim at the level of argument VALUES: for every block function, random
   stream, scratch content, wf circuit, fitting layout and argument values, garbled
   evaluation on the labels that encode the flattened values succeeds, every output
   label decodes, and the decoded bits packed per declared output are the numbers
   Circuit.Compute returns for those values. *)
Theorem C01_garbled_eq_compute_io :
  forall (pi : N -> N) (rnd : nat -> N) (scratch : list wire) c ins outs vals,
    wf c = true -> layout_ok c ins outs -> length vals = length (flat_args ins) ->
    let x := flatten_inputs (flat_args ins) vals in
    let g := garble pi rnd scratch c in
    exists ew bs, geval pi c (encode g c x) (gTables g) = Some ew /\
      map (fun o => decode (nth o (gWires g) w0) (nth o ew 0%N)) (output_wires c) = map Some bs /\
      compute_io c ins outs vals = COk (pack_bits (map iobits outs) bs).
Proof. exact garbled_eq_compute_io. Qed.
Print Assumptions C01_garbled_eq_compute_io.

(* STATE INVENTORY (finite obligation on the model regenerated from the source, checked by
   computation).  The struct fields and package-level variables of the Go packages this
   property is anchored in — circuit, ot — as emitted from /repo's current
   source by harness/gen_state.go (Gen/State.v) are exactly those the models above were written
   against (Base/StateExpected.v).  A new field or variable (a cache, a memo, a pool, a counter,
   a changed field type) is state the models do not have: this obligation then breaks and the
   property is no longer shown to hold until the change has been reviewed against the model. *)
Theorem C01_state_inventory :
  Mpc.Base.StateCheck.state_unchanged Mpc.Gen.State.state_inventory Mpc.Base.StateExpected.expected_state
    Mpc.Base.StatePkgs.pkgs_C01 = true.
Proof. vm_compute. reflexivity. Qed.
Print Assumptions C01_state_inventory.
