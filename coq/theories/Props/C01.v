(* Props/C01.v — property C01: garbled evaluation equals plain evaluation.
   Only statements closed by [exact], each followed by Print Assumptions. *)
From Coq Require Import NArith ZArith List Bool.
From Mpc Require Import Gen.Consts Base.Label Base.Aes Circuit.Circuit Circuit.Garble Circuit.GarbleProof Circuit.RunC01.
Import ListNotations.
From Mpc Require Gen.State Base.StateExpected Base.StateCheck Base.StatePkgs.

(* For every block function pi (hence every AES key of every length), every
   random stream rnd (hence every R with its S bit forced and every
   combination of point-and-permute bits), every content of the reused
   scratch buffer, every well-formed circuit and every input assignment:
   garbled evaluation on the labels that encode x succeeds, and on every
   output wire it yields one of that wire's two labels, that label decodes
   (BitFromLabel) to exactly the bit of gate-by-gate evaluation, and the two
   labels of the wire are different (decoding is unambiguous). *)
Theorem C01_garble_eval_correct :
  forall (pi : N -> N) (rnd : nat -> N) (scratch : list wire) (c : circuit) (x : list bool),
    wf c = true -> length x = ninputs c ->
    let g := garble pi rnd scratch c in
    exists ew, geval pi c (encode g c x) (gTables g) = Some ew /\
      forall o, In o (output_wires c) ->
        let b := nth o (eval_plain_wires c x) false in
        nth o ew 0%N = pick (nth o (gWires g) w0) b /\
        decode (nth o (gWires g) w0) (nth o ew 0%N) = Some b /\
        L0 (nth o (gWires g) w0) <> L1 (nth o (gWires g) w0).
Proof. exact garble_eval_correct. Qed.
Print Assumptions C01_garble_eval_correct.

(* the decoded output vector is the plain evaluator's output vector *)
Theorem C01_decoded_outputs_eq_plain :
  forall pi rnd scratch c x, wf c = true -> length x = ninputs c ->
    let g := garble pi rnd scratch c in
    exists ew, geval pi c (encode g c x) (gTables g) = Some ew /\
      map (fun o => decode (nth o (gWires g) w0) (nth o ew 0%N)) (output_wires c)
      = map Some (eval_plain c x).
Proof. exact garble_decoded_outputs. Qed.
Print Assumptions C01_decoded_outputs_eq_plain.

(* the gate-kind numbering the models decode agrees with circuit.Operation
   as regenerated from the source *)
Theorem C01_op_enum :
  map op_of_Z [circuit_XOR; circuit_XNOR; circuit_AND; circuit_OR; circuit_INV]
  = [XOR; XNOR; AND; OR; INV].
Proof. exact op_enum_ok. Qed.
Print Assumptions C01_op_enum.

(* The well-formedness hypothesis "no gate writes an input wire" is necessary
   and is NOT enforced by the circuit-file parsers: a parser-accepted circuit
   that overwrites input wire 0 has a defined plain evaluation, but its garbled
   evaluation ends with a label that is neither label of the output wire
   (known finding F35; exhibited on the implementation by the harness). *)
Theorem C01_input_overwrite_refuted :
  wf_parser overwrite_circuit = true /\ wf overwrite_circuit = false /\
  eval_plain overwrite_circuit [true; true] = [false] /\
  decoded_outputs (aes_pi (aes_schedule (be_bytes 16 7))) (fun i => N.of_nat (1000 + 37 * i))
                  overwrite_circuit [true; true] = Some [None].
Proof. exact input_overwrite_refuted. Qed.
Print Assumptions C01_input_overwrite_refuted.

(* STATE INVENTORY (finite obligation on the model regenerated from the source, checked by
   computation).  The struct fields and package-level variables of the Go packages this
   property is anchored in — circuit, ot — as emitted from /repo's current
   source by harness/gen_state.go (Gen/State.v) are exactly those the models above were written
   against (Base/StateExpected.v).  A new field or variable (a cache, a memo, a pool, a counter,
   a changed field type) is state the models do not have: this obligation then breaks and the
   property is no longer shown to hold until the change has been reviewed against the model. *)
Theorem C01_state_inventory :
  Mpc.Base.StateCheck.state_unchanged Mpc.Gen.State.state_inventory Mpc.Base.StateExpected.expected_state
    Mpc.Base.StatePkgs.pkgs_C01 = true.
Proof. vm_compute. reflexivity. Qed.
Print Assumptions C01_state_inventory.
