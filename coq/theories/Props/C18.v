(* Props/C18.v — property C18 (placeholder while the proofs are being written) *)
From Coq Require Import NArith List Bool.
From Mpc Require Import Gen.Consts IO.Sha2pcCodec IO.RunC18.
Import ListNotations.

Theorem C18_consts :
  map byteLen all_curves = [28; 32; 48; 66]%nat /\
  N.of_nat round3PayloadLen = 707146%N /\
  map (fun c => N.of_nat (length (curve_name c))) all_curves = [5; 5; 5; 5]%N /\
  N.of_nat evaluatorChoiceSignBytes = ((N.of_nat evaluatorCiphertextCount + 7) / 8)%N /\
  N.of_nat garbledTableByteLen = (N.of_nat garbledTableLabelCount * N.of_nat labelByteLen)%N.
Proof. exact c18_consts_ok. Qed.
Print Assumptions C18_consts.
