(* Props/C18.v — property C18: SHA256(XOR) protocol (sha2pc): correct,
   resumable, canonical encodings.  Only statements closed by [exact], each
   followed by Print Assumptions.  The model is IO/Sha2pcCodec.v (bytes = list
   N; outcome Ok / Err / Panic); elliptic-curve arithmetic, garbling and the
   CO oblivious transfer are opaque functions there. *)
From Coq Require Import NArith List Bool Arith.
From Mpc Require Import Gen.Consts Base.Label Base.Codec Circuit.Circuit Circuit.Garble
     IO.Sha2pcCodec IO.Sha2pcProof IO.Sha2pcInstProof IO.Sha2pcRounds IO.Sha2pcRoundsProof IO.RunC18.
Import ListNotations.
From Mpc Require Gen.State Base.StateExpected Base.StateCheck Base.StatePkgs.
Open Scope N_scope.

(* The hypothesis [chunk_limit_ok] (IO/Sha2pcProof.v): the regenerated
   sha2pc.chunkSizeLimit, which only readChunk enforces, is at least the
   largest chunk an encoder writes on every supported curve (the evaluator
   session's choice bundle, 38 + 258*byteLen bytes: 17066 on P-521).  It is a
   premise of every theorem that decodes an encoder's output and is discharged
   for the current constant by the LAST obligation of this file,
   C18_limit_covers_all_encodings (by computation): a limit that is too small
   breaks exactly that obligation, the model and the harness still run. *)

(* ---- C18_codec_roundtrip: for every curve and EVERY well-formed message /
   state (session id below 2^64, the curve's name, integers that fit the
   curve's field width, the protocol's element counts, labels below 2^128;
   for Round2 additionally: every point is one that UnmarshalCompressed gives
   back from its X and the parity of its Y — [decompress] is an arbitrary
   function): Encode succeeds, Decode of the bytes returns the value, and the
   byte length is the documented one. *)
Theorem C18_codec_roundtrip_round1 :   chunk_limit_ok ->
forall c m, wf_r1 c m ->
  exists b, EncodeRound1 c m = Ok b /\ DecodeRound1 c b = Ok m /\ length b = (16 + 2 * byteLen c)%nat.
Proof. exact r1_roundtrip. Qed.
Print Assumptions C18_codec_roundtrip_round1.

Theorem C18_codec_roundtrip_round2 :   chunk_limit_ok ->
forall decompress c m, wf_r2 decompress c m ->
  exists b, EncodeRound2 c m = Ok b /\ DecodeRound2 decompress c b = Ok m /\
            length b = (48 + 256 * byteLen c)%nat.
Proof. exact r2_roundtrip. Qed.
Print Assumptions C18_codec_roundtrip_round2.

Theorem C18_codec_roundtrip_round3 : forall m, wf_r3 m ->
  exists b, EncodeRound3 m = Ok b /\ DecodeRound3 b = Ok m /\ length b = round3PayloadLen.
Proof. exact r3_roundtrip. Qed.
Print Assumptions C18_codec_roundtrip_round3.

Theorem C18_codec_roundtrip_garbler_session :   chunk_limit_ok ->
forall c s, wf_gs c s ->
  exists b, EncodeGarblerSession c s = Ok b /\ DecodeGarblerSession c b = Ok s /\
            length b = (18 + 5 * byteLen c)%nat.
Proof. exact gs_roundtrip. Qed.
Print Assumptions C18_codec_roundtrip_garbler_session.

Theorem C18_codec_roundtrip_evaluator_session :   chunk_limit_ok ->
forall c s, wf_es c s ->
  exists b, EncodeEvaluatorSession c s = Ok b /\ DecodeEvaluatorSession c b = Ok s /\ length b = es_len c.
Proof. exact es_roundtrip. Qed.
Print Assumptions C18_codec_roundtrip_evaluator_session.

(* the sizes above are the documented ones: byteLen 28/32/48/66, Round3
   707146 bytes (P-256: 80 / 8240 / 178 / 8306, P-224: 72 / 7216 / 158 / 7274) *)
Theorem C18_documented_sizes :
  map byteLen all_curves = [28; 32; 48; 66]%nat /\
  N.of_nat round3PayloadLen = 707146%N /\
  map (fun c => N.of_nat (length (curve_name c))) all_curves = [5; 5; 5; 5]%N /\
  N.of_nat evaluatorChoiceSignBytes = ((N.of_nat evaluatorCiphertextCount + 7) / 8)%N /\
  N.of_nat garbledTableByteLen = (N.of_nat garbledTableLabelCount * N.of_nat labelByteLen)%N.
Proof. exact c18_consts_ok. Qed.
Print Assumptions C18_documented_sizes.

(* ---- C18_reject.  For EVERY byte string: a wrong magic is an error, for all
   five decoders. *)
Theorem C18_reject_magic : forall decompress c data,
  (firstn 2 data <> magicRound1 -> DecodeRound1 c data = Err) /\
  (firstn 2 data <> magicRound2 -> DecodeRound2 decompress c data = Err) /\
  (firstn 2 data <> magicRound3 -> DecodeRound3 data = Err) /\
  (firstn 2 data <> magicGarblerSession -> DecodeGarblerSession c data = Err) /\
  (firstn 2 data <> magicEvalSession -> DecodeEvaluatorSession c data = Err).
Proof.
  exact (fun d c data => conj (reject_magic_r1 c data) (conj (reject_magic_r2 d c data)
          (conj (reject_magic_r3 data) (conj (reject_magic_gs c data) (reject_magic_es c data))))).
Qed.
Print Assumptions C18_reject_magic.

(* wrong total length is an error: for EVERY byte string, every curve, all
   five decoders (since the fixes 832c61e / ad7f790 / 19366c8 in /repo; the
   pre-fix counterexamples are kept as regression records in
   IO/Sha2pcProof.v: r1_trailing_record, r2_nonminimal_record,
   gs_trailing_record, es_short_record) *)
Theorem C18_reject_length : forall decompress c bs,
  (length bs <> (16 + 2 * byteLen c)%nat -> DecodeRound1 c bs = Err) /\
  (length bs <> (48 + 256 * byteLen c)%nat -> DecodeRound2 decompress c bs = Err) /\
  (length bs <> round3PayloadLen -> DecodeRound3 bs = Err) /\
  (length bs <> (18 + 5 * byteLen c)%nat -> DecodeGarblerSession c bs = Err) /\
  (length bs <> es_len c -> DecodeEvaluatorSession c bs = Err).
Proof. exact reject_length. Qed.
Print Assumptions C18_reject_length.

(* every strict prefix (indeed every byte string of another length) of the
   encoding of EVERY well-formed message/state is an error *)
Theorem C18_reject_strict_prefix :   chunk_limit_ok ->
forall decompress c,
  (forall m b p, wf_r1 c m -> EncodeRound1 c m = Ok b -> length p <> length b -> DecodeRound1 c p = Err) /\
  (forall m b p, wf_r2 decompress c m -> EncodeRound2 c m = Ok b -> length p <> length b ->
                 DecodeRound2 decompress c p = Err) /\
  (forall m b p, wf_r3 m -> EncodeRound3 m = Ok b -> length p <> length b -> DecodeRound3 p = Err) /\
  (forall s b p, wf_gs c s -> EncodeGarblerSession c s = Ok b -> length p <> length b ->
                 DecodeGarblerSession c p = Err) /\
  (forall s b p, wf_es c s -> EncodeEvaluatorSession c s = Ok b -> length p <> length b ->
                 DecodeEvaluatorSession c p = Err).
Proof. exact reject_strict_prefix. Qed.
Print Assumptions C18_reject_strict_prefix.

(* canonical encodings: for EVERY string of bytes (values below 256) that
   Round1 / Round3 / GarblerSession / EvaluatorSession decoding accepts, the
   decoded value re-encodes to exactly those bytes (and is well-formed).
   (Round2: C18_canonical_round2 below, under the soundness of point
   decompression, which the harness checks against the implementation.) *)
Theorem C18_canonical : forall c bs, is_bytes bs ->
  (forall m, DecodeRound1 c bs = Ok m -> EncodeRound1 c m = Ok bs /\ wf_r1 c m) /\
  (forall m, DecodeRound3 bs = Ok m -> EncodeRound3 m = Ok bs) /\
  (forall s, DecodeGarblerSession c bs = Ok s -> EncodeGarblerSession c s = Ok bs /\ wf_gs c s) /\
  (forall s, DecodeEvaluatorSession c bs = Ok s -> EncodeEvaluatorSession c s = Ok bs /\ wf_es c s).
Proof.
  exact (fun c bs B => conj (fun m => r1_canonical c bs m B) (conj (fun m => r3_canonical bs m B)
          (conj (fun s => gs_canonical c bs s B) (fun s => es_canonical c bs s B)))).
Qed.
Print Assumptions C18_canonical.

(* the encoding of EVERY well-formed message/state of one curve is an error
   for the decoder of any other curve (Round3 carries no curve) *)
Theorem C18_reject_other_curve :   chunk_limit_ok ->
forall c c', c <> c' ->
  (forall m b, wf_r1 c m -> EncodeRound1 c m = Ok b -> DecodeRound1 c' b = Err) /\
  (forall dec m b, EncodeRound2 c m = Ok b -> DecodeRound2 dec c' b = Err) /\
  (forall s b, wf_gs c s -> EncodeGarblerSession c s = Ok b -> DecodeGarblerSession c' b = Err) /\
  (forall s b, wf_es c s -> EncodeEvaluatorSession c s = Ok b -> DecodeEvaluatorSession c' b = Err).
Proof.
  exact (fun L c c' H => conj (fun m b => reject_curve_r1 L c c' m b H)
          (conj (fun dec m b => reject_curve_r2 L dec c c' m b H)
          (conj (fun s b => reject_curve_gs L c c' s b H) (fun s b => reject_curve_es L c c' s b H)))).
Qed.
Print Assumptions C18_reject_other_curve.

(* (EvaluatorRound4's output decoding, model [decode_outputs]: an evaluator
   label that is neither hint of its output wire is an error on ANY of the 256
   wires, not only the last.  The harness feeds tampered Round3 hints and the
   honest output labels to run_c18 kind 8 and compares with the real
   EvaluatorRound4: correspondence, plus the digest oracle.) *)

(* a message or state of another session is an error in the consuming round
   (the decoders cannot know the expected id), for ALL opaque crypto functions;
   likewise a Round1 message naming another curve *)
Theorem C18_reject_other_session :
  forall RND read_key garble_circ encrypt_co decrypt_co eval_circ,
  (forall rng st a req, r2_sid req <> gs_sid st ->
     GarblerRound3 RND read_key garble_circ encrypt_co rng st a req = Err) /\
  (forall st msg, r3_sid msg <> es_sid st -> EvaluatorRound4 decrypt_co eval_circ st msg = Err).
Proof.
  exact (fun RND rk gc ec dc ev => conj (reject_session_round3 RND rk gc ec)
                                        (reject_session_round4 dc ev)).
Qed.
Print Assumptions C18_reject_other_session.

(* never a crash: on EVERY byte string (and every decompression function) no
   decoder reaches a slice/index out of range — the model's Panic outcome *)
Theorem C18_no_panic : forall decompress c data,
  DecodeRound1 c data <> Panic /\ DecodeRound2 decompress c data <> Panic /\
  DecodeRound3 data <> Panic /\ DecodeGarblerSession c data <> Panic /\
  DecodeEvaluatorSession c data <> Panic.
Proof.
  exact (fun d c data => conj (no_panic_r1 c data) (conj (no_panic_r2 d c data)
          (conj (no_panic_r3 data) (conj (no_panic_gs c data) (no_panic_es c data))))).
Qed.
Print Assumptions C18_no_panic.

(* ---- C18_bits_bytes: bitsToBytesLittle (bytesToBitsLittle bs) = bs for every
   byte string; and for EVERY bit list (any length, the partial-byte case):
   (len+7)/8 bytes that expand to the bits followed by < 8 false bits *)
Theorem C18_bits_bytes : forall bs, Forall (fun b => b < 256) bs ->
  bitsToBytesLittle (bytesToBitsLittle bs) = bs.
Proof. exact bits_bytes_roundtrip. Qed.
Print Assumptions C18_bits_bytes.

Theorem C18_bits_bytes_partial_byte : forall bits,
  exists pad, (pad < 8)%nat /\
    bytesToBitsLittle (bitsToBytesLittle bits) = bits ++ repeat false pad /\
    (length bits + pad = 8 * length (bitsToBytesLittle bits))%nat /\
    length (bitsToBytesLittle bits) = ((length bits + 7) / 8)%nat.
Proof. exact bytes_bits_roundtrip_pad. Qed.
Print Assumptions C18_bits_bytes_partial_byte.

(* ---- C18_resume.  The four rounds as functions (state, incoming message) ->
   (state, outgoing message) with the cryptographic content opaque: for ALL
   opaque functions whose outputs fit the fixed-width fields (hypotheses named
   sender_fits .. encrypt_wf in IO/Sha2pcProof.v, spelled out here), ALL
   randomness, ALL inputs: sending each message in encoded form and restarting
   the garbler from its serialised session g1 times after round 1 and g2 times
   after round 2, the evaluator e2 times after round 2 and e3 times after
   round 3, gives the same outcome (digest or error) as the uninterrupted
   run. *)
Theorem C18_resume :
    chunk_limit_ok ->
forall RND c gen_sender read_sid build_choices read_key garble_circ encrypt_co decrypt_co eval_circ decompress,
  (forall rng, let '(a, (ax, ay), (ix, iy)) := gen_sender rng in Forall (fits (byteLen c)) [a; ax; ay; ix; iy]) ->
  (forall rng, read_sid rng < 2 ^ 64) ->
  (forall rng ax ay bits scalars points,
     build_choices rng ax ay bits = Ok (scalars, points) ->
     length scalars = evaluatorCiphertextCount /\ Forall (fits (byteLen c)) scalars /\
     length points = evaluatorCiphertextCount /\ Forall (point_ok decompress c) points) ->
  (forall rng, length (read_key rng) = garblingKeyBytes) ->
  (forall rng key gin ein outw tables,
     garble_circ rng key = Ok (gin, ein, outw, tables) ->
     length gin = hashInputBitCount /\ Forall (fits2 16) gin /\
     length outw = outputHintCount /\ Forall (fits2 16) outw /\
     length tables = garbledTableLabelCount /\ Forall (fits 16) tables) ->
  (forall st pts ein cts,
     encrypt_co st pts ein = Ok cts -> length cts = evaluatorCiphertextCount /\ Forall (fits2 16) cts) ->
  forall g1 g2 e2 e3 w1 w2 w3 rg1 re2 rg3 a b,
    run_protocol RND c gen_sender read_sid build_choices read_key garble_circ encrypt_co decrypt_co
                 eval_circ decompress g1 g2 e2 e3 w1 w2 w3 rg1 re2 rg3 a b
    = run_protocol RND c gen_sender read_sid build_choices read_key garble_circ encrypt_co decrypt_co
                 eval_circ decompress 0 0 0 0 false false false rg1 re2 rg3 a b.
Proof. exact resume_same. Qed.
Print Assumptions C18_resume.

(* ---- C18_protocol_correct, general form (relative to named hypotheses about
   the opaque cryptographic functions; they are discharged for the C01
   garbling model and the C06 Chou-Orlandi model in C18_protocol_correct_inst
   below).  For all 32-byte a, b, all randomness and ALL restart points the
   evaluator's round-4 output is [sha256xor a b]. *)
Theorem C18_protocol_correct :
    chunk_limit_ok ->
forall RND c gen_sender read_sid build_choices read_key garble_circ encrypt_co decrypt_co eval_circ decompress,
  (forall rng, let '(a, (ax, ay), (ix, iy)) := gen_sender rng in Forall (fits (byteLen c)) [a; ax; ay; ix; iy]) ->
  (forall rng, read_sid rng < 2 ^ 64) ->
  (forall rng ax ay bits scalars points,
     build_choices rng ax ay bits = Ok (scalars, points) ->
     length scalars = evaluatorCiphertextCount /\ Forall (fits (byteLen c)) scalars /\
     length points = evaluatorCiphertextCount /\ Forall (point_ok decompress c) points) ->
  (forall rng, length (read_key rng) = garblingKeyBytes) ->
  (forall rng key gin ein outw tables,
     garble_circ rng key = Ok (gin, ein, outw, tables) ->
     length gin = hashInputBitCount /\ Forall (fits2 16) gin /\
     length outw = outputHintCount /\ Forall (fits2 16) outw /\
     length tables = garbledTableLabelCount /\ Forall (fits 16) tables) ->
  (forall st pts ein cts,
     encrypt_co st pts ein = Ok cts -> length cts = evaluatorCiphertextCount /\ Forall (fits2 16) cts) ->
  forall circ_eval : list bool -> list bool,
  (* garbled_eval_correct *)
  (forall rng key gin ein outw tables xa xb,
     garble_circ rng key = Ok (gin, ein, outw, tables) ->
     length xa = hashInputBitCount -> length xb = hashInputBitCount ->
     exists outl,
       eval_circ key (map (fun p => pick2 (fst p) (snd p)) (combine gin xa))
                     (map (fun p => pick2 (fst p) (snd p)) (combine ein xb)) tables = Ok outl /\
       decode_outputs outw outl = Ok (circ_eval (xa ++ xb))) ->
  (forall rng key, exists gin ein outw tables,
     garble_circ rng key = Ok (gin, ein, outw, tables) /\
     length ein = hashInputBitCount /\ length outw = outputHintCount) ->
  (* co_ot_correct *)
  (forall rng1 rng2 sid sid' bits ein,
     let '(a, (ax, ay), (ix, iy)) := gen_sender rng1 in
     length bits = hashInputBitCount -> length ein = length bits ->
     exists scalars points cts,
       build_choices rng2 ax ay bits = Ok (scalars, points) /\
       length scalars = length bits /\
       encrypt_co (mkGS sid (curve_name c) a ax ay ix iy) points ein = Ok cts /\
       decrypt_co (mkES sid' (curve_name c) ax ay scalars bits) cts
       = Ok (map (fun p => pick2 (fst p) (snd p)) (combine ein bits))) ->
  (forall x, length (circ_eval x) = outputHintCount) ->
  forall sha256xor : list N -> list N -> list N,
  (* circuit_computes_sha256xor *)
  (forall a b, length a = 32%nat -> length b = 32%nat ->
     circ_eval (bytesToBitsLittle a ++ bytesToBitsLittle b) = bytesToBitsLittle (sha256xor a b)) ->
  (forall a b, Forall (fun x => x < 256) (sha256xor a b)) ->
  forall g1 g2 e2 e3 w1 w2 w3 rg1 re2 rg3 a b,
    length a = 32%nat -> length b = 32%nat ->
    run_protocol RND c gen_sender read_sid build_choices read_key garble_circ encrypt_co decrypt_co
                 eval_circ decompress g1 g2 e2 e3 w1 w2 w3 rg1 re2 rg3 a b
    = Ok (sha256xor a b).
Proof. exact protocol_sha256. Qed.
Print Assumptions C18_protocol_correct.

(* ---- C18_protocol_correct_inst.  The cryptographic parts instantiated with
   the models the other properties are about: garbling / evaluation = the C01
   model (Circuit/Garble.v) run on the embedded circuit [circ] (any block
   function per key, any label stream), with the flat Round3 table slab cut
   into per-gate rows by gate kind; OT = the Chou-Orlandi model of C06
   (OT/Co.v) over any group on integer pairs satisfying the five laws that
   OT.CoProof.co_correct needs.  garbled_eval_correct is discharged by
   Circuit.GarbleProof (C01), co_ot_correct by OT.CoProof.co_correct (C06).
   Remaining hypotheses: the embedded circuit is well-formed with 256+256
   inputs and 256 outputs (ParseMPCLC and init() of sha2pc/params.go check
   this at start-up), and circuit_computes_sha256xor — the embedded circuit
   computes SHA-256(a xor b) — which is NOT proved and is checked by the
   harness against crypto/sha256 on every run.  Conclusion: for all 32-byte
   a, b, all curves, all randomness, the uninterrupted four-round run makes
   the evaluator output [sha256xor a b].  (Restart points are covered by
   C18_resume under its representation hypotheses.) *)
Theorem C18_protocol_correct_inst :
  forall circ : circuit,
  wf circ = true ->
  ninputs circ = (hashInputBitCount + hashInputBitCount)%nat ->
  noutputs circ = outputHintCount ->
  forall (RND : Type) (pi_of_key : list N -> N -> N) (rnd_labels : RND -> nat -> N) (scratch : list wire)
         (read_key : RND -> list N) (read_sid : RND -> N)
         (gadd : N * N -> N * N -> N * N) (gneg : N * N -> N * N) (gzero : N * N)
         (smul : N -> N * N -> N * N) (Gen : N * N) (kdf : N * N -> N -> N),
  (forall P Q R, gadd (gadd P Q) R = gadd P (gadd Q R)) ->
  (forall P, gadd P gzero = P) ->
  (forall P, gadd P (gneg P) = gzero) ->
  (forall a P Q, smul a (gadd P Q) = gadd (smul a P) (smul a Q)) ->
  (forall a b P, smul a (smul b P) = smul b (smul a P)) ->
  forall (sender_scalar : RND -> N) (receiver_scalar : RND -> nat -> N) (c : curve)
         (decompress : curve -> N -> bool -> option (N * N)) (sha256xor : list N -> list N -> list N),
  (* circuit_computes_sha256xor *)
  (forall a b, length a = 32%nat -> length b = 32%nat ->
     eval_plain circ (bytesToBitsLittle a ++ bytesToBitsLittle b) = bytesToBitsLittle (sha256xor a b)) ->
  (forall a b, Forall (fun x => x < 256) (sha256xor a b)) ->
  forall (rg1 re2 rg3 : RND) (a b : list N),
  length a = 32%nat -> length b = 32%nat ->
  run_protocol RND c (i_gen_sender RND gneg smul Gen sender_scalar) read_sid
    (i_build_choices RND gadd smul Gen receiver_scalar) read_key
    (i_garble circ RND pi_of_key rnd_labels scratch) (i_encrypt gadd smul kdf)
    (i_decrypt smul kdf) (i_eval circ pi_of_key) decompress 0 0 0 0 false false false rg1 re2 rg3 a b
  = Ok (sha256xor a b).
Proof. exact protocol_sha256_inst. Qed.
Print Assumptions C18_protocol_correct_inst.

(* the hypotheses of C18_resume are satisfiable on every curve *)
Theorem C18_resume_hypotheses_inhabited : forall c,
  (forall rng, let '(a, (ax, ay), (ix, iy)) := nv_gen_sender rng in Forall (fits (byteLen c)) [a; ax; ay; ix; iy]) /\
  (forall rng, nv_read_sid rng < 2 ^ 64) /\
  (forall rng ax ay bits scalars points,
     nv_build_choices rng ax ay bits = Ok (scalars, points) ->
     length scalars = evaluatorCiphertextCount /\ Forall (fits (byteLen c)) scalars /\
     length points = evaluatorCiphertextCount /\ Forall (point_ok dec_any c) points) /\
  (forall rng, length (nv_read_key rng) = garblingKeyBytes) /\
  (forall rng key gin ein outw tables,
     nv_garble rng key = Ok (gin, ein, outw, tables) ->
     length gin = hashInputBitCount /\ Forall (fits2 16) gin /\
     length outw = outputHintCount /\ Forall (fits2 16) outw /\
     length tables = garbledTableLabelCount /\ Forall (fits 16) tables) /\
  (forall st pts ein cts,
     nv_encrypt st pts ein = Ok cts -> length cts = evaluatorCiphertextCount /\ Forall (fits2 16) cts).
Proof. exact resume_hypotheses_inhabited. Qed.
Print Assumptions C18_resume_hypotheses_inhabited.

(* ---- C18_rounds_are_functions.  In the model the result of a round is a
   function of (state, incoming message, randomness) only — true by
   construction in Gallina, stated here for the two situations in which the
   IMPLEMENTATION could differ through aliasing of pooled memory (a
   Round3Payload whose GarbledTables point into scratch that a later Garble
   reuses): for ALL opaque crypto functions, randomness and inputs, two
   sessions whose rounds are interleaved in one process (both Round3 payloads
   computed before either is evaluated) end exactly as the two sessions run
   alone; and a second round 3 with fresh randomness leaves the first payload's
   evaluation unchanged.  That the Go code has this property is what the
   harness checks (oracle keys c18:overlapping-sessions:*, c18:round3-retry:*,
   c18:interleaved-sessions:*: the encoding of a held payload must not change
   after a later GarblerRound3, and every digest must be SHA-256(a xor b)). *)
Theorem C18_rounds_are_functions :
  forall RND c gen_sender read_sid build_choices read_key garble_circ encrypt_co decrypt_co eval_circ decompress,
  (forall rg1A re2A rg3A aA bA rg1B re2B rg3B aB bB,
     run_two_interleaved RND c gen_sender read_sid build_choices read_key garble_circ encrypt_co decrypt_co
                         eval_circ rg1A re2A rg3A aA bA rg1B re2B rg3B aB bB
     = (run_protocol RND c gen_sender read_sid build_choices read_key garble_circ encrypt_co decrypt_co
                     eval_circ decompress 0 0 0 0 false false false rg1A re2A rg3A aA bA,
        run_protocol RND c gen_sender read_sid build_choices read_key garble_circ encrypt_co decrypt_co
                     eval_circ decompress 0 0 0 0 false false false rg1B re2B rg3B aB bB)) /\
  (forall rng rng' st a req es,
     (let p1 := GarblerRound3 RND read_key garble_circ encrypt_co rng st a req in
      let p2 := GarblerRound3 RND read_key garble_circ encrypt_co rng' st a req in
      (bind p1 (EvaluatorRound4 decrypt_co eval_circ es), bind p2 (EvaluatorRound4 decrypt_co eval_circ es)))
     = (bind (GarblerRound3 RND read_key garble_circ encrypt_co rng st a req) (EvaluatorRound4 decrypt_co eval_circ es),
        bind (GarblerRound3 RND read_key garble_circ encrypt_co rng' st a req) (EvaluatorRound4 decrypt_co eval_circ es))).
Proof.
  exact (fun RND c gs rs bc rk gc ec dc ev dz =>
           conj (sessions_independent RND c gs rs bc rk gc ec dc ev dz)
                (round3_retry_keeps_first RND rk gc ec dc ev)).
Qed.
Print Assumptions C18_rounds_are_functions.

(* ---- C18_history_decodes_own_value.  Op histories over a store of returned
   byte strings (a process keeping several sessions alive: HEnc v appends
   Encode v to the store, HDec j decodes slot j): for EVERY history of
   well-formed values, every curve, every decompression function under which
   the Round2 values are well-formed, each HDec j yields exactly the j-th
   encoded value — regardless of what was encoded afterwards.  In the pure
   model this holds by construction (a stored byte string cannot change); it
   is recorded because the implementation can violate it through aliasing (an
   encoder returning a slice of a pooled buffer that the next call
   overwrites).  The harness runs such histories on the Go encoders holding
   the returned slices uncopied: run_c18 kind 7 prints the decoded values per
   HDec, and they must equal the implementation's (correspondence), and each
   held slice must stay equal to a copy taken when it was returned (oracle
   c18:<Encoder>:result-aliases-shared-buffer).  FAILED calls are part of the
   exercised histories too: a round function whose random source fails after k
   bytes (sweep over every stage of GarblerRound3 / GarblerRound1 /
   EvaluatorRound2) is a step that returns Err and, in the model, changes
   nothing; the harness follows every such fault with two overlapping
   sessions, whose held Round3 payload must not change and whose digests must
   be SHA-256(a xor b) (oracle c18:<Round>:entropy-fault@<k>:later-sessions-corrupted):
   state leaked by an error path (a scratch buffer returned to a pool twice)
   shows up there. *)
Theorem C18_history_decodes_own_value :   chunk_limit_ok ->
forall decompress c ops vals,
  Forall (wf_value decompress c) vals -> Forall (hop_wf decompress c) ops ->
  run_history decompress c (map (stored c) vals) ops = history_spec vals ops.
Proof. exact history_decodes_own_value. Qed.
Print Assumptions C18_history_decodes_own_value.

Theorem C18_later_encodes_do_not_matter :   chunk_limit_ok ->
forall decompress c vals more j v,
  Forall (wf_value decompress c) vals -> Forall (wf_value decompress c) more -> nth_error vals j = Some v ->
  run_history decompress c (map (stored c) vals) (map HEnc more ++ [HDec j]) = [Ok v].
Proof. exact later_encodes_do_not_matter. Qed.
Print Assumptions C18_later_encodes_do_not_matter.

(* ---- C18_reject_length_prefix.  For EVERY byte string following the session
   id whose first uvarint decodes to a value n (any n the uvarint can carry, up
   to 2^64-1 — no signed conversion in the comparison) above chunkSizeLimit or
   above the number of bytes that remain: every decoder that has a
   length-prefixed field there answers Err; likewise the nested curve-name
   prefix inside a session chunk.  With C18_no_panic (every byte string: never
   Panic) this is the statement the harness's structured length-prefix
   malformations (0, 1, len±1, limit, limit+1, 2^31-1 .. 2^64-1, non-minimal,
   over-long) exercise: the implementation's class (error / panic) must equal
   the model's, so a signed-conversion slip shows up as error vs panic. *)
Theorem C18_reject_length_prefix : forall decompress c sid8 rest n r1,
  length sid8 = 8%nat -> read_uvarint rest = Ok (n, r1) ->
  chunkSizeLimit < n \/ N.of_nat (length r1) < n ->
  DecodeRound1 c (magicRound1 ++ sid8 ++ rest) = Err /\
  DecodeRound2 decompress c (magicRound2 ++ sid8 ++ rest) = Err /\
  DecodeGarblerSession c (magicGarblerSession ++ sid8 ++ rest) = Err /\
  DecodeEvaluatorSession c (magicEvalSession ++ sid8 ++ rest) = Err.
Proof. exact reject_length_prefix. Qed.
Print Assumptions C18_reject_length_prefix.

Theorem C18_reject_nested_length_prefix : forall c sid chunk n r1,
  read_uvarint chunk = Ok (n, r1) -> chunkSizeLimit < n \/ N.of_nat (length r1) < n ->
  decodeCOSenderSetup c sid chunk = Err /\ decodeChoiceBundle c sid chunk = Err.
Proof. exact reject_nested_length_prefix. Qed.
Print Assumptions C18_reject_nested_length_prefix.

(* ---- C18_canonical_round2.  Round2 is canonical too.  [decompress] (the
   model's stand-in for elliptic.UnmarshalCompressed) is ANY function with the
   one property the proof needs, decompress_sound: an accepted (X, sign)
   yields a point with that X, a Y of that parity — so that compressing the
   answer gives back the encoding — that is on the curve.  For EVERY curve
   and EVERY byte string that DecodeRound2 accepts: the decoded value
   re-encodes to exactly those bytes, is well-formed, and each of its 256
   points satisfies the curve equation (IO/Sha2pcRounds.v on_curve, with the
   field prime and b of crypto/elliptic; run_c18 kind 10 compares them with
   Params() on every run).  The hypothesis is checked against the real
   elliptic.UnmarshalCompressed on every run: see C18_decompress_check_sound. *)
Theorem C18_canonical_round2 : forall decompress c bs m,
  (forall c x odd P, decompress c x odd = Some P ->
     fst P = x /\ N.odd (snd P) = odd /\ on_curve c P = true) ->
  is_bytes bs -> DecodeRound2 decompress c bs = Ok m ->
  EncodeRound2 c m = Ok bs /\ wf_r2 decompress c m /\
  Forall (fun p => on_curve c p = true) (r2_choices m).
Proof. exact r2_canonical. Qed.
Print Assumptions C18_canonical_round2.

(* ---- C18_decompress_check_sound.  [unmarshal_compressed c data answer] is the
   executable specification of elliptic.UnmarshalCompressed that the harness
   evaluates (run_c18 kind 9) on the implementation's answer for canonical and
   non-canonical encodings on every curve (X >= p, X = p + small, prefix bytes
   0x00 / 0x04 / 0x05, flipped parity, X without a root, all-zero, the
   infinity encoding, wrong lengths, and points of real Round2 messages).
   For EVERY curve, prefix byte, byte string and answered Y: if it classifies
   the answer as UCAccept x y then (x, y) is an instance of the conclusion of
   the hypothesis of C18_canonical_round2 — X is the encoded one, the parity
   is the prefix's, the point is on the curve — and compressing it gives back
   exactly the input bytes (reject-or-roundtrip).  Any other answer of the
   implementation shows up as verdict UCBadAnswer / UCMissed, which the
   observed side never prints. *)
Theorem C18_decompress_check_sound : forall c pre xb y x' y', is_bytes xb ->
  unmarshal_compressed c (pre :: xb) (Some y) = UCAccept x' y' ->
  x' = of_be_s xb /\ y' = y /\ N.odd y' = (pre =? 3) /\ on_curve c (x', y') = true /\
  compress c x' (N.odd y') = pre :: xb.
Proof. exact unmarshal_accept_sound. Qed.
Print Assumptions C18_decompress_check_sound.

(* ... and for EVERY byte string that is not 0x02/0x03 followed by byteLen
   bytes of an X below the field prime, the only verdict compatible with the
   specification is rejection, whatever the implementation answers *)
Theorem C18_decompress_rejects_noncanonical : forall c data answer,
  (match data with
   | [] => True
   | pre :: xb => length xb <> byteLen c \/ (pre <> 2 /\ pre <> 3) \/ curve_p c <= of_be_s xb
   end) ->
  unmarshal_compressed c data answer = UCReject.
Proof. exact unmarshal_rejects_noncanonical. Qed.
Print Assumptions C18_decompress_rejects_noncanonical.

(* the hypothesis of C18_canonical_round2 is satisfiable by a function that
   accepts a point on every curve (the base point), and accepted Round2 byte
   strings exist under it on every curve *)
Theorem C18_decompress_sound_inhabited :
  (forall c x odd P, dec_base c x odd = Some P ->
     fst P = x /\ N.odd (snd P) = odd /\ on_curve c P = true) /\
  (forall c, dec_base c (fst (curve_g c)) (N.odd (snd (curve_g c))) = Some (curve_g c)) /\
  (chunk_limit_ok -> forall c, exists bs m, DecodeRound2 dec_base c bs = Ok m).
Proof.
  exact (conj (proj1 decompress_sound_inhabited) (conj (proj2 decompress_sound_inhabited) r2_canonical_inhabited)).
Qed.
Print Assumptions C18_decompress_sound_inhabited.

(* ---- C18_rounds_total.  The four round functions WITH their argument
   validation (IO/Sha2pcRounds.v: nil randomness source, nil curve, nil / zero
   session, session-id and curve-name comparison, and the validation inside
   the ot helpers: ensureOnCurve of A, A^-a and every choice point, point and
   ciphertext counts) return Ok or one of the 18 NAMED errors — never Panic —
   for EVERY argument combination (every nil-ness, every message and session
   value), for ALL cryptographic cores that do not panic themselves. *)
Theorem C18_rounds_total :
  forall RND gen_sender_core read_sid_core choices_core read_key_core garble_core encrypt_core
         decrypt_core eval_core,
  (forall (rng : RND) c, gen_sender_core rng c <> VPanic) ->
  (forall rng, read_sid_core rng <> VPanic) ->
  (forall rng c ax ay bits, choices_core rng c ax ay bits <> VPanic) ->
  (forall rng, read_key_core rng <> VPanic) ->
  (forall rng key, garble_core rng key <> VPanic) ->
  (forall key ins labels tables, eval_core key ins labels tables <> VPanic) ->
  (forall orng oc, GarblerRound1_v RND gen_sender_core read_sid_core orng oc <> VPanic) /\
  (forall orng oc msg b, EvaluatorRound2_v RND choices_core orng oc msg b <> VPanic) /\
  (forall orng oc ost sn a req,
     GarblerRound3_v RND read_key_core garble_core encrypt_core orng oc ost sn a req <> VPanic) /\
  (forall oc ost msg, EvaluatorRound4_v decrypt_core eval_core oc ost msg <> VPanic).
Proof. exact rounds_total. Qed.
Print Assumptions C18_rounds_total.

(* ---- C18_round_steps_total.  The rounds at the byte level (a process that
   holds a stored session and receives a message as BYTES: decode both, run
   the round, encode the results).  Rounds 3 and 4: for EVERY pair of byte
   strings (indeed every pair of lists of numbers) and every nil-ness of
   randomness source and curve: Ok or a named error, never Panic.  Rounds 1
   and 2 encode scalars and coordinates with writeFixedBigInt, which panics
   on a value wider than the field: total for every Round1 byte string when
   the sampled scalars and computed coordinates fit the curve's field width. *)
Theorem C18_round_steps_total :
  forall RND gen_sender_core read_sid_core choices_core read_key_core garble_core encrypt_core
         decrypt_core eval_core decompress,
  (forall (rng : RND) c, gen_sender_core rng c <> VPanic) ->
  (forall rng, read_sid_core rng <> VPanic) ->
  (forall rng c ax ay bits, choices_core rng c ax ay bits <> VPanic) ->
  (forall rng, read_key_core rng <> VPanic) ->
  (forall rng key, garble_core rng key <> VPanic) ->
  (forall key ins labels tables, eval_core key ins labels tables <> VPanic) ->
  ((forall orng oc gsb a msg2,
      garbler_step3 RND read_key_core garble_core encrypt_core decompress orng oc gsb a msg2 <> VPanic) /\
   (forall oc esb msg3, evaluator_step4 decrypt_core eval_core oc esb msg3 <> VPanic)) /\
  ((forall rng c a ax ay ix iy,
      gen_sender_core rng c = VOk (a, (ax, ay), (ix, iy)) -> Forall (fits (byteLen c)) [a; ax; ay; ix; iy]) ->
   (forall rng c ax ay bits scalars points,
      choices_core rng c ax ay bits = VOk (scalars, points) ->
      Forall (fits (byteLen c)) scalars /\ Forall (fits (byteLen c)) (map fst points)) ->
   (forall orng oc, garbler_step1 RND gen_sender_core read_sid_core orng oc <> VPanic) /\
   (forall orng oc msg1 b, is_bytes msg1 -> evaluator_step2 RND choices_core orng oc msg1 b <> VPanic)).
Proof.
  exact (fun RND gs rs cc rk gc ec dc ev dz H1 H2 H3 H4 H5 H6 =>
           conj (steps34_total RND rk gc ec dc ev dz H4 H5 H6)
                (fun F1 F2 => steps12_total RND gs rs cc H1 H2 H3 F1 F2)).
Qed.
Print Assumptions C18_round_steps_total.

(* the hypotheses of the two totality theorems are satisfiable, and the rounds
   reach Ok under such cores *)
Theorem C18_rounds_total_hypotheses_inhabited :
  ((forall rng c, nvv_gen rng c <> VPanic) /\ (forall rng, nvv_sid rng <> VPanic) /\
   (forall rng c ax ay bits, nvv_choices rng c ax ay bits <> VPanic) /\ (forall rng, nvv_key rng <> VPanic) /\
   (forall rng key, nvv_garble rng key <> VPanic) /\ (forall key i l t, nvv_eval key i l t <> VPanic) /\
   (forall rng c a ax ay ix iy,
      nvv_gen rng c = VOk (a, (ax, ay), (ix, iy)) -> Forall (fits (byteLen c)) [a; ax; ay; ix; iy]) /\
   (forall rng c ax ay bits scalars points,
      nvv_choices rng c ax ay bits = VOk (scalars, points) ->
      Forall (fits (byteLen c)) scalars /\ Forall (fits (byteLen c)) (map fst points))) /\
  (forall c,
    (exists r, GarblerRound1_v unit nvv_gen nvv_sid (Some tt) (Some c) = VOk r) /\
    (exists r, EvaluatorRound2_v unit nvv_choices (Some tt) (Some c)
                 (mkR1 7 (curve_name c) (fst (curve_g c)) (snd (curve_g c))) (repeat 0%N 32%nat) = VOk r)) /\
  (forall c,
    (exists r, GarblerRound3_v unit nvv_key nvv_garble (fun _ _ _ _ => []) (Some tt) (Some c)
                 (Some (mkGS 7 (curve_name c) 1 (fst (curve_g c)) (snd (curve_g c)) (fst (curve_g c)) (snd (curve_g c))))
                 false (repeat 0%N 32%nat)
                 (mkR2 7 (curve_name c) (repeat (curve_g c) hashInputBitCount)) = VOk r) /\
    (exists d, EvaluatorRound4_v (fun _ _ _ => []) nvv_eval (Some c)
                 (Some (mkES 7 (curve_name c) (fst (curve_g c)) (snd (curve_g c)) (repeat 1 2%nat) (repeat false 2%nat)))
                 (mkR3 7 [] [] [] (repeat (0, 1) outputHintCount) (repeat (0, 0) 2%nat)) = VOk d)).
Proof. exact (conj rounds_total_hypotheses_inhabited (conj rounds_reach_ok rounds_reach_ok34)). Qed.
Print Assumptions C18_rounds_total_hypotheses_inhabited.

(* ---- C18_rounds_ok_only_if.  Never Ok on the wrong input, for ALL
   cryptographic cores (even ones that panic): a round function returns Ok
   ONLY IF no argument is nil, the session is not the zero session, the
   message carries the session's id (rounds 3, 4) resp. the curve's name
   (round 2), the sender's points A / A^-a and EVERY one of the evaluator's
   choice points satisfy the equation of the curve the round is run with, and
   the counts agree.  (The CurveName fields of a GarblerSession /
   EvaluatorSession / Round2Payload VALUE are not consulted by rounds 3 and 4:
   a value of another curve is refused because its points are not on this
   curve, not by its name; at the byte level the decoders compare the name,
   C18_steps_reject_other_curve.) *)
Theorem C18_rounds_ok_only_if :
  forall RND gen_sender_core read_sid_core choices_core read_key_core garble_core encrypt_core
         decrypt_core eval_core,
  (forall orng oc m1 gs, GarblerRound1_v RND gen_sender_core read_sid_core orng oc = VOk (m1, gs) ->
     exists rng c, orng = Some rng /\ oc = Some c /\
       r1_name m1 = curve_name c /\ gs_name gs = curve_name c /\ r1_sid m1 = gs_sid gs /\
       r1_ax m1 = gs_ax gs /\ r1_ay m1 = gs_ay gs) /\
  (forall orng oc msg b m2 es, EvaluatorRound2_v RND choices_core orng oc msg b = VOk (m2, es) ->
     exists rng c scalars points, orng = Some rng /\ oc = Some c /\
       r1_name msg = curve_name c /\ on_curve c (r1_ax msg, r1_ay msg) = true /\
       choices_core rng c (r1_ax msg) (r1_ay msg) (bytesToBitsLittle b) = VOk (scalars, points) /\
       m2 = mkR2 (r1_sid msg) (curve_name c) points /\
       es = mkES (r1_sid msg) (curve_name c) (r1_ax msg) (r1_ay msg) scalars (bytesToBitsLittle b)) /\
  (forall orng oc ost sn a req m3,
     GarblerRound3_v RND read_key_core garble_core encrypt_core orng oc ost sn a req = VOk m3 ->
     exists rng c st, orng = Some rng /\ oc = Some c /\ ost = Some st /\ sn = false /\
       r2_sid req = gs_sid st /\ r3_sid m3 = gs_sid st /\
       on_curve c (gs_ax st, gs_ay st) = true /\ on_curve c (gs_ainvx st, gs_ainvy st) = true /\
       forallb (on_curve c) (r2_choices req) = true) /\
  (forall oc ost msg d, EvaluatorRound4_v decrypt_core eval_core oc ost msg = VOk d ->
     exists c st, oc = Some c /\ ost = Some st /\ es_scalars st <> [] /\ r3_sid msg = es_sid st /\
       length (es_scalars st) = length (es_bits st) /\ length (r3_cts msg) = length (es_bits st) /\
       on_curve c (es_ax st, es_ay st) = true /\ length (r3_hints msg) = outputHintCount /\
       length d = 32%nat).
Proof.
  exact (fun RND gs rs cc rk gc ec dc ev =>
           conj (round1_ok_inv RND gs rs) (conj (round2_ok_inv RND cc)
             (conj (round3_ok_inv RND rk gc ec) (round4_ok_inv dc ev)))).
Qed.
Print Assumptions C18_rounds_ok_only_if.

(* ---- C18_rounds_named_errors.  Which named error each validation step
   returns, in the order of the code (the first failing check decides), for
   ALL cores, randomness, messages and sessions.  The harness calls the real
   round functions with such arguments on every run and compares the error
   with the model's (run_c18 kind 11). *)
Theorem C18_rounds_named_errors :
  forall RND gen_sender_core read_sid_core choices_core read_key_core garble_core encrypt_core
         decrypt_core eval_core,
  (forall oc, GarblerRound1_v RND gen_sender_core read_sid_core None oc = VErr ENilRandom) /\
  (forall rng, GarblerRound1_v RND gen_sender_core read_sid_core (Some rng) None = VErr ENilCurve) /\
  (forall oc msg b, EvaluatorRound2_v RND choices_core None oc msg b = VErr ENilRandom) /\
  (forall rng msg b, EvaluatorRound2_v RND choices_core (Some rng) None msg b = VErr ENilCurve) /\
  (forall rng c msg b, r1_name msg <> curve_name c ->
     EvaluatorRound2_v RND choices_core (Some rng) (Some c) msg b = VErr ECurveMismatch) /\
  (forall rng c msg b, r1_name msg = curve_name c -> length b = 32%nat ->
     on_curve c (r1_ax msg, r1_ay msg) = false ->
     EvaluatorRound2_v RND choices_core (Some rng) (Some c) msg b = VErr EPointNotOnCurve) /\
  (forall oc ost sn a req,
     GarblerRound3_v RND read_key_core garble_core encrypt_core None oc ost sn a req = VErr ENilRandom) /\
  (forall rng oc sn a req,
     GarblerRound3_v RND read_key_core garble_core encrypt_core (Some rng) oc None sn a req
     = VErr EInvalidGarblerSession) /\
  (forall rng oc st a req,
     GarblerRound3_v RND read_key_core garble_core encrypt_core (Some rng) oc (Some st) true a req
     = VErr EInvalidGarblerSession) /\
  (forall rng st a req,
     GarblerRound3_v RND read_key_core garble_core encrypt_core (Some rng) None (Some st) false a req
     = VErr ENilCurve) /\
  (forall rng c st a req, r2_sid req <> gs_sid st ->
     GarblerRound3_v RND read_key_core garble_core encrypt_core (Some rng) (Some c) (Some st) false a req
     = VErr ESessionMismatch) /\
  (forall oc msg, EvaluatorRound4_v decrypt_core eval_core oc None msg = VErr EInvalidEvaluatorState) /\
  (forall oc st msg, es_scalars st = [] ->
     EvaluatorRound4_v decrypt_core eval_core oc (Some st) msg = VErr EInvalidEvaluatorState) /\
  (forall st msg, es_scalars st <> [] ->
     EvaluatorRound4_v decrypt_core eval_core None (Some st) msg = VErr ENilCurve) /\
  (forall c st msg, es_scalars st <> [] -> r3_sid msg <> es_sid st ->
     EvaluatorRound4_v decrypt_core eval_core (Some c) (Some st) msg = VErr ESessionMismatch) /\
  (forall c st msg, es_scalars st <> [] -> r3_sid msg = es_sid st ->
     (length (es_scalars st) <> length (es_bits st) \/ length (r3_cts msg) <> length (es_bits st)) ->
     EvaluatorRound4_v decrypt_core eval_core (Some c) (Some st) msg = VErr EBundle) /\
  (forall c st msg, es_scalars st <> [] -> r3_sid msg = es_sid st ->
     length (es_scalars st) = length (es_bits st) -> length (r3_cts msg) = length (es_bits st) ->
     on_curve c (es_ax st, es_ay st) = false ->
     EvaluatorRound4_v decrypt_core eval_core (Some c) (Some st) msg = VErr EPointNotOnCurve).
Proof. exact rounds_named_errors. Qed.
Print Assumptions C18_rounds_named_errors.

(* ---- C18_steps_ok_only_if.  Byte level, for EVERY byte string given as stored
   session / incoming message and ALL cores: a step returns Ok ONLY IF the
   session bytes decode as a session of THIS kind and curve, the message bytes
   decode as the message of THIS round and curve, both carry the same session
   id, and all points are on the curve. *)
Theorem C18_steps_ok_only_if :
  forall RND choices_core read_key_core garble_core encrypt_core decrypt_core eval_core decompress,
  (forall orng oc msg1 b out, evaluator_step2 RND choices_core orng oc msg1 b = VOk out ->
     exists rng c m1, orng = Some rng /\ oc = Some c /\ DecodeRound1 c msg1 = Ok m1 /\
       on_curve c (r1_ax m1, r1_ay m1) = true) /\
  (forall orng oc gsb a msg2 out,
     garbler_step3 RND read_key_core garble_core encrypt_core decompress orng oc gsb a msg2 = VOk out ->
     exists rng c gs m2, orng = Some rng /\ oc = Some c /\
       DecodeGarblerSession c gsb = Ok gs /\ DecodeRound2 decompress c msg2 = Ok m2 /\
       r2_sid m2 = gs_sid gs /\
       on_curve c (gs_ax gs, gs_ay gs) = true /\ on_curve c (gs_ainvx gs, gs_ainvy gs) = true /\
       forallb (on_curve c) (r2_choices m2) = true) /\
  (forall oc esb msg3 d, evaluator_step4 decrypt_core eval_core oc esb msg3 = VOk d ->
     exists c es m3, oc = Some c /\ DecodeEvaluatorSession c esb = Ok es /\ DecodeRound3 msg3 = Ok m3 /\
       r3_sid m3 = es_sid es /\ on_curve c (es_ax es, es_ay es) = true /\ length d = 32%nat).
Proof.
  exact (fun RND cc rk gc ec dc ev dz =>
           conj (step2_ok_inv RND cc) (conj (step3_ok_inv RND rk gc ec dz) (step4_ok_inv dc ev))).
Qed.
Print Assumptions C18_steps_ok_only_if.

(* ---- C18_steps_reject_wrong_round / _other_curve / _other_session.  Byte
   level, ALL cores: EVERY byte string that does not start with the magic of
   the expected round / session kind (in particular every encoding of another
   round's message or of the other party's session) is answered with the named
   error EDecode; so is the encoding of EVERY well-formed message or session of
   another curve; a message that decodes but carries another session id is
   answered with ESessionMismatch. *)
Theorem C18_steps_reject_wrong_round :
  forall RND choices_core read_key_core garble_core encrypt_core decrypt_core eval_core decompress c orng,
  (forall msg1 b, firstn 2 msg1 <> magicRound1 ->
     evaluator_step2 RND choices_core orng (Some c) msg1 b = VErr EDecode) /\
  (forall gsb a msg2, firstn 2 gsb <> magicGarblerSession \/ firstn 2 msg2 <> magicRound2 ->
     garbler_step3 RND read_key_core garble_core encrypt_core decompress orng (Some c) gsb a msg2 = VErr EDecode) /\
  (forall esb msg3, firstn 2 esb <> magicEvalSession \/ firstn 2 msg3 <> magicRound3 ->
     evaluator_step4 decrypt_core eval_core (Some c) esb msg3 = VErr EDecode).
Proof. exact steps_reject_wrong_round. Qed.
Print Assumptions C18_steps_reject_wrong_round.

Theorem C18_steps_reject_other_curve :
  forall RND choices_core read_key_core garble_core encrypt_core decrypt_core eval_core decompress,
  chunk_limit_ok -> forall c c' orng, c <> c' ->
  (forall m msg1 b, wf_r1 c m -> EncodeRound1 c m = Ok msg1 ->
     evaluator_step2 RND choices_core orng (Some c') msg1 b = VErr EDecode) /\
  (forall gsb a m msg2, EncodeRound2 c m = Ok msg2 ->
     garbler_step3 RND read_key_core garble_core encrypt_core decompress orng (Some c') gsb a msg2 = VErr EDecode) /\
  (forall s gsb a msg2, wf_gs c s -> EncodeGarblerSession c s = Ok gsb ->
     garbler_step3 RND read_key_core garble_core encrypt_core decompress orng (Some c') gsb a msg2 = VErr EDecode) /\
  (forall s esb msg3, wf_es c s -> EncodeEvaluatorSession c s = Ok esb ->
     evaluator_step4 decrypt_core eval_core (Some c') esb msg3 = VErr EDecode).
Proof. exact steps_reject_other_curve. Qed.
Print Assumptions C18_steps_reject_other_curve.

Theorem C18_steps_reject_other_session :
  forall RND read_key_core garble_core encrypt_core decrypt_core eval_core decompress c (rng : RND),
  (forall gsb a msg2 gs m2, DecodeGarblerSession c gsb = Ok gs -> DecodeRound2 decompress c msg2 = Ok m2 ->
     r2_sid m2 <> gs_sid gs ->
     garbler_step3 RND read_key_core garble_core encrypt_core decompress (Some rng) (Some c) gsb a msg2
     = VErr ESessionMismatch) /\
  (forall esb msg3 es m3, DecodeEvaluatorSession c esb = Ok es -> DecodeRound3 msg3 = Ok m3 ->
     r3_sid m3 <> es_sid es ->
     evaluator_step4 decrypt_core eval_core (Some c) esb msg3 = VErr ESessionMismatch).
Proof. exact steps_reject_other_session. Qed.
Print Assumptions C18_steps_reject_other_session.

(* ---- C18_rounds_refine_codec_model.  The validated rounds ARE the rounds of
   IO/Sha2pcCodec.v — the ones C18_resume, C18_protocol_correct and
   C18_rounds_are_functions speak about — with the opaque functions there
   instantiated by (validation ; core) and the error names forgotten: for
   ALL cores, curves, randomness, messages and sessions (round 1 and the key of
   round 3: when the randomness source does not run dry, which the older
   model assumes throughout). *)
Theorem C18_rounds_refine_codec_model :
  forall RND gen_sender_core read_sid_core choices_core read_key_core garble_core encrypt_core
         decrypt_core eval_core c (rng : RND),
  (forall g s, gen_sender_core rng c = VOk g -> read_sid_core rng = VOk s ->
     GarblerRound1_v RND gen_sender_core read_sid_core (Some rng) (Some c)
     = VOk (GarblerRound1 RND c (old_gen_sender RND gen_sender_core c) (old_read_sid RND read_sid_core) rng)) /\
  (forall msg b,
     erase (EvaluatorRound2_v RND choices_core (Some rng) (Some c) msg b)
     = EvaluatorRound2 RND c (old_build_choices RND choices_core c) rng msg b) /\
  (forall k st a req, read_key_core rng = VOk k ->
     erase (GarblerRound3_v RND read_key_core garble_core encrypt_core (Some rng) (Some c) (Some st) false a req)
     = GarblerRound3 RND (old_read_key RND read_key_core) (old_garble RND garble_core)
                     (old_encrypt encrypt_core c) rng st a req) /\
  (forall st msg,
     erase (EvaluatorRound4_v decrypt_core eval_core (Some c) (Some st) msg)
     = EvaluatorRound4 (old_decrypt decrypt_core c) (old_eval eval_core) st msg).
Proof. exact rounds_refine_codec_model. Qed.
Print Assumptions C18_rounds_refine_codec_model.

(* STATE INVENTORY (finite obligation on the model regenerated from the source, checked by
   computation).  The struct fields and package-level variables of the Go packages this
   property is anchored in — ot, sha2pc — as emitted from /repo's current
   source by harness/gen_state.go (Gen/State.v) are exactly those the models above were written
   against (Base/StateExpected.v).  A new field or variable (a cache, a memo, a pool, a counter,
   a changed field type) is state the models do not have: this obligation then breaks and the
   property is no longer shown to hold until the change has been reviewed against the model. *)
(* (For C18: a decoder that starts goroutines — a `go` statement or a worker
   count taken from runtime.GOMAXPROCS in sha2pc — is a change of this
   inventory: it makes a decoder's result depend on the environment, which the
   pure model cannot express.  This obligation is the STATIC flag for such a
   change; the matching dynamic search is the harness's environment family:
   codec round trip, restart family and malformed tail points of Round2 under
   several GOMAXPROCS values, keys c18:<Decoder>:gomaxprocs=<n>:... and
   c18:resume:gomaxprocs=<n>.  Likewise a package-level variable filled lazily
   by some round (a table under a sync.Once, a cache) is process state the
   model does not have; its dynamic counterpart is the fresh-process restart
   family: child processes that only decode the stored session and pending
   message and continue, keys c18:fresh-process:<role>:error / :differs.) *)
Theorem C18_state_inventory :
  Mpc.Base.StateCheck.state_unchanged Mpc.Gen.State.state_inventory Mpc.Base.StateExpected.expected_state
    Mpc.Base.StatePkgs.pkgs_C18 = true.
Proof. vm_compute. reflexivity. Qed.
Print Assumptions C18_state_inventory.

(* ---- C18_limit_covers_all_encodings (finite obligation on the regenerated
   constant, by computation): on each of P-224/P-256/P-384/P-521 the largest
   chunk the encoders write is within sha2pc.chunkSizeLimit.  Discharges the
   premise [chunk_limit_ok] of the theorems above. *)
Theorem C18_limit_covers_all_encodings : chunk_limit_ok.
Proof. exact (chunk_limit_ok_of_check eq_refl). Qed.
Print Assumptions C18_limit_covers_all_encodings.
