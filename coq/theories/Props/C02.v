(* Props/C02.v — property C02: in the two-party protocol both parties obtain
   f(x, y).  Only statements closed by [exact] + Print Assumptions. *)
From Coq Require Import NArith List Bool.
From Mpc Require Import Base.Label Base.Codec Base.CodecProof Circuit.Circuit Circuit.Garble
     Proto.Session Proto.SessionProof Proto.Conn Proto.ConnProof Proto.SessionConn Proto.SessionOT.
Import ListNotations.

(* For every key-indexed family of block functions, every random stream,
   every key, every scratch content, every well-formed two-party circuit and
   every pair of inputs, with an OT that delivers exactly the chosen label
   (the ideal functionality; discharged per implementation by C06): the
   session model runs to completion, garbler and evaluator return the SAME
   values, equal to the plain evaluation of the circuit on (x, y) split per
   declared output. *)
Theorem C02_session_correct :
  forall (pi_of_key : list N -> N -> N) (rnd : nat -> N) (key : list N) (scratch : list wire)
         (c : circ2) (x y : list bool),
    wf2 c = true -> length x = n0 c -> length y = n1 c ->
    let r := split_bits (outs c) (bits_to_N (eval_plain (cc c) (x ++ y))) in
    exists g2e e2g,
      run_session pi_of_key ideal_ot rnd key scratch c x y = Ok r r g2e e2g /\
      r = map bits_to_N (chunks (outs c) (eval_plain (cc c) (x ++ y))).
Proof. exact session_correct. Qed.
Print Assumptions C02_session_correct.

(* IO.Split cuts the result value into the declared outputs, in order *)
Theorem C02_split_spec :
  forall sizes bs, length bs = fold_right Nat.add 0%nat sizes ->
    split_bits sizes (bits_to_N bs) = map bits_to_N (chunks sizes bs)
    /\ concat (chunks sizes bs) = bs.
Proof. intros sizes bs H. split; [exact (split_bits_spec sizes bs H) | exact (concat_chunks sizes bs H)]. Qed.
Print Assumptions C02_split_spec.

(* the result value survives big.Int.Bytes() / SetBytes() (leading zero bytes dropped) *)
Theorem C02_result_bytes_roundtrip : forall v, of_be (big_bytes v) = v.
Proof. exact big_bytes_roundtrip. Qed.
Print Assumptions C02_result_bytes_roundtrip.

(* the evaluator parses the garbler's first flight (key, per-gate row counts and
   rows, input labels) back exactly, whatever follows on the channel *)
Theorem C02_first_flight_roundtrip :
  forall c key g x rest, length (gTables g) = length (gates (cc c)) ->
    evaluator_first c (garbler_first key g (n0 c) x ++ rest)
    = Some (mkFF key (gTables g) (garbler_inputs g (n0 c) x), rest).
Proof. exact evaluator_first_roundtrip. Qed.
Print Assumptions C02_first_flight_roundtrip.

(* "Arbitrary transport fragmentation": the typed FIFO channel of the session
   model is what p2p.Conn implements (C11).  For all buffer sizes >= 16, every
   list of session messages that fit the wire formats (uint32 counts, 128-bit
   labels, data below 4 GiB), EVERY read segmentation of the transport and
   whether or not EOF arrives together with the last bytes: the messages sent
   through the Conn model and flushed are received as exactly the same typed
   values in order, and the bytes on the wire are [enc_msgs] (the bytes the
   correspondence check compares with the implementation's transcript). *)
Theorem C02_messages_over_conn :
  forall (nbuf wcap rcap : N) (ms : list msg) (frags : list N) (eofdata : bool),
    (16 <= wcap)%N -> (16 <= rcap)%N -> Forall msg_ok ms ->
    let s := run_sender nbuf wcap (session_ops ms) in
    wire_bytes s = enc_msgs ms /\
    snd (recv_all rcap (map ty_of_msg ms) (r_init (mkT (wire_bytes s) frags eofdata 0%N)))
    = Some (map val_of_msg ms).
Proof. exact session_msgs_over_conn. Qed.
Print Assumptions C02_messages_over_conn.

(* The session theorem for ANY oblivious transfer that delivers exactly the
   chosen label at every position (the C06 specification). *)
Theorem C02_session_correct_any_ot :
  forall (pi_of_key : list N -> N -> N) (ot : list wire -> list bool -> option (list N))
         (rnd : nat -> N) (key : list N) (scratch : list wire) (c : circ2) (x y : list bool),
    ot_correct ot ->
    wf2 c = true -> length x = n0 c -> length y = n1 c ->
    let r := Codec.split_bits (outs c) (Codec.bits_to_N (eval_plain (cc c) (x ++ y))) in
    exists g2e e2g, run_session pi_of_key ot rnd key scratch c x y = Ok r r g2e e2g.
Proof. exact session_correct_any_ot. Qed.
Print Assumptions C02_session_correct_any_ot.

(* ... discharged inside Coq for the library's IKNP-based correlated OT, in the
   semi-honest and the malicious mode ([mal]), for every PRG stream family,
   every 128-bit Delta, every MITCCRH cipher family and stream offset: the
   composition of the C06 COT model with the session model gives both parties
   f(x, y). *)
Theorem C02_session_correct_cot :
  forall (pi_of_key : list N -> N -> N) (g0 g1 : nat -> nat -> N) (Delta : N) (E : N -> N -> N)
         (p : nat) (mal : option (N * N))
         (rnd : nat -> N) (key : list N) (scratch : list wire) (c : circ2) (x y : list bool),
    (Delta < 2 ^ 128)%N ->
    wf2 c = true -> length x = n0 c -> length y = n1 c ->
    let r := Codec.split_bits (outs c) (Codec.bits_to_N (eval_plain (cc c) (x ++ y))) in
    exists g2e e2g,
      run_session pi_of_key (cot_ot g0 g1 Delta E p mal) rnd key scratch c x y = Ok r r g2e e2g.
Proof. exact session_correct_cot. Qed.
Print Assumptions C02_session_correct_cot.

(* ... and for Chou-Orlandi over any abelian group with scalar multiplication
   satisfying the stated laws (the EC group is the instance), any mask
   derivation, sender scalar and receiver scalar stream. *)
Theorem C02_session_correct_co :
  forall (pi_of_key : list N -> N -> N)
         (G : Type) (gadd : G -> G -> G) (gneg : G -> G) (gzero : G) (smul : N -> G -> G) (Gen : G)
         (kdf : G -> N -> N) (a : N) (sc : nat -> N)
         (rnd : nat -> N) (key : list N) (scratch : list wire) (c : circ2) (x y : list bool),
    (forall P Q R, gadd (gadd P Q) R = gadd P (gadd Q R)) ->
    (forall P, gadd P gzero = P) ->
    (forall P, gadd P (gneg P) = gzero) ->
    (forall a P Q, smul a (gadd P Q) = gadd (smul a P) (smul a Q)) ->
    (forall a b P, smul a (smul b P) = smul b (smul a P)) ->
    wf2 c = true -> length x = n0 c -> length y = n1 c ->
    let r := Codec.split_bits (outs c) (Codec.bits_to_N (eval_plain (cc c) (x ++ y))) in
    exists g2e e2g,
      run_session pi_of_key (co_ot G gadd gneg smul Gen kdf a sc) rnd key scratch c x y = Ok r r g2e e2g.
Proof. exact session_correct_co. Qed.
Print Assumptions C02_session_correct_co.
