(* Props/C02.v — property C02: in the two-party protocol both parties obtain
   f(x, y).  Only statements closed by [exact] + Print Assumptions. *)
From Coq Require Import NArith List Bool.
From Mpc Require Import Base.Label Base.Codec Base.CodecProof Circuit.Circuit Circuit.Garble
     Proto.Session Proto.SessionProof Proto.Conn Proto.ConnProof Proto.SessionConn Proto.SessionOT.
Import ListNotations.
From Mpc Require Gen.State Base.StateExpected Base.StateCheck Base.StatePkgs.

(* For every key-indexed family of block functions, every random stream,
   every key, every scratch content, every well-formed two-party circuit and
   every pair of inputs, with an OT that delivers exactly the chosen label
   (the ideal functionality; discharged per implementation by C06): the
   session model runs to completion, garbler and evaluator return the SAME
   values, equal to the plain evaluation of the circuit on (x, y) split per
   declared output. *)
Theorem C02_session_correct :
  forall (pi_of_key : list N -> N -> N) (rnd : nat -> N) (key : list N) (scratch : list wire)
         (c : circ2) (x y : list bool),
    wf2 c = true -> length x = n0 c -> length y = n1 c ->
    let r := split_bits (outs c) (bits_to_N (eval_plain (cc c) (x ++ y))) in
    exists g2e e2g,
      run_session pi_of_key ideal_ot rnd key scratch c x y = Ok r r g2e e2g /\
      r = map bits_to_N (chunks (outs c) (eval_plain (cc c) (x ++ y))).
Proof. exact session_correct. Qed.
Print Assumptions C02_session_correct.

(* IO.Split cuts the result value into the declared outputs, in order *)
Theorem C02_split_spec :
  forall sizes bs, length bs = fold_right Nat.add 0%nat sizes ->
    split_bits sizes (bits_to_N bs) = map bits_to_N (chunks sizes bs)
    /\ concat (chunks sizes bs) = bs.
Proof. intros sizes bs H. split; [exact (split_bits_spec sizes bs H) | exact (concat_chunks sizes bs H)]. Qed.
Print Assumptions C02_split_spec.

(* the result value survives big.Int.Bytes() / SetBytes() (leading zero bytes dropped) *)
Theorem C02_result_bytes_roundtrip : forall v, of_be (big_bytes v) = v.
Proof. exact big_bytes_roundtrip. Qed.
Print Assumptions C02_result_bytes_roundtrip.

(* the evaluator parses the garbler's first flight (key, per-gate row counts and
   rows, input labels) back exactly, whatever follows on the channel *)
Theorem C02_first_flight_roundtrip :
  forall c key g x rest, length (gTables g) = length (gates (cc c)) ->
    evaluator_first c (garbler_first key g (n0 c) x ++ rest)
    = Some (mkFF key (gTables g) (garbler_inputs g (n0 c) x), rest).
Proof. exact evaluator_first_roundtrip. Qed.
Print Assumptions C02_first_flight_roundtrip.

(* "Arbitrary transport fragmentation": the typed FIFO channel of the session
   model is what p2p.Conn implements (C11).  For all buffer sizes >= 16, every
   list of session messages that fit the wire formats (uint32 counts, 128-bit
   labels, data below 4 GiB), EVERY read segmentation of the transport and
   whether or not EOF arrives together with the last bytes: the messages sent
   through the Conn model and flushed are received as exactly the same typed
   values in order, and the bytes on the wire are [enc_msgs] (the bytes the
   correspondence check compares with the implementation's transcript). *)
Theorem C02_messages_over_conn :
  forall (nbuf wcap rcap : N) (ms : list msg) (frags : list N) (eofdata : bool),
    (16 <= wcap)%N -> (16 <= rcap)%N -> Forall msg_ok ms ->
    let s := run_sender nbuf wcap (session_ops ms) in
    wire_bytes s = enc_msgs ms /\
    snd (recv_all rcap (map ty_of_msg ms) (r_init (mkT (wire_bytes s) frags eofdata 0%N)))
    = Some (map val_of_msg ms).
Proof. exact session_msgs_over_conn. Qed.
Print Assumptions C02_messages_over_conn.

(* The session theorem for ANY oblivious transfer that delivers exactly the
   chosen label at every position (the C06 specification). *)
Theorem C02_session_correct_any_ot :
  forall (pi_of_key : list N -> N -> N) (ot : list wire -> list bool -> option (list N))
         (rnd : nat -> N) (key : list N) (scratch : list wire) (c : circ2) (x y : list bool),
    ot_correct ot ->
    wf2 c = true -> length x = n0 c -> length y = n1 c ->
    let r := Codec.split_bits (outs c) (Codec.bits_to_N (eval_plain (cc c) (x ++ y))) in
    exists g2e e2g, run_session pi_of_key ot rnd key scratch c x y = Ok r r g2e e2g.
Proof. exact session_correct_any_ot. Qed.
Print Assumptions C02_session_correct_any_ot.

(* ... discharged inside Coq for the library's IKNP-based correlated OT, in the
   semi-honest and the malicious mode ([mal]), for every PRG stream family,
   every 128-bit Delta, every MITCCRH cipher family and stream offset: the
   composition of the C06 COT model with the session model gives both parties
   f(x, y). *)
Theorem C02_session_correct_cot :
  forall (pi_of_key : list N -> N -> N) (g0 g1 : nat -> nat -> N) (Delta : N) (E : N -> N -> N)
         (p : nat) (mal : option (N * N))
         (rnd : nat -> N) (key : list N) (scratch : list wire) (c : circ2) (x y : list bool),
    (Delta < 2 ^ 128)%N ->
    wf2 c = true -> length x = n0 c -> length y = n1 c ->
    let r := Codec.split_bits (outs c) (Codec.bits_to_N (eval_plain (cc c) (x ++ y))) in
    exists g2e e2g,
      run_session pi_of_key (cot_ot g0 g1 Delta E p mal) rnd key scratch c x y = Ok r r g2e e2g.
Proof. exact session_correct_cot. Qed.
Print Assumptions C02_session_correct_cot.

(* ... and for Chou-Orlandi over any abelian group with scalar multiplication
   satisfying the stated laws (the EC group is the instance), any mask
   derivation, sender scalar and receiver scalar stream. *)
Theorem C02_session_correct_co :
  forall (pi_of_key : list N -> N -> N)
         (G : Type) (gadd : G -> G -> G) (gneg : G -> G) (gzero : G) (smul : N -> G -> G) (Gen : G)
         (kdf : G -> N -> N) (a : N) (sc : nat -> N)
         (rnd : nat -> N) (key : list N) (scratch : list wire) (c : circ2) (x y : list bool),
    (forall P Q R, gadd (gadd P Q) R = gadd P (gadd Q R)) ->
    (forall P, gadd P gzero = P) ->
    (forall P, gadd P (gneg P) = gzero) ->
    (forall a P Q, smul a (gadd P Q) = gadd (smul a P) (smul a Q)) ->
    (forall a b P, smul a (smul b P) = smul b (smul a P)) ->
    wf2 c = true -> length x = n0 c -> length y = n1 c ->
    let r := Codec.split_bits (outs c) (Codec.bits_to_N (eval_plain (cc c) (x ++ y))) in
    exists g2e e2g,
      run_session pi_of_key (co_ot G gadd gneg smul Gen kdf a sc) rnd key scratch c x y = Ok r r g2e e2g.
Proof. exact session_correct_co. Qed.
Print Assumptions C02_session_correct_co.

(* ------------------------------------------------------------------ *)
(* TERMINATION ("both terminate without error"; the flush discipline of
   p2p.Conn).  Model: Proto/Live.v — two communication skeletons over two FIFO
   channels with sender-side write buffers; Send buffers, Flush delivers, a
   Send MAY flush on its own (buffer full: a schedule choice), Receive blocks
   until a message is in the channel and fails on a message of another kind.
   The skeletons are REGENERATED from the Go source of circuit.Garbler,
   circuit.Evaluator and the OT implementations on every run (Gen/Skel.v,
   harness/gen_skel.go). *)
From Mpc Require Import Proto.Live Proto.LiveProof Gen.Skel Proto.LiveInst Proto.LiveInstProof.

(* For every pair of skeletons the checker accepts, EVERY environment (loop
   counts and branch outcomes as arbitrary functions of label and enclosing
   iteration indices, the same for both parties), EVERY choice of automatic
   flushes and EVERY fair schedule (one that can be cut into at least
   [round_bound] = |garbler actions| + |evaluator actions| rounds each of which
   schedules both parties): the run ends with both programs finished, every
   receive having met a message of the expected kind, and all write buffers
   and channels empty.  Unbounded: induction over schedules and loop counts. *)
Theorem C02_live_generic :
  forall g e, well_flushed g e = true ->
  forall (en : env) (sched : list choice), fair g e en sched -> run_live g e en sched = Done.
Proof. exact well_flushed_live. Qed.
Print Assumptions C02_live_generic.

(* what Done says about the final configuration *)
Theorem C02_live_done_spec :
  forall g e en sched, run_live g e en sched = Done ->
  let s := run_cfg sched (init_cfg (flat en [] g) (flat en [] e)) in
  bad s = false /\ hp (cG s) = [] /\ hb (cG s) = [] /\ hc (cG s) = [] /\
  hp (cE s) = [] /\ hb (cE s) = [] /\ hc (cE s) = [].
Proof. exact done_spec. Qed.
Print Assumptions C02_live_done_spec.

(* the translator classified every use of the connection in the current source *)
Theorem C02_live_translator_clean : skel_gen_errors = [].
Proof. exact skel_translator_clean. Qed.
Print Assumptions C02_live_translator_clean.

(* the skeletons generated from the CURRENT source are accepted, per OT kind
   (CO; RSA; COT over CO semi-honest; COT over CO malicious) ... *)
Theorem C02_live_co : well_flushed (garbler_skel KCo) (evaluator_skel KCo) = true.
Proof. exact live_co. Qed.
Print Assumptions C02_live_co.
Theorem C02_live_rsa : well_flushed (garbler_skel KRsa) (evaluator_skel KRsa) = true.
Proof. exact live_rsa. Qed.
Print Assumptions C02_live_rsa.
Theorem C02_live_cot : well_flushed (garbler_skel KCot) (evaluator_skel KCot) = true.
Proof. exact live_cot. Qed.
Print Assumptions C02_live_cot.
Theorem C02_live_cot_malicious :
  well_flushed (garbler_skel KCotMalicious) (evaluator_skel KCotMalicious) = true.
Proof. exact live_cot_malicious. Qed.
Print Assumptions C02_live_cot_malicious.

(* ... hence every session terminates: all circuits (all gate counts, rows per
   gate, input and output widths = all environments), all interleavings *)
Theorem C02_session_terminates_co :
  forall (en : env) (sched : list choice),
    fair (garbler_skel KCo) (evaluator_skel KCo) en sched ->
    run_live (garbler_skel KCo) (evaluator_skel KCo) en sched = Done.
Proof. exact session_terminates_co. Qed.
Print Assumptions C02_session_terminates_co.
Theorem C02_session_terminates_rsa :
  forall (en : env) (sched : list choice),
    fair (garbler_skel KRsa) (evaluator_skel KRsa) en sched ->
    run_live (garbler_skel KRsa) (evaluator_skel KRsa) en sched = Done.
Proof. exact session_terminates_rsa. Qed.
Print Assumptions C02_session_terminates_rsa.
Theorem C02_session_terminates_cot :
  forall (en : env) (sched : list choice),
    fair (garbler_skel KCot) (evaluator_skel KCot) en sched ->
    run_live (garbler_skel KCot) (evaluator_skel KCot) en sched = Done.
Proof. exact session_terminates_cot. Qed.
Print Assumptions C02_session_terminates_cot.
Theorem C02_session_terminates_cot_malicious :
  forall (en : env) (sched : list choice),
    fair (garbler_skel KCotMalicious) (evaluator_skel KCotMalicious) en sched ->
    run_live (garbler_skel KCotMalicious) (evaluator_skel KCotMalicious) en sched = Done.
Proof. exact session_terminates_cot_malicious. Qed.
Print Assumptions C02_session_terminates_cot_malicious.

(* The converse for the important failure.  A session in miniature (first
   flight flushed, the evaluator's two SendUint32 + Flush, the reply): with the
   evaluator's Flush it is accepted; with that ONE Flush deleted it is
   rejected, and on the alternating schedule (n complete rounds for every n,
   so fair for every bound; no automatic flush) the run is stuck for ever in
   the same configuration: the garbler blocked in ReceiveUint32, the two
   integers in the evaluator's write buffer, the evaluator blocked in
   ReceiveLabel. *)
Theorem C02_missing_flush_refuted :
  exists (g : prog) (e_ok e_bad : prog) (en : env),
    well_flushed g e_ok = true /\
    well_flushed g e_bad = false /\
    forall n, count_rounds false false (alt n) = n /\
              ((12 <= n)%nat -> run_live g e_bad en (alt n) = Unfinished mini_stuck) /\
              exists s, run_live g e_bad en (alt n) = Unfinished s.
Proof. exact missing_flush_refuted. Qed.
Print Assumptions C02_missing_flush_refuted.

(* STATE INVENTORY (finite obligation on the model regenerated from the source, checked by
   computation).  The struct fields and package-level variables of the Go packages this
   property is anchored in — circuit, ot, p2p — as emitted from /repo's current
   source by harness/gen_state.go (Gen/State.v) are exactly those the models above were written
   against (Base/StateExpected.v).  A new field or variable (a cache, a memo, a pool, a counter,
   a changed field type) is state the models do not have: this obligation then breaks and the
   property is no longer shown to hold until the change has been reviewed against the model. *)
Theorem C02_state_inventory :
  Mpc.Base.StateCheck.state_unchanged Mpc.Gen.State.state_inventory Mpc.Base.StateExpected.expected_state
    Mpc.Base.StatePkgs.pkgs_C02 = true.
Proof. vm_compute. reflexivity. Qed.
Print Assumptions C02_state_inventory.

(* ERROR EXITS (Proto/LiveAbort.v; what the code does is written at the top of
   that file: the protocol functions return the error and leave the connection
   alone, their CALLER calls Conn.Close, which flushes and then closes).
   For EVERY pair of skeletons accepted by the checker, EVERY environment,
   EVERY abort point of the garbler and of the evaluator ([Some r]: the party
   returns an error when r or fewer actions are left — any point of its
   program, in particular each Receive; [Some 0]: normal return followed by
   the caller's Close; [None]: never), EVERY choice of automatic flushes and of
   write errors towards a closed peer and EVERY fair schedule: no receive sees
   a message of the wrong kind and BOTH parties have returned — normally, or
   with an error after which the connection was closed, or with EOF / a write
   error caused by the peer's close.  Nobody is left blocked. *)
From Mpc Require Import Proto.LiveAbort Proto.LiveAbortProof.
Theorem C02_abort_live :
  forall g e, well_flushed g e = true ->
  forall (en : env) (ag ae : option nat) (sched : asched), afair g e en sched ->
    let s := arun_live g e en (mkSpec ag ae true) sched in
    bad (base s) = false /\
    ((stG s = Run /\ hp (cG (base s)) = []) \/ stG s = Closed \/ (stG s = Failed /\ stE s = Closed)) /\
    ((stE s = Run /\ hp (cE (base s)) = []) \/ stE s = Closed \/ (stE s = Failed /\ stG s = Closed)).
Proof. exact abort_live. Qed.
Print Assumptions C02_abort_live.

(* the same for the sessions generated from the current source, every OT kind *)
Theorem C02_abort_live_sessions :
  forall (k : otkind) (en : env) (ag ae : option nat) (sched : asched),
    afair (garbler_skel k) (evaluator_skel k) en sched ->
    let s := arun_live (garbler_skel k) (evaluator_skel k) en (mkSpec ag ae true) sched in
    bad (base s) = false /\
    ((stG s = Run /\ hp (cG (base s)) = []) \/ stG s = Closed \/ (stG s = Failed /\ stE s = Closed)) /\
    ((stE s = Run /\ hp (cE (base s)) = []) \/ stE s = Closed \/ (stE s = Failed /\ stG s = Closed)).
Proof. exact abort_live_sessions. Qed.
Print Assumptions C02_abort_live_sessions.

(* In every state reachable in such a run (AInv holds there: C02_abort_reachable),
   once the peer has closed, each scheduling of a party that has not returned
   makes it advance (the measure = remaining actions of the running parties
   drops): its Send/Flush is executed or fails, its Receive delivers a message
   still in flight or fails with EOF — nothing blocks. *)
Theorem C02_closed_peer_never_blocks :
  forall sp s a w, closes sp = true -> AInv s ->
    (stE s = Closed -> stG s = Run -> hp (cG (base s)) <> [] -> (am (astep sp (CG a) w s) < am s)%nat) /\
    (stG s = Closed -> stE s = Run -> hp (cE (base s)) <> [] -> (am (astep sp (CE a) w s) < am s)%nat).
Proof. exact closed_peer_never_blocks. Qed.
Print Assumptions C02_closed_peer_never_blocks.

Theorem C02_abort_reachable :
  forall g e, well_flushed g e = true ->
  forall en ag ae sched, AInv (arun_live g e en (mkSpec ag ae true) sched).
Proof. exact reachable_ainv. Qed.
Print Assumptions C02_abort_reachable.

(* The variant in which the caller does NOT close after an error return is
   refuted: in the miniature session (accepted by the checker) the evaluator
   returns an error at its first Receive; with the close the garbler fails
   with EOF after 6 rounds of the alternating schedule; without it, for every
   n, n complete rounds leave the garbler blocked in ReceiveUint32 for ever. *)
Theorem C02_abort_no_close_refuted :
  exists (g e : prog) (en : env) (ae : option nat),
    well_flushed g e = true /\
    (forall n, (6 <= n)%nat ->
       let s := arun_live g e en (mkSpec None ae true) (alt' n) in
       stE s = Closed /\ stG s = Failed) /\
    forall n, count_rounds false false (map fst (alt' n)) = n /\
              afin (arun_live g e en (mkSpec None ae false) (alt' n)) = false /\
              ((6 <= n)%nat -> arun_live g e en (mkSpec None ae false) (alt' n) = abort_stuck).
Proof. exact no_close_refuted. Qed.
Print Assumptions C02_abort_no_close_refuted.
