(* Props/C09.v — property C09: compiler options and targets never change a
   program's meaning (pass level; model = Circuit/Passes.v).
   Only statements closed by [exact], each followed by Print Assumptions.

   [sat G x v]: v assigns a bit to every wire, the input wires carry x and
   every live gate's equation holds.  [Inv x v G] = sat + every Zero/One
   annotation of a wire is right for v + cc.ZeroWire()/cc.OneWire() exist. *)
From Coq Require Import List Bool Arith NArith ZArith.
From Mpc Require Import Circuit.Circuit Circuit.Passes Circuit.PassesProof Circuit.PassesBFS
  Circuit.PassesIO Circuit.PassesTV Circuit.PassesInv Circuit.PassesPrune Circuit.PassesPanic
  Circuit.PassesExamples Circuit.PassesLazy Circuit.PassesPanicCP Circuit.PassesLazyExamples.
Import ListNotations.
From Mpc Require Gen.State Base.StateExpected Base.StateCheck Base.StatePkgs.

(* For every freshly built graph (gates in dependency order, single
   assignment, standard constants) and every input x: forward evaluation is a
   satisfying valuation and the constant annotations are right for it. *)
Theorem C09_graph_meaning :
  forall G x, wfg G -> Inv x (geval G x) G.
Proof. exact (fun G x WF => geval_sat G WF x). Qed.
Print Assumptions C09_graph_meaning.

(* ConstPropagate, for every graph without dead gates, every input and every
   satisfying valuation with right annotations: the SAME valuation satisfies
   the rewritten graph (so every wire, in particular every output, keeps its
   bit), the new annotations are right, the set of live gates is unchanged.
   Stale output-gate lists and counters play no role here. *)
Theorem C09_const_propagate :
  forall x v G,
    (forall gid, In gid (gorder G) -> ndead (gn G gid) = false) ->
    Inv x v G ->
    Inv x v (const_propagate G) /\ same_gates G (const_propagate G).
Proof. exact const_propagate_sat. Qed.
Print Assumptions C09_const_propagate.

(* ShortCircuitXORZero, for every graph without dead gates whose wire ids are
   in range and in which every firing goes through an exact producer link
   ([links_exact]: the gate found by Wire.Input() produces the wire — what
   "NumOutputs >= true use count" guarantees): the valuation extends to the
   fresh wires and is unchanged on all existing wires (outputs included). *)
Theorem C09_short_circuit :
  forall x v G,
    (forall gid, In gid (gorder G) -> ndead (gn G gid) = false) ->
    ranged G -> links_exact G (gorder G) -> Inv x v G ->
    exists v', Inv x v' (short_circuit_xor_zero G) /\ forall w, w < gnw G -> v' w = v w.
Proof. exact short_circuit_xor_zero_sat. Qed.
Print Assumptions C09_short_circuit.

(* Gate.ShortCircuit moves every consumer slot of the bypassed wire, for every
   graph satisfying the bookkeeping/structural invariant SI (= every state of
   the ConstPropagate sweep on a freshly built graph): afterwards no gate of
   cc.Gates reads the bypassed wire on either input.  A consumer op(w, w) is
   listed twice in w's output gates and Gate.ReplaceInput is called once per
   entry (A first, then B); C09_const_propagate above covers such consumers
   (its valuation argument is per ReplaceInput call), the example shows both
   inputs moved, and the "visit each gate once" variant is refuted with Prune. *)
Theorem C09_short_circuit_moves_every_slot :
  forall rank G g o,
    SI rank G -> In g (gorder G) -> In o (inputs_of (gn G g)) ->
    wout (gw G (nO (gn G g))) = false ->
    forall c, In c (gorder G) -> lslots (short_circuit G g o) c (nO (gn G g)) = 0.
Proof. exact short_circuit_moves_every_slot. Qed.
Print Assumptions C09_short_circuit_moves_every_slot.

Theorem C09_both_inputs_example :
  (wouts (gw ex2_graph 5) = [4; 4] /\ nA (gn ex2_graph 4) = 5 /\ nB (gn ex2_graph 4) = 5) /\
  (let G1 := const_propagate ex2_graph in
   nA (gn G1 4) = 0 /\ nB (gn G1 4) = 0 /\ wouts (gw G1 5) = [] /\ wnum (gw G1 5) = 0 /\ gerr G1 = 0).
Proof.
  exact (conj (conj (proj1 (proj2 (proj2 (proj2 ex2_shape))))
                    (conj (proj1 (proj2 ex2_shape)) (proj1 (proj2 (proj2 ex2_shape)))))
              ex2_both_inputs_moved).
Qed.
Print Assumptions C09_both_inputs_example.

(* the variant in which ForEachOutput skips a consecutive duplicate entry and
   DisconnectOutputs only zeroes the counter: with Prune some input of the
   example gets a wrong output (or a pass panics) *)
Theorem C09_visit_once_refuted :
  exists x, In x all_inputs2 /\
    (negb (Nat.eqb (gerr (fst (pipeline_once true Yao ex2_graph))) 0) ||
     negb (lb_eqb (eval_plain (snd (pipeline_once true Yao ex2_graph)) x)
                  (graph_eval ex2_graph x))) = true.
Proof. exact ex2_visit_once_refuted. Qed.
Print Assumptions C09_visit_once_refuted.

(* Prune, for every graph, input and valuation: the same valuation satisfies
   the pruned graph. *)
Theorem C09_prune :
  forall x v G, Inv x v G -> Inv x v (prune G).
Proof. exact prune_sat. Qed.
Print Assumptions C09_prune.

(* Renumbering/reordering: for every graph, every wire numbering idf, wire
   count nw and gate order that form a dependency-respecting emission
   ([emission_ok]: emitted gates are live, inputs are written before they are
   read, the numbering is injective on written wires, inputs first, outputs
   last) and every satisfying valuation, the flat circuit evaluates
   (Circuit.Compute) to the valuation's output bits. *)
Theorem C09_compile_order :
  forall G idf nw order x v,
    emission_ok G idf nw order -> sat G x v -> length x = length (gins G) ->
    eval_plain (flat G idf nw order) x = map v (gouts G).
Proof. exact flat_eval_correct. Qed.
Print Assumptions C09_compile_order.

(* The GMW step of Compile: stably sorting a dependency-respecting emission by
   (Level, AND first) gives a dependency-respecting emission again whenever
   levels grow along dependencies. *)
Theorem C09_gmw_sort :
  forall G idf nw order,
    emission_ok G idf nw order -> levels_ok G order ->
    emission_ok G idf nw (ssort (gmw_less G) order).
Proof. exact emission_ok_sorted. Qed.
Print Assumptions C09_gmw_sort.

(* The levels above are unbounded naturals: the sort key must preserve the
   order of the BFS levels however deep the circuit is.  A level kept modulo
   2^16 does not (refuted by the pair 65535 < 65536), which is why the harness
   compiles dependent chains deeper than 65536 levels for the GMW target on
   every run (oracle key c09:gmw-level-sort:depth>=65536). *)
Theorem C09_level_wrap16_refuted :
  exists a b : N, (a < b)%N /\ ~ ((a mod 65536) < (b mod 65536))%N.
Proof. exact level_wrap16_not_monotone. Qed.
Print Assumptions C09_level_wrap16_refuted.

(* Compile's own traversal (input wires, FIFO queue of ready gates, outputs
   last), for every graph satisfying [cwf] (unassigned/unvisited, inputs and
   outputs distinct and flagged correctly, output-gate lists contain every
   consumer, output wires not consumed, one producer per wire, outputs
   computable from the inputs): the assigned order with the assigned ids is a
   dependency-respecting emission, and Gate.Level grows along dependencies. *)
Theorem C09_compile_emission :
  forall G, cwf G ->
    let st := compile_assign G in
    emission_ok (cg st) (id_of (cg st)) (cnext st) (casg st) /\
    levels_ok (cg st) (casg st).
Proof. exact (fun G CW => conj (compile_emission_ok G CW) (compile_levels_ok G CW)). Qed.
Print Assumptions C09_compile_emission.

(* Compile for both targets, every [cwf] graph, every input and every
   satisfying valuation: Circuit.Compute of the compiled circuit yields the
   valuation's output bits. *)
Theorem C09_compile :
  forall t G x v,
    cwf G -> sat G x v -> length x = length (gins G) ->
    eval_plain (compile t G) x = map v (gouts G).
Proof. exact compile_correct_cwf. Qed.
Print Assumptions C09_compile.

(* Compile alone on every freshly built graph (wfg + the bookkeeping wfb that
   the builder API leaves behind), both targets, every input: the compiled
   circuit computes the graph's meaning.  No further hypothesis. *)
Theorem C09_compile_fresh :
  forall t G x, wfg G -> wfb G -> length x = length (gins G) ->
    eval_plain (compile t G) x = graph_eval G x.
Proof. exact compile_fresh_correct. Qed.
Print Assumptions C09_compile_fresh.

(* ConstPropagate keeps every wire id of live gates, inputs and constants in
   range, for every freshly built graph; and no pass touches cc.InputWires /
   cc.OutputWires or shrinks the wire table. *)
Theorem C09_ranges :
  forall G, wfg G -> ranged G ->
    ranged (const_propagate G) /\
    forall p : bool, io_same G (optimize p G).
Proof. exact (fun G WF R => conj (const_propagate_ranged G WF R) (fun p => io_optimize p G)). Qed.
Print Assumptions C09_ranges.

(* The bookkeeping invariant through the rewriting passes, for every freshly
   built graph (wfg + wfb + wfx = gates in dependency order and the builder's
   bookkeeping; the acyclicity witness is derived from the construction
   order): after ConstPropagate and
   ShortCircuitXORZero the output-gate lists still cover every consumer slot
   with multiplicity, NumOutputs >= true use count, stale entries included
   (BK); the graph is acyclic, single-producer, outputs unconsumed and still
   computable from the inputs (ST0); and every firing of ShortCircuitXORZero
   went through an exact producer link. *)
Theorem C09_rewriting_invariant :
  forall G, wfg G -> wfb G -> wfx G ->
    links_exact (const_propagate G) (gorder (const_propagate G)) /\
    (let G2 := short_circuit_xor_zero (const_propagate G) in
     BK G2 /\ exists rank, ST0 rank G2).
Proof. exact (fun G WF FB X => conj (links_exact_derived G WF FB X) (rewriting_invariant G WF FB X)). Qed.
Print Assumptions C09_rewriting_invariant.

(* ShortCircuitXORZero in the pipeline, every freshly built graph, every
   input: the meaning of every existing wire is kept.  No further hypothesis. *)
Theorem C09_short_circuit_pipeline :
  forall G x, wfg G -> wfb G -> wfx G ->
    let G1 := const_propagate G in
    exists v', Inv x v' (short_circuit_xor_zero G1) /\
               forall w, w < gnw G1 -> v' w = geval G x w.
Proof. exact short_circuit_sat_wf. Qed.
Print Assumptions C09_short_circuit_pipeline.

(* The graph handed to Compile satisfies Compile's precondition, with and
   without Prune, for every freshly built graph: Prune removes a gate only
   when NumOutputs of its output wire is 0 >= its true use count and the wire
   is not an output, so no live gate and no circuit output needs it; no pass
   assigns a wire id, sets Visited or changes an output flag. *)
Theorem C09_optimize_cwf :
  forall (do_prune : bool) G, wfg G -> wfb G -> wfx G -> cwf (optimize do_prune G).
Proof. exact optimize_cwf. Qed.
Print Assumptions C09_optimize_cwf.

(* C09 at the pass level: for all prune flags, all targets, every freshly
   built graph (wfg + wfb + wfx) and every input, the circuit produced by the
   pipeline of CompileCircuit (ConstPropagate, ShortCircuitXORZero, optional
   Prune, Compile with the GMW level sort) computes the meaning of the graph
   under Circuit.Compute.  No hypothesis besides the well-formedness of the
   initial graph. *)
Theorem C09_options :
  forall (do_prune : bool) t G x,
    wfg G -> wfb G -> wfx G -> length x = length (gins G) ->
    eval_plain (pipeline do_prune t G) x = graph_eval G x.
Proof. exact pipeline_correct_all. Qed.
Print Assumptions C09_options.

(* The acyclicity witness is not a hypothesis: a graph whose gates were added
   in dependency order has a rank function that decreases along every gate and
   puts both constant wires at the same rank (position of the first producing
   gate, the two constants lowered to the smaller of their positions). *)
Theorem C09_acyclic_from_construction :
  forall G, wfg G ->
    exists rank,
      (forall c, In c (gorder G) -> forall w, In w (inputs_of (gn G c)) -> rank w < rank (nO (gn G c))) /\
      (forall k k', isconst G k -> isconst G k' -> rank k = rank k').
Proof. exact fresh_rank_ok. Qed.
Print Assumptions C09_acyclic_from_construction.

(* No panic (the model's sticky error code) in ShortCircuitXORZero, Prune and
   Compile, for every freshly built graph, every prune flag (Compile's id
   assignment is target independent): the error code after Compile is the one
   ConstPropagate left.  Prune never underflows NumOutputs, Compile's queue
   never outlives its fuel and no output wire is assigned twice.
   (ConstPropagate itself: C09_no_panic_const_propagate below.) *)
Theorem C09_no_panic :
  forall (do_prune : bool) G, wfg G -> wfb G -> wfx G ->
    gerr (cg (compile_assign (optimize do_prune G))) = gerr (const_propagate G).
Proof. exact no_panic_after_cp. Qed.
Print Assumptions C09_no_panic.

(* ConstPropagate reaches none of its panic sites, for every freshly built
   graph whose output-gate lists are exact (wfe: no entry beyond the consumer
   slots — Allocator.BinaryGate/INVGate call AddOutput once per slot):
   - Wire.RemoveOutput's counter underflow ("wire outputs overflow") at its
     three call sites (Gate.ReplaceInput, the A and the B substitution block):
     the counter is >= the number of live consumer slots, and the gate at hand
     holds one;
   - Gate.ReplaceInput's final else ("... is not input for gate ..."): stale
     list entries exist (RemoveOutput never shortens a list) but only on wires
     that carry a value, and Gate.ShortCircuit walks the list of the output of
     the gate being processed, which is unvalued: outputs of gates still to be
     processed are unvalued or a constant wire, and the gates producing the
     constants and INV(in0) read wires that never get a value, so they take no
     branch of the switch;
   - Wire.SetInput ("wire input gate already set"): only reached through
     cc.ZeroWire()/cc.OneWire() creating a constant, which does not happen when
     both exist (wfg).
   With C09_no_panic: no pass of the pipeline panics. *)
Theorem C09_no_panic_const_propagate :
  forall G, wfg G -> wfb G -> wfx G -> wfe G -> gerr (const_propagate G) = gerr G.
Proof. exact const_propagate_no_panic. Qed.
Print Assumptions C09_no_panic_const_propagate.

Theorem C09_no_panic_pipeline :
  forall (do_prune : bool) G, wfg G -> wfb G -> wfx G -> wfe G ->
    gerr (const_propagate G) = gerr G /\
    gerr (cg (compile_assign (optimize do_prune G))) = gerr G.
Proof. exact no_panic_pipeline. Qed.
Print Assumptions C09_no_panic_pipeline.

(* Index expressions that the model makes total by construction.
   cc.InputWires[0] (InvI0Wire/ZeroWire/OneWire; hd 0 in the model) is in range
   on every well-formed graph: cc.InputWires is not empty.  stats[g.Op]++
   (ConstPropagate, ShortCircuitXORZero, Compile): every operation of the
   model's gate type is an index below circuit.Count <= MaxWidth, the bound of
   circuit.Stats = [MaxWidth+1]uint64 (constants regenerated from the source).
   The remaining index/slice expressions of the four passes have no failure
   mode in the model because of their guards in the Go text: cc.pending[0] and
   cc.pending[1:] under len(cc.pending) > 0 (pattern match in [drain]);
   w.gates[0], w.gates[0:1], w.gates[1:] under the len tests of wire.go;
   n[nPos], n[nPos:] and cc.Gates[i] in Prune (nPos is decremented at most
   len(cc.Gates) times; [prune_sweep] is a fold).  They are covered by the
   correspondence check only. *)
Theorem C09_input0_in_range :
  forall G, wfg G -> In (input0 G) (gins G) /\ 0 < length (gins G).
Proof. exact input0_in_range. Qed.
Print Assumptions C09_input0_in_range.

Theorem C09_stats_index_in_range :
  forall o : op, (0 <= Mpc.Circuit.RunC09.Z_of_op o)%Z /\
                 (Mpc.Circuit.RunC09.Z_of_op o < Mpc.Gen.Consts.circuit_Count)%Z /\
                 (Mpc.Gen.Consts.circuit_Count <= Mpc.Gen.Consts.circuit_MaxWidth)%Z /\
                 Mpc.Circuit.RunC09.op_of_Z9 (Mpc.Circuit.RunC09.Z_of_op o) = o.
Proof. exact stats_index_in_range. Qed.
Print Assumptions C09_stats_index_in_range.

(* Graphs on which cc.ZeroWire()/cc.OneWire() were never called (both are
   created lazily by compiler.go; Wire.SetValue is called by them and by
   ConstPropagate only, so no wire carries a value: [unvalued]).  For EVERY
   such graph — no well-formedness needed — ConstPropagate and
   ShortCircuitXORZero are the identity: no switch branch is taken and neither
   substitution block (the only callers of ZeroWire/OneWire inside the passes)
   is entered, so no constant is created lazily and no wire or gate is
   allocated. *)
Theorem C09_unvalued_passes_identity :
  forall G, unvalued G ->
    const_propagate G = G /\ short_circuit_xor_zero G = G /\
    (forall do_prune : bool, optimize do_prune G = (if do_prune then prune G else G)).
Proof.
  exact (fun G U => conj (const_propagate_unvalued G U)
                   (conj (short_circuit_xor_zero_unvalued G U) (fun p => optimize_unvalued p G U))).
Qed.
Print Assumptions C09_unvalued_passes_identity.

(* C09 at the pass level for graphs built WITHOUT the constant wires: for all
   prune flags, both targets, every freshly built graph in dependency order
   (wfg0 = wfg without the clause about the constants, + wfb + wfx) on which no
   wire carries a value, and every input, the circuit produced by the pipeline
   computes the meaning of the graph.  C09_options needs both constants to
   exist; this theorem covers the graphs on which neither was created. *)
Theorem C09_options_no_constants :
  forall (do_prune : bool) t G x,
    wfg0 G -> wfb G -> wfx G -> unvalued G -> length x = length (gins G) ->
    eval_plain (pipeline do_prune t G) x = graph_eval G x.
Proof. exact pipeline_correct_unvalued. Qed.
Print Assumptions C09_options_no_constants.

(* ... the graph handed to Compile satisfies Compile's precondition, and no
   pass panics (ConstPropagate included) *)
Theorem C09_no_constants_cwf_no_panic :
  forall (do_prune : bool) G, wfg0 G -> wfb G -> wfx G -> unvalued G ->
    cwf (optimize do_prune G) /\
    gerr (const_propagate G) = gerr G /\
    gerr (cg (compile_assign (optimize do_prune G))) = gerr G.
Proof.
  exact (fun p G WF FB X U => conj (optimize_cwf_unvalued p G WF FB X U) (no_panic_unvalued p G WF FB X U)).
Qed.
Print Assumptions C09_no_constants_cwf_no_panic.

(* The lazy creation itself (compiler.go InvI0Wire/ZeroWire/OneWire), for
   EVERY graph, whichever of the three wires exist already: its only panic
   site, Wire.SetInput "wire input gate already set", is never reached — the
   output wire of each new gate comes straight from Calloc.Wire().  (This is
   the additional site of the graphs with exactly one constant, on which
   ConstPropagate calls the creation itself.) *)
Theorem C09_constant_creation_no_panic :
  forall G, gerr (fst (inv_i0_wire G)) = gerr G /\
            gerr (fst (zero_wire G)) = gerr G /\ gerr (fst (one_wire G)) = gerr G.
Proof. exact creation_no_panic. Qed.
Print Assumptions C09_constant_creation_no_panic.

(* wfg is wfg0 plus the clause about the constants *)
Theorem C09_wfg_wfg0 : forall G, wfg G -> wfg0 G.
Proof. exact wfg_wfg0. Qed.
Print Assumptions C09_wfg_wfg0.

(* The added hypotheses are inhabited: the example with constants satisfies
   wfe; a constant-free example (fan-out, an unused INV that Prune kills, two
   flagged sink wires as outputs, non-constant outputs) satisfies wfg0, wfb,
   wfx and unvalued. *)
Theorem C09_lazy_hypotheses_inhabited :
  wfe ex_graph /\
  wfg0 ex0_graph /\ wfb ex0_graph /\ wfx ex0_graph /\ unvalued ex0_graph /\
  gzero ex0_graph = None /\ gone ex0_graph = None /\
  (let G3 := optimize true ex0_graph in
   existsb (fun g => ndead (gn G3 g)) (seq 0 (gnn G3)) = true /\
   length (gorder G3) < length (gorder ex0_graph)).
Proof.
  exact (conj ex_wfe (conj ex0_wfg0 (conj ex0_wfb (conj ex0_wfx (conj ex0_unvalued
          (conj (proj1 (proj2 (proj2 (proj2 ex0_shape))))
          (conj (proj1 (proj2 (proj2 (proj2 (proj2 ex0_shape)))))
                (conj (proj1 ex0_dead_gate) (proj1 (proj2 ex0_dead_gate)))))))))).
Qed.
Print Assumptions C09_lazy_hypotheses_inhabited.

(* The hypotheses are inhabited: the example graph (constants, fan-out, an
   XOR with zero, an OR with one, an unused gate) satisfies wfg, wfb and cwf,
   Compile's result on it satisfies emission_ok and levels_ok, pruning leaves
   dead gates behind, and all four configurations compute its meaning on all
   inputs. *)
Theorem C09_hypotheses_inhabited :
  wfg ex_graph /\ wfb ex_graph /\ wfx ex_graph /\ cwf ex_graph /\
  (let st := compile_assign ex_graph in
   emission_ok (cg st) (id_of (cg st)) (cnext st) (casg st) /\ levels_ok (cg st) (casg st)) /\
  (let G3 := optimize true ex_graph in
   existsb (fun g => ndead (gn G3 g)) (seq 0 (gnn G3)) = true /\
   length (gorder G3) < length (gorder ex_graph) /\ gerr G3 = 0).
Proof. exact (conj ex_wfg (conj ex_wfb (conj ex_wfx (conj ex_cwf (conj ex_emission ex_dead_gates))))). Qed.
Print Assumptions C09_hypotheses_inhabited.

(* STATE INVENTORY (finite obligation on the model regenerated from the source, checked by
   computation).  The struct fields and package-level variables of the Go packages this
   property is anchored in — circuit, compiler/circuits, compiler/ssa, compiler/utils — as emitted from /repo's current
   source by harness/gen_state.go (Gen/State.v) are exactly those the models above were written
   against (Base/StateExpected.v).  A new field or variable (a cache, a memo, a pool, a counter,
   a changed field type) is state the models do not have: this obligation then breaks and the
   property is no longer shown to hold until the change has been reviewed against the model. *)
Theorem C09_state_inventory :
  Mpc.Base.StateCheck.state_unchanged Mpc.Gen.State.state_inventory Mpc.Base.StateExpected.expected_state
    Mpc.Base.StatePkgs.pkgs_C09 = true.
Proof. vm_compute. reflexivity. Qed.
Print Assumptions C09_state_inventory.
