(* Props/C09.v — property C09: compiler options and targets never change a
   program's meaning (pass level; model = Circuit/Passes.v).
   Only statements closed by [exact], each followed by Print Assumptions.

   [sat G x v]: v assigns a bit to every wire, the input wires carry x and
   every live gate's equation holds.  [Inv x v G] = sat + every Zero/One
   annotation of a wire is right for v + cc.ZeroWire()/cc.OneWire() exist. *)
From Coq Require Import List Bool Arith.
From Mpc Require Import Circuit.Circuit Circuit.Passes Circuit.PassesProof.
Import ListNotations.

(* For every freshly built graph (gates in dependency order, single
   assignment, standard constants) and every input x: forward evaluation is a
   satisfying valuation and the constant annotations are right for it. *)
Theorem C09_graph_meaning :
  forall G x, wfg G -> Inv x (geval G x) G.
Proof. exact (fun G x WF => geval_sat G WF x). Qed.
Print Assumptions C09_graph_meaning.

(* ConstPropagate, for every graph without dead gates, every input and every
   satisfying valuation with right annotations: the SAME valuation satisfies
   the rewritten graph (so every wire, in particular every output, keeps its
   bit), the new annotations are right, the set of live gates is unchanged.
   Stale output-gate lists and counters play no role here. *)
Theorem C09_const_propagate :
  forall x v G,
    (forall gid, In gid (gorder G) -> ndead (gn G gid) = false) ->
    Inv x v G ->
    Inv x v (const_propagate G) /\ same_gates G (const_propagate G).
Proof. exact const_propagate_sat. Qed.
Print Assumptions C09_const_propagate.

(* ShortCircuitXORZero, for every graph without dead gates whose wire ids are
   in range and in which every firing goes through an exact producer link
   ([links_exact]: the gate found by Wire.Input() produces the wire — what
   "NumOutputs >= true use count" guarantees): the valuation extends to the
   fresh wires and is unchanged on all existing wires (outputs included). *)
Theorem C09_short_circuit :
  forall x v G,
    (forall gid, In gid (gorder G) -> ndead (gn G gid) = false) ->
    ranged G -> links_exact G (gorder G) -> Inv x v G ->
    exists v', Inv x v' (short_circuit_xor_zero G) /\ forall w, w < gnw G -> v' w = v w.
Proof. exact short_circuit_xor_zero_sat. Qed.
Print Assumptions C09_short_circuit.

(* Prune, for every graph, input and valuation: the same valuation satisfies
   the pruned graph. *)
Theorem C09_prune :
  forall x v G, Inv x v G -> Inv x v (prune G).
Proof. exact prune_sat. Qed.
Print Assumptions C09_prune.

(* Renumbering/reordering: for every graph, every wire numbering idf, wire
   count nw and gate order that form a dependency-respecting emission
   ([emission_ok]: emitted gates are live, inputs are written before they are
   read, the numbering is injective on written wires, inputs first, outputs
   last) and every satisfying valuation, the flat circuit evaluates
   (Circuit.Compute) to the valuation's output bits. *)
Theorem C09_compile_order :
  forall G idf nw order x v,
    emission_ok G idf nw order -> sat G x v -> length x = length (gins G) ->
    eval_plain (flat G idf nw order) x = map v (gouts G).
Proof. exact flat_eval_correct. Qed.
Print Assumptions C09_compile_order.

(* The GMW step of Compile: stably sorting a dependency-respecting emission by
   (Level, AND first) gives a dependency-respecting emission again whenever
   levels grow along dependencies. *)
Theorem C09_gmw_sort :
  forall G idf nw order,
    emission_ok G idf nw order -> levels_ok G order ->
    emission_ok G idf nw (ssort (gmw_less G) order).
Proof. exact emission_ok_sorted. Qed.
Print Assumptions C09_gmw_sort.

(* Compile for both targets, given that its BFS order is such an emission. *)
Theorem C09_compile :
  forall t G x v,
    let st := compile_assign G in
    emission_ok (cg st) (id_of (cg st)) (cnext st) (casg st) ->
    (t = GMW -> levels_ok (cg st) (casg st)) ->
    sat G x v -> length x = length (gins G) ->
    eval_plain (compile t G) x = map v (gouts G).
Proof. exact compile_correct. Qed.
Print Assumptions C09_compile.

(* For all prune flags, all targets, every freshly built graph and every
   input: the circuit produced by the pipeline of CompileCircuit computes the
   meaning of the graph — under the explicit structural side conditions listed
   in PassesProof.v (Part 5). *)
Theorem C09_options :
  forall (do_prune : bool) t G x,
    wfg G -> length x = length (gins G) ->
    let G1 := const_propagate G in
    ranged G1 -> links_exact G1 (gorder G1) ->
    (forall o, In o (gouts G) -> o < gnw G1) ->
    let G3 := optimize do_prune G in
    gins G3 = gins G -> gouts G3 = gouts G ->
    let st := compile_assign G3 in
    emission_ok (cg st) (id_of (cg st)) (cnext st) (casg st) ->
    (t = GMW -> levels_ok (cg st) (casg st)) ->
    eval_plain (pipeline do_prune t G) x = graph_eval G x.
Proof. exact pipeline_correct. Qed.
Print Assumptions C09_options.
