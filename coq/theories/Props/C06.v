(* Props/C06.v — property C06: oblivious transfer delivers exactly the chosen
   label.  Only statements closed by [exact], each followed by Print
   Assumptions. *)
From Coq Require Import NArith ZArith List Bool.
From Mpc Require Import Gen.Consts Base.Label OT.Iknp OT.IknpProof OT.Cot OT.CotProof OT.Co OT.CoProof OT.Rsa OT.RsaProof.
Import ListNotations.
From Mpc Require Base.Codec OT.LabelWire OT.LabelWireProof.
From Mpc Require Gen.State Base.StateExpected Base.StateCheck Base.StatePkgs.
Local Open Scope nat_scope.

(* IKNP, label form.  For every pair of column PRG stream families g0 g1
   (arbitrary functions), every 128-bit Delta, every session = list of
   operations on one initialised sender/receiver pair (label batches of any
   length n >= 0 with any choice vector, in semi-honest or malicious mode,
   freely mixed with packed-bit batches), for the code as it is now and for
   the earlier versions (tailfix, clr), and every common start offset p of the
   streams: the session runs to completion with sender and receiver at the
   same stream offset and no unread chunk, and every label batch satisfies
   received_i = sent_i xor choice_i*Delta at every position. *)
Theorem C06_iknp_labels :
  forall (g0 g1 : nat -> nat -> N) (Delta : N) (tailfix clr : bool) (ops : list op) (p : nat),
  (Delta < 2 ^ 128)%N ->
  exists rs p', run_ops g0 g1 Delta tailfix clr (p, p) ops = Some (rs, (p', p')) /\
    Forall2 (fun o r => match o, r with
                        | OpLabels b _, ResLabels _ sent rcvd _ _ =>
                            length sent = length b /\ length rcvd = length b /\
                            forall i, i < length b ->
                              nth i rcvd 0%N = N.lxor (nth i sent 0%N) (if nth i b false then Delta else 0%N)
                        | OpLabels _ _, ResBits _ _ _ => False
                        | OpBits _ _ _ _, _ => True
                        end) ops rs.
Proof. exact iknp_labels. Qed.
Print Assumptions C06_iknp_labels.

(* IKNP, packed-bit form, the code as it is now (run_ops ... true true =
   ReceiveBits with the tail bytes, clear(result) in both functions).  For
   all streams, every 128-bit Delta, every session (any mix of operations),
   every start offset: every bit batch of EVERY count n (n mod 8, n mod 64,
   n mod 512 arbitrary), every packed choice vector C and whatever the two
   result buffers contained before satisfies
   r_i = s_i xor b_i*Delta.Bit(0) at every position i < n. *)
Theorem C06_iknp_bits :
  forall (g0 g1 : nat -> nat -> N) (Delta : N) (ops : list op) (p : nat),
  (Delta < 2 ^ 128)%N ->
  exists rs p', run_ops g0 g1 Delta true true (p, p) ops = Some (rs, (p', p')) /\
    Forall2 (fun o r => match o, r with
                        | OpBits n C _ _, ResBits _ Rs Rr =>
                            forall i, i < n ->
                              N.testbit Rr (N.of_nat i)
                              = xorb (N.testbit Rs (N.of_nat i)) (lbit Delta 0 && N.testbit C (N.of_nat i))
                        | OpBits _ _ _ _, ResLabels _ _ _ _ _ => False
                        | OpLabels _ _, _ => True
                        end) ops rs.
Proof. exact iknp_bits. Qed.
Print Assumptions C06_iknp_bits.

(* Stream offsets stay in lock step: after any list of operations (any
   sizes, forms, modes, code versions) started at a common offset, the run
   does not fail (no missing or left-over chunk) and both offsets are equal. *)
Theorem C06_streams_lockstep :
  forall (g0 g1 : nat -> nat -> N) (Delta : N) (tailfix clr : bool) (ops : list op) (p : nat),
  (Delta < 2 ^ 128)%N ->
  exists rs p', run_ops g0 g1 Delta tailfix clr (p, p) ops = Some (rs, (p', p')).
Proof. exact iknp_lockstep. Qed.
Print Assumptions C06_streams_lockstep.

(* COT (ot/cot.go) over the IKNP model, end to end.  For every PRG stream
   families g0 g1, every 128-bit Delta, every block cipher family E (the
   MITCCRH keys: arbitrary function of tweak and block), every common stream
   offset p, every flag vector (any length, incl. lengths that are not
   multiples of the hash batch size 8), both adversary modes (mal) and every
   wire vector of the same length: IKNP runs in lock step, COT.Send produces
   its 2n masked labels, and COT.Receive returns at every position exactly
   the label its flag selects. *)
Theorem C06_cot_spec :
  forall (g0 g1 : nat -> nat -> N) (Delta : N) (E : N -> N -> N) (tailfix clr : bool) (p : nat)
         (flags : list bool) (mal : option (N * N)) (wires : list wire),
  (Delta < 2 ^ 128)%N -> length wires = length flags ->
  exists us data rcvd cvs cvr p' msgs result,
    run_op g0 g1 Delta tailfix clr (p, p) (OpLabels flags mal) = Some (ResLabels us data rcvd cvs cvr, (p', p')) /\
    cot_send E Delta data wires = Some msgs /\
    cot_receive E rcvd flags msgs = Some result /\
    length result = length flags /\
    forall q, q < length flags -> nth q result 0%N = pick (nth q wires w0) (nth q flags false).
Proof. exact cot_over_iknp. Qed.
Print Assumptions C06_cot_spec.

(* ROT (ot/rot.go): same quantifiers; the wires are the sender's outputs. *)
Theorem C06_rot_spec :
  forall (g0 g1 : nat -> nat -> N) (Delta : N) (E : N -> N -> N) (tailfix clr : bool) (p : nat)
         (flags : list bool) (mal : option (N * N)),
  (Delta < 2 ^ 128)%N ->
  exists us data rcvd cvs cvr p' wires result,
    run_op g0 g1 Delta tailfix clr (p, p) (OpLabels flags mal) = Some (ResLabels us data rcvd cvs cvr, (p', p')) /\
    rot_send E Delta data (length flags) = Some wires /\
    rot_receive E rcvd (length flags) = Some result /\
    length wires = length flags /\ length result = length flags /\
    forall q, q < length flags -> nth q result 0%N = pick (nth q wires w0) (nth q flags false).
Proof. exact rot_over_iknp. Qed.
Print Assumptions C06_rot_spec.

(* Chou-Orlandi (ot/co.go, ot/co_helpers.go).  For every group (G, gadd,
   gneg, gzero) with scalar multiplication smul and base point Gen satisfying
   the stated laws, every mask derivation kdf (point, index), every sender
   scalar a, receiver scalars, choice bits and wires of equal length:
   Decrypt(Encrypt(BuildChoices)) returns exactly the chosen labels. *)
Theorem C06_co_spec :
  forall (G : Type) (gadd : G -> G -> G) (gneg : G -> G) (gzero : G) (smul : N -> G -> G) (Gen : G)
         (kdf : G -> N -> N),
  (forall P Q R, gadd (gadd P Q) R = gadd P (gadd Q R)) ->
  (forall P, gadd P gzero = P) ->
  (forall P, gadd P (gneg P) = gzero) ->
  (forall a P Q, smul a (gadd P Q) = gadd (smul a P) (smul a Q)) ->
  (forall a b P, smul a (smul b P) = smul b (smul a P)) ->
  forall (a : N) (scalars : list N) (bits : list bool) (wires : list wire),
  length scalars = length bits -> length wires = length bits ->
  co_transfer G gadd gneg smul Gen kdf a scalars bits wires
  = Some (map (fun p => pick (fst p) (snd p)) (combine wires bits)).
Proof. exact co_correct. Qed.
Print Assumptions C06_co_spec.

(* Chou-Orlandi single transfer (COSenderXfer / COReceiverXfer) on byte
   strings, same group hypotheses, every mask derivation kdfb (point -> mask
   bytes), all scalars a b, either bit, all messages: the receiver obtains the
   chosen message, cut to the mask length (32 bytes in the Go code). *)
Theorem C06_co_xfer_spec :
  forall (G : Type) (gadd : G -> G -> G) (gneg : G -> G) (gzero : G) (smul : N -> G -> G) (Gen : G),
  (forall P Q R, gadd (gadd P Q) R = gadd P (gadd Q R)) ->
  (forall P, gadd P gzero = P) ->
  (forall P, gadd P (gneg P) = gzero) ->
  (forall a P Q, smul a (gadd P Q) = gadd (smul a P) (smul a Q)) ->
  (forall a b P, smul a (smul b P) = smul b (smul a P)) ->
  forall (kdfb : G -> list N) (a b : N) (bit : bool) (m0 m1 : list N),
  xfer_transfer G gadd gneg smul Gen kdfb a b bit m0 m1
  = firstn (length (kdfb (smul b (smul a Gen)))) (if bit then m1 else m0).
Proof. exact xfer_correct. Qed.
Print Assumptions C06_co_xfer_spec.

(* RSA OT (ot/rsa.go), with the executable modular exponentiation Zpowmod
   (proved equal to (x^y) mod n).  For every key (n, e, d) with n > 0 and
   (m^e)^d mod n = m on [0, n), every message size >= 27 bytes, every pair of
   128-bit labels, all sender randoms x0 x1 (any integers), every receiver
   random k in [0, n) and either choice: the transfer succeeds (padding,
   fixed-width re-padding and parsing included) with exactly the chosen label. *)
Theorem C06_rsa_spec :
  forall (n e d : Z) (msz : nat),
  (0 < n)%Z -> (forall m, (0 <= m < n)%Z -> (((m ^ e) ^ d) mod n = m)%Z) -> 27 <= msz ->
  forall (l0 l1 x0 x1 k : Z) (flag : bool),
  (0 <= l0 < 2 ^ 128)%Z -> (0 <= l1 < 2 ^ 128)%Z -> (0 <= k < n)%Z ->
  exists v m0p m1p,
    rsa_transfer n e d msz (fun x y => Zpowmod x y n) l0 l1 x0 x1 k flag
    = Some (v, m0p, m1p, if flag then l1 else l0).
Proof. exact rsa_correct_exec. Qed.
Print Assumptions C06_rsa_spec.

(* STATE INVENTORY (finite obligation on the model regenerated from the source, checked by
   computation).  The struct fields and package-level variables of the Go packages this
   property is anchored in — ot — as emitted from /repo's current
   source by harness/gen_state.go (Gen/State.v) are exactly those the models above were written
   against (Base/StateExpected.v).  A new field or variable (a cache, a memo, a pool, a counter,
   a changed field type) is state the models do not have: this obligation then breaks and the
   property is no longer shown to hold until the change has been reviewed against the model. *)
Theorem C06_state_inventory :
  Mpc.Base.StateCheck.state_unchanged Mpc.Gen.State.state_inventory Mpc.Base.StateExpected.expected_state
    Mpc.Base.StatePkgs.pkgs_C06 = true.
Proof. vm_compute. reflexivity. Qed.
Print Assumptions C06_state_inventory.

(* ot/label.go, function by function on the two uint64 words (OT/LabelWire.v),
   against the 128-bit number [val l = D0*2^64 + D1] that every other model of
   this development uses for a label.  For ALL labels a b with both words below
   2^64, every uint32 tweak t and either flag s: Xor / And are the bitwise
   operations of the numbers, Mul2 / Mul4 are doubling / quadrupling modulo
   2^128 (the carry from D1 into D0 included), S is bit 127, SetS sets exactly
   that bit and S reads back what SetS wrote, Equal is equality of the numbers
   (and of the records), NewTweak is the tweak in the low word; every result is
   again a pair of 64-bit words. *)
Theorem C06_label_ops :
  forall (a b : Mpc.OT.LabelWire.Label) (t : N) (s : bool),
  Mpc.OT.LabelWire.wf a -> Mpc.OT.LabelWire.wf b ->
  (Mpc.OT.LabelWire.wf (Mpc.OT.LabelWire.Xor a b) /\
   Mpc.OT.LabelWire.val (Mpc.OT.LabelWire.Xor a b) = N.lxor (Mpc.OT.LabelWire.val a) (Mpc.OT.LabelWire.val b)) /\
  (Mpc.OT.LabelWire.wf (Mpc.OT.LabelWire.And a b) /\
   Mpc.OT.LabelWire.val (Mpc.OT.LabelWire.And a b) = N.land (Mpc.OT.LabelWire.val a) (Mpc.OT.LabelWire.val b)) /\
  (Mpc.OT.LabelWire.wf (Mpc.OT.LabelWire.Mul2 a) /\
   Mpc.OT.LabelWire.val (Mpc.OT.LabelWire.Mul2 a) = (Mpc.OT.LabelWire.val a * 2) mod 2 ^ 128)%N /\
  (Mpc.OT.LabelWire.wf (Mpc.OT.LabelWire.Mul4 a) /\
   Mpc.OT.LabelWire.val (Mpc.OT.LabelWire.Mul4 a) = (Mpc.OT.LabelWire.val a * 4) mod 2 ^ 128)%N /\
  Mpc.OT.LabelWire.GetS a = N.testbit (Mpc.OT.LabelWire.val a) 127 /\
  (Mpc.OT.LabelWire.wf (Mpc.OT.LabelWire.SetS a s) /\
   Mpc.OT.LabelWire.GetS (Mpc.OT.LabelWire.SetS a s) = s) /\
  Mpc.OT.LabelWire.val (Mpc.OT.LabelWire.SetS a true) = N.lor (Mpc.OT.LabelWire.val a) (2 ^ 127) /\
  Mpc.OT.LabelWire.Equal a b = (Mpc.OT.LabelWire.val a =? Mpc.OT.LabelWire.val b)%N /\
  (Mpc.OT.LabelWire.Equal a b = true <-> a = b) /\
  (Mpc.OT.LabelWire.wf (Mpc.OT.LabelWire.NewTweak t) /\
   Mpc.OT.LabelWire.val (Mpc.OT.LabelWire.NewTweak t) = t mod 2 ^ 32)%N /\
  (Mpc.OT.LabelWire.val a < 2 ^ 128)%N.
Proof. exact Mpc.OT.LabelWireProof.label_ops_spec. Qed.
Print Assumptions C06_label_ops.

(* Label.Bit (the index convention IKNP uses for Delta.Bit(i)): for every label
   and every index 0..127 it is the bit [Iknp.lbit] reads from the number
   (index i < 64 = bit 64+i, otherwise bit i-64); out of range panics (None). *)
Theorem C06_label_bit :
  forall (l : Mpc.OT.LabelWire.Label) (i : nat), Mpc.OT.LabelWire.wf l -> i < 128 ->
  Mpc.OT.LabelWire.Bit l i = Some (lbit (Mpc.OT.LabelWire.val l) i).
Proof. exact Mpc.OT.LabelWireProof.Bit_lbit. Qed.
Print Assumptions C06_label_bit.

(* LabelData codecs: for every label GetData writes exactly 16 bytes, they are
   the big-endian bytes of the number (D0 first), reading them as one
   big-endian integer gives the number back, and SetData / SetBytes invert
   GetData / Bytes. *)
Theorem C06_label_data :
  forall l : Mpc.OT.LabelWire.Label, Mpc.OT.LabelWire.wf l ->
  length (Mpc.OT.LabelWire.GetData l) = 16 /\
  Mpc.OT.LabelWire.GetData l = Mpc.Base.Codec.be 16 (Mpc.OT.LabelWire.val l) /\
  Mpc.Base.Codec.of_be (Mpc.OT.LabelWire.GetData l) = Mpc.OT.LabelWire.val l /\
  Mpc.OT.LabelWire.SetData (Mpc.OT.LabelWire.GetData l) = l /\
  Mpc.OT.LabelWire.SetBytes (Mpc.OT.LabelWire.Bytes l) = l.
Proof. exact Mpc.OT.LabelWireProof.label_data_spec. Qed.
Print Assumptions C06_label_data.

(* ... and the other way round: every 16-byte array d is reproduced by GetData
   after SetData; NewLabel on every random stream s of at least 16 bytes is the
   label whose data bytes are the first 16 stream bytes in order. *)
Theorem C06_label_data_inv :
  forall d s : list N,
  (length d = 16 -> Forall (fun b => (b < 256)%N) d ->
   Mpc.OT.LabelWire.wf (Mpc.OT.LabelWire.SetData d) /\
   Mpc.OT.LabelWire.GetData (Mpc.OT.LabelWire.SetData d) = d) /\
  (16 <= length s -> Forall (fun b => (b < 256)%N) s ->
   Mpc.OT.LabelWire.wf (Mpc.OT.LabelWire.NewLabel s) /\
   Mpc.OT.LabelWire.GetData (Mpc.OT.LabelWire.NewLabel s) = firstn 16 s).
Proof. exact Mpc.OT.LabelWireProof.label_data_inv. Qed.
Print Assumptions C06_label_data_inv.

(* Wire format of ot/co.go (CO.InitSender, CO.Send, CO.Receive).  For every
   curve name, every sender point A, every list of receiver points (any
   length, coordinates of any size) and every list of ciphertext pairs
   (128-bit): the sender's SendData payloads are name, Ax, Ay and then 2n
   payloads of exactly 16 bytes; the receiver's are the 2n coordinates; and the
   peer's decoders (ReceiveBigInt; copy into LabelData + SetData) return
   exactly the values that were encoded. *)
Theorem C06_co_wire_roundtrip :
  forall (name : list N) (A : N * N) (pts : list (N * N))
         (cts : list (Mpc.OT.LabelWire.Label * Mpc.OT.LabelWire.Label)),
  Forall (fun c => Mpc.OT.LabelWire.wf (fst c) /\ Mpc.OT.LabelWire.wf (snd c)) cts ->
  let s := Mpc.OT.LabelWire.payloads false (Mpc.OT.LabelWire.co_session_msgs name A pts cts) in
  let r := Mpc.OT.LabelWire.payloads true (Mpc.OT.LabelWire.co_session_msgs name A pts cts) in
  hd [] s = name /\
  Mpc.OT.LabelWire.co_decode_A (firstn 2 (skipn 1 s)) = Some A /\
  Mpc.OT.LabelWire.co_decode_points (length pts) r = Some pts /\
  Mpc.OT.LabelWire.co_decode_cts (length cts) (skipn 3 s) = Some cts /\
  length s = 3 + 2 * length cts /\ length r = 2 * length pts /\
  Forall (fun m => length m = 16) (skipn 3 s).
Proof. exact Mpc.OT.LabelWireProof.co_wire_roundtrip. Qed.
Print Assumptions C06_co_wire_roundtrip.

(* Per-index domain separation of ot/co_helpers.go deriveMask: for ALL points
   (x, y), (x', y') and all uint64 indices id <> id' the SHA-256 inputs
   x.Bytes() ‖ y.Bytes() ‖ be64(id) differ (the index is recoverable from the
   last 8 bytes). *)
Theorem C06_co_mask_index_separation :
  forall x y x' y' id id' : N, (id < 2 ^ 64)%N -> (id' < 2 ^ 64)%N -> id <> id' ->
  Mpc.OT.LabelWire.mask_preimage x y id <> Mpc.OT.LabelWire.mask_preimage x' y' id'.
Proof. exact Mpc.OT.LabelWireProof.mask_preimage_separates. Qed.
Print Assumptions C06_co_mask_index_separation.
