(* Props/C04.v — property C04: the evaluator never receives both labels of a
   wire; the global offset R stays secret.  Stated in the idealised symbolic
   execution of GGarble.v: a transmitted value is a GF(2)-combination of
   basis elements (random labels, hash outputs) and R; the hash is a
   memoising random oracle keyed by (kind, label a, label b, tweak).  Only
   statements closed by [exact] + Print Assumptions. *)
From Coq Require Import NArith List Bool.
From Mpc Require Import Base.Label Circuit.Circuit Circuit.Garble Circuit.GGarble Circuit.GGarbleProof
     Circuit.GGarbleHubProof Circuit.RunC04.
Import ListNotations.
From Mpc Require Gen.State Base.StateExpected Base.StateCheck Base.StatePkgs.

(* The generic gate code, instantiated with the concrete fixed-key hashes, IS
   the C01 model's garbler (which reproduces the implementation byte for
   byte): the symbolic run below analyses the same code. *)
Theorem C04_generic_is_concrete :
  forall pi r gs gw id,
    ggates unit sbit (conc_H pi) r gw id tt gs = (garble_gates pi r gw id gs, tt).
Proof. exact ggates_concrete. Qed.
Print Assumptions C04_generic_is_concrete.

(* Whole-circuit mode.  For every assignment of point-and-permute bits to
   the basis elements, every well-formed circuit using fewer than 2^32
   tweaks and every input: the transcript (one label per input wire — the
   garbler's own directly, the evaluator's through the OT, which delivers
   exactly one of the two (C06) — and every garbled row) never contains R,
   and no two transmitted values differ by R. *)
Theorem C04_whole_circuit :
  forall (perm : nat -> bool) (c : circuit) (x : list bool),
    wf c = true -> (tweaks_of (gates c) <= 2 ^ 32)%N ->
    r_safe Rsym (sym_transcript perm c x).
Proof. exact sym_whole_circuit_safe. Qed.
Print Assumptions C04_whole_circuit.

(* Streaming mode with the session-wide tweak counter (the code as it is
   now): any sequence of streamed circuits over the global wire store and
   the shared tmp array, under one R. *)
Theorem C04_stream :
  forall (perm : nat -> bool) (G ni n : nat) (steps : list scirc) (x : list bool),
    (ni <= n)%nat ->
    wf_gates n 0 (init_asg (mkCircuit n ni 0 [])) (concat (map (sflat G) steps)) = true ->
    (tweaks_of (concat (map (sflat G) steps)) <= 2 ^ 32)%N ->
    r_safe Rsym (sym_stream_transcript false perm G ni n steps x).
Proof. exact sym_stream_safe. Qed.
Print Assumptions C04_stream.

(* LONG sessions.  A HUB session: [length bs] streamed single-AND circuits that all have the SAME
   first input wire (global wire 0) and as second input any session input or earlier output
   ([hub_ok]), each writing a fresh global wire — the shape harness/c04long.go drives through the
   implementation with more than 131072 circuits (every first-half-gate hash of the session is
   keyed by the hub's two labels, so safety rests on the uniqueness of the tweaks alone).  For
   EVERY length below 2^31 circuits, every choice of second inputs, permute bits and input bits
   the session is well formed, consumes 2 * length tweaks, and its transcript contains neither R
   nor two values R apart (instance of C04_stream; the hypotheses are discharged, not assumed). *)
Theorem C04_stream_hub_sessions :
  forall (perm : nat -> bool) (ni : nat) (bs : list nat) (x : list bool),
    (1 <= ni)%nat -> hub_ok ni bs -> (2 * N.of_nat (length bs) <= 2 ^ 32)%N ->
    r_safe Rsym (sym_stream_transcript false perm (ni + length bs) ni (ni + length bs + 3)
                   (hub_steps ni bs) x).
Proof. exact stream_hub_safe. Qed.
Print Assumptions C04_stream_hub_sessions.

(* the executed model follows the session-wide counter *)
Theorem C04_stream_mode_now : stream_tweak_reset_now = false.
Proof. exact eq_refl. Qed.
Print Assumptions C04_stream_mode_now.

(* Regression record of the defect repaired in /repo (tweak counter restarted
   per streamed circuit): that variant is NOT safe — a two-step witness
   transmits rows that are R apart, while the session-wide counter is safe
   on the same input. *)
Theorem C04_stream_tweak_reset_refuted :
  exists perm G ni n steps x,
    wf_gates n 0 (init_asg (mkCircuit n ni 0 [])) (concat (map (sflat G) steps)) = true /\
    r_pairs Rsym (sym_stream_transcript true perm G ni n steps x) <> [] /\
    r_pairs Rsym (sym_stream_transcript false perm G ni n steps x) = [].
Proof. exact stream_tweak_reset_refuted. Qed.
Print Assumptions C04_stream_tweak_reset_refuted.

(* SHA256(XOR) round protocol: GarblerRound3 also sends both labels of every
   output wire (OutputHints).  With that addition the transcript is NOT safe
   (witness: a 7-gate circuit whose plain transcript is safe and whose
   transcript with hints contains an R-apart pair).  This is the model-side
   statement of the known finding F2; the harness exhibits it on the real
   Round3 payload. *)
Theorem C04_sha2pc_output_hints_refuted :
  exists perm c x, wf c = true /\
    r_pairs Rsym (sym_transcript perm c x) = [] /\
    r_pairs Rsym (sym_transcript_with_hints perm c x) <> [].
Proof. exact sha2pc_output_hints_refuted. Qed.
Print Assumptions C04_sha2pc_output_hints_refuted.

(* STATE INVENTORY (finite obligation on the model regenerated from the source, checked by
   computation).  The struct fields and package-level variables of the Go packages this
   property is anchored in — circuit, compiler/ssa, sha2pc — as emitted from /repo's current
   source by harness/gen_state.go (Gen/State.v) are exactly those the models above were written
   against (Base/StateExpected.v).  A new field or variable (a cache, a memo, a pool, a counter,
   a changed field type) is state the models do not have: this obligation then breaks and the
   property is no longer shown to hold until the change has been reviewed against the model. *)
Theorem C04_state_inventory :
  Mpc.Base.StateCheck.state_unchanged Mpc.Gen.State.state_inventory Mpc.Base.StateExpected.expected_state
    Mpc.Base.StatePkgs.pkgs_C04 = true.
Proof. vm_compute. reflexivity. Qed.
Print Assumptions C04_state_inventory.
