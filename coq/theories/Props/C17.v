(* Props/C17.v — property C17: a circuit value is safe to share between
   goroutines.  Model: Circuit/Pool.v (any number of goroutines running any
   programs of Garble / FAILING Garble (at any of the four error sites of
   Circuit.Garble: R, cipher, an input-wire label, a gate — the scratch goes
   back to the pool once and no handle is returned) / Release / Eval / Compute
   calls on one circuit; one
   atomic step per Go statement touching shared state; sync.Pool may hand out
   any pooled scratch or a new one and may drop scratches at any time).
   Every theorem quantifies over ALL programs [progs] (histories), ALL
   schedules [sched] (interleavings, resolutions of pool.Get(), pool drops)
   and speaks about the state reached after any prefix. *)
From Coq Require Import Arith List Bool.
From Mpc Require Import Circuit.Pool Circuit.PoolProof.
Import ListNotations.
From Mpc Require Gen.State Base.StateExpected Base.StateCheck Base.StatePkgs.

(* No scratch is owned by two live handles (a handle is live until Release is
   called on it), nor owned by a live handle and pooled at once, nor owned or
   pooled while a goroutine inside Garble is filling it; and no pool holds a
   scratch twice. *)
Theorem C17_exclusive :
  forall (progs : list (list op)) (sched : list sitem),
    let st := run_from (init progs) sched in
    (forall t1 h1 t2 h2, live (s_thr st t1) h1 = true -> live (s_thr st t2) h2 = true ->
       h_scr (t_h (s_thr st t1) h1) = h_scr (t_h (s_thr st t2) h2) -> t1 = t2 /\ h1 = h2) /\
    (forall t h p, live (s_thr st t) h = true -> ~ In (h_scr (t_h (s_thr st t) h)) (s_pool st p)) /\
    (forall t h t' seed p s, live (s_thr st t) h = true -> t_pc (s_thr st t') = GFill seed p s ->
       h_scr (t_h (s_thr st t) h) <> s /\ (forall p', ~ In s (s_pool st p')) /\
       (forall t'' seed' p', t_pc (s_thr st t'') = GFill seed' p' s -> t'' = t')) /\
    (forall p, NoDup (s_pool st p)).
Proof.
  intros progs sched st. split; [|split; [|split]].
  - exact (exclusive_handles progs sched).
  - exact (exclusive_pool progs sched).
  - exact (exclusive_held progs sched).
  - exact (pool_nodup progs sched).
Qed.
Print Assumptions C17_exclusive.

(* The buffers of an unreleased handle hold, at every moment, exactly the
   garbling that Garble wrote for it. *)
(* "Until it is released" includes NEVER released: a handle on which Release is
   not called is live for ever in the model — there is no step that returns its
   scratch to the pool behind the caller's back (no finalizer, no cleanup), so
   its tables stay what Garble wrote whatever later Garble calls do.  Harness
   c17 ties this: a garbling whose handle is dropped without Release (only
   g.Wires / g.Gates are kept), garbage collections and finalizer runs, more
   Garble calls on the same circuit, and only then the evaluation of the
   retained tables (key c17:unreleased-garbling:invalidated-after-gc); the
   source inventory records runtime.SetFinalizer / AddCleanup / weak pointers in
   package circuit (expected: none). *)
Theorem C17_valid_until_release :
  forall (progs : list (list op)) (sched : list sitem) (t h : nat),
    let st := run_from (init progs) sched in
    live (s_thr st t) h = true ->
    s_contents st (h_scr (t_h (s_thr st t) h)) = h_gid (t_h (s_thr st t) h).
Proof. exact valid_until_release. Qed.
Print Assumptions C17_valid_until_release.

(* At most one pool is ever installed (once the atomic pointer is set it never
   changes), and every pool a goroutine is about to Get from, holds a scratch
   of, or that a handle will Put into, is that one: losers of the
   CompareAndSwap use the winner's. *)
Theorem C17_single_pool :
  forall (progs : list (list op)) (sched ext : list sitem),
    let st := run_from (init progs) sched in
    (forall p, s_ptr st = Some p -> s_ptr (run_from st ext) = Some p) /\
    (forall t seed p, t_pc (s_thr st t) = GGet seed p -> s_ptr st = Some p) /\
    (forall t seed p s, t_pc (s_thr st t) = GFill seed p s -> s_ptr st = Some p) /\
    (forall t hi p, h_pool (t_h (s_thr st t) hi) = Some p -> s_ptr st = Some p).
Proof.
  intros progs sched ext st. split.
  - intros p. apply run_ptr_stable.
  - exact (run_poolinv progs sched).
Qed.
Print Assumptions C17_single_pool.

(* Release; Release = Release.  In ANY state (reachable or not): the step
   that completes a Release leaves the handle without pool, and a Release of
   a handle without pool is a single step that changes nothing shared (no
   second Put), no handle, and nothing of any other goroutine. *)
Theorem C17_release_idempotent :
  (forall t ch st st' hi,
     t_pc (s_thr st t) = RClear hi -> step t ch st = Some st' ->
     h_pool (t_h (s_thr st' t) hi) = None /\ t_pc (s_thr st' t) = Idle) /\
  (forall t ch st st' hi rest,
     t_pc (s_thr st t) = Idle -> t_prog (s_thr st t) = ORelease hi :: rest ->
     h_pool (t_h (s_thr st t) hi) = None -> step t ch st = Some st' ->
     shared_eq st st' /\ t_h (s_thr st' t) = t_h (s_thr st t) /\ t_nh (s_thr st' t) = t_nh (s_thr st t) /\
     t_pc (s_thr st' t) = Idle /\ t_prog (s_thr st' t) = rest /\
     t_res (s_thr st' t) = RUnit :: t_res (s_thr st t) /\
     (forall t', t' <> t -> s_thr st' t' = s_thr st t')).
Proof. split; [exact release_clears|exact release_again]. Qed.
Print Assumptions C17_release_idempotent.

(* Linearizability, as one statement.  For every set of programs, every
   schedule (interleaving, resolution of every pool.Get(), pool drops), every
   prefix and every goroutine t: the results t has obtained so far, followed
   by the results the rest of its program yields when run ALONE from t's own
   handles, are exactly the results of t's whole program run alone
   ([solo_run]: Garble returns the garbling of its own seed, Eval of an
   unreleased handle that handle's garbling, Eval of a released handle an
   error, Compute the value of its input) — nothing another goroutine does
   changes any result; and when t's program is finished its result list IS
   that of the program run alone. *)
Theorem C17_linearizable :
  forall (progs : list (list op)) (sched : list sitem) (t : nat),
    let th := s_thr (run_from (init progs) sched) t in
    rev (t_res th) ++ solo (t_prog th) (t_nh th) (abs th) = solo_run (nth t progs []) /\
    (t_prog th = [] -> rev (t_res th) = solo_run (nth t progs [])).
Proof. exact linearizable. Qed.
Print Assumptions C17_linearizable.

(* the step-level fact behind it: an Eval that has made its first read of the
   tables finishes with the garbling of the handle it was called on *)
Theorem C17_linearizable_eval :
  forall (progs : list (list op)) (sched : list sitem) (t ch hi v1 : nat) (st' : state),
    let st := run_from (init progs) sched in
    t_pc (s_thr st t) = EEnd hi v1 -> step t ch st = Some st' ->
    t_res (s_thr st' t) = REval (h_gid (t_h (s_thr st t) hi)) :: t_res (s_thr st t).
Proof. exact eval_result. Qed.
Print Assumptions C17_linearizable_eval.

(* Frame.  Whatever the other goroutines do (other programs, other schedules,
   other pool behaviour): a goroutine that runs the same program to the end
   obtains the same results.  In the model Garble / Eval / Compute read the
   circuit and Eval reads the tables of its own handle; the only mutable state
   inside the Circuit is the scratch-pool pointer.  That the Go code has no
   further mutable state in circuit.Circuit (no assignment to, address-taking
   of, or method call on a receiver field in Garble, Eval, Compute or a *Circuit
   method they call, beyond garblePool.Load/CompareAndSwap and the read-only
   uses listed in harness c17) is checked on the source by the harness
   (key c17:circuit-shared-state:unmodelled:...), and concurrent sessions with
   different keys on one circuit are compared with the sessions run alone. *)
Theorem C17_frame :
  forall (progs progs' : list (list op)) (sched sched' : list sitem) (t : nat),
    nth t progs [] = nth t progs' [] ->
    let th := s_thr (run_from (init progs) sched) t in
    let th' := s_thr (run_from (init progs') sched') t in
    t_prog th = [] -> t_prog th' = [] -> t_res th = t_res th'.
Proof. exact frame. Qed.
Print Assumptions C17_frame.

(* Initialise, then publish.  In the model the pool object gets its New
   function when it is built, BEFORE the CompareAndSwap that publishes it (as
   garbleScratchPool does); then, for all programs, schedules and prefixes:
   whatever is installed, is the CAS argument of a goroutine, or is about to be
   used for Get has its New function, and no Garble ever panics on a nil
   pool.Get() — C17_linearizable above depends on this invariant. *)
Theorem C17_pool_initialised_before_published :
  forall (progs : list (list op)) (sched : list sitem),
    let st := run_from (init progs) sched in
    (forall p, s_ptr st = Some p -> s_newset st p = true) /\
    (forall t seed p, t_pc (s_thr st t) = GCas seed p \/ t_pc (s_thr st t) = GGet seed p -> s_newset st p = true) /\
    (forall t, ~ In RPanic (t_res (s_thr st t))).
Proof.
  intros progs sched st. destruct (run_initinv progs sched) as (_ & A & B & _).
  split; [exact A|]. split; [exact B|]. intros t. apply no_panic.
Qed.
Print Assumptions C17_pool_initialised_before_published.

(* REGRESSION RECORD.  In the variant that publishes an EMPTY pool first and
   assigns New afterwards, two goroutines on first use suffice: the one that
   finds the pointer already set calls Get before New exists and panics. *)
Theorem C17_publish_then_initialise_refuted :
  let st := run_from (init_cfg false true late_progs) late_sched in
  t_res (s_thr st 1) = [RPanic] /\ t_pc (s_thr st 0) = GInit 1 0 /\ s_ptr st = Some 0 /\ s_newset st 0 = false.
Proof. exact late_init_refuted. Qed.
Print Assumptions C17_publish_then_initialise_refuted.

(* REGRESSION RECORD.  In the variant of the model in which the error returns
   inside Garble's two loops put the scratch back TWICE (explicit Put plus a
   deferred cleanup), one failed Garble followed by two overlapping garblings
   refutes C17_exclusive and C17_valid_until_release: two live handles share a
   scratch, the first handle's buffers hold the second garbling, and the pool
   held the scratch twice.  (harness c17 exercises these histories on the
   implementation.) *)
Theorem C17_double_put_refuted :
  let st := run_from (init_cfg true false dput_progs) dput_sched in
  live (s_thr st 0) 0 = true /\ live (s_thr st 1) 0 = true /\
  h_scr (t_h (s_thr st 0) 0) = h_scr (t_h (s_thr st 1) 0) /\
  s_contents st (h_scr (t_h (s_thr st 0) 0)) <> h_gid (t_h (s_thr st 0) 0) /\
  exclusive 2 st = false /\
  s_pool (run_from (init_cfg true false dput_progs) (firstn 4 dput_sched)) 0 = [0; 0].
Proof. exact double_put_refuted. Qed.
Print Assumptions C17_double_put_refuted.

(* STATE INVENTORY (finite obligation on the model regenerated from the source, checked by
   computation).  The struct fields and package-level variables of the Go packages this
   property is anchored in — circuit — as emitted from /repo's current
   source by harness/gen_state.go (Gen/State.v) are exactly those the models above were written
   against (Base/StateExpected.v).  A new field or variable (a cache, a memo, a pool, a counter,
   a changed field type) is state the models do not have: this obligation then breaks and the
   property is no longer shown to hold until the change has been reviewed against the model. *)
Theorem C17_state_inventory :
  Mpc.Base.StateCheck.state_unchanged Mpc.Gen.State.state_inventory Mpc.Base.StateExpected.expected_state
    Mpc.Base.StatePkgs.pkgs_C17 = true.
Proof. vm_compute. reflexivity. Qed.
Print Assumptions C17_state_inventory.

(* ---- sizing of the pooled scratch (Circuit/Scratch.v: garbleScratchPool's slabSize loop and New,
   the slab carving of Circuit.Garble) ---- *)
From Coq Require Import NArith.
From Mpc Require Import Base.Label Circuit.Circuit Circuit.Garble Circuit.Scratch Circuit.ScratchProof.

(* For EVERY circuit (well-formed or not), every block function (key), every random source and
   every content of the recycled wire buffer: the number of rows Gate.garbleInto returns for gate i
   is the number the slabSize loop counted for its kind (AND 2, OR 3, INV 1, XOR/XNOR 0). *)
Theorem C17_scratch_rows_by_circuit : forall pi rnd scr c,
  map (@length label) (gTables (garble pi rnd scr c)) = map (fun g => op_rows (gop g)) (gates c).
Proof. exact garble_rows_by_circuit. Qed.
Print Assumptions C17_scratch_rows_by_circuit.

(* Any two garblings of one circuit — different keys, random sources, scratch contents — need the
   same row counts gate by gate, and their total is the slab length the pool's New allocates: the
   sizes are a function of the circuit alone, which is why ONE pool per circuit value is sound. *)
Theorem C17_scratch_same_sizes : forall pi pi' rnd rnd' scr scr' c ng,
  map (@length label) (gTables (garble pi rnd scr c))
  = map (@length label) (gTables (garble pi' rnd' scr' c)) /\
  list_sum (map (@length label) (gTables (garble pi rnd scr c))) = sh_slab (scratch_shape c ng).
Proof. intros; split; [apply garble_rows_same | apply garble_rows_total]. Qed.
Print Assumptions C17_scratch_same_sizes.

(* For every circuit with Inputs.Size() <= NumWires and NumGates = len(Gates), every key, random
   source and every scratch that has the circuit's shape (whatever it contains): Circuit.Garble's
   slice expressions slab[slabOff:slabOff+count] and header writes gates[i] all stay in range (the
   model's explicit panic value is not reached), the slab is used up EXACTLY (final slabOff =
   slabSize), the garbling is the one of the C01 model, and the scratch has the same shape
   afterwards. *)
Theorem C17_scratch_in_bounds : forall pi rnd sc c,
  ninputs c <= nwires c ->
  has_shape sc (scratch_shape c (length (gates c))) ->
  exists g sc', garble_into pi rnd sc c = GOk g sc' (slab_size (gates c))
                /\ g = garble pi rnd (sc_wires sc) c
                /\ has_shape sc' (scratch_shape c (length (gates c))).
Proof. exact garble_into_ok. Qed.
Print Assumptions C17_scratch_in_bounds.

(* Every sequence of garblings (any number, each with its own key and random source) into one
   recycled scratch of the circuit's shape runs without a panic and leaves a scratch of that shape. *)
Theorem C17_scratch_reuse_any_history : forall calls sc c,
  ninputs c <= nwires c ->
  has_shape sc (scratch_shape c (length (gates c))) ->
  exists sc', garble_seq calls sc c = Some sc'
              /\ has_shape sc' (scratch_shape c (length (gates c))).
Proof. exact garble_seq_ok. Qed.
Print Assumptions C17_scratch_reuse_any_history.

(* For every well-formed circuit, every index of the wire buffer that Circuit.Garble / garbleInto
   reads or writes (input wires, Input0, Input1 except for INV, Output) is below the length New
   gave the buffer. *)
Theorem C17_scratch_wire_indices_in_range : forall c ng,
  wf c = true -> Forall (fun i => i < sh_wires (scratch_shape c ng)) (garble_indices c).
Proof. exact garble_indices_in_range. Qed.
Print Assumptions C17_scratch_wire_indices_in_range.

(* The slab size is tight: for every circuit, key and random source, a scratch whose slab is
   shorter than slabSize makes Garble panic at a slab slice expression. *)
Theorem C17_scratch_small_slab_panics : forall pi rnd sc c,
  length (sc_slab sc) < slab_size (gates c) ->
  length (sc_gates sc) = length (gates c) ->
  exists gi, garble_into pi rnd sc c = GPanic gi 1.
Proof. exact garble_into_small_slab_panics. Qed.
Print Assumptions C17_scratch_small_slab_panics.

(* Regression record (seeded defect 9): a pool keyed by (NumWires, NumGates) is unsound — two
   well-formed circuits with equal counts and different shapes; garbling the heavier one into the
   lighter one's scratch panics for every key and random source. *)
Theorem C17_pool_by_counts_refuted :
  nwires mix_light = nwires mix_heavy /\ length (gates mix_light) = length (gates mix_heavy) /\
  wf mix_light = true /\ wf mix_heavy = true /\
  scratch_shape mix_light 1 <> scratch_shape mix_heavy 1 /\
  forall pi rnd, exists gi,
    garble_into pi rnd (new_scratch (scratch_shape mix_light 1)) mix_heavy = GPanic gi 1.
Proof. exact pool_by_counts_refuted. Qed.
Print Assumptions C17_pool_by_counts_refuted.
