(* Props/C15.v — property C15: malicious-mode OT extension detects a deviating
   receiver.  Only statements closed by [exact], each followed by Print
   Assumptions.

   Setting common to the protocol theorems: arbitrary PRG byte streams g0 g1
   (column -> byte index -> byte), an arbitrary chi function of the seed
   chi_of, arbitrary choices bl (hence every batch size, chunk count and
   n mod 8), arbitrary receiver randomness b0 b1 seed, arbitrary stream
   position pos, every 128-bit Delta.  [receiver_run] is IKNPReceiver.Receive
   (b, result, true): it yields the message sequence tr, the receiver's labels
   res and the new stream position; [sender_run] is IKNPSender.Send(n, true) on
   a (possibly rewritten) message sequence with the sender's streams
   (column j: g1 j if Delta_j else g0 j).

   Scope.  The theorems are about the IKNP/KOS core (IKNPReceiver.Receive /
   IKNPSender.Send with malicious = true).  The exported wrappers that offer
   malicious mode - ot.COT and ot.ROT (NewCOT / NewROT with malicious = true;
   vole and gmw call IKNP only with malicious = false or through the bit form,
   which has no check) - are thin: X.Send = IKNPSender.Send(n, true) followed by
   the hashed pads.  They are not modelled; harness/c15wrap.go ties their ERROR
   PROPAGATION to the core on every run: each deviation of the catalogue that
   the direct IKNPSender.Send rejects must make COT.Send / ROT.Send return a
   non-nil error with nothing sent and no wire set, each accepted one must not
   fail, honest wrapper runs must transfer the chosen labels; plus a static
   inventory of deferred closures in ot/*.go that overwrite a named result.
   Build environments: mul128 is the amd64 assembly or mul128Generic (no other
   implementation, no purego tag); C15_clmul_generic is about the model with
   unbounded naturals, the harness ties BOTH dispatches - amd64 and a
   GOARCH=386 child (32-bit uint) built and run on every check - to clmul. *)
From Coq Require Import ZArith NArith List Bool.
From Mpc Require Import OT.Gf128 OT.Gf128Proof OT.Kos OT.KosProof OT.ChiStream OT.ChiStreamProof OT.RunC15 Gen.Consts.
Import ListNotations.
From Mpc Require Gen.State Base.StateExpected Base.StateCheck Base.StatePkgs.
Local Open Scope nat_scope.

(* For all 128-bit operands: the Go limb decomposition mul128Generic (four
   64x64 shift-and-xor products recombined) computes the (lo, hi) halves of the
   polynomial product over GF(2). *)
Theorem C15_clmul_generic :
  forall a b, (a < 2^128)%N -> (b < 2^128)%N -> mul128_generic a b = split128 (clmul a b).
Proof. exact clmul_generic. Qed.
Print Assumptions C15_clmul_generic.

(* likewise the bit-by-bit reference mul128Ref the Go tests compare against *)
Theorem C15_clmul_ref :
  forall a b, (a < 2^128)%N -> (b < 2^128)%N -> mul128_ref a b = split128 (clmul a b).
Proof. exact mul128_ref_spec. Qed.
Print Assumptions C15_clmul_ref.

(* clmul is bilinear over xor (all naturals, unbounded) *)
Theorem C15_clmul_bilinear :
  forall a b c, clmul (N.lxor a b) c = N.lxor (clmul a c) (clmul b c) /\
                clmul a (N.lxor b c) = N.lxor (clmul a b) (clmul a c).
Proof. intros a b c. exact (conj (clmul_lxor_l a b c) (clmul_lxor_r a b c)). Qed.
Print Assumptions C15_clmul_bilinear.

(* the unreduced product has no zero divisors (all naturals): this is what
   makes a single inconsistent row always detectable *)
Theorem C15_clmul_integral : forall a b, clmul a b = 0%N -> a = 0%N \/ b = 0%N.
Proof. exact clmul_eq_0. Qed.
Print Assumptions C15_clmul_integral.

(* (1) Every honest malicious-mode run is accepted and the sender's outputs
   satisfy t_i = q_i xor b_i*Delta for the receiver's choices. *)
Theorem C15_honest_accepts :
  forall g0 g1 chi_of bl b0 b1 seed pos delta tr res pos',
    (delta < 2^128)%N ->
    receiver_run g0 g1 chi_of bl b0 b1 seed pos = (tr, res, pos') ->
    exists out,
      sender_run (sender_streams g0 g1 delta) delta chi_of tr (length bl) pos = Accept out /\
      corr_holds delta out res bl = true.
Proof. intros. eapply honest_accepts; eassumption. Qed.
Print Assumptions C15_honest_accepts.

(* (2) Exact acceptance condition.  The adversary xors an ARBITRARY error
   matrix into the transmitted u (E0 on the payload batch incl. padding rows,
   E1 on the 256-row check batch) and replaces seed, x, t0, t1 by ARBITRARY
   values.  With trh the honest response for the seed the sender received, the
   sender accepts iff the error syndrome  sum_i chi_i * (e_i & Delta)  equals
   (x' xor x_h) * Delta  xor  (t' xor t_h)   as 256-bit polynomials — and then
   outputs the rows t_i xor b_i*Delta xor (e_i & Delta).
   (t0' < 2^128 only says the received t0 is a label.) *)
Theorem C15_accept_iff :
  forall g0 g1 chi_of bl b0 b1 pos delta, (delta < 2^128)%N ->
  forall seed tr res pos' E0 E1 seed' x' t0' t1' trh resh posh out,
    receiver_run g0 g1 chi_of bl b0 b1 seed pos = (tr, res, pos') ->
    receiver_run g0 g1 chi_of bl b0 b1 seed' pos = (trh, resh, posh) ->
    (t0' < 2^128)%N ->
    (sender_run (sender_streams g0 g1 delta) delta chi_of (tamper E0 E1 seed' x' t0' t1' tr) (length bl) pos = Accept out
     <->
     out = map (qrow delta (t_ g0 pos) (b_ bl) (err_row E0)) (seq 0 (length bl)) /\
     syndrome2 (prg_label chi_of seed') delta E0 E1 (length bl)
     = N.lxor (clmul (N.lxor x' (tr_x trh)) delta)
              (N.lxor (join128 (t0', t1')) (join128 (tr_t0 trh, tr_t1 trh)))).
Proof. exact accept_iff. Qed.
Print Assumptions C15_accept_iff.

(* (2') Soundness in the form of the property: if the sender accepts a
   rewritten message sequence, then either its outputs still satisfy the
   correlation for the receiver's ORIGINAL choices, or the forge event holds:
   some payload row is inconsistent and yet the linear relation above holds
   among the chi coefficients. *)
Theorem C15_tamper_sound :
  forall g0 g1 chi_of bl b0 b1 seed pos delta, (delta < 2^128)%N ->
  forall tr res pos', receiver_run g0 g1 chi_of bl b0 b1 seed pos = (tr, res, pos') ->
  forall E0 E1 seed' x' t0' t1' trh resh posh out,
    receiver_run g0 g1 chi_of bl b0 b1 seed' pos = (trh, resh, posh) ->
    sender_run (sender_streams g0 g1 delta) delta chi_of (tamper E0 E1 seed' x' t0' t1' tr) (length bl) pos = Accept out ->
    corr_holds delta out res bl = true \/
    forge_event (prg_label chi_of seed') delta E0 E1 (length bl)
                (N.lxor x' (tr_x trh))
                (N.lxor (join128 (t0', t1')) (join128 (tr_t0 trh, tr_t1 trh))).
Proof. exact tamper_sound. Qed.
Print Assumptions C15_tamper_sound.

(* (3) Any set of bit errors confined to columns j with Delta_j = 0 (any rows,
   both batches): the sender's result is identical to the untampered run's —
   accepted, same outputs, correlation intact. *)
Theorem C15_unselected_column_harmless :
  forall g0 g1 chi_of bl b0 b1 seed pos delta, (delta < 2^128)%N ->
  forall tr res pos', receiver_run g0 g1 chi_of bl b0 b1 seed pos = (tr, res, pos') ->
  forall E0 E1,
    (forall j i, j < K -> E0 j i = true -> N.testbit delta (N.of_nat j) = false) ->
    (forall j i, j < K -> E1 j i = true -> N.testbit delta (N.of_nat j) = false) ->
    sender_run (sender_streams g0 g1 delta) delta chi_of (tamper_bits E0 E1 tr) (length bl) pos
    = sender_run (sender_streams g0 g1 delta) delta chi_of tr (length bl) pos /\
    exists out,
      sender_run (sender_streams g0 g1 delta) delta chi_of (tamper_bits E0 E1 tr) (length bl) pos = Accept out /\
      corr_holds delta out res bl = true.
Proof. exact unselected_column_harmless. Qed.
Print Assumptions C15_unselected_column_harmless.

(* (4) A single flipped bit at (column j0, payload row i0) with Delta_j0 = 1
   and chi_i0 <> 0 is rejected ("OT extension check failed"). *)
Theorem C15_selected_column_detected :
  forall g0 g1 chi_of bl b0 b1 seed pos delta, (delta < 2^128)%N ->
  forall tr res pos', receiver_run g0 g1 chi_of bl b0 b1 seed pos = (tr, res, pos') ->
  forall j0 i0,
    j0 < K -> i0 < length bl -> N.testbit delta (N.of_nat j0) = true ->
    prg_label chi_of seed i0 <> 0%N ->
    sender_run (sender_streams g0 g1 delta) delta chi_of (tamper_bits (flip1 j0 i0) noerr tr) (length bl) pos = Reject.
Proof. exact single_flip_detected. Qed.
Print Assumptions C15_selected_column_detected.

(* (4') multi-flip, one row: ANY set of flips inside one payload row i0 whose
   restriction to the selected columns is non-empty is rejected when chi_i0 <> 0
   (no zero divisors). *)

(* (4'') ... and the same for a row of the 256-row check batch *)
Theorem C15_selected_row_detected :
  forall g0 g1 chi_of bl b0 b1 seed pos delta, (delta < 2^128)%N ->
  forall tr res pos', receiver_run g0 g1 chi_of bl b0 b1 seed pos = (tr, res, pos') ->
  (forall E0 i0,
    i0 < length bl -> (forall j i, E0 j i = true -> i = i0) ->
    N.land (err_row E0 i0) delta <> 0%N -> prg_label chi_of seed i0 <> 0%N ->
    sender_run (sender_streams g0 g1 delta) delta chi_of (tamper_bits E0 noerr tr) (length bl) pos = Reject) /\
  (forall E1 i0,
    i0 < checkRows -> (forall j i, E1 j i = true -> i = i0) ->
    N.land (err_row E1 i0) delta <> 0%N -> prg_label chi_of seed (length bl + i0) <> 0%N ->
    sender_run (sender_streams g0 g1 delta) delta chi_of (tamper_bits noerr E1 tr) (length bl) pos = Reject).
Proof. exact selected_rows_detected. Qed.
Print Assumptions C15_selected_row_detected.

(* (4''') multi-flip, one column: a selected column j0 flipped in the payload
   rows of an arbitrary set R0 and the check rows of an arbitrary set R1 is
   accepted IFF the chi coefficients of those rows xor to zero. *)
Theorem C15_column_flips_accept_iff :
  forall g0 g1 chi_of bl b0 b1 seed pos delta, (delta < 2^128)%N ->
  forall tr res pos', receiver_run g0 g1 chi_of bl b0 b1 seed pos = (tr, res, pos') ->
  forall j0 R0 R1 out,
    j0 < K -> N.testbit delta (N.of_nat j0) = true ->
    (sender_run (sender_streams g0 g1 delta) delta chi_of
                (tamper_bits (colflips j0 R0) (colflips j0 R1) tr) (length bl) pos = Accept out <->
     out = map (qrow delta (t_ g0 pos) (b_ bl) (err_row (colflips j0 R0))) (seq 0 (length bl)) /\
     N.lxor (csum (prg_label chi_of seed) R0 0 0 (length bl))
            (csum (prg_label chi_of seed) R1 (length bl) 0 checkRows) = 0%N).
Proof. exact column_flips_accept_iff. Qed.
Print Assumptions C15_column_flips_accept_iff.

(* The property's "never silently accepts an inconsistent state" is FALSE of
   the faithful model as a universal statement: whenever the chi coefficients
   of a set of rows containing a payload row xor to zero, flipping one selected
   column in exactly those rows (response untouched) is accepted and the
   outputs violate the correlation.  (The receiver picks the seed itself and
   the seed is not bound to the transmitted matrix; among >128 coefficients a
   dependency always exists — the harness computes one for the real AES-CTR
   chi stream and replays it against the Go code: notes/C15-findings.md.) *)
Theorem C15_chi_dependency_forge :
  forall g0 g1 chi_of bl b0 b1 seed pos delta tr res pos' j0 R0 R1 i,
    (delta < 2^128)%N ->
    receiver_run g0 g1 chi_of bl b0 b1 seed pos = (tr, res, pos') ->
    j0 < K -> N.testbit delta (N.of_nat j0) = true ->
    i < length bl -> R0 i = true ->
    N.lxor (csum (prg_label chi_of seed) R0 0 0 (length bl))
           (csum (prg_label chi_of seed) R1 (length bl) 0 checkRows) = 0%N ->
    exists out,
      sender_run (sender_streams g0 g1 delta) delta chi_of
                 (tamper_bits (colflips j0 R0) (colflips j0 R1) tr) (length bl) pos = Accept out /\
      corr_holds delta out res bl = false.
Proof. exact chi_dependency_forge. Qed.
Print Assumptions C15_chi_dependency_forge.

(* closed witness of the refutation (bit errors only, response untouched) *)
Theorem C15_never_silent_refuted :
  exists g0 g1 chi_of bl b0 b1 seed pos delta E0 E1 tr res pos' out,
    (delta < 2^128)%N /\
    receiver_run g0 g1 chi_of bl b0 b1 seed pos = (tr, res, pos') /\
    sender_run (sender_streams g0 g1 delta) delta chi_of (tamper_bits E0 E1 tr) (length bl) pos = Accept out /\
    corr_holds delta out res bl = false.
Proof. exact never_silent_refuted. Qed.
Print Assumptions C15_never_silent_refuted.

(* ---- coefficient positions and multi-flip deviations ---------------------- *)

(* The chi coefficients are ONE stream indexed by position: payload row i
   uses position coeff_idx n 0 i = i, check row k uses coeff_idx n 1 k = n + k.
   Distinct matrix positions (rows the sender uses) get distinct stream
   positions - the blocks of 1024 payload rows and the 256 check rows continue
   the stream, nothing restarts. *)
Theorem C15_coeff_positions_distinct :
  forall n b1 r1 b2 r2,
    b1 <= 1 -> b2 <= 1 -> (b1 = 0 -> r1 < n) -> (b2 = 0 -> r2 < n) ->
    coeff_idx n b1 r1 = coeff_idx n b2 r2 -> b1 = b2 /\ r1 = r2.
Proof. exact coeff_idx_injective. Qed.
Print Assumptions C15_coeff_positions_distinct.

(* ... and these are the positions the sender's test reads (every chi, Delta,
   rows q / qc, n): the 1024-blocked loop plus the check-batch call compute
   sum_{i<n} chi(i)*q_i xor sum_{k<256} chi(n+k)*qc_k xor x*Delta and compare it
   with (t0, t1).  (The receiver side uses the same positions: part of
   C15_honest_accepts / C15_accept_iff.) *)
Theorem C15_sender_check_positions :
  forall chi delta (q qc : nat -> N) n x t0 t1,
    sender_check chi delta (map q (seq 0 n)) (map qc (seq 0 checkRows)) x t0 t1 = true <->
    split128 (N.lxor (N.lxor (isum chi q (coeff_idx n 0 0) 0 n) (isum chi qc (coeff_idx n 1 0) 0 checkRows))
                     (clmul x delta)) = (t0, t1).
Proof. exact sender_check_positions. Qed.
Print Assumptions C15_sender_check_positions.

(* ANY set of flipped positions (both batches, any rows and columns), response
   untouched: a non-zero syndrome sum_p chi(idx p) * (e_p & Delta) is rejected. *)
Theorem C15_multi_flip_detected :
  forall g0 g1 chi_of bl b0 b1 seed pos delta, (delta < 2^128)%N ->
  forall tr res pos', receiver_run g0 g1 chi_of bl b0 b1 seed pos = (tr, res, pos') ->
  forall E0 E1,
    syndrome2 (prg_label chi_of seed) delta E0 E1 (length bl) <> 0%N ->
    sender_run (sender_streams g0 g1 delta) delta chi_of (tamper_bits E0 E1 tr) (length bl) pos = Reject.
Proof. exact multi_flip_detected. Qed.
Print Assumptions C15_multi_flip_detected.

(* Symbolic model: with the coefficients as independent indeterminates
   (generic point Y_p = X^(128 p), distinct stream positions -> distinct
   indeterminates) the syndrome of ANY error pattern vanishes iff no row the
   sender uses is inconsistent: every multi-flip deviation that leaves an
   inconsistent state is detected; acceptance of an inconsistent state needs a
   non-trivial relation among the actual coefficients (C15_tamper_sound). *)
Theorem C15_symbolic_multi_flip_detected :
  forall delta E0 E1 n,
    syndrome2 gchi delta E0 E1 n = 0%N <->
    (forall i, i < n -> N.land (err_row E0 i) delta = 0%N) /\
    (forall k, k < checkRows -> N.land (err_row E1 k) delta = 0%N).
Proof. exact syndrome2_generic. Qed.
Print Assumptions C15_symbolic_multi_flip_detected.

(* two flips in one selected column at payload rows a, b: accepted IFF the two
   stream positions carry the same coefficient *)
Theorem C15_pair_payload_accept_iff :
  forall g0 g1 chi_of bl b0 b1 seed pos delta, (delta < 2^128)%N ->
  forall tr res pos', receiver_run g0 g1 chi_of bl b0 b1 seed pos = (tr, res, pos') ->
  forall j0 a b out,
    j0 < K -> N.testbit delta (N.of_nat j0) = true -> a < length bl -> b < length bl ->
    (sender_run (sender_streams g0 g1 delta) delta chi_of
                (tamper_bits (colflips j0 (pairset a b)) (colflips j0 nowhere) tr) (length bl) pos = Accept out <->
     out = map (qrow delta (t_ g0 pos) (b_ bl) (err_row (colflips j0 (pairset a b)))) (seq 0 (length bl)) /\
     prg_label chi_of seed (coeff_idx (length bl) 0 a) = prg_label chi_of seed (coeff_idx (length bl) 0 b)).
Proof. exact pair_payload_accept_iff. Qed.
Print Assumptions C15_pair_payload_accept_iff.

(* the same (row, column) flipped in the payload batch (row a) and in the check
   batch (row k): accepted IFF chi(a) = chi(n + k) *)
Theorem C15_pair_payload_check_accept_iff :
  forall g0 g1 chi_of bl b0 b1 seed pos delta, (delta < 2^128)%N ->
  forall tr res pos', receiver_run g0 g1 chi_of bl b0 b1 seed pos = (tr, res, pos') ->
  forall j0 a k out,
    j0 < K -> N.testbit delta (N.of_nat j0) = true -> a < length bl -> k < checkRows ->
    (sender_run (sender_streams g0 g1 delta) delta chi_of
                (tamper_bits (colflips j0 (fun i => Nat.eqb i a)) (colflips j0 (fun i => Nat.eqb i k)) tr) (length bl) pos = Accept out <->
     out = map (qrow delta (t_ g0 pos) (b_ bl) (err_row (colflips j0 (fun i => Nat.eqb i a)))) (seq 0 (length bl)) /\
     prg_label chi_of seed (coeff_idx (length bl) 0 a) = prg_label chi_of seed (coeff_idx (length bl) 1 k)).
Proof. exact pair_payload_check_accept_iff. Qed.
Print Assumptions C15_pair_payload_check_accept_iff.

(* hence, when the coefficients at the two (distinct) stream positions differ
   - hypothesis made visible; AES-CTR yields pairwise different blocks, the
   harness checks it for every observed seed - both pair shapes are rejected *)


Theorem C15_pair_flip_detected :
  forall g0 g1 chi_of bl b0 b1 seed pos delta, (delta < 2^128)%N ->
  forall tr res pos', receiver_run g0 g1 chi_of bl b0 b1 seed pos = (tr, res, pos') ->
  forall j0, j0 < K -> N.testbit delta (N.of_nat j0) = true ->
  (forall a b, a < length bl -> b < length bl ->
    prg_label chi_of seed (coeff_idx (length bl) 0 a) <> prg_label chi_of seed (coeff_idx (length bl) 0 b) ->
    sender_run (sender_streams g0 g1 delta) delta chi_of
               (tamper_bits (colflips j0 (pairset a b)) (colflips j0 nowhere) tr) (length bl) pos = Reject) /\
  (forall a k, a < length bl -> k < checkRows ->
    prg_label chi_of seed (coeff_idx (length bl) 0 a) <> prg_label chi_of seed (coeff_idx (length bl) 1 k) ->
    sender_run (sender_streams g0 g1 delta) delta chi_of
               (tamper_bits (colflips j0 (fun i => Nat.eqb i a)) (colflips j0 (fun i => Nat.eqb i k)) tr) (length bl) pos = Reject).
Proof. exact pair_flip_detected. Qed.
Print Assumptions C15_pair_flip_detected.

(* refutation for a stream that REPEATS a coefficient (e.g. one restarting at
   counter 0 for every 1024-row block or for the check batch): the two flips
   cancel, the sender accepts, output a violates the correlation *)


Theorem C15_repeated_coefficient_refuted :
  forall g0 g1 chi_of bl b0 b1 seed pos delta, (delta < 2^128)%N ->
  forall tr res pos', receiver_run g0 g1 chi_of bl b0 b1 seed pos = (tr, res, pos') ->
  forall j0, j0 < K -> N.testbit delta (N.of_nat j0) = true ->
  (forall a k, a < length bl -> k < checkRows ->
    prg_label chi_of seed (coeff_idx (length bl) 0 a) = prg_label chi_of seed (coeff_idx (length bl) 1 k) ->
    exists out,
      sender_run (sender_streams g0 g1 delta) delta chi_of
                 (tamper_bits (colflips j0 (fun i => Nat.eqb i a)) (colflips j0 (fun i => Nat.eqb i k)) tr) (length bl) pos = Accept out /\
      corr_holds delta out res bl = false) /\
  (forall a b, a < length bl -> b < length bl -> a <> b ->
    prg_label chi_of seed (coeff_idx (length bl) 0 a) = prg_label chi_of seed (coeff_idx (length bl) 0 b) ->
    exists out,
      sender_run (sender_streams g0 g1 delta) delta chi_of
                 (tamper_bits (colflips j0 (pairset a b)) (colflips j0 nowhere) tr) (length bl) pos = Accept out /\
      corr_holds delta out res bl = false).
Proof. exact repeated_coefficient_refuted. Qed.
Print Assumptions C15_repeated_coefficient_refuted.

(* the model's constants are those of ot/iknp.go as regenerated this run *)
Theorem C15_consts :
  (Z.of_nat K = ot_K /\ Z.of_nat chunkRows = ot_chunkRows /\ Z.of_nat chunkByteRows = ot_chunkByteRows
   /\ Z.of_nat (K * chunkByteRows) = ot_chunkSize)%Z.
Proof. exact c15_consts_ok. Qed.
Print Assumptions C15_consts.

(* Alteration of the challenge response alone: matrix, seed and x untouched,
   the tag (t0, t1) replaced by ANY other pair of naturals is rejected - the
   sender's verdict is the full equality of BOTH 128-bit halves of the 256-bit
   tag (C15_accept_iff states the same with N equalities of join128 pairs). *)
Theorem C15_tag_alteration_rejected :
  forall g0 g1 chi_of bl b0 b1 seed pos delta, (delta < 2^128)%N ->
  forall tr res pos', receiver_run g0 g1 chi_of bl b0 b1 seed pos = (tr, res, pos') ->
  forall t0' t1',
    (t0', t1') <> (tr_t0 tr, tr_t1 tr) ->
    sender_run (sender_streams g0 g1 delta) delta chi_of
               (tamper noerr noerr (tr_seed tr) (tr_x tr) t0' t1' tr) (length bl) pos = Reject.
Proof. exact tag_alteration_rejected. Qed.
Print Assumptions C15_tag_alteration_rejected.

(* in particular the "mirrored" masks: the same pattern in both 64-bit halves
   of one tag label (bit k together with bit k+64), on t0 or on t1 *)
Theorem C15_mirrored_tag_alteration_rejected :
  forall g0 g1 chi_of bl b0 b1 seed pos delta, (delta < 2^128)%N ->
  forall tr res pos', receiver_run g0 g1 chi_of bl b0 b1 seed pos = (tr, res, pos') ->
  forall k, (k < 64)%N ->
    sender_run (sender_streams g0 g1 delta) delta chi_of
               (tamper noerr noerr (tr_seed tr) (tr_x tr) (N.lxor (tr_t0 tr) (mirrored (2^k))) (tr_t1 tr) tr) (length bl) pos = Reject /\
    sender_run (sender_streams g0 g1 delta) delta chi_of
               (tamper noerr noerr (tr_seed tr) (tr_x tr) (tr_t0 tr) (N.lxor (tr_t1 tr) (mirrored (2^k))) tr) (length bl) pos = Reject.
Proof. exact mirrored_tag_alteration_rejected. Qed.
Print Assumptions C15_mirrored_tag_alteration_rejected.

(* STATE INVENTORY (finite obligation on the model regenerated from the source, checked by
   computation).  The struct fields and package-level variables of the Go packages this
   property is anchored in — ot — as emitted from /repo's current
   source by harness/gen_state.go (Gen/State.v) are exactly those the models above were written
   against (Base/StateExpected.v).  A new field or variable (a cache, a memo, a pool, a counter,
   a changed field type) is state the models do not have: this obligation then breaks and the
   property is no longer shown to hold until the change has been reviewed against the model. *)
Theorem C15_state_inventory :
  Mpc.Base.StateCheck.state_unchanged Mpc.Gen.State.state_inventory Mpc.Base.StateExpected.expected_state
    Mpc.Base.StatePkgs.pkgs_C15 = true.
Proof. vm_compute. reflexivity. Qed.
Print Assumptions C15_state_inventory.

(* CHI STREAM (OT/ChiStream.v: newPrg/prg/prgLabels and the block loops of
   IKNPSender.Send / IKNPReceiver.Receive over `var chi [1024]Label`, array
   overwritten in place on a prefix).  For EVERY keystream block function blk
   (AES_seed(counter) in Go), EVERY stream position pos, EVERY array of at
   least 256 entries with arbitrary (stale) content and EVERY batch size n
   (n = 0, 1, k*1024 +- 1, ...): the pairs (coefficient, row) the sender
   multiplies are exactly  (label drawn at byte pos+16*i, payload row i), i < n,
   then (label at pos+16*(n+r), check row r), r < 256, and the stream ends at
   pos + 16*(n+256).  Hypothesis non-vacuous: chi_array0_ok (the Go array);
   chi_schedule_run runs n = 1030 across the in-place block boundary. *)
Theorem C15_chi_schedule :
  forall (blk : nat -> list N) pos arr n,
    checkRows <= length arr ->
    chi_schedule blk pos arr n =
      (map (fun i => (lab_at blk (pos + 16 * i), i)) (seq 0 n),
       map (fun r => (lab_at blk (pos + 16 * (n + r)), r)) (seq 0 checkRows),
       pos + 16 * (n + checkRows)).
Proof. exact chi_schedule_spec. Qed.
Print Assumptions C15_chi_schedule.

(* ... hence, for every blk, pos, arr, n: the row indices met by the payload
   loop are 0, 1, ..., n-1 in order: every payload row index < n is covered by
   exactly one chi coefficient, no index >= n by any; the check batch covers
   rows 0..255 *)
Theorem C15_chi_rows_covered_once :
  forall (blk : nat -> list N) pos arr n,
    checkRows <= length arr ->
    let '(ps, cs, _) := chi_schedule blk pos arr n in
    map snd ps = seq 0 n /\ map snd cs = seq 0 checkRows /\
    (forall i, i < n -> count_occ Nat.eq_dec (map snd ps) i = 1) /\
    (forall i, n <= i -> count_occ Nat.eq_dec (map snd ps) i = 0).
Proof. exact chi_rows_covered_once. Qed.
Print Assumptions C15_chi_rows_covered_once.

(* for every blk and every c: 16 bytes drawn at byte position 16*c are
   keystream block c alone (Label.SetBytes of it) - with the fresh stream of
   newPrg(seed) (pos = 0) coefficient i is a function of (seed, i) only *)
Theorem C15_chi_coefficient_is_block :
  forall (blk : nat -> list N) c, lab_at blk (16 * c) = lab_block blk c.
Proof. exact lab_at_block. Qed.
Print Assumptions C15_chi_coefficient_is_block.
