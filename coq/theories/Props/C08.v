(* Props/C08.v — property C08: compilation is deterministic.  Findings F5 (import order) and F14 (reused Compiler) are repaired in /repo; their refutations are regression records in Lang/DetermProof.v.
   Only statements closed by [exact], each followed by Print Assumptions.

   Model: Lang/Determ.v — the order-relevant skeleton of compilation as a
   function of an ORACLE that permutes the entries at every map-range site
   (the only runtime choice on the compile path: the regenerated inventory
   Gen/MapSites.v lists no go/select statement there).  [cur] is the class
   assignment the translator derived from the CURRENT Go source. *)
From Coq Require Import NArith List Bool String Permutation.
From Mpc Require Import Gen.MapSites Lang.Determ Lang.DetermSites Lang.DetermProof Lang.DetermF5 Lang.Hist Lang.HistProof Lang.RunC08.
Import ListNotations.
From Mpc Require Gen.State Base.StateExpected Base.StateCheck Base.StatePkgs.
Open Scope string_scope.
Open Scope list_scope.

(* -------- the three insensitive loop classes (unbounded, any element type) -------- *)

(* SortedAfter (Program.DefineConstants): for all lists of (name, bits) constants
   with pairwise different names and every permutation of them (every order in
   which the Constants map may be ranged): sorting by name and assigning wires
   gives the same wire assignment. *)
Theorem C08_define_constants : forall l1 l2 : list (N * nat),
    Permutation l1 l2 -> NoDup (map fst l1) -> define_constants l1 = define_constants l2.
Proof. exact define_constants_perm. Qed.
Print Assumptions C08_define_constants.

(* REFUTED without the hypothesis NoDup names: there are a constant table with
   two entries of one name and different widths and two orders of ranging it for
   which different widths are wired (sort by name ties, first entry wins).  The
   hypothesis is therefore CHECKED on the implementation after every
   compilation (harness oracle c08:DefineConstants:sort-key-not-unique on
   ssa.Program.Constants, and the last two answers of run_c08). *)
Theorem C08_define_constants_ties_refuted :
  exists l1 l2 : list (N * nat), Permutation l1 l2 /\ define_constants l1 <> define_constants l2.
Proof. exact define_constants_ties_refuted. Qed.
Print Assumptions C08_define_constants_ties_refuted.

(* LookupOnly: for every element type, predicate and pair of permuted lists in
   which at most one element satisfies the predicate, the first match is the
   same. *)
Theorem C08_lookup_unique : forall (A : Type) (p : A -> bool) (l1 l2 : list A),
    Permutation l1 l2 ->
    (forall a b, In a l1 -> In b l1 -> p a = true -> p b = true -> a = b) ->
    find p l1 = find p l2.
Proof. exact find_unique_perm. Qed.
Print Assumptions C08_lookup_unique.

(* CommutativeAccumulate: for every state/element type and update f whose
   applications commute, folding over any two permutations gives the same state. *)
Theorem C08_accumulate_comm : forall (A S : Type) (f : S -> A -> S),
    (forall s a b, f (f s a) b = f (f s b) a) ->
    forall l1 l2, Permutation l1 l2 -> forall s, fold_left f l1 s = fold_left f l2 s.
Proof. exact fold_comm_perm. Qed.
Print Assumptions C08_accumulate_comm.

(* Type.String on the regenerated table types.Types: for all permutation
   oracles and every type code the printed name is the same. *)
Theorem C08_type_string : forall (o1 o2 : oracle) (t : text),
    oracle_ok o1 -> oracle_ok o2 -> type_string o1 t = type_string o2 t.
Proof. exact type_string_det. Qed.
Print Assumptions C08_type_string.

(* -------- the model -------- *)

(* For all permutation oracles o1 o2, all Compiler states (histories), package
   directories and main packages: IF no map-range site of the regenerated
   inventory is order-sensitive, the model of the current source produces the
   same listing and the same Compiler state. *)
Theorem C08_deterministic :
    (forall s, In s MapSites.sites -> s_class s <> OrderSensitive) ->
    forall o1 o2, oracle_ok o1 -> oracle_ok o2 ->
    forall cs fs main, compile_in cur o1 cs fs main = compile_in cur o2 cs fs main.
Proof. exact compile_deterministic. Qed.
Print Assumptions C08_deterministic.

(* The same for EVERY class assignment in which both import loops sort their
   keys (in particular the model of the repaired source): no hypothesis on the
   inventory. *)
Theorem C08_deterministic_when_sorted : forall cls : msite -> site_class,
    cls MS_parse = SortedAfter -> cls MS_init = SortedAfter ->
    forall o1 o2, oracle_ok o1 -> oracle_ok o2 ->
    forall cs fs main, compile_in cls o1 cs fs main = compile_in cls o2 cs fs main.
Proof. exact compile_in_deterministic_cls. Qed.
Print Assumptions C08_deterministic_when_sorted.

(* The model of the current source is deterministic, unconditionally: for all
   permutation oracles, Compiler states, package directories and main packages. *)
Theorem C08_deterministic_now :
    forall o1 o2, oracle_ok o1 -> oracle_ok o2 ->
    forall cs fs main, compile_in cur o1 cs fs main = compile_in cur o2 cs fs main.
Proof. exact compile_deterministic_now. Qed.
Print Assumptions C08_deterministic_now.

(* Histories: for every class assignment, all oracles and every program, the
   second compilation with the SAME Compiler instance (whatever orders the first
   one saw) yields the listing of a compilation with a fresh Compiler - package
   init blocks and function instance numbers included (compiler.go drops the
   package cache when a compilation starts).  The refutation for the source
   before that repair is kept in Lang/DetermProof.v (reuse_refuted_without_reset). *)
Theorem C08_reuse_same : forall (cls : msite -> site_class) (o1 o2 : oracle) (p : prog),
    compile_again cls o1 o2 p = compile cls o2 p.
Proof. exact reuse_same. Qed.
Print Assumptions C08_reuse_same.

(* ... and more generally the listing does not depend on the Compiler state at all *)
Theorem C08_history_independent : forall cls o cs cs' fs main,
    snd (compile_in cls o cs fs main) = snd (compile_in cls o cs' fs main).
Proof. exact compile_in_history_independent. Qed.
Print Assumptions C08_history_independent.

(* Histories, general form: for EVERY compilation step (params object, Compiler
   state, source -> params, state, output) that (a) leaves the params object as
   it was and (b) whose output does not depend on the Compiler state, for all
   histories, params objects and sources, with the same or a new Compiler: the
   output after the history (same params object) is the output of a fresh
   compilation.  Hypothesis (a) - the configuration is read-only - is explicit;
   on the implementation it is discharged by C08_params_readonly (static: no
   reachable write to a utils.Params field) and, every run, by the harness
   (snapshot of all exported Params fields before/after each compilation, key
   c08:params-mutated-by-compilation:<field>; program pairs A;B with a shared
   Params object, key c08:history:shared-params:..). *)
Theorem C08_history_independent_general :
  forall (P S X O : Type) (step : P -> S -> X -> P * S * O),
    params_readonly P S X O step -> state_irrelevant P S X O step ->
    forall (same_compiler : bool) (s0 : S) (hist : list X) (p : P) (x : X),
      after P S X O step same_compiler s0 hist p x = fresh P S X O step s0 p x.
Proof. exact history_independent. Qed.
Print Assumptions C08_history_independent_general.

(* instance: the model of Lang/Determ.v (its configuration is a function
   argument that compile_in does not return) after any history *)
Theorem C08_compile_history_independent : forall same_compiler hist cfg x,
    after _ _ _ _ step_compile same_compiler cs0 hist cfg x = compile (fst cfg) (snd cfg) x.
Proof. exact compile_history_independent. Qed.
Print Assumptions C08_compile_history_independent.

(* instance: the array-multiplier threshold selection of NewMultiplier over the
   regenerated tuning table, after any history *)
Theorem C08_mult_threshold_history_independent : forall same_compiler hist p x,
    after _ _ _ _ step_mult same_compiler tt hist p x = fresh _ _ _ _ step_mult tt p x.
Proof. exact mult_history_independent. Qed.
Print Assumptions C08_mult_threshold_history_independent.

(* REFUTED without hypothesis (a): a getter that stores its default into the
   params object - after a multiplication of an untuned width, a tuned width is
   built with another threshold *)
Theorem C08_storing_getter_history_refuted :
  exists (hist : list (list nat)) (p : params) (x : list nat),
    after _ _ _ _ step_mult_storing false tt hist p x <> fresh _ _ _ _ step_mult_storing tt p x.
Proof. exact storing_getter_history_refuted. Qed.
Print Assumptions C08_storing_getter_history_refuted.

(* -------- obligations on the regenerated inventory (finite: vm_compute on Gen/MapSites.v) -------- *)

(* Every map-range site on the compile path is SortedAfter, LookupOnly or
   CommutativeAccumulate.  A new order-sensitive site breaks this theorem. *)
Theorem C08_sites_insensitive :
  forallb (fun s => negb (is_order_sensitive s)) MapSites.sites = true.
Proof. exact sites_insensitive. Qed.
Print Assumptions C08_sites_insensitive.

(* No directory listing on the compile path is used in directory order. *)
Theorem C08_readdir_sites_insensitive :
  forallb (fun s => negb (is_order_sensitive s)) MapSites.readdir_sites = true.
Proof. exact readdir_sites_insensitive. Qed.
Print Assumptions C08_readdir_sites_insensitive.

(* The configuration is read-only during a compilation: no assignment to a field
   of utils.Params (or below one) is reachable from the compile roots, except the
   documented symbol table of the intern() builtin.  A new write breaks this.
   For that one admitted write the VALUE written must itself be order independent:
   a new symbol gets its id in program order (the next id), not by anything that
   ranges over the table (a map).  That is checked on the implementation by the
   intern program family of the harness (3, 6 and 12 distinct symbols, fresh and
   preloaded tables, 96+ compilations each and child processes: keys
   c08:intern:symbol-ids-differ and c08:intern:ids-not-in-program-order); a map
   range in Intern.intern additionally breaks C08_sites_insensitive. *)
Theorem C08_params_readonly : forallb param_write_allowed MapSites.param_writes = true.
Proof. exact params_readonly_inventory. Qed.
Print Assumptions C08_params_readonly.

(* no go/select statement is reachable from the compile entry points *)
Theorem C08_no_goroutines : MapSites.go_sites = [].
Proof. exact no_goroutines. Qed.
Print Assumptions C08_no_goroutines.

(* side condition of the LookupOnly sites: the package-level map literals they
   range over are fully constant and injective on the compared component *)
Theorem C08_lookup_tables_injective : forallb table_injective MapSites.lookup_tables = true.
Proof. exact lookup_tables_injective. Qed.
Print Assumptions C08_lookup_tables_injective.

(* every site the model consults the oracle at is present in the inventory with
   a class the model's loop shape allows (import loops: sorted or raw; the
   constants loop: sorted; Type.String: lookup; maxOperandLength: accumulate) *)
Theorem C08_model_matches_inventory : model_matches_inventory = true.
Proof. exact model_matches_inventory_ok. Qed.
Print Assumptions C08_model_matches_inventory.

(* the byte tables the executable model uses are the string tables of the inventory *)
Theorem C08_tables_consistent :
  table_named "Types" = table_types_Types /\ table_named "operands" = table_compiler_ssa_operands.
Proof. exact tables_consistent. Qed.
Print Assumptions C08_tables_consistent.

(* the orders enumerated by run_c08 (correspondence check) are permutation oracles *)
Theorem C08_enumerated_oracles_ok : forall t, oracle_ok (oracle_of_table t).
Proof. exact oracle_of_table_ok. Qed.
Print Assumptions C08_enumerated_oracles_ok.

(* Completeness of the enumeration: every permutation oracle coincides, on the
   import lists of the packages of a program (pairwise different import paths) at the
   Package.Init site, with one of the enumerated table oracles ... *)
Theorem C08_enumerated_oracles_complete : forall (o : oracle) (ps : list pkg),
    oracle_ok o -> NoDup (map p_path ps) ->
    exists t, In t (all_tables ps) /\
      forall p, In p ps ->
        oracle_of_table t N MS_init (p_path p) (p_imports p) = o N MS_init (p_path p) (p_imports p).
Proof. exact enumerated_oracles_complete. Qed.
Print Assumptions C08_enumerated_oracles_complete.

(* ... hence, for every class assignment, the package initialisation (the init
   blocks the correspondence check compares) under any permutation oracle is the
   one under some enumerated table. *)
Theorem C08_pkg_init_enumerated : forall (cls : msite -> site_class) (o : oracle) (ps : list pkg),
    oracle_ok o -> NoDup (map p_path ps) ->
    exists t, In t (all_tables ps) /\
      forall fuel pkgs st p, In p ps -> (forall q, In q (map snd pkgs) -> In q ps) ->
        pkg_init fuel (range_keys cls o) pkgs st p = pkg_init fuel (range_keys cls (oracle_of_table t)) pkgs st p.
Proof. exact pkg_init_enumerated. Qed.
Print Assumptions C08_pkg_init_enumerated.

(* STATE INVENTORY (finite obligation on the model regenerated from the source, checked by
   computation).  The struct fields and package-level variables of the Go packages this
   property is anchored in — apps/garbled, compiler, compiler/ast, compiler/circuits, compiler/ssa — as emitted from /repo's current
   source by harness/gen_state.go (Gen/State.v) are exactly those the models above were written
   against (Base/StateExpected.v).  A new field or variable (a cache, a memo, a pool, a counter,
   a changed field type) is state the models do not have: this obligation then breaks and the
   property is no longer shown to hold until the change has been reviewed against the model. *)
Theorem C08_state_inventory :
  Mpc.Base.StateCheck.state_unchanged Mpc.Gen.State.state_inventory Mpc.Base.StateExpected.expected_state
    Mpc.Base.StatePkgs.pkgs_C08 = true.
Proof. vm_compute. reflexivity. Qed.
Print Assumptions C08_state_inventory.
